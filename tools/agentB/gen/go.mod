module gen
go 1.21
