package main

import (
	"bufio"
	"encoding/hex"
	"fmt"
	"math/rand"
	"net/url"
	"os"
	"path/filepath"
	"strings"
	"unicode"
	"unicode/utf8"
)

var w *bufio.Writer

func hx(s string) string { return "x" + hex.EncodeToString([]byte(s)) }

var seenU = map[string]bool{}
var nU, nG, nL, nF, nO int

func emitU(s string) {
	if seenU[s] {
		return
	}
	seenU[s] = true
	nU++
	u, err := url.Parse(s)
	if err != nil {
		fmt.Fprintf(w, "U %s E\n", hx(s))
	} else {
		fmt.Fprintf(w, "U %s %s\n", hx(s), hx(u.Host))
	}
}

var seenG = map[string]bool{}

func emitG(p, n string) {
	k := p + "\x00|\x00" + n
	if seenG[k] {
		return
	}
	seenG[k] = true
	nG++
	m, err := filepath.Match(p, n)
	r := "F"
	if err != nil {
		r = "B"
	} else if m {
		r = "T"
	}
	fmt.Fprintf(w, "G %s %s %s\n", hx(p), hx(n), r)
}

func emitL(s string) {
	nL++
	fmt.Fprintf(w, "L %s %s\n", hx(s), hx(strings.ToLower(s)))
}

func emitF(a, b string) {
	nF++
	r := "F"
	if strings.EqualFold(a, b) {
		r = "T"
	}
	fmt.Fprintf(w, "F %s %s %s\n", hx(a), hx(b), r)
}

// verbatim copy of authenticateOrigin's decision (accept.go:206-238)
func authOrigin(host string, origin string, originHosts []string) bool {
	if origin == "" {
		return true
	}
	u, err := url.Parse(origin)
	if err != nil {
		return false
	}
	if strings.EqualFold(host, u.Host) {
		return true
	}
	for _, hostPattern := range originHosts {
		matched, err := filepath.Match(strings.ToLower(hostPattern), strings.ToLower(u.Host))
		if err != nil {
			return false
		}
		if matched {
			return true
		}
	}
	return false
}

func emitO(host, origin string, pats []string) {
	nO++
	r := "R"
	if authOrigin(host, origin, pats) {
		r = "A"
	}
	hp := make([]string, len(pats))
	for i, p := range pats {
		hp[i] = hx(p)
	}
	ps := strings.Join(hp, ",")
	if ps == "" {
		ps = "-"
	}
	fmt.Fprintf(w, "O %s %s %s %s\n", hx(host), hx(origin), ps, r)
}

func pick(r *rand.Rand, l []string) string { return l[r.Intn(len(l))] }

func randStr(r *rand.Rand, alpha []string, maxLen int) string {
	n := r.Intn(maxLen + 1)
	var b strings.Builder
	for i := 0; i < n; i++ {
		b.WriteString(alpha[r.Intn(len(alpha))])
	}
	return b.String()
}

func main() {
	f, _ := os.Create(os.Args[1])
	defer f.Close()
	w = bufio.NewWriterSize(f, 1<<20)
	defer w.Flush()
	r := rand.New(rand.NewSource(20260925))

	// ---------------- url ----------------
	schemes := []string{"http", "https", "ws", "", "HTTP", "h+t.p-1", "1http", ":"}
	slashes := []string{"//", "/", "///", ""}
	users := []string{"", "user@", "user:pw@", "a@b@", "ho%20st@", "bad%zz@", "@", "us\xc3\xa9r@", "u:%4:1@", "u/x@", "u?x@", "u#x@", "u;x=1@", "u<@"}
	hosts := []string{"example.com", "EXAMPLE.com", "sub.example.com", "example.com.evil.io", "evilexample.com",
		"[::1]", "[fe80::1%25eth0]", "[::1", "exa mple.com", "ex%41mple.com", "ex%C3%A9.com", "ex%25.com",
		"a\\b", "", "host^", "h{", "h|", "h\"", "h<", "h>", "h`", "h}", "ex\xc3\xa9.com", "\xe2\x84\xaa.com", "\xff.com",
		"[fe80::1%25e%20th0]", "[fe80::1%25e%2Fth]", "[fe80::1%25e%41]", "[fe80::1%25e%c3%a9]", "[fe80::1%25%zz]", "[fe80::1%25eth0]x",
		"[::1]%25", "[a%25b]%25", "[%25]", "[%2", "[a]b]", "]", "a]", "a[b]", "h%2Fx", "h%40x", "h%3Fx", "h%23x", "h%80x", "h%7Fx", "h%ffx",
		"h%2", "h%", "h%g0", "h'x", "h(x)", "h*x", "h+x", "h,x", "h;x", "h=x", "h!x", "h$x", "h&x", "h_x", "h~x", "h-x", "[fe80::1%25a%25b%3A]", "[::1%2525]", "[::1%25\xff]"}
	ports := []string{"", ":80", ":", ":x", ":80:90", ":-1", ":8\xc3\xa9", ":0000000000000000000080", ":80 "}
	paths := []string{"", "/", "/p", "/p?x", "/a:b", "/%zz", "/example.com", "/%41", "/%4", "/%", "/a b", "/\xff", "//x", "/a/%2f/b"}
	queries := []string{"", "?q=1", "?host=example.com", "?", "?%zz", "??", "?a?", "?a#"}
	frags := []string{"", "#f", "#example.com", "#%zz", "#", "#%41", "#a#b", "#\x01", "#%4", "##"}

	build := func(sc, sl, us, ho, po, pa, qu, fr string) string {
		s := sc
		if sc != "" && sc != ":" {
			s += ":"
		}
		return s + sl + us + ho + po + pa + qu + fr
	}
	// exhaustive on scheme x slashes x user x host x port
	for _, sc := range schemes {
		for _, sl := range slashes {
			for _, us := range users {
				for _, ho := range hosts {
					for _, po := range ports {
						emitU(build(sc, sl, us, ho, po, "", "", ""))
					}
				}
			}
		}
	}
	// exhaustive on scheme x slashes x (3 hosts) x path x query x frag
	for _, sc := range schemes {
		for _, sl := range slashes {
			for _, ho := range []string{"example.com", "", "[::1]:80", "a:b"} {
				for _, pa := range paths {
					for _, qu := range queries {
						for _, fr := range frags {
							emitU(build(sc, sl, "", ho, "", pa, qu, fr))
						}
					}
				}
			}
		}
	}
	// random sample of the full product
	for i := 0; i < 200000; i++ {
		emitU(build(pick(r, schemes), pick(r, slashes), pick(r, users), pick(r, hosts), pick(r, ports), pick(r, paths), pick(r, queries), pick(r, frags)))
	}
	special := []string{"null", "mailto:x@y", "http:example.com", "http:/example.com", "example.com", "example.com:80",
		"//example.com", "a:b", "%zz", "*", "**", "*#", "*#f", "*?", "*#%zz", "", "#", "?", "/", "//", "///", "////", ":", "::", "a:", "a:/", "a://", "a:///", "a:////",
		"///example.com", "//example.com///", "http:///example.com", "http:////example.com", "//a@b@c", "//@", "//@@", "//:@:", "//[", "//[]", "//[]:", "//[]:80", "//[]80",
		"1:2", "a/b:c", "a?b:c", "a#b:c", "./a:b", "+:", "a+:", "-a:x", ".a:x", "a.:x", "A:x", "a_b:c", "a\xc3\xa9:b", "//\xc3\xa9", "//a:\xc3\xa9",
		" http://example.com", "http://example.com ", "http ://example.com", "http: //example.com", "http:/ /example.com", "http:// example.com", " ", "  ",
		"http://example.com\\@evil.com", "http://evil.com\\@example.com", "http://example.com#@evil.com", "http://evil.com#@example.com",
		"http://example.com?@evil.com", "http://evil.com?@example.com/", "http://example.com%2f@evil.com", "http://example.com:80@evil.com", "http://example.com:@evil.com:",
		"http://%65xample.com", "http://example.com%00", "http://example.com%0a", "http://[::1]:80:90", "http://[::1]]:80", "http://[[::1]]", "http://[::1]:", "http://[::1]:x", "http://[::1]x:80",
	}
	for _, s := range special {
		emitU(s)
	}
	// control bytes / spaces at random positions
	bases := []string{"http://example.com", "https://user:pw@example.com:80/p?q=1#f", "//example.com/p", "example.com", "http://[fe80::1%25eth0]:80/", "mailto:x@y", "/p?q#f"}
	ctl := []string{"\x00", "\x1f", "\x7f", "\t", "\n", "\r", " ", "\x80", "\xff", "%", "#", "?", "@", ":", "/", "[", "]", "\\"}
	for _, b := range bases {
		for _, c := range ctl {
			for pos := 0; pos <= len(b); pos++ {
				emitU(b[:pos] + c + b[pos:])
			}
		}
		emitU(" " + b)
		emitU(b + " ")
		emitU(" " + b + " ")
	}
	// random byte strings
	alphaU := []string{"a", "b", "c", ":", "/", "@", "?", "#", "%", "[", "]", ".", " ", "\\", "2", "5", "f", "*", "\xc3", "\xa9", "\x7f", "-", "+"}
	for i := 0; i < 150000; i++ {
		emitU(randStr(r, alphaU, 12))
	}
	alphaU2 := []string{"a", ":", "/", "@", "[", "]", "%", "2", "5", "e", "0", "z", "?", "#"}
	for i := 0; i < 150000; i++ {
		emitU("//" + randStr(r, alphaU2, 12))
	}
	for i := 0; i < 50000; i++ {
		emitU("h://[" + randStr(r, alphaU2, 10))
	}
	// every single byte in host / zone / userinfo / scheme / port / after percent
	for c := 0; c < 256; c++ {
		ch := string([]byte{byte(c)})
		emitU("http://a" + ch + "b")
		emitU("http://[a" + ch + "b]")
		emitU("http://[a%25" + ch + "b]")
		emitU("http://u" + ch + "@h")
		emitU("a" + ch + "b://h")
		emitU(ch + "b://h")
		emitU("http://h:" + ch)
		emitU("http://h:8" + ch)
		emitU("http://[::1]" + ch)
		emitU("http://h/" + ch)
		emitU("http://h/?" + ch)
		emitU("http://h/#" + ch)
		emitU(ch)
		emitU(ch + ch)
		emitU("/" + ch)
		for _, d := range "0123456789abcdefABCDEFgG" {
			_ = d
		}
	}
	hexd := "0123456789abcdefABCDEFgG:"
	for _, a := range hexd {
		for _, b := range hexd {
			e := "%" + string(a) + string(b)
			emitU("http://h" + e)
			emitU("http://[::1%25" + e + "]")
			emitU("http://[" + e + "]")
			emitU("http://u" + e + "@h")
			emitU("http://h/" + e)
			emitU("http://h/#" + e)
			emitU("http://h/?" + e)
			emitU("x:" + e)
			emitU(e)
		}
	}

	// ---------------- glob ----------------
	alphaP := []string{"a", "b", ".", "*", "?", "[", "]", "-", "^", "\\", "/", "\xc3\xa9", "\xff"}
	alphaN := []string{"a", "b", ".", "/", "\xc3\xa9", "\xff"}
	structuredP := []string{"*.example.com", "example.*", "*", "[a-z]*.com", "[", "[]", "[^", "a[", "\\", "a\\", "[a-]", "[-a]", "[a-b-c]", "[\\]]",
		"", "**", "***a", "a*", "*a", "a*b", "a*b*c", "*a*", "?", "??", "?*", "*?", "[a]", "[^a]", "[a-b]", "[b-a]", "[^a-b]", "[]a]", "[^]a]", "[a]]", "[\\-]", "[a\\-b]", "[--a]",
		"[a-\\]]", "[\\a-b]", "[a", "[a-", "[a-b", "[^a", "[^]", "[]]", "[*]", "[?]", "[[]", "\\*", "\\?", "\\[", "\\\\", "\\a", "a\\b", "*\\", "*[", "*[a", "a*[", "b*[", "a*\\", "b*\\", "x*[]",
		"[\xc3\xa9]", "[\xc3]", "[\xff]", "[a-\xff]", "[\xc3\xa9-\xc3\xaa]", "[a-\xc3\xa9]", "?\xa9", "\xc3?", "[\xef\xbf\xbd]", "[^\xef\xbf\xbd]", "[\x00]", "[^\x00]", "a[\x00]", "b[\x00]", "b[^\x00]",
		"*/*", "*/", "/*", "a/*", "*/b", "?/", "[/]", "[^a]b", "*.*.com", "*.com", "*example.com", "example.com", "ex*le.com", "*:80", "*:*", "[[]::1]", "[[]*]", "\\[::1\\]", "[::1]",
		"*[a-z].com", "*[", "a*[", "*a[", "**[", "*]", "]", "a]", "-", "^", "[^^]", "[a^]", "[!a]"}
	structuredN := []string{"", "a", "b", "ab", "ba", "abc", "a/b", "/", "a/", "/a", "example.com", "sub.example.com", "a.b.example.com", "evilexample.com", "example.com.evil.io",
		"example.org", "example.", ".example.com", "x.com", "abc.com", "1.com", "a/b.com", "sub/.example.com", "]", "-", "^", "*", "?", "[", "\\", "a]", "\xc3\xa9", "\xc3", "\xa9", "\xff",
		"\xef\xbf\xbd", "\x00", "a\xc3\xa9", "\xc3\xa9a", "\xc3\xaa", "example.com:80", "[::1]", "[::1]:80", ":", "!", "a\\b", "ab]", "b]", "\xe2\x84\xaa", "\xf0\x9f\x98\x80", "\xf0\x9f\x98", "\xed\xa0\x80", "\xc0\x80", "\xe0\x80\x80", "\xf4\x90\x80\x80", "\xf5\x80\x80\x80", "\xc2\x80", "\xdf\xbf", "\xe0\xa0\x80", "\xef\xbf\xbf", "\xf0\x90\x80\x80", "\xf4\x8f\xbf\xbf"}
	for _, p := range structuredP {
		for _, n := range structuredN {
			emitG(p, n)
		}
	}
	for i := 0; i < 400000; i++ {
		emitG(randStr(r, alphaP, 7), randStr(r, alphaN, 6))
	}
	// patterns with a random pattern and several names derived from it
	for i := 0; i < 100000; i++ {
		p := randStr(r, alphaP, 7)
		n := strings.NewReplacer("*", randStr(r, alphaN, 2), "?", pick(r, alphaN), "\\", "", "[", "", "]", "", "^", "").Replace(p)
		emitG(p, n)
	}
	// utf-8 decoder coverage through ? and classes: every 1..4 byte string over interesting bytes
	ub := []byte{0x00, 0x41, 0x7f, 0x80, 0x8f, 0x90, 0x9f, 0xa0, 0xbf, 0xc0, 0xc1, 0xc2, 0xdf, 0xe0, 0xe1, 0xec, 0xed, 0xee, 0xef, 0xf0, 0xf1, 0xf3, 0xf4, 0xf5, 0xff}
	for i := 0; i < 60000; i++ {
		n := 1 + r.Intn(4)
		b := make([]byte, n)
		for j := range b {
			b[j] = ub[r.Intn(len(ub))]
		}
		s := string(b)
		emitG("?", s)
		emitG("??", s)
		emitG("["+s+"]", s)
		emitG("[^"+s+"]", s)
		emitG("[a-"+s+"]", "b")
		emitG("[\x01-\xf4\x8f\xbf\xbf]", s)
		emitG("[\xc2\x80-\xf4\x8f\xbf\xbf]", s)
		emitG("[\xef\xbf\xbd]", s)
	}

	// ---------------- fold ----------------
	alphaL := []string{"a", "A", "z", "Z", "@", "[", "`", "{", "0", ".", "-", "k", "K", "s", "S", "\xc3\xa9", "\xe4\xb8\x96", "\xc5\xbf"}
	for i := 0; i < 20000; i++ {
		emitL(randStr(r, alphaL, 10))
	}
	for c := 0; c < 128; c++ {
		emitL(string([]byte{byte(c)}))
		emitL("x" + string([]byte{byte(c)}) + "Y")
	}
	alphaF := []string{"a", "A", "b", "B", "k", "K", "s", "S", "\xe2\x84\xaa", "\xc5\xbf", "z", "Z", "@", "`", "[", "{", ".", "\xc3\xa9", "\xe4\xb8\x96", "\xff", "\xfe", "\xc3", "\xe2\x84", "\xef\xbf\xbd", "\x00", "0"}
	for i := 0; i < 150000; i++ {
		a := randStr(r, alphaF, 6)
		emitF(a, randStr(r, alphaF, 6))
		// a case-variant of a
		var b strings.Builder
		for _, part := range splitAlpha(a, alphaF) {
			switch {
			case r.Intn(3) == 0 && (part == "k" || part == "K"):
				b.WriteString("\xe2\x84\xaa")
			case r.Intn(3) == 0 && (part == "s" || part == "S"):
				b.WriteString("\xc5\xbf")
			case r.Intn(3) == 0 && part == "\xe2\x84\xaa":
				b.WriteString(pick(r, []string{"k", "K"}))
			case r.Intn(3) == 0 && part == "\xc5\xbf":
				b.WriteString(pick(r, []string{"s", "S"}))
			case r.Intn(2) == 0:
				b.WriteString(swapASCII(part))
			default:
				b.WriteString(part)
			}
		}
		emitF(a, b.String())
		emitF(b.String(), a)
		emitF(a, b.String()+pick(r, alphaF))
	}
	for c := 0; c < 256; c++ {
		for d := 0; d < 256; d++ {
			emitF(string([]byte{byte(c)}), string([]byte{byte(d)}))
		}
	}
	for _, p := range [][2]string{{"example.com", "EXAMPLE.COM"}, {"example.com", "example.co"}, {"", ""}, {"", "a"}, {"a", ""}, {"K", "\xe2\x84\xaa"}, {"k", "\xe2\x84\xaa"}, {"s", "\xc5\xbf"}, {"S", "\xc5\xbf"}, {"\xe2\x84\xaa", "\xe2\x84\xaa"}, {"sky.com", "\xc5\xbf\xe2\x84\xaay.com"}} {
		emitF(p[0], p[1])
		emitF(p[1], p[0])
	}

	// ---------------- whole decision ----------------
	reqHosts := []string{"example.com", "EXAMPLE.COM", "example.com:80", "", "sky.com", "[::1]:80"}
	patSets := [][]string{{}, {"*.example.com"}, {"example.com"}, {"*"}, {"["}, {"a[", "*"}, {"*", "["}, {"evil.io", "*.EXAMPLE.com"}, {"*.Example.COM:*"}, {"sky.com"}, {"[[]::1]"}, {"example.*", "[a"}, {"*example.com"}, {"b*["}}
	var origins []string
	for _, sc := range []string{"http", "https", "", "HTTP"} {
		for _, sl := range []string{"//", "/", ""} {
			for _, us := range []string{"", "user@", "example.com@", "a@b@"} {
				for _, ho := range hosts {
					for _, po := range []string{"", ":80", ":x"} {
						origins = append(origins, build(sc, sl, us, ho, po, "", "", ""))
					}
				}
			}
		}
	}
	origins = append(origins, special...)
	for i := 0; i < 120000; i++ {
		emitO(pick(r, reqHosts), pick(r, origins), patSets[r.Intn(len(patSets))])
	}

	// exact list of non-ASCII runes that lower/fold into ASCII (documentation of the model limits)
	fmt.Fprintf(os.Stderr, "cases: U=%d G=%d L=%d F=%d O=%d\n", nU, nG, nL, nF, nO)
	for rn := rune(128); rn <= unicode.MaxRune; rn++ {
		if l := unicode.ToLower(rn); l < 128 {
			fmt.Fprintf(os.Stderr, "ToLower(U+%04X)=%q\n", rn, l)
		}
		for f := unicode.SimpleFold(rn); f != rn; f = unicode.SimpleFold(f) {
			if f < 128 {
				fmt.Fprintf(os.Stderr, "SimpleFold orbit of U+%04X contains %q\n", rn, f)
			}
		}
	}
	_ = utf8.RuneError
}

func splitAlpha(s string, alpha []string) []string {
	var out []string
	for len(s) > 0 {
		best := s[:1]
		for _, a := range alpha {
			if strings.HasPrefix(s, a) && len(a) > len(best) {
				best = a
			}
		}
		out = append(out, best)
		s = s[len(best):]
	}
	return out
}

func swapASCII(s string) string {
	b := []byte(s)
	for i, c := range b {
		if 'a' <= c && c <= 'z' {
			b[i] = c - 32
		} else if 'A' <= c && c <= 'Z' {
			b[i] = c + 32
		}
	}
	return string(b)
}
