let unhex s = (* "x6162" -> int list *)
  let n = (String.length s - 1) / 2 in
  List.init n (fun i -> int_of_string ("0x" ^ String.sub s (1 + 2*i) 2))
let tohex l = "x" ^ String.concat "" (List.map (Printf.sprintf "%02x") l)
let () =
  let ic = open_in Sys.argv.(1) in
  let cnt = Hashtbl.create 8 and bad = Hashtbl.create 8 in
  let bump h k = Hashtbl.replace h k (1 + try Hashtbl.find h k with Not_found -> 0) in
  (try while true do
    let line = input_line ic in
    let f = Array.of_list (String.split_on_char ' ' line) in
    let k = f.(0) in
    bump cnt k;
    let got, want =
      match k with
      | "U" -> (match M.url_host_of (unhex f.(1)) with None -> "E" | Some h -> tohex h), f.(2)
      | "G" -> (match M.glob_match (unhex f.(1)) (unhex f.(2)) with M.GlobBad -> "B" | M.GlobOk true -> "T" | M.GlobOk false -> "F"), f.(3)
      | "L" -> tohex (M.fold_lower (unhex f.(1))), f.(2)
      | "F" -> (if M.fold_eq (unhex f.(1)) (unhex f.(2)) then "T" else "F"), f.(3)
      | "O" ->
        let pats = if f.(3) = "-" then [] else List.map unhex (String.split_on_char ',' f.(3)) in
        let o = unhex f.(2) in
        (match M.origin_authenticate (unhex f.(1)) (Some o) pats with M.OAllow -> "A" | M.ORefuse -> "R"), f.(4)
      | _ -> "?", "!" in
    if got <> want then begin
      bump bad k;
      if (Hashtbl.find bad k) <= 15 then Printf.printf "MISMATCH %s  model=%s\n" line got
    end
  done with End_of_file -> ());
  List.iter (fun k -> Printf.printf "%s: cases=%d mismatches=%d\n" k
    (try Hashtbl.find cnt k with Not_found -> 0) (try Hashtbl.find bad k with Not_found -> 0)) ["U";"G";"L";"F";"O"]
