// mutate: a small source-level mutation generator for the Go library under /repo (development aid of /verif, not a registered check).
// It lists mutation sites (relational / logical / arithmetic operators, boolean literals, unary not, small integer literals, and
// deletable expression statements) in the given files and writes the i-th mutant of a file.
//
//	mutate -list file.go              prints "index kind line:col original -> replacement"
//	mutate -apply N file.go > out.go  writes the file with mutation N applied
package main

import (
	"flag"
	"fmt"
	"go/ast"
	"go/parser"
	"go/token"
	"os"
	"sort"
	"strconv"
)

type site struct {
	off, end int
	repl     string
	kind     string
	pos      token.Position
	orig     string
}

func main() {
	list := flag.Bool("list", false, "list mutation sites")
	apply := flag.Int("apply", -1, "apply mutation N")
	flag.Parse()
	file := flag.Arg(0)
	src, err := os.ReadFile(file)
	if err != nil {
		panic(err)
	}
	fset := token.NewFileSet()
	f, err := parser.ParseFile(fset, file, src, parser.ParseComments)
	if err != nil {
		panic(err)
	}
	var sites []site
	add := func(p token.Pos, n int, repl, kind string) {
		o := fset.Position(p).Offset
		sites = append(sites, site{off: o, end: o + n, repl: repl, kind: kind, pos: fset.Position(p), orig: string(src[o : o+n])})
	}
	swap := map[token.Token]string{token.LSS: "<=", token.LEQ: "<", token.GTR: ">=", token.GEQ: ">", token.EQL: "!=", token.NEQ: "==",
		token.LAND: "||", token.LOR: "&&", token.ADD: "-", token.SUB: "+"}
	ast.Inspect(f, func(n ast.Node) bool {
		switch x := n.(type) {
		case *ast.BinaryExpr:
			if r, ok := swap[x.Op]; ok {
				// skip string concatenation
				if x.Op == token.ADD {
					if bl, ok := x.X.(*ast.BasicLit); ok && bl.Kind == token.STRING {
						return true
					}
					if bl, ok := x.Y.(*ast.BasicLit); ok && bl.Kind == token.STRING {
						return true
					}
				}
				add(x.OpPos, len(x.Op.String()), r, "binop")
			}
		case *ast.UnaryExpr:
			if x.Op == token.NOT {
				add(x.OpPos, 1, "", "not")
			}
		case *ast.Ident:
			if x.Name == "true" && x.Obj == nil {
				add(x.NamePos, 4, "false", "bool")
			} else if x.Name == "false" && x.Obj == nil {
				add(x.NamePos, 5, "true", "bool")
			}
		case *ast.BasicLit:
			if x.Kind == token.INT {
				if v, err := strconv.ParseInt(x.Value, 0, 64); err == nil && v >= 0 && v < 100000 {
					add(x.ValuePos, len(x.Value), strconv.FormatInt(v+1, 10), "int")
				}
			}
		case *ast.ExprStmt:
			// delete a call statement (not a panic / defer target)
			if c, ok := x.X.(*ast.CallExpr); ok {
				if id, ok := c.Fun.(*ast.Ident); ok && (id.Name == "panic" || id.Name == "vhook" || id.Name == "vpool") {
					return true
				}
				o := fset.Position(x.Pos()).Offset
				e := fset.Position(x.End()).Offset
				sites = append(sites, site{off: o, end: e, repl: "_ = 0", kind: "delstmt", pos: fset.Position(x.Pos()), orig: string(src[o:e])})
			}
		case *ast.ReturnStmt:
			// nothing
		}
		return true
	})
	sort.Slice(sites, func(i, j int) bool { return sites[i].off < sites[j].off })
	if *list {
		for i, s := range sites {
			o := s.orig
			if len(o) > 40 {
				o = o[:40] + "…"
			}
			fmt.Printf("%d %s %d:%d %q -> %q\n", i, s.kind, s.pos.Line, s.pos.Column, o, s.repl)
		}
		return
	}
	if *apply >= 0 && *apply < len(sites) {
		s := sites[*apply]
		os.Stdout.Write(src[:s.off])
		os.Stdout.WriteString(s.repl)
		os.Stdout.Write(src[s.end:])
		return
	}
	fmt.Fprintln(os.Stderr, "nothing to do")
	os.Exit(2)
}
