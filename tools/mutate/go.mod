module mutate

go 1.21
