// constx: a small Go→Gallina translator.  It regenerates, from /repo's current source,
//
//	Gen/Consts.v     named constants and the literals inside function bodies that the model depends on
//	Gen/CloseCode.v  the body of validWireCloseCode, translated statement by statement
//
// It refuses (exit 1) anything outside its grammar, so that a source change it cannot render
// faithfully breaks the tie instead of being silently ignored.
package main

import (
	"fmt"
	"go/ast"
	"go/constant"
	"go/parser"
	"go/token"
	"os"
	"path/filepath"
	"sort"
	"strings"
)

type env struct {
	consts map[string]constant.Value
	fset   *token.FileSet
	files  map[string]*ast.File
}

func fail(format string, a ...interface{}) {
	fmt.Fprintf(os.Stderr, "constx: "+format+"\n", a...)
	os.Exit(1)
}

func (e *env) eval(x ast.Expr, iota int64) (constant.Value, bool) {
	switch v := x.(type) {
	case *ast.BasicLit:
		return constant.MakeFromLiteral(v.Value, v.Kind, 0), true
	case *ast.Ident:
		if v.Name == "iota" {
			return constant.MakeInt64(iota), true
		}
		c, ok := e.consts[v.Name]
		return c, ok
	case *ast.ParenExpr:
		return e.eval(v.X, iota)
	case *ast.BinaryExpr:
		a, ok1 := e.eval(v.X, iota)
		b, ok2 := e.eval(v.Y, iota)
		if !ok1 || !ok2 {
			return nil, false
		}
		switch v.Op {
		case token.SHL, token.SHR:
			s, _ := constant.Uint64Val(b)
			return constant.Shift(a, v.Op, uint(s)), true
		case token.ADD, token.SUB, token.MUL, token.QUO, token.REM, token.AND, token.OR, token.XOR:
			op := v.Op
			if op == token.QUO && a.Kind() == constant.Int {
				op = token.QUO_ASSIGN
			}
			return constant.BinaryOp(a, op, b), true
		}
		return nil, false
	case *ast.CallExpr: // conversions like opcode(x), StatusCode(1000)
		if len(v.Args) == 1 {
			return e.eval(v.Args[0], iota)
		}
	case *ast.SelectorExpr: // math.MaxUint16 and friends
		if id, ok := v.X.(*ast.Ident); ok && id.Name == "http" { // the net/http status names the handshake uses (RFC 9110 values)
			switch v.Sel.Name {
			case "StatusBadRequest":
				return constant.MakeInt64(400), true
			case "StatusForbidden":
				return constant.MakeInt64(403), true
			case "StatusMethodNotAllowed":
				return constant.MakeInt64(405), true
			case "StatusUpgradeRequired":
				return constant.MakeInt64(426), true
			case "StatusNotImplemented":
				return constant.MakeInt64(501), true
			case "StatusSwitchingProtocols":
				return constant.MakeInt64(101), true
			}
		}
		if id, ok := v.X.(*ast.Ident); ok && id.Name == "math" {
			switch v.Sel.Name {
			case "MaxUint16":
				return constant.MakeInt64(65535), true
			case "MaxInt64":
				return constant.MakeInt64(1<<63 - 1), true
			}
		}
	}
	return nil, false
}

func (e *env) collectConsts() {
	// iterate to a fixpoint so that order of declaration does not matter
	for pass := 0; pass < 4; pass++ {
		for _, f := range e.files {
			for _, d := range f.Decls {
				gd, ok := d.(*ast.GenDecl)
				if !ok || gd.Tok != token.CONST {
					continue
				}
				var last []ast.Expr
				for i, s := range gd.Specs {
					vs := s.(*ast.ValueSpec)
					vals := vs.Values
					if len(vals) == 0 {
						vals = last
					} else {
						last = vals
					}
					for j, n := range vs.Names {
						if n.Name == "_" || j >= len(vals) {
							continue
						}
						if c, ok := e.eval(vals[j], int64(i)); ok {
							e.consts[n.Name] = c
						}
					}
				}
			}
		}
	}
}

func (e *env) fn(name string) *ast.FuncDecl {
	for _, f := range e.files {
		for _, d := range f.Decls {
			if fd, ok := d.(*ast.FuncDecl); ok && fd.Name.Name == name && fd.Body != nil {
				return fd
			}
		}
	}
	fail("function %s not found", name)
	return nil
}

// fnIn finds a function declared in the given file (several files declare functions of the same name on different receivers).
func (e *env) fnIn(file, name string) *ast.FuncDecl {
	f, ok := e.files[file]
	if !ok {
		fail("file %s not found", file)
	}
	for _, d := range f.Decls {
		if fd, ok := d.(*ast.FuncDecl); ok && fd.Name.Name == name && fd.Body != nil {
			return fd
		}
	}
	fail("function %s not found in %s", name, file)
	return nil
}

// fnRecv finds the method name of the receiver type recv (pointer or value) in the given file.
func (e *env) fnRecv(file, recv, name string) *ast.FuncDecl {
	f, ok := e.files[file]
	if !ok {
		fail("file %s not found", file)
	}
	for _, d := range f.Decls {
		fd, ok := d.(*ast.FuncDecl)
		if !ok || fd.Name.Name != name || fd.Body == nil || fd.Recv == nil || len(fd.Recv.List) != 1 {
			continue
		}
		t := fd.Recv.List[0].Type
		if st, ok := t.(*ast.StarExpr); ok {
			t = st.X
		}
		if id, ok := t.(*ast.Ident); ok && id.Name == recv {
			return fd
		}
	}
	fail("method %s.%s not found in %s", recv, name, file)
	return nil
}

// secondsIn finds  time.Second*N / time.Second * N  inside calls to the given callee within fn.
func (e *env) secondsIn(fnName, callee string) int64 {
	fd := e.fn(fnName)
	var found []int64
	ast.Inspect(fd.Body, func(n ast.Node) bool {
		ce, ok := n.(*ast.CallExpr)
		if !ok {
			return true
		}
		sel, ok := ce.Fun.(*ast.SelectorExpr)
		if !ok || sel.Sel.Name != callee {
			return true
		}
		for _, a := range ce.Args {
			if be, ok := a.(*ast.BinaryExpr); ok && be.Op == token.MUL {
				for _, pair := range [][2]ast.Expr{{be.X, be.Y}, {be.Y, be.X}} {
					if s, ok := pair[0].(*ast.SelectorExpr); ok && s.Sel.Name == "Second" {
						if c, ok := e.eval(pair[1], 0); ok {
							v, _ := constant.Int64Val(c)
							found = append(found, v)
						}
					}
				}
			}
		}
		return true
	})
	if len(found) != 1 {
		fail("%s: expected exactly one %s(time.Second*N), found %d", fnName, callee, len(found))
	}
	return found[0]
}

// assignedLits returns, in source order, the integer literals assigned to the selector field within fn.
func (e *env) assignedLits(fnName, field string) []int64 {
	fd := e.fn(fnName)
	var out []int64
	ast.Inspect(fd.Body, func(n ast.Node) bool {
		as, ok := n.(*ast.AssignStmt)
		if !ok || len(as.Lhs) != 1 || len(as.Rhs) != 1 {
			return true
		}
		if sel, ok := as.Lhs[0].(*ast.SelectorExpr); ok && sel.Sel.Name == field {
			if c, ok := e.eval(as.Rhs[0], 0); ok && c.Kind() == constant.Int {
				v, _ := constant.Int64Val(c)
				out = append(out, v)
			}
		}
		return true
	})
	return out
}

// callArg returns the constant value of argument idx of the (single) call to callee within fn.
func (e *env) callArg(fnName, callee string, idx int) int64 {
	fd := e.fn(fnName)
	var out []int64
	ast.Inspect(fd.Body, func(n ast.Node) bool {
		ce, ok := n.(*ast.CallExpr)
		if !ok {
			return true
		}
		name := ""
		switch f := ce.Fun.(type) {
		case *ast.Ident:
			name = f.Name
		case *ast.SelectorExpr:
			name = f.Sel.Name
		}
		if name == callee && idx < len(ce.Args) {
			if c, ok := e.eval(ce.Args[idx], 0); ok {
				v, _ := constant.Int64Val(c)
				out = append(out, v)
			}
		}
		return true
	})
	if len(out) != 1 {
		fail("%s: expected exactly one constant call %s(...), found %d", fnName, callee, len(out))
	}
	return out[0]
}

func coqBytes(s string) string {
	var parts []string
	for i := 0; i < len(s); i++ {
		parts = append(parts, fmt.Sprint(s[i]))
	}
	return "[" + strings.Join(parts, "; ") + "]%N"
}

// ---- translation of a boolean function over one integer parameter ----

func (e *env) trExprZ(x ast.Expr, param string) string {
	if id, ok := x.(*ast.Ident); ok && id.Name == param {
		return param
	}
	if c, ok := e.eval(x, 0); ok && c.Kind() == constant.Int {
		return "(" + c.ExactString() + ")"
	}
	fail("validWireCloseCode: expression outside the grammar at %v", e.fset.Position(x.Pos()))
	return ""
}

func (e *env) trCond(x ast.Expr, param string) string {
	switch v := x.(type) {
	case *ast.ParenExpr:
		return e.trCond(v.X, param)
	case *ast.UnaryExpr:
		if v.Op == token.NOT {
			return "(negb " + e.trCond(v.X, param) + ")"
		}
	case *ast.BinaryExpr:
		switch v.Op {
		case token.LAND:
			return "(andb " + e.trCond(v.X, param) + " " + e.trCond(v.Y, param) + ")"
		case token.LOR:
			return "(orb " + e.trCond(v.X, param) + " " + e.trCond(v.Y, param) + ")"
		}
		a, b := e.trExprZ(v.X, param), e.trExprZ(v.Y, param)
		switch v.Op {
		case token.GEQ:
			return fmt.Sprintf("(Z.leb %s %s)", b, a)
		case token.LEQ:
			return fmt.Sprintf("(Z.leb %s %s)", a, b)
		case token.GTR:
			return fmt.Sprintf("(Z.ltb %s %s)", b, a)
		case token.LSS:
			return fmt.Sprintf("(Z.ltb %s %s)", a, b)
		case token.EQL:
			return fmt.Sprintf("(Z.eqb %s %s)", a, b)
		case token.NEQ:
			return fmt.Sprintf("(negb (Z.eqb %s %s))", a, b)
		}
	}
	fail("validWireCloseCode: condition outside the grammar at %v", e.fset.Position(x.Pos()))
	return ""
}

func boolLit(x ast.Expr) (string, bool) {
	if id, ok := x.(*ast.Ident); ok && (id.Name == "true" || id.Name == "false") {
		return id.Name, true
	}
	return "", false
}

func (e *env) singleReturn(stmts []ast.Stmt) (string, bool) {
	if len(stmts) != 1 {
		return "", false
	}
	rs, ok := stmts[0].(*ast.ReturnStmt)
	if !ok || len(rs.Results) != 1 {
		return "", false
	}
	return boolLit(rs.Results[0])
}

func (e *env) trStmts(stmts []ast.Stmt, param string) string {
	if len(stmts) == 0 {
		fail("validWireCloseCode: control reaches the end of the function without return")
	}
	switch s := stmts[0].(type) {
	case *ast.ReturnStmt:
		if len(s.Results) == 1 {
			if b, ok := boolLit(s.Results[0]); ok {
				return b
			}
		}
	case *ast.IfStmt:
		if s.Init == nil && s.Else == nil {
			if b, ok := e.singleReturn(s.Body.List); ok {
				return fmt.Sprintf("if %s then %s else\n  %s", e.trCond(s.Cond, param), b, e.trStmts(stmts[1:], param))
			}
		}
	case *ast.SwitchStmt:
		if id, ok := s.Tag.(*ast.Ident); ok && id.Name == param && s.Init == nil {
			rest := e.trStmts(stmts[1:], param)
			// clauses are tried in order; no fallthrough allowed; default must be absent
			out := ""
			for _, c := range s.Body.List {
				cc := c.(*ast.CaseClause)
				if cc.List == nil {
					fail("validWireCloseCode: default clause outside the grammar")
				}
				b, ok := e.singleReturn(cc.Body)
				if !ok {
					fail("validWireCloseCode: case body outside the grammar at %v", e.fset.Position(cc.Pos()))
				}
				var alts []string
				for _, v := range cc.List {
					alts = append(alts, fmt.Sprintf("(Z.eqb %s %s)", param, e.trExprZ(v, param)))
				}
				cond := alts[len(alts)-1]
				for i := len(alts) - 2; i >= 0; i-- {
					cond = fmt.Sprintf("(orb %s %s)", alts[i], cond)
				}
				out += fmt.Sprintf("if %s then %s else\n  ", cond, b)
			}
			return out + rest
		}
	}
	fail("validWireCloseCode: statement outside the grammar at %v", e.fset.Position(stmts[0].Pos()))
	return ""
}

// ---- translation over named atoms (selectors, identifiers and parameterless calls of the source mapped to Gallina variables) ----

type atoms struct {
	z map[string]string // integer-valued source expressions -> Gallina variable of type Z
	b map[string]string // boolean-valued source expressions -> Gallina variable of type bool
	w string            // what is being translated (for messages)
}

func exprKey(x ast.Expr) string {
	switch v := x.(type) {
	case *ast.BasicLit:
		return v.Value
	case *ast.Ident:
		return v.Name
	case *ast.SelectorExpr:
		return exprKey(v.X) + "." + v.Sel.Name
	case *ast.CallExpr:
		if len(v.Args) == 0 {
			return exprKey(v.Fun) + "()"
		}
		if len(v.Args) == 1 { // conversions such as byte(h.payloadLength), int64(x)
			if id, ok := v.Fun.(*ast.Ident); ok {
				switch id.Name {
				case "byte", "int", "int64", "uint64", "uint16", "opcode":
					return exprKey(v.Args[0])
				}
			}
		}
		var as []string
		for _, x := range v.Args {
			as = append(as, exprKey(x))
		}
		return exprKey(v.Fun) + "(" + strings.Join(as, ",") + ")"
	case *ast.ParenExpr:
		return exprKey(v.X)
	case *ast.BinaryExpr:
		return exprKey(v.X) + v.Op.String() + exprKey(v.Y)
	}
	return "?"
}

func (e *env) azExpr(x ast.Expr, a atoms) string {
	if v, ok := a.z[exprKey(x)]; ok {
		return v
	}
	if c, ok := e.eval(x, 0); ok && c.Kind() == constant.Int {
		return "(" + c.ExactString() + ")"
	}
	fail("%s: integer expression outside the grammar at %v", a.w, e.fset.Position(x.Pos()))
	return ""
}

func (e *env) aCond(x ast.Expr, a atoms) string {
	if v, ok := a.b[exprKey(x)]; ok {
		return v
	}
	switch v := x.(type) {
	case *ast.ParenExpr:
		return e.aCond(v.X, a)
	case *ast.UnaryExpr:
		if v.Op == token.NOT {
			return "(negb " + e.aCond(v.X, a) + ")"
		}
	case *ast.BinaryExpr:
		switch v.Op {
		case token.LAND:
			return "(andb " + e.aCond(v.X, a) + " " + e.aCond(v.Y, a) + ")"
		case token.LOR:
			return "(orb " + e.aCond(v.X, a) + " " + e.aCond(v.Y, a) + ")"
		}
		if v.Op == token.EQL || v.Op == token.NEQ {
			// comparisons with a string literal or nil are atoms of their own: <expr>==<literal>
			lit := ""
			if bl, ok := v.Y.(*ast.BasicLit); ok && bl.Kind == token.STRING {
				lit = bl.Value
			} else if id, ok := v.Y.(*ast.Ident); ok && id.Name == "nil" {
				lit = "nil"
			}
			if lit != "" {
				at, ok := a.b[exprKey(v.X)+"=="+lit]
				if !ok {
					fail("%s: comparison outside the grammar at %v", a.w, e.fset.Position(x.Pos()))
				}
				if v.Op == token.NEQ {
					return "(negb " + at + ")"
				}
				return at
			}
		}
		l, r := e.azExpr(v.X, a), e.azExpr(v.Y, a)
		switch v.Op {
		case token.GEQ:
			return fmt.Sprintf("(Z.leb %s %s)", r, l)
		case token.LEQ:
			return fmt.Sprintf("(Z.leb %s %s)", l, r)
		case token.GTR:
			return fmt.Sprintf("(Z.ltb %s %s)", r, l)
		case token.LSS:
			return fmt.Sprintf("(Z.ltb %s %s)", l, r)
		case token.EQL:
			return fmt.Sprintf("(Z.eqb %s %s)", l, r)
		case token.NEQ:
			return fmt.Sprintf("(negb (Z.eqb %s %s))", l, r)
		}
	}
	fail("%s: condition outside the grammar at %v", a.w, e.fset.Position(x.Pos()))
	return ""
}

// taglessSwitches returns the `switch { case cond: ... }` statements at the top level of a function body, in order.
func (e *env) taglessSwitches(fd *ast.FuncDecl) []*ast.SwitchStmt {
	var out []*ast.SwitchStmt
	for _, st := range fd.Body.List {
		if sw, ok := st.(*ast.SwitchStmt); ok && sw.Tag == nil && sw.Init == nil {
			out = append(out, sw)
		}
	}
	return out
}

// guardChain renders a tagless switch as nested ifs; body classifies a case body as a Gallina value of type Z.
func (e *env) guardChain(sw *ast.SwitchStmt, a atoms, body func(stmts []ast.Stmt) string, dflt string) string {
	out := ""
	for _, c := range sw.Body.List {
		cc := c.(*ast.CaseClause)
		if cc.List == nil {
			fail("%s: default clause outside the grammar", a.w)
		}
		if len(cc.List) != 1 {
			fail("%s: several expressions in one case outside the grammar", a.w)
		}
		for _, st := range cc.Body {
			if br, ok := st.(*ast.BranchStmt); ok && br.Tok == token.FALLTHROUGH {
				fail("%s: fallthrough outside the grammar", a.w)
			}
		}
		out += fmt.Sprintf("if %s then %s else\n  ", e.aCond(cc.List[0], a), body(cc.Body))
	}
	return out + dflt
}

func callsNamed(stmts []ast.Stmt, name string) bool {
	found := false
	for _, st := range stmts {
		ast.Inspect(st, func(n ast.Node) bool {
			if ce, ok := n.(*ast.CallExpr); ok {
				if se, ok := ce.Fun.(*ast.SelectorExpr); ok && se.Sel.Name == name {
					found = true
				}
			}
			return true
		})
	}
	return found
}

// boolStmts: a body made of `if cond { return <bool> }` statements and a final `return <bool>`, over atoms.
func (e *env) boolStmts(stmts []ast.Stmt, a atoms) string {
	if len(stmts) == 0 {
		fail("%s: control reaches the end of the function without return", a.w)
	}
	switch s := stmts[0].(type) {
	case *ast.ReturnStmt:
		if len(s.Results) == 1 {
			if b, ok := boolLit(s.Results[0]); ok {
				return b
			}
			return e.aCond(s.Results[0], a)
		}
	case *ast.IfStmt:
		if s.Init == nil && s.Else == nil {
			if b, ok := e.singleReturn(s.Body.List); ok {
				return fmt.Sprintf("if %s then %s else\n  %s", e.aCond(s.Cond, a), b, e.boolStmts(stmts[1:], a))
			}
		}
	}
	fail("%s: statement outside the grammar at %v", a.w, e.fset.Position(stmts[0].Pos()))
	return ""
}

// frameCode writes Gen/FrameCode.v: the decision logic of frame.go / read.go / compress.go that the model's theorems
// are tied to by name (Proofs/GenTieP.v).
func (e *env) frameCode(outdir string) {
	var c strings.Builder
	c.WriteString("(* GENERATED by /verif/tools/constx from /repo's working tree (frame.go writeFrameHeader / readFrameHeader, read.go readRSV1Illegal,\n   compress.go CompressionMode.opts) on every run — do not edit. *)\n")
	c.WriteString("From Coq Require Import ZArith Bool.\n\n")

	// writeFrameHeader: the 7-bit length field and the number of extended-length bytes
	wa := atoms{z: map[string]string{"h.payloadLength": "n"}, w: "writeFrameHeader"}
	sws := e.taglessSwitches(e.fnIn("frame.go", "writeFrameHeader"))
	if len(sws) != 2 {
		fail("writeFrameHeader: expected two tagless switch statements, found %d", len(sws))
	}
	code := e.guardChain(sws[0], wa, func(st []ast.Stmt) string {
		if len(st) == 1 {
			if as, ok := st[0].(*ast.AssignStmt); ok && as.Tok == token.OR_ASSIGN && len(as.Lhs) == 1 && len(as.Rhs) == 1 && exprKey(as.Lhs[0]) == "lengthByte" {
				return e.azExpr(as.Rhs[0], wa)
			}
		}
		fail("writeFrameHeader: first switch: case body outside the grammar (expected lengthByte |= e)")
		return ""
	}, "(0)")
	fmt.Fprintf(&c, "(* the value or'ed into the second header byte for a payload of n bytes *)\nDefinition gen_len_code (n : Z) : Z :=\n  %s.\n\n", code)
	ext := e.guardChain(sws[1], wa, func(st []ast.Stmt) string {
		switch {
		case callsNamed(st, "PutUint64") && !callsNamed(st, "PutUint16"):
			return "(8)"
		case callsNamed(st, "PutUint16") && !callsNamed(st, "PutUint64"):
			return "(2)"
		}
		fail("writeFrameHeader: second switch: case body outside the grammar (expected PutUint64 or PutUint16)")
		return ""
	}, "(0)")
	fmt.Fprintf(&c, "(* how many bytes of extended length follow it *)\nDefinition gen_len_ext (n : Z) : Z :=\n  %s.\n\n", ext)

	// readFrameHeader: extended-length bytes read for a 7-bit field l7, and the rejection of negative lengths
	ra := atoms{z: map[string]string{"payloadLength": "l7", "h.payloadLength": "n"}, w: "readFrameHeader"}
	rsw := e.taglessSwitches(e.fnIn("frame.go", "readFrameHeader"))
	if len(rsw) != 1 {
		fail("readFrameHeader: expected one tagless switch statement, found %d", len(rsw))
	}
	rext := e.guardChain(rsw[0], ra, func(st []ast.Stmt) string {
		switch {
		case callsNamed(st, "Uint64") && !callsNamed(st, "Uint16"):
			return "(8)"
		case callsNamed(st, "Uint16") && !callsNamed(st, "Uint64"):
			return "(2)"
		case !callsNamed(st, "ReadFull") && len(st) == 1:
			return "(0)"
		}
		fail("readFrameHeader: case body outside the grammar")
		return ""
	}, "(0)")
	fmt.Fprintf(&c, "(* readFrameHeader: bytes of extended length read for the 7-bit field l7 *)\nDefinition gen_read_ext (l7 : Z) : Z :=\n  %s.\n\n", rext)
	neg := ""
	for _, st := range e.fnIn("frame.go", "readFrameHeader").Body.List {
		if is, ok := st.(*ast.IfStmt); ok && is.Init == nil && is.Else == nil {
			if be, ok := is.Cond.(*ast.BinaryExpr); ok && exprKey(be.X) == "h.payloadLength" {
				if len(is.Body.List) == 1 {
					if rs, ok := is.Body.List[0].(*ast.ReturnStmt); ok && len(rs.Results) == 2 {
						neg = e.aCond(is.Cond, ra)
					}
				}
			}
		}
	}
	if neg == "" {
		fail("readFrameHeader: the check of h.payloadLength that returns an error was not found")
	}
	fmt.Fprintf(&c, "(* readFrameHeader: a decoded length n (as int64) for which the header is refused *)\nDefinition gen_len_refused (n : Z) : bool :=\n  %s.\n\n", neg)

	// readRSV1Illegal
	rv := atoms{z: map[string]string{"h.opcode": "opcode"}, b: map[string]string{"c.flate()": "flate"}, w: "readRSV1Illegal"}
	fmt.Fprintf(&c, "(* read.go readRSV1Illegal *)\nDefinition gen_rsv1_illegal (flate : bool) (opcode : Z) : bool :=\n  %s.\n\n", e.boolStmts(e.fnIn("read.go", "readRSV1Illegal").Body.List, rv))

	// CompressionMode.opts
	fd := e.fnIn("compress.go", "opts")
	if fd.Recv == nil || len(fd.Recv.List) != 1 || len(fd.Recv.List[0].Names) != 1 {
		fail("opts: unexpected receiver")
	}
	oa := atoms{z: map[string]string{fd.Recv.List[0].Names[0].Name: "m"}, w: "CompressionMode.opts"}
	fields := map[string]string{}
	if len(fd.Body.List) == 1 {
		if rs, ok := fd.Body.List[0].(*ast.ReturnStmt); ok && len(rs.Results) == 1 {
			x := rs.Results[0]
			if ue, ok := x.(*ast.UnaryExpr); ok && ue.Op == token.AND {
				x = ue.X
			}
			if cl, ok := x.(*ast.CompositeLit); ok {
				for _, el := range cl.Elts {
					if kv, ok := el.(*ast.KeyValueExpr); ok {
						fields[exprKey(kv.Key)] = e.aCond(kv.Value, oa)
					}
				}
			}
		}
	}
	if len(fields) != 2 || fields["clientNoContextTakeover"] == "" || fields["serverNoContextTakeover"] == "" {
		fail("CompressionMode.opts: body outside the grammar (expected a literal with the two no_context_takeover fields)")
	}
	fmt.Fprintf(&c, "(* compress.go CompressionMode.opts: (clientNoContextTakeover, serverNoContextTakeover) *)\nDefinition gen_mode_opts (m : Z) : bool * bool :=\n  (%s, %s).\n", fields["clientNoContextTakeover"], fields["serverNoContextTakeover"])

	if err := os.WriteFile(filepath.Join(outdir, "FrameCode.v"), []byte(c.String()), 0o644); err != nil {
		fail("%v", err)
	}
}

// refusals renders the conditions of a run of `if cond { ...; return ... }` statements as two disjunctions:
// every refusal, and the refusals whose body calls writeError (a Close frame with a status goes out first).
func (e *env) refusals(stmts []ast.Stmt, a atoms) (all string, closing string) {
	all, closing = "false", "false"
	n := 0
	for _, st := range stmts {
		is, ok := st.(*ast.IfStmt)
		if !ok {
			if _, sw := st.(*ast.SwitchStmt); sw {
				break
			}
			if n == 0 {
				continue // the statements before the first check (reading the header)
			}
			break
		}
		if be, ok := is.Cond.(*ast.BinaryExpr); ok && exprKey(be.X) == "err" {
			continue
		}
		if is.Init != nil || is.Else != nil || len(is.Body.List) == 0 {
			fail("%s: check outside the grammar at %v", a.w, e.fset.Position(is.Pos()))
		}
		if _, ok := is.Body.List[len(is.Body.List)-1].(*ast.ReturnStmt); !ok {
			fail("%s: a check that does not return at %v", a.w, e.fset.Position(is.Pos()))
		}
		c := e.aCond(is.Cond, a)
		all = fmt.Sprintf("(orb %s %s)", all, c)
		if callsNamed(is.Body.List, "writeError") {
			closing = fmt.Sprintf("(orb %s %s)", closing, c)
		}
		n++
	}
	if n == 0 {
		fail("%s: no checks found", a.w)
	}
	return all, closing
}

// readCode writes Gen/ReadCode.v: the header checks of readLoop, the checks of handleControl, the end-of-stream codes of netConn.read.
func (e *env) readCode(outdir string) {
	var c strings.Builder
	c.WriteString("(* GENERATED by /verif/tools/constx from /repo's working tree (read.go readLoop / handleControl, netconn.go read) on every run — do not edit. *)\n")
	c.WriteString("From Coq Require Import ZArith Bool.\n\n")

	rl := e.fnIn("read.go", "readLoop")
	var loop *ast.ForStmt
	for _, st := range rl.Body.List {
		if f, ok := st.(*ast.ForStmt); ok {
			loop = f
		}
	}
	if loop == nil {
		fail("readLoop: loop not found")
	}
	la := atoms{b: map[string]string{"h.rsv1": "rsv1", "h.rsv2": "rsv2", "h.rsv3": "rsv3", "c.readRSV1Illegal(h)": "rsv1_illegal", "c.client": "client", "h.masked": "masked"}, z: map[string]string{}, w: "readLoop"}
	all, closing := e.refusals(loop.Body.List, la)
	fmt.Fprintf(&c, "(* readLoop: a decoded header that is refused before its opcode is looked at, and the refusals that first send a Close frame *)\n")
	fmt.Fprintf(&c, "Definition gen_readloop_refused (client masked rsv1 rsv2 rsv3 rsv1_illegal : bool) : bool :=\n  %s.\n", all)
	fmt.Fprintf(&c, "Definition gen_readloop_closing (client masked rsv1 rsv2 rsv3 rsv1_illegal : bool) : bool :=\n  %s.\n\n", closing)

	hc := e.fnIn("read.go", "handleControl")
	ha := atoms{z: map[string]string{"h.payloadLength": "n"}, b: map[string]string{"h.fin": "fin"}, w: "handleControl"}
	call, cclosing := e.refusals(hc.Body.List, ha)
	fmt.Fprintf(&c, "(* handleControl: a control frame refused before its payload is read (length n, fin) *)\n")
	fmt.Fprintf(&c, "Definition gen_control_refused (n : Z) (fin : bool) : bool :=\n  %s.\n", call)
	fmt.Fprintf(&c, "Definition gen_control_closing (n : Z) (fin : bool) : bool :=\n  %s.\n\n", cclosing)

	// netConn.read: the close codes that read as io.EOF
	nr := e.fnIn("netconn.go", "read")
	eof := ""
	ast.Inspect(nr, func(n ast.Node) bool {
		sw, ok := n.(*ast.SwitchStmt)
		if !ok || sw.Tag == nil || exprKey(sw.Tag) != "CloseStatus(err)" {
			return true
		}
		for _, cl := range sw.Body.List {
			cc := cl.(*ast.CaseClause)
			isEOF := false
			for _, st := range cc.Body {
				if rs, ok := st.(*ast.ReturnStmt); ok && len(rs.Results) == 2 && exprKey(rs.Results[1]) == "io.EOF" {
					isEOF = true
				}
			}
			if !isEOF {
				continue
			}
			if cc.List == nil {
				fail("netConn.read: default clause returning io.EOF outside the grammar")
			}
			for _, v := range cc.List {
				k, ok := e.eval(v, 0)
				if !ok || k.Kind() != constant.Int {
					fail("netConn.read: case expression outside the grammar")
				}
				t := fmt.Sprintf("(Z.eqb code (%s))", k.ExactString())
				if eof == "" {
					eof = t
				} else {
					eof = fmt.Sprintf("(orb %s %s)", eof, t)
				}
			}
		}
		return false
	})
	if eof == "" {
		fail("netConn.read: the switch on CloseStatus(err) with an io.EOF clause was not found")
	}
	fmt.Fprintf(&c, "(* netConn.read: the close codes of the peer that read as io.EOF *)\nDefinition gen_netconn_eof (code : Z) : bool :=\n  %s.\n", eof)
	// limitReader.Read: the four decisions about the allowance lr.n
	lr := e.fnRecv("read.go", "limitReader", "Read")
	la2 := atoms{w: "limitReader.Read", z: map[string]string{"lr.n": "n", "len(p)": "plen"}, b: map[string]string{}}
	unlimited, exhausted, clamp, hitAfter := "", "", "", ""
	seenSub := false
	for _, st := range lr.Body.List {
		if as, ok := st.(*ast.AssignStmt); ok && as.Tok == token.SUB_ASSIGN && len(as.Lhs) == 1 && exprKey(as.Lhs[0]) == "lr.n" {
			if exprKey(as.Rhs[0]) != "n" {
				fail("limitReader.Read: lr.n is not reduced by the number of bytes read")
			}
			seenSub = true
			continue
		}
		is, ok := st.(*ast.IfStmt)
		if !ok || is.Init != nil || is.Else != nil || len(is.Body.List) == 0 {
			continue
		}
		body := is.Body.List
		last := body[len(body)-1]
		switch {
		case !seenSub && len(body) >= 1 && func() bool {
			rs, ok := last.(*ast.ReturnStmt)
			return ok && len(rs.Results) == 1 && exprKey(rs.Results[0]) == "lr.r.Read(p)"
		}():
			unlimited = e.aCond(is.Cond, la2)
		case !seenSub && callsNamed(body, "writeError"):
			rs, ok := last.(*ast.ReturnStmt)
			if !ok || len(rs.Results) != 2 || exprKey(rs.Results[0]) != "0" {
				fail("limitReader.Read: the exhausted-allowance branch does not return 0 bytes")
			}
			exhausted = e.aCond(is.Cond, la2)
		case !seenSub && len(body) == 1 && func() bool {
			as, ok := last.(*ast.AssignStmt)
			if !ok || len(as.Lhs) != 1 || exprKey(as.Lhs[0]) != "p" {
				return false
			}
			se, ok := as.Rhs[0].(*ast.SliceExpr)
			return ok && exprKey(se.X) == "p" && se.Low == nil && se.High != nil && exprKey(se.High) == "lr.n"
		}():
			clamp = e.aCond(is.Cond, la2)
		case seenSub && callsNamed(body, "writeError"):
			rs, ok := last.(*ast.ReturnStmt)
			if !ok || len(rs.Results) != 2 || exprKey(rs.Results[0]) != "n" {
				fail("limitReader.Read: the limit-hit branch does not hand over the bytes read")
			}
			hitAfter = e.aCond(is.Cond, la2)
		default:
			fail("limitReader.Read: a conditional outside the four known decisions at %v", e.fset.Position(is.Pos()))
		}
	}
	if unlimited == "" || exhausted == "" || clamp == "" || hitAfter == "" {
		fail("limitReader.Read: one of the four decisions (unlimited, exhausted, clamp, hit) was not found")
	}
	fmt.Fprintf(&c, "\n(* limitReader.Read, for an allowance n = lr.n: no limit; nothing left (error, Close 1009, no bytes); the caller's buffer of plen\n   bytes is cut down to the allowance; the allowance is used up by this read (error, Close 1009, the bytes are still handed over) *)\n")
	fmt.Fprintf(&c, "Definition gen_limit_unlimited (n : Z) : bool :=\n  %s.\nDefinition gen_limit_exhausted (n : Z) : bool :=\n  %s.\nDefinition gen_limit_clamp (plen n : Z) : bool :=\n  %s.\nDefinition gen_limit_hit_after (n : Z) : bool :=\n  %s.\n", unlimited, exhausted, clamp, hitAfter)
	// Conn.SetReadLimit: the value stored for a limit of n bytes
	sl := e.fnRecv("read.go", "Conn", "SetReadLimit")
	if len(sl.Type.Params.List) != 1 || len(sl.Type.Params.List[0].Names) != 1 {
		fail("SetReadLimit: unexpected signature")
	}
	pn := sl.Type.Params.List[0].Names[0].Name
	sa := atoms{w: "SetReadLimit", z: map[string]string{pn: "n"}, b: map[string]string{}}
	stored := ""
	if len(sl.Body.List) == 2 {
		is, ok := sl.Body.List[0].(*ast.IfStmt)
		es, ok2 := sl.Body.List[1].(*ast.ExprStmt)
		if ok && ok2 && is.Init == nil && is.Else == nil && len(is.Body.List) == 1 && strings.HasSuffix(exprKey(es.X), ".Store("+pn+")") {
			if inc, ok := is.Body.List[0].(*ast.IncDecStmt); ok && inc.Tok == token.INC && exprKey(inc.X) == pn {
				stored = fmt.Sprintf("if %s then (n + 1)%%Z else n", e.aCond(is.Cond, sa))
			}
		}
	}
	if stored == "" {
		fail("SetReadLimit: body outside the grammar (expected `if cond { n++ }` followed by the Store)")
	}
	fmt.Fprintf(&c, "\n(* Conn.SetReadLimit: what is stored as the allowance of a message for a limit of n bytes *)\nDefinition gen_limit_stored (n : Z) : Z :=\n  %s.\n", stored)
	if err := os.WriteFile(filepath.Join(outdir, "ReadCode.v"), []byte(c.String()), 0o644); err != nil {
		fail("%v", err)
	}
}

// statusChain renders a function made of `if cond { ...; return <status>, err }` checks (an Init statement and plain
// assignments between the checks are allowed: what they compute is named by the atoms) ending in `return <status>, nil`.
func (e *env) statusChain(stmts []ast.Stmt, a atoms) string {
	out := ""
	for _, st := range stmts {
		switch s := st.(type) {
		case *ast.AssignStmt:
			continue
		case *ast.IfStmt:
			if s.Else != nil || len(s.Body.List) == 0 {
				fail("%s: check outside the grammar at %v", a.w, e.fset.Position(s.Pos()))
			}
			rs, ok := s.Body.List[len(s.Body.List)-1].(*ast.ReturnStmt)
			if !ok || len(rs.Results) != 2 {
				fail("%s: a check that does not return (status, error) at %v", a.w, e.fset.Position(s.Pos()))
			}
			out += fmt.Sprintf("if %s then %s else\n  ", e.aCond(s.Cond, a), e.azExpr(rs.Results[0], a))
		case *ast.ReturnStmt:
			if len(s.Results) != 2 {
				fail("%s: final return outside the grammar", a.w)
			}
			return out + e.azExpr(s.Results[0], a)
		default:
			fail("%s: statement outside the grammar at %v", a.w, e.fset.Position(st.Pos()))
		}
	}
	fail("%s: control reaches the end of the function without return", a.w)
	return ""
}

// acceptCode writes Gen/AcceptCode.v: the order of the checks of verifyClientRequest and the HTTP status each one answers with.
func (e *env) acceptCode(outdir string) {
	var c strings.Builder
	c.WriteString("(* GENERATED by /verif/tools/constx from /repo's working tree (accept.go verifyClientRequest) on every run — do not edit. *)\n")
	c.WriteString("From Coq Require Import ZArith Bool.\n\n")
	fd := e.fnIn("accept.go", "verifyClientRequest")
	a := atoms{w: "verifyClientRequest",
		b: map[string]string{
			"r.ProtoAtLeast(1,1)": "proto_ok",
			"headerContainsTokenIgnoreCase(r.Header,\"Connection\",\"Upgrade\")": "conn_upgrade",
			"headerContainsTokenIgnoreCase(r.Header,\"Upgrade\",\"websocket\")":  "upg_websocket",
			"r.Method==\"GET\"": "method_get",
			"r.Header.Get(\"Sec-WebSocket-Version\")==\"13\"": "version_13",
			"err==nil": "key_decodes",
		},
		z: map[string]string{"len(websocketSecKeys)": "nkeys", "len(v)": "keylen"}}
	// the names the atoms rely on must be what the source computes
	want := map[string]string{"websocketSecKeys": "r.Header.Values(\"Sec-WebSocket-Key\")", "websocketSecKey": "strings.TrimSpace(websocketSecKeys[0])"}
	for _, st := range fd.Body.List {
		if as, ok := st.(*ast.AssignStmt); ok && len(as.Lhs) == 1 && len(as.Rhs) == 1 {
			n := exprKey(as.Lhs[0])
			if w, ok := want[n]; ok {
				got := exprKey(as.Rhs[0])
				if ie, ok := as.Rhs[0].(*ast.CallExpr); ok && len(ie.Args) == 1 {
					if ix, ok := ie.Args[0].(*ast.IndexExpr); ok {
						got = exprKey(ie.Fun) + "(" + exprKey(ix.X) + "[" + exprKey(ix.Index) + "])"
					}
				}
				if got != w {
					fail("verifyClientRequest: %s is computed as %s, expected %s", n, got, w)
				}
				delete(want, n)
			}
		}
		if is, ok := st.(*ast.IfStmt); ok && is.Init != nil {
			as, ok := is.Init.(*ast.AssignStmt)
			if !ok || len(as.Rhs) != 1 || exprKey(as.Rhs[0]) != "base64.StdEncoding.DecodeString(websocketSecKey)" || len(as.Lhs) != 2 || exprKey(as.Lhs[0]) != "v" || exprKey(as.Lhs[1]) != "err" {
				fail("verifyClientRequest: the key check is not `v, err := base64.StdEncoding.DecodeString(websocketSecKey)`")
			}
		}
	}
	if len(want) != 0 {
		fail("verifyClientRequest: assignments the translation relies on were not found: %v", want)
	}
	fmt.Fprintf(&c, "(* the status verifyClientRequest answers with (0 = the request is accepted): proto_ok = r.ProtoAtLeast(1,1); conn_upgrade / upg_websocket =\n   headerContainsTokenIgnoreCase(r.Header, \"Connection\", \"Upgrade\") / (.., \"Upgrade\", \"websocket\"); method_get = r.Method == \"GET\";\n   version_13 = r.Header.Get(\"Sec-WebSocket-Version\") == \"13\"; nkeys = number of Sec-WebSocket-Key values; key_decodes / keylen =\n   base64.StdEncoding.DecodeString(strings.TrimSpace(first key)) succeeded / the length of its result *)\n")
	fmt.Fprintf(&c, "Definition gen_verify_request (proto_ok conn_upgrade upg_websocket method_get version_13 : bool) (nkeys : Z) (key_decodes : bool) (keylen : Z) : Z :=\n  %s.\n", e.statusChain(fd.Body.List, a))
	if err := os.WriteFile(filepath.Join(outdir, "AcceptCode.v"), []byte(c.String()), 0o644); err != nil {
		fail("%v", err)
	}
}

func assigns(st ast.Stmt, lhs, rhs string) bool {
	as, ok := st.(*ast.AssignStmt)
	return ok && as.Tok == token.ASSIGN && len(as.Lhs) == 1 && len(as.Rhs) == 1 && exprKey(as.Lhs[0]) == lhs && exprKey(as.Rhs[0]) == rhs
}

func mentions(stmts []ast.Stmt, name string) bool {
	found := false
	for _, st := range stmts {
		ast.Inspect(st, func(n ast.Node) bool {
			if id, ok := n.(*ast.Ident); ok && id.Name == name {
				found = true
			}
			return true
		})
	}
	return found
}

// writeCode writes Gen/WriteCode.v: the decisions writeFrame takes before it builds the header.
func (e *env) writeCode(outdir string) {
	var c strings.Builder
	c.WriteString("(* GENERATED by /verif/tools/constx from /repo's working tree (write.go writeFrame) on every run — do not edit. *)\n")
	c.WriteString("From Coq Require Import ZArith Bool.\n\n")
	fd := e.fnIn("write.go", "writeFrame")
	a := atoms{w: "writeFrame", b: map[string]string{"c.closeSent": "close_sent", "flate": "flate", "c.client": "client"}, z: map[string]string{"opcode": "opcode"}}
	refused, sets, rsv1, masked := "", "", "", ""
	posRefused, posSets := -1, -1
	for i, st := range fd.Body.List {
		is, ok := st.(*ast.IfStmt)
		if !ok || is.Init != nil || is.Else != nil || len(is.Body.List) == 0 {
			continue
		}
		body := is.Body.List
		switch {
		case mentions(body, "errCloseSent"):
			if _, ok := body[len(body)-1].(*ast.ReturnStmt); !ok || refused != "" {
				fail("writeFrame: the errCloseSent check is not a single returning if")
			}
			refused, posRefused = e.aCond(is.Cond, a), i
		case len(body) == 1 && assigns(body[0], "c.closeSent", "true"):
			if sets != "" {
				fail("writeFrame: closeSent is set in two places")
			}
			sets, posSets = e.aCond(is.Cond, a), i
		case len(body) == 1 && assigns(body[0], "c.writeHeader.rsv1", "true"):
			if rsv1 != "" || i == 0 || !assigns(fd.Body.List[i-1], "c.writeHeader.rsv1", "false") {
				fail("writeFrame: rsv1 is not `= false` followed by one conditional `= true`")
			}
			rsv1 = e.aCond(is.Cond, a)
		case assigns(body[0], "c.writeHeader.masked", "true"):
			if masked != "" {
				fail("writeFrame: masked is set in two places")
			}
			masked = e.aCond(is.Cond, a)
		}
	}
	if refused == "" || sets == "" || rsv1 == "" || masked == "" {
		fail("writeFrame: one of the decisions (errCloseSent check, closeSent = true, rsv1, masked) was not found")
	}
	if posSets < posRefused {
		fail("writeFrame: closeSent is set before it is checked")
	}
	// no other assignment to the flag or to the two header fields anywhere in the function
	count := map[string]int{}
	ast.Inspect(fd, func(n ast.Node) bool {
		if as, ok := n.(*ast.AssignStmt); ok && len(as.Lhs) == 1 {
			count[exprKey(as.Lhs[0])]++
		}
		return true
	})
	if count["c.closeSent"] != 1 || count["c.writeHeader.rsv1"] != 2 || count["c.writeHeader.masked"] != 1 {
		fail("writeFrame: unexpected further assignments to closeSent / rsv1 / masked: %v", count)
	}
	// msgWriter.Write: when compression is switched on for the message
	mwf := e.fnRecv("write.go", "msgWriter", "Write")
	wa := atoms{w: "msgWriter.Write", b: map[string]string{"mw.c.flate()": "negotiated"}, z: map[string]string{"mw.opcode": "opcode", "len(p)": "len", "mw.c.flateThreshold": "thr"}}
	enable := ""
	for _, st := range mwf.Body.List {
		is, ok := st.(*ast.IfStmt)
		if !ok || is.Init != nil || is.Else != nil || exprKey(is.Cond) != "mw.c.flate()" {
			continue
		}
		if len(is.Body.List) != 1 {
			fail("msgWriter.Write: the body of `if mw.c.flate()` is not a single statement")
		}
		in, ok := is.Body.List[0].(*ast.IfStmt)
		if !ok || in.Init != nil || in.Else != nil || len(in.Body.List) != 1 {
			fail("msgWriter.Write: expected one conditional call of ensureFlate inside `if mw.c.flate()`")
		}
		es, ok := in.Body.List[0].(*ast.ExprStmt)
		if !ok || exprKey(es.X) != "mw.ensureFlate()" || enable != "" {
			fail("msgWriter.Write: expected one conditional call of ensureFlate inside `if mw.c.flate()`")
		}
		enable = fmt.Sprintf("(andb %s %s)", e.aCond(is.Cond, wa), e.aCond(in.Cond, wa))
	}
	calls := 0
	ast.Inspect(mwf, func(n ast.Node) bool {
		if ce, ok := n.(*ast.CallExpr); ok && exprKey(ce) == "mw.ensureFlate()" {
			calls++
		}
		return true
	})
	if enable == "" || calls != 1 {
		fail("msgWriter.Write: the decision to call ensureFlate was not found exactly once (%d calls)", calls)
	}
	fmt.Fprintf(&c, "(* msgWriter.Write: compression is switched on for the message by this Write *)\nDefinition gen_enable_flate (negotiated : bool) (opcode len thr : Z) : bool :=\n  %s.\n\n", enable)

	// newConn: the default compression threshold
	nc := e.fnIn("conn.go", "newConn")
	ta := atoms{w: "newConn", b: map[string]string{"c.flate()": "negotiated", "c.msgWriter.flateContextTakeover()": "takeover"}, z: map[string]string{"c.flateThreshold": "thr0"}}
	thr := ""
	for _, st := range nc.Body.List {
		is, ok := st.(*ast.IfStmt)
		if !ok || is.Init != nil || is.Else != nil || len(is.Body.List) != 2 {
			continue
		}
		a0, ok0 := is.Body.List[0].(*ast.AssignStmt)
		in, ok1 := is.Body.List[1].(*ast.IfStmt)
		if !ok0 || !ok1 || len(a0.Lhs) != 1 || exprKey(a0.Lhs[0]) != "c.flateThreshold" || in.Init != nil || in.Else != nil || len(in.Body.List) != 1 {
			continue
		}
		a1, ok2 := in.Body.List[0].(*ast.AssignStmt)
		if !ok2 || len(a1.Lhs) != 1 || exprKey(a1.Lhs[0]) != "c.flateThreshold" {
			continue
		}
		thr = fmt.Sprintf("if %s then (if %s then %s else %s) else thr0", e.aCond(is.Cond, ta), e.aCond(in.Cond, ta), e.azExpr(a1.Rhs[0], atoms{w: "newConn"}), e.azExpr(a0.Rhs[0], atoms{w: "newConn"}))
	}
	if thr == "" {
		fail("newConn: the default of flateThreshold was not found in the expected shape")
	}
	fmt.Fprintf(&c, "(* newConn: the effective compression threshold for a configured threshold thr0 *)\nDefinition gen_flate_threshold (negotiated : bool) (thr0 : Z) (takeover : bool) : Z :=\n  %s.\n\n", thr)

	fmt.Fprintf(&c, "(* a frame that is refused (nothing written) because a Close frame has been written *)\nDefinition gen_refused_after_close (close_sent : bool) (opcode : Z) : bool :=\n  %s.\n\n", refused)
	fmt.Fprintf(&c, "(* a frame that sets the close-sent flag (checked above, set after the check) *)\nDefinition gen_sets_close_sent (opcode : Z) : bool :=\n  %s.\n\n", sets)
	fmt.Fprintf(&c, "(* the RSV1 bit and the MASK bit of the header *)\nDefinition gen_rsv1 (flate : bool) (opcode : Z) : bool :=\n  %s.\nDefinition gen_masked (client : bool) : bool :=\n  %s.\n", rsv1, masked)
	if err := os.WriteFile(filepath.Join(outdir, "WriteCode.v"), []byte(c.String()), 0o644); err != nil {
		fail("%v", err)
	}
}

func main() {
	if len(os.Args) != 3 {
		fail("usage: constx <repo> <outdir>")
	}
	repo, outdir := os.Args[1], os.Args[2]
	e := &env{consts: map[string]constant.Value{}, fset: token.NewFileSet(), files: map[string]*ast.File{}}
	matches, _ := filepath.Glob(filepath.Join(repo, "*.go"))
	sort.Strings(matches)
	for _, p := range matches {
		base := filepath.Base(p)
		if strings.HasSuffix(base, "_test.go") || strings.HasSuffix(base, "_js.go") || strings.HasPrefix(base, "verif_") {
			continue
		}
		f, err := parser.ParseFile(e.fset, p, nil, 0)
		if err != nil {
			fail("parse %s: %v", p, err)
		}
		e.files[base] = f
	}
	e.collectConsts()

	var b strings.Builder
	b.WriteString("(* GENERATED by /verif/tools/constx from /repo's working tree on every run — do not edit. *)\n")
	b.WriteString("From Coq Require Import ZArith NArith List.\nImport ListNotations.\n\n")
	intConst := func(coqName, goName string) {
		c, ok := e.consts[goName]
		if !ok || c.Kind() != constant.Int {
			fail("integer constant %s not found", goName)
		}
		fmt.Fprintf(&b, "Definition %s : Z := (%s)%%Z.   (* %s *)\n", coqName, c.ExactString(), goName)
	}
	for _, n := range []string{"maxControlPayload", "maxCloseReason", "defaultReadLimit"} {
		intConst("c_"+n, n)
	}
	for _, n := range []string{"opContinuation", "opText", "opBinary", "opClose", "opPing", "opPong"} {
		intConst("c_"+n, n)
	}
	for _, n := range []string{"MessageText", "MessageBinary"} {
		intConst("c_"+n, n)
	}
	for _, n := range []string{"CompressionDisabled", "CompressionContextTakeover", "CompressionNoContextTakeover"} {
		intConst("c_"+n, n)
	}
	for _, n := range []string{"StatusNormalClosure", "StatusGoingAway", "StatusProtocolError", "StatusUnsupportedData", "statusReserved",
		"StatusNoStatusRcvd", "StatusAbnormalClosure", "StatusInvalidFramePayloadData", "StatusPolicyViolation", "StatusMessageTooBig",
		"StatusMandatoryExtension", "StatusInternalError", "StatusServiceRestart", "StatusTryAgainLater", "StatusBadGateway", "StatusTLSHandshake"} {
		intConst("c_"+n, n)
	}
	// string constants / byte-slice variables
	if c, ok := e.consts["deflateMessageTail"]; ok && c.Kind() == constant.String {
		fmt.Fprintf(&b, "Definition c_deflateMessageTail : list N := %s.\n", coqBytes(constant.StringVal(c)))
	} else {
		fail("deflateMessageTail not found")
	}
	guid := ""
	for _, f := range e.files {
		for _, d := range f.Decls {
			gd, ok := d.(*ast.GenDecl)
			if !ok || gd.Tok != token.VAR {
				continue
			}
			for _, s := range gd.Specs {
				vs := s.(*ast.ValueSpec)
				if len(vs.Names) == 1 && vs.Names[0].Name == "keyGUID" && len(vs.Values) == 1 {
					if ce, ok := vs.Values[0].(*ast.CallExpr); ok && len(ce.Args) == 1 {
						if c, ok := e.eval(ce.Args[0], 0); ok && c.Kind() == constant.String {
							guid = constant.StringVal(c)
						}
					}
				}
			}
		}
	}
	if guid == "" {
		fail("keyGUID not found")
	}
	fmt.Fprintf(&b, "Definition c_keyGUID : list N := %s.\n", coqBytes(guid))
	// literals inside function bodies
	thr := e.assignedLits("newConn", "flateThreshold")
	if len(thr) != 2 {
		fail("newConn: expected two literal flateThreshold defaults, found %v", thr)
	}
	fmt.Fprintf(&b, "Definition c_flateThresholdTakeover : Z := (%d)%%Z.      (* conn.go newConn *)\n", thr[0])
	fmt.Fprintf(&b, "Definition c_flateThresholdNoTakeover : Z := (%d)%%Z.    (* conn.go newConn *)\n", thr[1])
	fmt.Fprintf(&b, "Definition c_initialLimitStored : Z := (%d)%%Z.          (* read.go newMsgReader: defaultReadLimit+1 *)\n", e.callArg("newMsgReader", "newLimitReader", 2))
	fmt.Fprintf(&b, "Definition c_windowSize : Z := (%d)%%Z.                 (* read.go resetFlate: dict.init(n) *)\n", e.callArg("resetFlate", "init", 0))
	fmt.Fprintf(&b, "Definition c_timeoutHandleControl : Z := (%d)%%Z.       (* seconds *)\n", e.secondsIn("handleControl", "WithTimeout"))
	fmt.Fprintf(&b, "Definition c_timeoutWriteControl : Z := (%d)%%Z.\n", e.secondsIn("writeControl", "WithTimeout"))
	fmt.Fprintf(&b, "Definition c_timeoutWriteClose : Z := (%d)%%Z.\n", e.secondsIn("writeClose", "WithTimeout"))
	fmt.Fprintf(&b, "Definition c_timeoutWaitCloseHandshake : Z := (%d)%%Z.\n", e.secondsIn("waitCloseHandshake", "WithTimeout"))
	fmt.Fprintf(&b, "Definition c_timeoutWaitGoroutines : Z := (%d)%%Z.\n", e.secondsIn("waitGoroutines", "NewTimer"))
	if err := os.WriteFile(filepath.Join(outdir, "Consts.v"), []byte(b.String()), 0o644); err != nil {
		fail("%v", err)
	}

	// validWireCloseCode
	fd := e.fn("validWireCloseCode")
	if fd.Type.Params == nil || len(fd.Type.Params.List) != 1 || len(fd.Type.Params.List[0].Names) != 1 {
		fail("validWireCloseCode: unexpected signature")
	}
	param := fd.Type.Params.List[0].Names[0].Name
	var c strings.Builder
	c.WriteString("(* GENERATED by /verif/tools/constx from /repo/close.go (validWireCloseCode) on every run — do not edit. *)\n")
	c.WriteString("From Coq Require Import ZArith Bool.\n\n")
	fmt.Fprintf(&c, "Definition valid_wire_code (%s : Z) : bool :=\n  %s.\n", param, e.trStmts(fd.Body.List, param))
	if err := os.WriteFile(filepath.Join(outdir, "CloseCode.v"), []byte(c.String()), 0o644); err != nil {
		fail("%v", err)
	}
	e.frameCode(outdir)
	e.readCode(outdir)
	e.acceptCode(outdir)
	e.writeCode(outdir)
	e.negoCode(outdir)
	e.dialCode(outdir)
	e.originCode(outdir)
	e.closePayloadCode(outdir)
	e.takeoverCode(outdir)
	e.headerCode(outdir)
	e.parseCode(outdir)
}
