// constx: a small Go→Gallina translator.  It regenerates, from /repo's current source,
//
//	Gen/Consts.v     named constants and the literals inside function bodies that the model depends on
//	Gen/CloseCode.v  the body of validWireCloseCode, translated statement by statement
//
// It refuses (exit 1) anything outside its grammar, so that a source change it cannot render
// faithfully breaks the tie instead of being silently ignored.
package main

import (
	"fmt"
	"go/ast"
	"go/constant"
	"go/parser"
	"go/token"
	"os"
	"path/filepath"
	"sort"
	"strings"
)

type env struct {
	consts map[string]constant.Value
	fset   *token.FileSet
	files  map[string]*ast.File
}

func fail(format string, a ...interface{}) {
	fmt.Fprintf(os.Stderr, "constx: "+format+"\n", a...)
	os.Exit(1)
}

func (e *env) eval(x ast.Expr, iota int64) (constant.Value, bool) {
	switch v := x.(type) {
	case *ast.BasicLit:
		return constant.MakeFromLiteral(v.Value, v.Kind, 0), true
	case *ast.Ident:
		if v.Name == "iota" {
			return constant.MakeInt64(iota), true
		}
		c, ok := e.consts[v.Name]
		return c, ok
	case *ast.ParenExpr:
		return e.eval(v.X, iota)
	case *ast.BinaryExpr:
		a, ok1 := e.eval(v.X, iota)
		b, ok2 := e.eval(v.Y, iota)
		if !ok1 || !ok2 {
			return nil, false
		}
		switch v.Op {
		case token.SHL, token.SHR:
			s, _ := constant.Uint64Val(b)
			return constant.Shift(a, v.Op, uint(s)), true
		case token.ADD, token.SUB, token.MUL, token.QUO, token.REM, token.AND, token.OR, token.XOR:
			op := v.Op
			if op == token.QUO && a.Kind() == constant.Int {
				op = token.QUO_ASSIGN
			}
			return constant.BinaryOp(a, op, b), true
		}
		return nil, false
	case *ast.CallExpr: // conversions like opcode(x), StatusCode(1000)
		if len(v.Args) == 1 {
			return e.eval(v.Args[0], iota)
		}
	case *ast.SelectorExpr: // math.MaxUint16 and friends
		if id, ok := v.X.(*ast.Ident); ok && id.Name == "math" {
			switch v.Sel.Name {
			case "MaxUint16":
				return constant.MakeInt64(65535), true
			case "MaxInt64":
				return constant.MakeInt64(1<<63 - 1), true
			}
		}
	}
	return nil, false
}

func (e *env) collectConsts() {
	// iterate to a fixpoint so that order of declaration does not matter
	for pass := 0; pass < 4; pass++ {
		for _, f := range e.files {
			for _, d := range f.Decls {
				gd, ok := d.(*ast.GenDecl)
				if !ok || gd.Tok != token.CONST {
					continue
				}
				var last []ast.Expr
				for i, s := range gd.Specs {
					vs := s.(*ast.ValueSpec)
					vals := vs.Values
					if len(vals) == 0 {
						vals = last
					} else {
						last = vals
					}
					for j, n := range vs.Names {
						if n.Name == "_" || j >= len(vals) {
							continue
						}
						if c, ok := e.eval(vals[j], int64(i)); ok {
							e.consts[n.Name] = c
						}
					}
				}
			}
		}
	}
}

func (e *env) fn(name string) *ast.FuncDecl {
	for _, f := range e.files {
		for _, d := range f.Decls {
			if fd, ok := d.(*ast.FuncDecl); ok && fd.Name.Name == name && fd.Body != nil {
				return fd
			}
		}
	}
	fail("function %s not found", name)
	return nil
}

// secondsIn finds  time.Second*N / time.Second * N  inside calls to the given callee within fn.
func (e *env) secondsIn(fnName, callee string) int64 {
	fd := e.fn(fnName)
	var found []int64
	ast.Inspect(fd.Body, func(n ast.Node) bool {
		ce, ok := n.(*ast.CallExpr)
		if !ok {
			return true
		}
		sel, ok := ce.Fun.(*ast.SelectorExpr)
		if !ok || sel.Sel.Name != callee {
			return true
		}
		for _, a := range ce.Args {
			if be, ok := a.(*ast.BinaryExpr); ok && be.Op == token.MUL {
				for _, pair := range [][2]ast.Expr{{be.X, be.Y}, {be.Y, be.X}} {
					if s, ok := pair[0].(*ast.SelectorExpr); ok && s.Sel.Name == "Second" {
						if c, ok := e.eval(pair[1], 0); ok {
							v, _ := constant.Int64Val(c)
							found = append(found, v)
						}
					}
				}
			}
		}
		return true
	})
	if len(found) != 1 {
		fail("%s: expected exactly one %s(time.Second*N), found %d", fnName, callee, len(found))
	}
	return found[0]
}

// assignedLits returns, in source order, the integer literals assigned to the selector field within fn.
func (e *env) assignedLits(fnName, field string) []int64 {
	fd := e.fn(fnName)
	var out []int64
	ast.Inspect(fd.Body, func(n ast.Node) bool {
		as, ok := n.(*ast.AssignStmt)
		if !ok || len(as.Lhs) != 1 || len(as.Rhs) != 1 {
			return true
		}
		if sel, ok := as.Lhs[0].(*ast.SelectorExpr); ok && sel.Sel.Name == field {
			if c, ok := e.eval(as.Rhs[0], 0); ok && c.Kind() == constant.Int {
				v, _ := constant.Int64Val(c)
				out = append(out, v)
			}
		}
		return true
	})
	return out
}

// callArg returns the constant value of argument idx of the (single) call to callee within fn.
func (e *env) callArg(fnName, callee string, idx int) int64 {
	fd := e.fn(fnName)
	var out []int64
	ast.Inspect(fd.Body, func(n ast.Node) bool {
		ce, ok := n.(*ast.CallExpr)
		if !ok {
			return true
		}
		name := ""
		switch f := ce.Fun.(type) {
		case *ast.Ident:
			name = f.Name
		case *ast.SelectorExpr:
			name = f.Sel.Name
		}
		if name == callee && idx < len(ce.Args) {
			if c, ok := e.eval(ce.Args[idx], 0); ok {
				v, _ := constant.Int64Val(c)
				out = append(out, v)
			}
		}
		return true
	})
	if len(out) != 1 {
		fail("%s: expected exactly one constant call %s(...), found %d", fnName, callee, len(out))
	}
	return out[0]
}

func coqBytes(s string) string {
	var parts []string
	for i := 0; i < len(s); i++ {
		parts = append(parts, fmt.Sprint(s[i]))
	}
	return "[" + strings.Join(parts, "; ") + "]%N"
}

// ---- translation of a boolean function over one integer parameter ----

func (e *env) trExprZ(x ast.Expr, param string) string {
	if id, ok := x.(*ast.Ident); ok && id.Name == param {
		return param
	}
	if c, ok := e.eval(x, 0); ok && c.Kind() == constant.Int {
		return "(" + c.ExactString() + ")"
	}
	fail("validWireCloseCode: expression outside the grammar at %v", e.fset.Position(x.Pos()))
	return ""
}

func (e *env) trCond(x ast.Expr, param string) string {
	switch v := x.(type) {
	case *ast.ParenExpr:
		return e.trCond(v.X, param)
	case *ast.UnaryExpr:
		if v.Op == token.NOT {
			return "(negb " + e.trCond(v.X, param) + ")"
		}
	case *ast.BinaryExpr:
		switch v.Op {
		case token.LAND:
			return "(andb " + e.trCond(v.X, param) + " " + e.trCond(v.Y, param) + ")"
		case token.LOR:
			return "(orb " + e.trCond(v.X, param) + " " + e.trCond(v.Y, param) + ")"
		}
		a, b := e.trExprZ(v.X, param), e.trExprZ(v.Y, param)
		switch v.Op {
		case token.GEQ:
			return fmt.Sprintf("(Z.leb %s %s)", b, a)
		case token.LEQ:
			return fmt.Sprintf("(Z.leb %s %s)", a, b)
		case token.GTR:
			return fmt.Sprintf("(Z.ltb %s %s)", b, a)
		case token.LSS:
			return fmt.Sprintf("(Z.ltb %s %s)", a, b)
		case token.EQL:
			return fmt.Sprintf("(Z.eqb %s %s)", a, b)
		case token.NEQ:
			return fmt.Sprintf("(negb (Z.eqb %s %s))", a, b)
		}
	}
	fail("validWireCloseCode: condition outside the grammar at %v", e.fset.Position(x.Pos()))
	return ""
}

func boolLit(x ast.Expr) (string, bool) {
	if id, ok := x.(*ast.Ident); ok && (id.Name == "true" || id.Name == "false") {
		return id.Name, true
	}
	return "", false
}

func (e *env) singleReturn(stmts []ast.Stmt) (string, bool) {
	if len(stmts) != 1 {
		return "", false
	}
	rs, ok := stmts[0].(*ast.ReturnStmt)
	if !ok || len(rs.Results) != 1 {
		return "", false
	}
	return boolLit(rs.Results[0])
}

func (e *env) trStmts(stmts []ast.Stmt, param string) string {
	if len(stmts) == 0 {
		fail("validWireCloseCode: control reaches the end of the function without return")
	}
	switch s := stmts[0].(type) {
	case *ast.ReturnStmt:
		if len(s.Results) == 1 {
			if b, ok := boolLit(s.Results[0]); ok {
				return b
			}
		}
	case *ast.IfStmt:
		if s.Init == nil && s.Else == nil {
			if b, ok := e.singleReturn(s.Body.List); ok {
				return fmt.Sprintf("if %s then %s else\n  %s", e.trCond(s.Cond, param), b, e.trStmts(stmts[1:], param))
			}
		}
	case *ast.SwitchStmt:
		if id, ok := s.Tag.(*ast.Ident); ok && id.Name == param && s.Init == nil {
			rest := e.trStmts(stmts[1:], param)
			// clauses are tried in order; no fallthrough allowed; default must be absent
			out := ""
			for _, c := range s.Body.List {
				cc := c.(*ast.CaseClause)
				if cc.List == nil {
					fail("validWireCloseCode: default clause outside the grammar")
				}
				b, ok := e.singleReturn(cc.Body)
				if !ok {
					fail("validWireCloseCode: case body outside the grammar at %v", e.fset.Position(cc.Pos()))
				}
				var alts []string
				for _, v := range cc.List {
					alts = append(alts, fmt.Sprintf("(Z.eqb %s %s)", param, e.trExprZ(v, param)))
				}
				cond := alts[len(alts)-1]
				for i := len(alts) - 2; i >= 0; i-- {
					cond = fmt.Sprintf("(orb %s %s)", alts[i], cond)
				}
				out += fmt.Sprintf("if %s then %s else\n  ", cond, b)
			}
			return out + rest
		}
	}
	fail("validWireCloseCode: statement outside the grammar at %v", e.fset.Position(stmts[0].Pos()))
	return ""
}

func main() {
	if len(os.Args) != 3 {
		fail("usage: constx <repo> <outdir>")
	}
	repo, outdir := os.Args[1], os.Args[2]
	e := &env{consts: map[string]constant.Value{}, fset: token.NewFileSet(), files: map[string]*ast.File{}}
	matches, _ := filepath.Glob(filepath.Join(repo, "*.go"))
	sort.Strings(matches)
	for _, p := range matches {
		base := filepath.Base(p)
		if strings.HasSuffix(base, "_test.go") || strings.HasSuffix(base, "_js.go") || strings.HasPrefix(base, "verif_") {
			continue
		}
		f, err := parser.ParseFile(e.fset, p, nil, 0)
		if err != nil {
			fail("parse %s: %v", p, err)
		}
		e.files[base] = f
	}
	e.collectConsts()

	var b strings.Builder
	b.WriteString("(* GENERATED by /verif/tools/constx from /repo's working tree on every run — do not edit. *)\n")
	b.WriteString("From Coq Require Import ZArith NArith List.\nImport ListNotations.\n\n")
	intConst := func(coqName, goName string) {
		c, ok := e.consts[goName]
		if !ok || c.Kind() != constant.Int {
			fail("integer constant %s not found", goName)
		}
		fmt.Fprintf(&b, "Definition %s : Z := (%s)%%Z.   (* %s *)\n", coqName, c.ExactString(), goName)
	}
	for _, n := range []string{"maxControlPayload", "maxCloseReason", "defaultReadLimit"} {
		intConst("c_"+n, n)
	}
	for _, n := range []string{"opContinuation", "opText", "opBinary", "opClose", "opPing", "opPong"} {
		intConst("c_"+n, n)
	}
	for _, n := range []string{"MessageText", "MessageBinary"} {
		intConst("c_"+n, n)
	}
	for _, n := range []string{"CompressionDisabled", "CompressionContextTakeover", "CompressionNoContextTakeover"} {
		intConst("c_"+n, n)
	}
	for _, n := range []string{"StatusNormalClosure", "StatusGoingAway", "StatusProtocolError", "StatusUnsupportedData", "statusReserved",
		"StatusNoStatusRcvd", "StatusAbnormalClosure", "StatusInvalidFramePayloadData", "StatusPolicyViolation", "StatusMessageTooBig",
		"StatusMandatoryExtension", "StatusInternalError", "StatusServiceRestart", "StatusTryAgainLater", "StatusBadGateway", "StatusTLSHandshake"} {
		intConst("c_"+n, n)
	}
	// string constants / byte-slice variables
	if c, ok := e.consts["deflateMessageTail"]; ok && c.Kind() == constant.String {
		fmt.Fprintf(&b, "Definition c_deflateMessageTail : list N := %s.\n", coqBytes(constant.StringVal(c)))
	} else {
		fail("deflateMessageTail not found")
	}
	guid := ""
	for _, f := range e.files {
		for _, d := range f.Decls {
			gd, ok := d.(*ast.GenDecl)
			if !ok || gd.Tok != token.VAR {
				continue
			}
			for _, s := range gd.Specs {
				vs := s.(*ast.ValueSpec)
				if len(vs.Names) == 1 && vs.Names[0].Name == "keyGUID" && len(vs.Values) == 1 {
					if ce, ok := vs.Values[0].(*ast.CallExpr); ok && len(ce.Args) == 1 {
						if c, ok := e.eval(ce.Args[0], 0); ok && c.Kind() == constant.String {
							guid = constant.StringVal(c)
						}
					}
				}
			}
		}
	}
	if guid == "" {
		fail("keyGUID not found")
	}
	fmt.Fprintf(&b, "Definition c_keyGUID : list N := %s.\n", coqBytes(guid))
	// literals inside function bodies
	thr := e.assignedLits("newConn", "flateThreshold")
	if len(thr) != 2 {
		fail("newConn: expected two literal flateThreshold defaults, found %v", thr)
	}
	fmt.Fprintf(&b, "Definition c_flateThresholdTakeover : Z := (%d)%%Z.      (* conn.go newConn *)\n", thr[0])
	fmt.Fprintf(&b, "Definition c_flateThresholdNoTakeover : Z := (%d)%%Z.    (* conn.go newConn *)\n", thr[1])
	fmt.Fprintf(&b, "Definition c_initialLimitStored : Z := (%d)%%Z.          (* read.go newMsgReader: defaultReadLimit+1 *)\n", e.callArg("newMsgReader", "newLimitReader", 2))
	fmt.Fprintf(&b, "Definition c_windowSize : Z := (%d)%%Z.                 (* read.go resetFlate: dict.init(n) *)\n", e.callArg("resetFlate", "init", 0))
	fmt.Fprintf(&b, "Definition c_timeoutHandleControl : Z := (%d)%%Z.       (* seconds *)\n", e.secondsIn("handleControl", "WithTimeout"))
	fmt.Fprintf(&b, "Definition c_timeoutWriteControl : Z := (%d)%%Z.\n", e.secondsIn("writeControl", "WithTimeout"))
	fmt.Fprintf(&b, "Definition c_timeoutWriteClose : Z := (%d)%%Z.\n", e.secondsIn("writeClose", "WithTimeout"))
	fmt.Fprintf(&b, "Definition c_timeoutWaitCloseHandshake : Z := (%d)%%Z.\n", e.secondsIn("waitCloseHandshake", "WithTimeout"))
	fmt.Fprintf(&b, "Definition c_timeoutWaitGoroutines : Z := (%d)%%Z.\n", e.secondsIn("waitGoroutines", "NewTimer"))
	if err := os.WriteFile(filepath.Join(outdir, "Consts.v"), []byte(b.String()), 0o644); err != nil {
		fail("%v", err)
	}

	// validWireCloseCode
	fd := e.fn("validWireCloseCode")
	if fd.Type.Params == nil || len(fd.Type.Params.List) != 1 || len(fd.Type.Params.List[0].Names) != 1 {
		fail("validWireCloseCode: unexpected signature")
	}
	param := fd.Type.Params.List[0].Names[0].Name
	var c strings.Builder
	c.WriteString("(* GENERATED by /verif/tools/constx from /repo/close.go (validWireCloseCode) on every run — do not edit. *)\n")
	c.WriteString("From Coq Require Import ZArith Bool.\n\n")
	fmt.Fprintf(&c, "Definition valid_wire_code (%s : Z) : bool :=\n  %s.\n", param, e.trStmts(fd.Body.List, param))
	if err := os.WriteFile(filepath.Join(outdir, "CloseCode.v"), []byte(c.String()), 0o644); err != nil {
		fail("%v", err)
	}
}
