// nego.go — translation of the decision logic of the opening handshake's later stages and of the Close payload:
//   dial.go   verifyServerResponse (order of its checks), verifySubprotocol, verifyServerExtensions (guards before the
//             parameter loop, the reset of serverNoContextTakeover, the classification of one parameter)
//   accept.go acceptDeflate (duplicate guard, classification of one parameter), validWindowBits, authenticateOrigin
//             (order of the checks, one step of the pattern loop)
//   close.go  CloseError.bytesErr, parseClosePayload, the payload decision of writeClose
// into Gen/DialCode.v, Gen/NegoCode.v, Gen/OriginCode.v and Gen/ClosePayloadCode.v.  Anything outside the small grammar
// accepted here stops the translator (a broken tie); Proofs/GenTie2P.v proves that the hand-written model computes what
// these definitions compute.
package main

import (
	"fmt"
	"go/ast"
	"go/token"
	"os"
	"path/filepath"
	"strconv"
	"strings"
)

// strLit renders a Go string literal as a Gallina list of bytes.
func (e *env) strLit(x ast.Expr, w string) string {
	bl, ok := x.(*ast.BasicLit)
	if !ok || bl.Kind != token.STRING {
		fail("%s: string literal expected at %v", w, e.fset.Position(x.Pos()))
	}
	s, err := strconv.Unquote(bl.Value)
	if err != nil {
		fail("%s: %v", w, err)
	}
	return coqBytes(s)
}

// sExpr: a string-valued expression over the one string variable v: v itself or strings.TrimPrefix(v, "lit").
func (e *env) sExpr(x ast.Expr, v, w string) string {
	if id, ok := x.(*ast.Ident); ok && id.Name == v {
		return v
	}
	if ce, ok := x.(*ast.CallExpr); ok && exprKey(ce.Fun) == "strings.TrimPrefix" && len(ce.Args) == 2 {
		return fmt.Sprintf("(s_trim_prefix %s %s)", e.sExpr(ce.Args[0], v, w), e.strLit(ce.Args[1], w))
	}
	fail("%s: string expression outside the grammar at %v", w, e.fset.Position(x.Pos()))
	return ""
}

// sCond: a condition over the string variable v: &&, ||, !, v == "lit", strings.HasPrefix(v, "lit"), validWindowBits(<sExpr>).
func (e *env) sCond(x ast.Expr, v, w string) string {
	switch n := x.(type) {
	case *ast.ParenExpr:
		return e.sCond(n.X, v, w)
	case *ast.UnaryExpr:
		if n.Op == token.NOT {
			return "(negb " + e.sCond(n.X, v, w) + ")"
		}
	case *ast.BinaryExpr:
		switch n.Op {
		case token.LAND:
			return "(andb " + e.sCond(n.X, v, w) + " " + e.sCond(n.Y, v, w) + ")"
		case token.LOR:
			return "(orb " + e.sCond(n.X, v, w) + " " + e.sCond(n.Y, v, w) + ")"
		case token.EQL:
			return fmt.Sprintf("(s_eqb %s %s)", e.sExpr(n.X, v, w), e.strLit(n.Y, w))
		case token.NEQ:
			return fmt.Sprintf("(negb (s_eqb %s %s))", e.sExpr(n.X, v, w), e.strLit(n.Y, w))
		}
	case *ast.CallExpr:
		switch exprKey(n.Fun) {
		case "strings.HasPrefix":
			if len(n.Args) == 2 {
				return fmt.Sprintf("(s_has_prefix %s %s)", e.sExpr(n.Args[0], v, w), e.strLit(n.Args[1], w))
			}
		case "validWindowBits":
			if len(n.Args) == 1 {
				return fmt.Sprintf("(gen_valid_window_bits %s)", e.sExpr(n.Args[0], v, w))
			}
		}
	}
	fail("%s: string condition outside the grammar at %v", w, e.fset.Position(x.Pos()))
	return ""
}

func orChain(alts []string) string {
	cond := alts[len(alts)-1]
	for i := len(alts) - 2; i >= 0; i-- {
		cond = fmt.Sprintf("(orb %s %s)", alts[i], cond)
	}
	return cond
}

// strSwitchCond: the condition under which a clause of `switch v { case "a", "b": ... }` is taken.
func (e *env) strSwitchCond(cc *ast.CaseClause, v, w string) string {
	if cc.List == nil {
		fail("%s: default clause outside the grammar", w)
	}
	var alts []string
	for _, x := range cc.List {
		alts = append(alts, fmt.Sprintf("(s_eqb %s %s)", v, e.strLit(x, w)))
	}
	return orChain(alts)
}

// validWindowBits: `switch s { case lits...: return true }; return false`
func (e *env) validBits() string {
	fd := e.fnIn("accept.go", "validWindowBits")
	if fd.Type.Params == nil || len(fd.Type.Params.List) != 1 || len(fd.Type.Params.List[0].Names) != 1 {
		fail("validWindowBits: unexpected signature")
	}
	v := fd.Type.Params.List[0].Names[0].Name
	w := "validWindowBits"
	out := ""
	for i, st := range fd.Body.List {
		switch s := st.(type) {
		case *ast.SwitchStmt:
			if id, ok := s.Tag.(*ast.Ident); !ok || id.Name != v || s.Init != nil {
				fail("%s: switch outside the grammar", w)
			}
			for _, c := range s.Body.List {
				cc := c.(*ast.CaseClause)
				b, ok := e.singleReturn(cc.Body)
				if !ok {
					fail("%s: case body outside the grammar at %v", w, e.fset.Position(cc.Pos()))
				}
				out += fmt.Sprintf("if %s then %s else\n  ", e.strSwitchCond(cc, "s", w), b)
			}
		case *ast.ReturnStmt:
			if i != len(fd.Body.List)-1 || len(s.Results) != 1 {
				fail("%s: return outside the grammar", w)
			}
			b, ok := boolLit(s.Results[0])
			if !ok {
				fail("%s: return outside the grammar", w)
			}
			return out + b
		default:
			fail("%s: statement outside the grammar at %v", w, e.fset.Position(st.Pos()))
		}
	}
	fail("%s: control reaches the end of the function", w)
	return ""
}

// paramBody classifies the body of a switch clause / if of the parameter loop:
//   [copts.clientNoContextTakeover = true; continue] -> 1, [copts.serverNoContextTakeover = true; continue] -> 2, [continue] -> 3
func (e *env) paramBody(stmts []ast.Stmt, w string) string {
	isContinue := func(st ast.Stmt) bool {
		br, ok := st.(*ast.BranchStmt)
		return ok && br.Tok == token.CONTINUE && br.Label == nil
	}
	if len(stmts) == 1 && isContinue(stmts[0]) {
		return "3"
	}
	if len(stmts) == 2 && isContinue(stmts[1]) {
		if assigns(stmts[0], "copts.clientNoContextTakeover", "true") {
			return "1"
		}
		if assigns(stmts[0], "copts.serverNoContextTakeover", "true") {
			return "2"
		}
	}
	fail("%s: body of a parameter case outside the grammar at %v", w, e.fset.Position(stmts[0].Pos()))
	return ""
}

// paramLoop finds `for _, p := range ext.params { ... }` at the top level of fd and translates one iteration:
// 0 = the function gives up (offer declined / response refused), 1 / 2 = the flag that is set, 3 = parameter skipped.
func (e *env) paramLoop(fd *ast.FuncDecl, w string) (loopIdx int, body string) {
	loopIdx = -1
	for i, st := range fd.Body.List {
		rs, ok := st.(*ast.RangeStmt)
		if !ok {
			continue
		}
		if loopIdx >= 0 {
			fail("%s: more than one loop", w)
		}
		loopIdx = i
		if exprKey(rs.X) != "ext.params" || rs.Value == nil || exprKey(rs.Key) != "_" {
			fail("%s: the loop is not `for _, p := range ext.params`", w)
		}
		v := exprKey(rs.Value)
		for j, bs := range rs.Body.List {
			switch s := bs.(type) {
			case *ast.SwitchStmt:
				if id, ok := s.Tag.(*ast.Ident); !ok || id.Name != v || s.Init != nil {
					fail("%s: switch in the loop outside the grammar", w)
				}
				for _, c := range s.Body.List {
					cc := c.(*ast.CaseClause)
					body += fmt.Sprintf("if %s then %s else\n  ", e.strSwitchCond(cc, "p", w), e.paramBody(cc.Body, w))
				}
			case *ast.IfStmt:
				if s.Init != nil || s.Else != nil {
					fail("%s: if in the loop outside the grammar at %v", w, e.fset.Position(s.Pos()))
				}
				cond := e.sCond(s.Cond, v, w)
				if v != "p" {
					cond = strings.ReplaceAll(cond, " "+v+" ", " p ")
				}
				body += fmt.Sprintf("if %s then %s else\n  ", cond, e.paramBody(s.Body.List, w))
			case *ast.ReturnStmt:
				if j != len(rs.Body.List)-1 {
					fail("%s: return in the middle of the loop body", w)
				}
				body += "0"
				return
			default:
				fail("%s: statement in the loop outside the grammar at %v", w, e.fset.Position(bs.Pos()))
			}
		}
		fail("%s: the loop body does not end with the refusing return", w)
	}
	if loopIdx < 0 {
		fail("%s: parameter loop not found", w)
	}
	return
}

// isNilResult: the last result of a return statement is the identifier nil (the function succeeds / accepts).
func lastIsNil(rs *ast.ReturnStmt) bool {
	if len(rs.Results) == 0 {
		return false
	}
	id, ok := rs.Results[len(rs.Results)-1].(*ast.Ident)
	return ok && id.Name == "nil"
}

func lastIsTrue(rs *ast.ReturnStmt) bool {
	if len(rs.Results) == 0 {
		return false
	}
	id, ok := rs.Results[len(rs.Results)-1].(*ast.Ident)
	return ok && id.Name == "true"
}

// verdictChain: straight-line `if cond { return ... }` statements (assignments are skipped, they are checked by the
// caller); `ok` says whether a return statement is an accepting one.  Values: accepting return -> yes, other -> no.
func (e *env) verdictChain(stmts []ast.Stmt, a atoms, ok func(*ast.ReturnStmt) bool, yes, no string, final func(*ast.ReturnStmt) string) string {
	out := ""
	for _, st := range stmts {
		switch s := st.(type) {
		case *ast.AssignStmt, *ast.DeclStmt:
			continue
		case *ast.IfStmt:
			if s.Else != nil || s.Init != nil || len(s.Body.List) == 0 {
				fail("%s: check outside the grammar at %v", a.w, e.fset.Position(s.Pos()))
			}
			rs, isRet := s.Body.List[len(s.Body.List)-1].(*ast.ReturnStmt)
			if !isRet {
				fail("%s: a check that does not return at %v", a.w, e.fset.Position(s.Pos()))
			}
			val := no
			if ok(rs) {
				val = yes
			}
			out += fmt.Sprintf("if %s then %s else\n  ", e.aCond(s.Cond, a), val)
		case *ast.ReturnStmt:
			return out + final(s)
		default:
			fail("%s: statement outside the grammar at %v", a.w, e.fset.Position(st.Pos()))
		}
	}
	fail("%s: control reaches the end without return", a.w)
	return ""
}

func (e *env) requireAssign(stmts []ast.Stmt, w, lhs, rhs string) {
	for _, st := range stmts {
		if as, ok := st.(*ast.AssignStmt); ok && len(as.Rhs) == 1 {
			var ls []string
			for _, l := range as.Lhs {
				ls = append(ls, exprKey(l))
			}
			if strings.Join(ls, ",") == lhs {
				if got := exprKey(as.Rhs[0]); got != rhs {
					fail("%s: %s is computed as %s, expected %s", w, lhs, got, rhs)
				}
				return
			}
		}
	}
	fail("%s: assignment of %s not found", w, lhs)
}

func writeGen(outdir, name, content string) {
	if err := os.WriteFile(filepath.Join(outdir, name), []byte(content), 0o644); err != nil {
		fail("%v", err)
	}
}

func (e *env) negoCode(outdir string) {
	var c strings.Builder
	c.WriteString("(* GENERATED by /verif/tools/constx from /repo's working tree (accept.go validWindowBits, acceptDeflate; dial.go verifyServerExtensions) on every run — do not edit. *)\n")
	c.WriteString("From Coq Require Import ZArith NArith Bool List.\nFrom WS Require Import Base.Str.\nImport ListNotations.\n\n")
	fmt.Fprintf(&c, "(* validWindowBits *)\nDefinition gen_valid_window_bits (s : list N) : bool :=\n  %s.\n\n", e.validBits())

	// acceptDeflate
	fd := e.fnIn("accept.go", "acceptDeflate")
	w := "acceptDeflate"
	idx, body := e.paramLoop(fd, w)
	e.requireAssign(fd.Body.List[:idx], w, "copts", "mode.opts()")
	a := atoms{w: w, b: map[string]string{"hasDuplicateParams(ext.params)": "has_dup"}, z: map[string]string{}}
	pre := e.verdictChain(append(append([]ast.Stmt{}, fd.Body.List[:idx]...), &ast.ReturnStmt{Results: []ast.Expr{ast.NewIdent("true")}}), a, lastIsTrue, "false", "true",
		func(*ast.ReturnStmt) string { return "false" })
	fmt.Fprintf(&c, "(* acceptDeflate, before the parameter loop (copts := mode.opts() is checked by the translator): true = the offer is declined *)\nDefinition gen_accept_pre (has_dup : bool) : bool :=\n  %s.\n\n", pre)
	fmt.Fprintf(&c, "(* acceptDeflate, one parameter: 1 = clientNoContextTakeover := true, 2 = serverNoContextTakeover := true, 3 = skipped, 0 = the offer is declined *)\nDefinition gen_accept_param (p : list N) : Z :=\n  %s.\n\n", body)
	tail := fd.Body.List[idx+1:]
	if len(tail) != 1 {
		fail("%s: statements after the loop outside the grammar", w)
	}
	if rs, ok := tail[0].(*ast.ReturnStmt); !ok || len(rs.Results) != 2 || exprKey(rs.Results[0]) != "copts" || !lastIsTrue(rs) {
		fail("%s: the function does not end with `return copts, true`", w)
	}

	// verifyServerExtensions
	fd = e.fnIn("dial.go", "verifyServerExtensions")
	w = "verifyServerExtensions"
	idx, body = e.paramLoop(fd, w)
	e.requireAssign(fd.Body.List[:idx], w, "exts", "websocketExtensions(h)")
	a = atoms{w: w,
		b: map[string]string{"hasDuplicateParams(ext.params)": "has_dup", "ext.name==\"permessage-deflate\"": "name_is_pmd", "copts==nil": "(negb offered)"},
		z: map[string]string{"len(exts)": "nexts"}}
	// the statements before the loop: guards, `ext := exts[0]`, the copy of the offer, the reset of the server flag
	var guards []ast.Stmt
	reset := false
	for _, st := range fd.Body.List[:idx] {
		switch s := st.(type) {
		case *ast.IfStmt:
			guards = append(guards, s)
		case *ast.AssignStmt:
			if assigns(s, "copts.serverNoContextTakeover", "false") {
				reset = true
			} else if assigns(s, "copts.serverNoContextTakeover", "true") || assigns(s, "copts.clientNoContextTakeover", "true") || assigns(s, "copts.clientNoContextTakeover", "false") {
				fail("%s: flag assignment before the loop outside the grammar at %v", w, e.fset.Position(s.Pos()))
			} else if len(s.Lhs) == 1 && exprKey(s.Lhs[0]) == "ext" {
				if ix, ok := s.Rhs[0].(*ast.IndexExpr); !ok || exprKey(ix.X) != "exts" || exprKey(ix.Index) != "0" {
					fail("%s: ext is not exts[0]", w)
				}
			}
		default:
			fail("%s: statement outside the grammar at %v", w, e.fset.Position(st.Pos()))
		}
	}
	// value of a guard: `return nil, nil` = 0 (no compression), anything else = 1 (refused); passing all = 2
	preZ := ""
	for _, g := range guards {
		s := g.(*ast.IfStmt)
		if s.Else != nil || s.Init != nil {
			fail("%s: guard outside the grammar at %v", w, e.fset.Position(s.Pos()))
		}
		rs, ok := s.Body.List[len(s.Body.List)-1].(*ast.ReturnStmt)
		if !ok || len(rs.Results) != 2 {
			fail("%s: guard does not return at %v", w, e.fset.Position(s.Pos()))
		}
		val := "1"
		if lastIsNil(rs) {
			if exprKey(rs.Results[0]) != "nil" {
				fail("%s: an accepting guard that returns options", w)
			}
			val = "0"
		}
		preZ += fmt.Sprintf("if %s then %s else\n  ", e.aCond(s.Cond, a), val)
	}
	preZ += "2"
	fmt.Fprintf(&c, "(* verifyServerExtensions, before the parameter loop: 0 = no extension in the response (no compression), 1 = refused, 2 = the parameters are examined;\n   nexts = len(websocketExtensions(h)), name_is_pmd = exts[0].name == \"permessage-deflate\", offered = copts != nil, has_dup = hasDuplicateParams(exts[0].params) *)\n")
	fmt.Fprintf(&c, "Definition gen_verify_exts_pre (nexts : Z) (name_is_pmd offered has_dup : bool) : Z :=\n  %s.\n\n", preZ)
	init := "offer_snct"
	if reset {
		init = "false"
	}
	fmt.Fprintf(&c, "(* verifyServerExtensions: the serverNoContextTakeover flag the parameter loop starts from *)\nDefinition gen_verify_initial_snct (offer_snct : bool) : bool :=\n  %s.\n\n", init)
	fmt.Fprintf(&c, "(* verifyServerExtensions, one parameter: 1 = clientNoContextTakeover := true, 2 = serverNoContextTakeover := true, 3 = skipped, 0 = the response is refused *)\nDefinition gen_verify_param (p : list N) : Z :=\n  %s.\n", body)
	tail = fd.Body.List[idx+1:]
	if len(tail) != 1 {
		fail("%s: statements after the loop outside the grammar", w)
	}
	if rs, ok := tail[0].(*ast.ReturnStmt); !ok || len(rs.Results) != 2 || exprKey(rs.Results[0]) != "copts" || !lastIsNil(rs) {
		fail("%s: the function does not end with `return copts, nil`", w)
	}
	writeGen(outdir, "NegoCode.v", c.String())
}

// rangeAny: `for _, x := range <over> { if <cond> { return <accepting> } }` — an existential over the list.
func (e *env) rangeAny(st ast.Stmt, over, condKey string, ok func(*ast.ReturnStmt) bool, w string) bool {
	rs, isRange := st.(*ast.RangeStmt)
	if !isRange {
		return false
	}
	if exprKey(rs.X) != over || len(rs.Body.List) != 1 {
		fail("%s: loop outside the grammar at %v", w, e.fset.Position(st.Pos()))
	}
	is, isIf := rs.Body.List[0].(*ast.IfStmt)
	if !isIf || is.Init != nil || is.Else != nil || exprKey(is.Cond) != condKey || len(is.Body.List) != 1 {
		fail("%s: loop body outside the grammar at %v", w, e.fset.Position(st.Pos()))
	}
	ret, isRet := is.Body.List[0].(*ast.ReturnStmt)
	if !isRet || !ok(ret) {
		fail("%s: the loop's match does not accept at %v", w, e.fset.Position(st.Pos()))
	}
	return true
}

func (e *env) dialCode(outdir string) {
	var c strings.Builder
	c.WriteString("(* GENERATED by /verif/tools/constx from /repo's working tree (dial.go verifyServerResponse, verifySubprotocol) on every run — do not edit. *)\n")
	c.WriteString("From Coq Require Import ZArith Bool.\n\n")
	fd := e.fnIn("dial.go", "verifyServerResponse")
	w := "verifyServerResponse"
	a := atoms{w: w,
		b: map[string]string{
			"headerContainsTokenIgnoreCase(resp.Header,\"Connection\",\"Upgrade\")": "conn_upgrade",
			"headerContainsTokenIgnoreCase(resp.Header,\"Upgrade\",\"WebSocket\")":  "upg_websocket",
			"resp.Header.Get(\"Sec-WebSocket-Accept\")!=secWebSocketAccept(secWebSocketKey)": "(negb accept_matches)",
			"err==nil": "subproto_ok",
		},
		z: map[string]string{"resp.StatusCode": "status", "http.StatusSwitchingProtocols": "(101)"}}
	e.requireAssign(fd.Body.List, w, "err", "verifySubprotocol(opts.Subprotocols,resp)")
	body := e.verdictChain(fd.Body.List, a, func(*ast.ReturnStmt) bool { return false }, "false", "true", func(rs *ast.ReturnStmt) string {
		if len(rs.Results) != 1 || exprKey(rs.Results[0]) != "verifyServerExtensions(copts,resp.Header)" {
			fail("%s: does not end with `return verifyServerExtensions(copts, resp.Header)`", w)
		}
		return "false"
	})
	c.WriteString("(* verifyServerResponse: true = refused before the extension header is looked at (then verifyServerExtensions decides);\n   status = resp.StatusCode (http.StatusSwitchingProtocols is the standard library's 101), conn_upgrade / upg_websocket =\n   headerContainsTokenIgnoreCase(resp.Header, \"Connection\", \"Upgrade\") / (.., \"Upgrade\", \"WebSocket\"), accept_matches =\n   resp.Header.Get(\"Sec-WebSocket-Accept\") == secWebSocketAccept(secWebSocketKey), subproto_ok = verifySubprotocol(..) == nil *)\n")
	fmt.Fprintf(&c, "Definition gen_verify_response_refused (status : Z) (conn_upgrade upg_websocket accept_matches subproto_ok : bool) : bool :=\n  %s.\n\n", body)

	fd = e.fnIn("dial.go", "verifySubprotocol")
	w = "verifySubprotocol"
	e.requireAssign(fd.Body.List, w, "proto", "resp.Header.Get(\"Sec-WebSocket-Protocol\")")
	a = atoms{w: w, b: map[string]string{"proto==\"\"": "proto_empty"}, z: map[string]string{}}
	out := ""
	done := false
	for _, st := range fd.Body.List {
		switch s := st.(type) {
		case *ast.AssignStmt:
		case *ast.IfStmt:
			if s.Else != nil || s.Init != nil || len(s.Body.List) != 1 {
				fail("%s: check outside the grammar", w)
			}
			rs, ok := s.Body.List[0].(*ast.ReturnStmt)
			if !ok {
				fail("%s: check does not return", w)
			}
			v := "false"
			if lastIsNil(rs) {
				v = "true"
			}
			out += fmt.Sprintf("if %s then %s else\n  ", e.aCond(s.Cond, a), v)
		case *ast.RangeStmt:
			e.rangeAny(s, "subprotos", "strings.EqualFold("+exprKey(s.Value)+",proto)", lastIsNil, w)
			out += "if requested_fold_equal then true else\n  "
		case *ast.ReturnStmt:
			if lastIsNil(s) {
				out += "true"
			} else {
				out += "false"
			}
			done = true
		default:
			fail("%s: statement outside the grammar at %v", w, e.fset.Position(st.Pos()))
		}
	}
	if !done {
		fail("%s: no final return", w)
	}
	c.WriteString("(* verifySubprotocol: true = nil; proto_empty = the response has no Sec-WebSocket-Protocol, requested_fold_equal = some requested subprotocol is EqualFold to it *)\n")
	fmt.Fprintf(&c, "Definition gen_subprotocol_ok (proto_empty requested_fold_equal : bool) : bool :=\n  %s.\n", out)
	writeGen(outdir, "DialCode.v", c.String())
}

func (e *env) originCode(outdir string) {
	var c strings.Builder
	c.WriteString("(* GENERATED by /verif/tools/constx from /repo's working tree (accept.go authenticateOrigin, match) on every run — do not edit. *)\n")
	c.WriteString("From Coq Require Import ZArith Bool.\n\n")
	fd := e.fnIn("accept.go", "authenticateOrigin")
	w := "authenticateOrigin"
	e.requireAssign(fd.Body.List, w, "origin", "r.Header.Get(\"Origin\")")
	e.requireAssign(fd.Body.List, w, "u,err", "url.Parse(origin)")
	a := atoms{w: w, b: map[string]string{"origin==\"\"": "origin_empty", "err==nil": "parses", "strings.EqualFold(r.Host,u.Host)": "host_fold_equal", "u.Host==\"\"": "host_empty"}, z: map[string]string{}}
	pre, step, post := "", "", ""
	seenLoop := false
	for _, st := range fd.Body.List {
		switch s := st.(type) {
		case *ast.AssignStmt:
		case *ast.IfStmt:
			if s.Else != nil || s.Init != nil || len(s.Body.List) != 1 {
				fail("%s: check outside the grammar", w)
			}
			rs, ok := s.Body.List[0].(*ast.ReturnStmt)
			if !ok {
				fail("%s: check does not return", w)
			}
			v := "false"
			if lastIsNil(rs) {
				v = "true"
			}
			line := fmt.Sprintf("if %s then Some %s else\n  ", e.aCond(s.Cond, a), v)
			if seenLoop {
				if v == "true" {
					fail("%s: an accepting check after the pattern loop", w)
				}
				post += line
			} else {
				pre += line
			}
		case *ast.RangeStmt:
			if seenLoop || exprKey(s.X) != "originHosts" || s.Value == nil {
				fail("%s: loop outside the grammar", w)
			}
			seenLoop = true
			pv := exprKey(s.Value)
			e.requireAssign(s.Body.List, w, "matched,err", "match("+pv+",u.Host)")
			la := atoms{w: w, b: map[string]string{"err==nil": "(negb pattern_bad)", "matched": "matched"}, z: map[string]string{}}
			for _, bs := range s.Body.List {
				switch b := bs.(type) {
				case *ast.AssignStmt:
				case *ast.IfStmt:
					if b.Else != nil || b.Init != nil || len(b.Body.List) != 1 {
						fail("%s: check in the loop outside the grammar", w)
					}
					rs, ok := b.Body.List[0].(*ast.ReturnStmt)
					if !ok {
						fail("%s: check in the loop does not return", w)
					}
					v := "1"
					if lastIsNil(rs) {
						v = "2"
					}
					step += fmt.Sprintf("if %s then %s else\n  ", e.aCond(b.Cond, la), v)
				default:
					fail("%s: statement in the loop outside the grammar at %v", w, e.fset.Position(bs.Pos()))
				}
			}
			step += "0"
		case *ast.ReturnStmt:
			if lastIsNil(s) {
				fail("%s: the function accepts when no check matched", w)
			}
		default:
			fail("%s: statement outside the grammar at %v", w, e.fset.Position(st.Pos()))
		}
	}
	if !seenLoop {
		fail("%s: pattern loop not found", w)
	}
	c.WriteString("(* authenticateOrigin before the pattern loop: Some true = authorised, Some false = refused, None = the patterns decide (no match = refused);\n   origin_empty = r.Header.Get(\"Origin\") == \"\", parses = url.Parse(origin) succeeded, host_fold_equal = strings.EqualFold(r.Host, u.Host) *)\n")
	fmt.Fprintf(&c, "Definition gen_origin_pre (origin_empty parses host_fold_equal : bool) : option bool :=\n  %sNone.\n\n", pre)
	c.WriteString("(* one step of the loop over the patterns: 0 = next pattern, 1 = refused, 2 = authorised; pattern_bad / matched = the results of match(pattern, u.Host) *)\n")
	fmt.Fprintf(&c, "Definition gen_origin_step (pattern_bad matched : bool) : Z :=\n  %s.\n\n", step)
	// match(pattern, s) lowers both sides
	md := e.fnIn("accept.go", "match")
	if len(md.Body.List) != 1 {
		fail("match: body outside the grammar")
	}
	if rs, ok := md.Body.List[0].(*ast.ReturnStmt); !ok || len(rs.Results) != 1 || exprKey(rs.Results[0]) != "filepath.Match(strings.ToLower(pattern),strings.ToLower(s))" {
		fail("match: is not filepath.Match(strings.ToLower(pattern), strings.ToLower(s))")
	}
	c.WriteString("(* match(pattern, s) is filepath.Match(strings.ToLower(pattern), strings.ToLower(s)) — checked by the translator *)\nDefinition gen_match_lowers_both : bool := true.\n")
	_ = post
	writeGen(outdir, "OriginCode.v", c.String())
}

func (e *env) closePayloadCode(outdir string) {
	var c strings.Builder
	c.WriteString("(* GENERATED by /verif/tools/constx from /repo's working tree (close.go CloseError.bytesErr, parseClosePayload, writeClose) on every run — do not edit. *)\n")
	c.WriteString("From Coq Require Import ZArith Bool.\nFrom WS Require Import Gen.CloseCode.\n\n")
	// bytesErr
	fd := e.fnRecv("close.go", "CloseError", "bytesErr")
	w := "bytesErr"
	a := atoms{w: w, b: map[string]string{"validWireCloseCode(ce.Code)": "(valid_wire_code code)"}, z: map[string]string{"len(ce.Reason)": "reason_len"}}
	var checks []ast.Stmt
	rest := 0
	for i, st := range fd.Body.List {
		if _, ok := st.(*ast.IfStmt); ok {
			checks = append(checks, st)
			rest = i + 1
		}
	}
	checks = append(checks, &ast.ReturnStmt{Results: []ast.Expr{ast.NewIdent("nil")}})
	body := e.verdictChain(checks, a, lastIsNil, "false", "true", func(*ast.ReturnStmt) string { return "false" })
	fmt.Fprintf(&c, "(* CloseError.bytesErr: true = refused (nothing is marshalled) *)\nDefinition gen_close_bytes_refused (reason_len code : Z) : bool :=\n  %s.\n\n", body)
	// what follows the checks must build 2+len(reason) bytes: code big endian, then the reason
	tail := fd.Body.List[rest:]
	okTail := len(tail) == 4
	if okTail {
		as, ok := tail[0].(*ast.AssignStmt)
		okTail = ok && len(as.Rhs) == 1 && exprKey(as.Lhs[0]) == "buf"
		if okTail {
			ce, ok := as.Rhs[0].(*ast.CallExpr)
			okTail = ok && exprKey(ce.Fun) == "make" && len(ce.Args) == 2
			if okTail {
				be, ok := ce.Args[1].(*ast.BinaryExpr)
				okTail = ok && be.Op == token.ADD && exprKey(be.X) == "2" && exprKey(be.Y) == "len(ce.Reason)"
			}
		}
		es1, ok1 := tail[1].(*ast.ExprStmt)
		okTail = okTail && ok1 && exprKey(es1.X) == "binary.BigEndian.PutUint16(buf,ce.Code)"
		es2, ok2 := tail[2].(*ast.ExprStmt)
		if okTail && ok2 {
			ce, ok := es2.X.(*ast.CallExpr)
			okTail = ok && exprKey(ce.Fun) == "copy" && len(ce.Args) == 2 && exprKey(ce.Args[1]) == "ce.Reason"
			if okTail {
				sl, ok := ce.Args[0].(*ast.SliceExpr)
				okTail = ok && exprKey(sl.X) == "buf" && sl.Low != nil && exprKey(sl.Low) == "2" && sl.High == nil
			}
		} else {
			okTail = false
		}
		rs, ok3 := tail[3].(*ast.ReturnStmt)
		okTail = okTail && ok3 && len(rs.Results) == 2 && exprKey(rs.Results[0]) == "buf" && lastIsNil(rs)
	}
	if !okTail {
		fail("bytesErr: the marshalling after the checks is not `buf := make([]byte, 2+len(ce.Reason)); binary.BigEndian.PutUint16(buf, uint16(ce.Code)); copy(buf[2:], ce.Reason); return buf, nil`")
	}

	// parseClosePayload
	fd = e.fnIn("close.go", "parseClosePayload")
	w = "parseClosePayload"
	a = atoms{w: w, b: map[string]string{"validWireCloseCode(ce.Code)": "(valid_wire_code code)"}, z: map[string]string{"len(p)": "plen"}}
	out := ""
	ceSeen := false
	for _, st := range fd.Body.List {
		switch s := st.(type) {
		case *ast.AssignStmt:
			// ce := CloseError{Code: StatusCode(binary.BigEndian.Uint16(p)), Reason: string(p[2:])}
			if len(s.Lhs) == 1 && exprKey(s.Lhs[0]) == "ce" {
				cl, ok := s.Rhs[0].(*ast.CompositeLit)
				if !ok || len(cl.Elts) != 2 {
					fail("%s: ce outside the grammar", w)
				}
				for _, el := range cl.Elts {
					kv := el.(*ast.KeyValueExpr)
					switch exprKey(kv.Key) {
					case "Code":
						ce, ok := kv.Value.(*ast.CallExpr)
						if !ok || exprKey(ce.Fun) != "StatusCode" || len(ce.Args) != 1 || exprKey(ce.Args[0]) != "binary.BigEndian.Uint16(p)" {
							fail("%s: the code is not StatusCode(binary.BigEndian.Uint16(p))", w)
						}
					case "Reason":
						ce, ok := kv.Value.(*ast.CallExpr)
						okR := ok && exprKey(ce.Fun) == "string" && len(ce.Args) == 1
						if okR {
							sl, ok := ce.Args[0].(*ast.SliceExpr)
							okR = ok && exprKey(sl.X) == "p" && sl.Low != nil && exprKey(sl.Low) == "2" && sl.High == nil
						}
						if !okR {
							fail("%s: the reason is not string(p[2:])", w)
						}
					default:
						fail("%s: ce outside the grammar", w)
					}
				}
				ceSeen = true
			}
		case *ast.IfStmt:
			if s.Else != nil || s.Init != nil {
				fail("%s: check outside the grammar", w)
			}
			rs, ok := s.Body.List[len(s.Body.List)-1].(*ast.ReturnStmt)
			if !ok || len(rs.Results) != 2 {
				fail("%s: check does not return", w)
			}
			v := "2" // error
			if lastIsNil(rs) {
				// the empty payload: CloseError{Code: StatusNoStatusRcvd}
				cl, ok := rs.Results[0].(*ast.CompositeLit)
				if !ok || len(cl.Elts) != 1 || exprKey(cl.Elts[0].(*ast.KeyValueExpr).Key) != "Code" || exprKey(cl.Elts[0].(*ast.KeyValueExpr).Value) != "StatusNoStatusRcvd" {
					fail("%s: an accepting check that does not report StatusNoStatusRcvd", w)
				}
				v = "0"
			}
			out += fmt.Sprintf("if %s then %s else\n  ", e.aCond(s.Cond, a), v)
		case *ast.ReturnStmt:
			if !lastIsNil(s) || exprKey(s.Results[0]) != "ce" {
				fail("%s: does not end with `return ce, nil`", w)
			}
			out += "1"
		default:
			fail("%s: statement outside the grammar at %v", w, e.fset.Position(st.Pos()))
		}
	}
	if !ceSeen {
		fail("%s: ce not found", w)
	}
	fmt.Fprintf(&c, "(* parseClosePayload: 0 = StatusNoStatusRcvd without reason, 1 = (code, reason) = (first two bytes big endian, the rest), 2 = error;\n   plen = len(p), code = the first two bytes of p big endian *)\nDefinition gen_parse_close (plen code : Z) : Z :=\n  %s.\n\n", out)

	// writeClose: a payload is marshalled unless the code is StatusNoStatusRcvd
	fd = e.fnRecv("close.go", "Conn", "writeClose")
	cond := ""
	for _, st := range fd.Body.List {
		if is, ok := st.(*ast.IfStmt); ok && is.Init == nil && is.Else == nil && mentions(is.Body.List, "bytes") {
			if cond != "" {
				fail("writeClose: more than one marshalling site")
			}
			aw := atoms{w: "writeClose", b: map[string]string{}, z: map[string]string{"ce.Code": "code"}}
			cond = e.aCond(is.Cond, aw)
		}
	}
	if cond == "" {
		fail("writeClose: the marshalling `if ce.Code != StatusNoStatusRcvd { p, err = ce.bytes() ... }` was not found")
	}
	fmt.Fprintf(&c, "(* writeClose: the Close frame carries a marshalled payload (otherwise it is empty) *)\nDefinition gen_close_has_payload (code : Z) : bool :=\n  %s.\n", cond)
	writeGen(outdir, "ClosePayloadCode.v", c.String())
}
