module constx

go 1.21
