#!/bin/bash
# tools/stress.sh <property> <first-seed> <last-seed> [tier]   — development aid: runs the check with many seeds on the current tree
# and prints the seeds on which it reports anything; keeps the replay of each under /tmp/stress/
P=$1; A=$2; B=$3; T=${4:-quick}; mkdir -p /tmp/stress
for s in $(seq $A $B); do
  out=$(VERIF_SEED=$s /verif/check $P --tier $T 2>&1); rc=$?
  if [ $rc != 0 ]; then echo "== $P seed $s rc=$rc"; echo "$out" | grep "^VIOLATION\|^KNOWN\|^BROKEN" | head -3; echo "$out" | grep "^DISAGREE\|^FAIL" | cut -c1-400 | head -3; cp /verif/replay/$P-0.json /tmp/stress/$P-seed$s.json 2>/dev/null; fi
done
echo "stress $P $A..$B done"
