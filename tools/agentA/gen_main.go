package main

import (
	"crypto/sha1"
	"encoding/base64"
	"encoding/hex"
	"fmt"
	"math/rand"
)

func hx(b []byte) string {
	if len(b) == 0 {
		return "-"
	}
	return hex.EncodeToString(b)
}

func main() {
	r := rand.New(rand.NewSource(20260925))
	rb := func(n int) []byte {
		b := make([]byte, n)
		for i := range b {
			b[i] = byte(r.Intn(256))
		}
		return b
	}
	// sha1 + encode: lengths 0..200 once each, plus 100 random lengths
	var ins [][]byte
	for n := 0; n <= 200; n++ {
		ins = append(ins, rb(n))
	}
	for i := 0; i < 100; i++ {
		ins = append(ins, rb(r.Intn(201)))
	}
	for _, in := range ins {
		d := sha1.Sum(in)
		fmt.Printf("S %s %s\n", hx(in), hx(d[:]))
		fmt.Printf("E %s %s\n", hx(in), hx([]byte(base64.StdEncoding.EncodeToString(in))))
	}
	// decode cases
	var ds [][]byte
	add := func(b []byte) { ds = append(ds, append([]byte(nil), b...)) }
	insertAt := func(b []byte, i int, c byte) []byte {
		o := append([]byte(nil), b[:i]...)
		o = append(o, c)
		return append(o, b[i:]...)
	}
	alpha := "ABCDEFGHIJKLMNOPQRSTUVWXYZabcdefghijklmnopqrstuvwxyz0123456789+/"
	for i := 0; i < 60; i++ { // valid
		add([]byte(base64.StdEncoding.EncodeToString(rb(r.Intn(40)))))
	}
	for i := 0; i < 80; i++ { // newlines inserted anywhere (also in/after padding)
		e := []byte(base64.StdEncoding.EncodeToString(rb(r.Intn(30))))
		k := 1 + r.Intn(4)
		for j := 0; j < k; j++ {
			c := byte('\n')
			if r.Intn(2) == 0 {
				c = '\r'
			}
			e = insertAt(e, r.Intn(len(e)+1), c)
		}
		add(e)
	}
	for i := 0; i < 60; i++ { // missing padding
		e := []byte(base64.StdEncoding.EncodeToString(rb(1 + r.Intn(30))))
		cut := 1 + r.Intn(2)
		if cut > len(e) {
			cut = len(e)
		}
		add(e[:len(e)-cut])
		add([]byte(base64.RawStdEncoding.EncodeToString(rb(1 + r.Intn(30)))))
	}
	for i := 0; i < 40; i++ { // extra padding / trailing garbage
		e := []byte(base64.StdEncoding.EncodeToString(rb(r.Intn(30))))
		switch r.Intn(4) {
		case 0:
			e = append(e, '=')
		case 1:
			e = append(e, '=', '=')
		case 2:
			e = append(e, alpha[r.Intn(64)])
		case 3:
			e = append(e, []byte(base64.StdEncoding.EncodeToString(rb(1+r.Intn(5))))...)
		}
		add(e)
	}
	for i := 0; i < 80; i++ { // one byte replaced by an arbitrary byte
		e := []byte(base64.StdEncoding.EncodeToString(rb(1 + r.Intn(30))))
		e[r.Intn(len(e))] = byte(r.Intn(256))
		add(e)
	}
	for i := 0; i < 40; i++ { // '=' inserted somewhere
		e := []byte(base64.StdEncoding.EncodeToString(rb(1 + r.Intn(30))))
		add(insertAt(e, r.Intn(len(e)+1), '='))
	}
	for i := 0; i < 60; i++ { // random alphabet strings of arbitrary length (wrong lengths)
		n := r.Intn(20)
		e := make([]byte, n)
		for j := range e {
			e[j] = alpha[r.Intn(64)]
		}
		add(e)
	}
	for i := 0; i < 60; i++ { // trailing bits set in the last sextet before padding
		n := 1 + r.Intn(3)*3 + r.Intn(2) // length = 1 or 2 mod 3
		if n%3 == 0 {
			n++
		}
		e := []byte(base64.StdEncoding.EncodeToString(rb(n)))
		p := len(e) - 1
		for e[p] == '=' {
			p--
		}
		e[p] = alpha[r.Intn(64)]
		add(e)
	}
	for i := 0; i < 60; i++ { // short strings over a nasty alphabet
		nasty := "AQ=\n\r/+z9 -_"
		n := r.Intn(9)
		e := make([]byte, n)
		for j := range e {
			e[j] = nasty[r.Intn(len(nasty))]
		}
		add(e)
	}
	for _, s := range []string{"", "=", "==", "===", "====", "A", "AA", "AAA", "AAAA", "AA==", "AAA=", "A===",
		"AA=", "AA=A", "AA=\n=", "AA=\r\n=\n", "AAA=\n\n", "AAA=\nA", "\n", "\r\n", "AA==AA==", "AAA=AAAA",
		"AAAA=", "AAAA==", "AAAAA", "AAAAAA==", "AAAAAAA=", "AAAAAAAAAAA=", "AAAAAAAAAA==", "AAAAAAAA\nAAA=",
		"AAAAAAA\n=", "AAAAAAAAA\nA=\n=", "AAAAAAAA=AAA", "QUJDRA==", "Zm9vYmFy", "Zm9vYmE=", "Zm9vYg==",
		"Zm9v\r\nYmFy", "Zm9vYmF*", "Zm9vYmF\x00", "Zm9vYm\xff=", "_-==", "AB-_"} {
		add([]byte(s))
	}
	for _, in := range ds {
		out, err := base64.StdEncoding.DecodeString(string(in))
		if err != nil {
			fmt.Printf("D %s err\n", hx(in))
		} else {
			fmt.Printf("D %s ok %s\n", hx(in), hx(out))
		}
	}
}
