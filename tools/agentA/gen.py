import sys
def lst(h):
    if h == '-': return '[]'
    b = bytes.fromhex(h)
    return '[' + ';'.join(str(x) for x in b) + ']'
S=[];E=[];D=[]
for line in open('cases.txt'):
    f=line.split()
    if f[0]=='S': S.append('(%s,%s)'%(lst(f[1]),lst(f[2])))
    elif f[0]=='E': E.append('(%s,%s)'%(lst(f[1]),lst(f[2])))
    elif f[0]=='D':
        if f[2]=='ok': D.append('(%s,Some %s)'%(lst(f[1]),lst(f[3])))
        else: D.append('(%s,None)'%lst(f[1]))
o=open('cases.v','w')
o.write('''From Coq Require Import List NArith Bool.
From WS Require Import Base.Words Model.Sha1 Model.Base64.
Import ListNotations. Open Scope N_scope.
Fixpoint beq (a b : bytes) : bool :=
  match a, b with [], [] => true | x :: a', y :: b' => (x =? y) && beq a' b' | _, _ => false end.
Definition obeq (a b : option bytes) : bool :=
  match a, b with None, None => true | Some x, Some y => beq x y | _, _ => false end.
''')
def emit(name, items, ty):
    o.write('Definition %s : list (%s) :=\n [' % (name, ty))
    o.write(';\n  '.join(items))
    o.write('].\n')
emit('sha_cases', S, 'bytes * bytes')
emit('enc_cases', E, 'bytes * bytes')
emit('dec_cases', D, 'bytes * option bytes')
o.write('''Eval vm_compute in (length sha_cases, forallb (fun p => beq (sha1 (fst p)) (snd p)) sha_cases).
Eval vm_compute in (length enc_cases, forallb (fun p => beq (b64_encode (fst p)) (snd p)) enc_cases).
Eval vm_compute in (length dec_cases, forallb (fun p => obeq (b64_decode (fst p)) (snd p)) dec_cases).
Eval vm_compute in (length (filter (fun p => match snd p with Some _ => true | None => false end) dec_cases)).
(* mismatches, if any *)
Eval vm_compute in (map fst (filter (fun p => negb (obeq (b64_decode (fst p)) (snd p))) dec_cases)).
''')
