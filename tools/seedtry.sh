#!/bin/bash
# tools/seedtry.sh <seed-id> <worktree-out-dir> <property-check>...   (development aid, not a registered check)
#  1. confirms the seeded change in its scratch worktree: the existing suite passes with it, the demo fails with it and passes without
#  2. stores patch.diff / demo_test.go / meta.json under /verif/seeded/<seed-id>/
#  3. applies the patch to /repo, runs the named checks (quick tier), restores /repo, records which checks reported a violation
export GOFLAGS=-mod=mod GOPROXY=off GOSUMDB=off GOTOOLCHAIN=local
set -u
ID=$1; WT=/tmp/seed/$2; OUT=/tmp/seed/$2-out; shift 2
DST=/verif/seeded/$ID; mkdir -p $DST
cp $OUT/patch.diff $OUT/meta.json $DST/ 2>/dev/null; cp $OUT/demo_test.go $DST/demo_test.go.txt 2>/dev/null
res=$DST/confirm.txt
if [ "${SEED_PHASE:-all}" != check ] && [ -d $WT ]; then
  : > $res
  cd $WT
  git checkout -q -- . ; git apply $DST/patch.diff || { echo "patch does not apply in worktree" | tee -a $res; }
  cp $DST/demo_test.go.txt demo_test.go
  go test -vet=off -count=1 -run TestSeedDemo -timeout 180s . > /tmp/seed/$ID.with.log 2>&1; echo "demo with patch: exit $? (expected non-zero)" | tee -a $res
  mv demo_test.go /tmp/seed/$ID.demo.go
  go test -vet=off -count=1 ./... > /tmp/seed/$ID.suite.log 2>&1; echo "existing suite with patch: exit $? (expected 0)" | tee -a $res
  git checkout -q -- . ; cp /tmp/seed/$ID.demo.go demo_test.go
  go test -vet=off -count=1 -run TestSeedDemo -timeout 180s . > /tmp/seed/$ID.without.log 2>&1; echo "demo without patch: exit $? (expected 0)" | tee -a $res
  rm -f demo_test.go /tmp/seed/$ID.demo.go
  tail -5 /tmp/seed/$ID.with.log | sed 's/^/    with: /' >> $res
  cd /verif
fi
[ "${SEED_PHASE:-all}" = confirm ] && exit 0
sed -i "/^check /,\$d" $res
git -C /repo status --short | grep -q . && { echo "/repo not clean"; exit 2; }
git -C /repo apply $DST/patch.diff || { echo "patch does not apply to /repo"; exit 2; }
for p in "$@"; do
  /verif/check $p --tier quick > /tmp/seed/$ID.$p.log 2>&1; rc=$?
  v=$(grep -m1 '^VIOLATION' /tmp/seed/$ID.$p.log)
  echo "check $p: exit $rc ${v}" | tee -a $res
  rp=$(echo "$v" | sed -n 's/.*replay=\([^ ]*\).*/\1/p')
  [ -n "$rp" ] && [ -f "$rp" ] && cp "$rp" $DST/replay-$p.json
  [ -n "$rp" ] && [ -f "$rp" ] && python3 - "$rp" >> $res <<'PY'
import json,sys
d=json.load(open(sys.argv[1]))
for k in ('signature','what','message','case','theorem'):
    if k in d: print('    %s: %s' % (k, str(d[k])[:300]))
PY
done
git -C /repo checkout -- . ; git -C /repo status --short
