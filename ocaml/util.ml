(* Hand-written glue for the extracted model: number conversions, hex, PRNG, digest.
   Trusted (see DESIGN.md §7); cross-checked by the in-Coq vm_compute evaluation of a sample. *)
open Model

let rec pos_of_int (i : int) : positive =
  if i = 1 then XH else if i land 1 = 0 then XO (pos_of_int (i lsr 1)) else XI (pos_of_int (i lsr 1))
let n_of_int (i : int) : n = if i = 0 then N0 else Npos (pos_of_int i)
let rec int_of_pos (p : positive) : int =
  match p with XH -> 1 | XO q -> 2 * int_of_pos q | XI q -> 2 * int_of_pos q + 1
let int_of_n (x : n) : int = match x with N0 -> 0 | Npos p -> int_of_pos p

(* arbitrary precision in decimal strings is not needed: 63-bit ints carry every number the
   harness sends except 2^63..2^64-1 frame lengths, which travel as hex and go through n_of_hex *)
let rec pos_of_bits (bits : bool list) : positive option =
  (* bits: most significant first, leading zeros allowed *)
  match bits with
  | [] -> None
  | b :: r ->
    (match pos_of_bits_acc (if b then Some XH else None) r with x -> x)
and pos_of_bits_acc acc r =
  match r with
  | [] -> acc
  | b :: r' ->
    let acc' = match acc with
      | None -> if b then Some XH else None
      | Some p -> Some (if b then XI p else XO p) in
    pos_of_bits_acc acc' r'

let n_of_hex (s : string) : n =
  let bits = ref [] in
  String.iter (fun c ->
    let v = match c with
      | '0'..'9' -> Char.code c - 48 | 'a'..'f' -> Char.code c - 87 | 'A'..'F' -> Char.code c - 55
      | _ -> failwith ("bad hex digit in " ^ s) in
    bits := (v land 1 <> 0) :: (v land 2 <> 0) :: (v land 4 <> 0) :: (v land 8 <> 0) :: !bits) s;
  match pos_of_bits (List.rev !bits) with None -> N0 | Some p -> Npos p

let hex_of_n (x : n) : string =
  (* big numbers: print hex via repeated traversal of the positive *)
  match x with
  | N0 -> "0"
  | Npos p ->
    let rec bits p acc = match p with XH -> true :: acc | XO q -> bits q (false :: acc) | XI q -> bits q (true :: acc) in
    let bl = bits p [] in  (* most significant first *)
    let len = List.length bl in
    let pad = (4 - len mod 4) mod 4 in
    let bl = List.init pad (fun _ -> false) @ bl in
    let buf = Buffer.create 16 in
    let rec go = function
      | a :: b :: c :: d :: r ->
        let v = (if a then 8 else 0) + (if b then 4 else 0) + (if c then 2 else 0) + (if d then 1 else 0) in
        Buffer.add_char buf "0123456789abcdef".[v]; go r
      | _ -> () in
    go bl; Buffer.contents buf

let rec nat_of_int (i : int) : nat = if i <= 0 then O else S (nat_of_int (i - 1))
let nat_of_int i = (* tail-recursive for big values *)
  let rec go i acc = if i <= 0 then acc else go (i - 1) (S acc) in go i O
let int_of_nat (x : nat) : int = let rec go x acc = match x with O -> acc | S y -> go y (acc + 1) in go x 0

let z_of_int (i : int) : z = if i = 0 then Z0 else if i > 0 then Zpos (pos_of_int i) else Zneg (pos_of_int (- i))
let int_of_z (x : z) : int = match x with Z0 -> 0 | Zpos p -> int_of_pos p | Zneg p -> - (int_of_pos p)

(* byte table so that we do not rebuild positives for every byte *)
let byte_tab : n array = Array.init 256 n_of_int
let bytes_of_string (s : string) : n list =
  let l = ref [] in
  for i = String.length s - 1 downto 0 do l := byte_tab.(Char.code s.[i]) :: !l done; !l
let string_of_bytes (l : n list) : string =
  let b = Buffer.create 64 in
  List.iter (fun x -> Buffer.add_char b (Char.chr ((int_of_n x) land 255))) l; Buffer.contents b

let unhex (s : string) : string =
  if s = "-" then "" else begin
    let n = String.length s / 2 in
    String.init n (fun i -> Char.chr (int_of_string ("0x" ^ String.sub s (2 * i) 2)))
  end
let hex (s : string) : string =
  if s = "" then "-" else begin
    let b = Buffer.create (2 * String.length s) in
    String.iter (fun c -> Buffer.add_string b (Printf.sprintf "%02x" (Char.code c))) s; Buffer.contents b
  end

(* FNV-1a 64 *)
let fnv (s : string) : string =
  let h = ref 0xcbf29ce484222325L in
  String.iter (fun c -> h := Int64.logxor !h (Int64.of_int (Char.code c)); h := Int64.mul !h 0x100000001b3L) s;
  Printf.sprintf "%016Lx" !h

(* shared PRNG (xorshift64), identical in harness/gen.go *)
let gen_bytes (kind : string) (len : int) (seed : int) : string =
  let x = ref (Int64.logor (Int64.mul (Int64.of_int seed) 0x9E3779B97F4A7C15L) 1L) in
  let next () =
    x := Int64.logxor !x (Int64.shift_left !x 13);
    x := Int64.logxor !x (Int64.shift_right_logical !x 7);
    x := Int64.logxor !x (Int64.shift_left !x 17);
    Int64.to_int (Int64.logand (Int64.shift_right_logical !x 32) 0xffL) in
  match kind with
  | "rand" -> String.init len (fun _ -> Char.chr (next ()))
  | "const" -> let c = Char.chr (next ()) in String.make len c
  | "text" ->
    let words = [| "the "; "websocket "; "frame "; "payload "; "{\"k\":"; "12345"; "},"; "hello "; "world " |] in
    let b = Buffer.create (len + 16) in
    while Buffer.length b < len do Buffer.add_string b words.(next () mod Array.length words) done;
    Buffer.sub b 0 len
  | "period" -> let p = 1 + next () mod 7 in let base = String.init p (fun _ -> Char.chr (next ())) in
    String.init len (fun i -> base.[i mod p])
  | _ -> failwith ("unknown gen kind " ^ kind)

(* payload field:  "-" | hex | gen:<kind>:<len>:<seed> *)
let payload (f : string) : string =
  if String.length f >= 4 && String.sub f 0 4 = "gen:" then
    (match String.split_on_char ':' f with
     | [_; kind; len; seed] -> gen_bytes kind (int_of_string len) (int_of_string seed)
     | _ -> failwith ("bad gen field " ^ f))
  else unhex f

let split_ws (s : string) : string list = List.filter (fun x -> x <> "") (String.split_on_char ' ' s)

(* key=value fields *)
let kv (fields : string list) : (string * string) list =
  List.filter_map (fun f -> match String.index_opt f '=' with
    | Some i -> Some (String.sub f 0 i, String.sub f (i + 1) (String.length f - i - 1))
    | None -> None) fields
let get kvs k = try List.assoc k kvs with Not_found -> failwith ("missing field " ^ k)
let get_or kvs k d = try List.assoc k kvs with Not_found -> d
