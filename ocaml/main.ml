(* wsmodel: runs the extracted Gallina model on the case files written by the Go harness and
   prints canonical observation lines in the same grammar as the harness. *)
open Model
open Util

let key_of_hex (h : string) : key =
  let s = unhex h in
  (((byte_tab.(Char.code s.[0]), byte_tab.(Char.code s.[1])), byte_tab.(Char.code s.[2])), byte_tab.(Char.code s.[3]))
let hex_of_key (k : key) : string =
  let (((a, b), c), d) = k in hex (string_of_bytes [a; b; c; d])

(* ---- suite mask: id=.. fn=go|asm key=<8hex> data=<payload> split=<a,b,c|-> ---- *)
let run_mask kvs =
  let k = key_of_hex (get kvs "key") in
  let data = payload (get kvs "data") in
  let pieces = match get_or kvs "split" "-" with
    | "-" -> [data]
    | s -> let lens = List.map int_of_string (String.split_on_char ',' s) in
      let pos = ref 0 in
      List.map (fun l -> let p = String.sub data !pos l in pos := !pos + l; p) lens in
  let guard = String.make 64 '\xA5' in
  let align = int_of_string (get_or kvs "align" "0") in
  let (out, k') =
    if get kvs "fn" = "asm" then begin
      (* the assembly model runs on (pre, buf, post): length pre = address of the piece modulo 64 *)
      let total = String.length data in
      let pos = ref 0 in
      List.fold_left (fun (acc, k) p ->
        let l = String.length p in
        let pre = bytes_of_string (guard ^ String.make align '\xA5') @ acc in
        let post = bytes_of_string (String.sub data (!pos + l) (total - !pos - l) ^ guard) in
        pos := !pos + l;
        match maskAsm_amd64 ((pre, bytes_of_string p), post) k with
        | AsmDone (((pre', b'), post'), k') ->
          if pre' <> pre || post' <> post then failwith "asm model touched memory outside the buffer";
          (acc @ b', k')
        | AsmFault -> failwith "asm model fault") ([], k) pieces
    end else
      List.fold_left (fun st p -> mask_piece st (bytes_of_string p)) ([], k) pieces in
  let spec = mask_spec k (bytes_of_string data) in
  let o = string_of_bytes out in
  Printf.sprintf "out=%s key=%s spec=%s" (fnv o) (hex_of_key k') (fnv (string_of_bytes spec))

let suites : (string * ((string * string) list -> string)) list = [
  "mask", run_mask;
]

let () =
  let suite = Sys.argv.(1) in
  let f = try List.assoc suite suites with Not_found -> (prerr_endline ("unknown suite " ^ suite); exit 2) in
  let ic = if Array.length Sys.argv > 2 then open_in Sys.argv.(2) else stdin in
  (try
    while true do
      let line = input_line ic in
      if line <> "" && line.[0] <> '#' then begin
        let kvs = kv (split_ws line) in
        let id = get kvs "id" in
        let o = try f kvs with e -> "modelerror=" ^ String.map (fun c -> if c = ' ' then '_' else c) (Printexc.to_string e) in
        Printf.printf "id=%s %s\n" id o
      end
    done
  with End_of_file -> ());
  flush stdout
