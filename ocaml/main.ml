(* wsmodel: runs the extracted Gallina model on the case files written by the Go harness and
   prints canonical observation lines in the same grammar as the harness. *)
open Model
open Util

let key_of_hex (h : string) : key =
  let s = unhex h in
  (((byte_tab.(Char.code s.[0]), byte_tab.(Char.code s.[1])), byte_tab.(Char.code s.[2])), byte_tab.(Char.code s.[3]))
let hex_of_key (k : key) : string =
  let (((a, b), c), d) = k in hex (string_of_bytes [a; b; c; d])

(* ---- suite mask: id=.. fn=go|asm key=<8hex> data=<payload> split=<a,b,c|-> ---- *)
let run_mask kvs =
  let k = key_of_hex (get kvs "key") in
  let data = payload (get kvs "data") in
  let pieces = match get_or kvs "split" "-" with
    | "-" -> [data]
    | s -> let lens = List.map int_of_string (String.split_on_char ',' s) in
      let pos = ref 0 in
      List.map (fun l -> let p = String.sub data !pos l in pos := !pos + l; p) lens in
  let (out, k') = List.fold_left (fun st p -> mask_piece st (bytes_of_string p)) ([], k) pieces in
  let spec = mask_spec k (bytes_of_string data) in
  let o = string_of_bytes out in
  Printf.sprintf "out=%s key=%s spec=%s" (fnv o) (hex_of_key k') (fnv (string_of_bytes spec))

let suites : (string * ((string * string) list -> string)) list = [
  "mask", run_mask;
]

let () =
  let suite = Sys.argv.(1) in
  let f = try List.assoc suite suites with Not_found -> (prerr_endline ("unknown suite " ^ suite); exit 2) in
  let ic = if Array.length Sys.argv > 2 then open_in Sys.argv.(2) else stdin in
  (try
    while true do
      let line = input_line ic in
      if line <> "" && line.[0] <> '#' then begin
        let kvs = kv (split_ws line) in
        let id = get kvs "id" in
        let o = try f kvs with e -> "modelerror=" ^ String.map (fun c -> if c = ' ' then '_' else c) (Printexc.to_string e) in
        Printf.printf "id=%s %s\n" id o
      end
    done
  with End_of_file -> ());
  flush stdout
