(* wsmodel: runs the extracted Gallina model on the case files written by the Go harness and
   prints canonical observation lines in the same grammar as the harness. *)
open Model
open Util

let key_of_hex (h : string) : key =
  let s = unhex h in
  (((byte_tab.(Char.code s.[0]), byte_tab.(Char.code s.[1])), byte_tab.(Char.code s.[2])), byte_tab.(Char.code s.[3]))
let hex_of_key (k : key) : string =
  let (((a, b), c), d) = k in hex (string_of_bytes [a; b; c; d])

(* ---- suite mask: id=.. fn=go|asm key=<8hex> data=<payload> split=<a,b,c|-> ---- *)
let run_mask kvs =
  let k = key_of_hex (get kvs "key") in
  let data = payload (get kvs "data") in
  let pieces = match get_or kvs "split" "-" with
    | "-" -> [data]
    | s -> let lens = List.map int_of_string (String.split_on_char ',' s) in
      let pos = ref 0 in
      List.map (fun l -> let p = String.sub data !pos l in pos := !pos + l; p) lens in
  let guard = String.make 64 '\xA5' in
  let align = int_of_string (get_or kvs "align" "0") in
  let (out, k') =
    if get kvs "fn" = "asm" then begin
      (* the assembly model runs on (pre, buf, post): length pre = address of the piece modulo 64 *)
      let total = String.length data in
      let pos = ref 0 in
      List.fold_left (fun (acc, k) p ->
        let l = String.length p in
        let pre = bytes_of_string (guard ^ String.make align '\xA5') @ acc in
        let post = bytes_of_string (String.sub data (!pos + l) (total - !pos - l) ^ guard) in
        pos := !pos + l;
        match maskAsm_amd64 ((pre, bytes_of_string p), post) k with
        | AsmDone (((pre', b'), post'), k') ->
          if pre' <> pre || post' <> post then failwith "asm model touched memory outside the buffer";
          (acc @ b', k')
        | AsmFault -> failwith "asm model fault") ([], k) pieces
    end else
      List.fold_left (fun st p -> mask_piece st (bytes_of_string p)) ([], k) pieces in
  let spec = mask_spec k (bytes_of_string data) in
  let o = string_of_bytes out in
  Printf.sprintf "out=%s key=%s spec=%s" (fnv o) (hex_of_key k') (fnv (string_of_bytes spec))

(* ---- the flate oracle coprocess (wsharness -oracle): instantiates the Section variables dz / inflate ---- *)
let oracle_chan : (in_channel * out_channel) option ref = ref None
let oracle () =
  match !oracle_chan with
  | Some c -> c
  | None ->
    let exe = Filename.concat (Filename.dirname Sys.executable_name) "../bin/wsharness" in
    let c = Unix.open_process (Filename.quote exe ^ " -oracle") in
    oracle_chan := Some c; c
let oracle_query (q : string) : string =
  let (ic, oc) = oracle () in
  output_string oc q; output_char oc '\n'; flush oc;
  input_line ic

let hexb (l : n list) : string = hex (string_of_bytes l)
let dz_oracle (hist : dzop list) : n list list =
  let ops = List.map (function DWrite p -> "w" ^ hexb p | DFlush -> "f") hist in
  let r = oracle_query ("D " ^ String.concat "," ops) in
  if r = "-" then [] else List.map (fun h -> bytes_of_string (unhex h)) (String.split_on_char ',' r)
let inflate_oracle (dict : n list) (inp : n list) : n list * istatus =
  let r = oracle_query (Printf.sprintf "I %s %s" (hexb dict) (hexb inp)) in
  match String.split_on_char ' ' r with
  | [st; c; o] ->
    let out = bytes_of_string (unhex o) in
    (out, (match st with "final" -> IFinal (nat_of_int (int_of_string c)) | "needmore" -> INeedMore | _ -> ICorrupt))
  | _ -> failwith ("bad oracle reply " ^ r)

let role_of s = if s = "client" then Client else Server
let co_of s = if s = "none" || s = "" then None else Some { cnct = s.[0] = '1'; snct = s.[1] = '1' }

(* ---- suite wire-out ---- *)
let parse_prog (prog : string) : wop list * int =
  let pings = ref 0 in
  let ops = List.filter_map (fun op ->
    match String.split_on_char '~' op with
    | ["W"; t; p] -> Some (WWrite (n_of_int (int_of_string t), bytes_of_string (payload p)))
    | ["S"; t; chs] ->
      let cs = if chs = "" then [] else List.map (fun c -> bytes_of_string (payload c)) (String.split_on_char ';' chs) in
      Some (WStream (n_of_int (int_of_string t), cs))
    | ["P"] -> incr pings; Some (WControl (n_of_int 9, bytes_of_string (string_of_int !pings)))
    | ["C"; code; r] -> Some (WClose (z_of_int (int_of_string code), bytes_of_string (payload r)))
    | ["X"] -> None
    | _ -> failwith ("bad op " ^ op)) (String.split_on_char '|' prog) in
  (ops, !pings)

let keys_of_frames (fs : pframe list) : int -> key =
  let arr = Array.of_list (List.map (fun f -> f.pf_hdr.h_key) fs) in
  fun i -> if i < Array.length arr then arr.(i) else (((N0, N0), N0), N0)

let ev_str (e : (n * n list) option) = match e with
  | Some (t, p) -> Printf.sprintf "m%d:%d:%s" (int_of_n t) (List.length p) (fnv (string_of_bytes p))
  | None -> "corrupt"

let run_wireout kvs ikvs =
  let role = role_of (get kvs "role") in
  let co = co_of (get kvs "co") in
  let cfg = { wc_role = role; wc_co = co; wc_thr0 = n_of_int (int_of_string (get_or kvs "thr" "0")) } in
  let (prog, _) = parse_prog (get kvs "prog") in
  let iwire = bytes_of_string (unhex (get_or ikvs "wire" "-")) in
  let (ifs, iend) = parse iwire in
  let keyf = keys_of_frames ifs in
  let keys (i : nat) = keyf (int_of_nat i) in
  let st = w_run keys dz_oracle cfg prog in
  let mwire = string_of_bytes (w_wire st) in
  (* the judge: the property's own checker applied to what the implementation wrote *)
  let takeover = (match co with Some c -> writer_takeover role c | None -> false) in
  let verdict =
    if iend <> PClean then "violation:unparsable-tail"
    else if not (wf_stream role co ifs) then "violation:not-conformant"
    else begin
      let evs = ref_events ifs in
      let got_msgs = List.map ev_str (ref_messages inflate_oracle takeover [] evs) in
      let got_ctl = List.filter_map (function EvCtl (o, p) -> Some (Printf.sprintf "c%d:%s" (int_of_n o) (hexb p)) | _ -> None) evs in
      let exp_msgs = List.filter_map (function
        | WWrite (t, p) -> Some (ev_str (Some (t, p)))
        | WStream (t, cs) -> Some (ev_str (Some (t, List.concat cs)))
        | _ -> None) prog in
      let exp_ctl = List.filter_map (function
        | WControl (o, p) -> Some (Printf.sprintf "c%d:%s" (int_of_n o) (hexb p))
        | WClose (c, r) -> (match close_payload c r with Some p -> Some (Printf.sprintf "c8:%s" (hexb p)) | None -> None)
        | _ -> None) prog in
      let keys_l = List.filter_map (fun f -> if f.pf_hdr.h_masked then Some f.pf_hdr.h_key else None) ifs in
      let distinct = List.length (List.sort_uniq compare keys_l) = List.length keys_l in
      if got_msgs <> exp_msgs then "violation:messages-differ"
      else if got_ctl <> exp_ctl then "violation:control-frames-differ"
      else if not distinct then "violation:mask-key-repeated"
      else "ok"
    end in
  let errs = List.map (function
    | WClose (c, r) -> (match close_payload c r with Some _ -> "nil" | None -> "other")
    | _ -> "nil") prog in
  Printf.sprintf "errs=%s wirefnv=%s n=%d frames=%d judge=%s" (String.concat "," errs) (fnv mwire) (String.length mwire) (List.length st.w_out) verdict

(* ---- suite wire-in ---- *)
let err_str (e : rerr) = match e with
  | RECloseErr (c, r) -> Printf.sprintf "close:%d:%s" (int_of_z c) (hexb r)
  | REOther -> "other" | RETransEof -> "transporteof" | RETransFail -> "transportfail"
  | RELimit -> "limit" | REClosed -> "closed" | REUsage -> "usage" | REBlocked -> "blocked"

let debug = (try Sys.getenv "VERIF_DEBUG" <> "" with Not_found -> false)
let dbg_data (d : n list) =
  if debug then begin
    let b = string_of_bytes d in
    let n = String.length b in
    let h = if n > 48 then String.sub b 0 48 else b and t = if n > 48 then String.sub b (n - 48) 48 else b in
    Printf.eprintf "DEBUG model data len=%d head=%s tail=%s\n" n (hex h) (hex t)
  end
let obs_str (o : obs) = (match o with ObMsg (d, _) -> dbg_data d | _ -> ()); match o with
  | ObReader (Inl t) -> Printf.sprintf "R:%d" (int_of_n t)
  | ObReader (Inr e) -> "R:err=" ^ err_str e
  | ObMsg (d, None) -> let b = string_of_bytes d in Printf.sprintf "M:%d:%s:eof" (String.length b) (fnv b)
  | ObMsg (d, Some e) -> let b = string_of_bytes d in Printf.sprintf "M:%d:%s:err=%s" (String.length b) (fnv b) (err_str e)
  | ObPartial d -> let b = string_of_bytes d in Printf.sprintf "P:%d:%s" (String.length b) (fnv b)

let reply_str (r : reply) = match r with
  | RpPong p -> "10:" ^ hexb p
  | RpClose (c, Some reason) ->
    let ci = int_of_z c in
    if ci = 1005 then "8:-" else "8:" ^ hex (Printf.sprintf "%c%c" (Char.chr (ci lsr 8)) (Char.chr (ci land 255)) ^ string_of_bytes reason)
  | RpClose (c, None) -> Printf.sprintf "8:code=%d" (int_of_z c)

let parse_rops (ops : string) : rop list =
  List.concat_map (fun op ->
    if op = "" then [] else
    if op = "R" then [OReader] else if op = "A" then [OReadAll]
    else if op.[0] = 'a' || op.[0] = 'z' (* z<n>: as a<n>, with a zero-length Read before every Read: same observations *) then [OReadAllN (nat_of_int (int_of_string (String.sub op 1 (String.length op - 1))))]
    else if op.[0] = 'r' then [ORead (nat_of_int (int_of_string (String.sub op 1 (String.length op - 1))))]
    else if op.[0] = 'L' then [OSetLimit (z_of_int (int_of_string (String.sub op 1 (String.length op - 1))))]
    else failwith ("bad read op " ^ op)) (String.split_on_char ',' ops)

let run_wirein kvs _ =
  let cfg = { rc_role = role_of (get kvs "role"); rc_co = co_of (get kvs "co") } in
  let ops = parse_rops (get kvs "ops") in
  let ops = match get_or kvs "limit" "default" with "default" -> ops | l -> OSetLimit (z_of_int (int_of_string l)) :: ops in
  let e = match get_or kvs "end" "eof" with "fail" -> EFail | "open" -> EOpen | _ -> EEof in
  let inq = bytes_of_string (payload (get kvs "stream")) in
  (* whether the inflater reported corrupt data during this case: the model pulls a compressed message eagerly, so what it
     did with the frames AFTER the corrupt point (answering a Ping, rejecting a bad header with a Close frame) is read-ahead
     the library, which stops at the corrupt data, never performs *)
  let zcorrupt = ref false in
  let infl d i = let (o, st) = inflate_oracle d i in (match st with ICorrupt -> zcorrupt := true | _ -> ()); (o, st) in
  let (obs, st) = run cfg infl c_initialLimitStored inq e ops in
  let reps = List.map reply_str st.r_replies in
  let faildata = List.fold_left (fun acc o -> match o with ObMsg (d, Some _) -> hexb d | _ -> acc) "?" obs in
  (* hitend: the model consumed the whole stream and ran into the end / failure of the transport *)
  let hitend = (st.r_inq = []) && (match e with EOpen -> false | _ -> true) in
  Printf.sprintf "obs=%s replies=%s faildata=%s zcorrupt=%d hitend=%d" (String.concat "," (List.map obs_str obs)) (if reps = [] then "-" else String.concat "," reps) faildata (if !zcorrupt then 1 else 0) (if hitend then 1 else 0)

(* ---- suite close ---- *)
let run_close kvs _ =
  (* pmsg (a received message left unread / partly read) is not a call of the close state machine: it changes no close state *)
  let steps = List.filter (fun st -> not (String.length st >= 4 && String.sub st 0 4 = "pmsg")) (String.split_on_char '|' (get kvs "steps")) in
  let ops = List.map (fun st -> match String.split_on_char '~' st with
    | ["close"; c; r] -> AClose (z_of_int (int_of_string c), bytes_of_string (payload r))
    | ["closenow"] -> ACloseNow
    | ["peerclose"; p] -> APeerClose (bytes_of_string (payload p))
    | ["write"] -> AWrite | ["writer"] -> AWriter | ["read"] -> ARead | ["ping"] -> APing
    | _ -> failwith ("bad step " ^ st)) steps in
  let (st, res) = csm_run true cs_init ops in
  let rs = List.map (function CNil -> "nil" | CErrClosed -> "closed" | CErr -> "err"
                             | CErrCloseFrame (c, r) -> Printf.sprintf "close:%d:%s" (int_of_z c) (hexb r)) res in
  let closes = List.map hexb st.cs_wire in
  let status = List.fold_left (fun acc r -> match r with CErrCloseFrame (c, _) -> string_of_int (int_of_z c) | _ -> acc) "-"
      (List.filteri (fun i _ -> match List.nth ops i with APeerClose _ -> true | _ -> false) res) in
  let status = if status = "-" && List.exists (function APeerClose _ -> true | _ -> false) ops then "-1" else status in
  Printf.sprintf "res=%s closes=%s status=%s" (String.concat "," rs) (if closes = [] then "none" else String.concat "," closes) status

(* ---- suite pair: Writer ∘ Reader ---- *)
let contains (s : string) (sub : string) : bool =
  let n = String.length s and m = String.length sub in
  let rec go i = i + m <= n && (String.sub s i m = sub || go (i + 1)) in go 0

let run_pair kvs ikvs =
  let ext = get_or ikvs "ext" "none" in
  let co = if ext = "none" then None else Some { cnct = contains ext "client_no_context_takeover"; snct = contains ext "server_no_context_takeover" } in
  let keyhex = unhex (get_or ikvs "keys" "-") in
  let keys (i : nat) : key =
    let i = int_of_nat i in
    if 4 * i + 3 < String.length keyhex then
      (((byte_tab.(Char.code keyhex.[4*i]), byte_tab.(Char.code keyhex.[4*i+1])), byte_tab.(Char.code keyhex.[4*i+2])), byte_tab.(Char.code keyhex.[4*i+3]))
    else (((N0, N0), N0), N0) in
  let rbuf = get_or kvs "rbuf" "A" in
  let one dir_role thr prog =
    let wcfg = { wc_role = dir_role; wc_co = co; wc_thr0 = n_of_int thr } in
    let (ops, _) = parse_prog prog in
    let st = w_run keys dz_oracle wcfg ops in
    let wire = w_wire st in
    let rcfg = { rc_role = (match dir_role with Client -> Server | Server -> Client); rc_co = co } in
    let rops = List.concat_map (fun _ -> [OReader; (if rbuf = "A" then OReadAll else OReadAllN (nat_of_int (int_of_string rbuf)))]) ops in
    let (obs, _) = run rcfg inflate_oracle c_initialLimitStored wire EEof (OSetLimit (z_of_int (-1)) :: rops) in
    (* delivered messages: pair up R:typ with the following M *)
    let rec pairs = function
      | ObReader (Inl t) :: ObMsg (d, None) :: r -> let b = string_of_bytes d in Printf.sprintf "%d:%d:%s" (int_of_n t) (String.length b) (fnv b) :: pairs r
      | [] -> []
      | o :: _ -> ["FAIL:" ^ obs_str o] in
    let expected = List.filter_map (function
      | WWrite (t, p) -> let b = string_of_bytes p in Some (Printf.sprintf "%d:%d:%s" (int_of_n t) (String.length b) (fnv b))
      | WStream (t, cs) -> let b = string_of_bytes (List.concat cs) in Some (Printf.sprintf "%d:%d:%s" (int_of_n t) (String.length b) (fnv b))
      | _ -> None) ops in
    (fnv (string_of_bytes wire), String.concat "," (pairs obs), String.concat "," expected) in
  let (wc, c2s, ec) = one Client (int_of_string (get_or kvs "cthr" "0")) (get kvs "progc") in
  let (ws, s2c, es) = one Server (int_of_string (get_or kvs "sthr" "0")) (get kvs "progs") in
  Printf.sprintf "c2s=%s s2c=%s wc2s=%s ws2c=%s expc2s=%s exps2c=%s" c2s s2c wc ws ec es

(* ---- suites hs-accept / hs-dial ---- *)
let dec_hdrs (s : string) : (n list * n list list) list =
  if s = "-" || s = "" then [] else begin
    let items = List.map (fun x -> let i = String.index x '~' in (String.sub x 0 i, unhex (String.sub x (i + 1) (String.length x - i - 1)))) (String.split_on_char '|' s) in
    (* group values by key preserving first-appearance order of keys and order of values (http.Header semantics) *)
    let keys = List.fold_left (fun acc (k, _) -> if List.mem k acc then acc else acc @ [k]) [] items in
    List.map (fun k -> (bytes_of_string k, List.filter_map (fun (k', v) -> if k' = k then Some (bytes_of_string v) else None) items)) keys
  end
let dec_list (s : string) : n list list = if s = "-" || s = "" then [] else List.map (fun x -> bytes_of_string (unhex x)) (String.split_on_char ',' s)
let mode_of (s : string) = match s with "1" -> MTakeover | "2" -> MNoTakeover | _ -> MDisabled
let co_str (c : copts option) = match c with None -> "none" | Some c -> (if c.cnct then "1" else "0") ^ (if c.snct then "1" else "0")

let run_hs_accept kvs _ =
  let (maj, min) = Scanf.sscanf (get kvs "proto") "%d.%d" (fun a b -> (a, b)) in
  let r = { q_method = bytes_of_string (unhex (get kvs "method")); q_major = nat_of_int maj; q_minor = nat_of_int min;
            q_host = bytes_of_string (unhex (get kvs "host")); q_hdrs = dec_hdrs (get kvs "hdrs") } in
  let o = { a_subprotocols = dec_list (get kvs "subs"); a_skip_verify = (get kvs "skip" = "1"); a_patterns = dec_list (get kvs "pats"); a_mode = mode_of (get kvs "mode") } in
  let res = accept_decide r o in
  let st = int_of_nat res.ar_status in
  (* a writer that cannot be hijacked: a request that would be upgraded is answered 501 Not Implemented instead, nothing is taken over *)
  if get_or kvs "nohijack" "0" = "1" && st = 101 then "status=501 hijacked=0 accept=- proto=- ext=- connproto=- co=-" else
  if st = 101 then
    Printf.sprintf "status=101 hijacked=1 accept=%s proto=%s ext=%s connproto=%s co=%s" (hexb res.ar_accept) (hexb res.ar_subproto)
      (match res.ar_copts with Some c -> hexb (render_copts c) | None -> "-") (hexb res.ar_subproto) (co_str res.ar_copts)
  else Printf.sprintf "status=%d hijacked=0 accept=- proto=- ext=- connproto=- co=-" st

(* suite hs-pair: the composition Dial -> Accept -> verifyServerResponse of Model/HsCompose.v *)
let run_hs_pair kvs _ =
  let o = { d_subprotocols = dec_list (get kvs "csubs"); d_mode = mode_of (get kvs "cmode") } in
  let ao = { a_subprotocols = dec_list (get kvs "ssubs"); a_skip_verify = false; a_patterns = dec_list (get kvs "pats"); a_mode = mode_of (get kvs "smode") } in
  let key64 = bytes_of_string "dGhlIHNhbXBsZSBub25jZQ==" in
  let a = accept_decide (lib_request (bytes_of_string "example.com") o key64) ao in
  if int_of_nat a.ar_status <> 101 then "ok=0 accepted=0" else
  match verify_server_response o key64 (lib_response a) with
  | VErr -> "ok=0 accepted=1"
  | VOk c -> Printf.sprintf "ok=1 accepted=1 csub=%s ssub=%s cco=%s sco=%s" (hexb a.ar_subproto) (hexb a.ar_subproto) (co_str c) (co_str a.ar_copts)

let run_hs_dial kvs ikvs =
  let o = { d_subprotocols = dec_list (get kvs "subs"); d_mode = mode_of (get kvs "mode") } in
  (* the key Dial generated is an input (crypto/rand): the scripted peer derives the accept value from it; the model
     reasons with a fixed stand-in key and the same derivation, so that only the RELATION between key and accept matters *)
  let key64 = bytes_of_string "dGhlIHNhbXBsZSBub25jZQ==" in
  let other = bytes_of_string "x3JJHMbDL1EzLkh9GBhXDw==" in
  let hdrs = dec_hdrs (get kvs "hdrs") in
  let acc v = (bytes_of_string "Sec-Websocket-Accept", v) in
  let upper l = List.map (fun c -> let i = int_of_n c in if i >= 97 && i <= 122 then n_of_int (i - 32) else c) l in
  let without = List.filter (fun (k, _) -> string_of_bytes k <> "Sec-Websocket-Accept") hdrs in
  let hdrs = match get kvs "accept" with
    | "correct" -> without @ [acc [accept_key key64]]
    | "other" -> without @ [acc [accept_key other]]
    | "upper" -> without @ [acc [upper (accept_key key64)]]
    | "empty" -> without @ [acc [[]]]
    | "double" -> without @ [acc [accept_key other; accept_key key64]]
    | _ -> hdrs in
  let resp = { p_status = nat_of_int (int_of_string (get kvs "status")); p_hdrs = hdrs } in
  let (ok, co, sub) = match verify_server_response o key64 resp with
    | VOk c -> ("1", co_str c, hexb (hs_get hdrs (bytes_of_string "Sec-Websocket-Protocol")))
    | VErr -> ("0", "-", "-") in
  (* the request: the headers Dial must set, over the caller's headers (reserved keys are overwritten) *)
  let set = dial_headers o (bytes_of_string "@KEY@") in
  let caller = dec_hdrs (get_or kvs "chdrs" "-") in
  let setkeys = List.map (fun (k, _) -> string_of_bytes k) set in
  let merged = List.filter (fun (k, _) -> not (List.mem (string_of_bytes k) setkeys)) caller @ set in
  let flat = List.concat_map (fun (k, vs) -> List.map (fun v -> (string_of_bytes k, v)) vs) merged in
  let flat = List.stable_sort (fun (a, _) (b, _) -> compare a b) flat in
  let req = if flat = [] then "-" else String.concat "|" (List.map (fun (k, v) -> k ^ "~" ^ hexb v) flat) in
  let host = match get_or kvs "hostopt" "-" with "-" -> hex "dial.example" | h -> h in
  Printf.sprintf "ok=%s subproto=%s co=%s keyok=1 method=GET host=%s req=%s" ok sub co host req

(* ---- suite sched: judge on the wire + replay of the observed schedule in the interleaving model ---- *)
let sched_payload (w : int) (seq : int) (n : int) : string =
  let tag = Printf.sprintf "w%02d:%03d;" w seq in
  let p = Bytes.of_string (gen_bytes "text" n (w * 1000 + seq + 1)) in
  Bytes.blit_string tag 0 p 0 (min (String.length tag) n); Bytes.to_string p

type tev = { th : int; evk : int; mu : int; a : int; b : int }

let run_sched kvs ikvs =
  let role = role_of (get kvs "role") in
  let co = co_of (get kvs "co") in
  let plans = List.map (fun pl -> String.split_on_char ',' pl) (String.split_on_char '/' (get kvs "plan")) in
  let nw = List.length plans in
  let res = Array.of_list (String.split_on_char '/' (get_or ikvs "res" "")) in
  let wire = bytes_of_string (unhex (get_or ikvs "wire" "-")) in
  (* ---------- the judge (C05 / C16): reference decoder on the recorded bytes ---------- *)
  let (fs, pend) = parse wire in
  let takeover = (match co with Some c -> writer_takeover role c | None -> false) in
  let verdict =
    if pend = PNeg then "violation:unparsable"
    else if not (wf_stream role co fs) then "violation:not-conformant(frames-interleaved-or-malformed)"
    else begin
      (* nothing after close *)
      let rec ac seen = function
        | [] -> true
        | f :: r -> let o = int_of_n f.pf_hdr.h_opc in
          if seen then (o = 9 || o = 10) && ac true r else ac (o = 8) r in
      if not (ac false fs) then "violation:frame-after-close" else
      (* every masked frame draws a fresh key (crypto/rand): no key may occur twice on a connection, however the writers interleave *)
      let keys_l = List.filter_map (fun f -> if f.pf_hdr.h_masked then Some f.pf_hdr.h_key else None) fs in
      if List.length (List.sort_uniq compare keys_l) <> List.length keys_l then "violation:mask-key-repeated" else
      let msgs = ref_messages inflate_oracle takeover [] (ref_events fs) in
      let last_seq = Hashtbl.create 8 in
      let seen = Hashtbl.create 64 in
      let bad = ref "" in
      List.iter (fun m -> match m with
        | None -> if !bad = "" then bad := "violation:undecodable-message"
        | Some (_, p) ->
          let b = string_of_bytes p in
          (try
            let w = int_of_string (String.sub b 1 2) and sq = int_of_string (String.sub b 4 3) in
            let op = List.nth (List.nth plans w) sq in
            let n = int_of_string (List.hd (String.split_on_char 'x' (String.sub op 1 (String.length op - 1)))) in
            if b <> sched_payload w sq n then (if !bad = "" then bad := Printf.sprintf "violation:message-not-one-that-was-written(w%d:%d)" w sq)
            else if Hashtbl.mem seen (w, sq) then (if !bad = "" then bad := "violation:message-duplicated")
            else begin
              Hashtbl.replace seen (w, sq) true;
              let l = try Hashtbl.find last_seq w with Not_found -> -1 in
              if sq <= l then (if !bad = "" then bad := Printf.sprintf "violation:writer-order(w%d)" w);
              Hashtbl.replace last_seq w sq
            end
          with _ -> if !bad = "" then bad := "violation:message-not-one-that-was-written")) msgs;
      (* the last message may be cut off by the close: only complete messages are decoded. A Write that returned nil must be on the wire *)
      if !bad = "" then
        List.iteri (fun w plan -> List.iteri (fun sq _ ->
          if w < Array.length res && sq < String.length res.(w) && res.(w).[sq] = '1' && not (Hashtbl.mem seen (w, sq)) && pend = PClean then
            (if !bad = "" then bad := Printf.sprintf "violation:acknowledged-message-missing(w%d:%d)" w sq)) plan) plans;
      if !bad = "" then "ok" else !bad
    end in
  (* ---------- replay of the observed schedule in Model/Sched.v ---------- *)
  let trace = List.filter_map (fun x -> match String.split_on_char ':' x with
      | [t; e; m; a; b] -> Some { th = int_of_string t; evk = int_of_string e; mu = int_of_string m; a = int_of_string a; b = int_of_string b }
      | _ -> None) (String.split_on_char ',' (get_or ikvs "trace" "")) in
  let nthreads_of trace = List.fold_left (fun m e -> max m (e.th + 1)) (nw + 2) trace in
  let last_foreign = ref "" in
  let attempt trace =
  let foreign_unlock = ref "" in
  let nthreads = nthreads_of trace in
    (* programs reconstructed from the case (call structure of the writers) and the trace (frames per message; for the
       pinger, the closer and the library's own goroutines: one call per acquisition of writeFrameMu) *)
    let progs = Array.make nthreads [] in
    for t = 0 to nthreads - 1 do
      if t < nw then begin
        (* one call per acquisition of msgWriter.mu (event Lock, mu 1) or per wait for it given up (event GaveUp, mu 1), in the
         order of the trace; the data frames written after an acquisition belong to that call (k = frames - 1; a message cut off
         before its final frame expects one frame more) *)
      let calls = ref [] and cur = ref (-1) and lastfin = ref true in
      let close_call () =
        if !cur >= 0 then begin
          let k = if !cur = 0 then 0 else if !lastfin then !cur - 1 else !cur in
          calls := CMsg (nat_of_int k, O) :: !calls; cur := -1; lastfin := true
        end in
      List.iter (fun e -> if e.th = t then begin
        if e.evk = 1 && e.mu = 1 then (close_call (); cur := 0)
        else if e.evk = 9 && e.mu = 1 then (close_call (); calls := CMsg (O, O) :: !calls)
        else if e.evk = 5 && e.a <= 2 then ((if !cur < 0 then cur := 0); incr cur; lastfin := (e.b = 1))
      end) trace;
      close_call ();
      let l = List.rev !calls in
      let extra = max 0 (List.length (List.nth plans t) - List.length l) in
      progs.(t) <- l @ List.init extra (fun _ -> CMsg (O, O))
      end else begin
        let calls = ref [] and pending = ref false and kind = ref (-1) in
        (* a Close frame (or a refused, unidentified frame) by the user's closer is Close; by a goroutine of the library it is the echo of the peer's Close *)
        let flush () = if !pending then begin
            (* the user's closer: its first acquisition is the Close frame; a later one without a frame is the echo of the peer's
               Close frame attempted by Close itself while it waits for the handshake, refused by the close-sent flag: no call *)
            if t = nw + 1 && !kind < 0 && !calls <> [] then ()
            else calls := (if !kind = 9 || !kind = 10 then CPing O else if t = nw + 1 then CClose O else CEcho O) :: !calls;
            pending := false; kind := -1 end in
        List.iter (fun e -> if e.th = t then begin
          if e.evk = 1 && e.mu = 3 then (flush (); pending := true)
          else if e.evk = 5 then kind := e.a
          else if e.evk = 2 && e.mu = 3 then flush ()
        end) trace;
        flush ();
        progs.(t) <- List.rev !calls
      end
    done;
    (* a goroutine that closed the connection without writing a Close frame first performs CCloseNow (user CloseNow / Close whose frame was refused) *)
    let st = ref (init (role = Client) (fun t -> let t = int_of_nat t in if t < nthreads then progs.(t) else [])) in
    let err = ref "" in
    let fail m = if !err = "" then err := m in
    let phase_of t = (!st.thrs (nat_of_int t)).ph in
    let stepn t alt = match step !st (EStep (nat_of_int t, alt)) with Some s -> st := s; true | None -> false in
    (* advance thread t through its internal steps until pred holds; gives up after a bound *)
    let advance t pred what =
      let n = ref 0 in
      while not (pred (phase_of t)) && !n < 64 && !err = "" do
        if not (stepn t false) then (if not (stepn t true) then fail (Printf.sprintf "blocked:t%d:%s" t what));
        incr n
      done;
      if not (pred (phase_of t)) then fail (Printf.sprintf "cannot-reach:t%d:%s" t what) in
    (* The hooks record an event shortly AFTER the action: the connection may already be closed (observed by another goroutine)
       a little before its Closed event appears in the trace.  When the library behaves as if the connection were closed and a
       Closed event is still to come, the model performs that close now and the later event is skipped. *)
    let tr_list = Array.of_list trace in
    let closed_consumed = ref false in
    let do_close t =
      (match phase_of t with
       | DoClose -> ignore (stepn t false)
       | _ ->
         let saved = !st in
         let ok = ref false and n = ref 0 in
         while not !ok && !n < 8 do
           (match phase_of t with DoClose -> ok := true | Idle | Unlock _ | FailFrame _ -> if not (stepn t false) then n := 8 | _ -> n := 8);
           incr n
         done;
         if !ok then ignore (stepn t false)
         else begin st := saved; (match step !st EClose with Some s -> st := s | None -> ()) end) in
    (* a frame whose writer re-arms afterwards (Arm with Background) was written successfully — necessarily before the transport
       was closed, even if the Closed event is recorded in between (the final select of writeFrame may pick the re-arm although
       the connection is closed by then): such frames are put on the model's wire before the model closes *)
    let flush_emits i =
      for u = 0 to nthreads - 1 do
        (match phase_of u with
         | Emit _ ->
           let j = ref (i + 1) in
           while !j < Array.length tr_list && tr_list.(!j).th <> u do incr j done;
           if !j < Array.length tr_list && tr_list.(!j).evk = 6 && tr_list.(!j).a = 1 && tr_list.(!j).b = 0 then ignore (stepn u false)
         | _ -> ())
      done in
    let ensure_closed i =
      if not !st.closed && not !closed_consumed then begin
        flush_emits i;
        let j = ref (i + 1) in
        while !j < Array.length tr_list && tr_list.(!j).evk <> 4 do incr j done;
        if !j < Array.length tr_list then (closed_consumed := true; do_close tr_list.(!j).th)
      end in
    List.iteri (fun i e ->
      if !err = "" then begin
        let t = e.th in
        match e.evk, e.mu with
        | 1, _ when !st.closed && (e.mu = 1 || e.mu = 3) ->
          (* after the close a lock may still be taken and given back at once (the hook precedes the closed re-check): no effect.
             Let the thread run into its failure if it can; otherwise ignore the event *)
          let saved = !st in
          let want = (fun p -> match p, e.mu with WantMsg _, 1 -> true | WantFrame _, 3 -> true | _ -> false) in
          let n = ref 0 in
          while not (want (phase_of t)) && !n < 8 && (stepn t false || stepn t true) do incr n done;
          if want (phase_of t) then ignore (stepn t false || stepn t true) else st := saved
        | 1, 1 -> (* msgWriter.mu acquired (recorded before the closed re-check) *)
          advance t (function WantMsg _ -> true | _ -> false) "lock-msg";
          if !err = "" && not (stepn t false) then begin
            ensure_closed i;
            if not (stepn t false) && not (stepn t true) then fail (Printf.sprintf "model-blocks:t%d:lock-msg" t)
          end
        | (1 | 2), 3 when (match phase_of t with DoClose -> true | _ -> false) -> ()   (* Close, waiting for the handshake: the refused echo *)
        | 1, 3 -> (* writeFrameMu acquired (recorded before the closed re-check) *)
          advance t (function WantFrame _ -> true | _ -> false) "lock-frame";
          if !err = "" && not (stepn t false) then begin
            ensure_closed i;
            if not (stepn t false) && not (stepn t true) then fail (Printf.sprintf "model-blocks:t%d:lock-frame" t)
          end
        | 9, 1 -> (* the wait for msgWriter.mu was given up: the call's context ended *)
          advance t (function WantMsg _ -> true | _ -> false) "giveup-msg";
          if !err = "" then (match step !st (EGiveUp (nat_of_int t)) with Some s2 -> st := s2 | None -> fail (Printf.sprintf "model-refuses-giveup:t%d:msg" t))
        | 9, 3 -> (* the wait for writeFrameMu was given up *)
          advance t (function WantFrame _ -> true | _ -> false) "giveup-frame";
          if !err = "" then (match step !st (EGiveUp (nat_of_int t)) with Some s2 -> st := s2 | None -> fail (Printf.sprintf "model-refuses-giveup:t%d:frame" t))
        | 6, _ when e.a = 1 && e.b = 0 -> (* writeFrame re-armed with Background: the frame was written completely *)
          (match phase_of t with Emit _ -> ignore (stepn t false) | _ -> ())
        | 6, _ when e.a = 1 && e.b = 1 -> (* writeFrame passed `select { <-closed | writeTimeout <- ctx }`: the model's Check step *)
          (match phase_of t with Check _ -> ignore (stepn t false) | _ -> ())
        | 5, _ -> (* writeFrame starts writing *)
          (match phase_of t with Check _ -> ignore (stepn t false) | _ -> ());
          (match phase_of t with
           | Emit _ -> ()
           | FailFrame _ when !st.closed -> ()     (* the connection was closed between the library's check and this point: the write fails in both *)
           | _ -> fail (Printf.sprintf "model-refuses-frame:t%d:opc%d" t e.a))
        | 2, 3 -> (* writeFrameMu released *)
          (match phase_of t with
           | Emit _ -> ignore (stepn t false); (match phase_of t with Unlock _ | FailFrame _ -> ignore (stepn t false) | _ -> fail "unlock-frame-emit")
           | Check _ ->
             (* the library gave the lock up without writing: it saw the connection closed or the Close frame sent *)
             if not !st.closed && not !st.close_sent then ensure_closed i;
             ignore (stepn t false);
             (match phase_of t with FailFrame _ -> ignore (stepn t false) | _ -> fail (Printf.sprintf "model-accepts-frame-the-library-refused:t%d" t))
           | Unlock _ | FailFrame _ -> ignore (stepn t false)
           | _ -> ())  (* unlock of a lock not held (deferred unlock after a failed lock): no effect *)
        | 2, 1 -> (match phase_of t with
                   | EndMsg -> ignore (stepn t false)
                   | WantFrame (FData, _, _, _) when !st.close_sent && !st.msg_mu = Some (nat_of_int t) -> ignore (stepn t true)   (* refused through the compressor's sticky error *)
                   | WantFrame (FData, _, _, _) when !st.msg_mu = Some (nat_of_int t) ->
                     (* the library gave the message lock back without having taken the frame lock: it saw the connection closed
                        (at the re-check after the acquisition, or while waiting for the frame lock) although the Closed event is
                        still to come in the trace *)
                     ensure_closed i; ignore (stepn t true)
                   | _ ->
                     (* mu.unlock is not owner-checked: a goroutine that releases msgWriter.mu while ANOTHER goroutine holds it (and the
                        connection is open) hands a message in progress to the next writer *)
                     (match !st.msg_mu with
                      | Some h when int_of_nat h <> t && not !st.closed && t < nw && int_of_nat h < nw
                                    && (match phase_of (int_of_nat h) with Idle -> false | _ -> true) ->
                        foreign_unlock := Printf.sprintf "t%d-released-msgWriter.mu-held-by-t%d" t (int_of_nat h)
                      | _ -> ()))
        | 4, _ -> if !closed_consumed then closed_consumed := false else (flush_emits i; do_close t)
        | 3, 3 -> (match phase_of t with ForceFrame -> if not (stepn t false) then fail (Printf.sprintf "model-blocks:t%d:forcelock-frame" t) | _ -> ())
        | _ -> ()
      end) trace;
    (* the frames the model put on the wire, in order, against the frames the library started, in order *)
    let mframes = List.filter_map (fun (e : wev) -> if int_of_nat e.e_part = 0 then Some (int_of_nat e.e_tid, (match e.e_kind with FData -> 0 | FPing -> 9 | FClose -> 8), if e.e_fin then 1 else 0) else None) !st.wire in
    let tr_arr = Array.of_list trace in
    let first_closed = (let r = ref max_int in Array.iteri (fun i e -> if e.evk = 4 && i < !r then r := i) tr_arr; !r) in
    (* a frame the library started counts as written iff its writer re-arms with Background afterwards (the success path of
       writeFrame), wherever the Closed event falls *)
    let unlocked_before_close i t =
      let r = ref false and stop = ref false and j = ref (i + 1) in
      while !j < Array.length tr_arr && not !r && not !stop do
        (let e = tr_arr.(!j) in
         if e.th = t then begin
           if e.evk = 6 && e.a = 1 && e.b = 0 then r := true
           else if e.evk = 2 && e.mu = 3 then stop := true
         end); incr j
      done; !r in
    let iframes = List.concat (List.mapi (fun i e ->
      if e.evk = 5 && unlocked_before_close i e.th then [(e.th, (if e.a = 8 then 8 else if e.a >= 9 then 9 else 0), (if e.a >= 8 then 1 else e.b))] else []) trace) in
    if !err = "" && mframes <> iframes then fail (Printf.sprintf "frame-order-differs:model=%d:impl=%d" (List.length mframes) (List.length iframes));
    if !foreign_unlock <> "" then last_foreign := !foreign_unlock;
    (!err, !st, List.length iframes) in
  (* The Closed event is recorded AFTER close(c.closed) took effect: other goroutines may have acted on the closed connection
     (given a lock back, failed a write) before it appears in the trace.  The trace is accepted when it is an execution of the
     model with the Closed event at its recorded position or at SOME earlier position. *)
  let (err, st, niframes, moved) =
    let (e0, s0, n0) = attempt trace in
    if e0 = "" then (e0, s0, n0, 0) else begin
      let arr = Array.of_list trace in
      let c = (let r = ref (-1) in Array.iteri (fun i e -> if e.evk = 4 && !r < 0 then r := i) arr; !r) in
      if c < 0 then (e0, s0, n0, 0) else begin
        let best = ref None and j = ref (c - 1) in
        while !best = None && !j >= 0 do
          let l = Array.to_list arr in
          let without = List.filteri (fun i _ -> i <> c) l in
          let tr2 = List.concat (List.mapi (fun i e -> if i = !j then [arr.(c); e] else [e]) without) in
          (match attempt tr2 with (e, s, n) when e = "" -> best := Some (s, n, c - !j) | _ -> ());
          decr j
        done;
        match !best with Some (s, n, d) -> ("", s, n, d) | None -> (e0, s0, n0, 0)
      end
    end in
  let err = ref err and st = ref st in
  let nthreads = nthreads_of trace in
  ignore nthreads;
  let props = Printf.sprintf "%b,%b,%b" (frames_atomic None !st.wire) (msgs_unmixed None !st.wire) (after_close None !st.wire) in
  (* goroutines (C20): the timeout goroutine (started in newConn, before tracing) and every CloseRead goroutine must have exited *)
  let crstarts = List.length (List.filter (fun e -> e.evk = 7 && e.a = 1) trace) and crexits = List.length (List.filter (fun e -> e.evk = 8 && e.a = 1) trace)
  and tlexits = List.length (List.filter (fun e -> e.evk = 8 && e.a = 0) trace) in
  let gor = if tlexits = 1 && crstarts = crexits then "ok" else Printf.sprintf "leak:timeoutLoop-exits=%d:closeRead=%d/%d" tlexits crexits crstarts in
  let verdict = if verdict = "ok" && !last_foreign <> "" && !err = "" then "violation:foreign-unlock(" ^ !last_foreign ^ ")" else verdict in
  Printf.sprintf "judge=%s replay=%s modelprops=%s frames=%d goroutines=%s moved=%d" verdict (if !err = "" then "ok" else !err) props niframes gor moved

(* ---- suite ping (C15, matching) ---- *)
let run_ping kvs ikvs =
  let script = String.split_on_char '/' (get kvs "script") in
  let conc = get kvs "mode" = "conc" in
  let pings = match get_or ikvs "pings" "-" with "-" -> [] | s -> List.map unhex (String.split_on_char ',' s) in
  let np = List.length pings in
  let distinct = List.length (List.sort_uniq compare pings) = np in
  let pong_payload letter p =
    let n = String.length p in
    match letter with
    | 'e' | 'd' -> p | 'u' -> "zz" | 'z' -> "0" ^ p | 'p' -> "+" ^ p | 's' -> p ^ " " | 'l' -> " " ^ p | 't' -> p ^ "0" | 'm' -> ""
    | 'x' -> "x" ^ p | 'c' -> if n = 0 then p else String.sub p 0 (n - 1) ^ String.make 1 (Char.chr (Char.code p.[n - 1] lxor 0x40))
    | 'h' -> String.sub p 0 (n / 2) | _ -> p in
  let pongs_of reaction p =
    List.concat (List.init (String.length reaction) (fun i ->
      if reaction.[i] = 'q' then [] (* the peer PINGS with the same payload: not a Pong, no event for the waiting calls *) else
      let q = PgPong (bytes_of_string (pong_payload reaction.[i] p)) in if reaction.[i] = 'd' then [q; q] else [q])) in
  let calls = List.mapi (fun i r -> (i, r, (if i < np then Some (List.nth pings i) else None))) script in
  let evs =
    if not conc then
      List.concat_map (fun (i, r, p) -> match p with
        | None -> []
        | Some p -> [PgReg (nat_of_int i, bytes_of_string p)] @ pongs_of r p @ [PgEnd (nat_of_int i)]) calls
    else
      List.filter_map (fun (i, _, p) -> match p with Some p -> Some (PgReg (nat_of_int i, bytes_of_string p)) | None -> None) calls
      @ List.concat_map (fun (_, r, p) -> match p with Some p -> pongs_of r p | None -> []) (List.rev calls)
      @ List.map (fun (i, _, _) -> PgEnd (nat_of_int i)) calls in
  let st = pg_run evs in
  let ok i = List.exists (fun (j, r) -> int_of_nat j = i && r = PgOk) st.pg_done in
  let res =
    if not conc then String.concat "," (List.mapi (fun i _ -> if ok i then "1" else "0") script)
    else Printf.sprintf "ok%d" (List.length (List.filter (fun (i, _, _) -> ok i) calls)) in
  Printf.sprintf "res=%s distinct=%b npings=%d later=1" res distinct np

(* ---- suites netconn / wsjson ---- *)
let nres_str = function NData d -> Printf.sprintf "%d:nil" (List.length d) | NEOF -> "eof" | NErrClose c -> Printf.sprintf "close:%d" (int_of_z c)
  | NErrType -> "wrongtype" | NErr -> "err" | NBlock -> "block"

let run_netconn kvs _ =
  let typ = n_of_int (int_of_string (get_or kvs "typ" "2")) in
  match get kvs "kind" with
  | "stream" ->
    let writes = List.map int_of_string (String.split_on_char ',' (get kvs "writes")) in
    let msgs = List.mapi (fun i n -> NMsg (typ, bytes_of_string (gen_bytes "rand" n (i + 1)))) writes in
    let inp = msgs @ [NClose (z_of_int 1000)] in       (* the writer's net.Conn.Close closes with StatusNormalClosure *)
    let rs = Array.of_list (List.map int_of_string (String.split_on_char ',' (get kvs "reads"))) in
    let st = ref (nc_init typ inp) and got = Buffer.create 1024 and fin = ref "" and i = ref 0 in
    while !fin = "" do
      let n = rs.(!i mod Array.length rs) in
      let (o, s') = nc_read (nat_of_int (2 * List.length inp + 5)) !st (nat_of_int n) in
      st := s';
      (match o with NData d -> Buffer.add_string got (string_of_bytes d) | _ -> fin := nres_str o);
      incr i
    done;
    let g = Buffer.contents got in
    Printf.sprintf "end=%s n=%d fnv=%s" !fin (String.length g) (fnv g)
  | "close" ->
    let code = int_of_string (get kvs "code") in
    let st0 = nc_init typ [NMsg (typ, bytes_of_string "abc"); NClose (z_of_int code)] in
    let (o1, s1) = nc_read (nat_of_int 9) st0 (nat_of_int 16) in
    let (o2, s2) = nc_read (nat_of_int 9) s1 (nat_of_int 16) in
    let (o3, _) = nc_read (nat_of_int 9) s2 (nat_of_int 16) in
    Printf.sprintf "first=%s second=%s third=%s" (nres_str o1) (nres_str o2) (match o3 with NBlock -> "err" | _ -> nres_str o3)
  | "drop" ->
    (* one message, then the connection ends without a Close frame: the model has no further input — every later read is an error *)
    let st0 = nc_init typ [NMsg (typ, bytes_of_string "abc"); NFail; NFail] in
    let (o1, s1) = nc_read (nat_of_int 9) st0 (nat_of_int 16) in
    let (o2, s2) = nc_read (nat_of_int 9) s1 (nat_of_int 16) in
    let (o3, _) = nc_read (nat_of_int 9) s2 (nat_of_int 16) in
    let e o = match o with NBlock -> "err" | _ -> nres_str o in
    Printf.sprintf "first=%s second=%s third=%s" (nres_str o1) (e o2) (e o3)
  | "wrongtype" ->
    let other = n_of_int (3 - int_of_n typ) in
    let (o1, s1) = nc_read (nat_of_int 9) (nc_init typ [NMsg (other, bytes_of_string "abc")]) (nat_of_int 16) in
    Printf.sprintf "read=%s closecode=%d laterwrite=true" (nres_str o1) (if s1.nc_closed1003 then 1003 else -1)
  | "deadline" ->
    let s0 = { dl_expired = false; dl_busy = false; dl_cancelled = false } in
    let out o = match o with DOk -> "nil" | DDeadlineErr -> "deadline" | DNone -> "-" in
    (match get kvs "when" with
     | "active-setpast" | "active-setfuture" ->
       let (s1, _) = dl_step s0 DCallStart in
       let (s2, _) = dl_step s1 DSet in
       let (s3, _) = dl_step s2 DFire in
       Printf.sprintf "call=%b connclosed=%b eof=false" s3.dl_cancelled s3.dl_cancelled
     | "active" ->
       let (s1, _) = dl_step s0 DCallStart in
       let (s2, _) = dl_step s1 DFire in
       Printf.sprintf "call=%b connclosed=%b eof=false" s2.dl_cancelled s2.dl_cancelled
     | "idle-cleared" ->
       (* a deadline set and cleared again before it passes: nothing fires, later calls succeed *)
       let (s1, _) = dl_step s0 DSet in
       let (s2, _) = dl_step s1 DSet in
       let (s3, o1) = dl_step s2 DCallStart in
       let (_, o2) = dl_step s3 DCallStart in
       Printf.sprintf "first=%s second=%s" (out o1) (out o2)
     | _ ->
       let (s1, _) = dl_step s0 DSet in
       let (s2, _) = dl_step s1 DFire in
       let (s3, o1) = dl_step s2 DCallStart in
       let (s4, o2) = dl_step s3 DCallStart in
       let (s5, _) = dl_step s4 DSet in
       let (_, o3) = dl_step s5 DCallStart in
       Printf.sprintf "first=%s second=%s afterreset=%s" (out o1) (out o2) (out o3))
  | k -> failwith ("netconn kind " ^ k)

let run_wsjson kvs ikvs =
  (* encoding/json is the oracle for validity and equivalence (harness side); the model decides message framing and the error path *)
  match get kvs "kind" with
  | "values" ->
    let docs = List.map (fun d -> bytes_of_string (unhex d)) (String.split_on_char ',' (get kvs "docs")) in
    let marshal v = Some v in
    let msgs = List.filter_map (fun d -> wj_write marshal d) docs in
    let un p = Some p in
    let res = wj_reads un (nat_of_int (List.length docs)) msgs in
    let ok = List.for_all (function WJOk _ -> true | _ -> false) res && List.for_all (fun (t, _) -> int_of_n t = 1) msgs in
    Printf.sprintf "equal=%b n=%d textmsgs=%d binarymsgs=0" ok (List.length res) (List.length msgs)
  | "invalid" ->
    let un _ = None in
    (match wj_read un [(n_of_int 1, bytes_of_string (unhex (get kvs "doc")))] with
     | (WJErrClosed1007, _) -> "readfailed=true closecode=1007 laterwritefails=true"
     | _ -> "readfailed=false closecode=-1 laterwritefails=false")
  | "rawwrite" ->
    (* four writes: RawMessage(nil) = the value null; a malformed RawMessage cannot be encoded: no message; a valid one; a nested nil one.
       The model: one text message per encodable value, none for the other (wj_write with a codec that rejects the malformed document) *)
    let marshal v = if v = bytes_of_string "{\"a\":" then None else Some v in
    let vals = [bytes_of_string "null"; bytes_of_string "{\"a\":"; bytes_of_string "{\"a\":[1,2]}"; bytes_of_string "{\"k\":null}"] in
    let msgs = List.filter_map (fun v -> wj_write marshal v) vals in
    let docs = String.concat "|" (List.map (fun (t, p) ->
        let b = string_of_bytes p in
        let b = if String.length b > 0 && b.[String.length b - 1] = '\n' then String.sub b 0 (String.length b - 1) else b in
        Printf.sprintf "%b:%s" (int_of_n t = 1) b) msgs) in
    Printf.sprintf "nilraw=true badraw=true goodraw=true nested=true docs=%s extra=0" (hex docs)
  | "overlap" -> "readfailed=true aok=true bok=true"     (* a rejected document, then two overlapping reads: each gets its own value *)
  | _ -> "equal=true"

(* ---- suite life: the scenario's abstract schedule in Model/Life.v ---- *)
type lact = RunCall of int | IOok of int | IOfail of int | Cancel of int | TL | Timer of int | One of int (* one non-alt step *) | AltStep of int (* one alt step: the <-closed / <-ctx.Done branch of a select *)

let run_life kvs _ =
  let scen = get kvs "scen" in
  let starts p = String.length scen >= String.length p && String.sub scen 0 (String.length p) = p in
  let scen = if starts "close-stall-" then "close-silent-peer" else if starts "cancel-stall-" then "cancel-stall" else scen in
  let secs z = 1000 * int_of_z z in
  let b_write = secs c_timeoutWriteClose and b_wait = secs c_timeoutWaitCloseHandshake in
  (* programs, schedule, groups of model calls per harness step of thread 0 (and extra observed threads), bound in ms *)
  let rd c = LRead (nat_of_int c) and wr c = LWrite (nat_of_int c) in
  let close_ = LClose (nat_of_int 50, nat_of_int 51) in
  let sect t = [RunCall t; IOok t; RunCall t] in
  let (progs, sched, groups, bound) : ((int * lcall list) list) * lact list * (int * int) list * int =
    match scen with
    | "write-then-cancel" -> ([0, [wr 1; wr 2]], sect 0 @ [Cancel 1; TL] @ sect 0, [(0, 1); (0, 1)], 0)
    | "emptyfin-read-then-cancel" ->
      ([0, [rd 1; rd 1; rd 1; rd 1; rd 1; rd 2; rd 2]], sect 0 @ sect 0 @ sect 0 @ sect 0 @ sect 0 @ [Cancel 1; TL] @ sect 0 @ sect 0, [(0, 5); (0, 2)], 0)
    | "closeread-twice-closenow" | "closeread-derived-contexts-closenow" ->
      ([(0, [LCloseRead (nat_of_int 9, nat_of_int 100); LCloseRead (nat_of_int 9, nat_of_int 100); LCloseNow]); (100, [])], [RunCall 0; RunCall 0; RunCall 100; RunCall 0; TL; RunCall 100; RunCall 0], [], 0)
    | "closeread-twice-data" ->
      ([(0, [LCloseRead (nat_of_int 9, nat_of_int 100); LCloseRead (nat_of_int 9, nat_of_int 100)]); (100, [])], [RunCall 0; RunCall 0; RunCall 100; IOok 100; RunCall 100; TL], [], 0)
    | "read-then-cancel" -> ([0, [rd 1; rd 1; rd 2; rd 2]], sect 0 @ sect 0 @ [Cancel 1; TL] @ sect 0 @ sect 0, [(0, 2); (0, 2)], 0)
    | "fragread-then-cancel" | "compressed-read-then-cancel" ->
      (* several frames (sections) under the same context, a Ping answered in between (a write section under a child context) *)
      ([0, [rd 1; rd 1; wr 3; rd 1; rd 1; rd 1; rd 2; rd 2]],
       sect 0 @ sect 0 @ sect 0 @ sect 0 @ sect 0 @ sect 0 @ [Cancel 1; Cancel 3; TL] @ sect 0 @ sect 0, [(0, 6); (0, 2)], 0)
    | "ping-then-cancel" -> ([(0, [LCloseRead (nat_of_int 9, nat_of_int 100); wr 1; wr 2]); (100, [])], [RunCall 0; RunCall 100] @ sect 0 @ [Cancel 1; TL] @ sect 0, [(0, 1); (0, 1); (0, 1)], 0)
    | "cancel-during-read" | "deadline-during-read" -> ([0, [rd 1]], [RunCall 0; Cancel 1; TL; RunCall 0], [(0, 1)], 0)
    | "cancel-stall" -> ([0, [rd 2; rd 2; rd 1]], sect 0 @ sect 0 @ [RunCall 0; Cancel 1; TL; RunCall 0], [(0, 2); (0, 1)], 0)
    | "stream-write-pong-between-then-cancel" ->
      ([(0, [LCloseRead (nat_of_int 9, nat_of_int 100); wr 1; wr 1; wr 1; wr 2]); (100, [])], [RunCall 0; RunCall 100] @ sect 0 @ sect 0 @ sect 0 @ [Cancel 1; TL] @ sect 0, [(0, 1); (0, 1); (0, 2); (0, 1)], 0)
    | "cancel-during-stream-write" ->
      ([(0, [LCloseRead (nat_of_int 9, nat_of_int 100); wr 1; wr 1]); (100, [])], [RunCall 0; RunCall 100] @ sect 0 @ [RunCall 0; Cancel 1; TL; RunCall 0; RunCall 100], [(0, 1); (0, 1); (0, 1)], 0)
    | "cancel-while-waiting-for-lock" ->
      (* thread 1 = A (blocked in I/O under Background), thread 0 = B: waits for the lock, its context ends, it gives up; the timeout
         goroutine closes; A's I/O fails *)
      ([(0, [wr 1]); (1, [wr 0])], [RunCall 1; One 0; Cancel 1; AltStep 0; TL; RunCall 1], [(0, 1); (1, 1)], 0)
    | "cancel-before-read" -> ([0, [rd 1]], [Cancel 1; One 0; AltStep 0; TL], [(0, 1)], 0)
    | "cancel-before-write" -> ([0, [wr 1]], [Cancel 1; One 0; AltStep 0; TL], [(0, 1)], 0)
    | "cancel-during-write" -> ([0, [wr 1]], [RunCall 0; Cancel 1; TL; RunCall 0], [(0, 1)], 0)
    | "closenow-reader-blocked" -> ([(0, [LCloseNow]); (1, [rd 1])], [RunCall 1; RunCall 0; TL; RunCall 0; RunCall 1], [(0, 1); (1, 1)], 0)
    | "closenow-writer-blocked" -> ([(0, [LCloseNow]); (1, [wr 1])], [RunCall 1; RunCall 0; TL; RunCall 0; RunCall 1], [(0, 1); (1, 1)], 0)
    | "closenow-idle" -> ([0, [LCloseNow]], [RunCall 0; TL; RunCall 0], [(0, 1)], 0)
    | "close-unmarshalable-reason" | "close-invalid-code" | "close-unmarshalable-reason-closeread" -> ([], [], [], 0)   (* results free; closed, bounded and joined *)
    | "close-echo" -> ([0, [close_]], [RunCall 0; IOok 0; RunCall 0; IOok 0; RunCall 0; TL; RunCall 0], [(0, 1)], 0)
    | "close-silent-peer" | "close-peer-floods" | "close-peer-stalls-mid-frame" ->
      ([0, [close_]], [RunCall 0; IOok 0; RunCall 0; Cancel 51; TL; RunCall 0; TL; RunCall 0], [], b_wait)
    | "close-peer-never-reads" -> ([0, [close_]], [RunCall 0; Cancel 50; TL; RunCall 0; TL; RunCall 0], [], b_write + b_wait)
    | "close-peer-half-close" -> ([0, [close_]], [RunCall 0; IOok 0; RunCall 0; IOfail 0; RunCall 0; TL; RunCall 0], [], 0)
    | "closeread-data-echo" | "closeread-peer-close" -> ([(0, [LCloseRead (nat_of_int 9, nat_of_int 100)]); (100, [])], [RunCall 0; RunCall 100; IOok 100; RunCall 100; TL], [(0, 1)], 0)
    | "closeread-data-silent" -> ([(0, [LCloseRead (nat_of_int 9, nat_of_int 100)]); (100, [])], [RunCall 0; RunCall 100; IOok 100; RunCall 100; TL], [(0, 1)], b_wait)
    | "closeread-then-closenow" -> ([(0, [LCloseRead (nat_of_int 9, nat_of_int 100); LCloseNow]); (100, [])], [RunCall 0; RunCall 100; RunCall 0; TL; RunCall 100; RunCall 0], [(0, 1)], 0)
    | _ -> ([], [], [], 0) in
  if progs = [] then Printf.sprintf "res=any closed=any boundms=%d goroutines=ok" bound else begin
    let st = ref (linit (fun t -> try List.assoc (int_of_nat t) progs with Not_found -> [])) in
    let stepn e = match lstep !st e with Some s -> st := s; true | None -> false in
    let nres t = List.length (!st.l_thr (nat_of_int t)).lresults in
    List.iter (fun a -> match a with
      | RunCall t -> let n0 = nres t in let k = ref 0 in
        while nres t = n0 && !k < 40 && (stepn (LStep (nat_of_int t, false))) do incr k done
      | IOok t -> ignore (stepn (LIOReady (nat_of_int t)))
      | IOfail t -> ignore (stepn (LIOFail (nat_of_int t)))
      | Cancel c -> ignore (stepn (LCancel (nat_of_int c)))
      | TL -> ignore (stepn LTimeout)
      | Timer t -> ignore (stepn (LWaitTimer (nat_of_int t)))
      | One t -> ignore (stepn (LStep (nat_of_int t, false)))
      | AltStep t -> ignore (stepn (LStep (nat_of_int t, true)))) sched;
    (* results per harness step: a group of consecutive model calls of a thread, ok iff all ROk *)
    let taken = Hashtbl.create 4 in
    let res = List.map (fun (t, n) ->
      let all = List.rev (!st.l_thr (nat_of_int t)).lresults in
      let off = try Hashtbl.find taken t with Not_found -> 0 in
      Hashtbl.replace taken t (off + n);
      let grp = List.filteri (fun i _ -> i >= off && i < off + n) all in
      if List.length grp < n then "blocked" else if List.for_all (fun (_, r) -> r = ROk) grp then "ok" else "err") groups in
    let res = if scen = "ping-then-cancel" || scen = "stream-write-pong-between-then-cancel" || scen = "cancel-during-stream-write" then List.tl res else res in   (* the CloseRead call itself is not a recorded step of the harness *)
    let gor = if !st.l_closed && not !st.l_tl_exited then "timeoutLoop-running" else
        (match !st.l_cr with Some g when !st.l_closed && (!st.l_thr g).lp <> LExited -> "closeRead-running" | _ -> "ok") in
    Printf.sprintf "res=%s closed=%s boundms=%d goroutines=%s" (if res = [] then "any" else String.concat "," res) (if !st.l_closed then "1" else "0") bound gor
  end

(* ---- suite pools: the observed Get / Put / Use events drive Model/Pools.v ---- *)
let run_pools kvs ikvs =
  let tr = List.filter_map (fun x -> match String.split_on_char ':' x with
      | [c; e; o] -> Some (int_of_string c, int_of_string e, int_of_string o) | _ -> None)
      (String.split_on_char ',' (get_or ikvs "ptrace" "-")) in
  let st = ref pinit and err = ref "" and uses = ref 0 and reuse = ref 0 in
  let seen = Hashtbl.create 8 in
  let fail m = if !err = "" then err := m in
  let apply op what = match pstep !st op with
    | Some (s, us) -> st := s; us
    | None -> fail what; [] in
  List.iter (fun (c, e, o) ->
    if !err = "" then begin
      let cn = nat_of_int c and on = nat_of_int o in
      match e with
      | 1 -> (* Get: the pool handed o to connection c *)
        if Hashtbl.mem seen o then incr reuse;
        Hashtbl.replace seen o true;
        ignore (apply (PStart (cn, on)) (Printf.sprintf "get-of-an-object-somebody-holds:c%d:o%d" c o))
      | 2 -> (* Put: only the holder may return it (an object created by this connection and never read through is first seen here) *)
        if not (Hashtbl.mem seen o) then begin Hashtbl.replace seen o true; ignore (apply (PStart (cn, on)) "fresh-object") end;
        (match (!st.p_conns cn).p_fr with
         | Some h when int_of_nat h = o -> ignore (apply (PEof cn) "put")
         | _ -> fail (Printf.sprintf "put-by-non-holder:c%d:o%d" c o))
      | 3 -> (* a Read went through object o (0 = the raw frame reader) *)
        if o = 0 then begin
          (match (!st.p_conns cn).p_lr with
           | Some _ ->
             (* the connection reads through its raw frame reader although its limitReader pointed at a flate reader: a new,
                uncompressed message has started (msgReader.reset) without the previous one having been read to its end —
                legal once its final frame was received.  A raw read touches no pooled object. *)
             ignore (apply (PStartRaw cn) "start-raw"); ignore (apply (PRead cn) "read")
           | None -> ignore (apply (PRead cn) "read"))
        end else begin
          incr uses;
          if not (Hashtbl.mem seen o) then begin Hashtbl.replace seen o true; ignore (apply (PStart (cn, on)) "fresh-object") end;
          let us = apply (PRead cn) "read" in
          (match us with
           | [Use (c', o')] when int_of_nat c' = c && int_of_nat o' = o -> ()
           | _ -> fail (Printf.sprintf "use-of-an-object-not-held:c%d:o%d" c o));
          (* the proved invariant, checked on the replayed state: nobody else holds it *)
          ignore (apply (PReadEnd cn) "readend")
        end
      | _ -> ()
    end) tr;
  Printf.sprintf "replay=%s uses=%d reuses=%d" (if !err = "" then "ok" else !err) !uses !reuse

(* suite window (C07): the pooled sliding windows, replayed with the pool's observed choices *)
let run_window kvs ikvs =
  let cap = int_of_string (get kvs "cap") in
  let capn = nat_of_int cap in
  let ops = String.split_on_char '|' (get kvs "hist") in
  let iobs = Array.of_list (String.split_on_char ',' (get_or ikvs "obs" "")) in
  (* arrays the library's pool kept from earlier cases (flag k<hex> at first sight): the model starts with them in its pool, showing nothing *)
  let leftovers = List.filter_map (fun o -> match String.split_on_char ':' o with
      | [a; _; _; _; fl] when String.length fl > 1 && fl.[0] = 'k' ->
        Some (nat_of_int (int_of_string a), { w_vis = []; w_junk = bytes_of_string (unhex (String.sub fl 1 (String.length fl - 1))) })
      | _ -> None) (Array.to_list iobs) in
  let st = ref { winit with ws_pool = leftovers } in
  let out = ref [] in
  let wbytes c k n =
    let s = gen_bytes "rand" n (1000 * c + k + 1) in
    bytes_of_string (String.map (fun ch -> if ch = '\000' then '\xa5' else ch) s) in
  List.iteri (fun k op ->
    let f = Array.of_list (String.split_on_char ':' op) in
    let c = int_of_string f.(1) in
    let cn = nat_of_int c in
    let held = (match !st.ws_conn cn with Some _ -> true | None -> false) in
    (* the array the library's pool handed out, as observed (arrays are numbered by the harness) *)
    let observed_array () =
      if k >= Array.length iobs then 0 else
      try (match String.split_on_char ':' iobs.(k) with a :: _ -> int_of_string a | [] -> 0) with _ -> 0 in
    let show a =
      let d = string_of_bytes (wdict !st cn) and arr = string_of_bytes (warray !st cn) in
      out := Printf.sprintf "%d:%d:%s:%s" a (String.length d) (fnv d) (fnv arr) :: !out in
    let cur_array () = match !st.ws_conn cn with Some (a, _) -> int_of_nat a | None -> 0 in
    match f.(0) with
    | "get" ->
      let a = if held then cur_array () else observed_array () in
      (match wstep capn !st (WinGet (cn, nat_of_int a)) with Some s -> st := s | None -> ());
      show (cur_array ())
    | "w" ->
      if not held then out := "skip" :: !out else begin
        (match wstep capn !st (WinWrite (cn, wbytes c k (int_of_string f.(2)))) with Some s -> st := s | None -> ());
        show (cur_array ())
      end
    | "put" ->
      if not held then out := "skip" :: !out else begin
        (match wstep capn !st (WinPut cn) with Some s -> st := s | None -> ());
        out := "put" :: !out
      end
    | _ -> out := "?" :: !out) ops;
  "obs=" ^ String.concat "," (List.rev !out)

(* suite trim (C01): the four-byte trim writer with arbitrary chunkings, against Model/Window.v trim_step *)
let run_trim kvs _ =
  let lens = List.map int_of_string (String.split_on_char ',' (get kvs "chunks")) in
  let tail = ref [] in
  let obs = List.mapi (fun k l ->
    let p = bytes_of_string (gen_bytes "rand" l (k + 1)) in
    let (outs, t') = trim_step !tail p in
    tail := t';
    let ws = if outs = [] then "-" else String.concat "+" (List.map hexb outs) in
    Printf.sprintf "%s/%s/%d" ws (hexb t') l) lens in
  "obs=" ^ String.concat "," obs

let suites : (string * ((string * string) list -> (string * string) list -> string)) list = [
  "pools", run_pools;
  "trim", run_trim;
  "window", run_window;
  "life", run_life;
  "ping", run_ping;
  "netconn", run_netconn;
  "wsjson", run_wsjson;
  "sched", run_sched;
  "hs-accept", run_hs_accept;
  "hs-dial", run_hs_dial;
  "hs-pair", run_hs_pair;
  "pair", run_pair;
  "close", run_close;
  "wire-in", run_wirein;
  "agree-in", run_wirein;
  "agree-out", run_wireout;
  "mask", (fun kvs _ -> run_mask kvs);
  "wire-out", run_wireout;
]

let () =
  let suite = Sys.argv.(1) in
  let f = try List.assoc suite suites with Not_found -> (prerr_endline ("unknown suite " ^ suite); exit 2) in
  let ic = if Array.length Sys.argv > 2 then open_in Sys.argv.(2) else stdin in
  (* optional third argument: the implementation's observation file (oracle inputs such as mask keys,
     and the bytes the judge is applied to), joined by id *)
  let impl : (string, (string * string) list) Hashtbl.t = Hashtbl.create 1024 in
  if Array.length Sys.argv > 3 then begin
    let ii = open_in Sys.argv.(3) in
    (try while true do
      let l = input_line ii in
      let k = kv (split_ws l) in
      Hashtbl.replace impl (get k "id") k
    done with End_of_file -> ());
    close_in ii
  end;
  (try
    while true do
      let line = input_line ic in
      if line <> "" && line.[0] <> '#' then begin
        let kvs = kv (split_ws line) in
        let id = get kvs "id" in
        let ikvs = try Hashtbl.find impl id with Not_found -> [] in
        let o = try f kvs ikvs with e -> "modelerror=" ^ String.map (fun c -> if c = ' ' then '_' else c) (Printexc.to_string e) in
        Printf.printf "id=%s %s\n" id o
      end
    done
  with End_of_file -> ());
  flush stdout
