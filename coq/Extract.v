(* Extraction of the executable model to OCaml (ExtrOcamlBasic only; numbers stay N/Z/nat/positive). *)
Require Extraction.
Require Import ExtrOcamlBasic.
From Coq Require Import ZArith.
From WS Require Import Base.Words Model.Mask Model.MaskAsm.
Extraction Language OCaml.
Extraction "model.ml" BinInt.Z.add Mask.maskGo Mask.mask_spec Mask.rotk Mask.mask_piece MaskAsm.maskAsm_amd64.
