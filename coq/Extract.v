(* Extraction of the executable model to OCaml (ExtrOcamlBasic only; numbers stay N/Z/nat/positive). *)
Require Extraction.
Require Import ExtrOcamlBasic.
From Coq Require Import ZArith.
From WS Require Import Base.Words Model.Mask Model.MaskAsm Model.Frame Model.Proto Model.CloseCodec Model.Writer Model.RefDecoder Model.Reader Model.CloseSM Model.Handshake Model.Sched Model.NetConn Model.WsJson Model.Life Model.Pools Model.Ping Model.WinPool Model.HsCompose Model.Window.
Extraction Language OCaml.
Extraction "model.ml" BinInt.Z.add Mask.maskGo Mask.mask_spec Mask.rotk Mask.mask_piece MaskAsm.maskAsm_amd64
  Frame.enc_hdr Frame.dec_hdr CloseCodec.close_payload CloseCodec.parse_close Gen.CloseCode.valid_wire_code
  Proto.enc_frame Proto.writer_takeover Proto.reader_takeover Writer.w_run Writer.w_wire RefDecoder.parse RefDecoder.wf_stream RefDecoder.ref_events RefDecoder.ref_messages
  Reader.run Gen.Consts.c_initialLimitStored CloseSM.csm_run CloseSM.cs_init
  Handshake.accept_decide Handshake.verify_server_response Handshake.dial_headers Handshake.render_copts Handshake.accept_key Handshake.hs_get HsCompose.lib_request HsCompose.lib_response
  Sched.step Sched.init Sched.run Sched.frames_atomic Sched.msgs_unmixed Sched.after_close
  NetConn.nc_read NetConn.nc_init NetConn.dl_step WsJson.wj_write WsJson.wj_read WsJson.wj_reads
  Ping.pg_run Pools.pstep Pools.pinit Window.trim_step WinPool.wstep WinPool.winit WinPool.wdict WinPool.warray Life.lstep Life.linit Life.lrun Gen.Consts.c_timeoutWriteClose Gen.Consts.c_timeoutWaitCloseHandshake Gen.Consts.c_timeoutWaitGoroutines Gen.Consts.c_timeoutHandleControl Gen.Consts.c_timeoutWriteControl.
