(* C05 — Concurrent use keeps frames atomic, messages unmixed and is free of data races.
   Statements only; proofs in Proofs/SchedP.v, Proofs/SchedAckP.v and Proofs/SchedProgressP.v.  The model (Model/Sched.v) is the small-step interleaving semantics of
   the write side's synchronisation skeleton: any number of goroutines calling Write / Writer / Ping / Close / CloseNow
   (and the read side echoing a Close frame), one micro-step at a time in ANY order, with the connection closable from
   outside at any moment.  Every theorem quantifies over ALL schedules, thread counts and programs. *)
From Coq Require Import List Arith Bool.
From WS Require Import Model.Sched Proofs.SchedP Proofs.SchedAckP Proofs.SchedProgressP.
Import ListNotations.

(* each frame is written atomically: a transport write continues the frame of the previous write, or — only after that
   frame's last part — starts a new frame *)
Theorem C05_frame_atomic : forall is_client progs sched, frames_atomic None (wire (run (init is_client progs) sched)) = true.
Proof. exact sched_frames_atomic. Qed.
Print Assumptions C05_frame_atomic.

(* frames of two data messages are never interleaved: while a message is open every data write belongs to it *)
Theorem C05_messages_unmixed : forall is_client progs sched, msgs_unmixed None (wire (run (init is_client progs) sched)) = true.
Proof. exact sched_msgs_unmixed. Qed.
Print Assumptions C05_messages_unmixed.

(* each writer's transport writes appear in its program order *)
Theorem C05_per_writer_order : forall is_client progs sched, thread_order (wire (run (init is_client progs) sched)).
Proof. exact sched_thread_order. Qed.
Print Assumptions C05_per_writer_order.

(* model-level mutual exclusion: whoever is between the frame checks and the unlock holds writeFrameMu *)
Theorem C05_frame_lock_held : forall is_client progs sched t, let s := run (init is_client progs) sched in
  (match ph (thrs s t) with Check _ _ _ _ | Emit _ _ _ _ _ | Unlock _ _ _ _ | FailFrame _ _ => True | _ => False end) -> frame_mu s = Some t.
Proof. exact sched_mutex. Qed.
Print Assumptions C05_frame_lock_held.

(* non-vacuity: two writers (one streaming 3 frames in 2 parts each), a pinger, the read side echoing a Close and a user
   Close, under a schedule that interleaves them: the wire really contains interleaved activity and satisfies the scans *)
Example C05_nonvacuous :
  let progs (t : tid) := match t with 0 => [CMsg 2 1; CMsg 0 0] | 1 => [CMsg 0 2; CPing 0] | 2 => [CPing 1; CClose 1] | 3 => [CEcho 0] | _ => [] end in
  let fix rr (n : nat) : list ev := match n with 0 => [] | S k => [EStep 0 false; EStep 1 false; EStep 2 false; EStep 1 false; EStep 0 false] ++ rr k end in
  let fix rr4 (n : nat) : list ev := match n with 0 => [] | S k => [EStep 0 false; EStep 3 false; EStep 2 false; EStep 1 false] ++ rr4 k end in
  let s := run (init true progs) (rr 9 ++ rr4 40) in
  map (fun e => (e_tid e, e_part e)) (wire s) = [(1, 0); (1, 1); (1, 2); (2, 0); (2, 1); (1, 0); (0, 0); (0, 1); (3, 0)] /\ closed s = true /\
  frames_atomic None (wire s) = true /\ msgs_unmixed None (wire s) = true /\ after_close None (wire s) = true.
Proof. vm_compute. repeat split. Qed.


(* ACKNOWLEDGEMENT: under every schedule, a Write / Writer message that returned nil is on the wire — every transport write of
   every one of its frames, with the right first / fin flags, and nothing of it twice (exactly (k+1)*(parts+1) writes). *)
Theorem C05_acked_on_wire : forall is_client progs sched t n k parts,
  let s := run (init is_client progs) sched in
  nth_error (progs t) n = Some (CMsg k parts) ->
  n < ncall (thrs s t) ->
  nth (ncall (thrs s t) - 1 - n) (results (thrs s t)) false = true ->
  (forall fi p, fi <= k -> p <= parts ->
     exists e, In e (wire s) /\ e_tid e = t /\ e_call e = n /\ e_frame e = fi /\ e_part e = p /\ e_kind e = FData /\
               e_first e = (fi =? 0) /\ e_fin e = (fi =? k) /\ e_last e = (p =? parts)) /\
  length (filter (fun e => (e_tid e =? t) && (e_call e =? n)) (wire s)) = (k + 1) * (parts + 1).
Proof. exact sched_acked_on_wire. Qed.
Print Assumptions C05_acked_on_wire.

(* ... and nothing is on the wire for a call that has not been started *)
Theorem C05_wire_started : forall is_client progs sched e,
  let s := run (init is_client progs) sched in
  In e (wire s) -> e_call e <= ncall (thrs s (e_tid e)).
Proof. exact sched_wire_started. Qed.
Print Assumptions C05_wire_started.


(* PROGRESS (no deadlock among the write-side locks).  In every reachable OPEN state in which some thread is not finished and the
   message lock is not held by a thread that has left its message (the wart of a streamed write that gave up: see C10 — the
   connection is then closed), SOME thread can take a step. *)
Theorem C05_no_deadlock : forall is_client progs sched, let s := run (init is_client progs) sched in
  closed s = false ->
  (exists t, ph (thrs s t) <> Idle \/ calls (thrs s t) <> []) ->
  (forall h, msg_mu s = Some h -> dataph (ph (thrs s h))) ->
  exists t alt s', step s (EStep t alt) = Some s'.
Proof. exact sched_no_deadlock. Qed.
Print Assumptions C05_no_deadlock.

(* ... and once the connection is closed every unfinished thread can step — the closer waiting to force-lock the frame lock behind
   a frame in flight being the one exception, and then that frame's writer can step — and needs at most 3 steps to finish its call. *)
Theorem C05_closed_progress : forall is_client progs sched t, let s := run (init is_client progs) sched in
  closed s = true ->
  ph (thrs s t) <> Idle \/ calls (thrs s t) <> [] ->
  match ph (thrs s t) with
  | ForceFrame =>
      (exists alt s', step s (EStep t alt) = Some s') \/
      (exists h, frame_mu s = Some h /\ h <> t /\ holds (ph (thrs s h)) /\ exists alt s', step s (EStep h alt) = Some s')
  | _ => exists alt s', step s (EStep t alt) = Some s'
  end.
Proof. exact sched_closed_progress. Qed.
Print Assumptions C05_closed_progress.

Theorem C05_closed_bounded : forall is_client progs sched t alt s', let s := run (init is_client progs) sched in
  closed s = true -> ph (thrs s t) <> Idle -> step s (EStep t alt) = Some s' ->
  closed s' = true /\ steps_left (ph (thrs s' t)) < steps_left (ph (thrs s t)) <= 3.
Proof. exact sched_closed_bounded. Qed.
Print Assumptions C05_closed_bounded.
