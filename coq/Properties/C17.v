(* C17 — Masking is an exact, chunk-composable XOR for every length, alignment and key.
   This file holds statements only; proofs live in Proofs/MaskP.v (and Proofs/MaskAsmP.v). *)
From Coq Require Import List NArith.
From WS Require Import Base.Words Model.Mask Proofs.MaskP Model.MaskAsm Proofs.MaskAsmP.
Import ListNotations.
Open Scope N_scope.

(* the definition the property states: byte i is XORed with key byte (i mod 4) *)
Theorem C17_spec_pointwise : forall b k i, (i < length b)%nat ->
  nth i (mask_spec k b) 0 = N.lxor (nth i b 0) (key_byte k i).
Proof. exact mask_spec_nth. Qed.
Print Assumptions C17_spec_pointwise.

(* the portable implementation (mask.go) equals the definition and returns the rotated key:
   every length, every key, every content *)
Theorem C17_maskGo : forall k b, wf_key k -> wf_bytes b -> maskGo k b = (mask_spec k b, rotk k (length b)).
Proof. exact maskGo_spec. Qed.
Print Assumptions C17_maskGo.

(* the amd64 assembly (mask_amd64.s, rendered label by label in Model/MaskAsm.v): every start
   alignment (= length pre), every length, every key; the bytes around the buffer are untouched and
   no access leaves the buffer (an out-of-bounds access is the value AsmFault) *)
Theorem C17_maskAsm : forall pre b post k, wf_key k -> wf_bytes b ->
  maskAsm_amd64 (pre, b, post) k = AsmDone (pre, mask_spec k b, post) (rotk k (length b)).
Proof. exact maskAsm_spec. Qed.
Print Assumptions C17_maskAsm.

(* masking in two consecutive pieces of any sizes = masking whole *)
Theorem C17_compose : forall k b1 b2, mask_spec k (b1 ++ b2) = mask_spec k b1 ++ mask_spec (rotk k (length b1)) b2.
Proof. exact mask_compose. Qed.
Print Assumptions C17_compose.

(* … and in any number of pieces, through the implementation, carrying the returned key *)
Theorem C17_pieces : forall ps k acc, wf_key k -> Forall wf_bytes ps ->
  fold_left mask_piece ps (acc, k) = (acc ++ mask_spec k (concat ps), rotk k (length (concat ps))).
Proof. exact mask_pieces. Qed.
Print Assumptions C17_pieces.

Theorem C17_involution : forall k b, mask_spec k (mask_spec k b) = b.
Proof. exact mask_involution. Qed.
Print Assumptions C17_involution.

(* non-vacuity: a key with four distinct bytes and a 13-byte buffer meet the hypotheses *)
Example C17_nonvacuous : wf_key (1,2,3,4) /\ wf_bytes [10;20;30;40;50;60;70;80;90;100;110;120;130] /\
  maskGo (1,2,3,4) [10;20;30;40;50;60;70;80;90;100;110;120;130] =
    ([11;22;29;44;51;62;69;84;91;102;109;124;131], (2,3,4,1)).
Proof. repeat split; try (repeat constructor; fail). Qed.
