(* C02 — Everything an endpoint emits is a conformant RFC 6455 / RFC 7692 frame stream.
   Statements only; proofs in Proofs/FrameP.v, Proofs/CloseCodecP.v, Proofs/WriterP.v. *)
From Coq Require Import List NArith ZArith Bool Lia.
From WS Require Import Base.Words Gen.Consts Gen.CloseCode Model.Mask Model.Frame Model.Proto Model.CloseCodec Model.Writer Model.RefDecoder
  Proofs.FrameP Proofs.CloseCodecP Proofs.WriterP Proofs.RoundTripP Gen.FrameCode Gen.WriteCode Proofs.GenTieP.
Import ListNotations.
Open Scope N_scope.

(* For EVERY program of Write / Writer(chunks…) / Ping / Pong / Close calls, both roles, every
   negotiated option set (None or any (cnct, snct), asymmetric included), every threshold, every
   supply of mask keys and EVERY behaviour of the compressor (any chunking of any bytes):
   the bytes on the wire parse back, under the specification parser, to exactly the frames written,
   with nothing left over, and that frame list satisfies every clause of the property
   (masking by role, minimal length encoding, control frames final and <= 125 bytes, text/binary then
   continuations with only control frames in between, RSV2/RSV3 clear, RSV1 only on a first frame and
   only if compression was negotiated, Close payload = empty or sendable code + <= 123 reason bytes). *)
Theorem C02_wf : forall (keys : nat -> key) (dz : list dzop -> list bytes) (cfg : wcfg),
  (forall i, wf_key (keys i)) -> (forall h, Forall wf_payload (dz h)) ->
  forall prog, Forall wf_op prog ->
  let s := w_run keys dz cfg prog in
  parse (w_wire s) = (map to_pf (w_out s), PClean) /\
  wf_stream (wc_role cfg) (wc_co cfg) (map to_pf (w_out s)) = true.
Proof. exact writer_conformant. Qed.
Print Assumptions C02_wf.

(* … and an independent decoder reassembles from those frames EXACTLY the messages written: one event per operation, in
   order, of the same type; an uncompressed message carries the concatenated chunks; a compressed one carries everything
   the compressor emitted for (writes…, flush) minus the 4-byte tail, starting from the retained history iff the writer
   keeps its context — for every program incl. Close (after which only control frames appear), every configuration, key
   supply and compressor behaviour; no message is left open *)
Theorem C02_decodes : forall keys dz cfg prog, Forall ok_op prog ->
  ref_events (map to_pf (w_out (w_run keys dz cfg prog))) = expected_events cfg dz prog /\
  snd (reassemble None (map to_pf (w_out (w_run keys dz cfg prog)))) = None.
Proof. exact writer_events. Qed.
Print Assumptions C02_decodes.

Theorem C02_hdr_roundtrip : forall h rest, wf_hdr h -> dec_hdr (enc_hdr h ++ rest) = DecOk h rest.
Proof. exact dec_enc. Qed.
Print Assumptions C02_hdr_roundtrip.

(* lengths use the minimal encoding: 0 / 2 / 8 extension bytes *)
Theorem C02_hdr_minimal : forall h, length (enc_hdr h) = (2 + ext_len (h_plen h) + (if h_masked h then 4 else 0))%nat.
Proof. exact enc_hdr_length. Qed.
Print Assumptions C02_hdr_minimal.

(* Close frames carry a sendable status code and at most 123 reason bytes (or nothing, for 1005) *)
Theorem C02_close_payload : forall code reason p, close_payload code reason = Some p ->
  (code = c_StatusNoStatusRcvd /\ p = []) \/
  (valid_wire_code code = true /\ (length reason <= 123)%nat /\ p = be_bytes 2 (Z.to_N code) ++ reason).
Proof. exact close_payload_shape. Qed.
Print Assumptions C02_close_payload.

(* non-vacuity: a client program mixing a fragmented message, a ping and a close meets wf_op, and the
   concrete run is conformant (compressor stubbed to echo its input as one chunk) *)
Example C02_nonvacuous :
  let prog := [WStream 1 [[104;105]; []; [33]]; WControl 9 [49]; WWrite 2 [1;2;3]; WClose 1000 [98;121;101]] in
  Forall wf_op prog /\
  let s := w_run (fun i => (N.of_nat i, 7, 8, 9)) (fun _ => []) {| wc_role := Client; wc_co := None; wc_thr0 := 0 |} prog in
  length (w_out s) = 7%nat /\ wf_stream Client None (map to_pf (w_out s)) = true.
Proof.
  assert (P : forall p : bytes, wf_bytes p -> (length p <= 10)%nat -> wf_payload p)
    by (intros p Hp Hl; split; [exact Hp | unfold small; lia]).
  assert (B : forall l : bytes, forallb (fun x => x <? 256) l = true -> wf_bytes l).
  { intros l H. apply Forall_forall. intros x Hx. rewrite forallb_forall in H. apply N.ltb_lt. auto. }
  split.
  - apply Forall_cons; [|apply Forall_cons; [|apply Forall_cons; [|apply Forall_cons; [|apply Forall_nil]]]]; cbn [wf_op].
    + split; [left; reflexivity|].
      apply Forall_cons; [|apply Forall_cons; [|apply Forall_cons; [|apply Forall_nil]]]; (apply P; [apply B; reflexivity | cbn; lia]).
    + split; [left; reflexivity|]. split; [apply B; reflexivity | cbn; lia].
    + split; [right; reflexivity|]. apply P; [apply B; reflexivity | cbn; lia].
    + apply B; reflexivity.
  - vm_compute. split; reflexivity.
Qed.

(* ---- tie to the source by translation (Gen/FrameCode.v is regenerated from frame.go on every run) ---- *)

(* the 7-bit length field of the model's header is the value the FIRST switch of writeFrameHeader or's into the second
   byte, and the extended length has the number of bytes its SECOND switch writes: a changed boundary, comparison or
   constant in either switch breaks these two theorems *)
Theorem C02_length_field_is_source : forall h,
  enc_b1 h = bit (h_masked h) 128 + Z.to_N (gen_len_code (Z.of_N (h_plen h))).
Proof. exact enc_b1_is_source. Qed.
Print Assumptions C02_length_field_is_source.

Theorem C02_length_bytes_is_source : forall h,
  length (enc_ext h) = Z.to_nat (gen_len_ext (Z.of_N (h_plen h))).
Proof. exact enc_ext_is_source. Qed.
Print Assumptions C02_length_bytes_is_source.

(* the header bits of every frame the model's writer emits are the ones writeFrame (write.go, translated into
   Gen/WriteCode.v on every run) sets: RSV1 only with compression on a text / binary frame, MASK exactly for a client,
   RSV2 = RSV3 = 0 *)
Theorem C02_header_bits_are_source : forall keys cfg s fin fl opc p,
  let s' := write_frame_raw keys cfg s fin fl opc p in
  w_close_sent s' = w_close_sent s || gen_sets_close_sent (Z.of_N opc) /\
  exists h, w_out s' = w_out s ++ [(h, p)] /\
            h_rsv1 h = gen_rsv1 fl (Z.of_N opc) /\ h_masked h = gen_masked (role_eqb (wc_role cfg) Client) /\
            h_rsv2 h = false /\ h_rsv3 h = false /\ h_fin h = fin /\ h_opc h = opc /\ h_plen h = N.of_nat (length p).
Proof. exact write_frame_raw_is_source. Qed.
Print Assumptions C02_header_bits_are_source.
