(* C13 — Dial sends a well-formed handshake and accepts only a valid server response.
   Statements only; proofs in Proofs/HandshakeP.v. *)
From Coq Require Import List NArith Bool.
From WS Require Import Base.Words Gen.Consts Model.Proto Model.Fold Model.Base64 Model.Sha1 Model.Handshake Proofs.HandshakeP.
Import ListNotations.

(* the headers Dial sets: exactly one value each, whatever the caller supplied under those keys *)
Theorem C13_request_wf : forall o k,
  hs_values (dial_headers o k) s_Connection = [s_Upgrade] /\ hs_values (dial_headers o k) s_Upgrade = [s_websocket] /\
  hs_values (dial_headers o k) s_SecVersion = [s_13] /\ hs_values (dial_headers o k) s_SecKey = [k] /\
  hs_values (dial_headers o k) s_SecProtocol = (match d_subprotocols o with [] => [] | l => [hs_join [44] l] end) /\
  hs_values (dial_headers o k) s_SecExtensions = (match d_mode o with MDisabled => [] | m => [render_copts (mode_opts m)] end).
Proof. exact dial_headers_wf. Qed.
Print Assumptions C13_request_wf.

(* a connection is returned exactly for: status 101, Connection/Upgrade naming upgrade/websocket, the Sec-WebSocket-Accept
   that matches the key sent, a subprotocol that was asked for (or none), and extensions the client can honour (C14) *)
Theorem C13_accept_iff : forall o key64 resp c,
  verify_server_response o key64 resp = VOk c <-> (valid_response o key64 resp /\ verify_exts (dial_offer o) (p_hdrs resp) = VOk c).
Proof. exact verify_server_response_iff. Qed.
Print Assumptions C13_accept_iff.

Example C13_nonvacuous :
  let o := {| d_subprotocols := [[99;104;97;116]]; d_mode := MTakeover |} in
  let k := [100;71;104;108;73;72;78;104;98;88;66;115;90;83;66;117;98;50;53;106;90;81;61;61] in
  let ok := {| p_status := 101; p_hdrs := [(s_Connection, [s_Upgrade]); (s_Upgrade, [s_websocket]); (s_SecAccept, [accept_key k]); (s_SecProtocol, [[67;72;65;84]])] |} in
  let bad := {| p_status := 101; p_hdrs := [(s_Connection, [s_Upgrade]); (s_Upgrade, [s_websocket]); (s_SecAccept, [accept_key (0%N :: k)])] |} in
  verify_server_response o k ok = VOk None /\ verify_server_response o k bad = VErr.
Proof. vm_compute. split; reflexivity. Qed.
