(* C13 — Dial sends a well-formed handshake and accepts only a valid server response.
   Statements only; proofs in Proofs/HandshakeP.v and Proofs/HsComposeP.v. *)
From Coq Require Import List NArith Bool.
From Coq Require Import ZArith.
From WS Require Import Base.Words Gen.Consts Model.Proto Model.Fold Model.Base64 Model.Sha1 Model.Handshake Model.HsCompose Proofs.HandshakeP Proofs.HsComposeP Gen.DialCode Proofs.GenTie2P Gen.HeaderCode.
Import ListNotations.

(* the headers Dial sets: exactly one value each, whatever the caller supplied under those keys *)
Theorem C13_request_wf : forall o k,
  hs_values (dial_headers o k) s_Connection = [s_Upgrade] /\ hs_values (dial_headers o k) s_Upgrade = [s_websocket] /\
  hs_values (dial_headers o k) s_SecVersion = [s_13] /\ hs_values (dial_headers o k) s_SecKey = [k] /\
  hs_values (dial_headers o k) s_SecProtocol = (match d_subprotocols o with [] => [] | l => [hs_join [44] l] end) /\
  hs_values (dial_headers o k) s_SecExtensions = (match d_mode o with MDisabled => [] | m => [render_copts (mode_opts m)] end).
Proof. exact dial_headers_wf. Qed.
Print Assumptions C13_request_wf.

(* a connection is returned exactly for: status 101, Connection/Upgrade naming upgrade/websocket, the Sec-WebSocket-Accept
   that matches the key sent, a subprotocol that was asked for (or none), and extensions the client can honour (C14) *)
Theorem C13_accept_iff : forall o key64 resp c,
  verify_server_response o key64 resp = VOk c <-> (valid_response o key64 resp /\ verify_exts (dial_offer o) (p_hdrs resp) = VOk c).
Proof. exact verify_server_response_iff. Qed.
Print Assumptions C13_accept_iff.

Example C13_nonvacuous :
  let o := {| d_subprotocols := [[99;104;97;116]]; d_mode := MTakeover |} in
  let k := [100;71;104;108;73;72;78;104;98;88;66;115;90;83;66;117;98;50;53;106;90;81;61;61] in
  let ok := {| p_status := 101; p_hdrs := [(s_Connection, [s_Upgrade]); (s_Upgrade, [s_websocket]); (s_SecAccept, [accept_key k]); (s_SecProtocol, [[67;72;65;84]])] |} in
  let bad := {| p_status := 101; p_hdrs := [(s_Connection, [s_Upgrade]); (s_Upgrade, [s_websocket]); (s_SecAccept, [accept_key (0%N :: k)])] |} in
  verify_server_response o k ok = VOk None /\ verify_server_response o k bad = VErr.
Proof. vm_compute. split; reflexivity. Qed.

(* ---- the two halves together: a library client against a library server (Model/HsCompose.v) ---- *)

(* For EVERY client configuration (subprotocol names as a caller would write them, any compression mode), every 16-byte
   nonce, every Host and every server configuration (supported subprotocols, origin patterns, compression mode): the
   server upgrades the request Dial sends (101), and Dial accepts the answer Accept writes — with exactly the compression
   parameters the server holds (C14). *)
Theorem C13_lib_lib_handshake : forall host o ao d,
  wf_bytes d -> length d = 16%nat -> Forall clean_token (d_subprotocols o) ->
  let k := b64_encode d in
  let a := accept_decide (lib_request host o k) ao in
  ar_status a = 101%nat /\ verify_server_response o k (lib_response a) = VOk (ar_copts a).
Proof. exact lib_lib_handshake. Qed.
Print Assumptions C13_lib_lib_handshake.

(* the subprotocol the server announces is one the client asked for (up to case), or none *)
Theorem C13_lib_lib_subprotocol : forall host o ao d,
  wf_bytes d -> length d = 16%nat -> Forall clean_token (d_subprotocols o) ->
  let a := accept_decide (lib_request host o (b64_encode d)) ao in
  ar_subproto a = [] \/ exists sp, In sp (d_subprotocols o) /\ fold_eq sp (ar_subproto a) = true.
Proof. exact lib_lib_subprotocol. Qed.
Print Assumptions C13_lib_lib_subprotocol.

(* the hypothesis on the names is needed: a name with a trailing space is announced by the server without it, and the
   client, which compares with what it asked for, refuses the answer (the hs-pair suite shows the library doing just that) *)
Example C13_unclean_name_refused :
  let o := {| d_subprotocols := [[99;104;97;116;32]]; d_mode := MDisabled |} in
  let ao := {| a_subprotocols := [[99;104;97;116]]; a_skip_verify := false; a_patterns := []; a_mode := MDisabled |} in
  let k := [100;71;104;108;73;72;78;104;98;88;66;115;90;83;66;117;98;50;53;106;90;81;61;61] in
  let a := accept_decide (lib_request [101] o k) ao in
  ar_status a = 101%nat /\ ar_subproto a = [99;104;97;116] /\ verify_server_response o k (lib_response a) = VErr.
Proof. vm_compute. repeat split; reflexivity. Qed.

Example C13_composition_nonvacuous :
  let o := {| d_subprotocols := [[99;104;97;116]; [118;50]]; d_mode := MTakeover |} in
  let ao := {| a_subprotocols := [[86;50]]; a_skip_verify := false; a_patterns := []; a_mode := MNoTakeover |} in
  let k := [100;71;104;108;73;72;78;104;98;88;66;115;90;83;66;117;98;50;53;106;90;81;61;61] in
  let a := accept_decide (lib_request [101] o k) ao in
  Forall clean_token (d_subprotocols o) /\ ar_subproto a = [118;50] /\
  verify_server_response o k (lib_response a) = VOk (Some {| cnct := true; snct := true |}).
Proof. split; [| vm_compute; split; reflexivity].
  repeat constructor; try discriminate; cbv; intuition discriminate. Qed.

(* tie to the source by translation (tools/constx/nego.go, Gen/DialCode.v, regenerated on every run): the model refuses a response exactly
   when the chain of checks of verifyServerResponse / verifySubprotocol does (status, Connection, Upgrade, accept key, subprotocol — in
   that order), and otherwise hands over to the extension check (C14_verify_exts_is_source) *)
Theorem C13_response_checks_are_source : forall o key resp,
  verify_server_response o key resp =
  let proto := hs_get (p_hdrs resp) s_SecProtocol in
  if gen_verify_response_refused (Z.of_nat (p_status resp))
       (hs_has_token (p_hdrs resp) s_Connection s_Upgrade) (hs_has_token (p_hdrs resp) s_Upgrade s_websocket)
       (hs_beq (hs_get (p_hdrs resp) s_SecAccept) (accept_key key))
       (gen_subprotocol_ok (match proto with [] => true | _ => false end) (existsb (fun sp => fold_eq sp proto) (d_subprotocols o)))
  then VErr else verify_exts (dial_offer o) (p_hdrs resp).
Proof. exact verify_response_is_source. Qed.
Print Assumptions C13_response_checks_are_source.

(* the method and the headers of the request are those handshakeRequest (dial.go) sets, in its order and under its conditions, as
   net/http stores them (canonical keys), translated into Gen/HeaderCode.v on every run *)
Theorem C13_request_headers_are_source : forall o key64,
  dial_headers o key64 =
  as_headers (gen_dial_headers key64 (Z.of_nat (length (d_subprotocols o))) (hs_join [44] (d_subprotocols o))
                (match dial_offer o with Some _ => true | None => false end)
                (match dial_offer o with Some c => gen_render_copts (cnct c) (snct c) | None => [] end)).
Proof. exact dial_headers_is_source. Qed.
Print Assumptions C13_request_headers_are_source.

Theorem C13_request_method_is_source : forall host o key64, q_method (lib_request host o key64) = gen_dial_method.
Proof. exact dial_method_is_source. Qed.
Print Assumptions C13_request_method_is_source.
