(* C06 — Close handshake carries code and reason both ways and closes for good.
   Statements only; proofs in Proofs/CloseCodecP.v, Proofs/CloseSMP.v, Proofs/ReaderP.v. *)
From Coq Require Import List NArith ZArith Bool.
From WS Require Import Base.Words Gen.Consts Gen.CloseCode Model.Mask Model.Frame Model.CloseCodec Model.CloseSM Model.Reader
  Proofs.CloseCodecP Proofs.CloseSMP Proofs.ReaderP Gen.ClosePayloadCode Proofs.GenTie2P.
Import ListNotations.

(* the status codes that may appear on the wire — a statement about the function TRANSLATED from close.go, on all of Z *)
Theorem C06_valid_codes : forall c : Z, valid_wire_code c = true <->
  ((1000 <= c <= 1014 /\ c <> 1004 /\ c <> 1005 /\ c <> 1006) \/ 3000 <= c <= 4999)%Z.
Proof. exact valid_wire_code_iff. Qed.
Print Assumptions C06_valid_codes.

Theorem C06_codec_roundtrip : forall code reason, valid_wire_code code = true -> (length reason <= 123)%nat -> wf_bytes reason ->
  exists p, close_bytes code reason = Some p /\ p = be_bytes 2 (Z.to_N code) ++ reason /\ parse_close p = Some (code, reason).
Proof. exact close_codec_roundtrip. Qed.
Print Assumptions C06_codec_roundtrip.

(* a code that may not appear on the wire or an oversize reason is never sent: Close errors, nothing is written *)
Theorem C06_never_sent : forall pe s code reason, cs_closing s = false -> cs_closed s = false ->
  ((valid_wire_code code = false \/ (123 < length reason)%nat) /\ code <> c_StatusNoStatusRcvd) ->
  snd (csm_step pe s (AClose code reason)) = CErr /\ cs_wire (fst (csm_step pe s (AClose code reason))) = cs_wire s.
Proof. exact close_refused. Qed.
Print Assumptions C06_never_sent.

(* … except 1005, which sends a Close frame with an empty payload *)
Theorem C06_no_status : forall s reason, cs_closing s = false -> cs_closed s = false -> cs_close_sent s = false ->
  cs_wire (fst (csm_step true s (AClose c_StatusNoStatusRcvd reason))) = cs_wire s ++ [[]].
Proof. exact close_1005. Qed.
Print Assumptions C06_no_status.

(* Close with a sendable code and reason emits exactly that Close frame and returns nil when the peer echoes *)
Theorem C06_handshake : forall s code reason, cs_closing s = false -> cs_closed s = false -> cs_close_sent s = false ->
  valid_wire_code code = true -> (length reason <= 123)%nat -> wf_bytes reason ->
  csm_step true s (AClose code reason) =
    ({| cs_closed := true; cs_closing := true; cs_close_sent := true; cs_wire := cs_wire s ++ [be_bytes 2 (Z.to_N code) ++ reason] |}, CNil).
Proof. exact close_handshake. Qed.
Print Assumptions C06_handshake.

(* a received Close frame is echoed with the same code and reason; the read fails with a CloseError holding them *)
Theorem C06_echo : forall pe s code reason, cs_closed s = false -> cs_close_sent s = false ->
  valid_wire_code code = true -> (length reason <= 123)%nat -> wf_bytes reason ->
  let p := be_bytes 2 (Z.to_N code) ++ reason in
  snd (csm_step pe s (APeerClose p)) = CErrCloseFrame code reason /\
  cs_wire (fst (csm_step pe s (APeerClose p))) = cs_wire s ++ [p] /\ cs_closed (fst (csm_step pe s (APeerClose p))) = true.
Proof. exact peer_close_echo. Qed.
Print Assumptions C06_echo.

(* the same on the frame-level Reader model (the code path handleControl takes) *)
Theorem C06_echo_reader : forall s h raw rest code reason, r_closed s = false -> r_close_sent s = false ->
  h_opc h = 8%N -> h_fin h = true -> (h_plen h <= 125)%N ->
  take_n (N.to_nat (h_plen h)) (r_inq s) = Some (raw, rest) ->
  parse_close (if h_masked h then mask_spec (h_key h) raw else raw) = Some (code, reason) ->
  exists s', handle_control s h = Err (RECloseErr code reason) s' /\
    r_replies s' = r_replies s ++ [RpClose code (Some reason)] /\ r_closed s' = true.
Proof. exact close_echo. Qed.
Print Assumptions C06_echo_reader.

(* once Close or CloseNow has returned: every later call fails, and Close / CloseNow fail with net.ErrClosed — for every later history *)
Theorem C06_closed_for_good : forall pe ops s, cs_closed s = true -> cs_closing s = true ->
  Forall (fun r => is_err r = true) (snd (csm_run pe s ops)) /\
  forall i op, nth_error ops i = Some op -> (match op with AClose _ _ | ACloseNow => True | _ => False end) ->
               nth_error (snd (csm_run pe s ops)) i = Some CErrClosed.
Proof. exact after_close_returned. Qed.
Print Assumptions C06_closed_for_good.

(* once the connection is closed by whatever means, reads, writes and pings fail *)
Theorem C06_closed_ops_fail : forall pe s op, cs_closed s = true ->
  (match op with ARead | AWrite | AWriter | APing | APeerClose _ => True | _ => False end) ->
  is_err (snd (csm_step pe s op)) = true /\ fst (csm_step pe s op) = s.
Proof. exact closed_ops_fail. Qed.
Print Assumptions C06_closed_ops_fail.

Example C06_nonvacuous :
  snd (csm_run true cs_init [AClose 1000 [98; 121; 101]; AWrite; AClose 1000 []; ACloseNow; ARead]) = [CNil; CErrClosed; CErrClosed; CErrClosed; CErrClosed]
  /\ cs_wire (fst (csm_run true cs_init [AClose 1000 [98; 121; 101]; AWrite])) = [[3; 232; 98; 121; 101]].
Proof. vm_compute. split; reflexivity. Qed.

(* tie to the source by translation (tools/constx/nego.go, Gen/ClosePayloadCode.v, regenerated on every run): what Close refuses to
   marshal is what the checks of CloseError.bytesErr refuse (reason length against maxCloseReason, then validWireCloseCode), the one
   code sent without payload is the one writeClose exempts, and a received payload is parsed the way parseClosePayload parses it *)
Theorem C06_refusal_is_source : forall code reason,
  match close_bytes code reason with None => true | Some _ => false end = gen_close_bytes_refused (Z.of_nat (length reason)) code.
Proof. exact close_bytes_is_source. Qed.
Print Assumptions C06_refusal_is_source.

Theorem C06_empty_payload_is_source : forall code reason,
  close_payload code reason = if gen_close_has_payload code then close_bytes code reason else Some [].
Proof. exact close_payload_is_source. Qed.
Print Assumptions C06_empty_payload_is_source.

Theorem C06_parse_is_source : forall p,
  let code := Z.of_N (be_val (firstn 2 p)) in
  parse_close p =
  match gen_parse_close (Z.of_nat (length p)) code with
  | 0%Z => Some (c_StatusNoStatusRcvd, [])
  | 1%Z => Some (code, skipn 2 p)
  | _ => None
  end.
Proof. exact parse_close_is_source. Qed.
Print Assumptions C06_parse_is_source.
