(* C10 — A context bounds only its own call; after success its cancellation is harmless.
   Statements only; proofs in Proofs/LifeP.v (model: Model/Life.v, see C09). *)
From Coq Require Import List Arith Bool.
From WS Require Import Model.Life Proofs.LifeP.
Import ListNotations.

(* DURING: for every program and schedule, if the context of a call becomes done while the call is inside its section, the
   timeout goroutine closes the connection and the blocked call fails. *)
Theorem C10_cancel_during : forall progs sched t sd c, let s := lrun (linit progs) sched in
  in_section s t sd c -> l_done s c = true -> l_closed s = false -> l_tl_exited s = false ->
  exists s1, lstep s LTimeout = Some s1 /\ l_closed s1 = true /\
    (forall k, lp (l_thr s t) = LIO sd c k -> exists s2, lstep s1 (LStep t false) = Some s2 /\ lp (l_thr s2 t) = LRelease sd false k).
Proof. exact life_cancel_during. Qed.
Print Assumptions C10_cancel_during.

(* WHO can kill the connection: in every reachable state, a context other than Background that the timeout goroutine
   watches belongs to a call that is inside its section right now, or to one that failed (is failing) — never to a call
   that returned successfully. *)
Theorem C10_armed_origin : forall progs sched sd c, fresh_cr progs -> let s := lrun (linit progs) sched in
  l_arm s sd = c -> c <> 0 ->
  (exists t, in_section s t sd c)
  \/ (exists t k, lp (l_thr s t) = LRelease sd false k)
  \/ (exists t k, lp (l_thr s t) = LDoClose k)
  \/ (exists t call, In (call, RErr) (lresults (l_thr s t)) /\ uses call c)
  \/ l_closed s = true.
Proof. exact life_armed_origin. Qed.
Print Assumptions C10_armed_origin.

(* AFTER SUCCESS: if every call that used context c has returned nil and nothing is failing, neither side is armed with c ... *)
Theorem C10_harmless_after_success : forall progs sched c, fresh_cr progs -> let s := lrun (linit progs) sched in
  c <> 0 -> l_closed s = false ->
  (forall t, ~ (exists sd k, lp (l_thr s t) = LWantMu sd c k \/ lp (l_thr s t) = LArm sd c k \/ lp (l_thr s t) = LIO sd c k \/ lp (l_thr s t) = LRearm sd c k)) ->
  (forall t call r, In (call, r) (lresults (l_thr s t)) -> uses call c -> r = ROk) ->
  (forall t sd k, lp (l_thr s t) <> LRelease sd false k) ->
  (forall t k, lp (l_thr s t) <> LDoClose k) ->
  l_arm s SR <> c /\ l_arm s SW <> c.
Proof. exact life_harmless_after_success. Qed.
Print Assumptions C10_harmless_after_success.

(* ... so cancelling c then does nothing: the timeout goroutine has no step to take. *)
Theorem C10_cancel_after_success : forall progs sched c, fresh_cr progs -> let s := lrun (linit progs) sched in
  c <> 0 -> l_closed s = false ->
  (forall t, ~ (exists sd k, lp (l_thr s t) = LWantMu sd c k \/ lp (l_thr s t) = LArm sd c k \/ lp (l_thr s t) = LIO sd c k \/ lp (l_thr s t) = LRearm sd c k)) ->
  (forall t call r, In (call, r) (lresults (l_thr s t)) -> uses call c -> r = ROk) ->
  (forall t sd k, lp (l_thr s t) <> LRelease sd false k) ->
  (forall t k, lp (l_thr s t) <> LDoClose k) ->
  l_done s (l_arm s SR) || l_done s (l_arm s SW) = false ->
  l_lockreq s = false ->            (* no other call has given up a lock wait (that alone makes the timeout goroutine close) *)
  forall s', lstep s (LCancel c) = Some s' -> lstep s' LTimeout = None.
Proof. exact life_cancel_after_success. Qed.
Print Assumptions C10_cancel_after_success.

(* WAITING FOR A LOCK: in every reachable state, a call whose context is done while it waits for a section lock can give the
   wait up; the call fails, the timeout goroutine is asked to close the connection, can do so at once, and that closes it —
   "the call returns promptly with an error and the connection is closed". *)
Theorem C10_giveup_closes : forall progs sched t sd c k, let s := lrun (linit progs) sched in
  lp (l_thr s t) = LWantMu sd c k -> l_done s c = true -> l_closed s = false ->
  exists s1, lstep s (LStep t true) = Some s1 /\
    l_closed s1 = false /\ l_lockreq s1 = true /\
    l_thr s1 t = after_section (l_thr s t) false k /\
    exists s2, lstep s1 LTimeout = Some s2 /\ l_closed s2 = true.
Proof. exact life_giveup_closes. Qed.
Print Assumptions C10_giveup_closes.

(* Non-vacuity: a read under context 4 that succeeds, then the cancellation: the connection stays open and the next call
   can run; the same cancellation while the read is blocked closes the connection and fails the read. *)
Definition c10_p : tid -> list lcall := fun t => match t with 0 => [LRead 4; LWrite 6] | _ => [] end.
Example C10_after :
  let s := lrun (linit c10_p) [LStep 0 false; LStep 0 false; LStep 0 false; LIOReady 0; LStep 0 false; LStep 0 false; LCancel 4; LTimeout] in
  lresults (l_thr s 0) = [(LRead 4, ROk)] /\ l_closed s = false /\ l_arm s SR = 0.
Proof. vm_compute. repeat split; reflexivity. Qed.
Example C10_during :
  let s := lrun (linit c10_p) [LStep 0 false; LStep 0 false; LStep 0 false; LCancel 4; LTimeout; LStep 0 false; LStep 0 false] in
  lresults (l_thr s 0) = [(LRead 4, RErr)] /\ l_closed s = true.
Proof. vm_compute. repeat split; reflexivity. Qed.
Example C10_fresh : fresh_cr c10_p.
Proof. intros t c g H. destruct t as [|t]; simpl in H; [destruct H as [H|[H|[]]]; discriminate H | destruct H]. Qed.
