(* C16 — Nothing follows a Close frame: no data frames and no second Close frame.
   Statements only; proofs in Proofs/AfterCloseP.v (sequential writer), Proofs/SchedP.v (all interleavings) and
   Proofs/ReaderOneCloseP.v (closes triggered by the read side). *)
From Coq Require Import List NArith ZArith Bool.
From WS Require Import Base.Words Model.Mask Model.Frame Model.Proto Model.Writer Model.Reader Proofs.ReaderOneCloseP Proofs.AfterCloseP Model.Sched Proofs.SchedP Gen.WriteCode Proofs.GenTieP.
Import ListNotations.
Open Scope N_scope.

(* For EVERY sequence of write-side operations — Write, streaming Writer, Ping, Pong, Close with any code, in any
   order and number, well-formed or not, including everything issued after a Close — both roles, every option set,
   threshold, key supply and compressor behaviour: in the frames that reach the wire, a Close frame is followed by
   nothing but Pings and Pongs (no data frame, no second Close frame). *)
Theorem C16_nothing_after_close : forall (keys : nat -> key) (dz : list dzop -> list bytes) (cfg : wcfg) (prog : list wop),
  nothing_after_close (w_out (w_run keys dz cfg prog)).
Proof. exact writer_nothing_after_close. Qed.
Print Assumptions C16_nothing_after_close.

(* ALL INTERLEAVINGS: any number of goroutines writing, pinging, closing (Close / CloseNow), the read side echoing the
   peer's Close frame or answering a protocol error with a Close frame, the connection closed from outside at any moment,
   under EVERY schedule: after the first transport write of a Close frame nothing reaches the wire but the rest of that
   Close frame and Pings/Pongs — no data frame, no second Close frame. *)
Theorem C16_all_interleavings : forall is_client progs sched, after_close None (Sched.wire (run (init is_client progs) sched)) = true.
Proof. exact sched_after_close. Qed.
Print Assumptions C16_all_interleavings.

(* the scan really rejects what the property forbids, and accepts Pongs after the Close frame *)
Example C16_scan_rejects :
  let f o := ({| h_fin := true; h_rsv1 := false; h_rsv2 := false; h_rsv3 := false; h_opc := o; h_masked := false; h_key := zero_key; h_plen := 0 |}, @nil N) in
  acs false [f 1; f 8; f 1] = None /\ acs false [f 8; f 8] = None /\ acs false [f 0; f 8; f 10; f 9] = Some true.
Proof. vm_compute. repeat split. Qed.

(* non-vacuity: a program that keeps writing after Close — the data frames and the second Close are refused *)
Example C16_nonvacuous :
  let prog := [WWrite 1 [1]; WClose 1000 []; WWrite 2 [2]; WStream 1 [[3]; [4]]; WControl 10 [5]; WClose 1001 []] in
  map (fun f => h_opc (fst f)) (w_out (w_run (fun _ => zero_key) (fun _ => []) {| wc_role := Server; wc_co := None; wc_thr0 := 0 |} prog)) = [1; 8; 10].
Proof. vm_compute. reflexivity. Qed.


(* ---- closes triggered by the READ side (protocol violation, read limit, the echo of the peer's Close frame) ----
   For EVERY configuration, inflater, limit, input stream (any bytes at all: valid, malformed, hostile), transport ending and
   read script: the read side writes at most one Close frame, the close-sent flag is exactly "a Close frame has been written",
   and everything written after (and before) the Close frame is a Pong. *)
Theorem C16_reader_at_most_one_close : forall cfg inflate lim stream e ops,
  let r := Reader.run cfg inflate lim stream e ops in
  (length (filter is_close_reply (r_replies (snd r))) <= 1)%nat /\
  (r_close_sent (snd r) = true <-> exists c rs, In (RpClose c rs) (r_replies (snd r))).
Proof. exact reader_at_most_one_close. Qed.
Print Assumptions C16_reader_at_most_one_close.

Theorem C16_reader_only_pongs_around_close : forall cfg inflate lim stream e ops a c rs b,
  let r := Reader.run cfg inflate lim stream e ops in
  r_replies (snd r) = a ++ RpClose c rs :: b ->
  Forall (fun x => exists p, x = RpPong p) b /\ Forall (fun x => exists p, x = RpPong p) a /\ r_close_sent (snd r) = true.
Proof. exact reader_only_pongs_after_close. Qed.
Print Assumptions C16_reader_only_pongs_around_close.

(* tie to the source by translation (Gen/WriteCode.v is regenerated from write.go writeFrame on every run): the model's
   writer refuses a frame after the Close frame exactly when the source's errCloseSent check does, and sets the flag exactly
   when the source does — the check comes before the setting, and there is no other assignment to the flag in writeFrame
   (the translator refuses the source otherwise) *)
Theorem C16_refusal_is_source : forall keys cfg s fin fl opc p,
  write_frame keys cfg s fin fl opc p =
  if gen_refused_after_close (w_close_sent s) (Z.of_N opc) then s else write_frame_raw keys cfg s fin fl opc p.
Proof. exact write_frame_is_source. Qed.
Print Assumptions C16_refusal_is_source.

Theorem C16_flag_is_source : forall keys cfg s fin fl opc p,
  w_close_sent (write_frame_raw keys cfg s fin fl opc p) = w_close_sent s || gen_sets_close_sent (Z.of_N opc).
Proof. intros. apply (write_frame_raw_is_source keys cfg s fin fl opc p). Qed.
Print Assumptions C16_flag_is_source.
