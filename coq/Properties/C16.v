(* C16 — Nothing follows a Close frame: no data frames and no second Close frame.
   Statements only; proofs in Proofs/AfterCloseP.v (sequential writer) and Proofs/SchedP.v (all interleavings, when present). *)
From Coq Require Import List NArith ZArith Bool.
From WS Require Import Base.Words Model.Mask Model.Frame Model.Proto Model.Writer Proofs.AfterCloseP Model.Sched Proofs.SchedP.
Import ListNotations.
Open Scope N_scope.

(* For EVERY sequence of write-side operations — Write, streaming Writer, Ping, Pong, Close with any code, in any
   order and number, well-formed or not, including everything issued after a Close — both roles, every option set,
   threshold, key supply and compressor behaviour: in the frames that reach the wire, a Close frame is followed by
   nothing but Pings and Pongs (no data frame, no second Close frame). *)
Theorem C16_nothing_after_close : forall (keys : nat -> key) (dz : list dzop -> list bytes) (cfg : wcfg) (prog : list wop),
  nothing_after_close (w_out (w_run keys dz cfg prog)).
Proof. exact writer_nothing_after_close. Qed.
Print Assumptions C16_nothing_after_close.

(* ALL INTERLEAVINGS: any number of goroutines writing, pinging, closing (Close / CloseNow), the read side echoing the
   peer's Close frame or answering a protocol error with a Close frame, the connection closed from outside at any moment,
   under EVERY schedule: after the first transport write of a Close frame nothing reaches the wire but the rest of that
   Close frame and Pings/Pongs — no data frame, no second Close frame. *)
Theorem C16_all_interleavings : forall is_client progs sched, after_close None (Sched.wire (run (init is_client progs) sched)) = true.
Proof. exact sched_after_close. Qed.
Print Assumptions C16_all_interleavings.

(* the scan really rejects what the property forbids, and accepts Pongs after the Close frame *)
Example C16_scan_rejects :
  let f o := ({| h_fin := true; h_rsv1 := false; h_rsv2 := false; h_rsv3 := false; h_opc := o; h_masked := false; h_key := zero_key; h_plen := 0 |}, @nil N) in
  acs false [f 1; f 8; f 1] = None /\ acs false [f 8; f 8] = None /\ acs false [f 0; f 8; f 10; f 9] = Some true.
Proof. vm_compute. repeat split. Qed.

(* non-vacuity: a program that keeps writing after Close — the data frames and the second Close are refused *)
Example C16_nonvacuous :
  let prog := [WWrite 1 [1]; WClose 1000 []; WWrite 2 [2]; WStream 1 [[3]; [4]]; WControl 10 [5]; WClose 1001 []] in
  map (fun f => h_opc (fst f)) (w_out (w_run (fun _ => zero_key) (fun _ => []) {| wc_role := Server; wc_co := None; wc_thr0 := 0 |} prog)) = [1; 8; 10].
Proof. vm_compute. reflexivity. Qed.
