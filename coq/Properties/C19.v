(* C19 — wsjson moves one JSON value per text message and rejects invalid JSON.
   Statements only; proofs in Proofs/WsJsonP.v.  encoding/json is abstract: marshal / unmarshal are quantified over, and the
   single hypothesis J1 (Unmarshal of Marshal's output is JSON-equivalent to the value) is stated in the theorem that uses it. *)
From Coq Require Import List NArith ZArith Bool.
From WS Require Import Base.Words Model.WsJson Proofs.WsJsonP.
Import ListNotations.

Theorem C19_one_message : forall (value : Type) (marshal : value -> option bytes) v b, marshal v = Some b ->
  wj_write value marshal v = Some (1%N, b ++ [10%N]).
Proof. exact wj_one_message. Qed.
Print Assumptions C19_one_message.

Theorem C19_roundtrip : forall (value : Type) (marshal : value -> option bytes) (unmarshal : bytes -> option value) (equiv : value -> value -> Prop),
  (forall v b, marshal v = Some b -> exists v', unmarshal (b ++ [10%N]) = Some v' /\ equiv v v') ->
  forall vs msgs, map (wj_write value marshal) vs = map Some msgs ->
  exists vs', wj_reads value unmarshal (length vs) msgs = map (WJOk value) vs' /\ Forall2 equiv vs vs'.
Proof. exact wj_roundtrip. Qed.
Print Assumptions C19_roundtrip.

Theorem C19_one_per_read : forall (value : Type) (unmarshal : bytes -> option value) m msgs, snd (wj_read value unmarshal (m :: msgs)) = msgs.
Proof. exact wj_one_per_read. Qed.
Print Assumptions C19_one_per_read.

Theorem C19_invalid : forall (value : Type) (unmarshal : bytes -> option value) t p msgs, unmarshal p = None ->
  fst (wj_read value unmarshal ((t, p) :: msgs)) = WJErrClosed1007 value.
Proof. exact wj_invalid. Qed.
Print Assumptions C19_invalid.

(* non-vacuity with a toy codec (values = byte strings, JSON text = the bytes, "[" is invalid) *)
Example C19_nonvacuous :
  let un (p : bytes) := match p with [91%N; 10%N] => None | _ => Some (removelast p) end in
  wj_reads bytes un 3 [(1%N, [49; 10]%N); (1%N, [91; 10]%N); (1%N, [50; 10]%N)] = [WJOk bytes [49%N]; WJErrClosed1007 bytes].
Proof. vm_compute. reflexivity. Qed.
