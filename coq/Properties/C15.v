(* C15 — Ping waits for its own Pong; received Pings are answered with the same payload.
   Statements only; proofs in Proofs/ReaderP.v, Proofs/ReaderRefP.v (read side) and Proofs/PingP.v (matching). *)
From Coq Require Import List NArith ZArith Bool.
From WS Require Import Base.Words Gen.Consts Model.Mask Model.Frame Model.Proto Model.RefDecoder Model.Reader Model.Script Model.Ping Proofs.ReaderP Proofs.ReaderRefP Proofs.PingP.
Import ListNotations.
Open Scope N_scope.

(* every Ping frame whose payload has arrived is answered by exactly one Pong with the identical (unmasked)
   payload, appended after the replies already written (hence in the order received); nothing else is written *)
Theorem C15_ping_echo : forall s h raw rest, r_closed s = false -> h_opc h = 9 -> h_fin h = true -> h_plen h <= 125 ->
  take_n (N.to_nat (h_plen h)) (r_inq s) = Some (raw, rest) ->
  exists s', handle_control s h = Ok tt s' /\
    r_replies s' = r_replies s ++ [RpPong (if h_masked h then mask_spec (h_key h) raw else raw)] /\ r_inq s' = rest /\ r_pongs s' = r_pongs s.
Proof. exact ping_echo. Qed.
Print Assumptions C15_ping_echo.

(* stream level: for every valid stream (any fragmentation, Pings before, between and INSIDE fragmented messages, any
   buffer sizes, both roles) the Pongs written are exactly the Pings received — same payloads, same order — and nothing else *)
Theorem C15_pongs_for_stream : forall cfg inflate ms sizes e,
  Forall wf_smsg ms -> length sizes = length ms -> Forall (fun n => 0 < n)%nat sizes ->
  let r := run cfg inflate (-1)%Z (enc_script (role_eqb (rc_role cfg) Server) ms) e (read_ops sizes) in
  r_replies (snd r) = expected_pongs_written ms /\ r_pongs (snd r) = expected_pong_notes ms.
Proof. intros cfg inflate ms sizes e H1 H2 H3. destruct (reader_valid_stream cfg inflate ms sizes e H1 H2 H3) as (_ & A & B & _). split; assumption. Qed.
Print Assumptions C15_pongs_for_stream.

(* a Pong — solicited or not — writes nothing, closes nothing and leaves the stream position right after it *)
Theorem C15_pong_harmless : forall s h raw rest, r_closed s = false -> h_opc h = 10 -> h_fin h = true -> h_plen h <= 125 ->
  take_n (N.to_nat (h_plen h)) (r_inq s) = Some (raw, rest) ->
  exists s', handle_control s h = Ok tt s' /\ r_replies s' = r_replies s /\ r_inq s' = rest /\ r_closed s' = false /\ r_close_sent s' = r_close_sent s.
Proof. exact pong_ignored. Qed.
Print Assumptions C15_pong_harmless.

(* ---- caller side: Ping waits for its OWN Pong (Model/Ping.v: registrations, handled Pongs, context ends, close) ---- *)

(* for EVERY history: a Ping call returned nil only because a Pong carrying exactly its payload was handled after it registered
   and before its context ended or the connection closed *)
Theorem C15_ok_own_pong : forall evs i, In (i, PgOk) (pg_done (pg_run evs)) ->
  exists a p b c, evs = a ++ PgReg i p :: b ++ PgPong p :: c /\ quiet_for i p b.
Proof. exact ping_ok_own_pong. Qed.
Print Assumptions C15_ok_own_pong.

(* concurrent pings are each matched to their own Pong: a Pong with payload q leaves every call waiting on another payload
   waiting, and completes nobody else *)
Theorem C15_own_pong_only : forall s q i p, In (i, p) (pg_active s) -> p <> q ->
  In (i, p) (pg_active (pg_step s (PgPong q))) /\ forall r, In (i, r) (pg_done (pg_step s (PgPong q))) -> In (i, r) (pg_done s) \/ exists p', In (i, p') (pg_active s) /\ p' = q.
Proof. exact pong_touches_only_own. Qed.
Print Assumptions C15_own_pong_only.

(* unsolicited, unmatched and duplicate Pongs are ignored *)
Theorem C15_unmatched_pong_ignored : forall s q, (forall i p, In (i, p) (pg_active s) -> p <> q) -> pg_step s (PgPong q) = s.
Proof. exact pong_unmatched_ignored. Qed.
Print Assumptions C15_unmatched_pong_ignored.

(* the own Pong completes the call with nil; otherwise the end of its context or the close of the connection fails it *)
Theorem C15_completion : forall s i p, In (i, p) (pg_active s) ->
  In (i, PgOk) (pg_done (pg_step s (PgPong p))) /\ In (i, PgErr) (pg_done (pg_step s (PgEnd i))) /\ In (i, PgErr) (pg_done (pg_step s PgClosed)).
Proof. intros s i p H. split; [exact (proj1 (own_pong_completes s i p H)) | exact (end_or_close_fails s i p H)]. Qed.
Print Assumptions C15_completion.

(* non-vacuity: two concurrent pings "1" and "2"; the Pongs come back in reverse order, preceded by the near miss "01" and an
   unsolicited one; a third ping is never answered *)
Example C15_matching :
  pg_done (pg_run [PgReg 0%nat [49]; PgReg 1%nat [50]; PgReg 2%nat [51]; PgPong [48; 49]; PgPong [122]; PgPong [50]; PgPong [49]; PgPong [49]; PgEnd 2%nat])
  = [(2, PgErr); (0, PgOk); (1, PgOk)]%nat.
Proof. vm_compute. reflexivity. Qed.

(* non-vacuity: two pings, one between and one inside a fragmented message, are answered in order *)
Example C15_two_pings :
  let cfg := {| rc_role := Client; rc_co := None |} in
  let r := run cfg (fun _ _ => ([], INeedMore)) 32769 [137; 1; 7;  1; 1; 65;  137; 2; 8; 9;  128; 1; 66] EEof [OReader; OReadAll] in
  fst r = [ObReader (inl 1); ObMsg [65; 66] None] /\ r_replies (snd r) = [RpPong [7]; RpPong [8; 9]].
Proof. vm_compute. split; reflexivity. Qed.
