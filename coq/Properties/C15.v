(* C15 — Ping waits for its own Pong; received Pings are answered with the same payload.
   Statements only; proofs in Proofs/ReaderP.v (read side) and Proofs/PingP.v (matching, when present). *)
From Coq Require Import List NArith ZArith Bool.
From WS Require Import Base.Words Gen.Consts Model.Mask Model.Frame Model.Proto Model.RefDecoder Model.Reader Model.Script Proofs.ReaderP Proofs.ReaderRefP.
Import ListNotations.
Open Scope N_scope.

(* every Ping frame whose payload has arrived is answered by exactly one Pong with the identical (unmasked)
   payload, appended after the replies already written (hence in the order received); nothing else is written *)
Theorem C15_ping_echo : forall s h raw rest, r_closed s = false -> h_opc h = 9 -> h_fin h = true -> h_plen h <= 125 ->
  take_n (N.to_nat (h_plen h)) (r_inq s) = Some (raw, rest) ->
  exists s', handle_control s h = Ok tt s' /\
    r_replies s' = r_replies s ++ [RpPong (if h_masked h then mask_spec (h_key h) raw else raw)] /\ r_inq s' = rest /\ r_pongs s' = r_pongs s.
Proof. exact ping_echo. Qed.
Print Assumptions C15_ping_echo.

(* stream level: for every valid stream (any fragmentation, Pings before, between and INSIDE fragmented messages, any
   buffer sizes, both roles) the Pongs written are exactly the Pings received — same payloads, same order — and nothing else *)
Theorem C15_pongs_for_stream : forall cfg inflate ms sizes e,
  Forall wf_smsg ms -> length sizes = length ms -> Forall (fun n => 0 < n)%nat sizes ->
  let r := run cfg inflate (-1)%Z (enc_script (role_eqb (rc_role cfg) Server) ms) e (read_ops sizes) in
  r_replies (snd r) = expected_pongs_written ms /\ r_pongs (snd r) = expected_pong_notes ms.
Proof. intros cfg inflate ms sizes e H1 H2 H3. destruct (reader_valid_stream cfg inflate ms sizes e H1 H2 H3) as (_ & A & B & _). split; assumption. Qed.
Print Assumptions C15_pongs_for_stream.

(* a Pong — solicited or not — writes nothing, closes nothing and leaves the stream position right after it *)
Theorem C15_pong_harmless : forall s h raw rest, r_closed s = false -> h_opc h = 10 -> h_fin h = true -> h_plen h <= 125 ->
  take_n (N.to_nat (h_plen h)) (r_inq s) = Some (raw, rest) ->
  exists s', handle_control s h = Ok tt s' /\ r_replies s' = r_replies s /\ r_inq s' = rest /\ r_closed s' = false /\ r_close_sent s' = r_close_sent s.
Proof. exact pong_ignored. Qed.
Print Assumptions C15_pong_harmless.

(* non-vacuity: two pings, one between and one inside a fragmented message, are answered in order *)
Example C15_two_pings :
  let cfg := {| rc_role := Client; rc_co := None |} in
  let r := run cfg (fun _ _ => ([], INeedMore)) 32769 [137; 1; 7;  1; 1; 65;  137; 2; 8; 9;  128; 1; 66] EEof [OReader; OReadAll] in
  fst r = [ObReader (inl 1); ObMsg [65; 66] None] /\ r_replies (snd r) = [RpPong [7]; RpPong [8; 9]].
Proof. vm_compute. split; reflexivity. Qed.
