(* C15 — Ping waits for its own Pong; received Pings are answered with the same payload.
   Statements only; proofs in Proofs/ReaderP.v (read side) and Proofs/PingP.v (matching, when present). *)
From Coq Require Import List NArith ZArith Bool.
From WS Require Import Base.Words Gen.Consts Model.Mask Model.Frame Model.Proto Model.RefDecoder Model.Reader Proofs.ReaderP.
Import ListNotations.
Open Scope N_scope.

(* every Ping frame whose payload has arrived is answered by exactly one Pong with the identical (unmasked)
   payload, appended after the replies already written (hence in the order received); nothing else is written *)
Theorem C15_ping_echo : forall s h raw rest, r_closed s = false -> h_opc h = 9 -> h_fin h = true -> h_plen h <= 125 ->
  take_n (N.to_nat (h_plen h)) (r_inq s) = Some (raw, rest) ->
  exists s', handle_control s h = Ok tt s' /\
    r_replies s' = r_replies s ++ [RpPong (if h_masked h then mask_spec (h_key h) raw else raw)] /\ r_inq s' = rest /\ r_pongs s' = r_pongs s.
Proof. exact ping_echo. Qed.
Print Assumptions C15_ping_echo.

(* a Pong — solicited or not — writes nothing, closes nothing and leaves the stream position right after it *)
Theorem C15_pong_harmless : forall s h raw rest, r_closed s = false -> h_opc h = 10 -> h_fin h = true -> h_plen h <= 125 ->
  take_n (N.to_nat (h_plen h)) (r_inq s) = Some (raw, rest) ->
  exists s', handle_control s h = Ok tt s' /\ r_replies s' = r_replies s /\ r_inq s' = rest /\ r_closed s' = false /\ r_close_sent s' = r_close_sent s.
Proof. exact pong_ignored. Qed.
Print Assumptions C15_pong_harmless.

(* non-vacuity: two pings, one between and one inside a fragmented message, are answered in order *)
Example C15_two_pings :
  let cfg := {| rc_role := Client; rc_co := None |} in
  let r := run cfg (fun _ _ => ([], INeedMore)) 32769 [137; 1; 7;  1; 1; 65;  137; 2; 8; 9;  128; 1; 66] EEof [OReader; OReadAll] in
  fst r = [ObReader (inl 1); ObMsg [65; 66] None] /\ r_replies (snd r) = [RpPong [7]; RpPong [8; 9]].
Proof. vm_compute. split; reflexivity. Qed.
