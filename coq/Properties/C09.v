(* C09 — Close, CloseNow and blocked calls end in bounded time whatever the peer does.
   Statements only; proofs in Proofs/LifeP.v.  Model/Life.v is an interleaving semantics of the library's contexts, its
   timeout goroutine, the two section locks, Close / CloseNow / waitGoroutines and the CloseRead goroutine.  The PEER appears
   only as environment events — an I/O completes (LIOReady), fails (LIOFail) or simply never does either — so a theorem
   over every schedule is a theorem over every peer behaviour.  Time is abstract: "the 5 s context of Close ends" is the
   event LCancel; the bound of a call is the number of its own steps that remain, each of which is enabled. *)
From Coq Require Import List Arith Bool.
From WS Require Import Model.Life Proofs.LifeP.
Import ListNotations.

(* Whatever happened before (any programs, any schedule = any peer): when the context of a call that is blocked inside a
   section — in particular either 5 s context of Close — is done, the timeout goroutine can step, that step closes the
   connection, and the blocked I/O then fails: the call leaves its section. *)
Theorem C09_context_end_closes : forall progs sched t sd c, let s := lrun (linit progs) sched in
  in_section s t sd c -> l_done s c = true -> l_closed s = false -> l_tl_exited s = false ->
  exists s1, lstep s LTimeout = Some s1 /\ l_closed s1 = true /\
    (forall k, lp (l_thr s t) = LIO sd c k -> exists s2, lstep s1 (LStep t false) = Some s2 /\ lp (l_thr s2 t) = LRelease sd false k).
Proof. exact life_cancel_during. Qed.
Print Assumptions C09_context_end_closes.

(* Once the connection is closed NO call stays blocked: every thread that is inside a call can take a step; a thread in
   waitGoroutines can step as soon as the goroutine it waits for has exited, and that goroutine can itself step. *)
Theorem C09_closed_progress : forall progs sched t, let s := lrun (linit progs) sched in
  l_closed s = true ->
  match lp (l_thr s t) with
  | LIdle => lcalls (l_thr s t) = [] \/ exists s', lstep s (LStep t false) = Some s'
  | LExited => True
  | LWaitTL _ => (l_tl_exited s = true /\ exists s', lstep s (LStep t false) = Some s') \/ exists s', lstep s LTimeout = Some s'
  | LWaitCR _ => (exists s', lstep s (LStep t false) = Some s') \/ (exists g, l_cr s = Some g /\ lp (l_thr s g) <> LExited)
  | _ => exists alt s', lstep s (LStep t alt) = Some s'
  end.
Proof. exact life_closed_progress. Qed.
Print Assumptions C09_closed_progress.

(* ... and it is BOUNDED: after the close, each step of a call strictly decreases a measure that never exceeds 4, down to
   the point where the call returns or waits for the library's goroutines (which are bounded by the same theorem: the
   CloseRead goroutine is a thread of this model, so its exit — which is what cancels the context CloseRead returned —
   is at most 4 of its own steps after the close, also when it closes the connection itself because a data message arrived). *)
Theorem C09_closed_bounded : forall progs sched t alt s', let s := lrun (linit progs) sched in
  l_closed s = true -> ~ waiting (lp (l_thr s t)) -> lstep s (LStep t alt) = Some s' ->
  l_closed s' = true /\ steps_left (lp (l_thr s' t)) < steps_left (lp (l_thr s t)) <= 4.
Proof. exact life_closed_bounded. Qed.
Print Assumptions C09_closed_bounded.

(* Non-vacuity 1: Close against a peer that accepts the Close frame and then stays silent for ever.  The 5 s read context (8)
   ends, the timeout goroutine closes the connection, Close leaves its section, closes, joins and returns. *)
Definition c09_p1 : tid -> list lcall := fun t => match t with 0 => [LClose 7 8] | _ => [] end.
Definition c09_s1 := [LStep 0 false; LStep 0 false; LStep 0 false; LIOReady 0; LStep 0 false; LStep 0 false; LStep 0 false; LStep 0 false].
Example C09_silent_peer_blocked : in_section (lrun (linit c09_p1) c09_s1) 0 SR 8 /\ l_closed (lrun (linit c09_p1) c09_s1) = false.
Proof. vm_compute. repeat split; reflexivity. Qed.
Example C09_silent_peer_returns :
  let s := lrun (linit c09_p1) (c09_s1 ++ [LCancel 8; LTimeout; LStep 0 false; LStep 0 false; LStep 0 false; LStep 0 false; LStep 0 false]) in
  lresults (l_thr s 0) = [(LClose 7 8, ROk)] /\ l_closed s = true /\ l_tl_exited s = true.
Proof. vm_compute. repeat split; reflexivity. Qed.

(* Non-vacuity 2: CloseRead is active and the peer sends a data message: the goroutine closes the connection and exits on
   its own (it does not wait for itself), and a CloseNow issued afterwards joins it and returns. *)
Definition c09_p2 : tid -> list lcall := fun t => match t with 0 => [LCloseRead 3 5; LCloseNow] | _ => [] end.
Example C09_closeread_data :
  let s := lrun (linit c09_p2) [LStep 0 false; LStep 5 false; LStep 5 false; LIOReady 5; LStep 5 false; LStep 5 false; LStep 5 false] in
  lp (l_thr s 5) = LExited /\ l_closed s = true.
Proof. vm_compute. split; reflexivity. Qed.
