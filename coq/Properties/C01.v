(* C01 — Message round-trip fidelity for every size, chunking and compression setting.
   Statements only; proofs in Proofs/TrimWindowP.v, Proofs/MaskP.v, Proofs/WriterP.v. *)
From Coq Require Import List NArith Arith.
From WS Require Import Base.Words Model.Mask Model.Frame Model.Proto Model.Writer Model.RefDecoder Model.Window
  Proofs.MaskP Proofs.WriterP Proofs.TrimWindowP.
Import ListNotations.

(* sender: whatever the program, what is on the wire is parsed back by the specification parser to exactly the
   frames written (payload bytes identical, in order) — every size, chunking, role, option set, threshold *)
Theorem C01_frames_roundtrip : forall (keys : nat -> key) (dz : list dzop -> list bytes) (cfg : wcfg),
  (forall i, wf_key (keys i)) -> (forall h, Forall wf_payload (dz h)) ->
  forall prog, Forall wf_op prog ->
  parse (w_wire (w_run keys dz cfg prog)) = (map to_pf (w_out (w_run keys dz cfg prog)), PClean).
Proof. intros keys dz cfg Hk Hd prog Hp. exact (proj1 (writer_conformant keys dz cfg Hk Hd prog Hp)). Qed.
Print Assumptions C01_frames_roundtrip.

(* client payloads go through a 4096-byte bufio.Writer in pieces (copy what fits, mask that region of the buffer
   with the carried key, flush when full): what reaches the wire is what was pending followed by the masked payload;
   the CALLER's bytes p are only ever read (the mask is applied to the buffer) *)
Theorem C01_payload_masking : forall (fuel cap : nat) (wire buffered : bytes) (k : key) (p : bytes),
  0 < cap -> length buffered <= cap -> wf_key k -> wf_bytes p -> length p < fuel ->
  let '(wire', buffered', k') := wp_loop fuel cap wire buffered k p in
  wire' ++ buffered' = wire ++ buffered ++ mask_spec k p /\ k' = rotk k (length p) /\ length buffered' <= cap.
Proof. exact wp_loop_spec. Qed.
Print Assumptions C01_payload_masking.

(* compressed messages: for ANY chunking of the compressor's output, the trim writer sends everything but the last
   four bytes, in order, and keeps exactly those four *)
Theorem C01_trim_stream : forall ps, 4 <= length (concat ps) ->
  let '(outs, tail') := trim_run [] ps in
  concat outs = firstn (length (concat ps) - 4) (concat ps) /\ tail' = lastn 4 (concat ps).
Proof. exact trim_stream. Qed.
Print Assumptions C01_trim_stream.

(* receiver with context takeover: the dictionary kept by writing every delivered slice into the sliding window is
   the last [cap] bytes of everything delivered, for any slice sizes (incl. slices larger than the window, shifting) *)
Theorem C01_window : forall cap ps, sw_run cap ps = lastn cap (concat ps).
Proof. exact sw_run_spec. Qed.
Print Assumptions C01_window.

Example C01_nonvacuous :
  sw_run 4 ([[1;2]; [3]; []; [4;5;6]; [7;8;9;10;11]; [12]])%N = [9;10;11;12]%N /\
  trim_run [] ([[1]; [2;3]; [4;5;6;7;8;9]; [10]])%N = ([[1;2;3]; [4;5]; [6]], [7;8;9;10])%N.
Proof. vm_compute. split; reflexivity. Qed.
