(* C01 — Message round-trip fidelity for every size, chunking and compression setting.
   Statements only; proofs in Proofs/TrimWindowP.v, Proofs/MaskP.v, Proofs/WriterP.v. *)
From Coq Require Import List NArith ZArith Arith Bool.
From WS Require Import Base.Words Model.Mask Model.Frame Model.Proto Model.Writer Model.RefDecoder Model.Window
  Model.Reader Model.Script Model.ScriptZ Gen.Consts Proofs.ReaderZP Proofs.RoundTripZP Proofs.MaskP Proofs.WriterP Proofs.TrimWindowP Proofs.RoundTripP Gen.WriteCode Proofs.GenTieP.
Import ListNotations.
Close Scope N_scope. Close Scope Z_scope. Open Scope nat_scope.

(* END TO END (uncompressed): every message written on one endpoint — by Write, or by Writer with ANY sequence of chunked
   writes followed by Close — is received by the peer endpoint as exactly one message of the same type with a byte-identical
   payload, in the order written: both directions (r = Client or Server), every size and chunking (all three length
   encodings, empty chunks, empty messages), every mask-key supply, every sequence of positive read-buffer sizes, whatever
   the transport does after the last byte.  Pings/Pongs interleaved between messages are answered / noted in order.
   (Compressed messages: tied by the correspondence; the compressor and inflater are oracles.) *)
Theorem C01_roundtrip_uncompressed : forall keys dz (r : role) thr0 prog sizes inflate e,
  (forall i, wf_key (keys i)) -> Forall wf_dc_op prog -> ends_with_data prog ->
  length sizes = count_data prog -> Forall (fun n => 0 < n)%nat sizes ->
  let wcfg := {| wc_role := r; wc_co := None; wc_thr0 := thr0 |} in
  let rcfg := {| rc_role := peer r; rc_co := None |} in
  let res := run rcfg inflate (-1)%Z (w_wire (w_run keys dz wcfg prog)) e (read_ops sizes) in
  fst res = delivered prog /\ r_replies (snd res) = pongs_due prog /\ r_pongs (snd res) = pong_notes prog /\
  r_inq (snd res) = [] /\ r_closed (snd res) = false.
Proof. exact roundtrip_uncompressed_ctl. Qed.
Print Assumptions C01_roundtrip_uncompressed.

(* sender: whatever the program, what is on the wire is parsed back by the specification parser to exactly the
   frames written (payload bytes identical, in order) — every size, chunking, role, option set, threshold *)
Theorem C01_frames_roundtrip : forall (keys : nat -> key) (dz : list dzop -> list bytes) (cfg : wcfg),
  (forall i, wf_key (keys i)) -> (forall h, Forall wf_payload (dz h)) ->
  forall prog, Forall wf_op prog ->
  parse (w_wire (w_run keys dz cfg prog)) = (map to_pf (w_out (w_run keys dz cfg prog)), PClean).
Proof. intros keys dz cfg Hk Hd prog Hp. exact (proj1 (writer_conformant keys dz cfg Hk Hd prog Hp)). Qed.
Print Assumptions C01_frames_roundtrip.

(* client payloads go through a 4096-byte bufio.Writer in pieces (copy what fits, mask that region of the buffer
   with the carried key, flush when full): what reaches the wire is what was pending followed by the masked payload;
   the CALLER's bytes p are only ever read (the mask is applied to the buffer) *)
Theorem C01_payload_masking : forall (fuel cap : nat) (wire buffered : bytes) (k : key) (p : bytes),
  0 < cap -> length buffered <= cap -> wf_key k -> wf_bytes p -> length p < fuel ->
  let '(wire', buffered', k') := wp_loop fuel cap wire buffered k p in
  wire' ++ buffered' = wire ++ buffered ++ mask_spec k p /\ k' = rotk k (length p) /\ length buffered' <= cap.
Proof. exact wp_loop_spec. Qed.
Print Assumptions C01_payload_masking.

(* compressed messages: for ANY chunking of the compressor's output, the trim writer sends everything but the last
   four bytes, in order, and keeps exactly those four *)
Theorem C01_trim_stream : forall ps, 4 <= length (concat ps) ->
  let '(outs, tail') := trim_run [] ps in
  concat outs = firstn (length (concat ps) - 4) (concat ps) /\ tail' = lastn 4 (concat ps).
Proof. exact trim_stream. Qed.
Print Assumptions C01_trim_stream.

(* receiver with context takeover: the dictionary kept by writing every delivered slice into the sliding window is
   the last [cap] bytes of everything delivered, for any slice sizes (incl. slices larger than the window, shifting) *)
Theorem C01_window : forall cap ps, sw_run cap ps = lastn cap (concat ps).
Proof. exact sw_run_spec. Qed.
Print Assumptions C01_window.

Example C01_nonvacuous :
  sw_run 4 ([[1;2]; [3]; []; [4;5;6]; [7;8;9;10;11]; [12]])%N = [9;10;11;12]%N /\
  trim_run [] ([[1]; [2;3]; [4;5;6;7;8;9]; [10]])%N = ([[1;2;3]; [4;5]; [6]], [7;8;9;10])%N.
Proof. vm_compute. split; reflexivity. Qed.


(* ---- receiving side of a COMPRESSED round trip, under an explicit contract between deflater and inflater ----
   If inflating what the deflater made of [plain] (with the same dictionary, followed by 00 00 ff ff) gives [plain] back — for
   every dictionary of at most one window — then every stream whose compressed messages carry deflate_body dict_i plain_i, in
   any fragmentation, with control frames anywhere, read with any buffer sizes, on either role, with or without context
   takeover, is delivered as exactly the plain_i.  (The sending side is C02_decodes: what an independent decoder reassembles
   from the Writer's frames is what the compressor emitted, for every compressor behaviour.) *)
Theorem C01_compressed_delivery : forall (inflate : bytes -> bytes -> bytes * istatus) (deflate_body : bytes -> bytes -> bytes),
  (forall dict plain, (length dict <= Z.to_nat c_windowSize)%nat -> inflate dict (deflate_body dict plain ++ c_deflateMessageTail) = (plain, INeedMore)) ->
  forall cfg co ms plains sizes e,
  rc_co cfg = Some co -> Forall (fun zm => wf_smsg (zm_m zm)) ms ->
  carries deflate_body (reader_takeover (rc_role cfg) co) [] ms plains ->
  length sizes = length ms -> Forall (fun n => 0 < n)%nat sizes ->
  let masked := role_eqb (rc_role cfg) Server in
  let r := run cfg inflate (-1)%Z (enc_zscript masked ms) e (read_ops sizes) in
  fst r = plain_obs ms plains /\
  r_replies (snd r) = expected_pongs_written (map zm_m ms) /\
  r_pongs (snd r) = expected_pong_notes (map zm_m ms) /\
  r_inq (snd r) = [] /\ r_closed (snd r) = false.
Proof. exact reader_valid_zstream_contract. Qed.
Print Assumptions C01_compressed_delivery.

(* ---- END-TO-END round trip WITH compression, under an explicit contract on compress/flate ----
   dz is the compressor oracle of the Writer model (history of Write/Flush operations -> chunks handed to the underlying
   writer), inflate the inflater oracle of the Reader model.  Contract: (F0) the compressor emits byte chunks; (F1) on a writer
   that has compressed the messages css, the chunks emitted for Write(c1) .. Write(ck) Flush() concatenate — however the
   compressor cuts its output — to deflate_body (last window of the earlier plain texts) (c1 ++ .. ++ ck) ++ 00 00 ff ff;
   (F2) inflate with the same dictionary returns the plain text.  Then for every role, negotiated option set (context
   takeover or not on either side), threshold, key supply, program of Write / Writer..Write*..Close / Ping / Pong operations
   (messages below the threshold go uncompressed), read-buffer sizes and transport ending: reading the Writer's wire with the
   peer's Reader delivers exactly the messages written, in order, with their types, answers every Ping, consumes everything. *)
Theorem C01_roundtrip_compressed : forall (dz : list dzop -> list bytes) (inflate : bytes -> bytes -> bytes * istatus) (deflate_body : bytes -> bytes -> bytes),
  (forall h, wf_hist h -> Forall wf_payload (dz h)) ->
  (forall css cs, Forall wf_chunks css -> wf_chunks cs -> cs <> [] ->
     dz_run dz (hist_of css) (msg_ops cs) = deflate_body (dict_of css) (concat cs) ++ c_deflateMessageTail) ->
  (forall dict plain, (length dict <= zwindow)%nat -> inflate dict (deflate_body dict plain ++ c_deflateMessageTail) = (plain, INeedMore)) ->
  forall keys (r : role) co thr0 prog sizes e,
  (forall i, wf_key (keys i)) -> Forall wf_dc_op prog -> ends_with_data prog ->
  length sizes = count_data prog -> Forall (fun n => 0 < n)%nat sizes ->
  let wcfg := {| wc_role := r; wc_co := Some co; wc_thr0 := thr0 |} in
  let rcfg := {| rc_role := peer r; rc_co := Some co |} in
  let res := run rcfg inflate (-1)%Z (w_wire (w_run keys dz wcfg prog)) e (read_ops sizes) in
  fst res = delivered prog /\
  r_replies (snd res) = pongs_due prog /\
  r_pongs (snd res) = pong_notes prog /\
  r_inq (snd res) = [] /\ r_closed (snd res) = false.
Proof. exact roundtrip_compressed. Qed.
Print Assumptions C01_roundtrip_compressed.

(* the contract is satisfiable: a toy compressor / inflater pair (dictionary-dependent mark byte, output cut into odd chunks,
   an inflater that rejects the wrong dictionary) satisfies F0-F2, so the theorem is not vacuous *)
Theorem C01_contract_satisfiable : exists dz inflate deflate_body,
  (forall h, wf_hist h -> Forall wf_payload (dz h)) /\
  (forall css cs, Forall wf_chunks css -> wf_chunks cs -> cs <> [] ->
     dz_run dz (hist_of css) (msg_ops cs) = deflate_body (dict_of css) (concat cs) ++ c_deflateMessageTail) /\
  (forall dict plain, (length dict <= zwindow)%nat -> inflate dict (deflate_body dict plain ++ c_deflateMessageTail) = (plain, INeedMore)).
Proof. exists toy_dz, toy_inflate2, toy_body. split; [exact toy_dz_wf | split; [exact toy_flush | exact toy_inflate_deflate]]. Qed.
Print Assumptions C01_contract_satisfiable.

(* tie to the source by translation (Gen/WriteCode.v is regenerated from write.go / conn.go on every run): a message of the
   model's writer becomes compressed exactly when msgWriter.Write calls ensureFlate — compression negotiated, first frame
   of the message, length at or above the threshold — and the threshold is the one newConn computes *)
Theorem C01_compression_decision_is_source : forall keys dz cfg m p,
  m_flate (mw_write keys dz cfg m p) =
  (m_flate m || gen_enable_flate (match wc_co cfg with Some _ => true | None => false end)
                  (Z.of_N (m_opc m)) (Z.of_nat (length p)) (Z.of_N (wc_thr cfg)))%bool.
Proof. exact mw_write_flag_is_source. Qed.
Print Assumptions C01_compression_decision_is_source.

Theorem C01_threshold_is_source : forall c,
  wc_thr c = Z.to_N (gen_flate_threshold (match wc_co c with Some _ => true | None => false end) (Z.of_N (wc_thr0 c)) (wc_takeover c)).
Proof. exact wc_thr_is_source. Qed.
Print Assumptions C01_threshold_is_source.
