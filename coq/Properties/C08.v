(* C08 — Read limit and memory bounds hold for every sender, including compressed input.
   Statements only; proofs in Proofs/ReaderP.v, Proofs/ReaderCutP.v, Proofs/ReaderLimitZP.v (compressed messages, every inflater). *)
From Coq Require Import List NArith ZArith Bool.
From WS Require Import Base.Words Gen.Consts Model.Mask Model.Frame Model.Proto Model.RefDecoder Model.Reader Model.Script Model.ScriptZ Proofs.ReaderP Proofs.ReaderCutP Proofs.ReaderLimitZP Gen.ReadCode Proofs.GenTieP.
Import ListNotations.
Open Scope N_scope.

(* STREAM LEVEL.  With a read limit of L bytes, for every valid stream (any fragmentation, control frames, both roles) and
   every sequence of positive read-buffer sizes: (a) if every message is at most L bytes, everything is delivered exactly as
   without a limit; (b) the first message longer than L is never reported complete: the earlier messages are intact, its
   read fails with the limit error after exactly L+1 bytes — a prefix of its payload — have been handed out, and the last
   frame written is a Close frame with status 1009.  (Uncompressed; the limit counts delivered bytes, so for compressed
   messages it applies after decompression: tied by the correspondence incl. > 1000:1 bombs.) *)
Theorem C08_limit_stream : forall cfg inflate ms sizes e (L : nat),
  Forall wf_smsg ms -> length sizes = length ms -> Forall (fun n => 0 < n)%nat sizes ->
  let masked := role_eqb (rc_role cfg) Server in
  let r := run cfg inflate (Z.of_nat L + 1)%Z (enc_script masked ms) e (read_ops sizes) in
  (Forall (fun m => length (sm_payload m) <= L)%nat ms -> fst r = expected_obs ms) /\
  (forall pre m post, ms = pre ++ m :: post -> Forall (fun m' => length (sm_payload m') <= L)%nat pre -> (L < length (sm_payload m))%nat ->
     fst r = expected_obs pre ++ [ObReader (inl (sm_typ m)); ObMsg (firstn (S L) (sm_payload m)) (Some RELimit)] /\
     exists rs, r_replies (snd r) = rs ++ [RpClose c_StatusMessageTooBig None]).
Proof. exact reader_limit_stream. Qed.
Print Assumptions C08_limit_stream.

(* once limit+1 bytes of a message have been handed out, every further Read fails, hands out nothing and a
   Close frame with status 1009 is written — in every state, compressed or not *)
Theorem C08_limit_enforced : forall cfg inflate fuel n s d e eof s', r_closed s = false -> r_close_sent s = false -> (r_lrn s = 0)%Z ->
  msg_read cfg inflate fuel n s = (d, e, eof, s') -> d = [] /\ e = Some RELimit /\ eof = false /\
  r_replies s' = r_replies s ++ [RpClose c_StatusMessageTooBig None].
Proof. exact limit_enforced. Qed.
Print Assumptions C08_limit_enforced.

(* a declared payload length is a number in the header, never a buffer: whatever is decoded is below 2^63 … *)
Theorem C08_declared_length_bounded : forall inp h rest, dec_hdr inp = DecOk h rest -> h_plen h < 9223372036854775808 /\ h_opc h < 16.
Proof. exact dec_hdr_bounds. Qed.
Print Assumptions C08_declared_length_bounded.

(* … and a length with the top bit set is rejected outright *)
Theorem C08_topbit_rejected : forall b0 b1 eb rest, b1 mod 128 = 127 -> length eb = 8%nat -> 9223372036854775808 <= be_val eb ->
  dec_hdr (b0 :: b1 :: eb ++ rest) = DecNeg.
Proof. exact dec_hdr_topbit. Qed.
Print Assumptions C08_topbit_rejected.

(* the default limit is 32768 bytes: stored as limit+1 (constants regenerated from read.go on every run) *)
Theorem C08_default_limit : c_initialLimitStored = (c_defaultReadLimit + 1)%Z /\ c_defaultReadLimit = 32768%Z.
Proof. split; reflexivity. Qed.
Print Assumptions C08_default_limit.

(* non-vacuity: limit 3, a 4-byte message fails after 4 = limit+1 bytes, with Close 1009; a 3-byte message is delivered *)
Example C08_over_and_within :
  let cfg := {| rc_role := Client; rc_co := None |} in
  let r4 := run cfg (fun _ _ => ([], INeedMore)) 32769 [130; 4; 1; 2; 3; 4] EEof [OSetLimit 3; OReader; OReadAllN 1] in
  let r3 := run cfg (fun _ _ => ([], INeedMore)) 32769 [130; 3; 1; 2; 3] EEof [OSetLimit 3; OReader; OReadAllN 1] in
  fst r4 = [ObReader (inl 2); ObMsg [1; 2; 3; 4] (Some RELimit)] /\ r_replies (snd r4) = [RpClose 1009 None] /\
  fst r3 = [ObReader (inl 2); ObMsg [1; 2; 3] None].
Proof. vm_compute. repeat split. Qed.


(* ---- the limit counts DECOMPRESSED bytes: compression bombs, for EVERY inflater ----
   With a read limit of L bytes on a connection with permessage-deflate, for every valid stream (compressed and uncompressed
   messages mixed, any fragmentation, control frames, both roles, both takeover settings) and positive buffer sizes: (a) if what
   every message decompresses to is at most L bytes, everything is delivered as without a limit; (b) the first message whose
   decompressed size exceeds L — however small it is on the wire — is never reported complete: the application receives exactly
   the first L+1 bytes of its output, the read fails with the limit error and a Close frame with status 1009 is written. *)
Theorem C08_limit_stream_compressed : forall cfg inflate co ms sizes e (L : nat),
  rc_co cfg = Some co -> Forall (fun zm => wf_smsg (zm_m zm)) ms ->
  all_inflate_ok inflate (reader_takeover (rc_role cfg) co) [] ms = true ->
  length sizes = length ms -> Forall (fun n => 0 < n)%nat sizes ->
  let tk := reader_takeover (rc_role cfg) co in
  let masked := role_eqb (rc_role cfg) Server in
  let r := run cfg inflate (Z.of_nat L + 1)%Z (enc_zscript masked ms) e (read_ops sizes) in
  (Forall (fun o => length o <= L)%nat (zouts inflate tk [] ms) -> fst r = expected_zobs inflate tk [] ms) /\
  (forall pre zm post, ms = pre ++ zm :: post ->
     Forall (fun o => length o <= L)%nat (zouts inflate tk [] pre) ->
     let out := zout inflate (dict_after inflate tk [] pre) zm in
     (L < length out)%nat ->
     fst r = expected_zobs inflate tk [] pre ++ [ObReader (inl (sm_typ (zm_m zm))); ObMsg (firstn (S L) out) (Some RELimit)] /\
     exists rs, r_replies (snd r) = rs ++ [RpClose c_StatusMessageTooBig None]).
Proof. exact reader_limit_zstream. Qed.
Print Assumptions C08_limit_stream_compressed.

(* ---- tie to the source by translation (Gen/ReadCode.v is regenerated from read.go limitReader.Read / SetReadLimit on every run) ---- *)

(* the model's "limit hit" is the conjunction of the source's two conditions: there is a limit (lr.n >= 0) and the read uses
   the allowance up (lr.n - n <= 0) *)
Theorem C08_limit_hit_is_source : forall s got,
  limit_hit s got = negb (gen_limit_unlimited (r_lrn s)) && gen_limit_hit_after (r_lrn s - Z.of_nat got).
Proof. exact limit_hit_is_source. Qed.
Print Assumptions C08_limit_hit_is_source.

(* a Read that finds the allowance exhausted (the source's lr.n == 0 branch) fails, closes with 1009 and hands over nothing *)
Theorem C08_limit_exhausted_is_source : forall cfg inflate fuel n s, r_closed s = false -> gen_limit_exhausted (r_lrn s) = true ->
  msg_read cfg inflate fuel n s = ([], Some RELimit, false, write_error s c_StatusMessageTooBig).
Proof. exact limit_exhausted_is_source. Qed.
Print Assumptions C08_limit_exhausted_is_source.

(* the caller's buffer is cut down to the allowance exactly when the source cuts it; the allowance of a new connection is
   what SetReadLimit stores for the default limit *)
Theorem C08_limit_clamp_is_source : forall lrn n,
  ((0 <? lrn) && (lrn <? Z.of_nat n))%Z =
  negb (gen_limit_unlimited lrn) && negb (gen_limit_exhausted lrn) && gen_limit_clamp (Z.of_nat n) lrn.
Proof. exact limit_clamp_is_source. Qed.
Print Assumptions C08_limit_clamp_is_source.

Theorem C08_initial_limit_is_source : c_initialLimitStored = gen_limit_stored c_defaultReadLimit.
Proof. exact initial_limit_is_source. Qed.
Print Assumptions C08_initial_limit_is_source.
