(* C12 — Cross-origin requests are refused unless the origin is explicitly authorised.
   Statements only; proofs in Proofs/OriginP.v (models of url.Parse's host and filepath.Match, Go 1.23.5) and Proofs/HandshakeP.v. *)
From Coq Require Import List NArith Bool.
From Coq Require Import ZArith.
From WS Require Import Base.Words Model.Fold Model.Glob Model.Url Model.Origin Model.Handshake Proofs.OriginP Proofs.HandshakeP Gen.OriginCode Proofs.GenTie2P.
Import ListNotations.
Open Scope N_scope.

(* the decision: allowed iff the origin parses and its host folds equal to the request host, or the first pattern
   (in list order) that does not fail to match … matches; a malformed pattern reached before a match refuses *)
Theorem C12_decision : forall host o pats, o <> [] ->
  (origin_authenticate host (Some o) pats = OAllow <->
   exists h, url_host_of o = Some h /\
     (fold_eq host h = true \/
      exists pre p post, pats = pre ++ p :: post /\ Forall (fun q => glob_match (fold_lower q) (fold_lower h) = GlobOk false) pre /\
                         glob_match (fold_lower p) (fold_lower h) = GlobOk true)).
Proof. exact origin_decision. Qed.
Print Assumptions C12_decision.

Theorem C12_no_origin : forall host pats, origin_authenticate host None pats = OAllow /\ origin_authenticate host (Some []) pats = OAllow.
Proof. exact origin_absent. Qed.
Print Assumptions C12_no_origin.

(* a refused origin on an otherwise valid request: 403, nothing negotiated, connection not taken over *)
Theorem C12_refused_is_403 : forall r o, valid_ws_request r -> ~ origin_ok r o ->
  ar_status (accept_decide r o) = 403%nat /\ ar_copts (accept_decide r o) = None.
Proof. exact accept_refused_403. Qed.
Print Assumptions C12_refused_is_403.

(* which host an origin names: never anything from the path, query, fragment or userinfo *)
Theorem C12_host_chars : forall s h, url_host_of s = Some h -> ~ In 47 h /\ ~ In 63 h /\ ~ In 35 h /\ ~ In 64 h.
Proof. exact url_host_no_delims. Qed.
Print Assumptions C12_host_chars.

(* a pattern without metacharacters authorises exactly itself: suffix, prefix and sub-domain look-alikes are refused *)
Theorem C12_literal_pattern : forall p h, (forall c, In c p -> c <> 42 /\ c <> 63 /\ c <> 91 /\ c <> 92) ->
  glob_match p h = GlobOk (if list_eq_dec N.eq_dec p h then true else false).
Proof. exact glob_literal. Qed.
Print Assumptions C12_literal_pattern.

(* non-vacuity: look-alikes of example.com are refused, the host itself (any case, any scheme) is allowed *)
Example C12_lookalikes :
  let host := [101;120;97;109;112;108;101;46;99;111;109] in            (* example.com *)
  let o s := origin_authenticate host (Some s) [] in
  o ([104;116;116;112;115;58;47;47] ++ [69;88;65;77;80;76;69;46;99;111;109]) = OAllow /\                                  (* https://EXAMPLE.com *)
  o ([104;116;116;112;115;58;47;47] ++ host ++ [46;101;118;105;108;46;105;111]) = ORefuse /\                              (* https://example.com.evil.io *)
  o ([104;116;116;112;115;58;47;47;101;118;105;108;46;99;111;109;47] ++ host) = ORefuse /\                               (* https://evil.com/example.com *)
  o ([104;116;116;112;115;58;47;47] ++ host ++ [64;101;118;105;108;46;99;111;109]) = ORefuse.                             (* https://example.com@evil.com *)
Proof. vm_compute. repeat split. Qed.

(* tie to the source by translation (tools/constx/nego.go, Gen/OriginCode.v, regenerated on every run): the model takes the decisions of
   authenticateOrigin in the source's order — empty Origin, url.Parse failure, EqualFold(r.Host, u.Host), then pattern by pattern
   (a malformed pattern refuses, a match authorises, otherwise the next one), and no match refuses *)
Theorem C12_decision_is_source : forall host origin pats,
  origin_authenticate host origin pats =
  let o := match origin with Some o => o | None => [] end in
  match gen_origin_pre (match o with [] => true | _ => false end)
          (match url_host_of o with Some _ => true | None => false end)
          (match url_host_of o with Some h => fold_eq host h | None => false end) with
  | Some true => OAllow
  | Some false => ORefuse
  | None => match url_host_of o with Some h => run_patterns gen_origin_step h pats | None => ORefuse end
  end.
Proof. exact origin_authenticate_is_source. Qed.
Print Assumptions C12_decision_is_source.
