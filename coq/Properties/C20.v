(* C20 — No goroutine outlives a closed connection.
   Statements only; proofs in Proofs/LifeP.v (model: Model/Life.v, see C09).  The goroutines the library starts for a
   connection are the timeout watcher (l_tl_exited) and the CloseRead reader (l_cr). *)
From Coq Require Import List Arith Bool.
From WS Require Import Model.Life Proofs.LifeP.
Import ListNotations.

(* EXACT FORM.  For every program set and every schedule: at the step at which Close / CloseNow returns from waitGoroutines
   (phase LWaitCR, a step is possible) and for ever after, the timeout goroutine has exited, the connection is closed and
   the CloseRead goroutine that existed at that moment has exited. *)
Theorem C20_joined_after_return : forall progs sched1 t alt ok s2 sched2, let s1 := lrun (linit progs) sched1 in
  lp (l_thr s1 t) = LWaitCR ok -> lstep s1 (LStep t alt) = Some s2 ->
  let s := lrun s2 sched2 in
  l_tl_exited s = true /\ l_closed s = true /\
  (forall g, l_cr s1 = Some g -> l_cr s = Some g /\ lp (l_thr s g) = LExited).
Proof. exact life_joined_after_return. Qed.
Print Assumptions C20_joined_after_return.

(* RESULT FORM.  In every reachable state in which some Close / CloseNow has a result other than the 15 s give-up, both
   goroutines are gone — except for a CloseRead goroutine that was started AFTER the connection was closed
   (C20_joined_refuted below shows that this exception is real) ... *)
Theorem C20_joined_partial : forall progs sched t call r, fresh_cr progs -> let s := lrun (linit progs) sched in
  In (call, r) (lresults (l_thr s t)) -> (match call with LClose _ _ | LCloseNow => True | _ => False end) -> r <> RWaitTimeout ->
  l_tl_exited s = true /\ l_closed s = true /\
  (forall g, l_cr s = Some g ->
     lp (l_thr s g) = LExited
     \/ lp (l_thr s g) = LDoClose KCRExit \/ exists c, lp (l_thr s g) = LWantMu SR c KCRData).
Proof. exact life_joined_partial. Qed.
Print Assumptions C20_joined_partial.

(* ... and such a late goroutine is not a leak: it needs nothing from anybody and exits in two steps of its own. *)
Theorem C20_late_closeread_exits : forall s g c, l_closed s = true -> lp (l_thr s g) = LWantMu SR c KCRData ->
  exists s1 s2, lstep s (LStep g true) = Some s1 /\ lstep s1 (LStep g true) = Some s2 /\ lp (l_thr s2 g) = LExited.
Proof. exact life_late_cr_exits. Qed.
Print Assumptions C20_late_closeread_exits.

(* The unrestricted reading ("whenever a Close/CloseNow result exists, no goroutine is alive") is false of the model AND of
   the library, harmlessly: CloseRead called after CloseNow returned starts a goroutine, which exits at once. *)
Definition c20_p : tid -> list lcall := fun t => match t with 0 => [LCloseNow; LCloseRead 1 5] | _ => [] end.
Example C20_joined_refuted :
  let s := lrun (linit c20_p) [LStep 0 false; LStep 0 false; LTimeout; LStep 0 false; LStep 0 false; LStep 0 false] in
  In (LCloseNow, ROk) (lresults (l_thr s 0)) /\ l_cr s = Some 5 /\ lp (l_thr s 5) = LWantMu SR 1 KCRData.
Proof. vm_compute. repeat split; try reflexivity. right. left. reflexivity. Qed.

(* Non-vacuity: CloseRead active, CloseNow: the goroutine is joined before CloseNow returns. *)
Definition c20_p2 : tid -> list lcall := fun t => match t with 0 => [LCloseRead 3 5; LCloseNow] | _ => [] end.
Example C20_join :
  let s1 := lrun (linit c20_p2) [LStep 0 false; LStep 5 false; LStep 5 false; LStep 0 false; LStep 0 false; LTimeout; LStep 0 false] in
  lp (l_thr s1 0) = LWaitCR true /\ lstep s1 (LStep 0 false) = None /\     (* CloseNow waits: the goroutine is still in its read *)
  let s2 := lrun s1 [LStep 5 false; LStep 5 false; LStep 5 false] in
  lp (l_thr s2 5) = LExited /\ exists s3, lstep s2 (LStep 0 false) = Some s3 /\ lresults (l_thr s3 0) = [(LCloseNow, ROk); (LCloseRead 3 5, ROk)].
Proof. vm_compute. repeat split; try reflexivity. eexists. split; reflexivity. Qed.
