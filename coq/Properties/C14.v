(* C14 — permessage-deflate is negotiated soundly and both ends agree on its parameters.
   Statements only; proofs in Proofs/HandshakeP.v. *)
From Coq Require Import List NArith Bool.
From Coq Require Import ZArith.
From WS Require Import Base.Words Gen.Consts Gen.FrameCode Model.Proto Model.Handshake Proofs.HandshakeP Proofs.GenTieP Gen.NegoCode Proofs.GenTie2P Gen.TakeoverCode Gen.HeaderCode Gen.ParseCode.
Import ListNotations.

(* server: compression only if enabled, and only from the FIRST permessage-deflate offer that is acceptable (earlier
   ones were declined: fallback to a later offer) *)
Theorem C14_server_selects : forall es m c, select_deflate es m = Some c ->
  m <> MDisabled /\ exists pre e post, es = pre ++ e :: post /\ x_name e = s_pmd /\ accept_deflate e m = Some c /\
    Forall (fun e' => x_name e' = s_pmd -> accept_deflate e' m = None) pre.
Proof. exact select_deflate_sound. Qed.
Print Assumptions C14_server_selects.

(* … an acceptable offer has no duplicated parameter and only parameters the server can honour (the two flags,
   client_max_window_bits with no value or 8..15, server_max_window_bits=15 only); the agreed options are the server
   mode's OR the offer's flags — so server_no_context_takeover is echoed whenever the accepted offer asks for it *)
Theorem C14_offer_acceptable : forall e m c, accept_deflate e m = Some c ->
  hs_has_dup (x_params e) [] = false /\ Forall param_acceptable (x_params e) /\
  c = or_flags (mode_opts m) {| cnct := existsb (hs_beq s_cnct) (x_params e); snct := existsb (hs_beq s_snct) (x_params e) |}.
Proof. exact accept_deflate_sound. Qed.
Print Assumptions C14_offer_acceptable.

(* … and no compression exactly when disabled or every permessage-deflate offer is unacceptable *)
Theorem C14_fallback : forall es m, select_deflate es m = None <->
  m = MDisabled \/ Forall (fun e => x_name e = s_pmd -> accept_deflate e m = None) es.
Proof. exact select_deflate_none. Qed.
Print Assumptions C14_fallback.

(* the response never carries a parameter a client may not receive: it is permessage-deflate plus exactly the agreed flags *)
Theorem C14_response_wf : forall c, hs_exts [(s_SecExtensions, [render_copts c])] =
  [{| x_name := s_pmd; x_params := (if cnct c then [s_cnct] else []) ++ (if snct c then [s_snct] else []) |}].
Proof. exact render_parses. Qed.
Print Assumptions C14_response_wf.

(* client: a response is accepted only with compression offered, a single permessage-deflate extension, no duplicates,
   only parameters it can honour; it then holds server_no_context_takeover exactly as the RESPONSE says *)
Theorem C14_client_sound : forall offer h c, verify_exts offer h = VOk (Some c) ->
  exists o e, offer = Some o /\ hs_exts h = [e] /\ x_name e = s_pmd /\ hs_has_dup (x_params e) [] = false /\
    Forall (fun p => p = s_cnct \/ p = s_snct \/ exists v, hs_prefix (s_smwb ++ [61]) p = Some v /\ hs_valid_bits v = true) (x_params e) /\
    snct c = existsb (hs_beq s_snct) (x_params e) /\ cnct c = (cnct o || existsb (hs_beq s_cnct) (x_params e)).
Proof. exact verify_exts_sound. Qed.
Print Assumptions C14_client_sound.

(* library against library, all 3x3 modes: both endpoints end up holding the SAME parameters *)
Theorem C14_lib_lib_agree : forall mc ms,
  let offer := match mc with MDisabled => None | m => Some (mode_opts m) end in
  let req := match offer with Some c => [(s_SecExtensions, [render_copts c])] | None => [] end in
  let srv := select_deflate (hs_exts req) ms in
  let resp := match srv with Some c => [(s_SecExtensions, [render_copts c])] | None => [] end in
  verify_exts offer resp = VOk srv.
Proof. exact lib_lib_agree. Qed.
Print Assumptions C14_lib_lib_agree.

(* against a foreign endpoint that applies the parameters in the response: per direction, a receiver that discards its
   context always faces a sender that does too (asymmetric agreements included) *)
Theorem C14_foreign_agree_client : forall offer h c e, verify_exts offer h = VOk (Some c) -> hs_exts h = [e] ->
  let f := {| cnct := existsb (hs_beq s_cnct) (x_params e); snct := existsb (hs_beq s_snct) (x_params e) |} in
  compat (cnct c) (cnct f) /\ snct c = snct f.
Proof. exact foreign_agree_client. Qed.
Print Assumptions C14_foreign_agree_client.

(* each side decodes what the other compresses: the flag the sender consults is the one the receiver consults *)
Theorem C14_directions_agree : forall r c, writer_takeover r c = reader_takeover (peer r) c.
Proof. exact directions_agree. Qed.
Print Assumptions C14_directions_agree.

Example C14_nonvacuous :
  let offer s := hs_exts [(s_SecExtensions, [s])] in
  let cmwb7 := s_pmd ++ [59;32] ++ s_cmwb ++ [61;55] in
  let good := s_pmd ++ [59;32] ++ s_snct in
  select_deflate (offer cmwb7) MTakeover = None /\
  select_deflate (offer (cmwb7 ++ [44;32] ++ good)) MTakeover = Some {| cnct := false; snct := true |}.
Proof. vm_compute. split; reflexivity. Qed.

(* tie to the source by translation: the offer of a mode is what CompressionMode.opts (compress.go, regenerated into
   Gen/FrameCode.v on every run) returns for that mode's constant *)
Theorem C14_mode_opts_is_source : forall m,
  mode_opts m = {| cnct := fst (gen_mode_opts (mode_code m)); snct := snd (gen_mode_opts (mode_code m)) |}.
Proof. exact mode_opts_is_source. Qed.
Print Assumptions C14_mode_opts_is_source.

(* tie to the source by translation (tools/constx/nego.go, Gen/NegoCode.v, regenerated on every run): the server's treatment of an offer is
   the duplicate guard and the per-parameter classification of acceptDeflate (literals, prefixes, validWindowBits and flag assignments
   read off accept.go), the client's treatment of a response the guards, the reset of the server flag and the per-parameter
   classification of verifyServerExtensions (dial.go) *)
Theorem C14_accept_deflate_is_source : forall e m,
  accept_deflate e m =
  if gen_accept_pre (hs_has_dup (x_params e) []) then None else run_params gen_accept_param (x_params e) (mode_opts m).
Proof. exact accept_deflate_is_source. Qed.
Print Assumptions C14_accept_deflate_is_source.

Theorem C14_verify_exts_is_source : forall offer h,
  verify_exts offer h =
  let es := hs_exts h in
  let e := hd ext_default es in
  match gen_verify_exts_pre (Z.of_nat (length es)) (hs_beq (x_name e) s_pmd)
          (match offer with Some _ => true | None => false end) (hs_has_dup (x_params e) []) with
  | 0%Z => VOk None
  | 1%Z => VErr
  | _ => match offer with
         | None => VErr
         | Some o => match run_params gen_verify_param (x_params e) {| cnct := cnct o; snct := gen_verify_initial_snct (snct o) |} with
                     | Some c => VOk (Some c)
                     | None => VErr
                     end
         end
  end.
Proof. exact verify_exts_is_source. Qed.
Print Assumptions C14_verify_exts_is_source.

Theorem C14_window_bits_are_source : forall s, hs_valid_bits s = gen_valid_window_bits s.
Proof. exact valid_bits_is_source. Qed.
Print Assumptions C14_window_bits_are_source.

(* which flag a direction consults is what msgReader.flateContextTakeover (read.go) and msgWriter.flateContextTakeover (write.go) say,
   translated into Gen/TakeoverCode.v on every run: the reader of a client follows the SERVER's flag and so on *)
Theorem C14_reader_takeover_is_source : forall r c, reader_takeover r c = gen_reader_takeover (is_client r) (cnct c) (snct c).
Proof. exact reader_takeover_is_source. Qed.
Print Assumptions C14_reader_takeover_is_source.

Theorem C14_writer_takeover_is_source : forall r c, writer_takeover r c = gen_writer_takeover (is_client r) (cnct c) (snct c).
Proof. exact writer_takeover_is_source. Qed.
Print Assumptions C14_writer_takeover_is_source.

(* the header value of an offer / an answer is what compressionOptions.String (compress.go, Gen/HeaderCode.v) renders *)
Theorem C14_rendering_is_source : forall c, render_copts c = gen_render_copts (cnct c) (snct c).
Proof. exact render_copts_is_source. Qed.
Print Assumptions C14_rendering_is_source.

(* selectDeflate (accept.go, Gen/ParseCode.v): nothing in the disabled mode; otherwise the offers named permessage-deflate are tried in order and
   the first one acceptDeflate accepts is the answer; offers are cut out of the header the way websocketExtensions cuts them *)
Theorem C14_selection_is_source : forall es m,
  select_deflate es m = if gen_select_disabled (mode_code m) then None else run_select gen_select_name es m.
Proof. exact select_deflate_is_source. Qed.
Print Assumptions C14_selection_is_source.

Theorem C14_offers_are_cut_as_in_source : forall h,
  hs_exts h = flat_map (fun t => match t with
                                 | [] => []
                                 | _ => match map hs_trim (hs_split gen_ext_sep t []) with
                                        | n :: ps => [{| x_name := n; x_params := ps |}]
                                        | [] => [] end
                                 end) (hs_tokens h s_SecExtensions).
Proof. exact hs_exts_is_source. Qed.
Print Assumptions C14_offers_are_cut_as_in_source.
