(* C04 — No silent truncation: a message ends cleanly only if it was received completely.
   Statements only; proofs in Proofs/ReaderP.v, Proofs/ReaderCutP.v (uncompressed streams), Proofs/ReaderCutZP.v (streams with
   compressed messages, every inflater). *)
From Coq Require Import List NArith ZArith Bool.
From WS Require Import Base.Words Gen.Consts Model.Mask Model.Frame Model.Proto Model.RefDecoder Model.Reader Model.Script Model.ScriptZ Proofs.ReaderP Proofs.ReaderCutP Proofs.ReaderCutZP.
Import ListNotations.
Open Scope N_scope.

(* EVERY CRASH POINT.  The transport delivers only the first [cut] bytes of a valid stream (any messages, fragmentation,
   control frames, both roles) and then ends, by EOF or by failure — at ANY byte offset: inside a frame header, inside a
   control frame, between fragments, inside a payload.  Then, for every sequence of positive read-buffer sizes:
   every message completely received is delivered intact, in order, each with a clean end; exactly ONE failing call follows:
   either the Reader call fails with the transport's error, or it succeeds and the read of that message fails with the
   transport's error after handing the caller a true PREFIX of the message's payload.  A clean end is never reported for a
   message that was not received completely.  (Uncompressed messages; compressed ones are covered by the cut sweeps.) *)
Theorem C04_no_silent_truncation : forall cfg inflate ms sizes cut e,
  Forall wf_smsg ms -> length sizes = length ms -> Forall (fun n => 0 < n)%nat sizes -> e <> EOpen ->
  let masked := role_eqb (rc_role cfg) Server in
  let stream := enc_script masked ms in
  (cut < length stream)%nat ->
  let r := run cfg inflate (-1)%Z (firstn cut stream) e (read_ops sizes) in
  exists k m rest_ms, ms = firstn k ms ++ m :: rest_ms /\ length (firstn k ms) = k /\
    (fst r = expected_obs (firstn k ms) ++ [ObReader (inr (end_err_of e))]
     \/ exists d, fst r = expected_obs (firstn k ms) ++ [ObReader (inl (sm_typ m)); ObMsg d (Some (end_err_of e))] /\ is_prefix d (sm_payload m)).
Proof. exact reader_cut_stream. Qed.
Print Assumptions C04_no_silent_truncation.

(* The payload stream of a message reports its end ONLY in a state where the final frame (fin) has been consumed
   to its last byte — for every state, input, fuel and buffer size. *)
Theorem C04_raw_end_is_complete : forall cfg fuel n s d e s', raw_read cfg fuel n s = (d, e, true, s') ->
  r_fin s' = true /\ r_plen s' = 0 /\ d = [] /\ e = None.
Proof. exact raw_read_eof_complete. Qed.
Print Assumptions C04_raw_end_is_complete.

(* Read on an uncompressed message returns a clean end of message only then *)
Theorem C04_clean_end_is_complete : forall cfg inflate fuel n s d s', r_flate s = false ->
  msg_read cfg inflate fuel n s = (d, None, true, s') -> r_fin s' = true /\ r_plen s' = 0.
Proof. exact msg_read_eof_complete. Qed.
Print Assumptions C04_clean_end_is_complete.

(* crash point inside a payload: if the transport has ended (EOF or failure) with fewer bytes than the frame
   still needs, the read fails with the transport's error — never a clean end *)
Theorem C04_truncated_payload_fails : forall cfg fuel n s, r_closed s = false -> r_plen s <> 0 -> (0 < n)%nat ->
  N.of_nat (length (r_inq s)) < r_plen s -> (length (r_inq s) < n)%nat -> r_end s <> EOpen ->
  exists d s', raw_read cfg (S fuel) n s = (d, Some (end_err s), false, s') /\ (end_err s = RETransEof \/ end_err s = RETransFail).
Proof. exact raw_read_truncated. Qed.
Print Assumptions C04_truncated_payload_fails.

(* non-vacuity + the three historical witnesses, now regression examples on the repaired model:
   (a) the transport ends between two fragments; (b) inside a header; (c) server role inside a payload *)
Example C04_between_fragments :
  let cfg := {| rc_role := Client; rc_co := None |} in
  fst (run cfg (fun _ _ => ([], INeedMore)) 32769 [2; 3; 97; 98; 99] EEof [OReader; OReadAll]) =
    [ObReader (inl 2); ObMsg [97; 98; 99] (Some RETransEof)].
Proof. vm_compute. reflexivity. Qed.
Example C04_server_partial_payload_unmasked :
  let cfg := {| rc_role := Server; rc_co := None |} in
  fst (run cfg (fun _ _ => ([], INeedMore)) 32769 [130; 138; 1; 2; 3; 4; 96; 96; 96] EFail [OReader; OReadAll]) =
    [ObReader (inl 2); ObMsg [97; 98; 99] (Some RETransFail)].
Proof. vm_compute. reflexivity. Qed.


(* ---- the same for streams with COMPRESSED messages, for EVERY inflater ----
   A valid stream on a connection with permessage-deflate (compressed and uncompressed messages mixed, any fragmentation, control
   frames anywhere, both roles, both takeover settings) is cut at ANY byte offset and the transport ends.  Every message received
   completely is delivered exactly as in the uncut stream; then exactly one call fails: the Reader call, or the read of the
   message during which the transport ended — NEVER with a clean end.  For a compressed message the application gets what the
   inflater makes of the raw payload received so far (without the 00 00 ff ff tail, with the right dictionary) and then the
   transport's error (or the inflater's complaint). *)
Theorem C04_no_silent_truncation_compressed : forall cfg inflate co ms sizes cut e,
  rc_co cfg = Some co -> Forall (fun zm => wf_smsg (zm_m zm)) ms ->
  all_inflate_ok inflate (reader_takeover (rc_role cfg) co) [] ms = true ->
  length sizes = length ms -> Forall (fun n => 0 < n)%nat sizes -> e <> EOpen ->
  let masked := role_eqb (rc_role cfg) Server in
  let tk := reader_takeover (rc_role cfg) co in
  let stream := enc_zscript masked ms in
  (cut < length stream)%nat ->
  let r := run cfg inflate (-1)%Z (firstn cut stream) e (read_ops sizes) in
  exists k zm rest, ms = firstn k ms ++ zm :: rest /\ length (firstn k ms) = k /\
    (fst r = expected_zobs inflate tk [] (firstn k ms) ++ [ObReader (inr (end_err_of e))]
     \/ exists d err,
          fst r = expected_zobs inflate tk [] (firstn k ms) ++ [ObReader (inl (sm_typ (zm_m zm))); ObMsg d (Some err)] /\
          cut_outcome inflate e (dict_after inflate tk [] (firstn k ms)) zm d err).
Proof. exact reader_cut_zstream. Qed.
Print Assumptions C04_no_silent_truncation_compressed.
