(* C18 — NetConn is a faithful byte stream with correct EOF, type check and deadlines.
   Statements only; proofs in Proofs/NetConnP.v and Proofs/NetConnEofP.v. *)
From Coq Require Import List NArith ZArith Bool.
From WS Require Import Base.Words Gen.Consts Gen.ReadCode Model.NetConn Proofs.NetConnP Proofs.NetConnEofP Proofs.GenTieP.
Import ListNotations.

(* the byte stream: whatever the write sizes (one message per Write, empty messages included) and whatever the positive
   read-buffer sizes, successive Reads return, in order, exactly the bytes written — nothing lost, duplicated or reordered —
   every data result is non-empty, and a Read blocks only when everything pending has been returned *)
Theorem C18_stream : forall sizes s, Forall (fun n => 0 < n)%nat sizes -> nc_eofed s = false -> all_msgs s ->
  let '(os, s') := nc_reads s sizes in
  exists rest, pending s = concat (map nres_bytes os) ++ rest /\ Forall (fun o => match o with NData d => d <> [] | NBlock => True | _ => False end) os /\
               (In NBlock os -> rest = []).
Proof. exact nc_stream. Qed.
Print Assumptions C18_stream.

Theorem C18_eof : forall s code r n, nc_eofed s = false -> nc_cur s = None -> nc_in s = NClose code :: r ->
  (code = c_StatusNormalClosure \/ code = c_StatusGoingAway) ->
  let '(o, s') := nc_read 3 s n in o = NEOF /\ nc_eofed s' = true /\ forall n' f, fst (nc_read (S f) s' n') = NEOF.
Proof. exact nc_eof. Qed.
Print Assumptions C18_eof.

Theorem C18_other_close : forall s code r n, nc_eofed s = false -> nc_cur s = None -> nc_in s = NClose code :: r ->
  code <> c_StatusNormalClosure -> code <> c_StatusGoingAway -> fst (nc_read 3 s n) = NErrClose code.
Proof. exact nc_other_close. Qed.
Print Assumptions C18_other_close.

Theorem C18_wrong_type : forall s t p r n, nc_eofed s = false -> nc_cur s = None -> nc_in s = NMsg t p :: r -> t <> nc_typ s ->
  let '(o, s') := nc_read 3 s n in o = NErrType /\ nc_closed1003 s' = true.
Proof. exact nc_wrong_type. Qed.
Print Assumptions C18_wrong_type.

(* a deadline that passes while no call is active: later calls fail with the deadline error, the connection is untouched,
   and resetting the deadline makes the side usable again *)
Theorem C18_deadline_idle : forall s, dl_busy s = false ->
  let s1 := fst (dl_step s DFire) in
  dl_expired s1 = true /\ dl_cancelled s1 = dl_cancelled s /\ snd (dl_step s1 DCallStart) = DDeadlineErr /\ fst (dl_step s1 DCallStart) = s1 /\
  snd (dl_step (fst (dl_step s1 DSet)) DCallStart) = DOk.
Proof. exact dl_idle. Qed.
Print Assumptions C18_deadline_idle.

(* a deadline that fires during an active call cancels that side's context: the call fails and the connection closes (C10) *)
Theorem C18_deadline_active : forall s, dl_busy s = true -> dl_cancelled (fst (dl_step s DFire)) = true.
Proof. exact dl_active. Qed.
Print Assumptions C18_deadline_active.

Example C18_nonvacuous :
  let s := nc_init 2 [NMsg 2 [1;2;3]%N; NMsg 2 []; NMsg 2 [4]%N; NClose 1000] in
  map nres_bytes (fst (nc_reads s [2; 2; 2; 2]%nat)) = [[1;2]; [3]; [4]; []]%N /\ fst (nc_read 9 (snd (nc_reads s [2; 2; 2]%nat)) 5) = NEOF.
Proof. vm_compute. split; reflexivity. Qed.

(* CONVERSE: a clean end of stream is reported ONLY for a normal / going-away Close frame — never for a failure of the connection
   (a dropped transport, a protocol error, a context that ended), another close code or a message of the wrong type. *)
Theorem C18_eof_only_after_normal_close : forall fuel s n s',
  nc_eofed s = false -> nc_read fuel s n = (NEOF, s') ->
  exists pre code r,
    nc_in s = pre ++ NClose code :: r /\
    (code = c_StatusNormalClosure \/ code = c_StatusGoingAway) /\
    Forall (fun i => i = NMsg (nc_typ s) []) pre /\
    (nc_cur s = None \/ nc_cur s = Some []) /\
    nc_in s' = r /\ nc_eofed s' = true.
Proof. exact nc_eof_only_after_normal_close. Qed.
Print Assumptions C18_eof_only_after_normal_close.

(* ... so over ANY sequence of reads of a connection that never receives such a Close frame, io.EOF is never returned *)
Theorem C18_fail_never_eof : forall calls s, no_normal_close (nc_in s) -> nc_eofed s = false -> ~ In NEOF (fst (nc_run s calls)).
Proof. exact nc_fail_never_eof_run. Qed.
Print Assumptions C18_fail_never_eof.

(* tie to the source by translation: a Read that meets the peer's Close frame returns io.EOF exactly for the codes in the
   `case` list of netConn.read's switch on CloseStatus(err) (netconn.go, regenerated into Gen/ReadCode.v on every run) *)
Theorem C18_eof_codes_are_source : forall f typ r n code closed,
  fst (nc_read (S f) {| nc_typ := typ; nc_cur := None; nc_eofed := false; nc_in := NClose code :: r; nc_closed1003 := closed |} n)
  = (if gen_netconn_eof code then NEOF else NErrClose code).
Proof. exact netconn_eof_read_is_source. Qed.
Print Assumptions C18_eof_codes_are_source.
