(* C03 — Inbound frame streams decode exactly; violations are rejected; never a panic.
   Statements only; proofs in Proofs/ReaderP.v, Proofs/FrameP.v (and Proofs/ReaderRefP.v for whole streams). *)
From Coq Require Import List NArith ZArith Bool.
From WS Require Import Base.Words Gen.Consts Model.Mask Model.Frame Model.Proto Model.CloseCodec Model.RefDecoder Model.Reader
  Model.Script Proofs.FrameP Proofs.ReaderP Proofs.ReaderRefP.
Import ListNotations.
Open Scope N_scope.

(* VALID STREAMS DECODE EXACTLY.  For every sequence of messages a conformant peer may send — arbitrary fragmentation
   including empty fragments, all three length encodings, every frame masked with its own key iff the sender is a client,
   any number of Ping / Pong frames before any fragment — for BOTH roles, every sequence of positive caller buffer sizes,
   and whatever the transport does after the last byte: the read side hands the application exactly the sender's messages
   (type, payload, order), each with a clean end; it has written exactly one Pong per Ping with the identical payload, in
   order; it has noted exactly the Pongs received; the stream is consumed and the connection is still open.
   (Uncompressed messages; no read limit.  Compressed messages are tied by the correspondence with the inflate oracle.) *)
Theorem C03_valid : forall cfg inflate ms sizes e,
  Forall wf_smsg ms -> length sizes = length ms -> Forall (fun n => 0 < n)%nat sizes ->
  let masked := role_eqb (rc_role cfg) Server in
  let r := run cfg inflate (-1)%Z (enc_script masked ms) e (read_ops sizes) in
  fst r = expected_obs ms /\ r_replies (snd r) = expected_pongs_written ms /\
  r_pongs (snd r) = expected_pong_notes ms /\ r_inq (snd r) = [] /\ r_closed (snd r) = false.
Proof. exact reader_valid_stream. Qed.
Print Assumptions C03_valid.

(* Every header-level violation of the property's list — reserved bit (RSV2, RSV3, RSV1 when compression was not
   negotiated or not on a text/binary frame), wrong masking for the receiver's role (BOTH directions), reserved
   opcode, control frame longer than 125 bytes or fragmented — makes readLoop fail, in EVERY state and whatever
   follows on the wire: the frame is never handed to the message layer, so its data is never delivered. *)
Theorem C03_violation_rejected : forall cfg fuel s h rest, r_closed s = false -> dec_hdr (r_inq s) = DecOk h rest ->
  hdr_violation cfg h = true -> exists s', read_loop cfg (S fuel) s = Err REOther s'.
Proof. exact read_loop_rejects. Qed.
Print Assumptions C03_violation_rejected.

(* a 64-bit length with the top bit set is rejected while decoding the header *)
Theorem C03_length_topbit : forall b0 b1 eb rest, b1 mod 128 = 127 -> length eb = 8%nat -> 9223372036854775808 <= be_val eb ->
  dec_hdr (b0 :: b1 :: eb ++ rest) = DecNeg.
Proof. exact dec_hdr_topbit. Qed.
Print Assumptions C03_length_topbit.

(* a malformed Close payload (a single byte, or a status code that may not appear on the wire) fails the read *)
Theorem C03_close_malformed : forall s h raw rest, r_closed s = false ->
  h_opc h = 8 -> h_fin h = true -> h_plen h <= 125 ->
  take_n (N.to_nat (h_plen h)) (r_inq s) = Some (raw, rest) ->
  parse_close (if h_masked h then mask_spec (h_key h) raw else raw) = None ->
  exists s', handle_control s h = Err REOther s'.
Proof. exact close_malformed. Qed.
Print Assumptions C03_close_malformed.

(* whatever a sender's header encoder produces is decoded back exactly (all three length classes, both maskings) *)
Theorem C03_hdr_roundtrip : forall h rest, wf_hdr h -> dec_hdr (enc_hdr h ++ rest) = DecOk h rest.
Proof. exact dec_enc. Qed.
Print Assumptions C03_hdr_roundtrip.

(* non-vacuity: a masked text frame sent to a CLIENT is a violation and is rejected (the case the unfixed
   library accepted: fixed in /repo by "fix: reject masked frames received by a client") *)
Example C03_nonvacuous :
  let cfg := {| rc_role := Client; rc_co := None |} in
  let s := r_init 32769 [129; 131; 1; 2; 3; 4; 105; 107; 106] EEof in
  exists h rest, dec_hdr (r_inq s) = DecOk h rest /\ hdr_violation cfg h = true /\
    match read_loop cfg 5 s with Err REOther _ => True | _ => False end.
Proof. eexists. eexists. vm_compute. repeat split. Qed.
