(* C03 — Inbound frame streams decode exactly; violations are rejected; never a panic.
   Statements only; proofs in Proofs/ReaderP.v, Proofs/FrameP.v, and for whole streams Proofs/ReaderRefP.v (valid), Proofs/ReaderZP.v
   (valid, with compressed messages, every inflater), Proofs/ReaderViolP.v (first violation). *)
From Coq Require Import List NArith ZArith Bool.
From WS Require Import Base.Words Gen.Consts Model.Mask Model.Frame Model.Proto Model.CloseCodec Model.RefDecoder Model.Reader
  Model.Script Model.ScriptZ Proofs.FrameP Proofs.ReaderP Proofs.ReaderRefP Proofs.ReaderZP Proofs.ReaderCutP Proofs.ReaderViolP Proofs.ReaderSeqViolP Gen.FrameCode Gen.ReadCode Proofs.GenTieP.
Import ListNotations.
Open Scope N_scope.

(* VALID STREAMS DECODE EXACTLY.  For every sequence of messages a conformant peer may send — arbitrary fragmentation
   including empty fragments, all three length encodings, every frame masked with its own key iff the sender is a client,
   any number of Ping / Pong frames before any fragment — for BOTH roles, every sequence of positive caller buffer sizes,
   and whatever the transport does after the last byte: the read side hands the application exactly the sender's messages
   (type, payload, order), each with a clean end; it has written exactly one Pong per Ping with the identical payload, in
   order; it has noted exactly the Pongs received; the stream is consumed and the connection is still open.
   (Uncompressed messages; no read limit.  Compressed messages are tied by the correspondence with the inflate oracle.) *)
Theorem C03_valid : forall cfg inflate ms sizes e,
  Forall wf_smsg ms -> length sizes = length ms -> Forall (fun n => 0 < n)%nat sizes ->
  let masked := role_eqb (rc_role cfg) Server in
  let r := run cfg inflate (-1)%Z (enc_script masked ms) e (read_ops sizes) in
  fst r = expected_obs ms /\ r_replies (snd r) = expected_pongs_written ms /\
  r_pongs (snd r) = expected_pong_notes ms /\ r_inq (snd r) = [] /\ r_closed (snd r) = false.
Proof. exact reader_valid_stream. Qed.
Print Assumptions C03_valid.

(* Every header-level violation of the property's list — reserved bit (RSV2, RSV3, RSV1 when compression was not
   negotiated or not on a text/binary frame), wrong masking for the receiver's role (BOTH directions), reserved
   opcode, control frame longer than 125 bytes or fragmented — makes readLoop fail, in EVERY state and whatever
   follows on the wire: the frame is never handed to the message layer, so its data is never delivered. *)
Theorem C03_violation_rejected : forall cfg fuel s h rest, r_closed s = false -> dec_hdr (r_inq s) = DecOk h rest ->
  hdr_violation cfg h = true -> exists s', read_loop cfg (S fuel) s = Err REOther s'.
Proof. exact read_loop_rejects. Qed.
Print Assumptions C03_violation_rejected.

(* a 64-bit length with the top bit set is rejected while decoding the header *)
Theorem C03_length_topbit : forall b0 b1 eb rest, b1 mod 128 = 127 -> length eb = 8%nat -> 9223372036854775808 <= be_val eb ->
  dec_hdr (b0 :: b1 :: eb ++ rest) = DecNeg.
Proof. exact dec_hdr_topbit. Qed.
Print Assumptions C03_length_topbit.

(* a malformed Close payload (a single byte, or a status code that may not appear on the wire) fails the read *)
Theorem C03_close_malformed : forall s h raw rest, r_closed s = false ->
  h_opc h = 8 -> h_fin h = true -> h_plen h <= 125 ->
  take_n (N.to_nat (h_plen h)) (r_inq s) = Some (raw, rest) ->
  parse_close (if h_masked h then mask_spec (h_key h) raw else raw) = None ->
  exists s', handle_control s h = Err REOther s'.
Proof. exact close_malformed. Qed.
Print Assumptions C03_close_malformed.

(* whatever a sender's header encoder produces is decoded back exactly (all three length classes, both maskings) *)
Theorem C03_hdr_roundtrip : forall h rest, wf_hdr h -> dec_hdr (enc_hdr h ++ rest) = DecOk h rest.
Proof. exact dec_enc. Qed.
Print Assumptions C03_hdr_roundtrip.

(* non-vacuity: a masked text frame sent to a CLIENT is a violation and is rejected (the case the unfixed
   library accepted: fixed in /repo by "fix: reject masked frames received by a client") *)
Example C03_nonvacuous :
  let cfg := {| rc_role := Client; rc_co := None |} in
  let s := r_init 32769 [129; 131; 1; 2; 3; 4; 105; 107; 106] EEof in
  exists h rest, dec_hdr (r_inq s) = DecOk h rest /\ hdr_violation cfg h = true /\
    match read_loop cfg 5 s with Err REOther _ => True | _ => False end.
Proof. eexists. eexists. vm_compute. repeat split. Qed.


(* ---- whole streams with COMPRESSED messages, for EVERY inflater (the inflater is a parameter of the model) ----
   For every valid stream on a connection that negotiated permessage-deflate — compressed and uncompressed messages mixed, any
   fragmentation, Ping / Pong frames anywhere incl. inside compressed messages, any read-buffer sizes, both roles, with and
   without context takeover — the reader hands the inflater exactly the concatenated payload of the message plus 00 00 ff ff
   with exactly the dictionary RFC 7692 prescribes (the last window of what compressed messages delivered, or nothing), and
   delivers exactly what the inflater returns. *)
Theorem C03_valid_compressed : forall cfg inflate co ms sizes e,
  rc_co cfg = Some co ->
  Forall (fun zm => wf_smsg (zm_m zm)) ms ->
  all_inflate_ok inflate (reader_takeover (rc_role cfg) co) [] ms = true ->
  length sizes = length ms -> Forall (fun n => 0 < n)%nat sizes ->
  let masked := role_eqb (rc_role cfg) Server in
  let r := run cfg inflate (-1)%Z (enc_zscript masked ms) e (read_ops sizes) in
  fst r = expected_zobs inflate (reader_takeover (rc_role cfg) co) [] ms /\
  r_replies (snd r) = expected_pongs_written (map zm_m ms) /\
  r_pongs (snd r) = expected_pong_notes (map zm_m ms) /\
  r_inq (snd r) = [] /\ r_closed (snd r) = false.
Proof. exact reader_valid_zstream. Qed.
Print Assumptions C03_valid_compressed.

(* ---- the FIRST VIOLATION in a stream ----
   Valid messages, then a frame whose header breaks the protocol (a reserved bit, a reserved opcode, masking wrong for the role,
   a control frame longer than 125 bytes or fragmented), then ANYTHING: the application gets exactly the valid messages, the next
   Reader call fails, nothing behind the violating header is read, and a Close frame with status 1002 is written after the Pongs
   (unless the only fault is the masking: then the read fails without a Close frame), whatever the application does next. *)
Theorem C03_first_violation : forall cfg inflate ms sizes h tail e more,
  rc_co cfg = None ->
  Forall wf_smsg ms -> length sizes = length ms -> Forall (fun n => 0 < n)%nat sizes ->
  wf_hdr h -> hdr_violation cfg h = true ->
  let masked := role_eqb (rc_role cfg) Server in
  let stream := enc_script masked ms ++ enc_hdr h ++ tail in
  let r := run cfg inflate (-1)%Z stream e (read_ops sizes ++ OReader :: more) in
  fst r = expected_obs ms ++ [ObReader (inr REOther)] /\
  r_replies (snd r) = expected_pongs_written ms ++
     (if h_rsv1 h || h_rsv2 h || h_rsv3 h || Bool.eqb (h_masked h) masked then [RpClose c_StatusProtocolError None] else []) /\
  r_pongs (snd r) = expected_pong_notes ms /\
  r_inq (snd r) = tail /\
  r_closed (snd r) = false.
Proof. exact reader_first_violation. Qed.
Print Assumptions C03_first_violation.

(* the same with the violating header INSIDE an unfinished fragmented message (after any valid control frames): the fragments
   received so far are handed out and the read of the message fails *)
Theorem C03_first_violation_mid : forall cfg inflate ms sizes t f0 fs n cs h tail e more,
  Forall wf_smsg ms -> length sizes = length ms -> Forall (fun n => 0 < n)%nat sizes ->
  (t = 1 \/ t = 2) -> wf_frag f0 -> Forall wf_frag fs -> (0 < n)%nat ->
  Forall wf_ctl cs -> wf_hdr h -> hdr_violation cfg h = true ->
  let masked := role_eqb (rc_role cfg) Server in
  let stream := enc_script masked ms ++ enc_open_msg masked t f0 fs ++ concat (map (enc_ctl masked) cs) ++ enc_hdr h ++ tail in
  let r := run cfg inflate (-1)%Z stream e (read_ops sizes ++ OReader :: OReadAllN n :: more) in
  fst r = expected_obs ms ++ [ObReader (inl t); ObMsg (bodies (f0 :: fs)) (Some REOther)] /\
  r_replies (snd r) = expected_pongs_written ms ++ pw (ctls (f0 :: fs)) ++ pw cs ++ viol_replies cfg h /\
  r_pongs (snd r) = expected_pong_notes ms ++ pn (ctls (f0 :: fs)) ++ pn cs /\
  r_inq (snd r) = tail /\ r_closed (snd r) = false /\ r_close_sent (snd r) = closes_1002 cfg h.
Proof. exact reader_first_violation_mid. Qed.
Print Assumptions C03_first_violation_mid.


(* ---- SEQUENCE violations (headers that are fine in themselves) ----
   (S1) a continuation frame when no message is in progress, after valid messages and any valid control frames: the Reader call
   fails, Close 1002 is written after the Pongs, only the offending frame's header is consumed. *)
Theorem C03_continuation_without_message : forall cfg inflate ms sizes cs h p tail e more,
  Forall wf_smsg ms -> length sizes = length ms -> Forall (fun n => 0 < n)%nat sizes ->
  Forall wf_ctl cs ->
  let masked := role_eqb (rc_role cfg) Server in
  plain_hdr masked h -> h_opc h = 0 ->
  let stream := enc_script masked ms ++ concat (map (enc_ctl masked) cs) ++ enc_frame (h, p) ++ tail in
  let r := run cfg inflate (-1)%Z stream e (read_ops sizes ++ OReader :: more) in
  fst r = expected_obs ms ++ [ObReader (inr REOther)] /\
  r_replies (snd r) = expected_pongs_written ms ++ pw cs ++ [RpClose c_StatusProtocolError None] /\
  r_pongs (snd r) = expected_pong_notes ms ++ pn cs /\
  r_inq (snd r) = wire masked (h_key h) p ++ tail /\
  r_closed (snd r) = false /\ r_close_sent (snd r) = true.
Proof. exact reader_continuation_without_message. Qed.
Print Assumptions C03_continuation_without_message.

(* (S2) a new text / binary frame while a fragmented message is in progress: the fragments received so far are handed out, the
   read of the message fails, Close 1002 is written. *)
Theorem C03_data_frame_inside_message : forall cfg inflate ms sizes t f0 fs n cs h p tail e more,
  Forall wf_smsg ms -> length sizes = length ms -> Forall (fun n => 0 < n)%nat sizes ->
  (t = 1 \/ t = 2) -> wf_frag f0 -> Forall wf_frag fs -> (0 < n)%nat ->
  Forall wf_ctl cs ->
  let masked := role_eqb (rc_role cfg) Server in
  plain_hdr masked h -> (h_opc h = 1 \/ h_opc h = 2) ->
  let stream := enc_script masked ms ++ enc_open_msg masked t f0 fs ++ concat (map (enc_ctl masked) cs) ++ enc_frame (h, p) ++ tail in
  let r := run cfg inflate (-1)%Z stream e (read_ops sizes ++ OReader :: OReadAllN n :: more) in
  fst r = expected_obs ms ++ [ObReader (inl t); ObMsg (bodies (f0 :: fs)) (Some REOther)] /\
  r_replies (snd r) = expected_pongs_written ms ++ pw (ctls (f0 :: fs)) ++ pw cs ++ [RpClose c_StatusProtocolError None] /\
  r_pongs (snd r) = expected_pong_notes ms ++ pn (ctls (f0 :: fs)) ++ pn cs /\
  r_inq (snd r) = wire masked (h_key h) p ++ tail /\ r_closed (snd r) = false /\ r_close_sent (snd r) = true.
Proof. exact reader_data_frame_inside_message. Qed.
Print Assumptions C03_data_frame_inside_message.

(* ---- tie to the source by translation (Gen/FrameCode.v is regenerated from frame.go / read.go on every run) ---- *)

(* the model's header decoder reads as many bytes of extended length as the switch of readFrameHeader does, refuses
   exactly the 64-bit lengths that are negative as an int64, and the reserved-bit clause of its violation list is
   readRSV1Illegal *)
Theorem C03_length_decoding_is_source : forall l7, l7 < 128 ->
  dec_ext l7 = Z.to_nat (gen_read_ext (Z.of_N l7)).
Proof. exact dec_ext_is_source. Qed.
Print Assumptions C03_length_decoding_is_source.

Theorem C03_negative_length_is_source : forall p, p < 18446744073709551616 ->
  (9223372036854775808 <=? p) = gen_len_refused (as_int64 p).
Proof. exact dec_neg_is_source. Qed.
Print Assumptions C03_negative_length_is_source.

Theorem C03_rsv1_is_source : forall cfg h,
  h_rsv1 h = true -> gen_rsv1_illegal (flate_on cfg) (Z.of_N (h_opc h)) = true -> hdr_violation cfg h = true.
Proof. exact rsv1_source_refused_is_violation. Qed.
Print Assumptions C03_rsv1_is_source.

Theorem C03_model_literals_are_source :
  c_maxControlPayload = 125%Z /\ c_maxCloseReason = 123%Z /\
  c_opContinuation = 0%Z /\ c_opText = 1%Z /\ c_opBinary = 2%Z /\ c_opClose = 8%Z /\ c_opPing = 9%Z /\ c_opPong = 10%Z /\
  c_MessageText = c_opText /\ c_MessageBinary = c_opBinary /\ (c_maxCloseReason + 2 = c_maxControlPayload)%Z.
Proof. exact model_literals_are_source. Qed.
Print Assumptions C03_model_literals_are_source.

(* the whole header-level violation list of the model is: the checks readLoop makes on a decoded header, AS TRANSLATED from
   read.go on this run; a reserved opcode; the checks of handleControl on a control frame, as translated.  A changed
   comparison, bound or parenthesisation in one of those source checks breaks this theorem. *)
Theorem C03_violation_list_is_source : forall cfg h, h_plen h < 9223372036854775808 ->
  hdr_violation cfg h =
    gen_readloop_refused (negb (is_server cfg)) (h_masked h) (h_rsv1 h) (h_rsv2 h) (h_rsv3 h) (gen_rsv1_illegal (flate_on cfg) (Z.of_N (h_opc h)))
    || negb ((h_opc h <=? 2) || ((8 <=? h_opc h) && (h_opc h <=? 10)))
    || (is_control (h_opc h) && gen_control_refused (Z.of_N (h_plen h)) (h_fin h)).
Proof. exact hdr_violation_is_source. Qed.
Print Assumptions C03_violation_list_is_source.

(* of readLoop's refusals exactly those whose source branch calls writeError put a Close 1002 on the wire in the model too *)
Theorem C03_refusal_with_close_is_source : forall cfg fuel s h rest, r_closed s = false -> dec_hdr (r_inq s) = DecOk h rest ->
  gen_readloop_closing (negb (is_server cfg)) (h_masked h) (h_rsv1 h) (h_rsv2 h) (h_rsv3 h) (gen_rsv1_illegal (flate_on cfg) (Z.of_N (h_opc h))) = true ->
  read_loop cfg (S fuel) s = Err REOther (write_error (set_inq s rest) c_StatusProtocolError).
Proof. exact readloop_closing_is_source. Qed.
Print Assumptions C03_refusal_with_close_is_source.

Theorem C03_silent_refusal_is_source : forall cfg fuel s h rest, r_closed s = false -> dec_hdr (r_inq s) = DecOk h rest ->
  gen_readloop_closing (negb (is_server cfg)) (h_masked h) (h_rsv1 h) (h_rsv2 h) (h_rsv3 h) (gen_rsv1_illegal (flate_on cfg) (Z.of_N (h_opc h))) = false ->
  gen_readloop_refused (negb (is_server cfg)) (h_masked h) (h_rsv1 h) (h_rsv2 h) (h_rsv3 h) (gen_rsv1_illegal (flate_on cfg) (Z.of_N (h_opc h))) = true ->
  read_loop cfg (S fuel) s = Err REOther (set_inq s rest).
Proof. exact readloop_silent_refusal_is_source. Qed.
Print Assumptions C03_silent_refusal_is_source.
