(* C07 — Connections are isolated: pooled buffers never leak data between connections.
   Statements only; proofs in Proofs/PoolsP.v and Proofs/WinPoolP.v. *)
From Coq Require Import List Arith Bool NArith.
From WS Require Import Base.Words Model.Proto Model.Pools Proofs.PoolsP Model.WinPool Proofs.WinPoolP.
Import ListNotations.

(* For EVERY history of operations on any number of connections sharing the pool — starting compressed or plain messages,
   reading, reading AGAIN after the end of a message, abandoning a message, closing from anywhere (also from underneath a
   Read, when the peer's Close frame arrives in the middle of a compressed message), new connections taking objects out of
   the pool in any order: whenever a Read goes through a pooled flate reader, the reading connection holds that object, no
   other connection holds it, and it is not in the pool. *)
Theorem C07_no_use_after_put : forall ops s' uses, prun pinit ops = Some (s', uses) ->
  forall pre op post s1 u1 s2 u2, ops = pre ++ op :: post -> prun pinit pre = Some (s1, u1) -> pstep s1 op = Some (s2, u2) ->
  forall c o, In (Use c o) u2 -> p_fr (p_conns s1 c) = Some o /\ (forall c', p_fr (p_conns s1 c') = Some o -> c' = c) /\ ~ In o (p_free s1).
Proof. exact pools_isolated. Qed.
Print Assumptions C07_no_use_after_put.

(* the historical witness (A reads to the end, B takes the object from the pool, A reads again) — in the repaired model A's
   second read no longer goes through the object: the only uses are A's first and B's *)
Example C07_witness :
  match prun pinit [PStart 0 7; PRead 0; PEof 0; PStart 1 7; PRead 0; PRead 1] with
  | Some (_, uses) => uses = [Use 0 7; Use 1 7]
  | None => False
  end.
Proof. vm_compute. reflexivity. Qed.

(* and taking an object somebody still holds is impossible *)
Example C07_no_double_get : prun pinit [PStart 0 7; PStart 1 7] = None.
Proof. vm_compute. reflexivity. Qed.

(* ---- the pooled sliding windows (compress.go swPool), modelled with their backing arrays (Model/WinPool.v) ---- *)

(* For EVERY history of any number of connections taking, filling and returning sliding windows — the pool handing out any
   array it has, or none — the dictionary a connection gives its inflater is the last [cap] bytes of what that connection
   ITSELF wrote since it took its window: a function of its own operations alone (own_of ... (wproj c ops)). *)
Theorem C07_window_own_bytes : forall cap ops s, wrun cap winit ops = Some s ->
  forall c, wdict s c = lastn cap (own_of false [] (wproj c ops)).
Proof. exact win_dict_own_bytes. Qed.
Print Assumptions C07_window_own_bytes.

(* non-interference: alone in the process (every array new) the connection ends with the same dictionary *)
Theorem C07_window_noninterference : forall cap ops s c, wrun cap winit ops = Some s ->
  exists s', wrun cap winit (wproj c ops) = Some s' /\ wdict s' c = wdict s c.
Proof. exact win_noninterference. Qed.
Print Assumptions C07_window_noninterference.

(* a pooled window shows nothing, and every array keeps its capacity (the in-place append of slidingWindow.write stays inside it) *)
Theorem C07_pooled_windows_show_nothing : forall cap ops s, wrun cap winit ops = Some s ->
  forall a w, In (a, w) (ws_pool s) -> w_vis w = [].
Proof. exact win_pooled_show_nothing. Qed.
Print Assumptions C07_pooled_windows_show_nothing.

Theorem C07_window_arrays_have_cap : forall cap ops s, wrun cap winit ops = Some s ->
  (forall c a w, ws_conn s c = Some (a, w) -> length (w_vis w) + length (w_junk w) = cap) /\
  (forall a w, In (a, w) (ws_pool s) -> length (w_vis w) + length (w_junk w) = cap).
Proof. exact win_arrays_have_cap. Qed.
Print Assumptions C07_window_arrays_have_cap.

(* not vacuous: connection 1 takes the array connection 0 filled and returned — the array still holds 0's bytes, the
   dictionary is empty, and after 1's own write it is exactly that write *)
Example C07_window_stale_bytes_invisible :
  match wrun 4 winit [WinGet 0 7; WinWrite 0 [1; 2; 3]%N; WinPut 0; WinGet 1 7] with
  | Some s => warray s 1 = [1; 2; 3; 0]%N /\ wdict s 1 = []
  | None => False
  end.
Proof. vm_compute. split; reflexivity. Qed.

Example C07_window_own_write_only :
  match wrun 4 winit [WinGet 0 7; WinWrite 0 [1; 2; 3]%N; WinPut 0; WinGet 1 7; WinWrite 1 [9; 8]%N] with
  | Some s => wdict s 1 = [9; 8]%N /\ warray s 1 = [9; 8; 3; 0]%N
  | None => False
  end.
Proof. vm_compute. split; reflexivity. Qed.
