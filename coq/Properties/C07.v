(* C07 — Connections are isolated: pooled buffers never leak data between connections.
   Statements only; proofs in Proofs/PoolsP.v. *)
From Coq Require Import List Arith Bool.
From WS Require Import Model.Pools Proofs.PoolsP.
Import ListNotations.

(* For EVERY history of operations on any number of connections sharing the pool — starting compressed or plain messages,
   reading, reading AGAIN after the end of a message, abandoning a message, closing from anywhere (also from underneath a
   Read, when the peer's Close frame arrives in the middle of a compressed message), new connections taking objects out of
   the pool in any order: whenever a Read goes through a pooled flate reader, the reading connection holds that object, no
   other connection holds it, and it is not in the pool. *)
Theorem C07_no_use_after_put : forall ops s' uses, prun pinit ops = Some (s', uses) ->
  forall pre op post s1 u1 s2 u2, ops = pre ++ op :: post -> prun pinit pre = Some (s1, u1) -> pstep s1 op = Some (s2, u2) ->
  forall c o, In (Use c o) u2 -> p_fr (p_conns s1 c) = Some o /\ (forall c', p_fr (p_conns s1 c') = Some o -> c' = c) /\ ~ In o (p_free s1).
Proof. exact pools_isolated. Qed.
Print Assumptions C07_no_use_after_put.

(* the historical witness (A reads to the end, B takes the object from the pool, A reads again) — in the repaired model A's
   second read no longer goes through the object: the only uses are A's first and B's *)
Example C07_witness :
  match prun pinit [PStart 0 7; PRead 0; PEof 0; PStart 1 7; PRead 0; PRead 1] with
  | Some (_, uses) => uses = [Use 0 7; Use 1 7]
  | None => False
  end.
Proof. vm_compute. reflexivity. Qed.

(* and taking an object somebody still holds is impossible *)
Example C07_no_double_get : prun pinit [PStart 0 7; PStart 1 7] = None.
Proof. vm_compute. reflexivity. Qed.
