(* C11 — Accept upgrades only valid WebSocket requests and answers them correctly.
   Statements only; proofs in Proofs/HandshakeP.v, Proofs/Base64P.v, Proofs/Sha1P.v. *)
From Coq Require Import List NArith ZArith Bool.
From WS Require Import Base.Words Gen.Consts Gen.AcceptCode Model.Proto Model.Fold Model.Base64 Model.Sha1 Model.Origin Model.Handshake
  Proofs.Base64P Proofs.Sha1P Proofs.HandshakeP Proofs.GenTieP Model.HsCompose Gen.HeaderCode Proofs.GenTie2P Gen.ParseCode.
Import ListNotations.

(* Accept answers 101 (and takes the connection over) exactly for the requests the property describes: GET, HTTP/1.1 or
   later, Connection containing the token upgrade, Upgrade containing websocket (case-insensitively, any token position,
   several header lines), Sec-WebSocket-Version 13, exactly one Sec-WebSocket-Key that decodes to 16 bytes — and an
   authorised origin (C12) *)
Theorem C11_iff : forall r o, ar_status (accept_decide r o) = 101%nat <-> (valid_ws_request r /\ origin_ok r o).
Proof. exact accept_iff. Qed.
Print Assumptions C11_iff.

(* every other request receives an HTTP error status (426 / 405 / 400 / 403) and nothing is negotiated or taken over *)
Theorem C11_reject : forall r o, ~ (valid_ws_request r /\ origin_ok r o) ->
  (ar_status (accept_decide r o) = 426 \/ ar_status (accept_decide r o) = 405 \/ ar_status (accept_decide r o) = 400 \/ ar_status (accept_decide r o) = 403)%nat
  /\ ar_copts (accept_decide r o) = None.
Proof. exact accept_reject. Qed.
Print Assumptions C11_reject.

(* Sec-WebSocket-Accept = base64(SHA-1(key ++ GUID)); the GUID constant is regenerated from accept.go on every run *)
Theorem C11_accept_key : forall r o, ar_status (accept_decide r o) = 101%nat ->
  ar_accept (accept_decide r o) = b64_encode (sha1 (hs_get (q_hdrs r) s_SecKey ++ c_keyGUID)).
Proof. exact accept_key_value. Qed.
Print Assumptions C11_accept_key.

(* the subprotocol is the client's spelling of the first server-preferred protocol that the client offered, or none *)
Theorem C11_subprotocol : forall server cps,
  (select_subprotocol server cps = [] /\ (forall sp, In sp server -> find_fold sp cps = None \/ find_fold sp cps = Some []))
  \/ exists pre sp post cp, server = pre ++ sp :: post /\ (forall s', In s' pre -> find_fold s' cps = None) /\
       find_fold sp cps = Some cp /\ select_subprotocol server cps = cp.
Proof. exact select_subprotocol_spec. Qed.
Print Assumptions C11_subprotocol.

Theorem C11_b64_roundtrip : forall d, wf_bytes d -> b64_decode (b64_encode d) = Some d.
Proof. exact b64_decode_encode. Qed.
Print Assumptions C11_b64_roundtrip.

(* the RFC 6455 section 1.3 example: key dGhlIHNhbXBsZSBub25jZQ== gives s3pPLMBiTxaQ9kYGzzhZRbK+xOo= *)
Example C11_rfc_vector : b64_encode (sha1 (sha1_rfc6455_key ++ sha1_rfc6455_guid)) = sha1_rfc6455_accept.
Proof. exact sha1_rfc6455. Qed.

(* tie to the source by translation: the model's request check answers what the chain of checks of verifyClientRequest
   (accept.go, regenerated into Gen/AcceptCode.v on every run) answers — the same checks in the same order with the same
   HTTP status each.  A reordered, dropped or re-coded check in the source breaks this theorem. *)
Theorem C11_checks_are_source : forall r,
  Z.of_nat (verify_client_request r) =
  gen_verify_request (Nat.ltb 1 (q_major r) || (Nat.eqb (q_major r) 1 && Nat.leb 1 (q_minor r)))
    (hs_has_token (q_hdrs r) s_Connection s_Upgrade) (hs_has_token (q_hdrs r) s_Upgrade s_websocket)
    (hs_beq (q_method r) s_GET) (hs_beq (hs_get (q_hdrs r) s_SecVersion) s_13)
    (Z.of_nat (length (hs_values (q_hdrs r) s_SecKey))) (req_key_decodes r) (req_key_len r).
Proof. exact verify_client_request_is_source. Qed.
Print Assumptions C11_checks_are_source.

(* the answer of an upgrading Accept — status and headers, in the source's order and under its conditions, as net/http stores them —
   is what accept (accept.go) writes, translated into Gen/HeaderCode.v on every run *)
Theorem C11_response_is_source : forall a, ar_status a = Z.to_nat gen_accept_status ->
  lib_response a =
  {| p_status := Z.to_nat gen_accept_status;
     p_hdrs := as_headers (gen_accept_headers (ar_accept a) (ar_subproto a)
                 (match ar_subproto a with [] => false | _ => true end)
                 (match ar_copts a with Some _ => true | None => false end)
                 (match ar_copts a with Some c => gen_render_copts (cnct c) (snct c) | None => [] end)) |}.
Proof. exact lib_response_is_source. Qed.
Print Assumptions C11_response_is_source.

(* the subprotocol is chosen the way selectSubprotocol (accept.go, Gen/ParseCode.v) walks the two lists — the server's preference outside,
   the client's tokens inside — and the spelling it returns is the one the source returns; the tokens are cut the way headerTokens cuts them *)
Theorem C11_subprotocol_selection_is_source : forall server cps,
  select_subprotocol server cps = run_subprotocol gen_subprotocol_pick server cps.
Proof. exact select_subprotocol_is_source. Qed.
Print Assumptions C11_subprotocol_selection_is_source.

Theorem C11_tokens_are_source : forall h k,
  hs_tokens h k = flat_map (fun v => map hs_trim (hs_split gen_token_sep (hs_trim v) [])) (hs_values h k).
Proof. exact hs_tokens_is_source. Qed.
Print Assumptions C11_tokens_are_source.
