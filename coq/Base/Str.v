(* Base/Str.v — the string operations the regenerated decision code (Gen/NegoCode.v) is written in: Go's ==, strings.HasPrefix
   and strings.TrimPrefix on byte strings.  Executable definitions only. *)
From Coq Require Import List NArith Bool.
Import ListNotations.
Open Scope N_scope.

Fixpoint s_eqb (a b : list N) : bool :=
  match a, b with [], [] => true | x :: a', y :: b' => (x =? y) && s_eqb a' b' | _, _ => false end.

(* Some rest when s starts with p *)
Fixpoint s_strip (p s : list N) : option (list N) :=
  match p, s with [], _ => Some s | x :: p', y :: s' => if x =? y then s_strip p' s' else None | _, _ => None end.

Definition s_has_prefix (s p : list N) : bool := match s_strip p s with Some _ => true | None => false end.   (* strings.HasPrefix(s, p) *)
Definition s_trim_prefix (s p : list N) : list N := match s_strip p s with Some r => r | None => s end.       (* strings.TrimPrefix(s, p) *)
