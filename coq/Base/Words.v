(* Base/Words.v — bytes as list N, little-/big-endian packing, XOR on packed words.
   Shared vocabulary of every model file.  Lemmas here are about the vocabulary only. *)
From Coq Require Import List NArith Lia ZArith ZifyN ZifyNat ZifyBool.
Import ListNotations.
Open Scope N_scope.
Ltac Zify.zify_post_hook ::= Z.div_mod_to_equations.

(* [bytes] MUST be a notation: with a Definition, lia sees [@length bytes x] and
   [@length (list N) x] as different atoms. *)
Notation bytes := (list N).
Definition wf_bytes (b : bytes) := Forall (fun x => x < 256) b.

(* little-endian *)
Fixpoint pack (bs : bytes) : N := match bs with [] => 0 | b :: r => b + 256 * pack r end.
Fixpoint unpack (n : nat) (w : N) : bytes :=
  match n with O => [] | S k => (w mod 256) :: unpack k (w / 256) end.

(* big-endian, fixed width *)
Definition be_bytes (n : nat) (w : N) : bytes := rev (unpack n w).
Definition be_val (bs : bytes) : N := pack (rev bs).

Lemma lxor_mod256 x y : N.lxor x y mod 256 = N.lxor (x mod 256) (y mod 256).
Proof. change 256 with (2^8). rewrite <- !N.land_ones.
  apply N.bits_inj; intro n. rewrite !N.land_spec, !N.lxor_spec, !N.land_spec.
  destruct (N.testbit (N.ones 8) n); rewrite ?Bool.andb_true_r, ?Bool.andb_false_r; reflexivity. Qed.
Lemma lxor_div256 x y : N.lxor x y / 256 = N.lxor (x / 256) (y / 256).
Proof. change 256 with (2^8). rewrite <- !N.shiftr_div_pow2. apply N.shiftr_lxor. Qed.
Lemma lxor_lt256 a c : a < 256 -> c < 256 -> N.lxor a c < 256.
Proof. intros Ha Hc.
  assert (H: N.lxor a c mod 256 = N.lxor a c).
  { rewrite lxor_mod256. rewrite !N.mod_small by assumption. reflexivity. }
  rewrite <- H. apply N.mod_lt. discriminate. Qed.
Lemma lxor_split a b c d : a < 256 -> c < 256 ->
  N.lxor (a + 256 * b) (c + 256 * d) = N.lxor a c + 256 * N.lxor b d.
Proof.
  intros Ha Hc.
  rewrite (N.div_mod' (N.lxor (a + 256 * b) (c + 256 * d)) 256).
  rewrite lxor_mod256, lxor_div256.
  replace ((a + 256*b) mod 256) with a by lia.
  replace ((c + 256*d) mod 256) with c by lia.
  replace ((a + 256*b) / 256) with b by lia.
  replace ((c + 256*d) / 256) with d by lia. lia. Qed.

Fixpoint xor2 (a b : bytes) : bytes :=
  match a, b with x :: a', y :: b' => N.lxor x y :: xor2 a' b' | _, _ => [] end.

Lemma pack_xor a : forall b, length a = length b -> wf_bytes a -> wf_bytes b ->
  N.lxor (pack a) (pack b) = pack (xor2 a b).
Proof. induction a as [|x a IH]; intros [|y b] HL Ha Hb; cbn [pack xor2 length] in *; try discriminate; auto.
  inversion Ha; inversion Hb; subst. rewrite lxor_split by assumption. rewrite IH; auto. Qed.

Lemma unpack_pack l : wf_bytes l -> unpack (length l) (pack l) = l.
Proof. induction l as [|x l IH]; intro H; cbn [pack unpack length]; auto.
  inversion H; subst. f_equal. - lia. - replace ((x + 256 * pack l) / 256) with (pack l) by lia. auto. Qed.

Lemma unpack_length n : forall w, length (unpack n w) = n.
Proof. induction n; intro w; cbn [unpack length]; auto. Qed.

Lemma unpack_wf n : forall w, wf_bytes (unpack n w).
Proof. induction n; intro w; cbn [unpack]; constructor; [apply N.mod_lt; discriminate | apply IHn]. Qed.

Lemma pack_lt l : wf_bytes l -> pack l < 256 ^ N.of_nat (length l).
Proof. induction l as [|x l IH]; intro H; cbn [pack length].
  - cbn. lia.
  - inversion H; subst. specialize (IH H3).
    rewrite Nat2N.inj_succ, N.pow_succ_r'. lia. Qed.

Lemma pack_unpack n : forall w, w < 256 ^ N.of_nat n -> pack (unpack n w) = w.
Proof. induction n as [|n IH]; intros w H.
  - cbn in *. lia.
  - cbn [unpack pack]. rewrite Nat2N.inj_succ, N.pow_succ_r' in H.
    rewrite IH.
    + pose proof (N.div_mod' w 256). lia.
    + apply N.div_lt_upper_bound; lia. Qed.

Lemma xor2_wf a : forall b, wf_bytes a -> wf_bytes b -> wf_bytes (xor2 a b).
Proof. induction a as [|x a IH]; intros [|y b] Ha Hb; cbn [xor2]; try constructor.
  - inversion Ha; inversion Hb; subst. apply lxor_lt256; auto.
  - inversion Ha; inversion Hb; subst. apply IH; auto. Qed.
Lemma xor2_length a : forall b, length a = length b -> length (xor2 a b) = length a.
Proof. induction a as [|x a IH]; intros [|y b] H; cbn [xor2 length] in *; try discriminate; auto. Qed.

(* word xor on the first n bytes, the way Go does Uint64/PutUint64 *)
Definition xor_word (kb : bytes) (w : bytes) : bytes := unpack (length w) (N.lxor (pack w) (pack kb)).
Lemma xor_word_spec kb w : length w = length kb -> wf_bytes w -> wf_bytes kb -> xor_word kb w = xor2 w kb.
Proof. intros HL Hw Hk. unfold xor_word. rewrite pack_xor by auto.
  rewrite <- (xor2_length w kb HL). apply unpack_pack. apply xor2_wf; auto. Qed.

Lemma wf_firstn n (b : bytes) : wf_bytes b -> wf_bytes (firstn n b).
Proof. revert b; induction n; intros b H; cbn; [constructor|]. destruct b; [constructor|]. inversion H; subst. constructor; auto. apply IHn; auto. Qed.
Lemma wf_skipn n (b : bytes) : wf_bytes b -> wf_bytes (skipn n b).
Proof. revert b; induction n; intros b H; cbn; auto. destruct b; auto. inversion H; auto. Qed.
Lemma wf_app (a b : bytes) : wf_bytes a -> wf_bytes b -> wf_bytes (a ++ b).
Proof. intros; apply Forall_app; auto. Qed.
Lemma wf_app_inv (a b : bytes) : wf_bytes (a ++ b) -> wf_bytes a /\ wf_bytes b.
Proof. intro H; apply Forall_app in H; auto. Qed.
Lemma wf_rev (a : bytes) : wf_bytes a -> wf_bytes (rev a).
Proof. intro H. apply Forall_rev; auto. Qed.

Lemma be_bytes_length n w : length (be_bytes n w) = n.
Proof. unfold be_bytes. rewrite rev_length. apply unpack_length. Qed.
Lemma be_bytes_wf n w : wf_bytes (be_bytes n w).
Proof. unfold be_bytes. apply wf_rev, unpack_wf. Qed.
Lemma be_val_bytes n w : w < 256 ^ N.of_nat n -> be_val (be_bytes n w) = w.
Proof. intro H. unfold be_val, be_bytes. rewrite rev_involutive. apply pack_unpack; auto. Qed.
Lemma be_bytes_val l : wf_bytes l -> be_bytes (length l) (be_val l) = l.
Proof. intro H. unfold be_val, be_bytes. rewrite <- (rev_length l). rewrite unpack_pack by (apply wf_rev; auto).
  apply rev_involutive. Qed.
Lemma be_val_lt l : wf_bytes l -> be_val l < 256 ^ N.of_nat (length l).
Proof. intro H. unfold be_val. rewrite <- (rev_length l). apply pack_lt, wf_rev; auto. Qed.

(* ---- bounded takes: O(n) in the number of bytes taken, never in the length of the input ---- *)
Fixpoint take_n (n : nat) (l : bytes) : option (bytes * bytes) :=
  match n with
  | O => Some ([], l)
  | S k => match l with
           | [] => None
           | x :: r => match take_n k r with Some (a, b) => Some (x :: a, b) | None => None end
           end
  end.

Lemma take_n_spec : forall n l, take_n n l = if Nat.leb n (length l) then Some (firstn n l, skipn n l) else None.
Proof. induction n as [|n IH]; intro l; cbn [take_n].
  - reflexivity.
  - destruct l as [|x r]; [reflexivity|]. rewrite IH. cbn [length firstn skipn Nat.leb].
    destruct (Nat.leb n (length r)); reflexivity. Qed.

Lemma take_n_app (a b : bytes) : take_n (length a) (a ++ b) = Some (a, b).
Proof. induction a as [|x a IH]; cbn [length app take_n]; [reflexivity|]. rewrite IH. reflexivity. Qed.

Lemma take_n_some n l a b : take_n n l = Some (a, b) -> l = a ++ b /\ length a = n.
Proof. rewrite take_n_spec. destruct (Nat.leb_spec n (length l)) as [Hle|Hgt]; [|discriminate]. intro Hx; inversion Hx; subst.
  split; [symmetry; apply firstn_skipn | rewrite firstn_length; lia]. Qed.

Lemma take_n_none n l : take_n n l = None -> (length l < n)%nat.
Proof. rewrite take_n_spec. destruct (Nat.leb_spec n (length l)); [discriminate|auto]. Qed.

(* the same with a binary count (declared frame lengths go up to 2^63-1: never converted to nat) *)
Fixpoint take_N (l : bytes) (n : N) : option (bytes * bytes) :=
  if n =? 0 then Some ([], l) else
  match l with
  | [] => None
  | x :: r => match take_N r (N.pred n) with Some (a, b) => Some (x :: a, b) | None => None end
  end.

Lemma take_N_spec : forall l n, take_N l n = if n <=? N.of_nat (length l) then Some (firstn (N.to_nat n) l, skipn (N.to_nat n) l) else None.
Proof. induction l as [|x r IH]; intro n; cbn [take_N].
  - destruct (N.eqb_spec n 0) as [->|Hn]; [reflexivity|]. cbn [length]. destruct (N.leb_spec n (N.of_nat 0)); [lia|reflexivity].
  - destruct (N.eqb_spec n 0) as [->|Hn]; [reflexivity|]. rewrite IH. cbn [length].
    replace (N.to_nat n) with (S (N.to_nat (N.pred n))) by lia. cbn [firstn skipn].
    destruct (N.leb_spec (N.pred n) (N.of_nat (length r))); destruct (N.leb_spec n (N.of_nat (S (length r)))); try lia; reflexivity. Qed.
