(* Proofs/AfterCloseP.v — nothing but Pings and Pongs follows a Close frame, for EVERY program (well-formed or
   not), every role, option set, threshold, key supply and compressor behaviour. *)
From Coq Require Import List NArith Lia ZArith Bool.
From WS Require Import Base.Words Gen.Consts Model.Mask Model.Frame Model.Proto Model.CloseCodec Model.Writer.
Import ListNotations.
Open Scope N_scope.

(* scan a frame list: Some seen = fine so far (seen: a Close frame has gone by); None = a data frame or a second
   Close frame followed a Close frame *)
Fixpoint acs (seen : bool) (fs : list frame) : option bool :=
  match fs with
  | [] => Some seen
  | (h, _) :: r => if seen then (if (h_opc h =? 9) || (h_opc h =? 10) then acs true r else None)
                   else acs (h_opc h =? 8) r
  end.

Definition nothing_after_close (fs : list frame) : Prop := acs false fs <> None.

Lemma acs_app : forall a b seen, acs seen (a ++ b) = match acs seen a with Some sn => acs sn b | None => None end.
Proof. induction a as [|[h p] a IH]; intros b seen; cbn [app acs]; [reflexivity|].
  destruct seen; [destruct ((h_opc h =? 9) || (h_opc h =? 10)); auto | auto]. Qed.

Section AfterClose.
Variable keys : nat -> key.
Variable dz : list dzop -> list bytes.
Variable cfg : wcfg.

Definition AC (s : wst) : Prop := acs false (w_out s) = Some (w_close_sent s).

Lemma write_frame_ac s fin fl opc p : AC s -> AC (write_frame keys cfg s fin fl opc p).
Proof. unfold AC, write_frame. intro H.
  destruct (w_close_sent s) eqn:Ecs; cbn [andb].
  - destruct ((opc =? 9) || (opc =? 10)) eqn:E; cbn [negb]; [|rewrite Ecs; exact H].
    unfold write_frame_raw. cbn [w_out w_close_sent]. rewrite acs_app, H, Ecs. cbn [acs h_opc]. rewrite E. reflexivity.
  - unfold write_frame_raw. cbn [w_out w_close_sent]. rewrite acs_app, H, Ecs. cbn [acs h_opc orb]. reflexivity. Qed.

Lemma mw_frame_ac m p : AC (m_s m) -> AC (m_s (mw_frame keys cfg m p)).
Proof. intro H. unfold mw_frame. cbn [m_s]. apply write_frame_ac; auto. Qed.

Lemma trim_write_ac m p : AC (m_s m) -> AC (m_s (trim_write keys cfg m p)).
Proof. intro H. unfold trim_write. cbv zeta.
  destruct (Nat.leb _ 4); [exact H|].
  match goal with |- context [if Nat.ltb 0 ?e then ?a else ?b] => assert (H1 : AC (m_s (if Nat.ltb 0 e then a else b))) by (destruct (Nat.ltb 0 e); [apply mw_frame_ac|]; auto) end.
  destruct (Nat.leb (length p) 4); [exact H1|]. apply mw_frame_ac. exact H1. Qed.

Lemma fold_trim_ac : forall cs m, AC (m_s m) -> AC (m_s (fold_left (trim_write keys cfg) cs m)).
Proof. induction cs as [|c cs IH]; intros m H; cbn [fold_left]; auto. apply IH, trim_write_ac, H. Qed.

Lemma mw_dz_ac m op : AC (m_s m) -> AC (m_s (mw_dz keys dz cfg m op)).
Proof. intro H. unfold mw_dz. cbv zeta. apply fold_trim_ac. exact H. Qed.

Lemma mw_write_ac m p : AC (m_s m) -> AC (m_s (mw_write keys dz cfg m p)).
Proof. intro H. unfold mw_write. cbv zeta.
  match goal with |- context [if ?c then _ else _] => destruct c end; [apply mw_dz_ac | apply mw_frame_ac]; exact H. Qed.

Lemma fold_mw_write_ac : forall cs m, AC (m_s m) -> AC (m_s (fold_left (mw_write keys dz cfg) cs m)).
Proof. induction cs as [|c cs IH]; intros m H; cbn [fold_left]; auto. apply IH, mw_write_ac, H. Qed.

Lemma mw_close_ac m : AC (m_s m) -> AC (mw_close keys dz cfg m).
Proof. intro H. unfold mw_close. cbv zeta.
  assert (H1 : AC (m_s (if m_flate m then mw_dz keys dz cfg m DFlush else m))) by (destruct (m_flate m); [apply mw_dz_ac|]; auto).
  set (m1 := if m_flate m then mw_dz keys dz cfg m DFlush else m) in *.
  pose proof (write_frame_ac (m_s m1) true (m_flate m1) (m_opc m1) [] H1) as H2.
  unfold AC in *. cbn [w_out w_close_sent]. exact H2. Qed.

Lemma w_step_ac s op : AC s -> AC (w_step keys dz cfg s op).
Proof. intro H. destruct op as [typ p|typ cs|opc p|code reason]; unfold w_step.
  - destruct (wc_co cfg); [apply mw_close_ac, mw_write_ac; exact H | apply write_frame_ac; exact H].
  - apply mw_close_ac, fold_mw_write_ac. exact H.
  - apply write_frame_ac; exact H.
  - destruct (close_payload code reason); [apply write_frame_ac|]; exact H. Qed.

Theorem writer_nothing_after_close : forall prog, nothing_after_close (w_out (w_run keys dz cfg prog)).
Proof. intro prog. unfold nothing_after_close, w_run.
  assert (G : forall prog s, AC s -> AC (fold_left (w_step keys dz cfg) prog s)).
  { induction prog0 as [|op r IH]; intros s H; cbn [fold_left]; auto. apply IH, w_step_ac, H. }
  rewrite (G prog w_init); [discriminate | reflexivity]. Qed.
End AfterClose.
