(* Proofs/HsComposeP.v — a library client and a library server complete the opening handshake, for all options. *)
From Coq Require Import List Arith Bool Lia NArith.
From WS Require Import Base.Words Gen.Consts Model.Proto Model.Fold Model.Base64 Model.Sha1 Model.Origin Model.Handshake Model.HsCompose
  Proofs.HandshakeP Proofs.Base64P.
Import ListNotations.


(* ---------------- auxiliary lemmas ---------------- *)
Local Open Scope N_scope.

(* white space at the ends *)
Definition hc_nsp (s : bytes) : Prop := match s with [] => True | c :: _ => hs_is_space c = false end.

Lemma hc_trim_left_id s : hc_nsp s -> hs_trim_left s = s.
Proof. destruct s as [|c r]; cbn [hc_nsp hs_trim_left]; [reflexivity|]. intro H. rewrite H. reflexivity. Qed.

Lemma hc_trim_left_cases s : hs_trim_left s = s \/ (length (hs_trim_left s) < length s)%nat.
Proof. induction s as [|c r IH]; cbn [hs_trim_left]; [left; reflexivity|].
  destruct (hs_is_space c); [right|left; reflexivity]. cbn [length]. destruct IH as [IH|IH]; [rewrite IH|]; lia. Qed.

Lemma hc_trim_left_le s : (length (hs_trim_left s) <= length s)%nat.
Proof. destruct (hc_trim_left_cases s) as [H|H]; [rewrite H|]; lia. Qed.

Lemma hc_trim_id_inv s : hs_trim s = s -> hs_trim_left s = s /\ hs_trim_left (rev s) = rev s.
Proof. unfold hs_trim. intro H.
  assert (L : length (rev (hs_trim_left (rev (hs_trim_left s)))) = length s) by (rewrite H; reflexivity).
  rewrite rev_length in L.
  destruct (hc_trim_left_cases s) as [A|A].
  - rewrite A in L. split; [exact A|]. destruct (hc_trim_left_cases (rev s)) as [B|B]; [exact B|]. rewrite rev_length in B. lia.
  - exfalso. pose proof (hc_trim_left_le (rev (hs_trim_left s))) as B. rewrite rev_length in B. lia. Qed.

Lemma hc_nsp_of_id s : hs_trim_left s = s -> hc_nsp s.
Proof. destruct s as [|c r]; cbn [hc_nsp hs_trim_left]; [trivial|]. destruct (hs_is_space c); [|reflexivity].
  intro H. exfalso. pose proof (hc_trim_left_le r) as B. rewrite H in B. cbn [length] in B. lia. Qed.

Lemma hc_trim_id s : hc_nsp s -> hc_nsp (rev s) -> hs_trim s = s.
Proof. intros A B. unfold hs_trim. rewrite (hc_trim_left_id s A), (hc_trim_left_id _ B). apply rev_involutive. Qed.

Lemma hc_nsp_app (a b : bytes) : a <> [] -> hc_nsp a -> hc_nsp (a ++ b).
Proof. destruct a as [|c a]; [intro H; contradiction|]. cbn [app hc_nsp]. auto. Qed.

Lemma hc_rev_nil (s : bytes) : rev s = [] -> s = [].
Proof. intro E. apply (f_equal (@rev N)) in E. rewrite rev_involutive in E. exact E. Qed.

(* the joined list *)
Lemma hc_join_cons x y r : hs_join [44] (x :: y :: r) = x ++ [44] ++ hs_join [44] (y :: r).
Proof. reflexivity. Qed.

Lemma hc_join_ne x r : x <> [] -> hs_join [44] (x :: r) <> [].
Proof. intro Hx. destruct r as [|y r]; [cbn [hs_join]; exact Hx|]. rewrite hc_join_cons. destruct x; [contradiction|discriminate]. Qed.

Lemma hc_join_ends : forall l, l <> [] -> Forall clean_token l ->
  hc_nsp (hs_join [44] l) /\ hc_nsp (rev (hs_join [44] l)).
Proof. induction l as [|x r IH]; intros Hne Hc; [contradiction|]. inversion Hc as [|x' r' Hx Hr]; subst.
  destruct Hx as (Hx0 & _ & Hxt). apply hc_trim_id_inv in Hxt. destruct Hxt as (Hx1 & Hx2).
  apply hc_nsp_of_id in Hx1. apply hc_nsp_of_id in Hx2.
  destruct r as [|y r2].
  - cbn [hs_join]. split; assumption.
  - rewrite hc_join_cons. destruct IH as (I1 & I2); [discriminate|exact Hr|]. split.
    + apply hc_nsp_app; assumption.
    + rewrite !rev_app_distr. rewrite <- app_assoc. apply hc_nsp_app; [|exact I2].
      inversion Hr as [|y' r' Hy Hr2]; subst. destruct Hy as (Hy0 & _). intro E. apply hc_rev_nil in E.
      exact (hc_join_ne y r2 Hy0 E). Qed.

(* splitting it again *)
Lemma hc_split_nosep sep : forall x s cur, ~ In sep x -> hs_split sep (x ++ s) cur = hs_split sep s (rev x ++ cur).
Proof. induction x as [|c x IH]; intros s cur Hn; [reflexivity|]. cbn [app hs_split rev].
  destruct (N.eqb_spec c sep) as [E|E]; [exfalso; apply Hn; left; exact E|].
  rewrite IH; [|intro; apply Hn; right; assumption]. rewrite <- app_assoc. reflexivity. Qed.

Lemma hc_split_join : forall r x cur, Forall (fun t => ~ In 44 t) (x :: r) ->
  hs_split 44 (hs_join [44] (x :: r)) cur = (rev cur ++ x) :: r.
Proof. induction r as [|y r IH]; intros x cur H; inversion H as [|? ? Hx Hr]; subst.
  - cbn [hs_join]. pose proof (hc_split_nosep 44 x [] cur Hx) as E. rewrite app_nil_r in E. rewrite E.
    cbn [hs_split]. rewrite rev_app_distr, rev_involutive. reflexivity.
  - rewrite hc_join_cons, hc_split_nosep by exact Hx. cbn [app hs_split]. rewrite N.eqb_refl.
    rewrite IH by exact Hr. rewrite rev_app_distr, rev_involutive. reflexivity. Qed.

Lemma hc_map_trim l : Forall clean_token l -> map hs_trim l = l.
Proof. induction 1 as [|t l Ht Hl IH]; cbn [map]; [reflexivity|]. destruct Ht as (_ & _ & E). rewrite E, IH. reflexivity. Qed.

Lemma hc_tokens_join l : l <> [] -> Forall clean_token l ->
  map hs_trim (hs_split 44 (hs_trim (hs_join [44] l)) []) = l.
Proof. intros Hne Hc. destruct (hc_join_ends l Hne Hc) as (A & B). rewrite (hc_trim_id _ A B).
  destruct l as [|x r]; [contradiction|]. rewrite hc_split_join.
  - cbn [rev app]. apply hc_map_trim. exact Hc.
  - eapply Forall_impl; [|exact Hc]. intros t (_ & H & _). exact H. Qed.

(* base64 text has no white space *)
Lemma hc_space_small c : hs_is_space c = true -> c <= 32.
Proof. unfold hs_is_space. intro H. apply orb_true_iff in H. destruct H as [H|H].
  - apply N.eqb_eq in H. lia.
  - apply andb_true_iff in H. destruct H as (_ & H). apply N.leb_le in H. lia. Qed.

Lemma hc_alpha_big c : b64_is_alpha c = true -> 43 <= c.
Proof. unfold b64_is_alpha. intro H.
  repeat (apply orb_true_iff in H; destruct H as [H|H]);
  try (apply andb_true_iff in H; destruct H as (H & _); apply N.leb_le in H; lia);
  apply N.eqb_eq in H; lia. Qed.

Lemma hc_okc_nsp c : b64_okc c -> hs_is_space c = false.
Proof. intro H. destruct (hs_is_space c) eqn:E; [|reflexivity]. apply hc_space_small in E.
  destruct H as [H|H]; [apply hc_alpha_big in H; lia | lia]. Qed.

Lemma hc_all_nsp s : Forall (fun c => hs_is_space c = false) s -> hc_nsp s.
Proof. destruct 1; cbn [hc_nsp]; auto. Qed.

Lemma hc_trim_b64 d : hs_trim (b64_encode d) = b64_encode d.
Proof. assert (F : Forall (fun c => hs_is_space c = false) (b64_encode d)).
  { eapply Forall_impl; [|apply b64_encode_okc]. intros c Hc. apply hc_okc_nsp. exact Hc. }
  apply hc_trim_id; apply hc_all_nsp; [exact F | apply Forall_rev; exact F]. Qed.

(* EqualFold is reflexive *)
Lemma hc_fold_list_eqb_refl l : fold_list_eqb l l = true.
Proof. induction l as [|x l IH]; cbn [fold_list_eqb]; [reflexivity|]. rewrite N.eqb_refl. exact IH. Qed.
Lemma hc_fold_eq_refl a : fold_eq a a = true.
Proof. unfold fold_eq. apply hc_fold_list_eqb_refl. Qed.

Lemma hc_select_in server cps : select_subprotocol server cps = [] \/ In (select_subprotocol server cps) cps.
Proof. induction server as [|sp r IH]; cbn [select_subprotocol]; [left; reflexivity|].
  destruct (find_fold sp cps) as [cp|] eqn:E; [right; apply find_fold_sound in E; tauto | exact IH]. Qed.

(* the request as Accept sees it *)
Lemma hc_req_tokens o k : Forall clean_token (d_subprotocols o) -> hs_tokens (dial_headers o k) s_SecProtocol = d_subprotocols o.
Proof. unfold hs_tokens. destruct (dial_headers_wf o k) as (_ & _ & _ & _ & E & _). rewrite E.
  destruct (d_subprotocols o) as [|x r]; intro Hc; [reflexivity|]. cbn [flat_map]. rewrite app_nil_r.
  apply hc_tokens_join; [discriminate|exact Hc]. Qed.

Lemma hc_no_origin host o k : origin_hdr (lib_request host o k) = None.
Proof. unfold origin_hdr, lib_request, q_hdrs, dial_headers, dial_offer.
  destruct (d_subprotocols o); destruct (d_mode o); reflexivity. Qed.

Lemma hc_valid host o d : wf_bytes d -> length d = 16%nat -> valid_ws_request (lib_request host o (b64_encode d)).
Proof. intros Hwf Hlen. unfold valid_ws_request. cbn [lib_request q_method q_major q_minor q_hdrs].
  destruct (dial_headers_wf o (b64_encode d)) as (E1 & E2 & E3 & E4 & _).
  split; [reflexivity|]. split; [right; split; [reflexivity|lia]|].
  split. { unfold hs_has_token, hs_tokens. rewrite E1. vm_compute. reflexivity. }
  split. { unfold hs_has_token, hs_tokens. rewrite E2. vm_compute. reflexivity. }
  split. { unfold hs_get. rewrite E3. reflexivity. }
  exists (b64_encode d), d. split; [exact E4|].
  split; [rewrite hc_trim_b64; apply b64_decode_encode; exact Hwf | exact Hlen]. Qed.

Lemma hc_exts_ext h1 h2 : hs_values h1 s_SecExtensions = hs_values h2 s_SecExtensions -> hs_exts h1 = hs_exts h2.
Proof. unfold hs_exts, hs_tokens. intro E. rewrite E. reflexivity. Qed.

Lemma hc_verify_exts_ext offer h1 h2 : hs_exts h1 = hs_exts h2 -> verify_exts offer h1 = verify_exts offer h2.
Proof. unfold verify_exts. intro E. rewrite E. reflexivity. Qed.

Lemma hc_req_exts o k : hs_exts (dial_headers o k) =
  hs_exts (match dial_offer o with Some c => [(s_SecExtensions, [render_copts c])] | None => [] end).
Proof. apply hc_exts_ext. unfold dial_headers. destruct (d_subprotocols o); destruct (dial_offer o); reflexivity. Qed.

Lemma hc_accept host o ao d : wf_bytes d -> length d = 16%nat -> Forall clean_token (d_subprotocols o) ->
  accept_decide (lib_request host o (b64_encode d)) ao =
  {| ar_status := 101; ar_accept := accept_key (b64_encode d);
     ar_subproto := select_subprotocol (a_subprotocols ao) (d_subprotocols o);
     ar_copts := select_deflate (hs_exts (match dial_offer o with Some c => [(s_SecExtensions, [render_copts c])] | None => [] end)) (a_mode ao) |}.
Proof. intros Hwf Hlen Hcl. unfold accept_decide.
  rewrite (proj2 (verify_client_request_iff _) (hc_valid host o d Hwf Hlen)).
  rewrite hc_no_origin. cbn [origin_authenticate]. rewrite andb_false_r. cbn [lib_request q_hdrs].
  rewrite (hc_req_tokens o _ Hcl), hc_req_exts. unfold hs_get.
  destruct (dial_headers_wf o (b64_encode d)) as (_ & _ & _ & E4 & _). rewrite E4. reflexivity. Qed.

(* the response as the client sees it *)
Lemma hc_resp_wf a :
  hs_values (p_hdrs (lib_response a)) s_Connection = [s_Upgrade] /\
  hs_values (p_hdrs (lib_response a)) s_Upgrade = [s_websocket] /\
  hs_values (p_hdrs (lib_response a)) s_SecAccept = [ar_accept a] /\
  hs_get (p_hdrs (lib_response a)) s_SecProtocol = ar_subproto a /\
  hs_values (p_hdrs (lib_response a)) s_SecExtensions =
    hs_values (match ar_copts a with Some c => [(s_SecExtensions, [render_copts c])] | None => [] end) s_SecExtensions.
Proof. unfold hs_get, lib_response, p_hdrs. destruct (ar_subproto a); destruct (ar_copts a); repeat split; reflexivity. Qed.

Local Close Scope N_scope.

(* TO PROVE (statement fixed; add lemmas above it) *)

(* For EVERY client configuration (subprotocol list, compression mode), every 16-byte nonce, every Host and every server
   configuration (supported subprotocols, origin patterns, compression mode): the server upgrades the client's request
   (101), and the client accepts the server's answer, ending with exactly the compression parameters the server holds. *)
Theorem lib_lib_handshake : forall host o ao d,
  wf_bytes d -> length d = 16%nat -> Forall clean_token (d_subprotocols o) ->
  let k := b64_encode d in
  let a := accept_decide (lib_request host o k) ao in
  ar_status a = 101%nat /\ verify_server_response o k (lib_response a) = VOk (ar_copts a).
Proof. intros host o ao d Hwf Hlen Hcl. cbv zeta. rewrite (hc_accept host o ao d Hwf Hlen Hcl).
  split; [reflexivity|]. apply verify_server_response_iff.
  match goal with |- context [lib_response ?r] => set (a := r) end.
  destruct (hc_resp_wf a) as (R1 & R2 & R3 & R4 & R5). split.
  - unfold valid_response. split; [reflexivity|].
    split. { unfold hs_has_token, hs_tokens. rewrite R1. vm_compute. reflexivity. }
    split. { unfold hs_has_token, hs_tokens. rewrite R2. vm_compute. reflexivity. }
    split. { unfold hs_get. rewrite R3. reflexivity. }
    rewrite R4. unfold a. cbn [ar_subproto].
    destruct (hc_select_in (a_subprotocols ao) (d_subprotocols o)) as [E|E]; [left; exact E|].
    right. exists (select_subprotocol (a_subprotocols ao) (d_subprotocols o)). split; [exact E | apply hc_fold_eq_refl].
  - rewrite (hc_verify_exts_ext _ _ _ (hc_exts_ext _ _ R5)). unfold a. cbn [ar_copts]. unfold dial_offer.
    destruct (d_mode o); destruct (a_mode ao); vm_compute; reflexivity.
Qed.

(* and the subprotocol the server announces is one the client asked for (up to case), or none *)
Theorem lib_lib_subprotocol : forall host o ao d,
  wf_bytes d -> length d = 16%nat -> Forall clean_token (d_subprotocols o) ->
  let a := accept_decide (lib_request host o (b64_encode d)) ao in
  ar_subproto a = [] \/ exists sp, In sp (d_subprotocols o) /\ fold_eq sp (ar_subproto a) = true.
Proof. intros host o ao d Hwf Hlen Hcl. cbv zeta. rewrite (hc_accept host o ao d Hwf Hlen Hcl). cbn [ar_subproto].
  destruct (hc_select_in (a_subprotocols ao) (d_subprotocols o)) as [E|E]; [left; exact E|].
  right. exists (select_subprotocol (a_subprotocols ao) (d_subprotocols o)). split; [exact E | apply hc_fold_eq_refl].
Qed.

Print Assumptions lib_lib_handshake.
Print Assumptions lib_lib_subprotocol.
