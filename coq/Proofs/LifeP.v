(* Proofs/LifeP.v — C09 / C10 / C20 over the interleaving model Model/Life.v, for all schedules and programs. *)
From Coq Require Import List Arith Bool Lia.
Import ListNotations.
From WS Require Import Model.Life.

(* ---------- function-map updates ---------- *)
Lemma updt_same : forall f t x, updt f t x t = x.
Proof. intros f t x. unfold updt. rewrite Nat.eqb_refl. reflexivity. Qed.
Lemma updt_other : forall f t x t0, t0 <> t -> updt f t x t0 = f t0.
Proof. intros f t x t0 Hne. unfold updt. destruct (Nat.eqb t0 t) eqn:E; [apply Nat.eqb_eq in E; contradiction|reflexivity]. Qed.
Lemma updf_same : forall A (f : side -> A) sd x, updf f sd x sd = x.
Proof. intros A f sd x. unfold updf. destruct sd; reflexivity. Qed.
Lemma updf_other : forall A (f : side -> A) sd x sd0, sd0 <> sd -> updf f sd x sd0 = f sd0.
Proof. intros A f sd x sd0 Hne. unfold updf. destruct sd0, sd; try reflexivity; contradiction Hne; reflexivity. Qed.
Lemma updc_same : forall f c, updc f c c = true.
Proof. intros f c. unfold updc. rewrite Nat.eqb_refl. reflexivity. Qed.
Lemma updc_mono : forall f c c0, f c0 = true -> updc f c c0 = true.
Proof. intros f c c0 H. unfold updc. destruct (Nat.eqb c0 c); [reflexivity|exact H]. Qed.
Lemma side_eq_dec : forall a b : side, {a = b} + {a <> b}.
Proof. decide equality. Qed.

(* ---------- case analysis of one step ---------- *)
Ltac step_inv H :=
  unfold lstep in H; cbv zeta in H;
  repeat match type of H with
  | match ?x with _ => _ end = Some _ => let E := fresh "E" in destruct x eqn:E
  | (if ?x then _ else _) = Some _ => let E := fresh "E" in destruct x eqn:E
  | None = Some _ => discriminate H
  end;
  try discriminate H;
  match type of H with Some _ = Some _ => injection H as H; subst end.

Ltac fields := cbn [l_closed l_closing l_arm l_done l_mu l_tl_exited l_cr l_lockreq l_thr with_t set_lp lret lp lcalls lresults] in *.

Ltac thr t0 t := destruct (Nat.eq_dec t0 t) as [?Heq|?Hne]; [subst t0; rewrite ?updt_same in * | rewrite ?updt_other in * by assumption].


(* ---------- Inv1: mutex discipline, armed context of the running section, timeout goroutine ---------- *)
Definition holds (p : lph) (sd : side) : Prop :=
  match p with LArm sd' _ _ | LIO sd' _ _ | LRearm sd' _ _ => sd' = sd | LRelease sd' _ _ => sd' = sd | _ => False end.
Definition sect (p : lph) (sd : side) (c : ctxid) : Prop :=
  match p with LIO sd' c' _ | LRearm sd' c' _ => sd' = sd /\ c' = c | _ => False end.

Lemma in_section_sect : forall s t sd c, in_section s t sd c <-> sect (lp (l_thr s t)) sd c.
Proof. intros s t sd c. unfold in_section, sect. tauto. Qed.

Record Inv1 (s : lst) : Prop := {
  i_mu : forall t sd, holds (lp (l_thr s t)) sd -> l_mu s sd = Some t;
  i_arm : forall t sd c, sect (lp (l_thr s t)) sd c -> l_arm s sd = c;
  i_tl : l_tl_exited s = true -> l_closed s = true;
  i_wcr : forall t ok, lp (l_thr s t) = LWaitCR ok -> l_tl_exited s = true }.

Lemma inv1_init : forall progs, Inv1 (linit progs).
Proof.
  intros progs. split; unfold linit; fields.
  - intros t sd Hh. contradiction Hh.
  - intros t sd c Hs. contradiction Hs.
  - intros Hx. discriminate Hx.
  - intros t ok Hx. discriminate Hx.
Qed.

Ltac kcase := repeat match goal with k : cont |- _ => destruct k end; repeat match goal with ok : bool |- _ => destruct ok end;
  unfold after_section in *; fields.

Lemma pres_mu : forall s e s', Inv1 s -> lstep s e = Some s' ->
  forall t0 sd0, holds (lp (l_thr s' t0)) sd0 -> l_mu s' sd0 = Some t0.
Proof.
  intros s e s' [Hmu Harm Htl Hw] H t0 sd0 Hh.
  destruct e; step_inv H; fields; try (apply Hmu; exact Hh).
  all: try (thr t0 t; [ | apply Hmu; exact Hh]).
  all: try (kcase; cbn [holds] in Hh; try contradiction Hh; subst sd0; apply Hmu; rewrite E; reflexivity).
  - (* CloseRead starts g *)
    thr t0 t.
    + fields. contradiction Hh.
    + thr t0 g; [fields; contradiction Hh | apply Hmu; exact Hh].
  - (* acquire *)
    thr t0 t.
    + fields. cbn [holds] in Hh. subst sd0. apply updf_same.
    + destruct (side_eq_dec sd0 sd) as [Hs|Hs].
      * subst sd0. apply Hmu in Hh. congruence.
      * rewrite updf_other by assumption. apply Hmu; exact Hh.
  - (* release *)
    thr t0 t.
    + kcase; contradiction Hh.
    + destruct (side_eq_dec sd0 sd) as [Hs|Hs].
      * subst sd0. apply Hmu in Hh. assert (Ht : l_mu s sd = Some t) by (apply Hmu; rewrite E; reflexivity).
        rewrite Hh in Ht. injection Ht as Ht. contradiction.
      * rewrite updf_other by assumption. apply Hmu; exact Hh.
Qed.

Lemma sect_holds : forall p sd c, sect p sd c -> holds p sd.
Proof. intros p sd c H. destruct p; cbn in *; tauto. Qed.

Lemma mu_unique : forall s t1 t2 sd, Inv1 s -> holds (lp (l_thr s t1)) sd -> holds (lp (l_thr s t2)) sd -> t1 = t2.
Proof.
  intros s t1 t2 sd HI H1 H2. apply (i_mu s HI) in H1. apply (i_mu s HI) in H2. rewrite H1 in H2. injection H2 as H2. exact H2.
Qed.

Lemma pres_arm : forall s e s', Inv1 s -> lstep s e = Some s' ->
  forall t0 sd0 c0, sect (lp (l_thr s' t0)) sd0 c0 -> l_arm s' sd0 = c0.
Proof.
  intros s e s' HI H t0 sd0 c0 Hh. pose proof (i_arm s HI) as Harm.
  destruct e; step_inv H; fields; try (apply Harm with (t := t0); exact Hh).
  all: try (thr t0 t; [ | apply Harm with (t := t0); exact Hh]).
  all: try (kcase; cbn [sect] in Hh; try contradiction Hh; destruct Hh as [Hh1 Hh2]; subst sd0 c0; apply Harm with (t := t); rewrite E; cbn [sect]; auto).
  - thr t0 t.
    + fields. contradiction Hh.
    + thr t0 g; [fields; contradiction Hh | apply Harm with (t := t0); exact Hh].
  - thr t0 t.
    + fields. cbn [sect] in Hh. destruct Hh as [Hh1 Hh2]. subst sd0 c0. apply updf_same.
    + destruct (side_eq_dec sd0 sd) as [Hs|Hs].
      * subst sd0. exfalso. apply Hne. apply (mu_unique s t0 t sd HI); [eapply sect_holds; exact Hh | rewrite E; reflexivity].
      * rewrite updf_other by assumption. apply Harm with (t := t0); exact Hh.
  - thr t0 t.
    + fields. contradiction Hh.
    + destruct (side_eq_dec sd0 sd) as [Hs|Hs].
      * subst sd0. exfalso. apply Hne. apply (mu_unique s t0 t sd HI); [eapply sect_holds; exact Hh | rewrite E; reflexivity].
      * rewrite updf_other by assumption. apply Harm with (t := t0); exact Hh.
  - thr t0 t.
    + fields. contradiction Hh.
    + destruct (side_eq_dec sd0 sd) as [Hs|Hs].
      * subst sd0. exfalso. apply Hne. apply (mu_unique s t0 t sd HI); [eapply sect_holds; exact Hh | rewrite E; reflexivity].
      * rewrite updf_other by assumption. apply Harm with (t := t0); exact Hh.
Qed.

Lemma closed_mono : forall s e s', lstep s e = Some s' -> l_closed s = true -> l_closed s' = true.
Proof. intros s e s' H Hc. destruct e; step_inv H; fields; congruence. Qed.
Lemma tl_mono : forall s e s', lstep s e = Some s' -> l_tl_exited s = true -> l_tl_exited s' = true.
Proof. intros s e s' H Hc. destruct e; step_inv H; fields; congruence. Qed.
Lemma cr_mono : forall s e s' g, lstep s e = Some s' -> l_cr s = Some g -> l_cr s' = Some g.
Proof. intros s e s' g H Hc. destruct e; step_inv H; fields; congruence. Qed.

Lemma pres_tl : forall s e s', Inv1 s -> lstep s e = Some s' -> l_tl_exited s' = true -> l_closed s' = true.
Proof.
  intros s e s' HI H Hx. pose proof (i_tl s HI) as Htl.
  destruct e; step_inv H; fields; try reflexivity; try (apply Htl; exact Hx); try (apply Htl; reflexivity); try congruence; try (apply Htl in Hx; discriminate Hx).
Qed.

Lemma pres_wcr : forall s e s', Inv1 s -> lstep s e = Some s' ->
  forall t0 ok0, lp (l_thr s' t0) = LWaitCR ok0 -> l_tl_exited s' = true.
Proof.
  intros s e s' HI H t0 ok0 Hh. pose proof (i_wcr s HI) as Hw.
  destruct e; step_inv H; fields; try reflexivity; try (apply Hw with (t := t0) (ok := ok0); exact Hh).
  all: try (thr t0 t; [ | apply Hw with (t := t0) (ok := ok0); exact Hh]).
  all: try (kcase; try discriminate Hh; try assumption).
  all: thr t0 t; [fields; discriminate Hh | thr t0 g; [fields; discriminate Hh | eapply Hw; exact Hh]].
Qed.

Lemma inv1_step : forall s e s', Inv1 s -> lstep s e = Some s' -> Inv1 s'.
Proof.
  intros s e s' HI H. split.
  - exact (pres_mu s e s' HI H).
  - exact (pres_arm s e s' HI H).
  - exact (pres_tl s e s' HI H).
  - exact (pres_wcr s e s' HI H).
Qed.

Lemma lrun_ind_inv : forall (P : lst -> Prop), (forall s e s', P s -> lstep s e = Some s' -> P s') ->
  forall sched s, P s -> P (lrun s sched).
Proof.
  intros P Hstep sched. induction sched as [|e r IH]; intros s Hs; cbn [lrun].
  - exact Hs.
  - destruct (lstep s e) as [s'|] eqn:E; [apply IH; eapply Hstep; eassumption | apply IH; exact Hs].
Qed.

Lemma inv1_reach : forall progs sched, Inv1 (lrun (linit progs) sched).
Proof. intros progs sched. apply lrun_ind_inv; [exact inv1_step | apply inv1_init]. Qed.

(* ================= T2 (C10): cancellation during a blocked call ================= *)
Theorem life_cancel_during : forall progs sched t sd c, let s := lrun (linit progs) sched in
  in_section s t sd c -> l_done s c = true -> l_closed s = false -> l_tl_exited s = false ->
  exists s1, lstep s LTimeout = Some s1 /\ l_closed s1 = true /\
    (forall k, lp (l_thr s t) = LIO sd c k -> exists s2, lstep s1 (LStep t false) = Some s2 /\ lp (l_thr s2 t) = LRelease sd false k).
Proof.
  intros progs sched t sd c s Hsec Hdone Hcl Htl.
  assert (HI : Inv1 s) by apply inv1_reach.
  assert (Harm : l_arm s sd = c) by (apply (i_arm s HI t); apply in_section_sect; exact Hsec).
  assert (Hor : l_lockreq s || l_done s (l_arm s SR) || l_done s (l_arm s SW) = true).
  { destruct sd; rewrite Harm, Hdone; [rewrite orb_true_r; reflexivity | apply orb_true_r]. }
  eexists. split; [|split].
  - unfold lstep. rewrite Htl, Hcl, Hor. reflexivity.
  - reflexivity.
  - intros k Hk. eexists. split.
    + unfold lstep. cbv zeta. cbn [l_thr l_closed]. rewrite Hk. reflexivity.
    + fields. rewrite updt_same. reflexivity.
Qed.
Print Assumptions life_cancel_during.

(* ================= T4 (C09): once closed, nothing stays blocked ================= *)
Lemma closed_progress_any : forall s t, l_closed s = true ->
  match lp (l_thr s t) with
  | LIdle => lcalls (l_thr s t) = [] \/ exists s', lstep s (LStep t false) = Some s'
  | LExited => True
  | LWaitTL _ => (l_tl_exited s = true /\ exists s', lstep s (LStep t false) = Some s') \/ exists s', lstep s LTimeout = Some s'
  | LWaitCR _ => (exists s', lstep s (LStep t false) = Some s') \/ (exists g, l_cr s = Some g /\ lp (l_thr s g) <> LExited)
  | _ => exists alt s', lstep s (LStep t alt) = Some s'
  end.
Proof.
  intros s t Hc. destruct (lp (l_thr s t)) eqn:E.
  - destruct (lcalls (l_thr s t)) as [|call rest] eqn:El; [left; reflexivity|right].
    unfold lstep; cbv zeta; rewrite E, El. destruct call; try (eexists; reflexivity).
    + destruct (l_closing s); eexists; reflexivity.
    + destruct (l_closing s); eexists; reflexivity.
    + destruct (l_cr s); eexists; reflexivity.
  - exists true. unfold lstep; cbv zeta; rewrite E, Hc. eexists; reflexivity.
  - exists false. unfold lstep; cbv zeta; rewrite E, Hc. eexists; reflexivity.
  - exists false. unfold lstep; cbv zeta; rewrite E, Hc. eexists; reflexivity.
  - exists true. unfold lstep; cbv zeta; rewrite E, Hc. eexists; reflexivity.
  - exists false. unfold lstep; cbv zeta; rewrite E. eexists; reflexivity.
  - exists false. unfold lstep; cbv zeta; rewrite E. eexists; reflexivity.
  - destruct (l_tl_exited s) eqn:Et.
    + left. split; [reflexivity|]. unfold lstep; cbv zeta; rewrite E, Et. eexists; reflexivity.
    + right. unfold lstep. rewrite Et, Hc. eexists; reflexivity.
  - destruct (l_cr s) as [g|] eqn:Ec.
    + destruct (lp (l_thr s g)) eqn:Eg;
        try (right; exists g; split; [reflexivity | rewrite Eg; discriminate]).
      left. unfold lstep; cbv zeta; rewrite E, Ec, Eg. eexists; reflexivity.
    + left. unfold lstep; cbv zeta; rewrite E, Ec. eexists; reflexivity.
  - exact I.
Qed.

Theorem life_closed_progress : forall progs sched t, let s := lrun (linit progs) sched in
  l_closed s = true ->
  match lp (l_thr s t) with
  | LIdle => lcalls (l_thr s t) = [] \/ exists s', lstep s (LStep t false) = Some s'
  | LExited => True
  | LWaitTL _ => (l_tl_exited s = true /\ exists s', lstep s (LStep t false) = Some s') \/ exists s', lstep s LTimeout = Some s'
  | LWaitCR _ => (exists s', lstep s (LStep t false) = Some s') \/ (exists g, l_cr s = Some g /\ lp (l_thr s g) <> LExited)
  | _ => exists alt s', lstep s (LStep t alt) = Some s'
  end.
Proof. intros progs sched t s. apply closed_progress_any. Qed.
Print Assumptions life_closed_progress.

(* bound: own micro-steps left in the current call once the connection is closed *)
Definition after_cost (ok : bool) (k : cont) : nat :=
  match k with KRet => 0 | KThenHandshake _ => if ok then 2 else 1 | _ => 1 end.
Definition steps_left (p : lph) : nat :=
  match p with
  | LIdle | LExited | LWaitTL _ | LWaitCR _ => 0
  | LDoClose _ => 1
  | LWantMu _ _ k => 1 + after_cost false k
  | LRelease _ ok k => 1 + after_cost ok k
  | LArm _ _ k | LIO _ _ k => 2 + after_cost false k
  | LRearm _ _ k => 2 + after_cost true k
  end.
Definition waiting (p : lph) : Prop := match p with LIdle | LExited | LWaitTL _ | LWaitCR _ => True | _ => False end.

Lemma steps_left_bound : forall p, steps_left p <= 4.
Proof. intros p. destruct p; cbn; try lia; try (destruct k; cbn; lia); destruct ok, k; cbn; lia. Qed.
Lemma steps_left_zero : forall p, steps_left p = 0 <-> waiting p.
Proof. intros p. destruct p; cbn; split; intros H; try exact I; try reflexivity; try discriminate H; try contradiction H. Qed.

Lemma closed_decrease_any : forall s t alt s', l_closed s = true -> ~ waiting (lp (l_thr s t)) ->
  lstep s (LStep t alt) = Some s' ->
  l_closed s' = true /\ steps_left (lp (l_thr s' t)) < steps_left (lp (l_thr s t)).
Proof.
  intros s t alt s' Hc Hw H. split; [eapply closed_mono; eassumption|].
  step_inv H; fields; rewrite ?updt_same; try (exfalso; apply Hw; exact I); try congruence.
  all: kcase; cbn; lia.
Qed.

Theorem life_closed_bounded : forall progs sched t alt s', let s := lrun (linit progs) sched in
  l_closed s = true -> ~ waiting (lp (l_thr s t)) -> lstep s (LStep t alt) = Some s' ->
  l_closed s' = true /\ steps_left (lp (l_thr s' t)) < steps_left (lp (l_thr s t)) <= 4.
Proof.
  intros progs sched t alt s' s Hc Hw H. destruct (closed_decrease_any s t alt s' Hc Hw H) as [H1 H2].
  split; [exact H1|]. split; [exact H2 | apply steps_left_bound].
Qed.
Print Assumptions life_closed_bounded.

(* ================= Inv2: where an armed context comes from; what a returned Close implies ================= *)
(* CloseRead goroutine ids are fresh: no user program runs on a thread id that some LCloseRead names *)
Definition fresh_cr (progs : tid -> list lcall) : Prop := forall t c g, In (LCloseRead c g) (progs t) -> progs g = [].
Definition pristine : lthr := {| lp := LIdle; lcalls := []; lresults := [] |}.
Definition sec_call (sd : side) (c : ctxid) : lcall := match sd with SR => LRead c | SW => LWrite c end.
Definition uses (call : lcall) (c : ctxid) : Prop :=
  match call with
  | LRead c' | LWrite c' => c' = c
  | LClose cw cr => cw = c \/ cr = c
  | LCloseRead c' _ => c' = c
  | LCloseNow => False
  end.
Definition is_close (call : lcall) : Prop := match call with LClose _ _ | LCloseNow => True | _ => False end.
Definition call_ok (th : lthr) : Prop :=
  match lp th with
  | LWantMu sd c KRet | LArm sd c KRet | LIO sd c KRet | LRearm sd c KRet => exists rest, lcalls th = sec_call sd c :: rest
  | LRelease sd _ KRet => exists c rest, lcalls th = sec_call sd c :: rest
  | _ => True
  end.
(* thread-local evidence that side sd may still be armed with c *)
Definition ev_ph (p : lph) (sd : side) (c : ctxid) : Prop :=
  match p with
  | LIO sd' c' _ | LRearm sd' c' _ => sd' = sd /\ c' = c
  | LRelease sd' false _ => sd' = sd
  | LDoClose _ => True
  | _ => False
  end.
Definition ev (th : lthr) (sd : side) (c : ctxid) : Prop :=
  ev_ph (lp th) sd c \/ exists call, In (call, RErr) (lresults th) /\ uses call c.
(* a CloseRead goroutine started after the connection was closed: never blocks, exits after at most two own steps *)
Definition cr_late (p : lph) : Prop := match p with LExited | LDoClose KCRExit | LWantMu SR _ KCRData => True | _ => False end.

Record Inv2 (progs : tid -> list lcall) (s : lst) : Prop := {
  j_calls : forall t call, In call (lcalls (l_thr s t)) -> In call (progs t);
  j_prist : forall g, progs g = [] -> l_cr s <> Some g -> l_thr s g = pristine;
  j_callok : forall t, call_ok (l_thr s t);
  j_rel : forall t sd, lp (l_thr s t) = LRelease sd false KRet ->
     l_closed s = true \/ l_arm s sd = 0 \/ exists rest, lcalls (l_thr s t) = sec_call sd (l_arm s sd) :: rest;
  j_orig : forall sd, l_arm s sd <> 0 -> l_closed s = true \/ exists t, ev (l_thr s t) sd (l_arm s sd);
  j_join : forall t call r, In (call, r) (lresults (l_thr s t)) -> is_close call -> r <> RWaitTimeout ->
     l_tl_exited s = true /\ l_closed s = true /\ forall g, l_cr s = Some g -> cr_late (lp (l_thr s g)) }.

Lemma inv2_init : forall progs, Inv2 progs (linit progs).
Proof.
  intros progs. split; unfold linit; fields.
  - intros t call H. exact H.
  - intros g Hg _. rewrite Hg. reflexivity.
  - intros t. exact I.
  - intros t sd H. discriminate H.
  - intros sd H. contradiction H. reflexivity.
  - intros t call r H. contradiction H.
Qed.

Lemma start_pristine : forall progs s t c g l0, fresh_cr progs -> Inv2 progs s ->
  lcalls (l_thr s t) = LCloseRead c g :: l0 -> l_cr s = None -> l_thr s g = pristine /\ g <> t.
Proof.
  intros progs s t c g l0 Hf HJ El Hcr.
  assert (Hin : In (LCloseRead c g) (progs t)) by (apply (j_calls progs s HJ); rewrite El; left; reflexivity).
  assert (Hg : progs g = []) by (eapply Hf; exact Hin).
  assert (Hp : l_thr s g = pristine) by (apply (j_prist progs s HJ); [exact Hg | rewrite Hcr; discriminate]).
  split; [exact Hp|]. intros Heq. subst g. rewrite Hp in El. discriminate El.
Qed.

Lemma in_tl : forall A (x : A) l, In x (tl l) -> In x l.
Proof. intros A x l H. destruct l; [exact H | right; exact H]. Qed.

Lemma pres_calls : forall progs s e s', Inv2 progs s -> lstep s e = Some s' ->
  forall t0 call, In call (lcalls (l_thr s' t0)) -> In call (progs t0).
Proof.
  intros progs s e s' HJ H t0 call Hin. pose proof (j_calls progs s HJ) as Hc.
  destruct e; step_inv H; fields; try (apply Hc; exact Hin).
  all: try (thr t0 t; [ | apply Hc; exact Hin]).
  all: try solve [kcase; apply Hc; solve [exact Hin | apply in_tl; exact Hin]].
  thr t0 t.
  - fields. apply Hc. apply in_tl. exact Hin.
  - thr t0 g; [fields; contradiction Hin | apply Hc; exact Hin].
Qed.

Lemma pres_prist : forall progs s e s', Inv2 progs s -> lstep s e = Some s' ->
  forall g0, progs g0 = [] -> l_cr s' <> Some g0 -> l_thr s' g0 = pristine.
Proof.
  intros progs s e s' HJ H g0 Hg Hcr.
  assert (Hp : l_thr s g0 = pristine).
  { apply (j_prist progs s HJ); [exact Hg|]. intros Hx. apply Hcr. eapply cr_mono; eassumption. }
  destruct e; step_inv H; fields; try exact Hp.
  all: try (thr g0 t; [ | exact Hp]).
  all: try solve [rewrite Hp in E; discriminate E].
  all: try solve [rewrite Hp in E0; discriminate E0].
  thr g0 t.
  - rewrite Hp in E0. discriminate E0.
  - thr g0 g; [contradiction Hcr; reflexivity | exact Hp].
Qed.

Lemma pres_callok : forall progs s e s', Inv2 progs s -> lstep s e = Some s' ->
  forall t0, call_ok (l_thr s' t0).
Proof.
  intros progs s e s' HJ H t0. pose proof (j_callok progs s HJ) as Hc.
  destruct e; step_inv H; fields; try (apply Hc).
  all: try (thr t0 t; [ | apply Hc]).
  all: try solve [specialize (Hc t); unfold call_ok in *; rewrite E in Hc; kcase; solve [exact I | exact Hc | eexists; eassumption | eexists; eexists; eassumption]].
  thr t0 t; [exact I | thr t0 g; [exact I | apply Hc]].
Qed.

Lemma pres_rel : forall progs s e s', Inv1 s -> Inv2 progs s -> lstep s e = Some s' ->
  forall t0 sd0, lp (l_thr s' t0) = LRelease sd0 false KRet ->
     l_closed s' = true \/ l_arm s' sd0 = 0 \/ exists rest, lcalls (l_thr s' t0) = sec_call sd0 (l_arm s' sd0) :: rest.
Proof.
  intros progs s e s' HI HJ H t0 sd0 Hph. pose proof (j_rel progs s HJ) as Hr. pose proof (j_callok progs s HJ) as Hc.
  destruct e; step_inv H; fields; try (apply Hr; exact Hph); try (left; reflexivity).
  all: try (thr t0 t; [ | try solve [destruct (Hr t0 sd0 Hph) as [Hx|[Hx|Hx]]; [left; congruence | right; left; exact Hx | right; right; exact Hx]]]).
  all: try solve [left; assumption].
  all: try solve [kcase; discriminate Hph].
  - (* CloseRead starts g *)
    thr t0 g; [fields; discriminate Hph|].
    destruct (Hr t0 sd0 Hph) as [Hx|[Hx|Hx]]; [left; congruence | right; left; exact Hx | right; right; exact Hx].
  - (* LArm by t on sd: t0 holds sd0 *)
    destruct (side_eq_dec sd0 sd) as [Hs|Hs].
    + subst sd0. exfalso. apply Hne. apply (mu_unique s t0 t sd HI); [rewrite Hph | rewrite E]; reflexivity.
    + rewrite updf_other by assumption.
      destruct (Hr t0 sd0 Hph) as [Hx|[Hx|Hx]]; [left; congruence | right; left; exact Hx | right; right; exact Hx].
  - destruct (side_eq_dec sd0 sd) as [Hs|Hs].
    + subst sd0. exfalso. apply Hne. apply (mu_unique s t0 t sd HI); [rewrite Hph | rewrite E]; reflexivity.
    + rewrite updf_other by assumption.
      destruct (Hr t0 sd0 Hph) as [Hx|[Hx|Hx]]; [left; congruence | right; left; exact Hx | right; right; exact Hx].
  - (* IOFail *)
    fields. injection Hph as Hsd Hk. subst sd0 k. right. right.
    assert (Ha : l_arm s sd = c) by (apply (i_arm s HI t); rewrite E; cbn [sect]; auto).
    specialize (Hc t). unfold call_ok in Hc. rewrite E in Hc. rewrite Ha. exact Hc.
Qed.

Lemma lret_mono : forall th r x, In x (lresults th) -> In x (lresults (lret th r)).
Proof. intros th r x H. unfold lret. cbn [lresults]. destruct (lcalls th); [exact H | right; exact H]. Qed.

Lemma res_after_section : forall th ok k x, In x (lresults th) -> In x (lresults (after_section th ok k)).
Proof. intros th ok k x H. destruct k, ok; unfold after_section; fields; try exact H; apply lret_mono; exact H. Qed.

Lemma uses_sec_call : forall sd c, uses (sec_call sd c) c.
Proof. intros sd c. destruct sd; reflexivity. Qed.

Lemma pres_orig : forall progs s e s', fresh_cr progs -> Inv1 s -> Inv2 progs s -> lstep s e = Some s' ->
  forall sd0, l_arm s' sd0 <> 0 -> l_closed s' = true \/ exists t0, ev (l_thr s' t0) sd0 (l_arm s' sd0).
Proof.
  intros progs s e s' Hf HI HJ H sd0 Hnz. pose proof (j_orig progs s HJ) as Ho.
  destruct e; step_inv H; fields; try solve [left; reflexivity]; try solve [left; assumption].
  all: try solve [apply Ho; exact Hnz].
  all: try solve [destruct (Ho sd0 Hnz) as [Hcl | [tx Hev]]; [left; congruence | ];
    thr tx t; [ | right; exists tx; rewrite updt_other by assumption; exact Hev ];
    destruct Hev as [Hp | [call [Hin Hu]]];
    [ rewrite E in Hp; cbn [ev_ph] in Hp; try contradiction Hp; right; exists t; rewrite updt_same; left; fields; cbn [ev_ph]; solve [exact Hp | exact (proj1 Hp)]
    | right; exists t; rewrite updt_same; right; exists call; split; [ | exact Hu];
      solve [ exact Hin | apply lret_mono; exact Hin | apply res_after_section; exact Hin ] ] ].
  - (* CloseRead starts g: g was pristine *)
    destruct (start_pristine progs s t c g l0 Hf HJ E0 E2) as [Hpr Hgt].
    destruct (Ho sd0 Hnz) as [Hcl | [tx Hev]]; [left; exact Hcl | right].
    thr tx t.
    + exists t. rewrite updt_same. destruct Hev as [Hp | [call [Hin Hu]]].
      * rewrite E in Hp. contradiction Hp.
      * right. exists call. split; [apply lret_mono; exact Hin | exact Hu].
    + thr tx g.
      * rewrite Hpr in Hev. destruct Hev as [Hp | [call [Hin Hu]]]; [contradiction Hp | contradiction Hin].
      * exists tx. rewrite updt_other by assumption. rewrite updt_other by assumption. exact Hev.
  - (* LArm: sd is now armed with c, t is in its section *)
    right. destruct (side_eq_dec sd0 sd) as [Hs|Hs].
    + subst sd0. exists t. rewrite updt_same, updf_same. left. fields. cbn [ev_ph]. auto.
    + rewrite updf_other in * by assumption.
      destruct (Ho sd0 Hnz) as [Hcl | [tx Hev]]; [discriminate Hcl|].
      thr tx t.
      * exists t. rewrite updt_same. destruct Hev as [Hp | [call [Hin Hu]]].
        -- rewrite E in Hp. contradiction Hp.
        -- right. exists call. split; [exact Hin | exact Hu].
      * exists tx. rewrite updt_other by assumption. exact Hev.
  - (* LRearm: sd is disarmed *)
    right. destruct (side_eq_dec sd0 sd) as [Hs|Hs].
    + subst sd0. rewrite updf_same in Hnz. contradiction Hnz. reflexivity.
    + rewrite updf_other in * by assumption.
      destruct (Ho sd0 Hnz) as [Hcl | [tx Hev]]; [discriminate Hcl|].
      thr tx t.
      * exists t. rewrite updt_same. destruct Hev as [Hp | [call [Hin Hu]]].
        -- rewrite E in Hp. cbn [ev_ph] in Hp. destruct Hp as [Hp1 Hp2]. contradiction Hs. symmetry. exact Hp1.
        -- right. exists call. split; [exact Hin | exact Hu].
      * exists tx. rewrite updt_other by assumption. exact Hev.
  - (* LRelease *)
    destruct (Ho sd0 Hnz) as [Hcl | [tx Hev]]; [left; exact Hcl|].
    thr tx t.
    + destruct Hev as [Hp | [call [Hin Hu]]].
      * rewrite E in Hp. destruct ok; cbn [ev_ph] in Hp; [contradiction Hp|]. subst sd0.
        destruct k; try solve [right; exists t; rewrite updt_same; left; fields; exact I].
        destruct (j_rel progs s HJ t sd E) as [Hc | [Hz | [rest Hl]]]; [left; exact Hc | contradiction | right].
        exists t. rewrite updt_same. right. exists (sec_call sd (l_arm s sd)). split; [|apply uses_sec_call].
        unfold after_section, lret. cbn [lresults]. rewrite Hl. left. reflexivity.
      * right. exists t. rewrite updt_same. right. exists call. split; [|exact Hu].
        destruct k, ok; try exact Hin; apply res_after_section; exact Hin.
    + right. exists tx. rewrite updt_other by assumption. exact Hev.
Qed.

Definition joined (s : lst) : Prop :=
  l_tl_exited s = true /\ l_closed s = true /\ forall g, l_cr s = Some g -> cr_late (lp (l_thr s g)).

Lemma joined_step : forall progs s e s', fresh_cr progs -> Inv2 progs s -> lstep s e = Some s' -> joined s -> joined s'.
Proof.
  intros progs s e s' Hf HJ H [Ht [Hc Hg]].
  split; [eapply tl_mono; eassumption|]. split; [eapply closed_mono; eassumption|].
  intros g0 Hcr.
  destruct e; step_inv H; fields; try discriminate Hc; try solve [apply Hg; exact Hcr].
  all: try solve [assert (Hg0 : cr_late (lp (l_thr s g0))) by (apply Hg; congruence); thr g0 t; [ | exact Hg0]; rewrite E in Hg0;
                  try (match goal with sd : side |- _ => destruct sd end); cbn [cr_late] in Hg0; try contradiction Hg0;
                  kcase; try contradiction Hg0; exact I].
  destruct (start_pristine progs s t c g l0 Hf HJ E0 E2) as [Hpr Hgt].
  injection Hcr as Hcr. subst g0. rewrite updt_other by assumption. rewrite updt_same. exact I.
Qed.

Lemma is_close_sec_call : forall sd c, ~ is_close (sec_call sd c).
Proof. intros sd c H. destruct sd; exact H. Qed.

Lemma in_lret : forall th r' call r, In (call, r) (lresults (lret th r')) ->
  In (call, r) (lresults th) \/ (exists rest, lcalls th = call :: rest /\ r = r').
Proof.
  intros th r' call r H. unfold lret in H. cbn [lresults] in H. destruct (lcalls th) as [|c0 rest]; [left; exact H|].
  destruct H as [H|H]; [right | left; exact H]. injection H as H1 H2. subst c0 r'. exists rest. split; reflexivity.
Qed.

Lemma pres_join : forall progs s e s', fresh_cr progs -> Inv1 s -> Inv2 progs s -> lstep s e = Some s' ->
  forall t0 call r, In (call, r) (lresults (l_thr s' t0)) -> is_close call -> r <> RWaitTimeout -> joined s'.
Proof.
  intros progs s e s' Hf HI HJ H t0 call r Hin Hcl Hr.
  assert (Hold : forall tx, In (call, r) (lresults (l_thr s tx)) -> joined s').
  { intros tx Hx. eapply joined_step; try eassumption. eapply (j_join progs s HJ); eassumption. }
  pose proof (j_callok progs s HJ) as Hok.
  destruct e; try solve [apply (Hold t0); step_inv H; fields; exact Hin].
  - (* LStep *) step_inv H; fields.
    all: try (thr t0 t; [ | apply (Hold t0); exact Hin]).
    all: try solve [apply (Hold t); exact Hin].
    + (* CloseRead, idempotent *)
      apply in_lret in Hin. destruct Hin as [Hin | [rest [Hl _]]]; [apply (Hold t); exact Hin|].
      rewrite E0 in Hl. injection Hl as Hl _. subst call. contradiction Hcl.
    + (* CloseRead starts g *)
      destruct (start_pristine progs s t c g l0 Hf HJ E0 E2) as [Hpr Hgt].
      thr t0 t.
      * apply in_lret in Hin. destruct Hin as [Hin | [rest [Hl _]]]; [apply (Hold t); exact Hin|].
        rewrite E0 in Hl. injection Hl as Hl _. subst call. contradiction Hcl.
      * thr t0 g; [contradiction Hin | apply (Hold t0); exact Hin].
    + (* LWantMu, <-closed / <-ctx.Done() *)
      specialize (Hok t). unfold call_ok in Hok. rewrite E in Hok.
      destruct k; unfold after_section in Hin; fields; try solve [apply (Hold t); exact Hin].
      apply in_lret in Hin. destruct Hin as [Hin | [rest [Hl _]]]; [apply (Hold t); exact Hin|].
      destruct Hok as [rest' Hok]. rewrite Hok in Hl. injection Hl as Hl _. subst call. apply is_close_sec_call in Hcl. contradiction Hcl.
    + specialize (Hok t). unfold call_ok in Hok. rewrite E in Hok.
      destruct k; unfold after_section in Hin; fields; try solve [apply (Hold t); exact Hin].
      apply in_lret in Hin. destruct Hin as [Hin | [rest [Hl _]]]; [apply (Hold t); exact Hin|].
      destruct Hok as [rest' Hok]. rewrite Hok in Hl. injection Hl as Hl _. subst call. apply is_close_sec_call in Hcl. contradiction Hcl.
    + specialize (Hok t). unfold call_ok in Hok. rewrite E in Hok.
      destruct k; unfold after_section in Hin; fields; try solve [apply (Hold t); exact Hin].
      apply in_lret in Hin. destruct Hin as [Hin | [rest [Hl _]]]; [apply (Hold t); exact Hin|].
      destruct Hok as [rest' Hok]. rewrite Hok in Hl. injection Hl as Hl _. subst call. apply is_close_sec_call in Hcl. contradiction Hcl.
    + (* LRelease *)
      specialize (Hok t). unfold call_ok in Hok. rewrite E in Hok.
      destruct k, ok; unfold after_section in Hin; fields; try solve [apply (Hold t); exact Hin].
      * apply in_lret in Hin. destruct Hin as [Hin | [rest [Hl _]]]; [apply (Hold t); exact Hin|].
        destruct Hok as [c' [rest' Hok]]. rewrite Hok in Hl. injection Hl as Hl _. subst call. apply is_close_sec_call in Hcl. contradiction Hcl.
      * apply in_lret in Hin. destruct Hin as [Hin | [rest [Hl _]]]; [apply (Hold t); exact Hin|].
        destruct Hok as [c' [rest' Hok]]. rewrite Hok in Hl. injection Hl as Hl _. subst call. apply is_close_sec_call in Hcl. contradiction Hcl.
    + (* LDoClose *)
      destruct k; fields; apply (Hold t); exact Hin.
    + (* LWaitCR returns: the goroutine has exited *)
      apply in_lret in Hin. destruct Hin as [Hin | _]; [apply (Hold t); exact Hin|].
      assert (Htl : l_tl_exited s = true) by (eapply (i_wcr s HI); exact E).
      split; [exact Htl|]. split; [apply (i_tl s HI); exact Htl|]. fields.
      intros g0 Hg0. rewrite E0 in Hg0. injection Hg0 as Hg0. subst g0.
      thr t1 t; [rewrite E in E1; discriminate E1 | rewrite E1; exact I].
    + apply in_lret in Hin. destruct Hin as [Hin | _]; [apply (Hold t); exact Hin|].
      assert (Htl : l_tl_exited s = true) by (eapply (i_wcr s HI); exact E).
      split; [exact Htl|]. split; [apply (i_tl s HI); exact Htl|]. fields.
      intros g0 Hg0. rewrite E0 in Hg0. discriminate Hg0.
  - (* LIOReady *) step_inv H; fields. thr t0 t; apply (Hold _ Hin).
  - (* LIOFail *) step_inv H; fields. thr t0 t; apply (Hold _ Hin).
  - (* LWaitTimer *) step_inv H; fields.
    all: thr t0 t; [ | apply (Hold _ Hin)].
    all: apply in_lret in Hin; destruct Hin as [Hin | [rest [_ Hx]]]; [apply (Hold _ Hin) | contradiction].
Qed.

Lemma inv2_step : forall progs s e s', fresh_cr progs -> Inv1 s -> Inv2 progs s -> lstep s e = Some s' -> Inv2 progs s'.
Proof.
  intros progs s e s' Hf HI HJ H. split.
  - exact (pres_calls progs s e s' HJ H).
  - exact (pres_prist progs s e s' HJ H).
  - exact (pres_callok progs s e s' HJ H).
  - exact (pres_rel progs s e s' HI HJ H).
  - exact (pres_orig progs s e s' Hf HI HJ H).
  - exact (pres_join progs s e s' Hf HI HJ H).
Qed.

Lemma inv12_reach : forall progs sched, fresh_cr progs -> Inv1 (lrun (linit progs) sched) /\ Inv2 progs (lrun (linit progs) sched).
Proof.
  intros progs sched Hf. apply (lrun_ind_inv (fun s => Inv1 s /\ Inv2 progs s)).
  - intros s e s' [HI HJ] H. split; [eapply inv1_step; eassumption | eapply inv2_step; eassumption].
  - split; [apply inv1_init | apply inv2_init].
Qed.

(* ================= T1 (C10): a context bounds only its own call ================= *)
Theorem life_armed_origin : forall progs sched sd c, fresh_cr progs -> let s := lrun (linit progs) sched in
  l_arm s sd = c -> c <> 0 ->
  (exists t, in_section s t sd c)
  \/ (exists t k, lp (l_thr s t) = LRelease sd false k)
  \/ (exists t k, lp (l_thr s t) = LDoClose k)
  \/ (exists t call, In (call, RErr) (lresults (l_thr s t)) /\ uses call c)
  \/ l_closed s = true.
Proof.
  intros progs sched sd c Hf s Harm Hc.
  destruct (inv12_reach progs sched Hf) as [HI HJ]. fold s in HI, HJ.
  assert (Hnz : l_arm s sd <> 0) by (rewrite Harm; exact Hc).
  destruct (j_orig progs s HJ sd Hnz) as [Hcl | [t [Hp | [call [Hin Hu]]]]].
  - right. right. right. right. exact Hcl.
  - rewrite Harm in Hp. destruct (lp (l_thr s t)) eqn:E; cbn [ev_ph] in Hp; try contradiction Hp.
    + left. exists t. unfold in_section. rewrite E. exact Hp.
    + left. exists t. unfold in_section. rewrite E. exact Hp.
    + destruct ok; [contradiction Hp|]. subst sd0. right. left. exists t, k. exact E.
    + right. right. left. exists t, k. exact E.
  - rewrite Harm in Hu. right. right. right. left. exists t, call. split; assumption.
Qed.
Print Assumptions life_armed_origin.

Theorem life_harmless_after_success : forall progs sched c, fresh_cr progs -> let s := lrun (linit progs) sched in
  c <> 0 -> l_closed s = false ->
  (forall t, ~ (exists sd k, lp (l_thr s t) = LWantMu sd c k \/ lp (l_thr s t) = LArm sd c k \/ lp (l_thr s t) = LIO sd c k \/ lp (l_thr s t) = LRearm sd c k)) ->
  (forall t call r, In (call, r) (lresults (l_thr s t)) -> uses call c -> r = ROk) ->
  (forall t sd k, lp (l_thr s t) <> LRelease sd false k) ->      (* no section is being left through a failure *)
  (forall t k, lp (l_thr s t) <> LDoClose k) ->                  (* no thread / CloseRead goroutine is about to close the connection *)
  l_arm s SR <> c /\ l_arm s SW <> c.
Proof.
  intros progs sched c Hf s Hc Hcl Hprog Hres Hrel Hdc.
  assert (Hgen : forall sd, l_arm s sd <> c).
  { intros sd Harm.
    destruct (life_armed_origin progs sched sd c Hf Harm Hc) as [[t Hs] | [[t [k Hk]] | [[t [k Hk]] | [[t [call [Hin Hu]]] | Hx]]]]; try fold s in Hx; try fold s in Hs; try fold s in Hk; try fold s in Hin.
    - apply (Hprog t). unfold in_section in Hs. destruct (lp (l_thr s t)) eqn:E; try contradiction Hs; destruct Hs as [Hs1 Hs2]; subst sd0 c0.
      + exists sd, k. right. right. left. reflexivity.
      + exists sd, k. right. right. right. reflexivity.
    - exact (Hrel t sd k Hk).
    - exact (Hdc t k Hk).
    - specialize (Hres t call RErr Hin Hu). discriminate Hres.
    - rewrite Hx in Hcl. discriminate Hcl. }
  split; apply Hgen.
Qed.
Print Assumptions life_harmless_after_success.

Lemma updc_other : forall f c c0, c0 <> c -> updc f c c0 = f c0.
Proof. intros f c c0 Hne. unfold updc. destruct (Nat.eqb c0 c) eqn:E; [apply Nat.eqb_eq in E; contradiction | reflexivity]. Qed.

(* cancelling c after all its calls returned successfully does not let the timeout goroutine close the connection *)
Theorem life_cancel_after_success : forall progs sched c, fresh_cr progs -> let s := lrun (linit progs) sched in
  c <> 0 -> l_closed s = false ->
  (forall t, ~ (exists sd k, lp (l_thr s t) = LWantMu sd c k \/ lp (l_thr s t) = LArm sd c k \/ lp (l_thr s t) = LIO sd c k \/ lp (l_thr s t) = LRearm sd c k)) ->
  (forall t call r, In (call, r) (lresults (l_thr s t)) -> uses call c -> r = ROk) ->
  (forall t sd k, lp (l_thr s t) <> LRelease sd false k) ->
  (forall t k, lp (l_thr s t) <> LDoClose k) ->
  l_done s (l_arm s SR) || l_done s (l_arm s SW) = false ->
  l_lockreq s = false ->
  forall s', lstep s (LCancel c) = Some s' -> lstep s' LTimeout = None.
Proof.
  intros progs sched c Hf s Hc Hcl Hprog Hres Hrel Hdc Hdone Hlr s' Hstep.
  destruct (life_harmless_after_success progs sched c Hf Hc Hcl Hprog Hres Hrel Hdc) as [HR HW]. fold s in HR, HW.
  unfold lstep in Hstep. destruct (Nat.eqb c 0); [discriminate Hstep|]. injection Hstep as Hstep. subst s'.
  unfold lstep. fields. destruct (l_tl_exited s); [reflexivity|]. rewrite Hcl.
  rewrite Hlr, (updc_other _ _ _ HR), (updc_other _ _ _ HW). cbn [orb]. rewrite Hdone. reflexivity.
Qed.
Print Assumptions life_cancel_after_success.

(* ================= T3 (C20): no goroutine outlives a closed connection ================= *)
(* The statement with "l_cr s = Some g -> lp (l_thr s g) = LExited" for every later state is FALSE in the model:
   progs 0 = [LCloseNow; LCloseRead 1 5],
   sched = [LStep 0 false; LStep 0 false; LTimeout; LStep 0 false; LStep 0 false; LStep 0 false]
   ends with (LCloseNow, ROk) recorded and l_cr = Some 5 with thread 5 in LWantMu SR 1 KCRData: CloseRead called after
   Close/CloseNow has returned still starts its goroutine (which then exits after two own steps without blocking). *)
Theorem life_joined_partial : forall progs sched t call r, fresh_cr progs -> let s := lrun (linit progs) sched in
  In (call, r) (lresults (l_thr s t)) -> (match call with LClose _ _ | LCloseNow => True | _ => False end) -> r <> RWaitTimeout ->
  l_tl_exited s = true /\ l_closed s = true /\
  (forall g, l_cr s = Some g ->
     lp (l_thr s g) = LExited
     \/ (* started after the connection was closed: *) lp (l_thr s g) = LDoClose KCRExit \/ exists c, lp (l_thr s g) = LWantMu SR c KCRData).
Proof.
  intros progs sched t call r Hf s Hin Hcl Hr.
  destruct (inv12_reach progs sched Hf) as [HI HJ]. fold s in HI, HJ.
  destruct (j_join progs s HJ t call r Hin Hcl Hr) as [H1 [H2 H3]].
  split; [exact H1|]. split; [exact H2|]. intros g Hg. specialize (H3 g Hg).
  destruct (lp (l_thr s g)) eqn:E; cbn [cr_late] in H3; try contradiction H3.
  - destruct sd; [|contradiction H3]. destruct k; try contradiction H3. right. right. exists c. reflexivity.
  - destruct k; try contradiction H3. right. left. reflexivity.
  - left. reflexivity.
Qed.
Print Assumptions life_joined_partial.

(* such a late goroutine exits by itself in two always-enabled steps *)
Theorem life_late_cr_exits : forall s g c, l_closed s = true -> lp (l_thr s g) = LWantMu SR c KCRData ->
  exists s1 s2, lstep s (LStep g true) = Some s1 /\ lstep s1 (LStep g true) = Some s2 /\ lp (l_thr s2 g) = LExited.
Proof.
  intros s g c Hc Hp. eexists. eexists. split; [|split].
  - unfold lstep. cbv zeta. rewrite Hp, Hc. reflexivity.
  - unfold lstep. cbv zeta. fields. rewrite updt_same. unfold after_section. fields. reflexivity.
  - fields. rewrite updt_same. unfold after_section. fields. reflexivity.
Qed.
Print Assumptions life_late_cr_exits.

Lemma exited_stable_step : forall s e s' g, lstep s e = Some s' -> l_cr s = Some g -> lp (l_thr s g) = LExited ->
  l_cr s' = Some g /\ lp (l_thr s' g) = LExited.
Proof.
  intros s e s' g H Hcr Hp. split; [eapply cr_mono; eassumption|].
  destruct e; step_inv H; fields; try exact Hp; try discriminate Hcr.
  all: thr g t; [ | exact Hp]; rewrite E in Hp; discriminate Hp.
Qed.

Lemma exited_stable : forall sched s g, l_cr s = Some g -> lp (l_thr s g) = LExited ->
  l_cr (lrun s sched) = Some g /\ lp (l_thr (lrun s sched) g) = LExited.
Proof.
  intros sched s g H1 H2.
  apply (lrun_ind_inv (fun s => l_cr s = Some g /\ lp (l_thr s g) = LExited)); [|split; assumption].
  intros s0 e s' [Ha Hb] H. eapply exited_stable_step; eassumption.
Qed.

Lemma closed_stable : forall sched s, l_closed s = true -> l_closed (lrun s sched) = true.
Proof. intros sched s H. apply (lrun_ind_inv (fun s => l_closed s = true)); [|exact H]. intros s0 e s' H0 Hs. eapply closed_mono; eassumption. Qed.
Lemma tl_stable : forall sched s, l_tl_exited s = true -> l_tl_exited (lrun s sched) = true.
Proof. intros sched s H. apply (lrun_ind_inv (fun s => l_tl_exited s = true)); [|exact H]. intros s0 e s' H0 Hs. eapply tl_mono; eassumption. Qed.

(* exact form: when Close / CloseNow returns nil or an error other than the wait timeout (the only way: from LWaitCR),
   the timeout goroutine and the CloseRead goroutine that exists at that moment have exited, and this stays so forever *)
Theorem life_joined_after_return : forall progs sched1 t alt ok s2 sched2, let s1 := lrun (linit progs) sched1 in
  lp (l_thr s1 t) = LWaitCR ok -> lstep s1 (LStep t alt) = Some s2 ->
  let s := lrun s2 sched2 in
  l_tl_exited s = true /\ l_closed s = true /\
  (forall g, l_cr s1 = Some g -> l_cr s = Some g /\ lp (l_thr s g) = LExited).
Proof.
  intros progs sched1 t alt ok s2 sched2 s1 Hp Hstep s.
  assert (HI : Inv1 s1) by apply inv1_reach.
  assert (Htl : l_tl_exited s1 = true) by (eapply (i_wcr s1 HI); exact Hp).
  assert (Hcl : l_closed s1 = true) by (apply (i_tl s1 HI); exact Htl).
  split; [apply tl_stable; eapply tl_mono; eassumption|].
  split; [apply closed_stable; eapply closed_mono; eassumption|].
  intros g Hg. apply exited_stable.
  - eapply cr_mono; eassumption.
  - assert (Hex : lp (l_thr s1 g) = LExited).
    { unfold lstep in Hstep. cbv zeta in Hstep. rewrite Hp, Hg in Hstep. destruct (lp (l_thr s1 g)); try discriminate Hstep. reflexivity. }
    eapply exited_stable_step; eassumption.
Qed.
Print Assumptions life_joined_after_return.

(* ================= giving up a lock wait (conn.go lockTimeout): the timeout goroutine closes the connection ================= *)
Theorem life_lockreq_sticky : forall s e s', lstep s e = Some s' -> l_lockreq s = true -> l_lockreq s' = true.
Proof. intros s e s' H Hc. destruct e; step_inv H; fields; try reflexivity; exact Hc. Qed.
Print Assumptions life_lockreq_sticky.

Lemma lockreq_timeout_any : forall s, Inv1 s -> l_lockreq s = true -> l_closed s = false ->
  exists s', lstep s LTimeout = Some s' /\ l_closed s' = true.
Proof.
  intros s HI Hl Hc.
  assert (Htl : l_tl_exited s = false).
  { destruct (l_tl_exited s) eqn:Et; [|reflexivity]. rewrite (i_tl s HI Et) in Hc. discriminate Hc. }
  eexists. split.
  - unfold lstep. rewrite Htl, Hc, Hl. cbn [orb]. reflexivity.
  - reflexivity.
Qed.

Theorem life_lockreq_closes : forall progs sched, let s := lrun (linit progs) sched in
  l_lockreq s = true -> l_closed s = false ->
  exists s', lstep s LTimeout = Some s' /\ l_closed s' = true.
Proof. intros progs sched s. apply lockreq_timeout_any. apply inv1_reach. Qed.
Print Assumptions life_lockreq_closes.

Theorem life_giveup_closes : forall progs sched t sd c k, let s := lrun (linit progs) sched in
  lp (l_thr s t) = LWantMu sd c k -> l_done s c = true -> l_closed s = false ->
  exists s1, lstep s (LStep t true) = Some s1 /\
    l_closed s1 = false /\ l_lockreq s1 = true /\
    l_thr s1 t = after_section (l_thr s t) false k /\
    exists s2, lstep s1 LTimeout = Some s2 /\ l_closed s2 = true.
Proof.
  intros progs sched t sd c k s Hp Hd Hc.
  assert (HI : Inv1 s) by apply inv1_reach.
  assert (Hs : lstep s (LStep t true) =
     Some {| l_closed := l_closed s; l_closing := l_closing s; l_arm := l_arm s; l_done := l_done s; l_mu := l_mu s;
             l_tl_exited := l_tl_exited s; l_cr := l_cr s; l_lockreq := true;
             l_thr := updt (l_thr s) t (after_section (l_thr s t) false k) |}).
  { unfold lstep. cbv zeta. rewrite Hp, Hc, Hd. reflexivity. }
  eexists. split; [exact Hs|]. fields.
  split; [exact Hc|]. split; [reflexivity|]. split; [apply updt_same|].
  apply lockreq_timeout_any; [eapply inv1_step; eassumption | reflexivity | exact Hc].
Qed.
Print Assumptions life_giveup_closes.
