(* Proofs/TrimWindowP.v — the sliding window is the last [cap] bytes of everything written, for any write
   sizes; the 4-byte trim writer emits everything but the last four bytes, for any chunking. *)
From Coq Require Import List Arith Lia NArith.
From WS Require Import Base.Words Model.Mask Model.Frame Model.Proto Model.Writer.
From WS Require Export Model.Window.   (* trim_step / trim_run / sw_write live in the model; users of these proofs see them *)
Import ListNotations.
Close Scope N_scope.
Open Scope nat_scope.

(* ---------------- sliding window ---------------- *)
Lemma lastn_short {A} n (l : list A) : length l <= n -> lastn n l = l.
Proof. intro H. unfold lastn. replace (length l - n) with 0 by lia. reflexivity. Qed.

Lemma lastn_length {A} n (l : list A) : length (lastn n l) = Nat.min n (length l).
Proof. unfold lastn. rewrite skipn_length. lia. Qed.

Lemma skipn_app_le {A} n (a b : list A) : n <= length a -> skipn n (a ++ b) = skipn n a ++ b.
Proof. intro H. rewrite skipn_app. replace (n - length a) with 0 by lia. reflexivity. Qed.

Lemma skipn_app_ge {A} n (a b : list A) : length a <= n -> skipn n (a ++ b) = skipn (n - length a) b.
Proof. intro H. rewrite skipn_app. rewrite skipn_all2 by lia. reflexivity. Qed.

Lemma skipn_skipn' {A} : forall a b (l : list A), skipn a (skipn b l) = skipn (b + a) l.
Proof. intros a b. revert a. induction b as [|b IH]; intros a l; [reflexivity|]. destruct l as [|x l]; [destruct a; reflexivity|]. cbn [skipn plus]. apply IH. Qed.

Theorem sw_write_spec cap buf p : length buf <= cap -> sw_write cap buf p = lastn cap (buf ++ p).
Proof. intro Hb. unfold sw_write, lastn. rewrite app_length.
  destruct (Nat.leb_spec cap (length p)) as [Hc|Hc].
  - rewrite skipn_app_ge by lia. f_equal. lia.
  - destruct (Nat.ltb_spec (cap - length buf) (length p)) as [Hl|Hl].
    + rewrite skipn_app_le by lia. f_equal. f_equal. lia.
    + replace (length buf + length p - cap) with 0 by lia. reflexivity. Qed.

Lemma lastn_app_lastn {A} n (a b : list A) : lastn n (lastn n a ++ b) = lastn n (a ++ b).
Proof. unfold lastn. rewrite !app_length, skipn_length.
  destruct (Nat.le_gt_cases (length a) n) as [H|H].
  - replace (length a - n) with 0 by lia. cbn [skipn]. f_equal. lia.
  - destruct (Nat.le_gt_cases (length b) n) as [Hb|Hb].
    + rewrite (skipn_app_le _ (skipn (length a - n) a) b) by (rewrite skipn_length; lia).
      rewrite (skipn_app_le _ a b) by lia. f_equal. rewrite skipn_skipn'. f_equal. lia.
    + rewrite (skipn_app_ge _ (skipn (length a - n) a) b) by (rewrite skipn_length; lia).
      rewrite (skipn_app_ge _ a b) by lia. f_equal. rewrite skipn_length. lia. Qed.

Theorem sw_run_spec cap ps : sw_run cap ps = lastn cap (concat ps).
Proof. unfold sw_run.
  assert (G : forall ps buf, length buf <= cap -> fold_left (sw_write cap) ps buf = lastn cap (buf ++ concat ps)).
  { induction ps0 as [|p r IH]; intros buf Hb; cbn [fold_left concat].
    - rewrite app_nil_r. symmetry. apply lastn_short; exact Hb.
    - rewrite IH. + rewrite sw_write_spec by exact Hb. rewrite lastn_app_lastn, app_assoc. reflexivity.
      + rewrite sw_write_spec by exact Hb. rewrite lastn_length. lia. }
  rewrite G by (cbn; lia). reflexivity. Qed.

(* whatever goes downstream plus the new tail is the old tail plus the chunk; the tail holds the last <= 4 bytes *)
Theorem trim_step_spec tail p : length tail <= 4 ->
  let '(outs, tail') := trim_step tail p in
  concat outs ++ tail' = tail ++ p /\ length tail' = Nat.min 4 (length tail + length p) /\ Forall (fun o => o <> []) outs.
Proof. intro Ht. unfold trim_step. cbv zeta.
  destruct (Nat.leb_spec (length tail + length p) 4) as [Hs|Hs].
  - cbn [concat app]. rewrite app_length. repeat split; [lia | constructor].
  - set (extra := Nat.min (length tail + length p - 4) (length tail)).
    destruct (Nat.leb_spec (length p) 4) as [Hp|Hp].
    + destruct (Nat.ltb_spec 0 extra) as [He|He].
      * cbn [concat]. rewrite app_nil_r. rewrite app_assoc, firstn_skipn. rewrite app_length, skipn_length.
        repeat split; [unfold extra; lia|]. constructor; [|constructor]. intro X. apply (f_equal (@length N)) in X. rewrite firstn_length in X. cbn in X. unfold extra in *. lia.
      * unfold extra in *. lia.
    + assert (Ee : extra = length tail) by (unfold extra; lia).
      rewrite Ee. rewrite skipn_all, firstn_all. cbn [app].
      destruct (Nat.ltb_spec 0 (length tail)) as [He|He].
      * cbn [concat app]. rewrite app_nil_r. rewrite <- app_assoc. rewrite firstn_skipn. rewrite skipn_length.
        repeat split; [lia|]. constructor; [destruct tail; [cbn in He; lia|discriminate]|]. constructor; [|constructor].
        intro X. apply (f_equal (@length N)) in X. rewrite firstn_length in X. cbn in X. lia.
      * destruct tail; [|cbn in He; lia]. cbn [concat app]. rewrite app_nil_r, firstn_skipn, skipn_length. repeat split; [lia|].
        constructor; [|constructor]. intro X. apply (f_equal (@length N)) in X. rewrite firstn_length in X. cbn in X. lia.
Qed.

Theorem trim_run_spec : forall ps tail, length tail <= 4 ->
  let '(outs, tail') := trim_run tail ps in
  concat outs ++ tail' = tail ++ concat ps /\ length tail' = Nat.min 4 (length tail + length (concat ps)).
Proof. induction ps as [|p r IH]; intros tail Ht; cbn [trim_run concat].
  - rewrite app_nil_r. cbn [concat app length]. split; [reflexivity | lia].
  - pose proof (trim_step_spec tail p Ht) as H1. destruct (trim_step tail p) as [o t1]. destruct H1 as (E1 & L1 & _).
    assert (Ht1 : length t1 <= 4) by lia.
    pose proof (IH t1 Ht1) as H2. destruct (trim_run t1 r) as [os t2]. destruct H2 as (E2 & L2).
    split.
    + rewrite concat_app, <- app_assoc, E2, app_assoc, E1, <- app_assoc. reflexivity.
    + rewrite L2, L1, app_length. lia. Qed.

Corollary trim_stream : forall ps, 4 <= length (concat ps) ->
  let '(outs, tail') := trim_run [] ps in
  concat outs = firstn (length (concat ps) - 4) (concat ps) /\ tail' = lastn 4 (concat ps).
Proof. intros ps H. pose proof (trim_run_spec ps [] ltac:(cbn; lia)) as S. destruct (trim_run [] ps) as [outs t]. destruct S as (E & L).
  cbn [app length] in *. rewrite Nat.min_l in L by lia.
  assert (Lo : length (concat outs) = length (concat ps) - 4) by (apply (f_equal (@length N)) in E; rewrite app_length in E; lia).
  split.
  - rewrite <- Lo. rewrite <- E. rewrite firstn_app, Nat.sub_diag, firstn_all. cbn. rewrite app_nil_r. reflexivity.
  - unfold lastn. rewrite <- Lo. rewrite <- E. rewrite skipn_app, Nat.sub_diag, skipn_all. reflexivity. Qed.

(* the Writer model's trim_write is trim_step followed by one data frame per downstream write *)
Section TrimWrite.
Variable keys : nat -> key.
Variable cfg : wcfg.
Lemma trim_write_as_step m p :
  trim_write keys cfg m p =
  let '(outs, tail') := trim_step (m_tail m) p in
  let m1 := fold_left (mw_frame keys cfg) outs m in
  {| m_s := m_s m1; m_opc := m_opc m1; m_flate := m_flate m1; m_tail := tail'; m_hist := m_hist m1 |}.
Proof. unfold trim_write, trim_step. cbv zeta.
  destruct (Nat.leb (length (m_tail m) + length p) 4); [reflexivity|].
  destruct (Nat.ltb 0 (Nat.min (length (m_tail m) + length p - 4) (length (m_tail m)))); destruct (Nat.leb (length p) 4); cbn [fold_left app]; reflexivity. Qed.
End TrimWrite.

(* ---------------- the copy-then-mask loop of writeFramePayload ---------------- *)
From WS Require Import Proofs.MaskP.
Close Scope N_scope.
Theorem wp_loop_spec : forall (fuel cap : nat) (wire buffered : bytes) (k : key) (p : bytes), 0 < cap -> length buffered <= cap -> wf_key k -> wf_bytes p -> length p < fuel ->
  let '(wire', buffered', k') := wp_loop fuel cap wire buffered k p in
  wire' ++ buffered' = wire ++ buffered ++ mask_spec k p /\ k' = rotk k (length p) /\ length buffered' <= cap.
Proof. induction fuel as [|fuel IH]; intros cap wire buffered k p Hc Hb Hk Hp Hf; [lia|].
  cbn [wp_loop]. destruct p as [|x p'] eqn:Ep.
  - destruct k as [[[k0 k1] k2] k3]. cbn [mask_spec xorc length]. rewrite app_nil_r. repeat split; auto.
  - assert (Hne : 0 < length (x :: p')) by (cbn [length]; lia).
    rewrite <- Ep in *. clear Ep x p'.
    set (wb := if Nat.eqb (cap - length buffered) 0 then (wire ++ buffered, []) else (wire, buffered)).
    assert (W : fst wb ++ snd wb = wire ++ buffered /\ length (snd wb) < cap).
    { unfold wb. destruct (Nat.eqb_spec (cap - length buffered) 0); cbn [fst snd length]; [rewrite app_nil_r; split; [reflexivity|lia] | split; [reflexivity|lia]]. }
    destruct wb as [wire1 buf1]. cbn [fst snd] in W. destruct W as (W1 & W2).
    set (j := Nat.min (length p) (cap - length buf1)).
    assert (Hj : 0 < j <= length p) by (unfold j; lia).
    rewrite maskGo_spec by (auto using wf_firstn).
    specialize (IH cap wire1 (buf1 ++ mask_spec k (firstn j p)) (rotk k (length (firstn j p))) (skipn j p) Hc).
    destruct (wp_loop fuel cap wire1 (buf1 ++ mask_spec k (firstn j p)) (rotk k (length (firstn j p))) (skipn j p)) as [[w' b'] k'].
    destruct IH as (E1 & E2 & E3).
    + rewrite app_length, mask_spec_length, firstn_length. unfold j. lia.
    + apply rotk_wf; auto.
    + apply wf_skipn; auto.
    + rewrite skipn_length. lia.
    + split; [|split; auto].
      * rewrite E1. replace (mask_spec k p) with (mask_spec k (firstn j p ++ skipn j p)) by (rewrite firstn_skipn; reflexivity). rewrite mask_compose. rewrite <- !app_assoc. rewrite app_assoc, W1. rewrite <- !app_assoc. reflexivity.
      * rewrite E2, rotk_rotk. f_equal. rewrite firstn_length, skipn_length. lia.
Qed.
