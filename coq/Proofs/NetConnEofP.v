(* Proofs/NetConnEofP.v — the converse of nc_eof (Proofs/NetConnP.v): the adapter reports a clean end of stream (io.EOF)
   ONLY for a peer's normal (1000) or going-away (1001) Close frame — never for a failure of the connection, for another
   close code, or for a message of the wrong type. *)
From Coq Require Import List NArith Lia ZArith Bool.
From WS Require Import Base.Words Gen.Consts Model.NetConn.
Import ListNotations.

(* ---- sanity of the shape of the statement, by computation ---- *)
(* a failure of the connection after a message: the bytes, then the error — not io.EOF *)
Example ex_fail_after_msg_is_err :
  fst (nc_reads (nc_init 2%N [NMsg 2%N [1%N; 2%N]; NFail]) [8; 8; 8]%nat) = [NData [1%N; 2%N]; NErr].
Proof. vm_compute. reflexivity. Qed.
(* a going-away close after a message: the bytes, then io.EOF *)
Example ex_going_away_is_eof :
  fst (nc_reads (nc_init 2%N [NMsg 2%N [1%N; 2%N]; NClose 1001%Z]) [8; 8; 8]%nat) = [NData [1%N; 2%N]; NEOF].
Proof. vm_compute. reflexivity. Qed.
(* single reads: NFail -> NErr, NClose 1001 -> NEOF, NClose 1002 -> the CloseError, wrong type -> NErrType *)
Example ex_single_reads :
  fst (nc_read 5 (nc_init 2%N [NFail]) 8) = NErr /\
  fst (nc_read 5 (nc_init 2%N [NClose 1001%Z]) 8) = NEOF /\
  fst (nc_read 5 (nc_init 2%N [NClose 1000%Z]) 8) = NEOF /\
  fst (nc_read 5 (nc_init 2%N [NClose 1002%Z]) 8) = NErrClose 1002%Z /\
  fst (nc_read 5 (nc_init 2%N [NMsg 1%N []; NClose 1000%Z]) 8) = NErrType.
Proof. vm_compute. repeat split. Qed.
(* an exhausted current message (Some []) and skipped empty messages ARE possible on the way to the EOF:
   both side conditions of the theorem below are needed in this generality *)
Example ex_exhausted_cur_then_eof :
  nc_read 9 {| nc_typ := 2%N; nc_cur := Some []; nc_eofed := false;
               nc_in := [NMsg 2%N []; NMsg 2%N []; NClose 1000%Z; NFail]; nc_closed1003 := false |} 8
  = (NEOF, {| nc_typ := 2%N; nc_cur := None; nc_eofed := true; nc_in := [NFail]; nc_closed1003 := false |}).
Proof. vm_compute. reflexivity. Qed.
(* with bytes left in the current message the read gives data, whatever follows *)
Example ex_unread_cur_is_data :
  fst (nc_read 9 {| nc_typ := 2%N; nc_cur := Some [7%N]; nc_eofed := false; nc_in := [NClose 1000%Z]; nc_closed1003 := false |} 8)
  = NData [7%N].
Proof. vm_compute. reflexivity. Qed.

(* ---- the converse of nc_eof ---- *)
(* io.EOF from a state that had not seen the end of the stream: the first input item that is not a skipped empty message
   of the right type is a Close frame with code 1000 or 1001, the current message (if any) had been read to its end, and
   the read consumed the input exactly up to and including that Close frame *)
Theorem nc_eof_only_after_normal_close : forall fuel s n s',
  nc_eofed s = false ->
  nc_read fuel s n = (NEOF, s') ->
  exists pre code r,
    nc_in s = pre ++ NClose code :: r /\
    (code = c_StatusNormalClosure \/ code = c_StatusGoingAway) /\
    Forall (fun i => i = NMsg (nc_typ s) []) pre /\
    (nc_cur s = None \/ nc_cur s = Some []) /\
    nc_in s' = r /\ nc_eofed s' = true.
Proof.
  induction fuel as [|fuel IH]; intros s n s' He H; cbn [nc_read] in H; [discriminate|].
  rewrite He in H.
  destruct (nc_cur s) as [[|x c]|] eqn:Ec.
  - (* exhausted current message: the loop goes round *)
    apply IH in H; [|reflexivity]. cbn [nc_in nc_cur nc_typ] in H.
    destruct H as (pre & code & r & Hi & Hc & Hp & _ & Hr & Hf).
    exists pre, code, r. repeat split; auto.
  - (* bytes left: data, not EOF *) discriminate.
  - destruct (nc_in s) as [|[t p|code|] r] eqn:Ei; try discriminate.
    + (* a message *)
      destruct (N.eqb_spec t (nc_typ s)) as [Et|Et]; cbn [negb] in H; [|discriminate].
      apply IH in H; [|reflexivity]. cbn [nc_in nc_cur nc_typ] in H.
      destruct H as (pre & code & r' & Hi & Hc & Hp & Hcur & Hr & Hf).
      destruct Hcur as [Hcur|Hcur]; [discriminate|]. injection Hcur as ->. subst t r.
      exists (NMsg (nc_typ s) [] :: pre), code, r'. repeat split; auto.
    + (* a Close frame *)
      destruct ((code =? c_StatusNormalClosure) || (code =? c_StatusGoingAway))%Z eqn:Eb; [|discriminate].
      injection H as <-. cbn [nc_in nc_eofed].
      exists [], code, r. repeat split; auto.
      apply orb_true_iff in Eb. destruct Eb as [Eb|Eb]; apply Z.eqb_eq in Eb; auto.
Qed.

(* the essential content, without the bookkeeping: NEOF from a non-EOFed state => the input contains a normal close *)
Definition is_normal_close (i : nin) : bool :=
  match i with NClose c => ((c =? c_StatusNormalClosure) || (c =? c_StatusGoingAway))%Z | _ => false end.
Definition no_normal_close (l : list nin) : Prop := existsb is_normal_close l = false.

Lemma no_normal_close_spec : forall l, no_normal_close l <-> ~ In (NClose c_StatusNormalClosure) l /\ ~ In (NClose c_StatusGoingAway) l.
Proof.
  unfold no_normal_close. induction l as [|i l IH]; cbn [existsb In]; [tauto|].
  rewrite orb_false_iff, IH. split.
  - intros (Hi & H1 & H2). split; intros [X|X]; try tauto; subst i; discriminate.
  - intros (H1 & H2). split; [|tauto].
    destruct i as [t p|c|]; cbn [is_normal_close]; auto.
    apply orb_false_iff. split; apply Z.eqb_neq; intros ->; tauto.
Qed.

(* no normal / going-away Close frame in the input (only messages, failures and other close codes): no read returns
   io.EOF, whatever the fuel, the state of the current message and the buffer size *)
Theorem nc_fail_never_eof : forall fuel s n,
  no_normal_close (nc_in s) -> nc_eofed s = false -> fst (nc_read fuel s n) <> NEOF.
Proof.
  intros fuel s n Hno He Hr. destruct (nc_read fuel s n) as [o s'] eqn:E. cbn [fst] in Hr. subst o.
  destruct (nc_eof_only_after_normal_close _ _ _ _ He E) as (pre & code & r & Hi & Hc & _).
  unfold no_normal_close in Hno. rewrite Hi, existsb_app in Hno. cbn [existsb is_normal_close] in Hno.
  apply orb_false_iff in Hno. destruct Hno as (_ & Hno). apply orb_false_iff in Hno. destruct Hno as (Hno & _).
  destruct Hc as [-> | ->]; discriminate.
Qed.

(* once the end of the stream has been seen, every read reports it again and changes nothing *)
Theorem nc_eof_sticky_only : forall fuel s n, nc_eofed s = true -> nc_read (S fuel) s n = (NEOF, s).
Proof. intros fuel s n He. cbn [nc_read]. rewrite He. reflexivity. Qed.

(* ---- every sequence of reads ---- *)
(* a read that does not report EOF leaves the state non-EOFed, and what is left of the input is a suffix of what was there *)
Lemma nc_read_step : forall fuel s n o s', nc_eofed s = false -> nc_read fuel s n = (o, s') ->
  (o = NEOF <-> nc_eofed s' = true) /\ exists pre, nc_in s = pre ++ nc_in s'.
Proof.
  induction fuel as [|fuel IH]; intros s n o s' He H; cbn [nc_read] in H.
  - injection H as <- <-. split; [split; [discriminate|congruence]|]. exists []. reflexivity.
  - rewrite He in H. destruct (nc_cur s) as [[|x c]|] eqn:Ec.
    + apply IH in H; [|reflexivity]. exact H.
    + injection H as <- <-. cbn [nc_eofed nc_in]. split; [split; discriminate|]. exists []. reflexivity.
    + destruct (nc_in s) as [|[t p|code|] r] eqn:Ei.
      * injection H as <- <-. rewrite He, Ei. split; [split; discriminate|]. exists []. reflexivity.
      * destruct (negb (t =? nc_typ s)%N).
        -- injection H as <- <-. cbn [nc_eofed nc_in]. split; [split; discriminate|]. exists [NMsg t p]. reflexivity.
        -- apply IH in H; [|reflexivity]. cbn [nc_in] in H. destruct H as (A & pre & B). split; [exact A|].
           exists (NMsg t p :: pre). rewrite B. reflexivity.
      * destruct ((code =? c_StatusNormalClosure) || (code =? c_StatusGoingAway))%Z; injection H as <- <-; cbn [nc_eofed nc_in].
        -- split; [split; reflexivity|]. exists [NClose code]. reflexivity.
        -- split; [split; discriminate|]. exists [NClose code]. reflexivity.
      * injection H as <- <-. cbn [nc_eofed nc_in]. split; [split; discriminate|]. exists [NFail]. reflexivity.
Qed.

Lemma no_normal_close_suffix : forall pre l, no_normal_close (pre ++ l) -> no_normal_close l.
Proof. unfold no_normal_close. intros pre l H. rewrite existsb_app in H. apply orb_false_iff in H. tauto. Qed.

(* an arbitrary sequence of Read calls, each with its own loop bound and buffer size, never stopping *)
Fixpoint nc_run (s : ncst) (calls : list (nat * nat)) : list nres * ncst :=
  match calls with
  | [] => ([], s)
  | (fuel, n) :: r => let '(o, s1) := nc_read fuel s n in let '(os, s2) := nc_run s1 r in (o :: os, s2)
  end.

(* no normal close in the input: no read of any sequence of reads reports io.EOF — a failure of the connection, another
   close code or a message of the wrong type is never mistaken for a clean end of the stream, however the reads go on
   after the error *)
Theorem nc_fail_never_eof_run : forall calls s,
  no_normal_close (nc_in s) -> nc_eofed s = false -> ~ In NEOF (fst (nc_run s calls)).
Proof.
  induction calls as [|[fuel n] r IH]; intros s Hno He; cbn [nc_run]; [intros []|].
  pose proof (nc_fail_never_eof fuel s n Hno He) as Hne.
  destruct (nc_read fuel s n) as [o s1] eqn:E. cbn [fst] in Hne.
  destruct (nc_read_step _ _ _ _ _ He E) as (Heo & pre & Hpre).
  assert (He1 : nc_eofed s1 = false) by (destruct (nc_eofed s1); [exfalso; apply Hne, Heo; reflexivity|reflexivity]).
  assert (Hno1 : no_normal_close (nc_in s1)) by (rewrite Hpre in Hno; eapply no_normal_close_suffix; exact Hno).
  specialize (IH s1 Hno1 He1). destruct (nc_run s1 r) as [os s2]. cbn [fst] in *.
  intros [X|X]; [exact (Hne X)|exact (IH X)].
Qed.

(* the same for the harness of the model (nc_reads: stops at the first result that is not data) *)
Theorem nc_fail_never_eof_reads : forall sizes s,
  no_normal_close (nc_in s) -> nc_eofed s = false -> ~ In NEOF (fst (nc_reads s sizes)).
Proof.
  induction sizes as [|n r IH]; intros s Hno He; cbn [nc_reads]; [intros []|].
  pose proof (nc_fail_never_eof (2 * length (nc_in s) + 3) s n Hno He) as Hne.
  destruct (nc_read (2 * length (nc_in s) + 3) s n) as [o s1] eqn:E. cbn [fst] in Hne.
  destruct (nc_read_step _ _ _ _ _ He E) as (Heo & pre & Hpre).
  assert (He1 : nc_eofed s1 = false) by (destruct (nc_eofed s1); [exfalso; apply Hne, Heo; reflexivity|reflexivity]).
  assert (Hno1 : no_normal_close (nc_in s1)) by (rewrite Hpre in Hno; eapply no_normal_close_suffix; exact Hno).
  specialize (IH s1 Hno1 He1).
  destruct o; try (cbn [fst In]; intros [X|[]]; exact (Hne X)).
  destruct (nc_reads s1 r) as [os s2]. cbn [fst] in *. intros [X|X]; [discriminate|exact (IH X)].
Qed.

(* and in a sequence of reads, after the first io.EOF every result is io.EOF and the state no longer changes *)
Theorem nc_run_eofed : forall calls s, nc_eofed s = true -> Forall (fun c => fst c <> O) calls ->
  Forall (fun o => o = NEOF) (fst (nc_run s calls)) /\ snd (nc_run s calls) = s.
Proof.
  induction calls as [|[fuel n] r IH]; intros s He Hc; cbn [nc_run]; [split; constructor|].
  inversion Hc as [|? ? Hf Hr]; subst. cbn [fst] in Hf. destruct fuel as [|fuel]; [congruence|].
  rewrite (nc_eof_sticky_only fuel s n He). specialize (IH s He Hr). destruct (nc_run s r) as [os s2]. cbn [fst snd] in *.
  destruct IH as (A & B). split; [constructor; auto|exact B].
Qed.

Print Assumptions nc_fail_never_eof.
Print Assumptions nc_fail_never_eof_run.
Print Assumptions nc_fail_never_eof_reads.
Print Assumptions nc_eof_sticky_only.
Print Assumptions nc_eof_only_after_normal_close.
