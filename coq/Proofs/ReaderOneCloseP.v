(* Proofs/ReaderOneCloseP.v — the read side writes AT MOST ONE Close frame, whatever the peer sends (any bytes:
   valid, malformed, hostile), however the transport ends and whatever the application does with the read
   side; the close-sent flag is exactly "a Close frame has been written"; after the Close frame only Pongs
   are written.  For every configuration, every inflater, every limit.

   Method: the invariant [OneClose s] (number of Close replies = if r_close_sent then 1 else 0) holds for
   [r_init] and is preserved by every state-transforming function of Model/Reader.v. *)
From Coq Require Import List NArith Lia ZArith Bool.
From WS Require Import Base.Words Gen.Consts Gen.CloseCode Model.Mask Model.Frame Model.Proto Model.CloseCodec Model.RefDecoder Model.Reader.
Import ListNotations.
Open Scope N_scope.

Definition is_close_reply (r : reply) : bool := match r with RpClose _ _ => true | RpPong _ => false end.
Definition is_pong_reply (r : reply) : Prop := exists p, r = RpPong p.

(* number of Close frames among the replies *)
Definition ncl (l : list reply) : nat := length (filter is_close_reply l).

Lemma ncl_app : forall a b, ncl (a ++ b) = (ncl a + ncl b)%nat.
Proof. intros a b. unfold ncl. rewrite filter_app, app_length. reflexivity. Qed.

Lemma ncl_0_pongs : forall l, ncl l = 0%nat -> Forall is_pong_reply l.
Proof.
  induction l as [|r l IH]; intro H; [constructor|].
  destruct r as [p|c rs].
  - constructor; [exists p; reflexivity|]. apply IH. exact H.
  - discriminate H.
Qed.

Lemma ncl_In : forall l, (exists c rs, In (RpClose c rs) l) <-> (0 < ncl l)%nat.
Proof.
  induction l as [|r l IH].
  - split; [intros (c & rs & []) | intro H; inversion H].
  - split.
    + intros (c & rs & [H|H]).
      * subst r. unfold ncl. cbn. lia.
      * assert (0 < ncl l)%nat by (apply IH; eauto). destruct r; unfold ncl in *; cbn; lia.
    + intro H. destruct r as [p|c rs].
      * destruct IH as [_ IH]. destruct (IH H) as (c & rs & Hin). exists c, rs. right. exact Hin.
      * exists c, rs. left. reflexivity.
Qed.

(* ---------------- the invariant ---------------- *)
Definition OneClose (s : rst) : Prop := ncl (r_replies s) = (if r_close_sent s then 1 else 0)%nat.

Lemma OC_init : forall lim inq e, OneClose (r_init lim inq e).
Proof. reflexivity. Qed.

(* reply-neutral record updates: [r_replies] and [r_close_sent] are untouched *)
Lemma replies_set_inq : forall s q, r_replies (set_inq s q) = r_replies s. Proof. reflexivity. Qed.
Lemma close_sent_set_inq : forall s q, r_close_sent (set_inq s q) = r_close_sent s. Proof. reflexivity. Qed.
Lemma replies_set_closed : forall s, r_replies (set_closed s) = r_replies s. Proof. reflexivity. Qed.
Lemma close_sent_set_closed : forall s, r_close_sent (set_closed s) = r_close_sent s. Proof. reflexivity. Qed.
Lemma replies_add_pong_note : forall s p, r_replies (add_pong_note s p) = r_replies s. Proof. reflexivity. Qed.
Lemma close_sent_add_pong_note : forall s p, r_close_sent (add_pong_note s p) = r_close_sent s. Proof. reflexivity. Qed.
Lemma replies_set_frame : forall s h, r_replies (set_frame s h) = r_replies s. Proof. reflexivity. Qed.
Lemma close_sent_set_frame : forall s h, r_close_sent (set_frame s h) = r_close_sent s. Proof. reflexivity. Qed.
Lemma replies_reset_msg : forall cfg s h, r_replies (reset_msg cfg s h) = r_replies s. Proof. reflexivity. Qed.
Lemma close_sent_reset_msg : forall cfg s h, r_close_sent (reset_msg cfg s h) = r_close_sent s. Proof. reflexivity. Qed.
Lemma replies_sub_plen : forall s k key', r_replies (sub_plen s k key') = r_replies s. Proof. reflexivity. Qed.
Lemma close_sent_sub_plen : forall s k key', r_close_sent (sub_plen s k key') = r_close_sent s. Proof. reflexivity. Qed.
Lemma replies_set_z : forall s out e, r_replies (set_z s out e) = r_replies s. Proof. reflexivity. Qed.
Lemma close_sent_set_z : forall s out e, r_close_sent (set_z s out e) = r_close_sent s. Proof. reflexivity. Qed.
Lemma replies_take_z : forall s k, r_replies (take_z s k) = r_replies s. Proof. reflexivity. Qed.
Lemma close_sent_take_z : forall s k, r_close_sent (take_z s k) = r_close_sent s. Proof. reflexivity. Qed.
Lemma replies_end_z : forall cfg s all, r_replies (end_z cfg s all) = r_replies s. Proof. reflexivity. Qed.
Lemma close_sent_end_z : forall cfg s all, r_close_sent (end_z cfg s all) = r_close_sent s. Proof. reflexivity. Qed.
Lemma replies_sub_lrn : forall s k, r_replies (sub_lrn s k) = r_replies s. Proof. reflexivity. Qed.
Lemma close_sent_sub_lrn : forall s k, r_close_sent (sub_lrn s k) = r_close_sent s. Proof. reflexivity. Qed.
Lemma replies_set_limit : forall s n, r_replies (set_limit s n) = r_replies s. Proof. reflexivity. Qed.
Lemma close_sent_set_limit : forall s n, r_close_sent (set_limit s n) = r_close_sent s. Proof. reflexivity. Qed.

Lemma OC_neutral : forall s s', r_replies s' = r_replies s -> r_close_sent s' = r_close_sent s -> OneClose s -> OneClose s'.
Proof. unfold OneClose. intros s s' Hr Hc H. rewrite Hr, Hc. exact H. Qed.

Lemma OC_set_inq : forall s q, OneClose s -> OneClose (set_inq s q).
Proof. intros s q. apply OC_neutral; [apply replies_set_inq | apply close_sent_set_inq]. Qed.
Lemma OC_set_closed : forall s, OneClose s -> OneClose (set_closed s).
Proof. intros s. apply OC_neutral; [apply replies_set_closed | apply close_sent_set_closed]. Qed.
Lemma OC_add_pong_note : forall s p, OneClose s -> OneClose (add_pong_note s p).
Proof. intros s p. apply OC_neutral; [apply replies_add_pong_note | apply close_sent_add_pong_note]. Qed.
Lemma OC_set_frame : forall s h, OneClose s -> OneClose (set_frame s h).
Proof. intros s h. apply OC_neutral; [apply replies_set_frame | apply close_sent_set_frame]. Qed.
Lemma OC_reset_msg : forall cfg s h, OneClose s -> OneClose (reset_msg cfg s h).
Proof. intros cfg s h. apply OC_neutral; [apply replies_reset_msg | apply close_sent_reset_msg]. Qed.
Lemma OC_sub_plen : forall s k key', OneClose s -> OneClose (sub_plen s k key').
Proof. intros s k key'. apply OC_neutral; [apply replies_sub_plen | apply close_sent_sub_plen]. Qed.
Lemma OC_set_z : forall s out e, OneClose s -> OneClose (set_z s out e).
Proof. intros s out e. apply OC_neutral; [apply replies_set_z | apply close_sent_set_z]. Qed.
Lemma OC_take_z : forall s k, OneClose s -> OneClose (take_z s k).
Proof. intros s k. apply OC_neutral; [apply replies_take_z | apply close_sent_take_z]. Qed.
Lemma OC_end_z : forall cfg s all, OneClose s -> OneClose (end_z cfg s all).
Proof. intros cfg s all. apply OC_neutral; [apply replies_end_z | apply close_sent_end_z]. Qed.
Lemma OC_sub_lrn : forall s k, OneClose s -> OneClose (sub_lrn s k).
Proof. intros s k. apply OC_neutral; [apply replies_sub_lrn | apply close_sent_sub_lrn]. Qed.
Lemma OC_set_limit : forall s n, OneClose s -> OneClose (set_limit s n).
Proof. intros s n. apply OC_neutral; [apply replies_set_limit | apply close_sent_set_limit]. Qed.

(* the only functions that write a frame *)
Lemma OC_add_reply : forall s r, OneClose s -> OneClose (add_reply s r).
Proof.
  intros s r H. unfold OneClose in *. unfold add_reply. destruct r as [p|c rs].
  - cbn [andb r_replies r_close_sent]. rewrite ncl_app, H, orb_false_r. cbn. lia.
  - destruct (r_close_sent s) eqn:E; cbn [andb].
    + rewrite E. exact H.
    + cbn [r_replies r_close_sent orb]. rewrite ncl_app, H. reflexivity.
Qed.

Lemma OC_write_error : forall s code, OneClose s -> OneClose (write_error s code).
Proof. intros s code. apply OC_add_reply. Qed.

Create HintDb oc.
#[export] Hint Resolve OC_set_inq OC_set_closed OC_add_pong_note OC_set_frame OC_reset_msg OC_sub_plen OC_set_z OC_take_z OC_end_z
  OC_sub_lrn OC_set_limit OC_add_reply OC_write_error : oc.

(* the final state of a [res] *)
Definition res_st {A} (r : res A) : rst := match r with Ok _ s => s | Err _ s => s end.

Section Pres.
Variable cfg : rcfg.
Variable inflate : bytes -> bytes -> bytes * istatus.

Lemma OC_read_hdr : forall s, OneClose s -> OneClose (res_st (read_hdr s)).
Proof.
  intros s H. unfold read_hdr. destruct (r_closed s); [exact H|].
  destruct (dec_hdr (r_inq s)); cbn [res_st]; auto with oc.
Qed.

Lemma OC_read_payload : forall s n, OneClose s -> OneClose (snd (read_payload s n)).
Proof.
  intros s n H. unfold read_payload. destruct (r_closed s); [exact H|].
  destruct (take_n n (r_inq s)) as [[a b]|]; cbn [snd]; auto with oc.
Qed.

Lemma OC_handle_control : forall s h, OneClose s -> OneClose (res_st (handle_control s h)).
Proof.
  intros s h H. unfold handle_control.
  destruct (125 <? h_plen h); [cbn [res_st]; auto with oc|].
  destruct (negb (h_fin h)); [cbn [res_st]; auto with oc|].
  pose proof (OC_read_payload s (N.to_nat (h_plen h)) H) as Hp.
  destruct (read_payload s (N.to_nat (h_plen h))) as [[raw e] s1]. cbn [snd] in Hp.
  destruct e as [err|]; [exact Hp|].
  destruct (h_opc h =? 9); [cbn [res_st]; auto with oc|].
  destruct (h_opc h =? 10); [cbn [res_st]; auto with oc|].
  destruct (parse_close _) as [[code reason]|]; cbn [res_st]; auto with oc.
Qed.

Lemma OC_read_loop : forall fuel s, OneClose s -> OneClose (res_st (read_loop cfg fuel s)).
Proof.
  induction fuel as [|f IH]; intros s H; [exact H|].
  cbn [read_loop].
  pose proof (OC_read_hdr s H) as Hh.
  destruct (read_hdr s) as [h s1|e s1]; cbn [res_st] in Hh; [|exact Hh].
  destruct (_ || h_rsv2 h || h_rsv3 h); [cbn [res_st]; auto with oc|].
  destruct (is_server cfg && negb (h_masked h)); [exact Hh|].
  destruct (negb (is_server cfg) && h_masked h); [exact Hh|].
  destruct ((h_opc h =? 8) || (h_opc h =? 9) || (h_opc h =? 10)).
  - pose proof (OC_handle_control s1 h Hh) as Hc.
    destruct (handle_control s1 h) as [u s2|e s2]; cbn [res_st] in Hc; [|exact Hc].
    apply IH. exact Hc.
  - destruct ((h_opc h =? 0) || (h_opc h =? 1) || (h_opc h =? 2)); cbn [res_st]; auto with oc.
Qed.

Lemma OC_reader : forall fuel s, OneClose s -> OneClose (res_st (reader cfg fuel s)).
Proof.
  intros fuel s H. unfold reader.
  destruct (r_closed s); [exact H|].
  destruct (negb (r_fin s)); [exact H|].
  pose proof (OC_read_loop fuel s H) as Hl.
  destruct (read_loop cfg fuel s) as [h s1|e s1]; cbn [res_st] in Hl; [|exact Hl].
  destruct (h_opc h =? 0); cbn [res_st]; auto with oc.
Qed.

Lemma OC_raw_read : forall fuel n s, OneClose s -> OneClose (snd (raw_read cfg fuel n s)).
Proof.
  induction fuel as [|f IH]; intros n s H; [exact H|].
  cbn [raw_read].
  destruct (r_plen s =? 0).
  - destruct (r_fin s); [exact H|].
    pose proof (OC_read_loop (S f) s H) as Hl.
    destruct (read_loop cfg (S f) s) as [h s1|e s1]; cbn [res_st] in Hl; [|exact Hl].
    destruct (negb (h_opc h =? 0)); [cbn [snd]; auto with oc|].
    apply IH. auto with oc.
  - match goal with |- context [read_payload s ?k] =>
      pose proof (OC_read_payload s k H) as Hp; destruct (read_payload s k) as [[raw e] s1] end.
    cbn [snd] in *. auto with oc.
Qed.

Lemma OC_pull_all : forall fuel s racc, OneClose s -> OneClose (snd (pull_all cfg fuel s racc)).
Proof.
  induction fuel as [|f IH]; intros s racc H; [exact H|].
  cbn [pull_all].
  pose proof (OC_raw_read (S (S f)) bufio_size s H) as Hr.
  destruct (raw_read cfg (S (S f)) bufio_size s) as [[[d e] eof] s1]. cbn [snd] in Hr.
  destruct e as [err|]; [exact Hr|].
  destruct eof; [exact Hr|]. apply IH. exact Hr.
Qed.

Lemma OC_msg_read : forall fuel n s, OneClose s -> OneClose (snd (msg_read cfg inflate fuel n s)).
Proof.
  intros fuel n s H. unfold msg_read.
  destruct (r_closed s); [exact H|].
  destruct (r_lrn s =? 0)%Z; [cbn [snd]; auto with oc|].
  match goal with |- context [raw_read cfg fuel ?k s] => generalize k; intro n' end.
  destruct (r_flate s).
  - match goal with |- context [match r_zout ?x with _ => _ end] => assert (Hs1 : OneClose x); [|generalize dependent x; intros s1 Hs1] end.
    { destruct (r_zpulled s); [exact H|].
      pose proof (OC_pull_all fuel s [] H) as Hp.
      destruct (pull_all cfg fuel s []) as [[z e] s0]. cbn [snd] in Hp.
      destruct e as [err|].
      - destruct (inflate (r_dict s) z) as [out [| |]]; auto with oc.
      - destruct (inflate (r_dict s) (z ++ c_deflateMessageTail)) as [out [| |]]; auto with oc. }
    destruct (r_zout s1) as [|x xs].
    + destruct (r_zerr s1); cbn [snd]; auto with oc.
    + destruct (limit_hit s _); cbn [snd]; auto with oc.
  - pose proof (OC_raw_read fuel n' s H) as Hr.
    destruct (raw_read cfg fuel n' s) as [[[d e] eof] s1]. cbn [snd] in Hr.
    destruct (limit_hit s (length d)); cbn [snd]; auto with oc.
Qed.

Lemma OC_read_all : forall fuel n s racc, OneClose s -> OneClose (snd (read_all cfg inflate fuel n s racc)).
Proof.
  induction fuel as [|f IH]; intros n s racc H; [exact H|].
  cbn [read_all].
  pose proof (OC_msg_read (S (S f)) n s H) as Hm.
  destruct (msg_read cfg inflate (S (S f)) n s) as [[[d e] eof] s1]. cbn [snd] in Hm.
  destruct e as [err|]; [exact Hm|].
  destruct eof; [exact Hm|]. apply IH. exact Hm.
Qed.

Lemma OC_read_all_z : forall fuel n s racc, OneClose s -> OneClose (snd (read_all_z cfg inflate fuel n s racc)).
Proof.
  intros fuel n s racc H. unfold read_all_z.
  pose proof (OC_msg_read fuel n s H) as Hm.
  destruct (msg_read cfg inflate fuel n s) as [[[d e] eof] s1]. cbn [snd] in Hm.
  destruct e as [err|]; [exact Hm|].
  destruct eof; [exact Hm|]. apply OC_read_all. exact Hm.
Qed.

Lemma OC_run_script : forall fuel ops s cur, OneClose s -> OneClose (snd (run_script cfg inflate fuel ops s cur)).
Proof.
  intro fuel. induction ops as [|op ops IH]; intros s cur H; [exact H|].
  assert (Hall : forall n acc, OneClose (snd (let '(d, e, s1) := read_all_z cfg inflate fuel n s acc in
      match e with
      | Some err => ([ObMsg d (Some err)], s1)
      | None => let '(o, s2) := run_script cfg inflate fuel ops s1 None in (ObMsg d None :: o, s2)
      end))).
  { intros n acc. pose proof (OC_read_all_z fuel n s acc H) as Hz.
    destruct (read_all_z cfg inflate fuel n s acc) as [[d e] s1]. cbn [snd] in Hz.
    destruct e as [err|]; [exact Hz|].
    pose proof (IH s1 None Hz) as Hr. destruct (run_script cfg inflate fuel ops s1 None) as [o s2]. exact Hr. }
  destruct op as [|n| |n|n]; cbn [run_script].
  - pose proof (OC_reader fuel s H) as Hr.
    destruct (reader cfg fuel s) as [t s1|e s1]; cbn [res_st] in Hr; [|exact Hr].
    pose proof (IH s1 (Some []) Hr) as Hs. destruct (run_script cfg inflate fuel ops s1 (Some [])) as [o s2]. exact Hs.
  - destruct cur as [acc|]; [|apply IH; exact H].
    pose proof (OC_msg_read fuel n s H) as Hm.
    destruct (msg_read cfg inflate fuel n s) as [[[d e] eof] s1]. cbn [snd] in Hm.
    destruct e as [err|]; [exact Hm|].
    destruct eof; [|apply IH; exact Hm].
    pose proof (IH s1 None Hm) as Hs. destruct (run_script cfg inflate fuel ops s1 None) as [o s2]. exact Hs.
  - destruct cur as [acc|]; [|apply IH; exact H]. apply Hall.
  - destruct cur as [acc|]; [|apply IH; exact H]. apply Hall.
  - apply IH. auto with oc.
Qed.

Lemma OC_run : forall lim stream e ops, OneClose (snd (run cfg inflate lim stream e ops)).
Proof. intros. unfold run. apply OC_run_script. apply OC_init. Qed.
End Pres.

(* ---------------- consequences of the invariant ---------------- *)
Lemma OneClose_spec : forall s, OneClose s ->
  (length (filter is_close_reply (r_replies s)) <= 1)%nat /\
  (r_close_sent s = true <-> exists c rs, In (RpClose c rs) (r_replies s)).
Proof.
  intros s H. unfold OneClose in H. fold (ncl (r_replies s)). split.
  - rewrite H. destruct (r_close_sent s); lia.
  - rewrite ncl_In, H. destruct (r_close_sent s); split; intro; try reflexivity; try lia; try discriminate.
Qed.

(* MAIN THEOREM: every configuration, inflater, limit, input stream (any bytes), transport ending, read script *)
Theorem reader_at_most_one_close : forall cfg inflate lim stream e ops,
  let r := run cfg inflate lim stream e ops in
  (length (filter is_close_reply (r_replies (snd r))) <= 1)%nat /\
  (r_close_sent (snd r) = true <-> exists c rs, In (RpClose c rs) (r_replies (snd r))).
Proof. intros. apply OneClose_spec. apply OC_run. Qed.

(* COROLLARY: after the Close frame only Pongs are written (and before it, too: the Close frame is the only one) *)
Theorem reader_only_pongs_after_close : forall cfg inflate lim stream e ops a c rs b,
  let r := run cfg inflate lim stream e ops in
  r_replies (snd r) = a ++ RpClose c rs :: b ->
  Forall (fun x => exists p, x = RpPong p) b /\ Forall (fun x => exists p, x = RpPong p) a /\ r_close_sent (snd r) = true.
Proof.
  intros cfg inflate lim stream e ops a c rs b r Heq.
  destruct (reader_at_most_one_close cfg inflate lim stream e ops) as [H1 H2]. fold r in H1, H2.
  fold (ncl (r_replies (snd r))) in H1. rewrite Heq in H1, H2.
  rewrite ncl_app in H1. change (ncl (RpClose c rs :: b)) with (S (ncl b)) in H1.
  split; [|split].
  - apply ncl_0_pongs. lia.
  - apply ncl_0_pongs. lia.
  - apply H2. exists c, rs. apply in_or_app. right. left. reflexivity.
Qed.

(* the same for the intermediate entry points, from ANY state satisfying the invariant (e.g. for use by other proofs) *)
Theorem OneClose_preserved : forall cfg inflate fuel s, OneClose s ->
  (forall n, OneClose (snd (msg_read cfg inflate fuel n s))) /\
  OneClose (res_st (reader cfg fuel s)) /\
  (forall ops cur, OneClose (snd (run_script cfg inflate fuel ops s cur))).
Proof.
  intros cfg inflate fuel s H. split; [|split].
  - intro n. apply OC_msg_read. exact H.
  - apply OC_reader. exact H.
  - intros ops cur. apply OC_run_script. exact H.
Qed.

Print Assumptions reader_at_most_one_close.
Print Assumptions reader_only_pongs_after_close.
