(* Proofs/SchedProgressP.v — PROGRESS (absence of deadlock among the write-side locks) for the interleaving semantics of
   Model/Sched.v, for every program set and every schedule.

   can_step s t  :=  exists alt s', step s (EStep t alt) = Some s'      ("thread t is not blocked in s")

   (P1) sched_closed_progress      after the close every unfinished thread can step, except a thread in ForceFrame (the closer, in
                                   msgWriter.close) while ANOTHER thread holds writeFrameMu: that holder is inside a frame write
                                   (a holding phase) and can step, which releases the lock.
        sched_closed_bounded       after the close each step of a thread strictly decreases a measure (<= 3) until its call returns.
        sched_closer_unique        at most one thread is ever in ForceFrame (close() runs msgWriter.close() once per connection);
        sched_force_locked_forever once the closer has force-locked writeFrameMu nobody waits in ForceFrame, now or later, and the
                                   lock is never released (intended: the bufio writer went back to the pool).
   (P2) sched_lock_holder_progress open connection: the holder of writeFrameMu can step; a holder of msgWriter.mu inside a data
                                   message can step or waits for writeFrameMu, whose holder can step.
   (P3) sched_no_deadlock          open connection, some thread unfinished, no leaked message lock: some thread can step.
                                   (the side condition is necessary: sched_leaked_msg_lock_blocks)

   The proofs need one invariant beyond Inv of SchedP.v (InvL): the frame lock is held by a thread in a holding phase
   (Check / Emit / Unlock / FailFrame) or — only after the close, and only when no thread is in ForceFrame — force-held by the closer
   that has returned; ForceFrame is only reached after the close, by at most one thread. *)
From Coq Require Import List Arith Bool Lia.
Import ListNotations.
From WS Require Import Model.Sched Proofs.SchedP.

Definition can_step (s : st) (t : tid) : Prop := exists alt s', step s (EStep t alt) = Some s'.
Definition unfinished (s : st) (t : tid) : Prop := ph (thrs s t) <> Idle \/ calls (thrs s t) <> [].

(* ---------------- when a thread is enabled, phase by phase (every branch of step) ---------------- *)
Definition enabled_if (s : st) (t : tid) : Prop :=
  match ph (thrs s t) with
  | Idle => calls (thrs s t) <> []
  | WantMsg _ _ => closed s = true \/ msg_mu s = None
  | WantFrame _ _ _ _ => closed s = true \/ frame_mu s = None
  | ForceFrame => frame_mu s = None
  | Check _ _ _ _ | Emit _ _ _ _ _ | Unlock _ _ _ _ | FailFrame _ _ | EndMsg | DoClose => True
  end.

Lemma enabled_can_step : forall s t, enabled_if s t -> can_step s t.
Proof.
  intros s t H. unfold enabled_if in H. unfold can_step, step. cbv zeta.
  destruct (ph (thrs s t)) eqn:Hph; cbv beta iota.
  - (* Idle *) destruct (calls (thrs s t)) as [|c l]; [contradiction H; reflexivity|].
    exists false. destruct c; try destruct (closing s); eexists; reflexivity.
  - (* WantMsg *) destruct H as [Hc|Hm].
    + exists true. rewrite Hc. eexists; reflexivity.
    + exists false. rewrite Hm. destruct (closed s); eexists; reflexivity.
  - (* WantFrame *) destruct H as [Hc|Hm].
    + exists true. rewrite Hc. eexists; reflexivity.
    + exists false. rewrite Hm. destruct (closed s); eexists; reflexivity.
  - (* Check *) exists false. destruct (close_sent s && match fk with FPing => false | _ => true end); [|destruct (closed s)]; eexists; reflexivity.
  - (* Emit *) exists false. destruct (closed s); eexists; reflexivity.
  - (* Unlock *) exists false. eexists; reflexivity.
  - (* FailFrame *) exists false. eexists; reflexivity.
  - (* EndMsg *) exists false. eexists; reflexivity.
  - (* DoClose *) exists false. destruct (closed s); eexists; reflexivity.
  - (* ForceFrame *) exists false. rewrite H. eexists; reflexivity.
Qed.

Lemma holds_can_step : forall s t, holds (ph (thrs s t)) -> can_step s t.
Proof. intros s t H. apply enabled_can_step. unfold enabled_if. destruct (ph (thrs s t)); simpl in H; try contradiction; exact I. Qed.

(* the only blocked ForceFrame: the frame lock is taken *)
Lemma forceframe_blocked : forall s t h alt, ph (thrs s t) = ForceFrame -> frame_mu s = Some h -> step s (EStep t alt) = None.
Proof. intros s t h alt Hph Hf. unfold step. cbv zeta. rewrite Hph, Hf. reflexivity. Qed.

(* ---------------- the lock invariant ---------------- *)
Record InvL (s : st) : Prop := {
  (* the holder of the frame lock is inside a frame write, or it is the closer that force-locked it and returned — and then no thread
     is in ForceFrame (stated in prenex form: for every thread t) *)
  l_frame : forall h t, frame_mu s = Some h -> holds (ph (thrs s h)) \/ (closed s = true /\ ph (thrs s t) <> ForceFrame);
  l_force : forall t, ph (thrs s t) = ForceFrame -> closed s = true;
  l_one : forall t t', ph (thrs s t) = ForceFrame -> ph (thrs s t') = ForceFrame -> t = t' }.

Lemma invL_init : forall c progs, InvL (init c progs).
Proof. intros; split; cbn; intros; discriminate. Qed.

Lemma invL_step : forall s e s', InvL s -> step s e = Some s' -> InvL s'.
Proof.
  intros s e s' [Hl Hf H1] H. destruct e as [t alt| |t].
  2:{ step_cases H. split; proj; auto. intros h t0 Hh. pose proof (Hl h t0 Hh). pose proof (Hf t0). intuition congruence. }
  all: step_cases H; (split; proj;
    [ intros h t0; pose proof (Hl h t0) as Hl1; pose proof (Hf t) as Hft; pose proof (Hf t0) as Hft0;
      pose proof (H1 t t0) as H1a; split_thr h t; split_thr t0 t; try rw_ph t; simpl in *; try tauto; try (intuition congruence)
    | intros t0; pose proof (Hf t0) as Hft0; split_thr t0 t; try rw_ph t; simpl in *; try tauto; try (intuition congruence)
    | intros t0 t1; pose proof (H1 t0 t1) as H1a; pose proof (Hf t0) as Hft0; pose proof (Hf t1) as Hft1;
      split_thr t0 t; split_thr t1 t; try rw_ph t; simpl in *; try tauto; try (intuition congruence) ]).
Qed.

Lemma invL_run : forall sched s, InvL s -> InvL (run s sched).
Proof.
  induction sched as [|e r IH]; intros s Hs; cbn [run]; [exact Hs|].
  destruct (step s e) as [s'|] eqn:Hst; apply IH; [eapply invL_step; eauto|exact Hs].
Qed.

Lemma invL_reach : forall is_client progs sched, InvL (run (init is_client progs) sched).
Proof. intros; apply invL_run, invL_init. Qed.

(* ---------------- (P1) after the close ---------------- *)
Lemma closed_progress_any : forall s t, InvL s -> closed s = true -> unfinished s t ->
  match ph (thrs s t) with
  | ForceFrame => can_step s t \/ exists h, frame_mu s = Some h /\ h <> t /\ holds (ph (thrs s h)) /\ can_step s h
  | _ => can_step s t
  end.
Proof.
  intros s t IL Hc Hu.
  assert (ph (thrs s t) <> ForceFrame -> can_step s t) as K.
  { intros N. apply enabled_can_step. unfold enabled_if. destruct Hu as [Hu|Hu]; destruct (ph (thrs s t)); auto; try contradiction; congruence. }
  destruct (ph (thrs s t)) eqn:Hph; try (apply K; discriminate).
  destruct (frame_mu s) as [h|] eqn:Hf.
  - right. exists h. destruct (l_frame s IL h t Hf) as [A|[_ A]]; [|contradiction].
    split; [reflexivity|]. split; [|split; [exact A|apply holds_can_step, A]].
    intros ->. rewrite Hph in A. exact A.
  - left. apply enabled_can_step. unfold enabled_if. rewrite Hph. exact Hf.
Qed.

Theorem sched_closed_progress : forall is_client progs sched t, let s := run (init is_client progs) sched in
  closed s = true ->
  ph (thrs s t) <> Idle \/ calls (thrs s t) <> [] ->
  match ph (thrs s t) with
  | ForceFrame =>
      (exists alt s', step s (EStep t alt) = Some s') \/
      (exists h, frame_mu s = Some h /\ h <> t /\ holds (ph (thrs s h)) /\     (* a frame in flight: its writer can step, and releases the lock *)
                 exists alt s', step s (EStep h alt) = Some s')
  | _ => exists alt s', step s (EStep t alt) = Some s'
  end.
Proof. intros is_client progs sched t s Hc Hu. exact (closed_progress_any s t (invL_reach is_client progs sched) Hc Hu). Qed.

(* close() runs msgWriter.close() at most once per connection: at most one thread is ever in ForceFrame *)
Theorem sched_closer_unique : forall is_client progs sched t t', let s := run (init is_client progs) sched in
  ph (thrs s t) = ForceFrame -> ph (thrs s t') = ForceFrame -> t = t' /\ closed s = true.
Proof.
  intros is_client progs sched t t' s A B. pose proof (invL_reach is_client progs sched) as IL. fold s in IL.
  split; [exact (l_one s IL t t' A B)|exact (l_force s IL t A)].
Qed.

(* Once the frame lock is held by a thread outside the holding phases (only ForceFrame takes it that way, and returns), the connection
   is closed, no thread is in ForceFrame — now or in any continuation of the schedule — and the lock is never released. *)
Lemma force_held_step : forall s e s' h, Inv1 s -> frame_mu s = Some h -> ~ holds (ph (thrs s h)) -> step s e = Some s' ->
  frame_mu s' = Some h /\ ~ holds (ph (thrs s' h)).
Proof.
  intros s e s' h [Hm _ _] Hfm Hnh H. destruct e as [t alt| |t].
  2:{ step_cases H. proj. auto. }
  all: pose proof (Hm t) as Hmt.
  all: step_cases H; proj; try congruence;
    try (exfalso; apply Hnh; assert (t = h) as Eth by (simpl in Hmt; specialize (Hmt I); congruence);
         rewrite <- Eth; rw_ph t; exact I);
    (split; [assumption|split_thr h t; simpl; tauto]).
Qed.

Lemma force_held_run : forall more s h, Inv1 s -> frame_mu s = Some h -> ~ holds (ph (thrs s h)) ->
  frame_mu (run s more) = Some h /\ ~ holds (ph (thrs (run s more) h)).
Proof.
  induction more as [|e r IH]; intros s h I1 Hfm Hnh; cbn [run]; [auto|].
  destruct (step s e) as [s'|] eqn:Hst; [|apply IH; assumption].
  destruct (force_held_step s e s' h I1 Hfm Hnh Hst) as [A B].
  exact (IH s' h (inv1_step _ _ _ I1 Hst) A B).
Qed.

Theorem sched_force_locked_forever : forall is_client progs sched h, let s := run (init is_client progs) sched in
  frame_mu s = Some h -> ~ holds (ph (thrs s h)) ->
  closed s = true /\
  forall more, let s' := run s more in
    frame_mu s' = Some h /\ forall t, ph (thrs s' t) <> ForceFrame.
Proof.
  intros is_client progs sched h s Hfm Hnh.
  pose proof (invL_reach is_client progs sched) as IL. fold s in IL. split.
  - destruct (l_frame s IL h h Hfm) as [A|[A _]]; [contradiction|exact A].
  - intros more s'.
    destruct (force_held_run more s h (inv_1 s (inv_reach is_client progs sched)) Hfm Hnh) as [A B].
    split; [exact A|]. intros t.
    destruct (l_frame s' (invL_run more s IL) h t A) as [C|[_ C]]; [contradiction|exact C].
Qed.

(* ---------------- termination after the close: own micro-steps left in the current call ---------------- *)
Definition after_fail (fk : fkind) : nat := match fk with FClose => 2 | _ => 1 end.   (* FClose carries on to close() *)
Definition steps_left (p : phase) : nat :=
  match p with
  | Idle => 0
  | WantMsg _ _ | EndMsg | DoClose | ForceFrame => 1
  | WantFrame fk _ _ _ | FailFrame fk _ => after_fail fk
  | Check fk _ _ _ | Emit fk _ _ _ _ => 1 + after_fail fk
  | Unlock fk _ _ _ => match fk with FPing => 1 | _ => 2 end
  end.

Lemma steps_left_bound : forall p, steps_left p <= 3.
Proof. intros p. destruct p; cbn; try lia; destruct fk; cbn; lia. Qed.

Lemma closed_decrease_any : forall s t alt s', closed s = true -> ph (thrs s t) <> Idle ->
  step s (EStep t alt) = Some s' ->
  closed s' = true /\ steps_left (ph (thrs s' t)) < steps_left (ph (thrs s t)).
Proof.
  intros s t alt s' Hc Hw H. split; [eapply sched_closed_monotone; eassumption|].
  step_cases H; proj; rewrite upd_same; cbn; try congruence; lia.
Qed.

Theorem sched_closed_bounded : forall is_client progs sched t alt s', let s := run (init is_client progs) sched in
  closed s = true -> ph (thrs s t) <> Idle -> step s (EStep t alt) = Some s' ->
  closed s' = true /\ steps_left (ph (thrs s' t)) < steps_left (ph (thrs s t)) <= 3.
Proof.
  intros is_client progs sched t alt s' s Hc Hw H. destruct (closed_decrease_any s t alt s' Hc Hw H) as [H1 H2].
  split; [exact H1|]. split; [exact H2|apply steps_left_bound].
Qed.

(* ---------------- (P2) open connection: lock holders can move ---------------- *)
Lemma lock_holder_progress_any : forall s, Inv1 s -> InvL s -> closed s = false ->
  (forall h, frame_mu s = Some h -> can_step s h) /\
  (forall h, msg_mu s = Some h -> dataph (ph (thrs s h)) ->
     can_step s h \/ exists h2, frame_mu s = Some h2 /\ h2 <> h /\ can_step s h2).
Proof.
  intros s I1 [Hl _ _] Hc.
  assert (forall h, frame_mu s = Some h -> holds (ph (thrs s h))) as Hh.
  { intros h Hf. destruct (Hl h h Hf) as [A|[A _]]; [exact A|congruence]. }
  split.
  - intros h Hf. apply holds_can_step, Hh, Hf.
  - intros h _ Hd. destruct (frame_mu s) as [h2|] eqn:Hf.
    + destruct (Nat.eq_dec h2 h) as [->|N].
      * left. apply holds_can_step, Hh. reflexivity.
      * (* h is in a data phase without the frame lock *)
        pose proof (Hh h2 eq_refl) as H2.
        destruct (ph (thrs s h)) eqn:Hph; simpl in Hd; try contradiction.
        -- right. exists h2. split; [reflexivity|]. split; [exact N|]. apply holds_can_step, H2.
        -- exfalso. apply N. pose proof (i_mutex s I1 h) as M. rewrite Hph in M. specialize (M I). congruence.
        -- exfalso. apply N. pose proof (i_mutex s I1 h) as M. rewrite Hph in M. specialize (M I). congruence.
        -- exfalso. apply N. pose proof (i_mutex s I1 h) as M. rewrite Hph in M. specialize (M I). congruence.
        -- exfalso. apply N. pose proof (i_mutex s I1 h) as M. rewrite Hph in M. specialize (M I). congruence.
        -- left. apply enabled_can_step. unfold enabled_if. rewrite Hph. exact I.
    + left. apply enabled_can_step. unfold enabled_if.
      destruct (ph (thrs s h)); simpl in Hd; try contradiction; auto.
Qed.

Theorem sched_lock_holder_progress : forall is_client progs sched, let s := run (init is_client progs) sched in
  closed s = false ->
  (forall h, frame_mu s = Some h -> exists alt s', step s (EStep h alt) = Some s') /\
  (forall h, msg_mu s = Some h -> dataph (ph (thrs s h)) ->
     (exists alt s', step s (EStep h alt) = Some s') \/
     (exists h2, frame_mu s = Some h2 /\ h2 <> h /\ exists alt s', step s (EStep h2 alt) = Some s')).
Proof.
  intros is_client progs sched s Hc.
  exact (lock_holder_progress_any s (inv_1 s (inv_reach is_client progs sched)) (invL_reach is_client progs sched) Hc).
Qed.

(* ---------------- (P3) open connection: no deadlock ---------------- *)
Lemma no_deadlock_any : forall s, Inv1 s -> InvL s -> closed s = false ->
  (exists t, unfinished s t) ->
  (forall h, msg_mu s = Some h -> dataph (ph (thrs s h))) ->
  exists t, can_step s t.
Proof.
  intros s I1 IL Hc [t Hu] Hleak.
  destruct (lock_holder_progress_any s I1 IL Hc) as [PF PM].
  destruct (frame_mu s) as [h|] eqn:Hf; [exists h; apply PF; reflexivity|].
  (* nobody holds the frame lock *)
  assert (forall h, msg_mu s = Some h -> can_step s h) as PM'.
  { intros h Hm. destruct (PM h Hm (Hleak h Hm)) as [A|[h2 [A _]]]; [exact A|discriminate]. }
  destruct (ph (thrs s t)) eqn:Hph.
  - exists t. apply enabled_can_step. unfold enabled_if. rewrite Hph. destruct Hu as [Hu|Hu]; [congruence|exact Hu].
  - destruct (msg_mu s) as [h|] eqn:Hm.
    + exists h. apply PM'. reflexivity.
    + exists t. apply enabled_can_step. unfold enabled_if. rewrite Hph. right; exact Hm.
  - exists t. apply enabled_can_step. unfold enabled_if. rewrite Hph. right; exact Hf.
  - exists t. apply enabled_can_step. unfold enabled_if. rewrite Hph. exact I.
  - exists t. apply enabled_can_step. unfold enabled_if. rewrite Hph. exact I.
  - exists t. apply enabled_can_step. unfold enabled_if. rewrite Hph. exact I.
  - exists t. apply enabled_can_step. unfold enabled_if. rewrite Hph. exact I.
  - exists t. apply enabled_can_step. unfold enabled_if. rewrite Hph. exact I.
  - exists t. apply enabled_can_step. unfold enabled_if. rewrite Hph. exact I.
  - (* ForceFrame is not reachable while the connection is open *)
    pose proof (l_force s IL t Hph). congruence.
Qed.

Theorem sched_no_deadlock : forall is_client progs sched, let s := run (init is_client progs) sched in
  closed s = false ->
  (exists t, ph (thrs s t) <> Idle \/ calls (thrs s t) <> []) ->
  (forall h, msg_mu s = Some h -> dataph (ph (thrs s h))) ->
  exists t alt s', step s (EStep t alt) = Some s'.
Proof.
  intros is_client progs sched s Hc Hu Hleak.
  exact (no_deadlock_any s (inv_1 s (inv_reach is_client progs sched)) (invL_reach is_client progs sched) Hc Hu Hleak).
Qed.

(* The "no leaked message lock" premise is necessary: a streamed message (Writer) whose context ends while it waits for the frame lock
   returns with msgWriter.mu still locked (EGiveUp, the documented wart); a second writer then waits for ever on an OPEN connection
   (in the library the lock-wait timeout closes the connection, after which P1 applies). *)
Definition progs_leak (t : tid) : list wcall := match t with 0 => [CMsg 1 0] | 1 => [CMsg 0 0] | _ => [] end.
Definition sched_leak : list ev := [EStep 0 false; EStep 0 false; EGiveUp 0; EStep 1 false].

Theorem sched_leaked_msg_lock_blocks :
  let s := run (init true progs_leak) sched_leak in
  closed s = false /\ msg_mu s = Some 0 /\ ph (thrs s 0) = Idle /\ calls (thrs s 0) = [] /\
  ph (thrs s 1) = WantMsg 0 0 /\ forall t alt, step s (EStep t alt) = None.
Proof.
  intros s. repeat (split; [vm_compute; reflexivity|]).
  intros t alt. destruct t as [|[|t]]; destruct alt; reflexivity.
Qed.

Print Assumptions sched_closed_progress.
Print Assumptions sched_lock_holder_progress.
Print Assumptions sched_no_deadlock.
Print Assumptions sched_closed_bounded.
Print Assumptions sched_closer_unique.
Print Assumptions sched_force_locked_forever.
Print Assumptions sched_leaked_msg_lock_blocks.
