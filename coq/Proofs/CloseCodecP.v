(* Proofs/CloseCodecP.v — close payload codec; the valid-code table is the TRANSLATED function. *)
From Coq Require Import List NArith Lia ZArith ZifyN ZifyNat ZifyBool Bool.
From WS Require Import Base.Words Gen.Consts Gen.CloseCode Model.CloseCodec.
Import ListNotations.
Ltac Zify.zify_post_hook ::= Z.div_mod_to_equations.

(* all of Z, not a sample: the translated predicate is exactly the RFC 6455 §7.4 / IANA table the property names *)
Theorem valid_wire_code_iff : forall c : Z,
  valid_wire_code c = true <->
  ((1000 <= c <= 1014 /\ c <> 1004 /\ c <> 1005 /\ c <> 1006) \/ 3000 <= c <= 4999)%Z.
Proof. intro c. unfold valid_wire_code.
  destruct (Z.eqb_spec c 1004); destruct (Z.eqb_spec c 1005); destruct (Z.eqb_spec c 1006); destruct (Z.eqb_spec c 1015);
  destruct (Z.leb_spec 1000 c); destruct (Z.leb_spec c 1014); destruct (Z.leb_spec 3000 c); destruct (Z.leb_spec c 4999);
  cbn [orb andb]; split; intro Hx; try discriminate; try reflexivity; lia. Qed.

Lemma valid_code_range c : valid_wire_code c = true -> (0 <= c < 65536)%Z.
Proof. intro H. apply valid_wire_code_iff in H. lia. Qed.

Theorem close_codec_roundtrip : forall code reason,
  valid_wire_code code = true -> (length reason <= 123)%nat -> wf_bytes reason ->
  exists p, close_bytes code reason = Some p /\ p = be_bytes 2 (Z.to_N code) ++ reason /\ parse_close p = Some (code, reason).
Proof. intros code reason Hv Hl Hw. pose proof (valid_code_range _ Hv) as Hr.
  unfold close_bytes. unfold c_maxCloseReason.
  destruct (Z.ltb_spec 123 (Z.of_nat (length reason))); [lia|]. rewrite Hv. cbn [negb].
  rewrite Z.mod_small by lia.
  eexists. split; [reflexivity|]. split; [reflexivity|].
  assert (L : length (be_bytes 2 (Z.to_N code)) = 2%nat) by apply be_bytes_length.
  destruct (be_bytes 2 (Z.to_N code)) as [|a [|b [|? ?]]] eqn:E; cbn [length] in L; try lia.
  cbn [app parse_close]. rewrite <- E.
  rewrite be_val_bytes by (change (256 ^ N.of_nat 2)%N with 65536%N; lia).
  rewrite Z2N.id by lia. rewrite Hv. reflexivity. Qed.

Theorem close_never_sent : forall code reason,
  (valid_wire_code code = false /\ code <> c_StatusNoStatusRcvd) \/ (123 < length reason)%nat /\ code <> c_StatusNoStatusRcvd ->
  close_payload code reason = None.
Proof. intros code reason H. unfold close_payload, close_bytes, c_maxCloseReason, c_StatusNoStatusRcvd in *.
  destruct H as [[Hv Hc]|[Hl Hc]].
  - destruct (Z.eqb_spec code 1005); [contradiction|]. destruct (Z.ltb_spec 123 (Z.of_nat (length reason))); auto. rewrite Hv. reflexivity.
  - destruct (Z.eqb_spec code 1005); [contradiction|]. destruct (Z.ltb_spec 123 (Z.of_nat (length reason))); auto. lia. Qed.

Theorem close_payload_shape : forall code reason p, close_payload code reason = Some p ->
  (code = c_StatusNoStatusRcvd /\ p = []) \/
  (valid_wire_code code = true /\ (length reason <= 123)%nat /\ p = be_bytes 2 (Z.to_N code) ++ reason).
Proof. intros code reason p H. unfold close_payload, close_bytes, c_maxCloseReason, c_StatusNoStatusRcvd in *.
  destruct (Z.eqb_spec code 1005).
  - left. inversion H. auto.
  - right. destruct (Z.ltb_spec 123 (Z.of_nat (length reason))); [discriminate|].
    destruct (valid_wire_code code) eqn:Hv; [|discriminate]. cbn [negb] in H. inversion H.
    pose proof (valid_code_range _ Hv). rewrite Z.mod_small by lia. repeat split; auto. lia. Qed.

Theorem close_1005_empty : forall reason, close_payload c_StatusNoStatusRcvd reason = Some [].
Proof. intro. reflexivity. Qed.

Theorem parse_close_sound : forall p code reason, parse_close p = Some (code, reason) ->
  (p = [] /\ code = c_StatusNoStatusRcvd /\ reason = []) \/
  (valid_wire_code code = true /\ exists a b, p = a :: b :: reason /\ code = Z.of_N (be_val [a; b])).
Proof. intros p code reason H. destruct p as [|a [|b r]]; cbn [parse_close] in H.
  - left. inversion H. auto.
  - discriminate.
  - right. destruct (valid_wire_code (Z.of_N (be_val [a; b]))) eqn:Hv; [|discriminate]. inversion H; subst.
    split; auto. exists a, b. auto. Qed.

Theorem parse_close_one_byte : forall a, parse_close [a] = None.
Proof. reflexivity. Qed.
