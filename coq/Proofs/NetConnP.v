(* Proofs/NetConnP.v — the adapter is a faithful byte stream; EOF, type check, deadlines. *)
From Coq Require Import List NArith Lia ZArith Bool.
From WS Require Import Base.Words Gen.Consts Model.NetConn.
Import ListNotations.

(* one Read on a stream of messages of the right type: either data (>= 1 byte, a prefix of what is pending) or blocked at the end *)
Definition pending (s : ncst) : bytes :=
  (match nc_cur s with Some c => c | None => [] end) ++ concat (map (fun i => match i with NMsg _ p => p | _ => [] end) (nc_in s)).
Definition all_msgs (s : ncst) : Prop := Forall (fun i => match i with NMsg t _ => t = nc_typ s | _ => False end) (nc_in s).

Definition measure (s : ncst) : nat := 2 * length (nc_in s) + match nc_cur s with Some _ => 1 | None => 0 end.

Lemma nc_read_stream : forall fuel s n, (0 < n)%nat -> nc_eofed s = false -> all_msgs s -> (measure s < fuel)%nat ->
  let '(o, s') := nc_read fuel s n in
  (pending s = [] /\ o = NBlock) \/
  (exists d, o = NData d /\ d <> [] /\ (length d <= n)%nat /\ pending s = d ++ pending s' /\ nc_eofed s' = false /\ all_msgs s' /\ nc_typ s' = nc_typ s /\
             (length (nc_in s') <= length (nc_in s))%nat /\ nc_closed1003 s' = nc_closed1003 s).
Proof.
  induction fuel as [|fuel IH]; intros s n Hn He Ha Hf; [lia|].
  cbn [nc_read]. rewrite He.
  destruct (nc_cur s) as [cur|] eqn:Ec.
  - destruct cur as [|x cur'] eqn:Ecur.
    + (* current message exhausted: loop *)
      set (s1 := {| nc_typ := nc_typ s; nc_cur := None; nc_eofed := false; nc_in := nc_in s; nc_closed1003 := nc_closed1003 s |}).
      assert (Hf1 : (measure s1 < fuel)%nat) by (unfold measure in *; cbn [nc_in nc_cur s1]; rewrite Ec in Hf; lia).
      specialize (IH s1 n Hn eq_refl Ha Hf1). destruct (nc_read fuel s1 n) as [o s'].
      assert (P : pending s1 = pending s) by (unfold pending; cbn [nc_cur nc_in s1]; rewrite Ec; reflexivity).
      rewrite P in IH. exact IH.
    + right. exists (firstn n (x :: cur')). split; [reflexivity|]. split; [destruct n; [lia|discriminate]|].
      split; [rewrite firstn_length; lia|]. cbn [nc_eofed nc_typ nc_in nc_closed1003].
      split; [unfold pending; cbn [nc_cur nc_in]; rewrite Ec; rewrite app_assoc, firstn_skipn; reflexivity|].
      repeat split; auto.
  - destruct (nc_in s) as [|i r] eqn:Ei.
    + left. unfold pending. rewrite Ec, Ei. auto.
    + unfold all_msgs in Ha. rewrite Ei in Ha. inversion Ha as [|? ? Hi Hr]; subst. destruct i as [t p| |]; try contradiction. subst t.
      rewrite N.eqb_refl. cbn [negb].
      set (s1 := {| nc_typ := nc_typ s; nc_cur := Some p; nc_eofed := false; nc_in := r; nc_closed1003 := nc_closed1003 s |}).
      assert (Ha1 : all_msgs s1) by exact Hr.
      assert (Hf1 : (measure s1 < fuel)%nat) by (unfold measure in *; cbn [nc_in nc_cur s1]; rewrite Ei, Ec in Hf; cbn [length] in Hf; lia).
      specialize (IH s1 n Hn eq_refl Ha1 Hf1). destruct (nc_read fuel s1 n) as [o s'].
      assert (P : pending s1 = pending s) by (unfold pending; cbn [nc_cur nc_in s1]; rewrite Ec, Ei; reflexivity).
      rewrite P in IH. destruct IH as [IH|(d & A & B & C & D & E & F & G & H & I)]; [left; exact IH|].
      right. exists d. repeat split; auto. cbn [nc_in s1] in H. cbn [length]. lia.
Qed.

(* the byte stream: whatever the write sizes (message boundaries, empty messages included) and whatever the positive read
   buffer sizes, the reads return, in order, exactly the bytes written — no byte lost, duplicated or reordered — until the
   pending bytes are exhausted *)
Theorem nc_stream : forall sizes s, Forall (fun n => 0 < n)%nat sizes -> nc_eofed s = false -> all_msgs s ->
  let '(os, s') := nc_reads s sizes in
  exists rest, pending s = concat (map nres_bytes os) ++ rest /\ Forall (fun o => match o with NData d => d <> [] | NBlock => True | _ => False end) os /\
               (In NBlock os -> rest = []).
Proof.
  induction sizes as [|n r IH]; intros s Hs He Ha; cbn [nc_reads].
  - exists (pending s). cbn. repeat split; auto. intros [].
  - inversion Hs; subst.
    pose proof (nc_read_stream (2 * length (nc_in s) + 3) s n H1 He Ha ltac:(unfold measure; destruct (nc_cur s); lia)) as R.
    destruct (nc_read (2 * length (nc_in s) + 3) s n) as [o s1].
    destruct R as [(P & ->)|(d & -> & Hd & Hl & P & E1 & A1 & T1 & L1 & C1)].
    + exists []. cbn. rewrite P. repeat split; auto.
    + specialize (IH s1 H2 E1 A1). destruct (nc_reads s1 r) as [os s2]. destruct IH as (rest & P2 & F2 & B2).
      exists rest. cbn [map concat nres_bytes]. rewrite P, P2, <- app_assoc. repeat split; auto.
      intros [X|X]; [discriminate|auto].
Qed.

(* a peer's normal (1000) or going-away (1001) close reads as io.EOF, and stays so *)
Theorem nc_eof : forall s code r n, nc_eofed s = false -> nc_cur s = None -> nc_in s = NClose code :: r ->
  (code = c_StatusNormalClosure \/ code = c_StatusGoingAway) ->
  let '(o, s') := nc_read 3 s n in o = NEOF /\ nc_eofed s' = true /\ forall n' f, fst (nc_read (S f) s' n') = NEOF.
Proof. intros s code r n He Hc Hi Hcode. cbn [nc_read]. rewrite He, Hc, Hi.
  assert (X : ((code =? c_StatusNormalClosure) || (code =? c_StatusGoingAway))%Z = true)
    by (destruct Hcode as [-> | ->]; reflexivity).
  rewrite X. repeat split; auto. Qed.

(* any other close code is passed through as the CloseError *)
Theorem nc_other_close : forall s code r n, nc_eofed s = false -> nc_cur s = None -> nc_in s = NClose code :: r ->
  code <> c_StatusNormalClosure -> code <> c_StatusGoingAway -> fst (nc_read 3 s n) = NErrClose code.
Proof. intros s code r n He Hc Hi H1 H2. cbn [nc_read]. rewrite He, Hc, Hi.
  destruct (Z.eqb_spec code c_StatusNormalClosure); [contradiction|]. destruct (Z.eqb_spec code c_StatusGoingAway); [contradiction|]. reflexivity. Qed.

(* a message of the wrong type fails the read and closes the connection with status 1003 *)
Theorem nc_wrong_type : forall s t p r n, nc_eofed s = false -> nc_cur s = None -> nc_in s = NMsg t p :: r -> t <> nc_typ s ->
  let '(o, s') := nc_read 3 s n in o = NErrType /\ nc_closed1003 s' = true.
Proof. intros s t p r n He Hc Hi Ht. cbn [nc_read]. rewrite He, Hc, Hi.
  destruct (N.eqb_spec t (nc_typ s)); [contradiction|]. cbn [negb]. auto. Qed.

(* deadlines: firing while no call is active only sets the flag: later calls fail with the deadline error until a
   Set*Deadline clears it, and the connection (dl_cancelled) is untouched *)
Theorem dl_idle : forall s, dl_busy s = false ->
  let s1 := fst (dl_step s DFire) in
  dl_expired s1 = true /\ dl_cancelled s1 = dl_cancelled s /\ snd (dl_step s1 DCallStart) = DDeadlineErr /\ fst (dl_step s1 DCallStart) = s1 /\
  snd (dl_step (fst (dl_step s1 DSet)) DCallStart) = DOk.
Proof. intros s Hb. cbn [dl_step]. rewrite Hb. cbn. auto. Qed.

(* firing during an active call cancels the side's context (the call fails and the connection closes: C10) *)
Theorem dl_active : forall s, dl_busy s = true -> dl_cancelled (fst (dl_step s DFire)) = true.
Proof. intros s Hb. cbn [dl_step]. rewrite Hb. reflexivity. Qed.
