(* Proofs/PoolsP.v — a pooled flate reader is only ever used by the connection that holds it, for every history of any
   number of connections: reading again after the end of a message, abandoning messages, closing at any moment (also
   from underneath a Read), and reuse of the pool by new connections. *)
From Coq Require Import List Arith Bool Lia.
From WS Require Import Model.Pools.
Import ListNotations.

Lemma updc_same f c x : updc f c x c = x. Proof. unfold updc. rewrite Nat.eqb_refl. reflexivity. Qed.
Lemma updc_other f c x c' : c' <> c -> updc f c x c' = f c'.
Proof. intro H. unfold updc. destruct (Nat.eqb_spec c' c); [contradiction|reflexivity]. Qed.

Lemma mem_In o l : mem o l = true <-> In o l.
Proof. unfold mem. rewrite existsb_exists. split.
  - intros (x & Hi & He). apply Nat.eqb_eq in He. subst. exact Hi.
  - intro H. exists o. split; [exact H|apply Nat.eqb_refl]. Qed.

Lemma remove1_In o x l : In x (remove1 o l) -> In x l.
Proof. induction l as [|y r IH]; cbn [remove1]; [auto|]. destruct (Nat.eqb y o); cbn [In]; intuition. Qed.
Lemma remove1_NoDup o l : NoDup l -> NoDup (remove1 o l) /\ ~ In o (remove1 o l).
Proof. induction l as [|y r IH]; intro H; cbn [remove1].
  - split; [constructor|intros []].
  - inversion H; subst. destruct (Nat.eqb_spec y o).
    + subst. split; assumption.
    + destruct (IH H3) as (A & B). split.
      * constructor; [intro X; apply H2; eapply remove1_In; eauto|assumption].
      * intros [X|X]; [contradiction|contradiction]. Qed.

(* the invariant: the limit reader points only at the object the connection holds; an object is held by at most one
   connection; pooled (free) objects are held by nobody; the free list has no duplicates; everything held or free is known *)
Record Inv (s : pst) : Prop := {
  i_lr : forall c o, p_lr (p_conns s c) = Some o -> p_fr (p_conns s c) = Some o;
  i_excl : forall c c' o, p_fr (p_conns s c) = Some o -> p_fr (p_conns s c') = Some o -> c = c';
  i_free : forall c o, In o (p_free s) -> p_fr (p_conns s c) <> Some o;
  i_nodup : NoDup (p_free s);
  i_known : forall c o, p_fr (p_conns s c) = Some o -> In o (p_known s);
  i_freeknown : forall o, In o (p_free s) -> In o (p_known s) }.

Lemma inv_init : Inv pinit.
Proof. constructor; cbn; try discriminate; try contradiction; try constructor; intros; try discriminate; contradiction. Qed.

Lemma release_inv s c : Inv s -> Inv (release s c).
Proof. intros [L E F N K FK]. unfold release. constructor; cbn [p_conns p_free p_known].
  - intros c0 o. destruct (Nat.eq_dec c0 c) as [->|Ne]; [rewrite updc_same; cbn; discriminate | rewrite updc_other by auto; apply L].
  - intros c0 c1 o. destruct (Nat.eq_dec c0 c) as [->|N0]; [rewrite updc_same; cbn; discriminate|].
    destruct (Nat.eq_dec c1 c) as [->|N1]; [rewrite updc_same; cbn; discriminate|]. rewrite !updc_other by auto. apply E.
  - intros c0 o Hin. destruct (Nat.eq_dec c0 c) as [->|N0]; [rewrite updc_same; cbn; discriminate|]. rewrite updc_other by auto.
    destruct (p_fr (p_conns s c)) as [o'|] eqn:Efr; [|apply F; exact Hin].
    destruct Hin as [<-|Hin]; [|apply F; exact Hin]. intro X. apply N0. eapply E; eauto.
  - destruct (p_fr (p_conns s c)) as [o'|] eqn:Efr; [|exact N]. constructor; [|exact N]. intro X. eapply F; eauto.
  - intros c0 o. destruct (Nat.eq_dec c0 c) as [->|N0]; [rewrite updc_same; cbn; discriminate|]. rewrite updc_other by auto. apply K.
  - intros o Hin. destruct (p_fr (p_conns s c)) as [o'|] eqn:Efr; [|apply FK; exact Hin]. destruct Hin as [<-|Hin]; [eapply K; eauto|apply FK; exact Hin]. Qed.

Lemma set_flags_inv s c r p cl : Inv s ->
  Inv {| p_conns := updc (p_conns s) c {| p_fr := p_fr (p_conns s c); p_lr := p_lr (p_conns s c); p_reading := r; p_pending := p; p_closed := cl |};
         p_free := p_free s; p_known := p_known s |}.
Proof. intros [L E F N K FK]. constructor; cbn [p_conns p_free p_known]; auto.
  - intros c0 o. destruct (Nat.eq_dec c0 c) as [->|Ne]; [rewrite updc_same; cbn; apply L | rewrite updc_other by auto; apply L].
  - intros c0 c1 o. destruct (Nat.eq_dec c0 c) as [->|N0]; destruct (Nat.eq_dec c1 c) as [->|N1]; rewrite ?updc_same, ?updc_other by auto; cbn [p_fr]; auto.
    + intros A B. apply (E c c1 o A B). + intros A B. apply (E c0 c o A B). + apply E.
  - intros c0 o Hin. destruct (Nat.eq_dec c0 c) as [->|N0]; [rewrite updc_same; cbn; apply F; exact Hin | rewrite updc_other by auto; apply F; exact Hin].
  - intros c0 o. destruct (Nat.eq_dec c0 c) as [->|N0]; [rewrite updc_same; cbn; apply K | rewrite updc_other by auto; apply K]. Qed.

Lemma pstep_inv s op s' u : Inv s -> pstep s op = Some (s', u) -> Inv s'.
Proof.
  intros I H. pose proof I as [L E F N K FK]. destruct op as [c o|c|c|c|c|c|c]; cbn [pstep] in H.
  - (* PStart *)
    destruct (p_closed (p_conns s c)); [discriminate|].
    destruct (mem o (p_free s) || negb (mem o (p_known s))) eqn:G; [|discriminate]. inversion H; subst s' u; clear H.
    assert (Hno : forall c', p_fr (p_conns s c') <> Some o).
    { intros c' X. apply Bool.orb_true_iff in G. destruct G as [G|G].
      - apply mem_In in G. eapply F; eauto.
      - apply Bool.negb_true_iff in G. assert (Y : mem o (p_known s) = true) by (apply mem_In; eapply K; eauto). congruence. }
    constructor; cbn [p_conns p_free p_known].
    + intros c0 o0. destruct (Nat.eq_dec c0 c) as [->|Ne]; [rewrite updc_same; cbn; auto | rewrite updc_other by auto; apply L].
    + intros c0 c1 o0. destruct (Nat.eq_dec c0 c) as [->|N0]; destruct (Nat.eq_dec c1 c) as [->|N1]; rewrite ?updc_same, ?updc_other by auto; cbn [p_fr]; auto.
      * intros A B. injection A as A1. rewrite <- A1 in B. exfalso. eapply Hno; eauto.
      * intros A B. injection B as B1. rewrite <- B1 in A. exfalso. eapply Hno; eauto.
      * apply E.
    + intros c0 o0 Hin. destruct (Nat.eq_dec c0 c) as [->|N0].
      * rewrite updc_same; cbn. intro X; injection X as X1. rewrite <- X1 in Hin. destruct (remove1_NoDup o (p_free s) N) as (_ & B). contradiction.
      * rewrite updc_other by auto. apply F. eapply remove1_In; eauto.
    + apply remove1_NoDup; exact N.
    + intros c0 o0. destruct (Nat.eq_dec c0 c) as [->|N0].
      * rewrite updc_same; cbn. intro X; injection X as X1. rewrite <- X1. destruct (mem o (p_known s)) eqn:M; [apply mem_In; exact M | left; reflexivity].
      * rewrite updc_other by auto. intro X. destruct (mem o (p_known s)); [eapply K; eauto | right; eapply K; eauto].
    + intros o0 Hin. apply remove1_In in Hin. destruct (mem o (p_known s)); [apply FK; exact Hin | right; apply FK; exact Hin].
  - (* PStartRaw *)
    destruct (p_closed (p_conns s c)); [discriminate|]. inversion H; subst s' u; clear H.
    constructor; cbn [p_conns p_free p_known]; auto.
    + intros c0 o0. destruct (Nat.eq_dec c0 c) as [->|Ne]; [rewrite updc_same; cbn; discriminate | rewrite updc_other by auto; apply L].
    + intros c0 c1 o0. destruct (Nat.eq_dec c0 c) as [->|N0]; destruct (Nat.eq_dec c1 c) as [->|N1]; rewrite ?updc_same, ?updc_other by auto; cbn [p_fr]; auto.
      * intros A B. apply (E c c1 o0 A B). * intros A B. apply (E c0 c o0 A B). * apply E.
    + intros c0 o0 Hin. destruct (Nat.eq_dec c0 c) as [->|N0]; [rewrite updc_same; cbn; apply F; exact Hin | rewrite updc_other by auto; apply F; exact Hin].
    + intros c0 o0. destruct (Nat.eq_dec c0 c) as [->|N0]; [rewrite updc_same; cbn; apply K | rewrite updc_other by auto; apply K].
  - (* PRead *) inversion H; subst s' u. apply set_flags_inv. exact I.
  - (* PEof *)
    inversion H; subst s' u; clear H. constructor; cbn [p_conns p_free p_known].
    + intros c0 o. destruct (Nat.eq_dec c0 c) as [->|Ne]; [rewrite updc_same; cbn; discriminate | rewrite updc_other by auto; apply L].
    + intros c0 c1 o. destruct (Nat.eq_dec c0 c) as [->|N0]; [rewrite updc_same; cbn; discriminate|].
      destruct (Nat.eq_dec c1 c) as [->|N1]; [rewrite updc_same; cbn; discriminate|]. rewrite !updc_other by auto. apply E.
    + intros c0 o Hin. destruct (Nat.eq_dec c0 c) as [->|N0]; [rewrite updc_same; cbn; discriminate|]. rewrite updc_other by auto.
      destruct (p_fr (p_conns s c)) as [o'|] eqn:Efr; [|apply F; exact Hin].
      destruct Hin as [<-|Hin]; [|apply F; exact Hin]. intro X. apply N0. eapply E; eauto.
    + destruct (p_fr (p_conns s c)) as [o'|] eqn:Efr; [|exact N]. constructor; [|exact N]. intro X. eapply F; eauto.
    + intros c0 o. destruct (Nat.eq_dec c0 c) as [->|N0]; [rewrite updc_same; cbn; discriminate|]. rewrite updc_other by auto. apply K.
    + intros o Hin. destruct (p_fr (p_conns s c)) as [o'|] eqn:Efr; [|apply FK; exact Hin]. destruct Hin as [<-|Hin]; [eapply K; eauto|apply FK; exact Hin].
  - (* PCloseInRead *)
    destruct (p_reading (p_conns s c)); inversion H; subst s' u; [apply set_flags_inv; exact I | apply release_inv; exact I].
  - (* PReadEnd *)
    destruct (p_pending (p_conns s c)); inversion H; subst s' u; [apply release_inv|]; apply set_flags_inv; exact I.
  - (* PClose *) inversion H; subst s' u. apply release_inv. exact I.
Qed.

(* every use of an object by a connection happens while that connection — and no other — holds it *)
Lemma pstep_uses s op s' u : Inv s -> pstep s op = Some (s', u) ->
  forall c o, In (Use c o) u -> p_fr (p_conns s c) = Some o /\ (forall c', p_fr (p_conns s c') = Some o -> c' = c) /\ ~ In o (p_free s).
Proof. intros I H c o Hin. destruct I as [L E F N K FK].
  destruct op as [c0 o0|c0|c0|c0|c0|c0|c0]; cbn [pstep] in H.
  - destruct (p_closed (p_conns s c0)); [discriminate|]. destruct (mem o0 (p_free s) || negb (mem o0 (p_known s))); [|discriminate].
    injection H as _ Hu. subst u. contradiction.
  - destruct (p_closed (p_conns s c0)); [discriminate|]. injection H as _ Hu. subst u. contradiction.
  - injection H as _ Hu. subst u.
    destruct (p_lr (p_conns s c0)) as [o1|] eqn:El; [|contradiction]. destruct Hin as [X|[]]. injection X as X1 X2. subst c0 o1.
    pose proof (L _ _ El) as Hfr. split; [exact Hfr|]. split.
    + intros c' Hc'. eapply E; eauto.
    + intro X2. eapply F; eauto.
  - injection H as _ Hu. subst u. contradiction.
  - destruct (p_reading (p_conns s c0)); injection H as _ Hu; subst u; contradiction.
  - destruct (p_pending (p_conns s c0)); injection H as _ Hu; subst u; contradiction.
  - injection H as _ Hu. subst u. contradiction.
Qed.

Theorem pools_isolated : forall ops s' uses, prun pinit ops = Some (s', uses) ->
  (* every use is by the holder: replay the history and look at the state each use happened in *)
  forall pre op post s1 u1 s2 u2, ops = pre ++ op :: post -> prun pinit pre = Some (s1, u1) -> pstep s1 op = Some (s2, u2) ->
  forall c o, In (Use c o) u2 -> p_fr (p_conns s1 c) = Some o /\ (forall c', p_fr (p_conns s1 c') = Some o -> c' = c) /\ ~ In o (p_free s1).
Proof.
  intros ops s' uses _ pre op post s1 u1 s2 u2 _ Hpre Hstep c o Hin.
  assert (G : forall ops0 s, Inv s -> forall s3 u3, prun s ops0 = Some (s3, u3) -> Inv s3).
  { induction ops0 as [|op0 r IH]; intros s I s3 u3 H; cbn [prun] in H.
    - injection H as H1 _. subst s3. exact I.
    - destruct (pstep s op0) as [[sa ua]|] eqn:E; [|discriminate]. destruct (prun sa r) as [[sb ub]|] eqn:E2; [|discriminate]. injection H as H1 _. subst s3.
      eapply IH; [eapply pstep_inv; eauto | exact E2]. }
  eapply pstep_uses; eauto. eapply G; [exact inv_init | exact Hpre]. Qed.
