(* Proofs/MaskAsmP.v — the model of mask_amd64.s equals mask_spec for every alignment, length and key;
   guard bytes untouched, no fault. *)
From Coq Require Import List NArith Lia ZArith ZifyN ZifyNat ZifyBool.
From WS Require Import Base.Words Model.Mask Proofs.MaskP Model.MaskAsm.
Import ListNotations.
Open Scope N_scope.
Ltac Zify.zify_post_hook ::= Z.div_mod_to_equations.

(* ---------- lists ---------- *)
Lemma skipn_skipn' {A} : forall (m n : nat) (l : list A), skipn n (skipn m l) = skipn (m + n) l.
Proof. induction m as [|m IH]; intros n l; [reflexivity|].
  destruct l as [|x l]; [rewrite !skipn_nil; reflexivity|]. cbn [skipn Nat.add]. apply IH. Qed.
Lemma firstn_add {A} : forall (n m : nat) (l : list A), firstn (n + m) l = firstn n l ++ firstn m (skipn n l).
Proof. induction n as [|n IH]; intros m l; [reflexivity|].
  destruct l as [|x l]; [rewrite !firstn_nil; reflexivity|]. cbn [firstn skipn Nat.add app]. f_equal. apply IH. Qed.
Lemma firstn_app_exact {A} (a b : list A) n : length a = n -> firstn n (a ++ b) = a.
Proof. intros <-. induction a as [|x a IH]; cbn [length firstn app]; [reflexivity | f_equal; exact IH]. Qed.
Lemma skipn_app_exact {A} (a b : list A) n : length a = n -> skipn n (a ++ b) = b.
Proof. intros <-. induction a as [|x a IH]; cbn [length skipn app]; auto. Qed.

(* ---------- TESTQ ---------- *)
Lemma land_pow2 n v : Nat.land (2 ^ n) v = if Nat.testbit v n then (2 ^ n)%nat else 0%nat.
Proof. apply Nat.bits_inj; intro m. rewrite Nat.land_spec, Nat.pow2_bits_eqb.
  destruct (Nat.eqb_spec n m) as [->|Hne].
  - destruct (Nat.testbit v m); [rewrite Nat.pow2_bits_true | rewrite Nat.bits_0]; reflexivity.
  - cbn [andb]. destruct (Nat.testbit v n); [rewrite Nat.pow2_bits_false by auto | rewrite Nat.bits_0]; reflexivity. Qed.
Lemma testq_bit n v : asm_testq_z (2 ^ n) v = Nat.eqb (Nat.modulo (Nat.div v (2 ^ n)) 2) 0.
Proof. unfold asm_testq_z. rewrite land_pow2. rewrite <- Nat.testbit_spec'.
  assert (2 ^ n <> 0)%nat by (apply Nat.pow_nonzero; lia).
  destruct (Nat.testbit v n); cbn [Nat.b2n]; [|reflexivity].
  destruct (Nat.eqb_spec (2 ^ n) 0); [lia | reflexivity]. Qed.
Lemma testq_ones n v : asm_testq_z (Nat.ones n) v = Nat.eqb (Nat.modulo v (2 ^ n)) 0.
Proof. unfold asm_testq_z. rewrite Nat.land_comm, Nat.land_ones. reflexivity. Qed.
Lemma testq_32 v : asm_testq_z 32 v = Nat.eqb (Nat.modulo (Nat.div v 32) 2) 0. Proof. exact (testq_bit 5 v). Qed.
Lemma testq_16 v : asm_testq_z 16 v = Nat.eqb (Nat.modulo (Nat.div v 16) 2) 0. Proof. exact (testq_bit 4 v). Qed.
Lemma testq_8 v : asm_testq_z 8 v = Nat.eqb (Nat.modulo (Nat.div v 8) 2) 0. Proof. exact (testq_bit 3 v). Qed.
Lemma testq_4 v : asm_testq_z 4 v = Nat.eqb (Nat.modulo (Nat.div v 4) 2) 0. Proof. exact (testq_bit 2 v). Qed.
Lemma testq_2 v : asm_testq_z 2 v = Nat.eqb (Nat.modulo (Nat.div v 2) 2) 0. Proof. exact (testq_bit 1 v). Qed.
Lemma testq_1 v : asm_testq_z 1 v = Nat.eqb (Nat.modulo (Nat.div v 1) 2) 0. Proof. exact (testq_bit 0 v). Qed.
Lemma testq_31 v : asm_testq_z 31 v = Nat.eqb (Nat.modulo v 32) 0. Proof. exact (testq_ones 5 v). Qed.
Lemma testq_7 v : asm_testq_z 7 v = Nat.eqb (Nat.modulo v 8) 0. Proof. exact (testq_ones 3 v). Qed.

(* ---------- the word functions ---------- *)
Lemma key8_length k : length (key8 k) = 8%nat. Proof. destruct k as [[[? ?] ?] ?]; reflexivity. Qed.
Lemma key16_length k : length (key8 k ++ key8 k) = 16%nat. Proof. destruct k as [[[? ?] ?] ?]; reflexivity. Qed.
Lemma key4_length k : length (key4 k) = 4%nat. Proof. destruct k as [[[? ?] ?] ?]; reflexivity. Qed.
Lemma key2_length k : length (firstn 2 (key4 k)) = 2%nat. Proof. destruct k as [[[? ?] ?] ?]; reflexivity. Qed.
Lemma key1_length k : length (firstn 1 (key4 k)) = 1%nat. Proof. destruct k as [[[? ?] ?] ?]; reflexivity. Qed.

Lemma x128_spec k w : wf_key k -> wf_bytes w -> length w = 16%nat -> xor_word (key8 k ++ key8 k) w = mask_spec k w.
Proof. destruct k as [[[k0 k1] k2] k3]. intros (H0&H1&H2&H3) Hw HL.
  rewrite xor_word_spec; auto.
  - do 17 (destruct w as [|? w]; cbn [length] in HL; try lia). reflexivity.
  - unfold key8, key4, wf_bytes. repeat constructor; auto. Qed.
Lemma x16_spec k w : wf_key k -> wf_bytes w -> length w = 2%nat -> xor_word (firstn 2 (key4 k)) w = mask_spec k w.
Proof. destruct k as [[[k0 k1] k2] k3]. intros (H0&H1&H2&H3) Hw HL.
  rewrite xor_word_spec; auto.
  - do 3 (destruct w as [|? w]; cbn [length] in HL; try lia). reflexivity.
  - cbn. repeat constructor; auto. Qed.
Lemma x8_spec k w : wf_key k -> wf_bytes w -> length w = 1%nat -> xor_word (firstn 1 (key4 k)) w = mask_spec k w.
Proof. destruct k as [[[k0 k1] k2] k3]. intros (H0&H1&H2&H3) Hw HL.
  rewrite xor_word_spec; auto.
  - do 2 (destruct w as [|? w]; cbn [length] in HL; try lia). reflexivity.
  - cbn. repeat constructor; auto. Qed.

Lemma rotk4 k n : (n mod 4 = 0)%nat -> rotk k n = k.
Proof. intro H. destruct k as [[[k0 k1] k2] k3]. unfold rotk. rewrite H. reflexivity. Qed.
Lemma roll24_rotk pre lo hi post cx k di :
  asm_roll24 (AsmSt pre lo hi post cx k di) = AsmSt pre lo hi post cx (rotk k 1) di.
Proof. destruct k as [[[k0 k1] k2] k3]. reflexivity. Qed.
Lemma roll16_rotk pre lo hi post cx k di :
  asm_roll16 (AsmSt pre lo hi post cx k di) = AsmSt pre lo hi post cx (rotk k 2) di.
Proof. destruct k as [[[k0 k1] k2] k3]. reflexivity. Qed.

(* ---------- one memory instruction, in invariant form:
   "the first [off] bytes above AX are already masked" -> "the first [off+w] bytes are" ---------- *)
Lemma xor_mem_inv k src (w off n' : nat) h0 pre lo post cx si di :
  length src = w -> n' = (off + w)%nat ->
  (forall x, wf_bytes x -> length x = w -> xor_word src x = mask_spec k x) ->
  (off mod 4 = 0)%nat -> (n' <= length h0)%nat -> wf_bytes h0 ->
  asm_xor_mem off src (AsmSt pre lo (mask_spec k (firstn off h0) ++ skipn off h0) post cx si di)
  = Some (AsmSt pre lo (mask_spec k (firstn n' h0) ++ skipn n' h0) post cx si di).
Proof.
  intros Hs -> Hf Hoff Hlen Hwf. unfold asm_xor_mem.
  cbn [asm_hi asm_pre asm_lo asm_post asm_cx asm_si asm_di]. rewrite Hs.
  assert (LM : length (mask_spec k (firstn off h0)) = off) by (rewrite mask_spec_length, firstn_length; lia).
  rewrite app_length, LM, skipn_length.
  destruct (Nat.leb_spec (off + w) (off + (length h0 - off))); [|lia].
  f_equal. f_equal.
  rewrite (firstn_app_exact _ _ off LM).
  rewrite <- (skipn_skipn' off w), !(skipn_app_exact _ _ off LM).
  rewrite firstn_add.
  assert (E : mask_spec k (firstn off h0 ++ firstn w (skipn off h0))
              = mask_spec k (firstn off h0) ++ mask_spec k (firstn w (skipn off h0))).
  { destruct k as [[[k0 k1] k2] k3]. unfold mask_spec. apply (xorc_app k0 k1 k2 k3 (off / 4)).
    rewrite firstn_length. lia. }
  rewrite E, Hf.
  - rewrite <- app_assoc. rewrite skipn_skipn'. reflexivity.
  - apply wf_firstn, wf_skipn; auto.
  - rewrite firstn_length, skipn_length. lia.
Qed.

Lemma xor_mem_0 k src (w : nat) hi pre lo post cx si di :
  length src = w ->
  (forall x, wf_bytes x -> length x = w -> xor_word src x = mask_spec k x) ->
  (w <= length hi)%nat -> wf_bytes hi ->
  asm_xor_mem 0 src (AsmSt pre lo hi post cx si di)
  = Some (AsmSt pre lo (mask_spec k (firstn w hi) ++ skipn w hi) post cx si di).
Proof. intros Hs Hf Hl Hwf.
  pose proof (xor_mem_inv k src w 0 w hi pre lo post cx si di Hs eq_refl Hf eq_refl Hl Hwf) as P.
  destruct k as [[[k0 k1] k2] k3]. exact P. Qed.

Lemma add_ax_inv k (n : nat) h0 pre lo post cx si di : (n <= length h0)%nat ->
  asm_add_ax n (AsmSt pre lo (mask_spec k (firstn n h0) ++ skipn n h0) post cx si di)
  = Some (AsmSt pre (lo ++ mask_spec k (firstn n h0)) (skipn n h0) post cx si di).
Proof. intro H. unfold asm_add_ax. cbn [asm_hi asm_pre asm_lo asm_post asm_cx asm_si asm_di].
  assert (LM : length (mask_spec k (firstn n h0)) = n) by (rewrite mask_spec_length, firstn_length; lia).
  rewrite app_length, LM, skipn_length.
  destruct (Nat.leb_spec n (n + (length h0 - n))); [|lia].
  rewrite (firstn_app_exact _ _ n LM), (skipn_app_exact _ _ n LM). reflexivity. Qed.

Lemma sub_cx_ok (n : nat) pre lo hi post cx si di : (n <= cx)%nat ->
  asm_sub_cx n (AsmSt pre lo hi post cx si di) = Some (AsmSt pre lo hi post (cx - n) si di).
Proof. intro H. unfold asm_sub_cx. cbn [asm_hi asm_pre asm_lo asm_post asm_cx asm_si asm_di].
  destruct (Nat.leb_spec n cx); [reflexivity | lia]. Qed.

(* ---------- gluing a phase to the rest ---------- *)
Lemma finish k (n : nat) lo hi pre post : (n <= length hi)%nat ->
  AsmDone (pre, (lo ++ mask_spec k (firstn n hi)) ++ mask_spec (rotk k n) (skipn n hi), post)
          (rotk (rotk k n) (length (skipn n hi)))
  = AsmDone (pre, lo ++ mask_spec k hi, post) (rotk k (length hi)).
Proof. intro H.
  assert (E : mask_spec k hi = mask_spec k (firstn n hi) ++ mask_spec (rotk k n) (skipn n hi)).
  { rewrite <- (firstn_skipn n hi) at 1. rewrite mask_compose, firstn_length.
    replace (Nat.min n (length hi)) with n by lia. reflexivity. }
  rewrite E, rotk_rotk, skipn_length. replace (n + (length hi - n))%nat with (length hi) by lia.
  rewrite app_assoc. reflexivity. Qed.
Lemma finish4 k (n : nat) lo hi pre post : (n mod 4 = 0)%nat -> (n <= length hi)%nat ->
  AsmDone (pre, (lo ++ mask_spec k (firstn n hi)) ++ mask_spec k (skipn n hi), post)
          (rotk k (length (skipn n hi)))
  = AsmDone (pre, lo ++ mask_spec k hi, post) (rotk k (length hi)).
Proof. intros H4 H. pose proof (finish k n lo hi pre post H) as P. rewrite (rotk4 k n H4) in P. exact P. Qed.

Ltac side :=
  first [ assumption | reflexivity | apply key8_length | apply key16_length | apply key4_length
        | apply key2_length | apply key1_length
        | (intros; apply x64_spec; assumption) | (intros; apply x128_spec; assumption)
        | (intros; apply x32_spec; assumption) | (intros; apply x16_spec; assumption)
        | (intros; apply x8_spec; assumption) | lia ].
Ltac red_st := cbv beta iota; cbn [asm_hi asm_pre asm_lo asm_post asm_cx asm_si asm_di].
(* first access of a block, at offset 0, width w *)
Ltac xor0 k w hi := rewrite (xor_mem_0 k _ w hi) by side; red_st.
(* next access of a block: offset off, width w, reaching n' *)
Ltac xorn k w off n' hi := rewrite (xor_mem_inv k _ w off n' hi) by side; red_st.
Ltac addax k n hi := rewrite (add_ax_inv k n hi) by side; red_st.

(* ---------- the tails: CX is not decremented, only its low bits are inspected ---------- *)
Definition tail_any (f : asm_st -> asm_res) (m : nat) : Prop :=
  forall pre lo hi post cx k di, wf_key k -> wf_bytes hi -> length hi = (cx mod m)%nat ->
    f (AsmSt pre lo hi post cx k di) = AsmDone (pre, lo ++ mask_spec k hi, post) (rotk k (length hi)).
Definition tail_di (f : asm_st -> asm_res) (m : nat) : Prop :=
  forall pre lo hi post cx k, wf_key k -> wf_bytes hi -> length hi = (cx mod m)%nat ->
    f (AsmSt pre lo hi post cx k (key8 k)) = AsmDone (pre, lo ++ mask_spec k hi, post) (rotk k (length hi)).

Lemma lt2_ok : tail_any asm_less_than_2 2.
Proof. intros pre lo hi post cx k di Hk Hw HL. unfold asm_less_than_2. red_st. rewrite testq_1.
  destruct (Nat.eqb_spec ((cx / 1) mod 2) 0) as [E|E].
  - unfold asm_done. red_st. destruct hi as [|x hi]; [|cbn [length] in HL; lia].
    destruct k as [[[k0 k1] k2] k3]. reflexivity.
  - unfold asm_xorb. red_st. xor0 k 1%nat hi. rewrite roll24_rotk. unfold asm_done. red_st.
    destruct hi as [|x [|y hi]]; cbn [length] in HL; try lia.
    destruct k as [[[k0 k1] k2] k3]. reflexivity. Qed.

Lemma lt4_ok : tail_any asm_less_than_4 4.
Proof. intros pre lo hi post cx k di Hk Hw HL. unfold asm_less_than_4. red_st. rewrite testq_2.
  destruct (Nat.eqb_spec ((cx / 2) mod 2) 0) as [E|E].
  - apply lt2_ok; auto. lia.
  - unfold asm_xorw. red_st. xor0 k 2%nat hi. rewrite roll16_rotk. addax k 2%nat hi.
    rewrite lt2_ok; [apply finish; lia | apply rotk_wf; auto | apply wf_skipn; auto | rewrite skipn_length; lia]. Qed.

Lemma lt8_ok : tail_any asm_less_than_8 8.
Proof. intros pre lo hi post cx k di Hk Hw HL. unfold asm_less_than_8. red_st. rewrite testq_4.
  destruct (Nat.eqb_spec ((cx / 4) mod 2) 0) as [E|E].
  - apply lt4_ok; auto. lia.
  - unfold asm_xorl. red_st. xor0 k 4%nat hi. addax k 4%nat hi.
    rewrite lt4_ok; [apply finish4; side | auto | apply wf_skipn; auto | rewrite skipn_length; lia]. Qed.

Lemma lt16_ok : tail_di asm_less_than_16 16.
Proof. intros pre lo hi post cx k Hk Hw HL. unfold asm_less_than_16. red_st. rewrite testq_8.
  destruct (Nat.eqb_spec ((cx / 8) mod 2) 0) as [E|E].
  - apply lt8_ok; auto. lia.
  - unfold asm_xorq. red_st. xor0 k 8%nat hi. addax k 8%nat hi.
    rewrite lt8_ok; [apply finish4; side | auto | apply wf_skipn; auto | rewrite skipn_length; lia]. Qed.

Lemma lt32_ok : tail_di asm_less_than_32 32.
Proof. intros pre lo hi post cx k Hk Hw HL. unfold asm_less_than_32. red_st. rewrite testq_16.
  destruct (Nat.eqb_spec ((cx / 16) mod 2) 0) as [E|E].
  - apply lt16_ok; auto. lia.
  - unfold asm_xorq. red_st. xor0 k 8%nat hi. xorn k 8%nat 8%nat 16%nat hi. addax k 16%nat hi.
    rewrite lt16_ok; [apply finish4; side | auto | apply wf_skipn; auto | rewrite skipn_length; lia]. Qed.

Lemma lt64_ok : tail_di asm_less_than_64 64.
Proof. intros pre lo hi post cx k Hk Hw HL. unfold asm_less_than_64. red_st. rewrite testq_32.
  destruct (Nat.eqb_spec ((cx / 32) mod 2) 0) as [E|E].
  - apply lt32_ok; auto. lia.
  - unfold asm_xorq. red_st. xor0 k 8%nat hi. xorn k 8%nat 8%nat 16%nat hi.
    xorn k 8%nat 16%nat 24%nat hi. xorn k 8%nat 24%nat 32%nat hi. addax k 32%nat hi.
    rewrite lt32_ok; [apply finish4; side | auto | apply wf_skipn; auto | rewrite skipn_length; lia]. Qed.

(* ---------- sse_loop / sse ---------- *)
Lemma sse_loop_ok : forall fuel pre lo hi post k, wf_key k -> wf_bytes hi ->
  (64 <= length hi)%nat -> (length hi <= 64 * fuel)%nat ->
  asm_sse_loop fuel (key8 k ++ key8 k) (AsmSt pre lo hi post (length hi) k (key8 k))
  = AsmDone (pre, lo ++ mask_spec k hi, post) (rotk k (length hi)).
Proof. induction fuel as [|fu IH]; intros pre lo hi post k Hk Hw H64 Hfu; [lia|].
  cbn [asm_sse_loop].
  xor0 k 16%nat hi. xorn k 16%nat 16%nat 32%nat hi. xorn k 16%nat 32%nat 48%nat hi.
  xorn k 16%nat 48%nat 64%nat hi. addax k 64%nat hi.
  rewrite sub_cx_ok by lia. red_st.
  replace (length hi - 64)%nat with (length (skipn 64 hi)) by (rewrite skipn_length; lia).
  destruct (Nat.leb_spec 64 (length (skipn 64 hi))) as [G|G].
  - rewrite IH; [apply finish4; side | auto | apply wf_skipn; auto | lia | rewrite skipn_length in *; lia].
  - rewrite lt64_ok; [apply finish4; side | auto | apply wf_skipn; auto | lia]. Qed.

Lemma sse_ok F pre lo hi post k : wf_key k -> wf_bytes hi -> (length hi <= 64 * F)%nat ->
  asm_sse F (AsmSt pre lo hi post (length hi) k (key8 k))
  = AsmDone (pre, lo ++ mask_spec k hi, post) (rotk k (length hi)).
Proof. intros Hk Hw HF. unfold asm_sse. red_st.
  destruct (Nat.ltb_spec (length hi) 64).
  - apply lt64_ok; auto. lia.
  - apply sse_loop_ok; auto. Qed.

(* ---------- unaligned_loop: 8 bytes at a time until AX is 32-aligned ---------- *)
Lemma unaligned_loop_ok F : forall fuel pre lo hi post k, wf_key k -> wf_bytes hi ->
  ((length pre + length lo) mod 8 = 0)%nat ->
  (32 - (length pre + length lo) mod 32 <= length hi)%nat ->
  (32 - (length pre + length lo) mod 32 <= 8 * fuel)%nat ->
  (length hi <= 64 * F)%nat ->
  asm_unaligned_loop F fuel (AsmSt pre lo hi post (length hi) k (key8 k))
  = AsmDone (pre, lo ++ mask_spec k hi, post) (rotk k (length hi)).
Proof. induction fuel as [|fu IH]; intros pre lo hi post k Hk Hw H8 Hlen Hfu HF; [lia|].
  cbn [asm_unaligned_loop]. unfold asm_xorq. red_st.
  xor0 k 8%nat hi. addax k 8%nat hi. rewrite sub_cx_ok by lia. red_st.
  replace (length hi - 8)%nat with (length (skipn 8 hi)) by (rewrite skipn_length; lia).
  rewrite testq_31. unfold asm_ax. red_st.
  assert (LL : length (lo ++ mask_spec k (firstn 8 hi)) = (length lo + 8)%nat)
    by (rewrite app_length, mask_spec_length, firstn_length; lia).
  rewrite LL.
  destruct (Nat.eqb_spec ((length pre + (length lo + 8)) mod 32) 0) as [E|E].
  - rewrite sse_ok; [apply finish4; side | auto | apply wf_skipn; auto | rewrite skipn_length; lia].
  - rewrite IH; [apply finish4; side | auto | apply wf_skipn; auto | rewrite LL; lia
                 | rewrite LL, skipn_length; lia | rewrite LL; lia | rewrite skipn_length; lia]. Qed.

(* ---------- unaligned_loop_1byte: byte by byte until AX is 8-aligned, then on to sse / unaligned ---------- *)
Lemma loop1_ok F : forall fuel pre lo hi post k di, wf_key k -> wf_bytes hi ->
  (8 - (length pre + length lo) mod 8 + 32 <= length hi)%nat ->
  (8 - (length pre + length lo) mod 8 <= fuel)%nat ->
  (length hi <= 64 * F)%nat -> (4 <= F)%nat ->
  asm_unaligned_loop_1byte F fuel (AsmSt pre lo hi post (length hi) k di)
  = AsmDone (pre, lo ++ mask_spec k hi, post) (rotk k (length hi)).
Proof. induction fuel as [|fu IH]; intros pre lo hi post k di Hk Hw Hlen Hfu HF HF4; [lia|].
  cbn [asm_unaligned_loop_1byte]. unfold asm_xorb. red_st.
  xor0 k 1%nat hi. addax k 1%nat hi. rewrite sub_cx_ok by lia. red_st.
  replace (length hi - 1)%nat with (length (skipn 1 hi)) by (rewrite skipn_length; lia).
  rewrite roll24_rotk. unfold asm_mk_di. red_st.
  rewrite testq_7, testq_31. unfold asm_unaligned. unfold asm_ax. red_st. rewrite testq_7.
  assert (LL : length (lo ++ mask_spec k (firstn 1 hi)) = (length lo + 1)%nat)
    by (rewrite app_length, mask_spec_length, firstn_length; lia).
  rewrite LL.
  assert (Hk' : wf_key (rotk k 1)) by (apply rotk_wf; auto).
  assert (Hw' : wf_bytes (skipn 1 hi)) by (apply wf_skipn; auto).
  destruct (Nat.eqb_spec ((length pre + (length lo + 1)) mod 8) 0) as [E|E].
  - destruct (Nat.eqb_spec ((length pre + (length lo + 1)) mod 32) 0) as [E2|E2].
    + rewrite sse_ok; [apply finish; lia | auto | auto | rewrite skipn_length; lia].
    + rewrite unaligned_loop_ok; [apply finish; lia | auto | auto | rewrite LL; lia
        | rewrite LL, skipn_length; lia | rewrite LL; lia | rewrite skipn_length; lia].
  - rewrite IH; [apply finish; lia | auto | auto | rewrite LL, skipn_length; lia | rewrite LL; lia
                 | rewrite skipn_length; lia | auto]. Qed.

(* ---------- the whole routine ---------- *)
Theorem maskAsm_spec : forall pre b post k, wf_key k -> wf_bytes b ->
  maskAsm_amd64 (pre, b, post) k = AsmDone (pre, mask_spec k b, post) (rotk k (length b)).
Proof. intros pre b post k Hk Hb. unfold maskAsm_amd64, asm_mk_di. red_st.
  change (mask_spec k b) with ([] ++ mask_spec k b).
  destruct (Nat.leb_spec (length b) 15); [apply lt16_ok; auto; lia|].
  destruct (Nat.leb_spec (length b) 63); [apply lt64_ok; auto; lia|].
  destruct (Nat.leb_spec (length b) 128); [apply sse_ok; auto; lia|].
  unfold asm_unaligned, asm_ax. red_st. rewrite testq_31, testq_7. cbn [length].
  destruct (Nat.eqb_spec ((length pre + 0) mod 32) 0) as [E|E].
  - apply loop1_ok; auto; cbn [length]; lia.
  - destruct (Nat.eqb_spec ((length pre + 0) mod 8) 0) as [E8|E8].
    + apply unaligned_loop_ok; auto; cbn [length]; lia.
    + apply loop1_ok; auto; cbn [length]; lia. Qed.

Print Assumptions maskAsm_spec.

(* ---------- a concrete run: 200 bytes at alignment 3, key (1,2,3,4) ---------- *)
Definition ex_buf : bytes := map (fun i => N.of_nat ((i * 37 + 11) mod 256)) (seq 0 200).
Example maskAsm_run_200 :
  maskAsm_amd64 (repeat 170 3, ex_buf, repeat 85 5) (1,2,3,4)
  = AsmDone (repeat 170 3, mask_spec (1,2,3,4) ex_buf, repeat 85 5) (rotk (1,2,3,4) 200).
Proof. vm_compute; reflexivity. Qed.
