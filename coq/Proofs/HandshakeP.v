(* Proofs/HandshakeP.v — Accept, Dial and permessage-deflate negotiation decisions. *)
From Coq Require Import List NArith Lia ZArith ZifyN ZifyNat ZifyBool Bool.
From WS Require Import Base.Words Gen.Consts Model.Proto Model.Fold Model.Base64 Model.Sha1 Model.Origin Model.Handshake.
Import ListNotations.
Open Scope N_scope.

Lemma hs_beq_eq : forall a b, hs_beq a b = true <-> a = b.
Proof. induction a as [|x a IH]; intros [|y b]; cbn [hs_beq]; split; intro H; try discriminate; try reflexivity.
  - apply Bool.andb_true_iff in H. destruct H as (H1 & H2). apply N.eqb_eq in H1. apply IH in H2. subst. reflexivity.
  - inversion H; subst. rewrite N.eqb_refl. cbn. apply IH. reflexivity. Qed.
Lemma hs_beq_refl a : hs_beq a a = true. Proof. apply hs_beq_eq. reflexivity. Qed.

(* ================= C11: Accept upgrades exactly the valid requests ================= *)
Definition valid_ws_request (r : hreq) : Prop :=
  q_method r = s_GET /\ (1 < q_major r \/ (q_major r = 1 /\ 1 <= q_minor r))%nat /\
  hs_has_token (q_hdrs r) s_Connection s_Upgrade = true /\ hs_has_token (q_hdrs r) s_Upgrade s_websocket = true /\
  hs_get (q_hdrs r) s_SecVersion = s_13 /\
  exists k d, hs_values (q_hdrs r) s_SecKey = [k] /\ b64_decode (hs_trim k) = Some d /\ length d = 16%nat.

Theorem verify_client_request_iff r : verify_client_request r = 0%nat <-> valid_ws_request r.
Proof. unfold verify_client_request, valid_ws_request. split.
  - intro H.
    destruct (Nat.ltb_spec 1 (q_major r)) as [Hm|Hm]; cbn [orb negb] in H.
    + revert H. destruct (hs_has_token (q_hdrs r) s_Connection s_Upgrade); cbn [negb]; [|discriminate].
      destruct (hs_has_token (q_hdrs r) s_Upgrade s_websocket); cbn [negb]; [|discriminate].
      destruct (hs_beq (q_method r) s_GET) eqn:Eg; cbn [negb]; [|discriminate].
      destruct (hs_beq (hs_get (q_hdrs r) s_SecVersion) s_13) eqn:Ev; cbn [negb]; [|discriminate].
      destruct (hs_values (q_hdrs r) s_SecKey) as [|k [|k2 ks]]; try discriminate.
      destruct (b64_decode (hs_trim k)) as [d|] eqn:Ed; [|discriminate].
      destruct (Nat.eqb_spec (length d) 16); [|discriminate]. intros _.
      apply hs_beq_eq in Eg. apply hs_beq_eq in Ev. repeat split; auto. exists k, d. auto.
    + destruct (Nat.eqb_spec (q_major r) 1) as [E1|E1]; destruct (Nat.leb_spec 1 (q_minor r)) as [E2|E2]; cbn [andb negb] in H; try discriminate.
      revert H. destruct (hs_has_token (q_hdrs r) s_Connection s_Upgrade); cbn [negb]; [|discriminate].
      destruct (hs_has_token (q_hdrs r) s_Upgrade s_websocket); cbn [negb]; [|discriminate].
      destruct (hs_beq (q_method r) s_GET) eqn:Eg; cbn [negb]; [|discriminate].
      destruct (hs_beq (hs_get (q_hdrs r) s_SecVersion) s_13) eqn:Ev; cbn [negb]; [|discriminate].
      destruct (hs_values (q_hdrs r) s_SecKey) as [|k [|k2 ks]]; try discriminate.
      destruct (b64_decode (hs_trim k)) as [d|] eqn:Ed; [|discriminate].
      destruct (Nat.eqb_spec (length d) 16); [|discriminate]. intros _.
      apply hs_beq_eq in Eg. apply hs_beq_eq in Ev. repeat split; auto. exists k, d. auto.
  - intros (Hg & Hp & Hc & Hu & Hv & k & d & Hk & Hd & Hl).
    assert (P : Nat.ltb 1 (q_major r) || (Nat.eqb (q_major r) 1 && Nat.leb 1 (q_minor r)) = true).
    { destruct Hp as [Hp|(Hp1 & Hp2)].
      - destruct (Nat.ltb_spec 1 (q_major r)); [reflexivity|lia].
      - rewrite Hp1. change (Nat.ltb 1 1) with false. change (Nat.eqb 1 1) with true. cbn [orb andb].
        apply Nat.leb_le. exact Hp2. }
    rewrite P, Hc, Hu, Hg, Hv, Hk, Hd. cbn [negb]. rewrite !hs_beq_refl. cbn [negb]. rewrite Hl. reflexivity.
Qed.

Definition origin_ok (r : hreq) (o : aopts) : Prop :=
  a_skip_verify o = true \/ origin_authenticate (q_host r) (origin_hdr r) (a_patterns o) = OAllow.

Theorem accept_iff r o : ar_status (accept_decide r o) = 101%nat <-> (valid_ws_request r /\ origin_ok r o).
Proof. unfold accept_decide, origin_ok. rewrite <- verify_client_request_iff. split.
  - destruct (verify_client_request r) as [|n] eqn:E.
    + destruct (a_skip_verify o); cbn [negb andb].
      * intros _. auto.
      * destruct (origin_authenticate (q_host r) (origin_hdr r) (a_patterns o)); cbn [ar_status]; intro H; [auto|discriminate].
    + cbn [ar_status]. intro H. pose proof (verify_client_request_iff r) as W.
      exfalso. assert (S n <> 101%nat).
      { intro X. rewrite X in E. unfold verify_client_request in E.
        repeat match type of E with context [if ?c then _ else _] => destruct c; try (cbv iota in E; discriminate E) end.
        destruct (hs_values (q_hdrs r) s_SecKey) as [|k [|k2 ks]]; try (cbv iota in E; discriminate E).
        destruct (b64_decode (hs_trim k)); try (cbv iota in E; discriminate E). destruct (Nat.eqb (length l) 16); cbv iota in E; discriminate E. }
      contradiction.
  - intros (E & Ho). rewrite E. destruct Ho as [Ho|Ho]; rewrite Ho; [reflexivity|]. rewrite Bool.andb_false_r. reflexivity.
Qed.

Theorem accept_reject r o : ~ (valid_ws_request r /\ origin_ok r o) ->
  (ar_status (accept_decide r o) = 426 \/ ar_status (accept_decide r o) = 405 \/ ar_status (accept_decide r o) = 400 \/ ar_status (accept_decide r o) = 403)%nat
  /\ ar_copts (accept_decide r o) = None.
Proof. intro H. assert (N : ar_status (accept_decide r o) <> 101%nat) by (intro X; apply H; apply accept_iff; exact X).
  unfold accept_decide in *. destruct (verify_client_request r) as [|n] eqn:E.
  - destruct (negb (a_skip_verify o) && _) eqn:B; cbn [ar_status ar_copts] in *; [auto | contradiction].
  - cbn [ar_status ar_copts]. split; [|reflexivity]. unfold verify_client_request in E.
    repeat match type of E with context [if ?c then _ else _] => destruct c; [inversion E; auto|] end.
    destruct (hs_values (q_hdrs r) s_SecKey) as [|k [|k2 ks]]; try (inversion E; auto; fail).
    destruct (b64_decode (hs_trim k)); try (inversion E; auto; fail). destruct (Nat.eqb (length l) 16); [cbv iota in E; discriminate E|inversion E; auto]. Qed.

Theorem accept_key_value r o : ar_status (accept_decide r o) = 101%nat ->
  ar_accept (accept_decide r o) = b64_encode (sha1 (hs_get (q_hdrs r) s_SecKey ++ c_keyGUID)).
Proof. intro H. pose proof (proj1 (accept_iff r o) H) as (Hv & _). apply verify_client_request_iff in Hv.
  unfold accept_decide in *. rewrite Hv in *.
  destruct (negb (a_skip_verify o) && _); [cbn in H; discriminate H|]. reflexivity. Qed.

(* the subprotocol: for the FIRST server-preferred entry that folds equal to some client token, the client's
   (first matching) spelling; "" when no server entry matches any token *)
Theorem select_subprotocol_spec : forall server cps,
  (select_subprotocol server cps = [] /\ (forall sp, In sp server -> find_fold sp cps = None \/ find_fold sp cps = Some []))
  \/ exists pre sp post cp, server = pre ++ sp :: post /\ (forall s', In s' pre -> find_fold s' cps = None) /\
       find_fold sp cps = Some cp /\ select_subprotocol server cps = cp.
Proof. induction server as [|sp r IH]; intro cps; cbn [select_subprotocol].
  - left. split; [reflexivity|]. intros sp [].
  - destruct (find_fold sp cps) as [cp|] eqn:E.
    + right. exists [], sp, r, cp. cbn. repeat split; auto. intros s' [].
    + destruct (IH cps) as [(E0 & Hn)|(pre & sp' & post & cp & Es & Hpre & Hf & Hsel)].
      * left. split; [exact E0|]. intros s' [Hs|Hin]; [subst s'; left; exact E | apply Hn; exact Hin].
      * right. exists (sp :: pre), sp', post, cp. cbn [app]. subst r. repeat split; auto. intros s' [Hs|Hin]; [subst s'; exact E | apply Hpre; exact Hin].
Qed.

Lemma find_fold_sound sp cps cp : find_fold sp cps = Some cp -> In cp cps /\ fold_eq sp cp = true.
Proof. induction cps as [|c r IH]; cbn [find_fold]; [discriminate|]. destruct (fold_eq sp c) eqn:E.
  - intro H; inversion H; subst. split; [left; reflexivity | exact E].
  - intro H. destruct (IH H). split; [right|]; auto. Qed.

Theorem accept_refused_403 r o : valid_ws_request r -> ~ origin_ok r o -> ar_status (accept_decide r o) = 403%nat /\ ar_copts (accept_decide r o) = None.
Proof. intros Hv Ho. apply verify_client_request_iff in Hv. unfold accept_decide, origin_ok in *. rewrite Hv.
  destruct (a_skip_verify o); [exfalso; apply Ho; left; reflexivity|]. cbn [negb andb].
  destruct (origin_authenticate (q_host r) (origin_hdr r) (a_patterns o)); [exfalso; apply Ho; right; reflexivity|]. split; reflexivity. Qed.

(* ================= C14: permessage-deflate ================= *)
Definition or_flags (a b : copts) : copts := {| cnct := cnct a || cnct b; snct := snct a || snct b |}.

(* what an acceptable offer may contain *)
Definition param_acceptable (p : bytes) : Prop :=
  p = s_cnct \/ p = s_snct \/ p = s_cmwb \/ p = s_smwb ++ [61; 49; 53] \/ exists v, hs_prefix (s_cmwb ++ [61]) p = Some v /\ hs_valid_bits v = true.

Lemma accept_params_sound : forall ps c c', accept_params ps c = Some c' ->
  Forall param_acceptable ps /\ cnct c' = (cnct c || existsb (hs_beq s_cnct) ps) /\ snct c' = (snct c || existsb (hs_beq s_snct) ps).
Proof. induction ps as [|p r IH]; intros c c' H; cbn [accept_params] in H.
  - inversion H; subst. cbn. rewrite !Bool.orb_false_r. auto.
  - cbn [existsb].
    destruct (hs_beq p s_cnct) eqn:E1.
    { apply IH in H. destruct H as (F & A & B). cbn [cnct snct] in *. apply hs_beq_eq in E1. subst p. rewrite hs_beq_refl.
      split; [constructor; [left; reflexivity|exact F]|]. split; [rewrite A; destruct (cnct c); reflexivity|].
      rewrite B. assert (X : hs_beq s_snct s_cnct = false) by reflexivity. rewrite X. reflexivity. }
    destruct (hs_beq p s_snct) eqn:E2.
    { apply IH in H. destruct H as (F & A & B). cbn [cnct snct] in *. apply hs_beq_eq in E2. subst p. rewrite hs_beq_refl.
      split; [constructor; [right; left; reflexivity|exact F]|]. split.
      - rewrite A. assert (X : hs_beq s_cnct s_snct = false) by reflexivity. rewrite X. reflexivity.
      - rewrite B. destruct (snct c); reflexivity. }
    assert (N1 : hs_beq s_cnct p = false).
    { destruct (hs_beq s_cnct p) eqn:X; [|reflexivity]. apply hs_beq_eq in X. subst p. rewrite hs_beq_refl in E1. discriminate. }
    assert (N2 : hs_beq s_snct p = false).
    { destruct (hs_beq s_snct p) eqn:X; [|reflexivity]. apply hs_beq_eq in X. subst p. rewrite hs_beq_refl in E2. discriminate. }
    rewrite N1, N2. cbn [orb].
    destruct (hs_beq p s_cmwb) eqn:E3.
    { apply IH in H. destruct H as (F & A & B). apply hs_beq_eq in E3. split; [constructor; [right; right; left; exact E3|exact F]|auto]. }
    destruct (hs_beq p (s_smwb ++ [61; 49; 53])) eqn:E4.
    { apply IH in H. destruct H as (F & A & B). apply hs_beq_eq in E4. split; [constructor; [right; right; right; left; exact E4|exact F]|auto]. }
    destruct (hs_prefix (s_cmwb ++ [61]) p) as [v|] eqn:E5; [|discriminate].
    destruct (hs_valid_bits v) eqn:E6; [|discriminate].
    apply IH in H. destruct H as (F & A & B). split; [constructor; [right; right; right; right; exists v; auto|exact F]|auto].
Qed.

(* server: only an acceptable, duplicate-free permessage-deflate offer is accepted; the result is the server mode's
   options OR-ed with the no_context_takeover flags of that offer (so server_no_context_takeover is echoed when asked) *)
Theorem accept_deflate_sound e m c : accept_deflate e m = Some c ->
  hs_has_dup (x_params e) [] = false /\ Forall param_acceptable (x_params e) /\
  c = or_flags (mode_opts m) {| cnct := existsb (hs_beq s_cnct) (x_params e); snct := existsb (hs_beq s_snct) (x_params e) |}.
Proof. unfold accept_deflate. destruct (hs_has_dup (x_params e) []) eqn:D; [discriminate|]. intro H.
  apply accept_params_sound in H. destruct H as (F & A & B). split; [reflexivity|]. split; [exact F|].
  destruct c as [c1 c2]. unfold or_flags. cbn [cnct snct] in *. subst. reflexivity. Qed.

Theorem select_deflate_sound es m c : select_deflate es m = Some c ->
  m <> MDisabled /\ exists pre e post, es = pre ++ e :: post /\ x_name e = s_pmd /\ accept_deflate e m = Some c /\
    Forall (fun e' => x_name e' = s_pmd -> accept_deflate e' m = None) pre.
Proof. unfold select_deflate. destruct m; [discriminate| |];
  (intro H; split; [discriminate|]; revert H; induction es as [|e r IH]; cbn [select_deflate_from]; [discriminate|];
   destruct (hs_beq (x_name e) s_pmd) eqn:En;
   [ destruct (accept_deflate e _) as [c0|] eqn:Ea;
     [ intro H; inversion H; subst; exists [], e, r; apply hs_beq_eq in En; repeat split; auto
     | intro H; destruct (IH H) as (pre & e' & post & Es & Hn & Ha & Hp); exists (e :: pre), e', post; subst; repeat split; auto; constructor; auto ]
   | intro H; destruct (IH H) as (pre & e' & post & Es & Hn & Ha & Hp); exists (e :: pre), e', post; subst; repeat split; auto; constructor; auto;
     intro X; rewrite X in En; rewrite hs_beq_refl in En; discriminate ]). Qed.

(* fallback: no compression exactly when disabled or no permessage-deflate offer is acceptable *)
Theorem select_deflate_none es m : select_deflate es m = None <->
  m = MDisabled \/ Forall (fun e => x_name e = s_pmd -> accept_deflate e m = None) es.
Proof. unfold select_deflate. destruct m.
  - split; auto.
  - split.
    + intro H. right. induction es as [|e r IH]; [constructor|]. cbn [select_deflate_from] in H.
      destruct (hs_beq (x_name e) s_pmd) eqn:En.
      * destruct (accept_deflate e MTakeover) eqn:Ea; [discriminate|]. constructor; auto.
      * constructor; auto. intro X. rewrite X, hs_beq_refl in En. discriminate.
    + intros [H|H]; [discriminate|]. induction es as [|e r IH]; [reflexivity|]. inversion H; subst. cbn [select_deflate_from].
      destruct (hs_beq (x_name e) s_pmd) eqn:En; [apply hs_beq_eq in En; rewrite (H2 En)|]; auto.
  - split.
    + intro H. right. induction es as [|e r IH]; [constructor|]. cbn [select_deflate_from] in H.
      destruct (hs_beq (x_name e) s_pmd) eqn:En.
      * destruct (accept_deflate e MNoTakeover) eqn:Ea; [discriminate|]. constructor; auto.
      * constructor; auto. intro X. rewrite X, hs_beq_refl in En. discriminate.
    + intros [H|H]; [discriminate|]. induction es as [|e r IH]; [reflexivity|]. inversion H; subst. cbn [select_deflate_from].
      destruct (hs_beq (x_name e) s_pmd) eqn:En; [apply hs_beq_eq in En; rewrite (H2 En)|]; auto.
Qed.

(* the response the server renders parses back (by the client's own parser) to one permessage-deflate extension whose
   parameters are exactly the two flags: never a window-bits parameter, never anything a client may not receive *)
Theorem render_parses : forall c, hs_exts [(s_SecExtensions, [render_copts c])] =
  [{| x_name := s_pmd; x_params := (if cnct c then [s_cnct] else []) ++ (if snct c then [s_snct] else []) |}].
Proof. intros [[|] [|]]; vm_compute; reflexivity. Qed.

(* library client against library server: every pair of modes ends with BOTH ends holding the same parameters *)
Theorem lib_lib_agree : forall mc ms,
  let offer := match mc with MDisabled => None | m => Some (mode_opts m) end in
  let req := match offer with Some c => [(s_SecExtensions, [render_copts c])] | None => [] end in
  let srv := select_deflate (hs_exts req) ms in
  let resp := match srv with Some c => [(s_SecExtensions, [render_copts c])] | None => [] end in
  verify_exts offer resp = VOk srv.
Proof. intros [| |] [| |]; vm_compute; reflexivity. Qed.

(* each side decodes what the other compresses: the sender's takeover flag is the one the receiver uses *)
Theorem directions_agree : forall r c, writer_takeover r c = reader_takeover (peer r) c.
Proof. intros [|] c; reflexivity. Qed.

(* client: what verify_exts accepts, and what it then holds *)
Lemma verify_params_sound : forall ps c c', verify_params ps c = Some c' ->
  Forall (fun p => p = s_cnct \/ p = s_snct \/ exists v, hs_prefix (s_smwb ++ [61]) p = Some v /\ hs_valid_bits v = true) ps /\
  cnct c' = (cnct c || existsb (hs_beq s_cnct) ps) /\ snct c' = (snct c || existsb (hs_beq s_snct) ps).
Proof. induction ps as [|p r IH]; intros c c' H; cbn [verify_params] in H.
  - inversion H; subst. cbn. rewrite !Bool.orb_false_r. auto.
  - cbn [existsb].
    destruct (hs_beq p s_cnct) eqn:E1.
    { apply IH in H. destruct H as (F & A & B). cbn [cnct snct] in *. apply hs_beq_eq in E1. subst p. rewrite hs_beq_refl.
      split; [constructor; [left; reflexivity|exact F]|]. split; [rewrite A; destruct (cnct c); reflexivity|].
      rewrite B. assert (X : hs_beq s_snct s_cnct = false) by reflexivity. rewrite X. reflexivity. }
    destruct (hs_beq p s_snct) eqn:E2.
    { apply IH in H. destruct H as (F & A & B). cbn [cnct snct] in *. apply hs_beq_eq in E2. subst p. rewrite hs_beq_refl.
      split; [constructor; [right; left; reflexivity|exact F]|]. split.
      - rewrite A. assert (X : hs_beq s_cnct s_snct = false) by reflexivity. rewrite X. reflexivity.
      - rewrite B. destruct (snct c); reflexivity. }
    assert (N1 : hs_beq s_cnct p = false).
    { destruct (hs_beq s_cnct p) eqn:X; [|reflexivity]. apply hs_beq_eq in X. subst p. rewrite hs_beq_refl in E1. discriminate. }
    assert (N2 : hs_beq s_snct p = false).
    { destruct (hs_beq s_snct p) eqn:X; [|reflexivity]. apply hs_beq_eq in X. subst p. rewrite hs_beq_refl in E2. discriminate. }
    rewrite N1, N2. cbn [orb].
    destruct (hs_prefix (s_smwb ++ [61]) p) as [v|] eqn:E5; [|discriminate].
    destruct (hs_valid_bits v) eqn:E6; [|discriminate].
    apply IH in H. destruct H as (F & A & B). split; [constructor; [right; right; exists v; auto|exact F]|auto].
Qed.

Theorem verify_exts_sound offer h c : verify_exts offer h = VOk (Some c) ->
  exists o e, offer = Some o /\ hs_exts h = [e] /\ x_name e = s_pmd /\ hs_has_dup (x_params e) [] = false /\
    Forall (fun p => p = s_cnct \/ p = s_snct \/ exists v, hs_prefix (s_smwb ++ [61]) p = Some v /\ hs_valid_bits v = true) (x_params e) /\
    (* the server's direction follows the RESPONSE only; the client's own direction may additionally reset by its own choice *)
    snct c = existsb (hs_beq s_snct) (x_params e) /\ cnct c = (cnct o || existsb (hs_beq s_cnct) (x_params e)).
Proof. unfold verify_exts. destruct (hs_exts h) as [|e rest] eqn:Ex; [discriminate|]. destruct offer as [o|]; [|discriminate].
  destruct (hs_beq (x_name e) s_pmd) eqn:En; cbn [negb orb]; [|discriminate]. destruct rest; [|discriminate].
  destruct (hs_has_dup (x_params e) []) eqn:D; [discriminate|].
  destruct (verify_params (x_params e) _) as [c'|] eqn:V; [|discriminate]. intro H; inversion H; subst c'.
  apply verify_params_sound in V. destruct V as (F & A & B). cbn [cnct snct] in *. apply hs_beq_eq in En.
  exists o, e. repeat split; auto. Qed.

Theorem verify_exts_none offer h : verify_exts offer h = VOk None <-> hs_exts h = [].
Proof. unfold verify_exts. destruct (hs_exts h) as [|e rest]; [split; auto|]. split; [|discriminate]. destruct offer as [o|]; [|discriminate].
  destruct (negb (hs_beq (x_name e) s_pmd) || _); [discriminate|]. destruct (hs_has_dup _ _); [discriminate|]. destruct (verify_params _ _); discriminate. Qed.

(* a foreign (reference RFC 7692) endpoint applies the parameters that are IN THE RESPONSE.  Compatibility per direction:
   a receiver that discards its context needs a sender that does too. *)
Definition compat (sender_resets receiver_resets : bool) : Prop := receiver_resets = true -> sender_resets = true.
Theorem foreign_agree_client offer h c e : verify_exts offer h = VOk (Some c) -> hs_exts h = [e] ->
  let f := {| cnct := existsb (hs_beq s_cnct) (x_params e); snct := existsb (hs_beq s_snct) (x_params e) |} in
  compat (cnct c) (cnct f) (* client -> server *) /\ snct c = snct f (* server -> client: exactly the response *).
Proof. intros H Hx. destruct (verify_exts_sound _ _ _ H) as (o & e' & _ & Ex & _ & _ & _ & S & C). rewrite Hx in Ex. inversion Ex; subst e'.
  cbn [cnct snct]. split; [|exact S]. unfold compat. intro X. rewrite C, X. apply Bool.orb_true_r. Qed.

Theorem foreign_agree_server es m c : select_deflate es m = Some c ->
  hs_exts [(s_SecExtensions, [render_copts c])] = [{| x_name := s_pmd; x_params := (if cnct c then [s_cnct] else []) ++ (if snct c then [s_snct] else []) |}].
Proof. intros _. apply render_parses. Qed.

(* ================= C13: Dial ================= *)
Theorem dial_headers_wf o k :
  hs_values (dial_headers o k) s_Connection = [s_Upgrade] /\ hs_values (dial_headers o k) s_Upgrade = [s_websocket] /\
  hs_values (dial_headers o k) s_SecVersion = [s_13] /\ hs_values (dial_headers o k) s_SecKey = [k] /\
  hs_values (dial_headers o k) s_SecProtocol = (match d_subprotocols o with [] => [] | l => [hs_join [44] l] end) /\
  hs_values (dial_headers o k) s_SecExtensions = (match d_mode o with MDisabled => [] | m => [render_copts (mode_opts m)] end).
Proof. unfold dial_headers, dial_offer. destruct (d_subprotocols o) as [|s l]; destruct (d_mode o); repeat split; reflexivity. Qed.

Definition valid_response (o : dopts) (key64 : bytes) (resp : hresp) : Prop :=
  p_status resp = 101%nat /\ hs_has_token (p_hdrs resp) s_Connection s_Upgrade = true /\ hs_has_token (p_hdrs resp) s_Upgrade s_websocket = true /\
  hs_get (p_hdrs resp) s_SecAccept = b64_encode (sha1 (key64 ++ c_keyGUID)) /\
  (hs_get (p_hdrs resp) s_SecProtocol = [] \/ exists sp, In sp (d_subprotocols o) /\ fold_eq sp (hs_get (p_hdrs resp) s_SecProtocol) = true).

Theorem verify_server_response_iff o key64 resp c :
  verify_server_response o key64 resp = VOk c <-> (valid_response o key64 resp /\ verify_exts (dial_offer o) (p_hdrs resp) = VOk c).
Proof. unfold verify_server_response, valid_response, accept_key. split.
  - destruct (Nat.eqb_spec (p_status resp) 101); cbn [negb]; [|discriminate].
    destruct (hs_has_token (p_hdrs resp) s_Connection s_Upgrade); cbn [negb]; [|discriminate].
    destruct (hs_has_token (p_hdrs resp) s_Upgrade s_websocket); cbn [negb]; [|discriminate].
    destruct (hs_beq (hs_get (p_hdrs resp) s_SecAccept) _) eqn:Ea; cbn [negb]; [|discriminate].
    destruct (hs_get (p_hdrs resp) s_SecProtocol) as [|x p] eqn:Ep.
    + cbn [negb]. intro H. apply hs_beq_eq in Ea. repeat split; auto.
    + destruct (existsb _ (d_subprotocols o)) eqn:Ex; cbn [negb]; [|discriminate]. intro H. apply hs_beq_eq in Ea.
      repeat split; auto. right. apply existsb_exists in Ex. destruct Ex as (sp & Hin & Hf). exists sp. auto.
  - intros ((Hs & Hc & Hu & Ha & Hp) & He). rewrite Hs, Hc, Hu, Ha, hs_beq_refl. cbn [Nat.eqb negb].
    destruct (hs_get (p_hdrs resp) s_SecProtocol) as [|x p] eqn:Ep; cbn [negb]; [exact He|].
    destruct Hp as [Hp|(sp & Hin & Hf)]; [discriminate|].
    assert (Ex : existsb (fun sp0 => fold_eq sp0 (x :: p)) (d_subprotocols o) = true) by (apply existsb_exists; exists sp; auto).
    rewrite Ex. cbn [negb]. exact He.
Qed.
