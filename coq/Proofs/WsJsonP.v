(* Proofs/WsJsonP.v — one JSON value per text message; one message per read; invalid JSON closes with 1007. *)
From Coq Require Import List NArith ZArith Bool Lia.
From WS Require Import Base.Words Model.WsJson.
Import ListNotations.

Section WsJsonP.
Variable value : Type.
Variable marshal : value -> option bytes.
Variable unmarshal : bytes -> option value.
Variable equiv : value -> value -> Prop.
(* J1: what json.Unmarshal makes of json.Marshal's output (with or without the trailing newline) is JSON-equivalent to the value *)
Hypothesis J1 : forall v b, marshal v = Some b -> exists v', unmarshal (b ++ [10%N]) = Some v' /\ equiv v v'.

Theorem wj_one_message : forall v b, marshal v = Some b -> wj_write value marshal v = Some (1%N, b ++ [10%N]).
Proof. intros v b H. unfold wj_write. rewrite H. reflexivity. Qed.

(* a sequence of values written is read back value by value, in order, one message each *)
Theorem wj_roundtrip : forall vs msgs, map (wj_write value marshal) vs = map Some msgs ->
  exists vs', wj_reads value unmarshal (length vs) msgs = map (WJOk value) vs' /\ Forall2 equiv vs vs'.
Proof. induction vs as [|v vs IH]; intros msgs H.
  - exists []. destruct msgs; [|discriminate]. split; [reflexivity|constructor].
  - destruct msgs as [|[t p] msgs]; [discriminate|]. cbn [map] in H. inversion H as [[Hw Hr]].
    unfold wj_write in Hw. destruct (marshal v) as [b|] eqn:Em; [|discriminate]. inversion Hw; subst t p.
    destruct (J1 v b Em) as (v' & Hu & He). destruct (IH msgs Hr) as (vs' & R & F).
    exists (v' :: vs'). cbn [length wj_reads wj_read]. rewrite Hu. cbn [map]. rewrite R. split; [reflexivity|constructor; auto]. Qed.

(* each read consumes exactly one message *)
Theorem wj_one_per_read : forall m msgs, snd (wj_read value unmarshal (m :: msgs)) = msgs.
Proof. intros [t p] msgs. cbn [wj_read]. destruct (unmarshal p); reflexivity. Qed.

(* a message that is not valid JSON for the target: error, and the connection is closed with status 1007 *)
Theorem wj_invalid : forall t p msgs, unmarshal p = None -> fst (wj_read value unmarshal ((t, p) :: msgs)) = WJErrClosed1007 value.
Proof. intros t p msgs H. cbn [wj_read]. rewrite H. reflexivity. Qed.
End WsJsonP.
