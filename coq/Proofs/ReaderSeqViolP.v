(* Proofs/ReaderSeqViolP.v — stream-level theorems for the two SEQUENCE violations that [hdr_violation] (ReaderViolP) does
   not cover, because every header involved is valid on its own:
     (S1) a CONTINUATION frame (opcode 0) while no message is in progress;
     (S2) a new DATA frame (opcode 1 or 2) while a fragmented message is in progress.
   In both cases readLoop accepts the header (reserved bits, masking and opcode are fine) and RETURNS it; the caller finds
   the opcode out of sequence (Conn.reader read.go:334-361 in S1, msgReader.read read.go:422-463 in S2), writes Close 1002
   and fails with an error of class "other".  The header of the offending frame has been consumed, its PAYLOAD has NOT:
   nothing behind the header is read from the transport.  The connection is not marked closed; the Close frame is written
   exactly once.  Any number of valid messages (any fragmentation, Ping / Pong anywhere, both roles, any positive buffer
   sizes) may precede, valid Ping / Pong frames may stand directly before the offending frame, ANYTHING may follow its header
   and any operations may follow in the read script (the runner stops at the first failing call).
   Nothing here depends on the compression setting of the connection (the frames of the script carry no reserved bit). *)
From Coq Require Import List NArith Lia ZArith ZifyN ZifyNat ZifyBool Bool.
From WS Require Import Base.Words Gen.Consts Gen.CloseCode Model.Mask Model.Frame Model.Proto Model.CloseCodec Model.RefDecoder
  Model.Reader Model.Script Proofs.MaskP Proofs.FrameP Proofs.ReaderP Proofs.ReaderRefP Proofs.ReaderCutP Proofs.ReaderViolP.
Import ListNotations.
Open Scope N_scope.

(* ---------- a header that is valid on its own, for a receiver whose peer masks iff [m] ---------- *)
Definition plain_hdr (m : bool) (h : hdr) : Prop :=
  wf_hdr h /\ h_rsv1 h = false /\ h_rsv2 h = false /\ h_rsv3 h = false /\ h_masked h = m.

Lemma plain_hdr_mk m h : plain_hdr m h -> h = mk_hdr m (h_fin h) (h_opc h) (h_key h) (N.to_nat (h_plen h)).
Proof.
  intros ((Ho & Hp & Hk & Hz) & E1 & E2 & E3 & Em).
  destruct h as [fin r1 r2 r3 opc msk key plen]. cbn [h_fin h_rsv1 h_rsv2 h_rsv3 h_opc h_masked h_key h_plen] in *.
  unfold mk_hdr. rewrite E1, E2, E3, Em, N2Nat.id. f_equal.
  destruct m; [reflexivity|]. apply Hz. exact Em.
Qed.

Lemma plain_hdr_bounds m h : plain_hdr m h -> N.of_nat (N.to_nat (h_plen h)) < 9223372036854775808 /\ wf_key (h_key h).
Proof. intros ((Ho & Hp & Hk & Hz) & _). rewrite N2Nat.id. auto. Qed.

(* such a header is not a header-level violation when its opcode is a data opcode: ReaderViolP says nothing about it *)
Lemma plain_hdr_no_hdr_violation cfg h : plain_hdr (is_server cfg) h -> (h_opc h = 0 \/ h_opc h = 1 \/ h_opc h = 2) ->
  hdr_violation cfg h = false.
Proof.
  intros (_ & E1 & E2 & E3 & Em) Ho. unfold hdr_violation. rewrite E1, E2, E3, Em.
  destruct (is_server cfg); destruct Ho as [E | [E | E]]; rewrite E; reflexivity.
Qed.

Section Seq.
Variable cfg : rcfg.
Variable inflate : bytes -> bytes -> bytes * istatus.
Variable lim : Z.
Variable e : ending.
Notation M := (is_server cfg).
Notation Inv := (inv lim e).

Definition close_1002 : list reply := [RpClose c_StatusProtocolError None].

(* what the failing state looks like: Close written, connection not closed, the input left at [tl] *)
Definition sfailed (s' : rst) (tl : bytes) (rp : list reply) (pg : list bytes) : Prop :=
  r_inq s' = tl /\ r_closed s' = false /\ r_close_sent s' = true /\ r_replies s' = rp /\ r_pongs s' = pg.

Lemma write_error_sfailed s : Inv s ->
  sfailed (write_error s c_StatusProtocolError) (r_inq s) (r_replies s ++ close_1002) (r_pongs s).
Proof.
  intros (Hc & Hfl & Hlim & Hsent & He). unfold sfailed, write_error, add_reply, close_1002.
  rewrite Hsent. cbn [andb orb]. rsimp. auto 10.
Qed.

(* ==================================================================================================================
   (S1) a continuation frame at a message boundary *)
Lemma reader_cont : forall cs fuel s fin k n tl,
  Forall wf_ctl cs -> N.of_nat n < 9223372036854775808 -> wf_key k -> Inv s -> r_fin s = true ->
  r_inq s = concat (map (enc_ctl M) cs) ++ enc_hdr (mk_hdr M fin 0 k n) ++ tl -> (length (r_inq s) < fuel)%nat ->
  exists s', reader cfg fuel s = Err REOther s' /\
    sfailed s' tl (r_replies s ++ pw cs ++ close_1002) (r_pongs s ++ pn cs).
Proof.
  intros cs fuel s fin k n tl Hcs Hn Hk Hq Hf Hi Hfu.
  destruct (read_loop_ctlsG cfg inflate lim e cs fuel s fin 0 k n tl Hcs (or_introl eq_refl) Hn Hk Hq Hi Hfu)
    as (s1 & RL & I1 & Q1 & _ & R1 & G1).
  exists (write_error s1 c_StatusProtocolError). split.
  - unfold reader. destruct Hq as (Hc & _). rewrite Hc, Hf. cbn [negb]. rewrite RL. reflexivity.
  - pose proof (write_error_sfailed s1 Q1) as F. rewrite I1, R1, G1, <- app_assoc in F. exact F.
Qed.

Lemma run_script_cont : forall ms sizes cs more fuel s fin k n tl,
  Forall wf_smsg ms -> Forall (fun m => lim_ok lim (length (sm_payload m))) ms ->
  length sizes = length ms -> Forall (fun n => 0 < n)%nat sizes ->
  Forall wf_ctl cs -> N.of_nat n < 9223372036854775808 -> wf_key k ->
  Inv s -> r_fin s = true ->
  r_inq s = enc_script M ms ++ concat (map (enc_ctl M) cs) ++ enc_hdr (mk_hdr M fin 0 k n) ++ tl -> (length (r_inq s) < fuel)%nat ->
  exists s', run_script cfg inflate fuel (read_ops sizes ++ OReader :: more) s None = (expected_obs ms ++ [ObReader (inr REOther)], s') /\
    sfailed s' tl (r_replies s ++ pw (flat_map sm_ctls ms) ++ pw cs ++ close_1002) (r_pongs s ++ pn (flat_map sm_ctls ms) ++ pn cs).
Proof.
  intros ms sizes cs more fuel s fin k n tl Hms Hlk Hl Hpos Hcs Hn Hk Hq Hf Hi Hfu.
  destruct (run_script_validG cfg inflate lim e ms sizes (OReader :: more) fuel s
              (concat (map (enc_ctl M) cs) ++ enc_hdr (mk_hdr M fin 0 k n) ++ tl) Hms Hlk Hl Hpos Hq Hf Hi Hfu)
    as (s1 & (I1 & F1 & Q1 & R1 & G1) & RS).
  assert (Hfu1 : (length (r_inq s1) < fuel)%nat).
  { rewrite I1. rewrite Hi in Hfu. rewrite app_length in Hfu. lia. }
  destruct (reader_cont cs fuel s1 fin k n tl Hcs Hn Hk Q1 F1 I1 Hfu1) as (s' & RD & F).
  exists s'. split.
  - rewrite RS. cbn [run_script]. rewrite RD. reflexivity.
  - rewrite R1, G1, <- !app_assoc in F. exact F.
Qed.

(* ==================================================================================================================
   (S2) a data frame where a continuation frame is expected.  The structure follows Section Mid of ReaderViolP; the
   difference is at the offending header: readLoop returns it and msgReader.read rejects it. *)
Section Mid.
Variable cs : list ctl.
Variable fin : bool.
Variable opc : N.
Variable k : key.
Variable n : nat.
Variable tl : bytes.
Hypothesis Hcs : Forall wf_ctl cs.
Hypothesis Hopc : opc = 1 \/ opc = 2.
Hypothesis Hn : N.of_nat n < 9223372036854775808.
Hypothesis Hk : wf_key k.

(* valid Ping / Pong frames, the header of the data frame, anything *)
Definition dtail : bytes := concat (map (enc_ctl M) cs) ++ enc_hdr (mk_hdr M fin opc k n) ++ tl.

Definition dopen_pos (s : rst) (b : bytes) (fs : list frag) : Prop :=
  r_inq s = wire M (r_key s) b ++ enc_open M fs ++ dtail /\ r_plen s = N.of_nat (length b) /\ r_fin s = false /\
  Forall wf_frag fs /\ Inv s /\ (r_lrn s < 0)%Z.

Definition drp (fs : list frag) : list reply := pw (ctls fs) ++ pw cs ++ close_1002.
Definition dpg (fs : list frag) : list bytes := pn (ctls fs) ++ pn cs.

Definition dopen_data (res : bytes * option rerr * bool * rst) (s : rst) (b : bytes) (fs : list frag) : Prop :=
  exists d b' fs' s', res = (d, None, false, s') /\ d ++ b' ++ bodies fs' = b ++ bodies fs /\ dopen_pos s' b' fs' /\
    r_replies s' ++ pw (ctls fs') = r_replies s ++ pw (ctls fs) /\
    r_pongs s' ++ pn (ctls fs') = r_pongs s ++ pn (ctls fs) /\
    (length (r_inq s') < length (r_inq s))%nat.
Definition dopen_fail (res : bytes * option rerr * bool * rst) (s : rst) (b : bytes) (fs : list frag) : Prop :=
  exists s', res = ([], Some REOther, false, s') /\ b = [] /\ bodies fs = [] /\
    sfailed s' tl (r_replies s ++ drp fs) (r_pongs s ++ dpg fs).

Lemma opc_not_cont : (opc =? 0) = false.
Proof. destruct Hopc as [E|E]; rewrite E; reflexivity. Qed.

Lemma raw_read_dopen : forall fuel s b fs sz, (0 < sz)%nat -> dopen_pos s b fs -> (length (r_inq s) < fuel)%nat ->
  dopen_data (raw_read cfg fuel sz s) s b fs \/ dopen_fail (raw_read cfg fuel sz s) s b fs.
Proof.
  induction fuel as [|fuel IH]; intros s b fs sz Hsz (Hi & Hp & Hf & Hwf & Hq & Hneg) Hfu; [lia|].
  pose proof Hq as (Hcl & Hfl & Hlim & Hsent & He).
  destruct b as [|x b0].
  - cbn [length] in Hp. cbn [raw_read]. destruct (N.eqb_spec (r_plen s) 0) as [_|Hne]; [|lia].
    rewrite wire_nil in Hi. cbn [app] in Hi. rewrite Hf.
    destruct fs as [|f r].
    + (* the data header is next: readLoop hands it over, msgReader.read rejects it *)
      right. unfold enc_open in Hi. cbn [map concat app] in Hi. unfold dtail in Hi.
      destruct (read_loop_ctlsG cfg inflate lim e cs (S fuel) s fin opc k n tl Hcs (or_intror Hopc) Hn Hk Hq Hi Hfu)
        as (s1 & RL & I1 & Q1 & _ & R1 & G1).
      rewrite RL. cbn [h_opc mk_hdr]. rewrite opc_not_cont. cbn [negb].
      eexists. split; [reflexivity|]. split; [reflexivity|]. split; [reflexivity|].
      pose proof (write_error_sfailed s1 Q1) as F. rewrite I1, R1, G1, <- app_assoc in F.
      unfold drp, dpg, ctls. cbn [map concat pw pn flat_map app]. exact F.
    + unfold enc_open in Hi. cbn [map concat] in Hi. fold (enc_open M r) in Hi.
      unfold enc_frag in Hi. rewrite enc_frame_mk in Hi. rewrite <- !app_assoc in Hi.
      inversion Hwf as [|f0 r0 Hwf1 Hwr]. subst f0 r0.
      destruct Hwf1 as (Hfc & Hbw & Hbl & Hkw).
      destruct (read_loop_ctlsG cfg inflate lim e (fr_ctl f) (S fuel) s false 0 (fr_key f) (length (fr_body f))
                  (wire M (fr_key f) (fr_body f) ++ enc_open M r ++ dtail) Hfc (or_introl eq_refl) Hbl Hkw Hq Hi Hfu)
        as (s1 & RL & I1 & Q1 & (F1 & P1 & K1 & L1) & R1 & G1).
      rewrite RL. cbn [h_opc mk_hdr]. change (0 =? 0) with true. cbn [negb].
      set (h0 := mk_hdr M false 0 (fr_key f) (length (fr_body f))) in *.
      set (s2 := set_frame s1 h0).
      assert (A2 : dopen_pos s2 (fr_body f) r).
      { unfold dopen_pos, inv, s2, h0. rsimp. rewrite wire_key. destruct Q1 as (Q1a & Q1b & Q1c & Q1d & Q1e).
        split; [exact I1|]. split; [reflexivity|]. split; [reflexivity|]. split; [exact Hwr|].
        split; [auto 10|]. rewrite L1. exact Hneg. }
      assert (L0 : (length (r_inq s2) + 2 <= length (r_inq s))%nat).
      { unfold s2. rsimp. rewrite I1, Hi. rewrite !app_length. pose proof (enc_hdr_len2 h0). lia. }
      assert (L2 : (length (r_inq s2) < fuel)%nat) by lia.
      assert (R2 : r_replies s2 = r_replies s ++ pw (fr_ctl f)) by (unfold s2; rsimp; exact R1).
      assert (G2 : r_pongs s2 = r_pongs s ++ pn (fr_ctl f)) by (unfold s2; rsimp; exact G1).
      destruct (IH s2 (fr_body f) r sz Hsz A2 L2) as [(d & b' & fs' & s' & E & Hc & Ha & Hr & Hg & Hl)|(s' & E & Eb & Er & Fi)].
      * left. exists d, b', fs', s'. split; [exact E|].
        split; [unfold bodies at 2; cbn [map concat app]; exact Hc|]. split; [exact Ha|].
        split; [|split].
        -- rewrite Hr, R2. unfold ctls at 2. cbn [map concat]. rewrite pw_app, app_assoc. reflexivity.
        -- rewrite Hg, G2. unfold ctls at 2. cbn [map concat]. rewrite pn_app, app_assoc. reflexivity.
        -- lia.
      * right. exists s'. split; [exact E|]. split; [reflexivity|].
        split; [unfold bodies; cbn [map concat]; rewrite Eb; exact Er|].
        rewrite R2, G2 in Fi. unfold drp, dpg in *. unfold ctls at 1 2. cbn [map concat].
        rewrite pw_app, pn_app, <- !app_assoc. rewrite <- !app_assoc in Fi. exact Fi.
  - left. set (bb := x :: b0) in *.
    assert (Hbl : (1 <= length bb)%nat) by (unfold bb; cbn [length]; lia).
    set (c := Nat.min sz (length bb)).
    assert (Hc : (if N.of_nat sz <? r_plen s then sz else N.to_nat (r_plen s)) = c).
    { rewrite Hp. unfold c. destruct (N.ltb_spec (N.of_nat sz) (N.of_nat (length bb))); lia. }
    set (b1 := firstn c bb). set (b2 := skipn c bb).
    assert (Hb : bb = b1 ++ b2) by (symmetry; apply firstn_skipn).
    assert (Hl1 : length b1 = c) by (unfold b1; rewrite firstn_length; unfold c; lia).
    assert (Hl2 : (length bb = c + length b2)%nat) by (rewrite Hb at 1; rewrite app_length; lia).
    rewrite Hb, wire_app, <- app_assoc, Hl1 in Hi.
    set (key' := if M then rotk (r_key s) c else r_key s) in *.
    set (rest := wire M key' b2 ++ enc_open M fs ++ dtail) in *.
    assert (RR : raw_read cfg (S fuel) sz s = (b1, None, false, sub_plen (set_inq s rest) c key')).
    { cbn [raw_read]. destruct (N.eqb_spec (r_plen s) 0) as [E0|_]; [lia|].
      cbv zeta. rewrite Hc.
      replace c with (length (wire M (r_key s) b1)) at 1 by (rewrite wire_length; exact Hl1).
      rewrite (read_payload_app s _ rest Hcl Hi). rewrite unwire, wire_length, Hl1. reflexivity. }
    exists b1, b2, fs. eexists. split; [exact RR|].
    split; [rewrite app_assoc, <- Hb; reflexivity|].
    split; [|split; [reflexivity|split; [reflexivity|]]].
    + unfold dopen_pos, inv. rsimp. split; [reflexivity|]. split; [lia|]. auto 10.
    + rsimp. rewrite Hi. assert (Hc1 : (1 <= c)%nat) by (unfold c; lia). rewrite !app_length, !wire_length. lia.
Qed.

Lemma dopen_pos_sub_lrn s b fs c : dopen_pos s b fs -> dopen_pos (sub_lrn s c) b fs.
Proof.
  intros (Hi & Hp & Hf & Hwf & Hq & Hneg). unfold dopen_pos. rewrite sub_lrn_lrn.
  destruct (Z.ltb_spec (r_lrn s) 0); [|lia]. cbn [sub_lrn r_inq r_key r_plen r_fin]. auto 10.
Qed.

Lemma sfailed_sub_lrn s t rp pg c : sfailed s t rp pg -> sfailed (sub_lrn s c) t rp pg.
Proof. intro H. exact H. Qed.

Lemma msg_read_dopen : forall fuel s b fs sz, (0 < sz)%nat -> dopen_pos s b fs -> (length (r_inq s) < fuel)%nat ->
  dopen_data (msg_read cfg inflate fuel sz s) s b fs \/ dopen_fail (msg_read cfg inflate fuel sz s) s b fs.
Proof.
  intros fuel s b fs sz Hsz Ha Hfu.
  pose proof Ha as (_ & _ & _ & _ & (Hcl & Hfl & _) & Hneg).
  rewrite msg_read_raw by (auto; lia). rewrite capped_neg by exact Hneg.
  destruct (raw_read_dopen fuel s b fs sz Hsz Ha Hfu) as [(d & b' & fs' & s' & E & Hc & Ha' & Hr & Hg & Hl)|(s' & E & Eb & Er & Fi)].
  - left. rewrite E. cbv beta iota zeta. rewrite limit_hit_neg by exact Hneg.
    exists d, b', fs', (sub_lrn s' (length d)). split; [reflexivity|]. split; [exact Hc|].
    split; [apply dopen_pos_sub_lrn; exact Ha'|]. cbn [sub_lrn r_inq r_replies r_pongs]. auto.
  - right. rewrite E. cbv beta iota zeta. rewrite limit_hit_neg by exact Hneg.
    exists (sub_lrn s' (length (@nil N))). split; [reflexivity|]. split; [exact Eb|]. split; [exact Er|].
    apply sfailed_sub_lrn. exact Fi.
Qed.

Lemma read_all_dopen : forall fuel s b fs sz racc, (0 < sz)%nat -> dopen_pos s b fs -> (length (r_inq s) < fuel)%nat ->
  exists s', read_all cfg inflate fuel sz s racc = (concat (frev racc) ++ b ++ bodies fs, Some REOther, s') /\
    sfailed s' tl (r_replies s ++ drp fs) (r_pongs s ++ dpg fs).
Proof.
  induction fuel as [|fuel IH]; intros s b fs sz racc Hsz Ha Hfu; [lia|].
  cbn [read_all].
  destruct (msg_read_dopen (S (S fuel)) s b fs sz Hsz Ha ltac:(lia)) as [(d & b' & fs' & s' & E & Hc & Ha' & Hr & Hg & Hl)|(s' & E & Eb & Er & Fi)].
  - rewrite E. destruct (IH s' b' fs' sz (d :: racc) Hsz Ha' ltac:(lia)) as (s'' & E' & Fi).
    exists s''. rewrite E'. split.
    + rewrite frev_cons, <- app_assoc, Hc. reflexivity.
    + unfold drp, dpg in *. rewrite !app_assoc in Fi. rewrite Hr, Hg in Fi. rewrite !app_assoc. exact Fi.
  - rewrite E. exists s'. split; [|exact Fi]. rewrite frev_cons, Eb, Er. reflexivity.
Qed.

Lemma read_all_z_dopen : forall fuel s b fs sz racc, (0 < sz)%nat -> dopen_pos s b fs -> (length (r_inq s) < fuel)%nat ->
  exists s', read_all_z cfg inflate fuel sz s racc = (concat (frev racc) ++ b ++ bodies fs, Some REOther, s') /\
    sfailed s' tl (r_replies s ++ drp fs) (r_pongs s ++ dpg fs).
Proof.
  intros fuel s b fs sz racc Hsz Ha Hfu. unfold read_all_z.
  destruct (msg_read_dopen fuel s b fs sz Hsz Ha Hfu) as [(d & b' & fs' & s' & E & Hc & Ha' & Hr & Hg & Hl)|(s' & E & Eb & Er & Fi)].
  - rewrite E. destruct (read_all_dopen (length (r_zout s') + fuel) s' b' fs' sz (d :: racc) Hsz Ha' ltac:(lia)) as (s'' & E' & Fi).
    exists s''. rewrite E'. split.
    + rewrite frev_cons, <- app_assoc, Hc. reflexivity.
    + unfold drp, dpg in *. rewrite !app_assoc in Fi. rewrite Hr, Hg in Fi. rewrite !app_assoc. exact Fi.
  - rewrite E. exists s'. split; [|exact Fi]. rewrite frev_cons, Eb, Er. reflexivity.
Qed.

Lemma reader_dopen : forall fuel s t f0 fs, (t = 1 \/ t = 2) -> wf_frag f0 -> Forall wf_frag fs -> (lim < 0)%Z -> Inv s -> r_fin s = true ->
  r_inq s = enc_open_msg M t f0 fs ++ dtail -> (length (r_inq s) < fuel)%nat ->
  exists s1, reader cfg fuel s = Ok t s1 /\ dopen_pos s1 (fr_body f0) fs /\
    r_replies s1 = r_replies s ++ pw (fr_ctl f0) /\ r_pongs s1 = r_pongs s ++ pn (fr_ctl f0) /\
    (length (r_inq s1) <= length (r_inq s))%nat.
Proof.
  intros fuel s t f0 fs Ht (Hfc & Hbw & Hbl & Hkw) Hwr Hlim0 Hq Hf Hi Hfu.
  unfold enc_open_msg, enc_frag in Hi. rewrite enc_frame_mk in Hi. rewrite <- !app_assoc in Hi.
  assert (Ho : t = 0 \/ t = 1 \/ t = 2) by (destruct Ht; auto).
  destruct (read_loop_ctlsG cfg inflate lim e (fr_ctl f0) fuel s false t (fr_key f0) (length (fr_body f0))
              (wire M (fr_key f0) (fr_body f0) ++ enc_open M fs ++ dtail) Hfc Ho Hbl Hkw Hq Hi Hfu)
    as (s1 & RL & I1 & Q1 & (F1 & P1 & K1 & L1) & R1 & G1).
  unfold reader. destruct Hq as (Hc & Hfl & Hlim & Hsent & He). rewrite Hc, Hf. cbn [negb]. rewrite RL.
  cbn [h_opc mk_hdr].
  destruct (N.eqb_spec t 0) as [E0|_]; [destruct Ht as [Ht|Ht]; rewrite Ht in E0; discriminate|].
  eexists. split; [reflexivity|].
  destruct Q1 as (Q1a & Q1b & Q1c & Q1d & Q1e).
  split; [|split; [rsimp; exact R1|split; [rsimp; exact G1|]]].
  - unfold dopen_pos, inv. rsimp. rewrite wire_key.
    split; [exact I1|]. split; [reflexivity|]. split; [reflexivity|]. split; [exact Hwr|].
    split; [auto 10|]. rewrite Q1c. exact Hlim0.
  - rsimp. rewrite I1, Hi. rewrite !app_length. lia.
Qed.

Lemma run_script_dopen : forall fuel s t f0 fs sz more, (t = 1 \/ t = 2) -> wf_frag f0 -> Forall wf_frag fs -> (lim < 0)%Z -> (0 < sz)%nat ->
  Inv s -> r_fin s = true -> r_inq s = enc_open_msg M t f0 fs ++ dtail -> (length (r_inq s) < fuel)%nat ->
  exists s', run_script cfg inflate fuel (OReader :: OReadAllN sz :: more) s None =
               ([ObReader (inl t); ObMsg (bodies (f0 :: fs)) (Some REOther)], s') /\
    sfailed s' tl (r_replies s ++ drp (f0 :: fs)) (r_pongs s ++ dpg (f0 :: fs)).
Proof.
  intros fuel s t f0 fs sz more Ht Hf0 Hfs Hlim0 Hsz Hq Hf Hi Hfu.
  destruct (reader_dopen fuel s t f0 fs Ht Hf0 Hfs Hlim0 Hq Hf Hi Hfu) as (s1 & R & A & R1 & G1 & L1).
  destruct (read_all_z_dopen fuel s1 (fr_body f0) fs sz [] Hsz A ltac:(lia)) as (s2 & RZ & Fi).
  exists s2. split.
  - rewrite run_script_pair, R. cbv beta iota. rewrite RZ. cbv beta iota. reflexivity.
  - rewrite R1, G1 in Fi. unfold drp, dpg in *. unfold ctls at 1 2. cbn [map concat].
    rewrite pw_app, pn_app, <- !app_assoc. rewrite <- !app_assoc in Fi. exact Fi.
Qed.

End Mid.
End Seq.

(* ====================================================================================================================
   (S1), general form: valid messages, valid Ping / Pong frames, the HEADER of a continuation frame, then ANYTHING *)
Theorem reader_continuation_without_message_gen : forall cfg inflate ms sizes cs h tail e more,
  Forall wf_smsg ms -> length sizes = length ms -> Forall (fun n => 0 < n)%nat sizes ->
  Forall wf_ctl cs ->
  let masked := role_eqb (rc_role cfg) Server in          (* the peer of a server is a client: it masks *)
  plain_hdr masked h ->                                    (* wf, no reserved bit, masking right for the role; any FIN, any length *)
  h_opc h = 0 ->
  let stream := enc_script masked ms ++ concat (map (enc_ctl masked) cs) ++ enc_hdr h ++ tail in
  let r := run cfg inflate (-1)%Z stream e (read_ops sizes ++ OReader :: more) in
  fst r = expected_obs ms ++ [ObReader (inr REOther)] /\
  r_replies (snd r) = expected_pongs_written ms ++ pw cs ++ [RpClose c_StatusProtocolError None] /\
  r_pongs (snd r) = expected_pong_notes ms ++ pn cs /\
  r_inq (snd r) = tail /\                                  (* nothing behind the header was read *)
  r_closed (snd r) = false /\ r_close_sent (snd r) = true.
Proof.
  intros cfg inflate ms sizes cs h tail e more Hms Hl Hpos Hcs masked Hh Ho stream r. subst r stream masked.
  change (role_eqb (rc_role cfg) Server) with (is_server cfg) in *. unfold run.
  destruct (plain_hdr_bounds _ _ Hh) as (Hn & Hk).
  rewrite (plain_hdr_mk _ _ Hh), Ho.
  set (h' := mk_hdr (is_server cfg) (h_fin h) 0 (h_key h) (N.to_nat (h_plen h))).
  set (stream := enc_script (is_server cfg) ms ++ concat (map (enc_ctl (is_server cfg)) cs) ++ enc_hdr h' ++ tail).
  destruct (run_script_cont cfg inflate (-1)%Z e ms sizes cs more (S (S (length stream))) (r_init (-1) stream e)
              (h_fin h) (h_key h) (N.to_nat (h_plen h)) tail Hms (lim_ok_neg ms) Hl Hpos Hcs Hn Hk)
    as (s' & RS & I & C & S & R & G).
  - apply inv_init.
  - reflexivity.
  - reflexivity.
  - unfold r_init. rsimp. lia.
  - rewrite RS. cbn [fst snd]. unfold r_init in R, G. rsimp_in R. rsimp_in G. cbn [app] in R, G.
    split; [reflexivity|]. split; [exact R|]. split; [exact G|]. split; [exact I|]. split; [exact C|exact S].
Qed.

(* (S1) as asked: the whole offending FRAME (payload p, unmasked in the frame record as everywhere) and then anything.
   The payload is still in the transport afterwards: only the header has been consumed. *)
Theorem reader_continuation_without_message : forall cfg inflate ms sizes cs h p tail e more,
  Forall wf_smsg ms -> length sizes = length ms -> Forall (fun n => 0 < n)%nat sizes ->
  Forall wf_ctl cs ->
  let masked := role_eqb (rc_role cfg) Server in
  plain_hdr masked h -> h_opc h = 0 ->
  let stream := enc_script masked ms ++ concat (map (enc_ctl masked) cs) ++ enc_frame (h, p) ++ tail in
  let r := run cfg inflate (-1)%Z stream e (read_ops sizes ++ OReader :: more) in
  fst r = expected_obs ms ++ [ObReader (inr REOther)] /\
  r_replies (snd r) = expected_pongs_written ms ++ pw cs ++ [RpClose c_StatusProtocolError None] /\
  r_pongs (snd r) = expected_pong_notes ms ++ pn cs /\
  r_inq (snd r) = wire masked (h_key h) p ++ tail /\       (* the payload as it stands on the wire, and what follows *)
  r_closed (snd r) = false /\ r_close_sent (snd r) = true.
Proof.
  intros cfg inflate ms sizes cs h p tail e more Hms Hl Hpos Hcs masked Hh Ho stream r.
  pose proof (reader_continuation_without_message_gen cfg inflate ms sizes cs h (wire masked (h_key h) p ++ tail) e more
                Hms Hl Hpos Hcs Hh Ho) as T.
  cbv zeta in T. subst r stream. unfold enc_frame. rewrite <- app_assoc.
  destruct Hh as (_ & _ & _ & _ & Em). rewrite Em. exact T.
Qed.

(* ====================================================================================================================
   (S2), general form: valid messages, an unfinished fragmented message, valid Ping / Pong frames, the HEADER of a text or
   binary frame, then ANYTHING *)
Theorem reader_data_frame_inside_message_gen : forall cfg inflate ms sizes t f0 fs n cs h tail e more,
  Forall wf_smsg ms -> length sizes = length ms -> Forall (fun n => 0 < n)%nat sizes ->
  (t = 1 \/ t = 2) -> wf_frag f0 -> Forall wf_frag fs -> (0 < n)%nat ->
  Forall wf_ctl cs ->
  let masked := role_eqb (rc_role cfg) Server in
  plain_hdr masked h -> (h_opc h = 1 \/ h_opc h = 2) ->
  let stream := enc_script masked ms ++ enc_open_msg masked t f0 fs ++ concat (map (enc_ctl masked) cs) ++ enc_hdr h ++ tail in
  let r := run cfg inflate (-1)%Z stream e (read_ops sizes ++ OReader :: OReadAllN n :: more) in
  fst r = expected_obs ms ++ [ObReader (inl t); ObMsg (bodies (f0 :: fs)) (Some REOther)] /\
  r_replies (snd r) = expected_pongs_written ms ++ pw (ctls (f0 :: fs)) ++ pw cs ++ [RpClose c_StatusProtocolError None] /\
  r_pongs (snd r) = expected_pong_notes ms ++ pn (ctls (f0 :: fs)) ++ pn cs /\
  r_inq (snd r) = tail /\ r_closed (snd r) = false /\ r_close_sent (snd r) = true.
Proof.
  intros cfg inflate ms sizes t f0 fs n cs h tail e more Hms Hl Hpos Ht Hf0 Hfs Hn Hcs masked Hh Ho stream r. subst r stream masked.
  change (role_eqb (rc_role cfg) Server) with (is_server cfg) in *. unfold run.
  destruct (plain_hdr_bounds _ _ Hh) as (Hpl & Hk).
  rewrite (plain_hdr_mk _ _ Hh).
  set (h' := mk_hdr (is_server cfg) (h_fin h) (h_opc h) (h_key h) (N.to_nat (h_plen h))).
  set (vt := concat (map (enc_ctl (is_server cfg)) cs) ++ enc_hdr h' ++ tail).
  set (stream := enc_script (is_server cfg) ms ++ enc_open_msg (is_server cfg) t f0 fs ++ vt).
  set (fuel := S (S (length stream))).
  destruct (run_script_validG cfg inflate (-1)%Z e ms sizes (OReader :: OReadAllN n :: more) fuel (r_init (-1) stream e)
              (enc_open_msg (is_server cfg) t f0 fs ++ vt) Hms (lim_ok_neg ms) Hl Hpos)
    as (s1 & (I1 & F1 & Q1 & R1 & G1) & RS).
  - apply inv_init.
  - reflexivity.
  - reflexivity.
  - unfold r_init, fuel. rsimp. lia.
  - assert (Hfu1 : (length (r_inq s1) < fuel)%nat).
    { rewrite I1. unfold fuel, stream. rewrite (app_length (enc_script _ _)). lia. }
    destruct (run_script_dopen cfg inflate (-1)%Z e cs (h_fin h) (h_opc h) (h_key h) (N.to_nat (h_plen h)) tail Hcs Ho Hpl Hk
                fuel s1 t f0 fs n more Ht Hf0 Hfs ltac:(lia) Hn Q1 F1 I1 Hfu1)
      as (s' & RO & I & C & S & R & G).
    rewrite RS, RO. cbn [fst snd].
    unfold r_init in R1, G1. rsimp_in R1. rsimp_in G1. cbn [app] in R1, G1. rewrite R1 in R. rewrite G1 in G.
    unfold drp, close_1002 in R. unfold dpg in G.
    split; [reflexivity|]. split; [exact R|]. split; [exact G|]. split; [exact I|]. split; [exact C|exact S].
Qed.

(* (S2) as asked: the whole offending frame; its payload stays in the transport *)
Theorem reader_data_frame_inside_message : forall cfg inflate ms sizes t f0 fs n cs h p tail e more,
  Forall wf_smsg ms -> length sizes = length ms -> Forall (fun n => 0 < n)%nat sizes ->
  (t = 1 \/ t = 2) -> wf_frag f0 -> Forall wf_frag fs -> (0 < n)%nat ->
  Forall wf_ctl cs ->
  let masked := role_eqb (rc_role cfg) Server in
  plain_hdr masked h -> (h_opc h = 1 \/ h_opc h = 2) ->
  let stream := enc_script masked ms ++ enc_open_msg masked t f0 fs ++ concat (map (enc_ctl masked) cs) ++ enc_frame (h, p) ++ tail in
  let r := run cfg inflate (-1)%Z stream e (read_ops sizes ++ OReader :: OReadAllN n :: more) in
  fst r = expected_obs ms ++ [ObReader (inl t); ObMsg (bodies (f0 :: fs)) (Some REOther)] /\
  r_replies (snd r) = expected_pongs_written ms ++ pw (ctls (f0 :: fs)) ++ pw cs ++ [RpClose c_StatusProtocolError None] /\
  r_pongs (snd r) = expected_pong_notes ms ++ pn (ctls (f0 :: fs)) ++ pn cs /\
  r_inq (snd r) = wire masked (h_key h) p ++ tail /\ r_closed (snd r) = false /\ r_close_sent (snd r) = true.
Proof.
  intros cfg inflate ms sizes t f0 fs n cs h p tail e more Hms Hl Hpos Ht Hf0 Hfs Hn Hcs masked Hh Ho stream r.
  pose proof (reader_data_frame_inside_message_gen cfg inflate ms sizes t f0 fs n cs h (wire masked (h_key h) p ++ tail) e more
                Hms Hl Hpos Ht Hf0 Hfs Hn Hcs Hh Ho) as T.
  cbv zeta in T. subst r stream. unfold enc_frame. rewrite <- app_assoc.
  destruct Hh as (_ & _ & _ & _ & Em). rewrite Em. exact T.
Qed.

(* ---------- non-vacuity: the model run on concrete streams, and the same streams as instances of the theorems ---------- *)
Ltac wf_auto :=
  unfold plain_hdr, wf_hdr, wf_smsg, wf_frag, wf_ctl, wf_bytes, wf_key, zero_key;
  cbn [sm_typ sm_first sm_rest fr_ctl fr_body fr_key c_opc c_payload c_key length
       h_fin h_rsv1 h_rsv2 h_rsv3 h_opc h_masked h_key h_plen];
  repeat ((right; reflexivity) || (left; reflexivity) || split || constructor || lia || discriminate || (vm_compute; reflexivity)).

(* (S1) CLIENT: text "A", a Ping, then a final CONTINUATION frame "BC" although no message is open, then junk; the script
   goes on after the failing Reader call.  The two payload bytes of the continuation frame are still unread. *)
Example seq_cont_client :
  let cfg := {| rc_role := Client; rc_co := None |} in
  let r := run cfg no_inflate (-1)%Z [129; 1; 65;  137; 1; 7;  128; 2; 66; 67;  9; 9] EEof [OReader; OReadAllN 1; OReader; OReadAll; OReader] in
  fst r = [ObReader (inl 1); ObMsg [65] None; ObReader (inr REOther)] /\
  r_replies (snd r) = [RpPong [7]; RpClose 1002 None] /\ r_inq (snd r) = [66; 67; 9; 9] /\
  r_closed (snd r) = false /\ r_close_sent (snd r) = true.
Proof. vm_compute. repeat split. Qed.

Example seq_cont_client_thm :
  let m := {| sm_typ := 1; sm_first := {| fr_ctl := []; fr_body := [65]; fr_key := zero_key |}; sm_rest := [] |} in
  let c := {| c_opc := 9; c_payload := [7]; c_key := zero_key |} in
  let h := {| h_fin := true; h_rsv1 := false; h_rsv2 := false; h_rsv3 := false; h_opc := 0; h_masked := false; h_key := zero_key; h_plen := 2 |} in
  enc_script false [m] ++ concat (map (enc_ctl false) [c]) ++ enc_frame (h, [66; 67]) ++ [9; 9] = [129; 1; 65;  137; 1; 7;  128; 2; 66; 67;  9; 9] /\
  Forall wf_smsg [m] /\ Forall wf_ctl [c] /\ plain_hdr false h /\ h_opc h = 0 /\ wire false (h_key h) [66; 67] ++ [9; 9] = [66; 67; 9; 9].
Proof. cbv zeta. split; [vm_compute; reflexivity|]. wf_auto. Qed.

(* (S1) SERVER: masked text "AB" (key 1 2 3 4), an empty masked Pong, then a masked non-final CONTINUATION frame
   (key 5 6 7 8, payload [4; 7] = 1 1 on the wire), then junk *)
Example seq_cont_server :
  let cfg := {| rc_role := Server; rc_co := None |} in
  let r := run cfg no_inflate (-1)%Z [129; 130; 1; 2; 3; 4; 64; 64;  138; 128; 0; 0; 0; 0;  0; 130; 5; 6; 7; 8; 1; 1;  9; 9] EFail [OReader; OReadAllN 5; OReader; OReadAll] in
  fst r = [ObReader (inl 1); ObMsg [65; 66] None; ObReader (inr REOther)] /\
  r_replies (snd r) = [RpClose 1002 None] /\ r_pongs (snd r) = [[]] /\ r_inq (snd r) = [1; 1; 9; 9] /\
  r_closed (snd r) = false /\ r_close_sent (snd r) = true.
Proof. vm_compute. repeat split. Qed.

Example seq_cont_server_thm :
  let m := {| sm_typ := 1; sm_first := {| fr_ctl := []; fr_body := [65; 66]; fr_key := (1, 2, 3, 4) |}; sm_rest := [] |} in
  let c := {| c_opc := 10; c_payload := []; c_key := zero_key |} in
  let h := {| h_fin := false; h_rsv1 := false; h_rsv2 := false; h_rsv3 := false; h_opc := 0; h_masked := true; h_key := (5, 6, 7, 8); h_plen := 2 |} in
  enc_script true [m] ++ concat (map (enc_ctl true) [c]) ++ enc_frame (h, [4; 7]) ++ [9; 9] =
    [129; 130; 1; 2; 3; 4; 64; 64;  138; 128; 0; 0; 0; 0;  0; 130; 5; 6; 7; 8; 1; 1;  9; 9] /\
  Forall wf_smsg [m] /\ Forall wf_ctl [c] /\ plain_hdr true h /\ h_opc h = 0 /\ wire true (h_key h) [4; 7] ++ [9; 9] = [1; 1; 9; 9].
Proof. cbv zeta. split; [vm_compute; reflexivity|]. wf_auto. Qed.

(* (S2) CLIENT: a complete binary message "Z"; then text fragment "A", continuation "B" (not final), a Ping, then a new final
   TEXT frame "CD" although the message is not finished, then junk *)
Example seq_data_client :
  let cfg := {| rc_role := Client; rc_co := None |} in
  let r := run cfg no_inflate (-1)%Z [130; 1; 90;  1; 1; 65;  0; 1; 66;  137; 1; 7;  129; 2; 67; 68;  9] EEof
             [OReader; OReadAllN 4; OReader; OReadAllN 1; OReader] in
  fst r = [ObReader (inl 2); ObMsg [90] None; ObReader (inl 1); ObMsg [65; 66] (Some REOther)] /\
  r_replies (snd r) = [RpPong [7]; RpClose 1002 None] /\ r_inq (snd r) = [67; 68; 9] /\
  r_closed (snd r) = false /\ r_close_sent (snd r) = true.
Proof. vm_compute. repeat split. Qed.

Example seq_data_client_thm :
  let m := {| sm_typ := 2; sm_first := {| fr_ctl := []; fr_body := [90]; fr_key := zero_key |}; sm_rest := [] |} in
  let f0 := {| fr_ctl := []; fr_body := [65]; fr_key := zero_key |} in
  let f1 := {| fr_ctl := []; fr_body := [66]; fr_key := zero_key |} in
  let c := {| c_opc := 9; c_payload := [7]; c_key := zero_key |} in
  let h := {| h_fin := true; h_rsv1 := false; h_rsv2 := false; h_rsv3 := false; h_opc := 1; h_masked := false; h_key := zero_key; h_plen := 2 |} in
  enc_script false [m] ++ enc_open_msg false 1 f0 [f1] ++ concat (map (enc_ctl false) [c]) ++ enc_frame (h, [67; 68]) ++ [9] =
    [130; 1; 90;  1; 1; 65;  0; 1; 66;  137; 1; 7;  129; 2; 67; 68;  9] /\
  Forall wf_smsg [m] /\ wf_frag f0 /\ Forall wf_frag [f1] /\ Forall wf_ctl [c] /\ plain_hdr false h /\ h_opc h = 1 /\
  bodies [f0; f1] = [65; 66].
Proof. cbv zeta. split; [vm_compute; reflexivity|]. wf_auto. Qed.

(* (S2) SERVER: masked binary fragment "AB" (not final), then a new masked final BINARY frame (key 5 6 7 8), then junk *)
Example seq_data_server :
  let cfg := {| rc_role := Server; rc_co := None |} in
  let r := run cfg no_inflate (-1)%Z [2; 130; 1; 2; 3; 4; 64; 64;  130; 129; 5; 6; 7; 8; 1;  9; 9] EOpen [OReader; OReadAllN 7; OReader] in
  fst r = [ObReader (inl 2); ObMsg [65; 66] (Some REOther)] /\
  r_replies (snd r) = [RpClose 1002 None] /\ r_inq (snd r) = [1; 9; 9] /\
  r_closed (snd r) = false /\ r_close_sent (snd r) = true.
Proof. vm_compute. repeat split. Qed.

Example seq_data_server_thm :
  let f0 := {| fr_ctl := []; fr_body := [65; 66]; fr_key := (1, 2, 3, 4) |} in
  let h := {| h_fin := true; h_rsv1 := false; h_rsv2 := false; h_rsv3 := false; h_opc := 2; h_masked := true; h_key := (5, 6, 7, 8); h_plen := 1 |} in
  enc_script true [] ++ enc_open_msg true 2 f0 [] ++ concat (map (enc_ctl true) []) ++ enc_frame (h, [4]) ++ [9; 9] =
    [2; 130; 1; 2; 3; 4; 64; 64;  130; 129; 5; 6; 7; 8; 1;  9; 9] /\
  wf_frag f0 /\ plain_hdr true h /\ h_opc h = 2 /\ wire true (h_key h) [4] ++ [9; 9] = [1; 9; 9].
Proof. cbv zeta. split; [vm_compute; reflexivity|]. wf_auto. Qed.

(* with permessage-deflate negotiated the same holds (the theorems do not mention rc_co): SERVER, compression on *)
Example seq_cont_server_flate :
  let cfg := {| rc_role := Server; rc_co := Some {| cnct := false; snct := false |} |} in
  let r := run cfg no_inflate (-1)%Z [129; 130; 1; 2; 3; 4; 64; 64;  128; 129; 5; 6; 7; 8; 1;  9] EEof [OReader; OReadAllN 5; OReader] in
  fst r = [ObReader (inl 1); ObMsg [65; 66] None; ObReader (inr REOther)] /\
  r_replies (snd r) = [RpClose 1002 None] /\ r_inq (snd r) = [1; 9].
Proof. vm_compute. repeat split. Qed.

Print Assumptions reader_continuation_without_message.
Print Assumptions reader_data_frame_inside_message.
Print Assumptions reader_continuation_without_message_gen.
Print Assumptions reader_data_frame_inside_message_gen.
