(* Proofs/ReaderRefP.v — stream-level refinement: on the encoding of any well-formed script (both roles, all
   length classes, arbitrary fragmentation, Ping/Pong anywhere, arbitrary positive buffer sizes, no limit) the
   Reader model hands out exactly the messages, answers exactly the Pings and notes exactly the Pongs. *)
From Coq Require Import List NArith Lia ZArith ZifyN ZifyNat ZifyBool Bool.
From WS Require Import Base.Words Gen.Consts Gen.CloseCode Model.Mask Model.Frame Model.Proto Model.CloseCodec Model.RefDecoder
  Model.Reader Model.Script Proofs.MaskP Proofs.FrameP.
Import ListNotations.
Open Scope N_scope.
Ltac Zify.zify_post_hook ::= Z.div_mod_to_equations.

(* ---------- list helpers ---------- *)
Lemma frev_cons (d : bytes) (racc : list bytes) : concat (frev (d :: racc)) = concat (frev racc) ++ d.
Proof. unfold frev. rewrite <- !rev_alt. cbn [rev]. rewrite concat_app. cbn [concat]. rewrite app_nil_r. reflexivity. Qed.

Lemma take_n_app_le (a rest : bytes) k : (k <= length a)%nat -> take_n k (a ++ rest) = Some (firstn k a, skipn k a ++ rest).
Proof. intro H. rewrite <- (firstn_skipn k a) at 1. rewrite <- app_assoc.
  replace k with (length (firstn k a)) at 1 by (rewrite firstn_length; lia). apply take_n_app. Qed.

(* ---------- payload bytes on the wire ---------- *)
Definition wire (m : bool) (k : key) (b : bytes) : bytes := if m then mask_spec k b else b.

Lemma wire_length m k b : length (wire m k b) = length b.
Proof. destruct m; cbn [wire]; [apply mask_spec_length | reflexivity]. Qed.
Lemma wire_key m k b : wire m (if m then k else zero_key) b = wire m k b.
Proof. destruct m; reflexivity. Qed.
Lemma unwire (m : bool) k b : (if m then mask_spec k (wire m k b) else wire m k b) = b.
Proof. destruct m; cbn [wire]; [apply mask_involution | reflexivity]. Qed.
Lemma wire_app m k b1 b2 : wire m k (b1 ++ b2) = wire m k b1 ++ wire m (if m then rotk k (length b1) else k) b2.
Proof. destruct m; cbn [wire]; [apply mask_compose | reflexivity]. Qed.
Lemma wire_nil m k : wire m k [] = [].
Proof. destruct m; destruct k as [[[a b] c] d]; reflexivity. Qed.

Lemma enc_frame_mk m fin opc k p :
  enc_frame (mk_hdr m fin opc k (length p), p) = enc_hdr (mk_hdr m fin opc k (length p)) ++ wire m k p.
Proof. unfold enc_frame, mk_hdr. cbn [h_masked h_key]. destruct m; reflexivity. Qed.

Lemma zero_key_wf : wf_key zero_key.
Proof. unfold wf_key, zero_key. lia. Qed.

Lemma mk_hdr_wf m fin opc k n : opc < 16 -> N.of_nat n < 9223372036854775808 -> wf_key k -> wf_hdr (mk_hdr m fin opc k n).
Proof. intros Ho Hn Hk. unfold wf_hdr, mk_hdr. cbn [h_opc h_plen h_key h_masked].
  split; [exact Ho|]. split; [exact Hn|]. split.
  - destruct m; [exact Hk | exact zero_key_wf].
  - intro E. rewrite E. reflexivity. Qed.

Lemma enc_hdr_len2 h : (2 <= length (enc_hdr h))%nat.
Proof. rewrite enc_hdr_length. lia. Qed.

(* ---------- what the control frames of a script produce ---------- *)
Definition pw (cs : list ctl) : list reply := flat_map (fun c => if c_opc c =? 9 then [RpPong (c_payload c)] else []) cs.
Definition pn (cs : list ctl) : list bytes := flat_map (fun c => if c_opc c =? 10 then [c_payload c] else []) cs.
Lemma pw_app a b : pw (a ++ b) = pw a ++ pw b. Proof. apply flat_map_app. Qed.
Lemma pn_app a b : pn (a ++ b) = pn a ++ pn b. Proof. apply flat_map_app. Qed.

(* ---------- field-level invariant: open, uncompressed, no limit ---------- *)
Definition quiet (s : rst) : Prop := r_closed s = false /\ r_flate s = false /\ (r_lrn s < 0)%Z /\ (r_limit s < 0)%Z.

Ltac rsimp := cbn [r_inq r_end r_closed r_close_sent r_limit r_fin r_plen r_key r_flate r_lrn r_zout r_zpulled r_zerr r_zall
                   r_dict r_replies r_pongs set_inq set_frame sub_plen add_pong_note reset_msg
                   h_fin h_rsv1 h_rsv2 h_rsv3 h_opc h_masked h_key h_plen mk_hdr].
Ltac rsimp_in H := cbn [r_inq r_end r_closed r_close_sent r_limit r_fin r_plen r_key r_flate r_lrn r_zout r_zpulled r_zerr r_zall
                   r_dict r_replies r_pongs set_inq set_frame sub_plen add_pong_note reset_msg
                   h_fin h_rsv1 h_rsv2 h_rsv3 h_opc h_masked h_key h_plen mk_hdr] in H.

Lemma add_pong_reply s p : add_reply s (RpPong p) =
  {| r_inq := r_inq s; r_end := r_end s; r_closed := r_closed s; r_close_sent := r_close_sent s || false; r_limit := r_limit s;
     r_fin := r_fin s; r_plen := r_plen s; r_key := r_key s; r_flate := r_flate s; r_lrn := r_lrn s;
     r_zout := r_zout s; r_zpulled := r_zpulled s; r_zerr := r_zerr s; r_zall := r_zall s; r_dict := r_dict s;
     r_replies := r_replies s ++ [RpPong p]; r_pongs := r_pongs s |}.
Proof. reflexivity. Qed.

Lemma sub_lrn_neg s k : (r_lrn s < 0)%Z -> r_lrn (sub_lrn s k) = r_lrn s.
Proof. intro H. unfold sub_lrn. cbn [r_lrn]. destruct (Z.ltb_spec (r_lrn s) 0); [reflexivity | lia]. Qed.

Lemma read_payload_app s a rest : r_closed s = false -> r_inq s = a ++ rest ->
  read_payload s (length a) = (a, None, set_inq s rest).
Proof. intros Hc Hi. unfold read_payload. rewrite Hc, Hi, take_n_app. reflexivity. Qed.

Section Ref.
Variable cfg : rcfg.
Variable inflate : bytes -> bytes -> bytes * istatus.
Notation M := (is_server cfg).

(* ---------- L1: readLoop handles the control frames and returns the data header ---------- *)
Lemma read_loop_ctls : forall cs fuel s fin opc k n tl,
  Forall wf_ctl cs -> (opc = 0 \/ opc = 1 \/ opc = 2) -> N.of_nat n < 9223372036854775808 -> wf_key k ->
  quiet s ->
  r_inq s = concat (map (enc_ctl M) cs) ++ enc_hdr (mk_hdr M fin opc k n) ++ tl ->
  (length (r_inq s) < fuel)%nat ->
  exists s', read_loop cfg fuel s = Ok (mk_hdr M fin opc k n) s' /\
    r_inq s' = tl /\ quiet s' /\ r_fin s' = r_fin s /\ r_plen s' = r_plen s /\ r_key s' = r_key s /\
    r_replies s' = r_replies s ++ pw cs /\ r_pongs s' = r_pongs s ++ pn cs.
Proof.
  induction cs as [|c cs IH]; intros fuel s fin opc k n tl Hcs Ho Hn Hk Hq Hi Hfu.
  - destruct fuel as [|fuel]; [lia|]. cbn [read_loop]. cbn [map concat app] in Hi.
    destruct Hq as (Hc & Hfl & Hlr & Hlim).
    unfold read_hdr. rewrite Hc, Hi.
    rewrite dec_enc by (apply mk_hdr_wf; auto; lia).
    cbn [h_rsv1 h_rsv2 h_rsv3 h_masked h_opc mk_hdr andb orb].
    destruct M; cbn [negb andb orb].
    + exists (set_inq s tl). split.
      * destruct Ho as [-> | [-> | ->]]; reflexivity.
      * rsimp. unfold quiet. rsimp. cbn [pw pn flat_map]. rewrite !app_nil_r. auto 10.
    + exists (set_inq s tl). split.
      * destruct Ho as [-> | [-> | ->]]; reflexivity.
      * rsimp. unfold quiet. rsimp. cbn [pw pn flat_map]. rewrite !app_nil_r. auto 10.
  - destruct fuel as [|fuel]; [lia|]. cbn [read_loop].
    inversion Hcs as [|c0 cs0 Hc0 Hcs']. subst c0 cs0.
    destruct Hc0 as (Hopc & Hpw & Hpl & Hck).
    cbn [map concat] in Hi. unfold enc_ctl at 1 in Hi. rewrite enc_frame_mk in Hi. rewrite <- !app_assoc in Hi.
    destruct Hq as (Hc & Hfl & Hlr & Hlim).
    unfold read_hdr. rewrite Hc, Hi.
    rewrite dec_enc by (apply mk_hdr_wf; [destruct Hopc as [E|E]; rewrite E; lia | lia | exact Hck]).
    set (rest := concat (map (enc_ctl M) cs) ++ enc_hdr (mk_hdr M fin opc k n) ++ tl) in *.
    assert (HC : exists s2, handle_control (set_inq s (wire M (c_key c) (c_payload c) ++ rest))
                    (mk_hdr M true (c_opc c) (c_key c) (length (c_payload c))) = Ok tt s2 /\
                 r_inq s2 = rest /\ quiet s2 /\ r_fin s2 = r_fin s /\ r_plen s2 = r_plen s /\ r_key s2 = r_key s /\
                 r_replies s2 = r_replies s ++ pw [c] /\ r_pongs s2 = r_pongs s ++ pn [c]).
    { unfold handle_control. cbn [h_plen h_fin h_masked h_key h_opc mk_hdr negb].
      destruct (N.ltb_spec 125 (N.of_nat (length (c_payload c)))) as [Hbad|_]; [lia|].
      rewrite Nat2N.id. rewrite <- (wire_length M (c_key c) (c_payload c)).
      rewrite (read_payload_app _ (wire M (c_key c) (c_payload c)) rest) by (rsimp; auto).
      assert (EP : (if M then mask_spec (if M then c_key c else zero_key) (wire M (c_key c) (c_payload c)) else wire M (c_key c) (c_payload c)) = c_payload c).
      { destruct M; cbn [wire]; [apply mask_involution | reflexivity]. }
      rewrite EP. cbn [pw pn flat_map]. rewrite !app_nil_r.
      destruct Hopc as [E9 | E10]; rewrite E9 || rewrite E10.
      - change (9 =? 9) with true. change (9 =? 10) with false. cbv iota.
        eexists. split; [reflexivity|]. rewrite add_pong_reply. unfold quiet. rsimp. rewrite app_nil_r. auto 10.
      - change (10 =? 9) with false. change (10 =? 10) with true. cbv iota.
        eexists. split; [reflexivity|]. unfold quiet. rsimp. rewrite app_nil_r. auto 10. }
    destruct HC as (s2 & HC & I2 & Q2 & F2 & P2 & K2 & R2 & G2).
    cbn [h_rsv1 h_rsv2 h_rsv3 h_masked h_opc mk_hdr andb orb].
    assert (Hctl : ((c_opc c =? 8) || (c_opc c =? 9) || (c_opc c =? 10)) = true).
    { destruct Hopc as [-> | ->]; reflexivity. }
    destruct (IH fuel s2 fin opc k n tl Hcs' Ho Hn Hk Q2) as (s' & RL & I' & Q' & F' & P' & K' & R' & G').
    { rewrite I2. reflexivity. }
    { rewrite I2. rewrite Hi in Hfu. rewrite !app_length in Hfu. pose proof (enc_hdr_len2 (mk_hdr M true (c_opc c) (c_key c) (length (c_payload c)))). fold rest in Hfu. lia. }
    exists s'. split.
    + destruct M; cbn [negb andb orb]; rewrite Hctl; rewrite HC; exact RL.
    + split; [exact I'|]. split; [exact Q'|]. split; [congruence|]. split; [congruence|]. split; [congruence|].
      split.
      * rewrite R', R2. change (c :: cs) with ([c] ++ cs). rewrite pw_app, app_assoc. reflexivity.
      * rewrite G', G2. change (c :: cs) with ([c] ++ cs). rewrite pn_app, app_assoc. reflexivity.
Qed.


(* ---------- state descriptor: b = unread (unmasked) bytes of the current fragment, fs = fragments still to come ---------- *)
Definition bodies (fs : list frag) : bytes := concat (map fr_body fs).
Definition ctls (fs : list frag) : list ctl := concat (map fr_ctl fs).

Definition at_pos (s : rst) (b : bytes) (fs : list frag) (tl : bytes) : Prop :=
  r_inq s = wire M (r_key s) b ++ enc_rest M fs ++ tl /\ r_plen s = N.of_nat (length b) /\ r_fin s = is_nil fs /\
  Forall wf_frag fs /\ quiet s.

Definition final (s' : rst) (tl : bytes) (rp : list reply) (pg : list bytes) : Prop :=
  r_inq s' = tl /\ r_fin s' = true /\ quiet s' /\ r_replies s' = rp /\ r_pongs s' = pg.

Lemma at_pos_sub_lrn s b fs tl k : at_pos s b fs tl -> at_pos (sub_lrn s k) b fs tl.
Proof. intros (Hi & Hp & Hf & Hw & Hc & Hfl & Hlr & Hlim). unfold at_pos, quiet. rewrite sub_lrn_neg by exact Hlr.
  cbn [sub_lrn r_inq r_key r_plen r_fin r_closed r_flate r_limit]. auto 10. Qed.

Lemma final_sub_lrn s tl rp pg k : final s tl rp pg -> final (sub_lrn s k) tl rp pg.
Proof. intros (Hi & Hf & (Hc & Hfl & Hlr & Hlim) & Hr & Hg). unfold final, quiet. rewrite sub_lrn_neg by exact Hlr.
  cbn [sub_lrn r_inq r_key r_plen r_fin r_closed r_flate r_limit r_replies r_pongs]. auto 10. Qed.

(* ---------- one msgReader.read call ---------- *)
Definition step_data (res : bytes * option rerr * bool * rst) (s : rst) (b : bytes) (fs : list frag) (tl : bytes) : Prop :=
  exists d b' fs' s', res = (d, None, false, s') /\ d <> [] /\
       d ++ b' ++ bodies fs' = b ++ bodies fs /\ at_pos s' b' fs' tl /\
       r_replies s' ++ pw (ctls fs') = r_replies s ++ pw (ctls fs) /\
       r_pongs s' ++ pn (ctls fs') = r_pongs s ++ pn (ctls fs) /\
       (length (r_inq s') < length (r_inq s))%nat.
Definition step_eof (res : bytes * option rerr * bool * rst) (s : rst) (b : bytes) (fs : list frag) (tl : bytes) : Prop :=
  exists s', res = ([], None, true, s') /\ b = [] /\ bodies fs = [] /\
       final s' tl (r_replies s ++ pw (ctls fs)) (r_pongs s ++ pn (ctls fs)).

Lemma raw_read_step : forall fuel s b fs tl n, (0 < n)%nat -> at_pos s b fs tl -> (length (r_inq s) < fuel)%nat ->
  step_data (raw_read cfg fuel n s) s b fs tl \/ step_eof (raw_read cfg fuel n s) s b fs tl.
Proof.
  induction fuel as [|fuel IH]; intros s b fs tl n Hn (Hi & Hp & Hf & Hw & Hq) Hfu; [lia|].
  destruct b as [|x b0].
  - cbn [length] in Hp. cbn [raw_read]. destruct (N.eqb_spec (r_plen s) 0) as [_|Hne]; [|lia].
    rewrite wire_nil in Hi. cbn [app] in Hi.
    destruct fs as [|f r].
    + right. cbn [is_nil] in Hf. rewrite Hf. exists s. cbn [enc_rest app] in Hi.
      split; [reflexivity|]. split; [reflexivity|]. split; [reflexivity|].
      unfold final, ctls. cbn [map concat pw pn flat_map]. rewrite !app_nil_r. auto 10.
    + cbn [is_nil] in Hf. rewrite Hf. cbn [negb].
      cbn [enc_rest] in Hi. unfold enc_frag in Hi. rewrite enc_frame_mk in Hi. rewrite <- !app_assoc in Hi.
      inversion Hw as [|f0 r0 Hwf Hwr]. subst f0 r0.
      destruct Hwf as (Hcs & Hbw & Hbl & Hkw).
      destruct (read_loop_ctls (fr_ctl f) (S fuel) s (is_nil r) 0 (fr_key f) (length (fr_body f))
                  (wire M (fr_key f) (fr_body f) ++ enc_rest M r ++ tl) Hcs (or_introl eq_refl) Hbl Hkw Hq Hi Hfu)
        as (s1 & RL & I1 & Q1 & F1 & P1 & K1 & R1 & G1).
      rewrite RL. cbn [h_opc mk_hdr]. change (0 =? 0) with true. cbn [negb].
      set (h := mk_hdr M (is_nil r) 0 (fr_key f) (length (fr_body f))) in *.
      set (s2 := set_frame s1 h).
      assert (A2 : at_pos s2 (fr_body f) r tl).
      { unfold at_pos, quiet, s2, h. rsimp. rewrite wire_key. destruct Q1 as (Q1a & Q1b & Q1c & Q1d). auto 10. }
      assert (L0 : (length (r_inq s2) + 2 <= length (r_inq s))%nat).
      { unfold s2. rsimp. rewrite I1, Hi. rewrite !app_length. pose proof (enc_hdr_len2 h). lia. }
      assert (L2 : (length (r_inq s2) < fuel)%nat) by lia.
      assert (R2 : r_replies s2 = r_replies s ++ pw (fr_ctl f)) by (unfold s2; rsimp; exact R1).
      assert (G2 : r_pongs s2 = r_pongs s ++ pn (fr_ctl f)) by (unfold s2; rsimp; exact G1).
      destruct (IH s2 (fr_body f) r tl n Hn A2 L2) as [(d & b' & fs' & s' & E & Hd & Hc & Ha & Hr & Hg & Hl)|(s' & E & Eb & Er & Fi)].
      * left. exists d, b', fs', s'. split; [exact E|]. split; [exact Hd|].
        split; [unfold bodies at 2; cbn [map concat app]; exact Hc|]. split; [exact Ha|].
        split; [|split].
        -- rewrite Hr, R2. unfold ctls at 2. cbn [map concat]. rewrite pw_app, app_assoc. reflexivity.
        -- rewrite Hg, G2. unfold ctls at 2. cbn [map concat]. rewrite pn_app, app_assoc. reflexivity.
        -- lia.
      * right. exists s'. split; [exact E|]. split; [reflexivity|].
        split; [unfold bodies; cbn [map concat]; rewrite Eb; exact Er|].
        rewrite R2, G2 in Fi. unfold ctls at 1 2. cbn [map concat]. rewrite pw_app, pn_app, !app_assoc. exact Fi.
  - left. set (bb := x :: b0) in *.
    assert (Hbl : (1 <= length bb)%nat) by (unfold bb; cbn [length]; lia).
    set (k := Nat.min n (length bb)).
    assert (Hk : (if N.of_nat n <? r_plen s then n else N.to_nat (r_plen s)) = k).
    { rewrite Hp. unfold k. destruct (N.ltb_spec (N.of_nat n) (N.of_nat (length bb))); lia. }
    set (b1 := firstn k bb). set (b2 := skipn k bb).
    assert (Hb : bb = b1 ++ b2) by (symmetry; apply firstn_skipn).
    assert (Hl1 : length b1 = k) by (unfold b1; rewrite firstn_length; unfold k; lia).
    assert (Hl2 : (length bb = k + length b2)%nat) by (rewrite Hb at 1; rewrite app_length; lia).
    destruct Hq as (Hc & Hfl & Hlr & Hlim).
    rewrite Hb, wire_app, <- app_assoc, Hl1 in Hi.
    set (key' := if M then rotk (r_key s) k else r_key s) in *.
    set (rest := wire M key' b2 ++ enc_rest M fs ++ tl) in *.
    assert (RR : raw_read cfg (S fuel) n s = (b1, None, false, sub_plen (set_inq s rest) k key')).
    { cbn [raw_read]. destruct (N.eqb_spec (r_plen s) 0) as [E0|_]; [lia|].
      cbv zeta. rewrite Hk.
      replace k with (length (wire M (r_key s) b1)) at 1 by (rewrite wire_length; exact Hl1).
      rewrite (read_payload_app s _ rest Hc Hi). rewrite unwire, wire_length, Hl1. reflexivity. }
    exists b1, b2, fs. eexists. split; [exact RR|].
    split; [intro E; rewrite E in Hl1; cbn [length] in Hl1; lia|].
    split; [rewrite app_assoc, <- Hb; reflexivity|].
    split; [|split; [reflexivity|split; [reflexivity|]]].
    + unfold at_pos, quiet. rsimp. split; [reflexivity|]. split; [lia|]. auto 10.
    + rsimp. rewrite Hi. assert (Hk1 : (1 <= k)%nat) by (unfold k; lia). rewrite !app_length, !wire_length. lia.
Qed.

Lemma msg_read_step : forall fuel s b fs tl n, (0 < n)%nat -> at_pos s b fs tl -> (length (r_inq s) < fuel)%nat ->
  step_data (msg_read cfg inflate fuel n s) s b fs tl \/ step_eof (msg_read cfg inflate fuel n s) s b fs tl.
Proof.
  intros fuel s b fs tl n Hn Ha Hfu.
  pose proof Ha as (_ & _ & _ & _ & Hc & Hfl & Hlr & Hlim).
  unfold msg_read. rewrite Hc. destruct (Z.eqb_spec (r_lrn s) 0) as [E0|_]; [lia|].
  destruct (Z.ltb_spec 0 (r_lrn s)) as [E0|_]; [lia|]. cbn [andb]. rewrite Hfl.
  unfold limit_hit. destruct (Z.leb_spec 0 (r_lrn s)) as [E0|_]; [lia|]. cbn [andb].
  destruct (raw_read_step fuel s b fs tl n Hn Ha Hfu) as [(d & b' & fs' & s' & E & Hd & Hcc & Ha' & Hr & Hg & Hl)|(s' & E & Eb & Er & Fi)].
  - left. rewrite E. exists d, b', fs', (sub_lrn s' (length d)). split; [reflexivity|]. split; [exact Hd|]. split; [exact Hcc|].
    split; [apply at_pos_sub_lrn; exact Ha'|]. cbn [sub_lrn r_replies r_pongs r_inq]. auto.
  - right. rewrite E. exists (sub_lrn s' (length (@nil N))). split; [reflexivity|]. split; [exact Eb|]. split; [exact Er|].
    apply final_sub_lrn. exact Fi.
Qed.

(* ---------- the caller's loop: exactly the rest of the message, whatever the buffer size ---------- *)
Lemma read_all_rest : forall fuel s b fs tl n racc, (0 < n)%nat -> at_pos s b fs tl -> (length (r_inq s) < fuel)%nat ->
  exists s', read_all cfg inflate fuel n s racc = (concat (frev racc) ++ b ++ bodies fs, None, s') /\
     final s' tl (r_replies s ++ pw (ctls fs)) (r_pongs s ++ pn (ctls fs)).
Proof.
  induction fuel as [|fuel IH]; intros s b fs tl n racc Hn Ha Hfu; [lia|].
  cbn [read_all].
  destruct (msg_read_step (S (S fuel)) s b fs tl n Hn Ha ltac:(lia)) as [(d & b' & fs' & s' & E & Hd & Hc & Ha' & Hr & Hg & Hl)|(s' & E & Eb & Er & Fi)].
  - rewrite E. destruct (IH s' b' fs' tl n (d :: racc) Hn Ha' ltac:(lia)) as (s'' & E' & Fi).
    exists s''. rewrite E'. split.
    + rewrite frev_cons, <- app_assoc, Hc. reflexivity.
    + rewrite <- Hr, <- Hg. exact Fi.
  - rewrite E. exists s'. split; [|exact Fi]. rewrite frev_cons, Eb, Er. reflexivity.
Qed.

Lemma read_all_z_rest : forall fuel s b fs tl n racc, (0 < n)%nat -> at_pos s b fs tl -> (length (r_inq s) < fuel)%nat ->
  exists s', read_all_z cfg inflate fuel n s racc = (concat (frev racc) ++ b ++ bodies fs, None, s') /\
     final s' tl (r_replies s ++ pw (ctls fs)) (r_pongs s ++ pn (ctls fs)).
Proof.
  intros fuel s b fs tl n racc Hn Ha Hfu. unfold read_all_z.
  destruct (msg_read_step fuel s b fs tl n Hn Ha Hfu) as [(d & b' & fs' & s' & E & Hd & Hc & Ha' & Hr & Hg & Hl)|(s' & E & Eb & Er & Fi)].
  - rewrite E. destruct (read_all_rest (length (r_zout s') + fuel) s' b' fs' tl n (d :: racc) Hn Ha' ltac:(lia)) as (s'' & E' & Fi).
    exists s''. rewrite E'. split.
    + rewrite frev_cons, <- app_assoc, Hc. reflexivity.
    + rewrite <- Hr, <- Hg. exact Fi.
  - rewrite E. exists s'. split; [|exact Fi]. rewrite frev_cons, Eb, Er. reflexivity.
Qed.

(* ---------- Conn.reader at a message boundary ---------- *)
Lemma reader_msg : forall fuel s m tl, wf_smsg m -> quiet s -> r_fin s = true ->
  r_inq s = enc_msg M m ++ tl -> (length (r_inq s) < fuel)%nat ->
  exists s1, reader cfg fuel s = Ok (sm_typ m) s1 /\ at_pos s1 (fr_body (sm_first m)) (sm_rest m) tl /\
    r_replies s1 = r_replies s ++ pw (fr_ctl (sm_first m)) /\ r_pongs s1 = r_pongs s ++ pn (fr_ctl (sm_first m)) /\
    (length (r_inq s1) <= length (r_inq s))%nat.
Proof.
  intros fuel s m tl (Ht & (Hcs & Hbw & Hbl & Hkw) & Hwr) Hq Hf Hi Hfu.
  unfold enc_msg, enc_frag in Hi. rewrite enc_frame_mk in Hi. rewrite <- !app_assoc in Hi.
  assert (Ho : sm_typ m = 0 \/ sm_typ m = 1 \/ sm_typ m = 2) by (destruct Ht; auto).
  destruct (read_loop_ctls (fr_ctl (sm_first m)) fuel s (is_nil (sm_rest m)) (sm_typ m) (fr_key (sm_first m)) (length (fr_body (sm_first m)))
              (wire M (fr_key (sm_first m)) (fr_body (sm_first m)) ++ enc_rest M (sm_rest m) ++ tl) Hcs Ho Hbl Hkw Hq Hi Hfu)
    as (s1 & RL & I1 & Q1 & F1 & P1 & K1 & R1 & G1).
  unfold reader. destruct Hq as (Hc & Hfl & Hlr & Hlim). rewrite Hc, Hf. cbn [negb]. rewrite RL.
  cbn [h_opc mk_hdr].
  destruct (N.eqb_spec (sm_typ m) 0) as [E0|_]; [destruct Ht as [Ht|Ht]; rewrite Ht in E0; discriminate|].
  eexists. split; [reflexivity|].
  destruct Q1 as (Q1a & Q1b & Q1c & Q1d).
  split; [|split; [rsimp; exact R1|split; [rsimp; exact G1|]]].
  - unfold at_pos, quiet. rsimp. rewrite wire_key. auto 10.
  - rsimp. rewrite I1, Hi. rewrite !app_length. lia.
Qed.

(* ---------- the whole script ---------- *)
Lemma run_script_pair fuel n r s :
  run_script cfg inflate fuel (OReader :: OReadAllN n :: r) s None =
  match reader cfg fuel s with
  | Ok t s1 =>
    let '(o, s2) := (let '(d, e, s1') := read_all_z cfg inflate fuel n s1 [] in
                     match e with
                     | Some err => ([ObMsg d (Some err)], s1')
                     | None => let '(o, s2) := run_script cfg inflate fuel r s1' None in (ObMsg d None :: o, s2)
                     end) in (ObReader (inl t) :: o, s2)
  | Err e s1 => ([ObReader (inr e)], s1)
  end.
Proof. reflexivity. Qed.

Lemma run_script_valid : forall ms sizes fuel s tl,
  Forall wf_smsg ms -> length sizes = length ms -> Forall (fun n => 0 < n)%nat sizes ->
  quiet s -> r_fin s = true -> r_inq s = enc_script M ms ++ tl -> (length (r_inq s) < fuel)%nat ->
  exists s', run_script cfg inflate fuel (read_ops sizes) s None = (expected_obs ms, s') /\
    final s' tl (r_replies s ++ pw (flat_map sm_ctls ms)) (r_pongs s ++ pn (flat_map sm_ctls ms)).
Proof.
  induction ms as [|m ms IH]; intros sizes fuel s tl Hw Hl Hpos Hq Hf Hi Hfu.
  - destruct sizes as [|n sizes]; [|discriminate]. exists s. split; [reflexivity|].
    unfold final. cbn [flat_map pw pn]. rewrite !app_nil_r. cbn [enc_script map concat app] in Hi. auto 10.
  - destruct sizes as [|n sizes]; [discriminate|]. cbn [length] in Hl. injection Hl as Hl.
    inversion Hw as [|m0 ms0 Hm Hw']. subst m0 ms0.
    inversion Hpos as [|n0 sz0 Hn Hpos']. subst n0 sz0.
    cbn [enc_script map concat] in Hi. rewrite <- app_assoc in Hi.
    change (concat (map (enc_msg M) ms)) with (enc_script M ms) in Hi.
    destruct (reader_msg fuel s m (enc_script M ms ++ tl) Hm Hq Hf Hi Hfu) as (s1 & R & A & R1 & G1 & L1).
    destruct (read_all_z_rest fuel s1 (fr_body (sm_first m)) (sm_rest m) (enc_script M ms ++ tl) n [] Hn A ltac:(lia))
      as (s2 & RZ & I2 & F2 & Q2 & R2 & G2).
    assert (L2 : (length (r_inq s2) < fuel)%nat).
    { rewrite I2. rewrite Hi in Hfu. rewrite app_length in Hfu. lia. }
    destruct (IH sizes fuel s2 tl Hw' Hl Hpos' Q2 F2 I2 L2) as (s3 & RS & Fi).
    exists s3. split.
    + change (read_ops (n :: sizes)) with (OReader :: OReadAllN n :: read_ops sizes).
      rewrite run_script_pair, R. cbv beta iota. rewrite RZ. cbv beta iota. rewrite RS. reflexivity.
    + rewrite R2, R1, G2, G1 in Fi. cbn [flat_map]. unfold sm_ctls at 1 3.
      fold (ctls (sm_rest m)). rewrite !pw_app, !pn_app, !app_assoc. exact Fi.
Qed.

End Ref.

Theorem reader_valid_stream : forall cfg inflate ms sizes e,
  Forall wf_smsg ms -> length sizes = length ms -> Forall (fun n => 0 < n)%nat sizes ->
  let masked := role_eqb (rc_role cfg) Server in          (* the peer of a server is a client: it masks *)
  let r := run cfg inflate (-1)%Z (enc_script masked ms) e (read_ops sizes) in
  fst r = expected_obs ms /\
  r_replies (snd r) = expected_pongs_written ms /\
  r_pongs (snd r) = expected_pong_notes ms /\
  r_inq (snd r) = [] /\ r_closed (snd r) = false.
Proof.
  intros cfg inflate ms sizes e Hw Hl Hpos masked r. subst r masked.
  change (role_eqb (rc_role cfg) Server) with (is_server cfg). unfold run.
  destruct (run_script_valid cfg inflate ms sizes (S (S (length (enc_script (is_server cfg) ms))))
              (r_init (-1) (enc_script (is_server cfg) ms) e) [] Hw Hl Hpos) as (s' & RS & I & F & (Qc & _) & R & G).
  - unfold quiet, r_init. rsimp. lia.
  - reflexivity.
  - unfold r_init. rsimp. rewrite app_nil_r. reflexivity.
  - unfold r_init. rsimp. lia.
  - rewrite RS. cbn [fst snd]. split; [reflexivity|]. split; [exact R|]. split; [exact G|]. split; [exact I|exact Qc].
Qed.

Print Assumptions reader_valid_stream.
