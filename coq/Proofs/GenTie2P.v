(* Proofs/GenTie2P.v — second part of the source tie: the decision code the translator (tools/constx/nego.go) reads off
   dial.go (verifyServerResponse, verifySubprotocol, verifyServerExtensions), accept.go (acceptDeflate, validWindowBits,
   authenticateOrigin) and close.go (CloseError.bytesErr, parseClosePayload, writeClose) on every run is what the hand-written
   models of Model/Handshake.v, Model/Origin.v and Model/CloseCodec.v compute.  A changed literal, comparison, order of checks or
   flag assignment in one of those places changes Gen/*.v and breaks a proof here. *)
From Coq Require Import List NArith ZArith Bool Lia.
From WS Require Import Base.Words Base.Str Gen.Consts Gen.CloseCode Gen.NegoCode Gen.DialCode Gen.OriginCode Gen.ClosePayloadCode Gen.TakeoverCode Gen.HeaderCode Gen.ParseCode
  Model.CloseCodec Model.Fold Model.Glob Model.Url Model.Origin Model.Proto Model.Handshake Model.HsCompose Proofs.GenTieP.
Import ListNotations.

(* ---------- strings ---------- *)
Lemma hs_beq_is_s_eqb : forall a b, hs_beq a b = s_eqb a b.
Proof. reflexivity. Qed.   (* the two fixpoints are the same term *)

Lemma hs_prefix_is_s_strip : forall p s, hs_prefix p s = s_strip p s.
Proof. reflexivity. Qed.

(* ---------- validWindowBits ---------- *)
(* both sides compare bytes with constants below 64: case analysis on the low seven bits of a byte decides every comparison *)
Ltac dpos p n :=
  try reflexivity;
  lazymatch n with
  | O => idtac
  | S ?k => let q := fresh "q" in destruct p as [q|q|]; [dpos q k | dpos q k | try reflexivity]
  end.
Ltac split7 a := let p := fresh "p" in destruct a as [|p]; [try reflexivity | dpos p 7%nat].

Theorem valid_bits_is_source : forall s, hs_valid_bits s = gen_valid_window_bits s.
Proof.
  intros s. destruct s as [|a [|b [|c r]]]; try reflexivity.
  - split7 a.
  - split7 a; split7 b.
  - split7 a; split7 b.
Qed.

(* ---------- the parameter loops of acceptDeflate and verifyServerExtensions ---------- *)
Fixpoint run_params (step : bytes -> Z) (ps : list bytes) (c : copts) : option copts :=
  match ps with
  | [] => Some c
  | p :: r =>
    match step p with
    | 1%Z => run_params step r {| cnct := true; snct := snct c |}
    | 2%Z => run_params step r {| cnct := cnct c; snct := true |}
    | 3%Z => run_params step r c
    | _ => None
    end
  end.

Ltac split_str p :=
  repeat match goal with
  | |- context [s_eqb p ?l] => destruct (s_eqb p l)
  | |- context [s_strip ?l p] => destruct (s_strip l p)
  end.

Theorem accept_params_is_source : forall ps c, accept_params ps c = run_params gen_accept_param ps c.
Proof.
  induction ps as [|p r IH]; intro c; [reflexivity|].
  cbn [accept_params run_params]. unfold gen_accept_param, s_has_prefix, s_trim_prefix.
  change hs_beq with s_eqb. change hs_prefix with s_strip.
  unfold s_cnct, s_snct, s_cmwb, s_smwb. cbn [app].
  split_str p; cbn [orb andb]; try apply IH;
  rewrite ?valid_bits_is_source;
  try match goal with |- context [gen_valid_window_bits ?v] => destruct (gen_valid_window_bits v) end;
  cbn [orb andb]; try apply IH; reflexivity.
Qed.

Theorem verify_params_is_source : forall ps c, verify_params ps c = run_params gen_verify_param ps c.
Proof.
  induction ps as [|p r IH]; intro c; [reflexivity|].
  cbn [verify_params run_params]. unfold gen_verify_param, s_has_prefix, s_trim_prefix.
  change hs_beq with s_eqb. change hs_prefix with s_strip.
  unfold s_cnct, s_snct, s_smwb. cbn [app].
  split_str p; cbn [orb andb]; try apply IH;
  rewrite ?valid_bits_is_source;
  try match goal with |- context [gen_valid_window_bits ?v] => destruct (gen_valid_window_bits v) end;
  cbn [orb andb]; try apply IH; reflexivity.
Qed.

(* acceptDeflate as a whole: mode.opts(), the duplicate guard, the loop *)
Theorem accept_deflate_is_source : forall e m,
  accept_deflate e m =
  if gen_accept_pre (hs_has_dup (x_params e) []) then None else run_params gen_accept_param (x_params e) (mode_opts m).
Proof.
  intros e m. unfold accept_deflate, gen_accept_pre. rewrite accept_params_is_source.
  destruct (hs_has_dup (x_params e) []); reflexivity.
Qed.

(* verifyServerExtensions as a whole *)
Definition ext_default : wsext := {| x_name := []; x_params := [] |}.

Theorem verify_exts_is_source : forall offer h,
  verify_exts offer h =
  let es := hs_exts h in
  let e := hd ext_default es in
  match gen_verify_exts_pre (Z.of_nat (length es)) (hs_beq (x_name e) s_pmd)
          (match offer with Some _ => true | None => false end) (hs_has_dup (x_params e) []) with
  | 0%Z => VOk None
  | 1%Z => VErr
  | _ => match offer with
         | None => VErr
         | Some o => match run_params gen_verify_param (x_params e) {| cnct := cnct o; snct := gen_verify_initial_snct (snct o) |} with
                     | Some c => VOk (Some c)
                     | None => VErr
                     end
         end
  end.
Proof.
  intros offer h. unfold verify_exts. cbv zeta.
  destruct (hs_exts h) as [|e rest]; [reflexivity|].
  cbn [hd]. unfold gen_verify_exts_pre, gen_verify_initial_snct.
  assert (Hz : (Z.of_nat (length (e :: rest)) =? 0)%Z = false) by (apply Z.eqb_neq; cbn [length]; lia).
  assert (H1 : (1 <? Z.of_nat (length (e :: rest)))%Z = match rest with [] => false | _ => true end).
  { destruct rest as [|e2 rest']; cbn [length]; [reflexivity|]. apply Z.ltb_lt. lia. }
  rewrite Hz, H1.
  destruct offer as [o|].
  - rewrite verify_params_is_source. destruct (hs_beq (x_name e) s_pmd); destruct rest as [|e2 rest']; cbn [negb orb];
      try reflexivity; destruct (hs_has_dup (x_params e) []); reflexivity.
  - cbn [negb]. rewrite Bool.orb_true_r. reflexivity.
Qed.

(* ---------- verifyServerResponse / verifySubprotocol ---------- *)
Theorem verify_response_is_source : forall o key resp,
  verify_server_response o key resp =
  let proto := hs_get (p_hdrs resp) s_SecProtocol in
  if gen_verify_response_refused (Z.of_nat (p_status resp))
       (hs_has_token (p_hdrs resp) s_Connection s_Upgrade) (hs_has_token (p_hdrs resp) s_Upgrade s_websocket)
       (hs_beq (hs_get (p_hdrs resp) s_SecAccept) (accept_key key))
       (gen_subprotocol_ok (match proto with [] => true | _ => false end) (existsb (fun sp => fold_eq sp proto) (d_subprotocols o)))
  then VErr else verify_exts (dial_offer o) (p_hdrs resp).
Proof.
  intros o key resp. unfold verify_server_response, gen_verify_response_refused, gen_subprotocol_ok. cbv zeta.
  assert (Hs : (Z.of_nat (p_status resp) =? 101)%Z = Nat.eqb (p_status resp) 101).
  { destruct (Nat.eqb_spec (p_status resp) 101) as [E|E]; [apply Z.eqb_eq | apply Z.eqb_neq]; lia. }
  rewrite Hs.
  destruct (Nat.eqb (p_status resp) 101); cbn [negb]; [|reflexivity].
  destruct (hs_has_token (p_hdrs resp) s_Connection s_Upgrade); cbn [negb]; [|reflexivity].
  destruct (hs_has_token (p_hdrs resp) s_Upgrade s_websocket); cbn [negb]; [|reflexivity].
  destruct (hs_beq (hs_get (p_hdrs resp) s_SecAccept) (accept_key key)); cbn [negb]; [|reflexivity].
  destruct (hs_get (p_hdrs resp) s_SecProtocol) as [|x pr]; cbn [negb]; [reflexivity|].
  destruct (existsb (fun sp => fold_eq sp (x :: pr)) (d_subprotocols o)); reflexivity.
Qed.

(* ---------- authenticateOrigin ---------- *)
Fixpoint run_patterns (step : bool -> bool -> Z) (h : bytes) (pats : list bytes) : origin_verdict :=
  match pats with
  | [] => ORefuse
  | p :: rest =>
    let g := glob_match (fold_lower p) (fold_lower h) in
    match step (match g with GlobBad => true | _ => false end) (match g with GlobOk true => true | _ => false end) with
    | 0%Z => run_patterns step h rest
    | 2%Z => OAllow
    | _ => ORefuse
    end
  end.

Theorem origin_patterns_is_source : forall h pats, origin_patterns h pats = run_patterns gen_origin_step h pats.
Proof.
  intros h pats. induction pats as [|p rest IH]; [reflexivity|].
  cbn [origin_patterns run_patterns]. cbv zeta. unfold gen_origin_step.
  destruct (glob_match (fold_lower p) (fold_lower h)) as [[|]|]; cbn [negb]; try reflexivity. exact IH.
Qed.

Theorem origin_authenticate_is_source : forall host origin pats,
  origin_authenticate host origin pats =
  let o := match origin with Some o => o | None => [] end in
  match gen_origin_pre (match o with [] => true | _ => false end)
          (match url_host_of o with Some _ => true | None => false end)
          (match url_host_of o with Some h => fold_eq host h | None => false end) with
  | Some true => OAllow
  | Some false => ORefuse
  | None => match url_host_of o with Some h => run_patterns gen_origin_step h pats | None => ORefuse end
  end.
Proof.
  intros host origin pats. unfold origin_authenticate, gen_origin_pre. cbv zeta.
  destruct origin as [[|c o]|]; try reflexivity.
  destruct (url_host_of (c :: o)) as [h|]; cbn [negb]; [|reflexivity].
  destruct (fold_eq host h); [reflexivity|]. apply origin_patterns_is_source.
Qed.

(* ---------- the Close payload ---------- *)
Theorem close_bytes_is_source : forall code reason,
  match close_bytes code reason with None => true | Some _ => false end = gen_close_bytes_refused (Z.of_nat (length reason)) code.
Proof.
  intros code reason. unfold close_bytes, gen_close_bytes_refused, c_maxCloseReason.
  destruct (123 <? Z.of_nat (length reason))%Z; [reflexivity|].
  destruct (valid_wire_code code); reflexivity.
Qed.

Theorem close_payload_is_source : forall code reason,
  close_payload code reason = if gen_close_has_payload code then close_bytes code reason else Some [].
Proof.
  intros code reason. unfold close_payload, gen_close_has_payload, c_StatusNoStatusRcvd.
  destruct (code =? 1005)%Z; reflexivity.
Qed.

Theorem parse_close_is_source : forall p,
  let code := Z.of_N (be_val (firstn 2 p)) in
  parse_close p =
  match gen_parse_close (Z.of_nat (length p)) code with
  | 0%Z => Some (c_StatusNoStatusRcvd, [])
  | 1%Z => Some (code, skipn 2 p)
  | _ => None
  end.
Proof.
  intros p. cbv zeta. unfold gen_parse_close.
  destruct p as [|a [|b r]].
  - reflexivity.
  - reflexivity.
  - assert (H0 : (Z.of_nat (length (a :: b :: r)) =? 0)%Z = false) by (apply Z.eqb_neq; cbn [length]; lia).
    assert (H2 : (Z.of_nat (length (a :: b :: r)) <? 2)%Z = false) by (apply Z.ltb_ge; cbn [length]; lia).
    rewrite H0, H2. cbn [firstn skipn parse_close].
    destruct (valid_wire_code (Z.of_N (be_val [a; b]))); reflexivity.
Qed.

(* ---------- per-direction context takeover (read.go / write.go flateContextTakeover) ---------- *)
Definition is_client (r : role) : bool := match r with Client => true | Server => false end.

Theorem reader_takeover_is_source : forall r c, reader_takeover r c = gen_reader_takeover (is_client r) (cnct c) (snct c).
Proof. intros [|] c; reflexivity. Qed.

Theorem writer_takeover_is_source : forall r c, writer_takeover r c = gen_writer_takeover (is_client r) (cnct c) (snct c).
Proof. intros [|] c; reflexivity. Qed.

(* ---------- compressionOptions.String ---------- *)
Theorem render_copts_is_source : forall c, render_copts c = gen_render_copts (cnct c) (snct c).
Proof. intros c. unfold render_copts, gen_render_copts. destruct (cnct c); destruct (snct c); reflexivity. Qed.

(* ---------- the headers handshakeRequest and accept set ---------- *)
(* the key under which net/http's Header.Set stores a value: textproto.CanonicalMIMEHeaderKey on an ASCII token *)
Local Open Scope N_scope.
Definition ck_up (c : N) : N := if (97 <=? c) && (c <=? 122) then c - 32 else c.
Definition ck_low (c : N) : N := if (65 <=? c) && (c <=? 90) then c + 32 else c.
Fixpoint canon_key_from (upper : bool) (s : bytes) : bytes :=
  match s with [] => [] | c :: r => (if upper then ck_up c else ck_low c) :: canon_key_from (c =? 45) r end.
Definition canon_key (s : bytes) : bytes := canon_key_from true s.
Definition as_headers (l : list (bytes * bytes)) : headers := map (fun kv => (canon_key (fst kv), [snd kv])) l.
Local Close Scope N_scope.

Theorem dial_headers_is_source : forall o key64,
  dial_headers o key64 =
  as_headers (gen_dial_headers key64 (Z.of_nat (length (d_subprotocols o))) (hs_join [44%N] (d_subprotocols o))
                (match dial_offer o with Some _ => true | None => false end)
                (match dial_offer o with Some c => gen_render_copts (cnct c) (snct c) | None => [] end)).
Proof.
  intros o key64. unfold dial_headers, gen_dial_headers.
  assert (H : (0 <? Z.of_nat (length (d_subprotocols o)))%Z = match d_subprotocols o with [] => false | _ => true end).
  { destruct (d_subprotocols o) as [|x l]; cbn [length]; [reflexivity|]. apply Z.ltb_lt. lia. }
  rewrite H.
  destruct (d_subprotocols o) as [|x l]; destruct (dial_offer o) as [c|]; rewrite ?render_copts_is_source; reflexivity.
Qed.

Theorem dial_method_is_source : forall host o key64, q_method (lib_request host o key64) = gen_dial_method.
Proof. reflexivity. Qed.

Theorem lib_response_is_source : forall a, ar_status a = Z.to_nat gen_accept_status ->
  lib_response a =
  {| p_status := Z.to_nat gen_accept_status;
     p_hdrs := as_headers (gen_accept_headers (ar_accept a) (ar_subproto a)
                 (match ar_subproto a with [] => false | _ => true end)
                 (match ar_copts a with Some _ => true | None => false end)
                 (match ar_copts a with Some c => gen_render_copts (cnct c) (snct c) | None => [] end)) |}.
Proof.
  intros a H. unfold lib_response, gen_accept_headers. rewrite H.
  destruct (ar_subproto a) as [|x l]; destruct (ar_copts a) as [c|]; rewrite ?render_copts_is_source; reflexivity.
Qed.

(* an upgrading decision of the model carries the status the source writes *)
Theorem accept_status_is_source : forall r o, ar_status (accept_decide r o) = 101%nat -> ar_status (accept_decide r o) = Z.to_nat gen_accept_status.
Proof. intros r o H. rewrite H. reflexivity. Qed.

(* ---------- header parsing helpers and the selection loops of accept.go (Gen/ParseCode.v) ---------- *)
Theorem hs_tokens_is_source : forall h k,
  hs_tokens h k = flat_map (fun v => map hs_trim (hs_split gen_token_sep (hs_trim v) [])) (hs_values h k).
Proof. reflexivity. Qed.

Theorem hs_exts_is_source : forall h,
  hs_exts h = flat_map (fun t => match t with
                                 | [] => []
                                 | _ => match map hs_trim (hs_split gen_ext_sep t []) with
                                        | n :: ps => [{| x_name := n; x_params := ps |}]
                                        | [] => [] end
                                 end) (hs_tokens h s_SecExtensions).
Proof. reflexivity. Qed.

Theorem hs_pname_is_source : forall p, hs_pname p = match hs_split gen_param_sep p [] with n :: _ => n | [] => [] end.
Proof. reflexivity. Qed.

Fixpoint run_select (name_ok : bytes -> bool) (es : list wsext) (m : cmode) : option copts :=
  match es with
  | [] => None
  | e :: r => if name_ok (x_name e) then match accept_deflate e m with Some c => Some c | None => run_select name_ok r m end
              else run_select name_ok r m
  end.

Theorem select_deflate_is_source : forall es m,
  select_deflate es m = if gen_select_disabled (mode_code m) then None else run_select gen_select_name es m.
Proof.
  intros es m.
  assert (H : forall es, select_deflate_from es m = run_select gen_select_name es m).
  { induction es0 as [|e r IH]; [reflexivity|]. cbn [select_deflate_from run_select]. unfold gen_select_name.
    change hs_beq with s_eqb. unfold s_pmd. rewrite IH. reflexivity. }
  unfold select_deflate, gen_select_disabled. destruct m; cbn; try apply H; reflexivity.
Qed.

Fixpoint run_find (pick : bytes -> bytes -> bytes) (sp : bytes) (cps : list bytes) : option bytes :=
  match cps with [] => None | cp :: r => if fold_eq sp cp then Some (pick sp cp) else run_find pick sp r end.
Fixpoint run_subprotocol (pick : bytes -> bytes -> bytes) (server cps : list bytes) : bytes :=
  match server with
  | [] => []
  | sp :: r => match run_find pick sp cps with Some x => x | None => run_subprotocol pick r cps end
  end.

Theorem select_subprotocol_is_source : forall server cps,
  select_subprotocol server cps = run_subprotocol gen_subprotocol_pick server cps.
Proof.
  intros server cps.
  assert (H : forall sp, find_fold sp cps = run_find gen_subprotocol_pick sp cps).
  { intro sp. induction cps as [|cp r IH]; [reflexivity|]. cbn [find_fold run_find]. rewrite IH. reflexivity. }
  induction server as [|sp r IH]; [reflexivity|]. cbn [select_subprotocol run_subprotocol]. rewrite H, IH. reflexivity.
Qed.
