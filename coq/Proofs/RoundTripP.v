(* Proofs/RoundTripP.v — what the Writer model writes is what an independent decoder reassembles (Goal A) and what the
   Reader model of the peer hands to the application (Goal B). *)
From Coq Require Import List NArith Lia ZArith ZifyN ZifyNat ZifyBool Bool.
From WS Require Import Base.Words Gen.Consts Gen.CloseCode Model.Mask Model.Frame Model.Proto Model.CloseCodec Model.Writer Model.RefDecoder
  Model.Reader Model.Script Proofs.MaskP Proofs.FrameP Proofs.CloseCodecP Proofs.WriterP Proofs.TrimWindowP Proofs.ReaderRefP.
Import ListNotations.
Open Scope N_scope.
Ltac Zify.zify_post_hook ::= Z.div_mod_to_equations.

(* ====================================================================================================== *)
(* Part B — Writer |> wire |> Reader, no compression                                                        *)
(* ====================================================================================================== *)

(* the key index advances with every frame a client writes; a server consumes no keys *)
Definition nx (c : bool) (n : nat) : nat := if c then S n else n.
Fixpoint nxk (c : bool) (n k : nat) : nat := match k with O => n | S k' => nxk c (nx c n) k' end.

Section ScriptOf.
Variable keys : nat -> key.
Variable c : bool.                       (* the writer is a client *)

Definition mkfrag (pend : list ctl) (n : nat) (b : bytes) : frag := {| fr_ctl := pend; fr_body := b; fr_key := keys n |}.
Definition mkctl (n : nat) (o : N) (p : bytes) : ctl := {| c_opc := o; c_payload := p; c_key := keys n |}.

Fixpoint frags_from (n : nat) (bs : list bytes) : list frag :=
  match bs with [] => [] | b :: r => mkfrag [] n b :: frags_from (nx c n) r end.

(* the script a program amounts to: n = next key index, pend = control frames written since the last data message *)
Fixpoint script_from (n : nat) (pend : list ctl) (prog : list wop) : list smsg :=
  match prog with
  | [] => []
  | WWrite t p :: r => {| sm_typ := t; sm_first := mkfrag pend n p; sm_rest := [] |} :: script_from (nx c n) [] r
  | WStream t cs :: r =>
      match cs with
      | [] => {| sm_typ := t; sm_first := mkfrag pend n []; sm_rest := [] |}
      | b :: bs => {| sm_typ := t; sm_first := mkfrag pend n b; sm_rest := frags_from (nx c n) (bs ++ [[]]) |}
      end :: script_from (nxk c n (S (length cs))) [] r
  | WControl o p :: r => script_from (nx c n) (pend ++ [mkctl n o p]) r
  | WClose _ _ :: r => script_from n pend r
  end.

(* control frames written after the last data message *)
Fixpoint trailing (n : nat) (pend : list ctl) (prog : list wop) : list ctl :=
  match prog with
  | [] => pend
  | WWrite t p :: r => trailing (nx c n) [] r
  | WStream t cs :: r => trailing (nxk c n (S (length cs))) [] r
  | WControl o p :: r => trailing (nx c n) (pend ++ [mkctl n o p]) r
  | WClose _ _ :: r => trailing n pend r
  end.
End ScriptOf.

Definition script_of (keys : nat -> key) (r : role) (prog : list wop) : list smsg :=
  script_from keys (role_eqb r Client) 0 [] prog.

(* programs of data and Ping/Pong operations *)
Definition wf_data_op (op : wop) : Prop :=
  match op with
  | WWrite t p => (t = 1 \/ t = 2) /\ wf_payload p
  | WStream t cs => (t = 1 \/ t = 2) /\ Forall wf_payload cs
  | _ => False
  end.
Definition wf_dc_op (op : wop) : Prop :=
  match op with
  | WClose _ _ => False
  | _ => wf_op op
  end.

Section PlainWriter.
Variable keys : nat -> key.
Variable dz : list dzop -> list bytes.
Variable cfg : wcfg.
Hypothesis Hco : wc_co cfg = None.
Local Notation c := (role_eqb (wc_role cfg) Client).

Lemma raw_plain s fin opc p :
  w_out (write_frame_raw keys cfg s fin false opc p) = w_out s ++ [(mk_hdr c fin opc (keys (w_nkey s)) (length p), p)]
  /\ w_nkey (write_frame_raw keys cfg s fin false opc p) = nx c (w_nkey s)
  /\ w_close_sent (write_frame_raw keys cfg s fin false opc p) = w_close_sent s || (opc =? 8).
Proof. repeat split. Qed.

Lemma wf_plain s fin opc p : w_close_sent s = false -> opc <> 8 ->
  let s' := write_frame keys cfg s fin false opc p in
  w_wire s' = w_wire s ++ enc_frame (mk_hdr c fin opc (keys (w_nkey s)) (length p), p)
  /\ w_nkey s' = nx c (w_nkey s) /\ w_close_sent s' = false.
Proof. intros Hcs Ho. cbv zeta. unfold write_frame. rewrite Hcs. cbn [andb].
  destruct (raw_plain s fin opc p) as (E1 & E2 & E3). split; [|split].
  - unfold w_wire. rewrite E1, map_app, concat_app. cbn [map concat]. rewrite app_nil_r. reflexivity.
  - exact E2.
  - rewrite E3, Hcs. cbn [orb]. apply N.eqb_neq. exact Ho. Qed.

Lemma mw_write_plain m p : m_flate m = false -> w_close_sent (m_s m) = false -> m_opc m <> 8 ->
  let m' := mw_write keys dz cfg m p in
  w_wire (m_s m') = w_wire (m_s m) ++ enc_frame (mk_hdr c false (m_opc m) (keys (w_nkey (m_s m))) (length p), p)
  /\ w_nkey (m_s m') = nx c (w_nkey (m_s m)) /\ w_close_sent (m_s m') = false /\ m_opc m' = 0 /\ m_flate m' = false.
Proof. intros Hf Hcs Ho. cbv zeta. unfold mw_write. rewrite Hco, Hf. cbv zeta iota. unfold mw_frame. cbn [m_s m_opc m_flate m_tail m_hist].
  destruct (wf_plain (m_s m) false (m_opc m) p Hcs Ho) as (E1 & E2 & E3). auto. Qed.

Lemma mw_close_plain m : m_flate m = false -> w_close_sent (m_s m) = false -> m_opc m <> 8 ->
  let s' := mw_close keys dz cfg m in
  w_wire s' = w_wire (m_s m) ++ enc_frame (mk_hdr c true (m_opc m) (keys (w_nkey (m_s m))) 0, [])
  /\ w_nkey s' = nx c (w_nkey (m_s m)) /\ w_close_sent s' = false.
Proof. intros Hf Hcs Ho. cbv zeta. unfold mw_close. rewrite Hf. cbv zeta iota. rewrite Hf.
  destruct (wf_plain (m_s m) true (m_opc m) [] Hcs Ho) as (E1 & E2 & E3).
  unfold w_wire in *. cbn [w_out w_nkey w_close_sent]. auto. Qed.

Lemma is_nil_frags n r x : is_nil (frags_from keys c n (r ++ [x])) = false.
Proof. destruct r; reflexivity. Qed.

(* the continuation frames of a streamed message and its empty final frame *)
Lemma stream_rest : forall r m, m_flate m = false -> w_close_sent (m_s m) = false -> m_opc m = 0 ->
  let s' := mw_close keys dz cfg (fold_left (mw_write keys dz cfg) r m) in
  w_wire s' = w_wire (m_s m) ++ enc_rest c (frags_from keys c (w_nkey (m_s m)) (r ++ [[]]))
  /\ w_nkey s' = nxk c (w_nkey (m_s m)) (S (length r)) /\ w_close_sent s' = false.
Proof.
  induction r as [|b r IH]; intros m Hf Hcs Ho; cbv zeta.
  - cbn [fold_left app frags_from enc_rest is_nil length nxk].
    destruct (mw_close_plain m Hf Hcs ltac:(rewrite Ho; discriminate)) as (E1 & E2 & E3).
    rewrite E1, Ho. unfold enc_frag, mkfrag. cbn [fr_ctl fr_body fr_key map concat app length]. rewrite app_nil_r. auto.
  - cbn [fold_left].
    destruct (mw_write_plain m b Hf Hcs ltac:(rewrite Ho; discriminate)) as (E1 & E2 & E3 & E4 & E5).
    destruct (IH (mw_write keys dz cfg m b) E5 E3 E4) as (I1 & I2 & I3).
    rewrite I1, I2, E1, E2, Ho. split; [|split; [reflexivity | exact I3]].
    cbn [app frags_from enc_rest]. rewrite is_nil_frags. unfold enc_frag at 1, mkfrag at 1.
    cbn [fr_ctl fr_body fr_key map concat app]. rewrite <- app_assoc. reflexivity.
Qed.

Definition ok_typ (op : wop) : Prop :=
  match op with
  | WWrite t _ | WStream t _ => t = 1 \/ t = 2
  | WControl o _ => o = 9 \/ o = 10
  | WClose _ _ => False
  end.

Lemma enc_script_cons m ms : enc_script c (m :: ms) = enc_msg c m ++ enc_script c ms.
Proof. reflexivity. Qed.

Lemma run_wire : forall prog s pend base, Forall ok_typ prog -> w_close_sent s = false ->
  w_wire s = base ++ concat (map (enc_ctl c) pend) ->
  w_wire (fold_left (w_step keys dz cfg) prog s) =
    base ++ enc_script c (script_from keys c (w_nkey s) pend prog) ++ concat (map (enc_ctl c) (trailing keys c (w_nkey s) pend prog)).
Proof.
  induction prog as [|op prog IH]; intros s pend base Hok Hcs Hw.
  - cbn [fold_left script_from trailing enc_script map concat app]. exact Hw.
  - inversion Hok as [|? ? Hop Hok']; subst. cbn [fold_left].
    destruct op as [t p|t cs|o p|code reason]; cbn [ok_typ] in Hop; [| | |contradiction].
    + (* Write *)
      assert (Ht : t <> 8) by (destruct Hop as [-> | ->]; discriminate).
      unfold w_step at 2. rewrite Hco.
      destruct (wf_plain s true t p Hcs Ht) as (E1 & E2 & E3).
      cbn [script_from trailing]. rewrite enc_script_cons.
      rewrite (IH _ [] (base ++ enc_msg c {| sm_typ := t; sm_first := mkfrag keys pend (w_nkey s) p; sm_rest := [] |}) Hok' E3).
      * rewrite E2, <- !app_assoc. reflexivity.
      * rewrite E1, Hw. unfold enc_msg, enc_frag, mkfrag. cbn [sm_typ sm_first sm_rest fr_ctl fr_body fr_key is_nil enc_rest map concat].
        rewrite !app_nil_r, <- !app_assoc. reflexivity.
    + (* Writer; Write…; Close *)
      assert (Ht : t <> 8) by (destruct Hop as [-> | ->]; discriminate).
      unfold w_step at 2. cbn [script_from trailing]. rewrite enc_script_cons.
      destruct cs as [|b bs].
      * cbn [fold_left].
        destruct (mw_close_plain (mw_open s t) eq_refl Hcs Ht) as (E1 & E2 & E3). cbn [mw_open m_s m_opc] in E1, E2.
        rewrite (IH _ [] (base ++ enc_msg c {| sm_typ := t; sm_first := mkfrag keys pend (w_nkey s) []; sm_rest := [] |}) Hok' E3).
        -- rewrite E2, <- !app_assoc. reflexivity.
        -- rewrite E1, Hw. unfold enc_msg, enc_frag, mkfrag. cbn [sm_typ sm_first sm_rest fr_ctl fr_body fr_key is_nil enc_rest map concat length].
           rewrite !app_nil_r, <- !app_assoc. reflexivity.
      * cbn [fold_left].
        destruct (mw_write_plain (mw_open s t) b eq_refl Hcs Ht) as (E1 & E2 & E3 & E4 & E5). cbn [mw_open m_s m_opc] in E1, E2.
        destruct (stream_rest bs _ E5 E3 E4) as (I1 & I2 & I3).
        rewrite (IH _ [] (base ++ enc_msg c {| sm_typ := t; sm_first := mkfrag keys pend (w_nkey s) b;
                                               sm_rest := frags_from keys c (nx c (w_nkey s)) (bs ++ [[]]) |}) Hok' I3).
        -- rewrite I2, E2, <- !app_assoc. reflexivity.
        -- rewrite I1, E1, E2, Hw. unfold enc_msg, enc_frag at 1, mkfrag at 1. cbn [sm_typ sm_first sm_rest fr_ctl fr_body fr_key map concat].
           rewrite is_nil_frags, !app_nil_r, <- !app_assoc. reflexivity.
    + (* Ping / Pong *)
      assert (Ht : o <> 8) by (destruct Hop as [-> | ->]; discriminate).
      unfold w_step at 2.
      destruct (wf_plain s true o p Hcs Ht) as (E1 & E2 & E3).
      cbn [script_from trailing].
      rewrite (IH _ (pend ++ [mkctl keys (w_nkey s) o p]) base Hok' E3).
      * rewrite E2. reflexivity.
      * rewrite E1, Hw, map_app, concat_app. cbn [map concat]. rewrite app_nil_r, <- app_assoc. reflexivity.
Qed.
End PlainWriter.

(* ---------------- the script of a well-formed program is a well-formed script ---------------- *)
Definition is_data (op : wop) : bool := match op with WWrite _ _ | WStream _ _ => true | _ => false end.
Definition count_data (prog : list wop) : nat := length (filter is_data prog).
Definition delivered (prog : list wop) : list obs :=
  flat_map (fun op => match op with WWrite t p => [ObReader (inl t); ObMsg p None]
                                  | WStream t cs => [ObReader (inl t); ObMsg (concat cs) None] | _ => [] end) prog.
Definition pongs_due (prog : list wop) : list reply :=
  flat_map (fun op => match op with WControl o p => if o =? 9 then [RpPong p] else [] | _ => [] end) prog.
Definition pong_notes (prog : list wop) : list bytes :=
  flat_map (fun op => match op with WControl o p => if o =? 10 then [p] else [] | _ => [] end) prog.
Definition ends_with_data (prog : list wop) : Prop := forall pre o p, prog <> pre ++ [WControl o p].

Section ScriptFacts.
Variable keys : nat -> key.
Variable c : bool.
Hypothesis keys_wf : forall i, wf_key (keys i).

Lemma frags_wf : forall bs n, Forall wf_payload bs -> Forall wf_frag (frags_from keys c n bs).
Proof. induction bs as [|b bs IH]; intros n Hb; cbn [frags_from]; [constructor|].
  inversion Hb as [|? ? (Hw & Hs) Hb']; subst. constructor; [|apply IH; exact Hb'].
  unfold wf_frag, mkfrag. cbn [fr_ctl fr_body fr_key]. repeat split; auto. Qed.

Lemma frags_body : forall bs n, map fr_body (frags_from keys c n bs) = bs.
Proof. induction bs as [|b bs IH]; intro n; cbn [frags_from map]; [reflexivity|]. rewrite IH. reflexivity. Qed.

Lemma frags_ctl : forall bs n, concat (map fr_ctl (frags_from keys c n bs)) = [].
Proof. induction bs as [|b bs IH]; intro n; cbn [frags_from map concat]; [reflexivity|]. rewrite IH. reflexivity. Qed.

Lemma mkfrag_wf pend n b : Forall wf_ctl pend -> wf_payload b -> wf_frag (mkfrag keys pend n b).
Proof. intros Hp (Hw & Hs). unfold wf_frag, mkfrag. cbn [fr_ctl fr_body fr_key]. repeat split; auto. Qed.

Lemma ok_typ_of op : wf_dc_op op -> ok_typ op.
Proof. destruct op; cbn [wf_dc_op wf_op ok_typ]; tauto. Qed.

Lemma script_wf : forall prog n pend, Forall wf_dc_op prog -> Forall wf_ctl pend -> Forall wf_smsg (script_from keys c n pend prog).
Proof.
  induction prog as [|op prog IH]; intros n pend Hp Hpend; cbn [script_from]; [constructor|].
  inversion Hp as [|? ? Hop Hp']; subst.
  destruct op as [t p|t cs|o p|code reason]; cbn [wf_dc_op wf_op] in Hop; [| | |contradiction].
  - destruct Hop as (Ht & Hpl). constructor; [|apply IH; auto].
    unfold wf_smsg. cbn [sm_typ sm_first sm_rest]. split; [exact Ht|]. split; [apply mkfrag_wf; auto | constructor].
  - destruct Hop as (Ht & Hcs). constructor; [|apply IH; auto].
    destruct cs as [|b bs]; unfold wf_smsg; cbn [sm_typ sm_first sm_rest]; (split; [exact Ht|]).
    + split; [apply mkfrag_wf; auto; apply nil_payload | constructor].
    + inversion Hcs as [|? ? Hb Hbs]; subst. split; [apply mkfrag_wf; auto|].
      apply frags_wf. apply Forall_app. split; [exact Hbs|]. constructor; [apply nil_payload | constructor].
  - destruct Hop as (Ho & Hw & Hl). apply IH; [exact Hp'|]. apply Forall_app. split; [exact Hpend|].
    constructor; [|constructor]. unfold wf_ctl, mkctl. cbn [c_opc c_payload c_key]. auto.
Qed.

Lemma script_len : forall prog n pend, Forall wf_dc_op prog -> length (script_from keys c n pend prog) = count_data prog.
Proof. unfold count_data.
  induction prog as [|op prog IH]; intros n pend Hp; cbn [script_from]; [reflexivity|].
  inversion Hp as [|? ? Hop Hp']; subst.
  destruct op as [t p|t cs|o p|code reason]; cbn [filter is_data length]; rewrite IH by exact Hp'; reflexivity. Qed.

Lemma script_obs : forall prog n pend, Forall wf_dc_op prog -> expected_obs (script_from keys c n pend prog) = delivered prog.
Proof. unfold expected_obs, delivered.
  induction prog as [|op prog IH]; intros n pend Hp; cbn [script_from]; [reflexivity|].
  inversion Hp as [|? ? Hop Hp']; subst.
  destruct op as [t p|t cs|o p|code reason]; cbn [flat_map]; try (rewrite IH by exact Hp').
  - unfold sm_payload. cbn [sm_typ sm_first sm_rest mkfrag fr_body map concat]. rewrite app_nil_r. reflexivity.
  - destruct cs as [|b bs]; unfold sm_payload; cbn [sm_typ sm_first sm_rest mkfrag fr_body map concat app]; [reflexivity|].
    rewrite frags_body, concat_app. cbn [concat app]. rewrite app_nil_r. reflexivity.
  - reflexivity.
  - cbn [wf_dc_op] in Hop. contradiction. Qed.

Lemma script_pw : forall prog n pend, Forall wf_dc_op prog ->
  pw (flat_map sm_ctls (script_from keys c n pend prog)) ++ pw (trailing keys c n pend prog) = pw pend ++ pongs_due prog.
Proof. unfold pongs_due.
  induction prog as [|op prog IH]; intros n pend Hp; cbn [script_from trailing]; [cbn [flat_map pw app]; rewrite app_nil_r; reflexivity|].
  inversion Hp as [|? ? Hop Hp']; subst.
  destruct op as [t p|t cs|o p|code reason]; cbn [flat_map].
  - rewrite pw_app, <- app_assoc, IH by exact Hp'. unfold sm_ctls. cbn [sm_first sm_rest mkfrag fr_ctl map concat app]. rewrite app_nil_r. reflexivity.
  - rewrite pw_app, <- app_assoc, IH by exact Hp'. destruct cs as [|b bs]; unfold sm_ctls; cbn [sm_first sm_rest mkfrag fr_ctl map concat app].
    + rewrite app_nil_r. reflexivity.
    + rewrite frags_ctl, app_nil_r. reflexivity.
  - rewrite IH by exact Hp'. rewrite pw_app, <- app_assoc. cbn [pw flat_map mkctl c_opc c_payload app]. rewrite app_nil_r. reflexivity.
  - cbn [wf_dc_op] in Hop. contradiction. Qed.

Lemma script_pn : forall prog n pend, Forall wf_dc_op prog ->
  pn (flat_map sm_ctls (script_from keys c n pend prog)) ++ pn (trailing keys c n pend prog) = pn pend ++ pong_notes prog.
Proof. unfold pong_notes.
  induction prog as [|op prog IH]; intros n pend Hp; cbn [script_from trailing]; [cbn [flat_map pn app]; rewrite app_nil_r; reflexivity|].
  inversion Hp as [|? ? Hop Hp']; subst.
  destruct op as [t p|t cs|o p|code reason]; cbn [flat_map].
  - rewrite pn_app, <- app_assoc, IH by exact Hp'. unfold sm_ctls. cbn [sm_first sm_rest mkfrag fr_ctl map concat app]. rewrite app_nil_r. reflexivity.
  - rewrite pn_app, <- app_assoc, IH by exact Hp'. destruct cs as [|b bs]; unfold sm_ctls; cbn [sm_first sm_rest mkfrag fr_ctl map concat app].
    + rewrite app_nil_r. reflexivity.
    + rewrite frags_ctl, app_nil_r. reflexivity.
  - rewrite IH by exact Hp'. rewrite pn_app, <- app_assoc. cbn [pn flat_map mkctl c_opc c_payload app]. rewrite app_nil_r. reflexivity.
  - cbn [wf_dc_op] in Hop. contradiction. Qed.

Lemma trailing_spec : forall prog n pend, Forall wf_dc_op prog ->
  trailing keys c n pend prog = [] \/ prog = [] \/ exists pre o p, prog = pre ++ [WControl o p].
Proof.
  induction prog as [|op prog IH]; intros n pend Hp; [right; left; reflexivity|].
  inversion Hp as [|? ? Hop Hp']; subst.
  destruct op as [t p|t cs|o p|code reason]; cbn [trailing].
  - destruct (IH (nx c n) [] Hp') as [E|[E|(pre & o & q & E)]]; [left; exact E | subst; left; reflexivity |].
    right; right. exists (WWrite t p :: pre), o, q. rewrite E. reflexivity.
  - destruct (IH (nxk c n (S (length cs))) [] Hp') as [E|[E|(pre & o & q & E)]]; [left; exact E | subst; left; reflexivity |].
    right; right. exists (WStream t cs :: pre), o, q. rewrite E. reflexivity.
  - destruct (IH (nx c n) (pend ++ [mkctl keys n o p]) Hp') as [E|[E|(pre & o' & q & E)]]; [left; exact E | |].
    + subst. right; right. exists [], o, p. reflexivity.
    + right; right. exists (WControl o p :: pre), o', q. rewrite E. reflexivity.
  - cbn [wf_dc_op] in Hop. contradiction. Qed.

Lemma trailing_nil prog : Forall wf_dc_op prog -> ends_with_data prog -> trailing keys c 0 [] prog = [].
Proof. intros Hp He. destruct (trailing_spec prog 0%nat [] Hp) as [E|[E|(pre & o & p & E)]]; [exact E | subst; reflexivity |].
  exfalso. exact (He pre o p E). Qed.
End ScriptFacts.

(* ---------------- the wire of an uncompressed writer is the encoding of its script ---------------- *)
Lemma writer_wire_is_script keys dz (r : role) thr0 prog :
  Forall wf_dc_op prog -> ends_with_data prog ->
  w_wire (w_run keys dz {| wc_role := r; wc_co := None; wc_thr0 := thr0 |} prog)
    = enc_script (role_eqb (peer r) Server) (script_of keys r prog).
Proof. intros Hp He. unfold w_run, script_of.
  set (cfg := {| wc_role := r; wc_co := None; wc_thr0 := thr0 |}).
  assert (Hok : Forall (ok_typ) prog) by (eapply Forall_impl; [|exact Hp]; intros; apply ok_typ_of; assumption).
  rewrite (run_wire keys dz cfg eq_refl prog w_init [] [] Hok eq_refl eq_refl).
  cbn [w_init w_nkey app wc_role cfg]. rewrite trailing_nil by assumption. cbn [map concat]. rewrite app_nil_r.
  destruct r; reflexivity. Qed.

(* GOAL B, with Ping / Pong operations between the messages *)
Theorem roundtrip_uncompressed_ctl : forall keys dz (r : role) thr0 prog sizes inflate e,
  (forall i, wf_key (keys i)) -> Forall wf_dc_op prog -> ends_with_data prog ->
  length sizes = count_data prog -> Forall (fun n => 0 < n)%nat sizes ->
  let wcfg := {| wc_role := r; wc_co := None; wc_thr0 := thr0 |} in
  let rcfg := {| rc_role := peer r; rc_co := None |} in
  let res := run rcfg inflate (-1)%Z (w_wire (w_run keys dz wcfg prog)) e (read_ops sizes) in
  fst res = delivered prog /\
  r_replies (snd res) = pongs_due prog /\          (* one Pong per Ping, same payload, in order *)
  r_pongs (snd res) = pong_notes prog /\           (* every Pong noted *)
  r_inq (snd res) = [] /\ r_closed (snd res) = false.
Proof.
  intros keys dz r thr0 prog sizes inflate e Hk Hp He Hl Hpos wcfg rcfg res. subst res wcfg.
  rewrite writer_wire_is_script by assumption.
  unfold script_of. set (c := role_eqb r Client).
  pose proof (script_wf keys c Hk prog 0%nat [] Hp (Forall_nil _)) as Hw.
  pose proof (script_len keys c prog 0%nat [] Hp) as Hlen.
  destruct (reader_valid_stream rcfg inflate (script_from keys c 0 [] prog) sizes e Hw ltac:(congruence) Hpos) as (R1 & R2 & R3 & R4 & R5).
  cbn [rc_role rcfg] in R1, R2, R3, R4, R5.
  split; [rewrite R1; apply script_obs; exact Hp|].
  split; [|split; [|split; assumption]].
  - rewrite R2. pose proof (script_pw keys c prog 0%nat [] Hp) as E. rewrite trailing_nil in E by assumption.
    cbn [pw flat_map app] in E. rewrite app_nil_r in E. exact E.
  - rewrite R3. pose proof (script_pn keys c prog 0%nat [] Hp) as E. rewrite trailing_nil in E by assumption.
    cbn [pn flat_map app] in E. rewrite app_nil_r in E. exact E.
Qed.
Print Assumptions roundtrip_uncompressed_ctl.

Lemma data_dc op : wf_data_op op -> wf_dc_op op.
Proof. destruct op; cbn [wf_data_op wf_dc_op wf_op]; tauto. Qed.

(* GOAL B as stated: data operations only *)
Theorem roundtrip_uncompressed : forall keys dz (r : role) thr0 prog sizes inflate e,
  (forall i, wf_key (keys i)) -> Forall wf_data_op prog ->
  length sizes = length prog -> Forall (fun n => 0 < n)%nat sizes ->
  let wcfg := {| wc_role := r; wc_co := None; wc_thr0 := thr0 |} in
  let rcfg := {| rc_role := peer r; rc_co := None |} in
  fst (run rcfg inflate (-1)%Z (w_wire (w_run keys dz wcfg prog)) e (read_ops sizes))
    = flat_map (fun op => match op with WWrite t p => [ObReader (inl t); ObMsg p None]
                                       | WStream t cs => [ObReader (inl t); ObMsg (concat cs) None] | _ => [] end) prog.
Proof.
  intros keys dz r thr0 prog sizes inflate e Hk Hp Hl Hpos wcfg rcfg.
  assert (Hdc : Forall wf_dc_op prog) by (eapply Forall_impl; [|exact Hp]; intros; apply data_dc; assumption).
  assert (He : ends_with_data prog).
  { intros pre o p E. subst prog. apply Forall_app in Hp. destruct Hp as (_ & Hp). inversion Hp as [|? ? F _]; subst. exact F. }
  assert (Hc : count_data prog = length prog).
  { unfold count_data. clear - Hp. induction Hp as [|op l Hop _ IH]; [reflexivity|].
    destruct op; cbn [wf_data_op] in Hop; try contradiction; cbn [filter is_data length]; rewrite IH; reflexivity. }
  destruct (roundtrip_uncompressed_ctl keys dz r thr0 prog sizes inflate e Hk Hdc He ltac:(congruence) Hpos) as (R & _).
  exact R. Qed.
Print Assumptions roundtrip_uncompressed.

(* ====================================================================================================== *)
(* Part A — the frames written reassemble (RFC 6455 §5.4, specification decoder) to the messages written   *)
(* ====================================================================================================== *)

Definition first_chunk_len (cs : list bytes) : nat := match cs with c :: _ => length c | [] => 0%nat end.
Definition op_compressed (cfg : wcfg) (cs : list bytes) : bool :=
  match wc_co cfg, cs with Some _, _ :: _ => wc_thr cfg <=? N.of_nat (first_chunk_len cs) | _, _ => false end.

(* every byte the compressor hands downstream for the operations [ops], performed after the operations [hist] *)
Fixpoint dz_run (dz : list dzop -> list bytes) (hist ops : list dzop) : bytes :=
  match ops with [] => [] | o :: r => concat (dz (hist ++ [o])) ++ dz_run dz (hist ++ [o]) r end.
(* RFC 7692 §7.2.1: drop the last four bytes (00 00 ff ff for a conformant compressor) *)
Definition trim4 (e : bytes) : bytes := firstn (length e - 4) e.

(* the event one message contributes and the compressor history it leaves behind *)
Definition msg_event (cfg : wcfg) (dz : list dzop -> list bytes) (hist : list dzop) (typ : N) (cs : list bytes) : ev * list dzop :=
  if op_compressed cfg cs then
    let ops := map DWrite cs ++ [DFlush] in
    (EvMsg typ true (trim4 (dz_run dz hist ops)), if wc_takeover cfg then hist ++ ops else [])
  else (EvMsg typ false (concat cs), hist).

(* closed = a Close frame has been written: data operations and further Closes are refused, Ping/Pong still go out *)
Fixpoint events_from (cfg : wcfg) (dz : list dzop -> list bytes) (closed : bool) (hist : list dzop) (prog : list wop) : list ev :=
  match prog with
  | [] => []
  | WWrite typ p :: r =>
      if closed then events_from cfg dz closed hist r else
      let '(e, h') := msg_event cfg dz hist typ [p] in e :: events_from cfg dz closed h' r
  | WStream typ cs :: r =>
      if closed then events_from cfg dz closed hist r else
      let '(e, h') := msg_event cfg dz hist typ cs in e :: events_from cfg dz closed h' r
  | WControl opc p :: r => EvCtl opc p :: events_from cfg dz closed hist r
  | WClose code reason :: r =>
      match close_payload code reason with
      | Some p => if closed then events_from cfg dz closed hist r else EvCtl 8 p :: events_from cfg dz true hist r
      | None => events_from cfg dz closed hist r
      end
  end.
Definition expected_events (cfg : wcfg) (dz : list dzop -> list bytes) (prog : list wop) : list ev := events_from cfg dz false [] prog.

(* message types are text / binary, control operations are Ping / Pong (Close has its own operation) *)
Definition ok_op (op : wop) : Prop :=
  match op with
  | WWrite t _ | WStream t _ => t = 1 \/ t = 2
  | WControl o _ => o = 9 \/ o = 10
  | WClose _ _ => True
  end.

Lemma reassemble_app : forall a b cur, reassemble cur (a ++ b) =
  let '(e1, c1) := reassemble cur a in let '(e2, c2) := reassemble c1 b in (e1 ++ e2, c2).
Proof.
  induction a as [|f a IH]; intros b cur.
  - cbn [app reassemble]. destruct (reassemble cur b). reflexivity.
  - cbn [app reassemble]. destruct (is_control (h_opc (pf_hdr f))).
    + rewrite IH. destruct (reassemble cur a) as [e1 c1]. destruct (reassemble c1 b) as [e2 c2]. reflexivity.
    + destruct (h_fin (pf_hdr f)).
      * destruct cur as [[[t z] acc]|]; rewrite IH; destruct (reassemble None a) as [e1 c1]; destruct (reassemble c1 b) as [e2 c2]; reflexivity.
      * apply IH.
Qed.

Lemma re_snoc fs evs cur f : reassemble None (map to_pf fs) = (evs, cur) ->
  reassemble None (map to_pf (fs ++ [f])) = let '(e2, c2) := reassemble cur [to_pf f] in (evs ++ e2, c2).
Proof. intro H. rewrite map_app, reassemble_app, H. reflexivity. Qed.

Lemma re_one_data cur fin z opc msk k pl p : is_control opc = false ->
  reassemble cur [to_pf ({| h_fin := fin; h_rsv1 := z; h_rsv2 := false; h_rsv3 := false; h_opc := opc; h_masked := msk; h_key := k; h_plen := pl |}, p)]
  = let cur1 := match cur with None => (opc, z, p) | Some (t, zz, a) => (t, zz, a ++ p) end in
    if fin then let '(t, zz, a) := cur1 in ([EvMsg t zz a], None) else ([], Some cur1).
Proof. intro Hc. cbn [reassemble to_pf pf_hdr pf_payload fst snd h_opc h_fin h_rsv1]. rewrite Hc.
  destruct fin; [|reflexivity]. destruct cur as [[[t zz] a]|]; reflexivity. Qed.

Lemma re_one_ctl cur fin z opc msk k pl p : is_control opc = true ->
  reassemble cur [to_pf ({| h_fin := fin; h_rsv1 := z; h_rsv2 := false; h_rsv3 := false; h_opc := opc; h_masked := msk; h_key := k; h_plen := pl |}, p)]
  = ([EvCtl opc p], cur).
Proof. intro Hc. cbn [reassemble to_pf pf_hdr pf_payload fst snd h_opc h_fin h_rsv1]. rewrite Hc. reflexivity. Qed.

Lemma trim4_spec (acc t : bytes) : length t = Nat.min 4 (length (acc ++ t)) -> trim4 (acc ++ t) = acc.
Proof. intro H. unfold trim4. rewrite app_length in *.
  replace (length acc + length t - 4)%nat with (length acc) by lia.
  rewrite firstn_app, Nat.sub_diag, firstn_all. cbn [firstn]. apply app_nil_r. Qed.

Lemma dz_run_app dz : forall a b h, dz_run dz h (a ++ b) = dz_run dz h a ++ dz_run dz (h ++ a) b.
Proof. induction a as [|o a IH]; intros b h; cbn [app dz_run].
  - rewrite app_nil_r. reflexivity.
  - rewrite IH, <- !app_assoc. reflexivity. Qed.

Section Events.
Variable keys : nat -> key.
Variable dz : list dzop -> list bytes.
Variable cfg : wcfg.

Local Notation pf s := (map to_pf (w_out s)).

(* ---------------- between messages ---------------- *)
Definition St (s : wst) (evs : list ev) (closed : bool) (h : list dzop) : Prop :=
  w_close_sent s = closed /\ reassemble None (pf s) = (evs, None) /\ (closed = false -> w_hist s = h).

(* ---------------- inside a message, connection open ---------------- *)
Definition G (m : mw) (typ : N) (evs : list ev) (acc : bytes) (h : list dzop) : Prop :=
  w_close_sent (m_s m) = false /\ w_hist (m_s m) = h /\
  reassemble None (pf (m_s m)) = (evs, if m_opc m =? 0 then Some (typ, m_flate m, acc) else None) /\
  (m_opc m = 0 \/ (m_opc m = typ /\ acc = [])) /\ (typ = 1 \/ typ = 2).

Lemma G_ext m m' typ evs acc h : m_s m' = m_s m -> m_opc m' = m_opc m -> m_flate m' = m_flate m ->
  G m typ evs acc h -> G m' typ evs acc h.
Proof. unfold G. intros -> -> ->. auto. Qed.

Lemma typ_facts typ : typ = 1 \/ typ = 2 ->
  (typ =? 0) = false /\ (typ =? 8) = false /\ is_control typ = false /\ is_data_first typ = true /\ negb ((typ =? 9) || (typ =? 10)) = true.
Proof. intros [-> | ->]; repeat split. Qed.

Lemma G_opc m typ evs acc h : G m typ evs acc h ->
  (m_opc m =? 8) = false /\ is_control (m_opc m) = false /\ negb ((m_opc m =? 9) || (m_opc m =? 10)) = true.
Proof. intros (_ & _ & _ & Ho & Ht). destruct (typ_facts typ Ht) as (_ & T8 & Tc & _ & Tn).
  destruct Ho as [-> | (-> & _)]; auto. Qed.

Lemma G_frame m typ evs acc h p : G m typ evs acc h -> G (mw_frame keys cfg m p) typ evs (acc ++ p) h.
Proof.
  intro HG. destruct (G_opc _ _ _ _ _ HG) as (O8 & Oc & _). destruct HG as (Hcs & Hh & Hr & Ho & Ht).
  destruct (typ_facts typ Ht) as (T0 & _ & _ & Td & _).
  unfold G, mw_frame. cbn [m_s m_opc m_flate]. unfold write_frame. rewrite Hcs. cbn [andb].
  cbn [write_frame_raw w_close_sent w_hist w_out]. rewrite Hcs, O8.
  split; [reflexivity|]. split; [exact Hh|]. split; [|split; [left; reflexivity | exact Ht]].
  rewrite (re_snoc _ _ _ _ Hr), (re_one_data _ _ _ _ _ _ _ _ Oc). cbv zeta iota. rewrite app_nil_r.
  change (0 =? 0) with true. cbv iota.
  destruct Ho as [E | (E & Ea)]; rewrite E.
  - change (0 =? 0) with true. cbv iota. reflexivity.
  - rewrite T0, Td, Bool.andb_true_r, Ea. reflexivity.
Qed.

Lemma fold_frame_proj : forall outs m,
  m_flate (fold_left (mw_frame keys cfg) outs m) = m_flate m /\ m_tail (fold_left (mw_frame keys cfg) outs m) = m_tail m
  /\ m_hist (fold_left (mw_frame keys cfg) outs m) = m_hist m.
Proof. induction outs as [|o outs IH]; intro m; cbn [fold_left]; [auto|]. destruct (IH (mw_frame keys cfg m o)) as (A & B & C).
  rewrite A, B, C. auto. Qed.

Lemma G_frames typ evs h : forall outs m acc, G m typ evs acc h -> G (fold_left (mw_frame keys cfg) outs m) typ evs (acc ++ concat outs) h.
Proof. induction outs as [|o outs IH]; intros m acc HG; cbn [fold_left concat].
  - rewrite app_nil_r. exact HG.
  - rewrite app_assoc. apply IH. apply G_frame. exact HG. Qed.

Lemma G_trim m typ evs acc h p : G m typ evs acc h -> (length (m_tail m) <= 4)%nat ->
  let m' := trim_write keys cfg m p in
  exists acc', G m' typ evs acc' h /\ acc' ++ m_tail m' = acc ++ m_tail m ++ p /\
    length (m_tail m') = Nat.min 4 (length (m_tail m) + length p) /\ m_flate m' = m_flate m /\ m_hist m' = m_hist m.
Proof.
  intros HG Ht. cbv zeta. rewrite trim_write_as_step.
  pose proof (trim_step_spec (m_tail m) p Ht) as Sp. destruct (trim_step (m_tail m) p) as [outs t']. destruct Sp as (E & L & _).
  cbv zeta. destruct (fold_frame_proj outs m) as (F1 & F2 & F3).
  exists (acc ++ concat outs). cbn [m_tail m_flate m_hist].
  split; [eapply G_ext; [| | | apply (G_frames typ evs h outs m acc HG)]; reflexivity|].
  split; [rewrite <- app_assoc, E; reflexivity|]. split; [exact L|]. split; assumption.
Qed.

Lemma G_trims typ evs h : forall cs m acc, G m typ evs acc h -> (length (m_tail m) <= 4)%nat ->
  let m' := fold_left (trim_write keys cfg) cs m in
  exists acc', G m' typ evs acc' h /\ acc' ++ m_tail m' = acc ++ m_tail m ++ concat cs /\
    length (m_tail m') = Nat.min 4 (length (m_tail m) + length (concat cs)) /\ m_flate m' = m_flate m /\ m_hist m' = m_hist m.
Proof.
  induction cs as [|a cs IH]; intros m acc HG Ht; cbv zeta; cbn [fold_left concat].
  - exists acc. rewrite app_nil_r. cbn [length]. split; [exact HG|]. split; [reflexivity|]. split; [lia|]. auto.
  - destruct (G_trim m typ evs acc h a HG Ht) as (acc1 & G1 & E1 & L1 & F1 & H1).
    destruct (IH (trim_write keys cfg m a) acc1 G1 ltac:(lia)) as (acc2 & G2 & E2 & L2 & F2 & H2).
    exists acc2. split; [exact G2|]. split; [|split; [|split; congruence]].
    + rewrite E2, app_assoc, E1, <- !app_assoc. reflexivity.
    + rewrite L2, L1, app_length. lia.
Qed.

Lemma G_dz m typ evs acc h op : G m typ evs acc h -> (length (m_tail m) <= 4)%nat ->
  let m' := mw_dz keys dz cfg m op in
  exists acc', G m' typ evs acc' h /\ acc' ++ m_tail m' = acc ++ m_tail m ++ concat (dz (m_hist m ++ [op])) /\
    length (m_tail m') = Nat.min 4 (length (m_tail m) + length (concat (dz (m_hist m ++ [op])))) /\
    m_flate m' = m_flate m /\ m_hist m' = m_hist m ++ [op].
Proof.
  intros HG Ht. cbv zeta. unfold mw_dz. cbv zeta.
  set (m0 := {| m_s := m_s m; m_opc := m_opc m; m_flate := m_flate m; m_tail := m_tail m; m_hist := m_hist m ++ [op] |}).
  assert (G0 : G m0 typ evs acc h) by (eapply G_ext; [| | |exact HG]; reflexivity).
  destruct (G_trims typ evs h (dz (m_hist m ++ [op])) m0 acc G0 Ht) as (acc' & G' & E' & L' & F' & H').
  exists acc'. auto.
Qed.

(* a compressed message in progress: E = every byte the compressor has emitted for it, hz = the compressor's history *)
Definition Zs (m : mw) (typ : N) (evs : list ev) (h : list dzop) (E : bytes) (hz : list dzop) : Prop :=
  exists acc, G m typ evs acc h /\ m_flate m = true /\ acc ++ m_tail m = E /\ length (m_tail m) = Nat.min 4 (length E) /\ m_hist m = hz.

Lemma Zs_dz m typ evs h E hz op : Zs m typ evs h E hz ->
  Zs (mw_dz keys dz cfg m op) typ evs h (E ++ concat (dz (hz ++ [op]))) (hz ++ [op]).
Proof.
  intros (acc & HG & Hf & HE & HL & HH).
  destruct (G_dz m typ evs acc h op HG ltac:(lia)) as (acc' & G' & E' & L' & F' & H').
  exists acc'. split; [exact G'|]. split; [congruence|]. split; [|split].
  - rewrite E', HH, <- HE, <- app_assoc. reflexivity.
  - rewrite L', HL, HH, app_length. lia.
  - rewrite H', HH. reflexivity.
Qed.

Lemma mw_write_on m p : m_flate m = true ->
  mw_write keys dz cfg m p = mw_dz keys dz cfg {| m_s := m_s m; m_opc := m_opc m; m_flate := true; m_tail := m_tail m; m_hist := m_hist m |} (DWrite p).
Proof. intro Hf. unfold mw_write. rewrite Hf. destruct (wc_co cfg); reflexivity. Qed.

Lemma Zs_eta m typ evs h E hz : Zs m typ evs h E hz ->
  Zs {| m_s := m_s m; m_opc := m_opc m; m_flate := true; m_tail := m_tail m; m_hist := m_hist m |} typ evs h E hz.
Proof. intros (acc & HG & Hf & HE & HL & HH). exists acc. cbn [m_flate m_tail m_hist].
  split; [eapply G_ext; [| | |exact HG]; [reflexivity|reflexivity|cbn [m_flate]; congruence]|]. auto. Qed.

Lemma Zs_fold typ evs h : forall cs m E hz, Zs m typ evs h E hz ->
  Zs (fold_left (mw_write keys dz cfg) cs m) typ evs h (E ++ dz_run dz hz (map DWrite cs)) (hz ++ map DWrite cs).
Proof.
  induction cs as [|a cs IH]; intros m E hz HZ; cbn [fold_left map dz_run].
  - rewrite !app_nil_r. exact HZ.
  - assert (Hf : m_flate m = true) by (destruct HZ as (? & _ & Hf & _); exact Hf).
    rewrite (mw_write_on m a Hf).
    pose proof (IH _ _ _ (Zs_dz _ typ evs h E hz (DWrite a) (Zs_eta _ _ _ _ _ _ HZ))) as R.
    rewrite <- !app_assoc in R. exact R.
Qed.

(* the final frame of a message *)
Lemma G_final m typ evs acc h : G m typ evs acc h ->
  let s' := write_frame keys cfg (m_s m) true (m_flate m) (m_opc m) [] in
  w_close_sent s' = false /\ w_hist s' = h /\ reassemble None (pf s') = (evs ++ [EvMsg typ (m_flate m) acc], None).
Proof.
  intro HG. destruct (G_opc _ _ _ _ _ HG) as (O8 & Oc & _). destruct HG as (Hcs & Hh & Hr & Ho & Ht).
  destruct (typ_facts typ Ht) as (T0 & _ & _ & Td & _).
  cbv zeta. unfold write_frame. rewrite Hcs. cbn [andb].
  cbn [write_frame_raw w_close_sent w_hist w_out]. rewrite Hcs, O8.
  split; [reflexivity|]. split; [exact Hh|].
  rewrite (re_snoc _ _ _ _ Hr), (re_one_data _ _ _ _ _ _ _ _ Oc). cbv zeta iota.
  destruct Ho as [E | (E & Ea)]; rewrite E.
  - change (0 =? 0) with true. cbv iota. rewrite app_nil_r. reflexivity.
  - rewrite T0, Td, Bool.andb_true_r, Ea. reflexivity.
Qed.

Lemma G_close_off m typ evs acc h : G m typ evs acc h -> m_flate m = false ->
  St (mw_close keys dz cfg m) (evs ++ [EvMsg typ false acc]) false h.
Proof.
  intros HG Hf. destruct (G_final m typ evs acc h HG) as (A & B & C). rewrite Hf in A, B, C.
  unfold mw_close. cbv zeta. rewrite Hf. cbv iota. rewrite Hf. cbv iota. unfold St. cbn [w_close_sent w_out w_hist]. auto. Qed.

Lemma Zs_close m typ evs h E hz : Zs m typ evs h E hz ->
  St (mw_close keys dz cfg m) (evs ++ [EvMsg typ true (trim4 (E ++ dz_run dz hz [DFlush]))]) false (if wc_takeover cfg then hz ++ [DFlush] else []).
Proof.
  intro HZ. assert (Hf : m_flate m = true) by (destruct HZ as (? & _ & Hf & _); exact Hf).
  destruct (Zs_dz m typ evs h E hz DFlush HZ) as (acc & HG & Hf1 & HE & HL & HH).
  destruct (G_final _ typ evs acc h HG) as (A & B & C). rewrite Hf1 in A, B, C.
  unfold mw_close. cbv zeta. rewrite Hf. cbv iota. set (m1 := mw_dz keys dz cfg m DFlush) in *. rewrite Hf1. cbv iota.
  unfold St. cbn [w_close_sent w_out w_hist dz_run]. rewrite app_nil_r.
  split; [exact A|]. split; [|intros _; rewrite HH; reflexivity].
  rewrite C. rewrite <- HE. rewrite trim4_spec; [reflexivity|]. rewrite HE. exact HL.
Qed.

(* an uncompressed message in progress *)
Definition Us (m : mw) : Prop := m_flate m = false /\ (wc_co cfg = None \/ m_opc m = 0).

Lemma Us_write m p : Us m ->
  mw_write keys dz cfg m p = mw_frame keys cfg {| m_s := m_s m; m_opc := m_opc m; m_flate := false; m_tail := m_tail m; m_hist := m_hist m |} p.
Proof. intros (Hf & [Hc|Ho]); unfold mw_write; rewrite Hf.
  - rewrite Hc. reflexivity.
  - rewrite Ho. destruct (wc_co cfg); reflexivity. Qed.

Lemma GU_write m typ evs acc h p : G m typ evs acc h -> Us m -> G (mw_write keys dz cfg m p) typ evs (acc ++ p) h /\ Us (mw_write keys dz cfg m p).
Proof. intros HG HU. rewrite (Us_write m p HU). split.
  - apply G_frame. eapply G_ext; [| | |exact HG]; [reflexivity|reflexivity|]. destruct HU as (Hf & _). cbn [m_flate]. congruence.
  - split; [reflexivity|right; reflexivity]. Qed.

Lemma GU_fold typ evs h : forall cs m acc, G m typ evs acc h -> Us m ->
  G (fold_left (mw_write keys dz cfg) cs m) typ evs (acc ++ concat cs) h /\ Us (fold_left (mw_write keys dz cfg) cs m).
Proof. induction cs as [|a cs IH]; intros m acc HG HU; cbn [fold_left concat].
  - rewrite app_nil_r. auto.
  - destruct (GU_write m typ evs acc h a HG HU) as (G1 & U1). rewrite app_assoc. apply IH; assumption. Qed.

Lemma G_open s typ evs h : St s evs false h -> (typ = 1 \/ typ = 2) -> G (mw_open s typ) typ evs [] h.
Proof. intros (Hcs & Hr & Hh) Ht. destruct (typ_facts typ Ht) as (T0 & _).
  unfold G, mw_open. cbn [m_s m_opc m_flate]. rewrite T0. auto 10. Qed.

(* one whole message on an open connection *)
Lemma msg_step s typ cs evs h : St s evs false h -> (typ = 1 \/ typ = 2) ->
  let s' := mw_close keys dz cfg (fold_left (mw_write keys dz cfg) cs (mw_open s typ)) in
  St s' (evs ++ [fst (msg_event cfg dz h typ cs)]) false (snd (msg_event cfg dz h typ cs)).
Proof.
  intros HS Ht. cbv zeta. pose proof (G_open s typ evs h HS Ht) as HG.
  destruct (typ_facts typ Ht) as (T0 & _).
  unfold msg_event, op_compressed.
  destruct (wc_co cfg) as [co|] eqn:Eco.
  - destruct cs as [|c cs].
    + cbn [fold_left fst snd concat]. apply (G_close_off _ typ evs [] h HG). reflexivity.
    + cbn [first_chunk_len]. destruct (wc_thr cfg <=? N.of_nat (length c)) eqn:Ethr; cbn [fst snd].
      * (* compression starts at the first Write *)
        set (m1 := {| m_s := s; m_opc := typ; m_flate := true; m_tail := []; m_hist := w_hist s |}).
        assert (E1 : fold_left (mw_write keys dz cfg) (c :: cs) (mw_open s typ) = fold_left (mw_write keys dz cfg) (c :: cs) m1).
        { cbn [fold_left]. f_equal. unfold mw_write. cbn [mw_open m1 m_s m_opc m_flate m_tail m_hist]. rewrite Eco, T0, Ethr. reflexivity. }
        rewrite E1.
        assert (Z1 : Zs m1 typ evs h [] h).
        { exists []. destruct HS as (Hcs & Hr & Hh). split.
          - unfold G. cbn [m1 m_s m_opc m_flate]. rewrite T0. auto 10.
          - cbn [m1 m_flate m_tail m_hist app length]. rewrite (Hh eq_refl). auto. }
        pose proof (Zs_close _ typ evs h _ _ (Zs_fold typ evs h (c :: cs) m1 [] h Z1)) as R.
        cbn [app] in R. rewrite <- dz_run_app, <- app_assoc in R. exact R.
      * (* below the threshold: a plain first frame, and the rest of the message stays uncompressed *)
        assert (U0 : mw_write keys dz cfg (mw_open s typ) c = mw_frame keys cfg (mw_open s typ) c).
        { unfold mw_write. cbn [mw_open m_s m_opc m_flate m_tail m_hist]. rewrite Eco, T0, Ethr. reflexivity. }
        cbn [fold_left]. rewrite U0.
        pose proof (G_frame _ typ evs [] h c HG) as G1.
        assert (U1 : Us (mw_frame keys cfg (mw_open s typ) c)) by (split; [reflexivity | right; reflexivity]).
        destruct (GU_fold typ evs h cs _ _ G1 U1) as (G2 & (F2 & _)).
        cbn [concat app] in *. apply G_close_off; assumption.
  - cbn [fst snd].
    assert (U0 : Us (mw_open s typ)) by (split; [reflexivity | left; exact Eco]).
    destruct (GU_fold typ evs h cs _ _ HG U0) as (G2 & (F2 & _)).
    cbn [app] in G2. apply G_close_off; assumption.
Qed.

(* ---------------- inside a message after the Close frame went out: nothing is written ---------------- *)
Definition Cl (m : mw) (o : list frame) (typ : N) : Prop :=
  w_close_sent (m_s m) = true /\ w_out (m_s m) = o /\ (m_opc m = 0 \/ m_opc m = typ) /\ (typ = 1 \/ typ = 2).

Lemma Cl_ext m m' o typ : m_s m' = m_s m -> m_opc m' = m_opc m -> Cl m o typ -> Cl m' o typ.
Proof. unfold Cl. intros -> ->. auto. Qed.

Lemma Cl_refuse m o typ fin fl p : Cl m o typ -> write_frame keys cfg (m_s m) fin fl (m_opc m) p = m_s m.
Proof. intros (Hcs & Ho & Hopc & Ht). destruct (typ_facts typ Ht) as (_ & _ & _ & _ & Tn).
  unfold write_frame. rewrite Hcs. destruct Hopc as [-> | ->]; [reflexivity|]. rewrite Tn. reflexivity. Qed.

Lemma Cl_frame m o typ p : Cl m o typ -> Cl (mw_frame keys cfg m p) o typ.
Proof. intro HC. unfold mw_frame. pose proof HC as (Hcs & Ho & Hopc & Ht). unfold Cl. cbn [m_s m_opc].
  rewrite (Cl_refuse m o typ _ _ _ HC). auto. Qed.

Lemma Cl_frames o typ : forall outs m, Cl m o typ -> Cl (fold_left (mw_frame keys cfg) outs m) o typ.
Proof. induction outs as [|x outs IH]; intros m HC; cbn [fold_left]; [exact HC|]. apply IH, Cl_frame, HC. Qed.

Lemma Cl_trim m o typ p : Cl m o typ -> Cl (trim_write keys cfg m p) o typ.
Proof. intro HC. rewrite trim_write_as_step. destruct (trim_step (m_tail m) p) as [outs t']. cbv zeta.
  eapply Cl_ext; [| |apply (Cl_frames o typ outs m HC)]; reflexivity. Qed.

Lemma Cl_trims o typ : forall cs m, Cl m o typ -> Cl (fold_left (trim_write keys cfg) cs m) o typ.
Proof. induction cs as [|x cs IH]; intros m HC; cbn [fold_left]; [exact HC|]. apply IH, Cl_trim, HC. Qed.

Lemma Cl_dz m o typ op : Cl m o typ -> Cl (mw_dz keys dz cfg m op) o typ.
Proof. intro HC. unfold mw_dz. cbv zeta. apply Cl_trims. eapply Cl_ext; [| |exact HC]; reflexivity. Qed.

Lemma Cl_write m o typ p : Cl m o typ -> Cl (mw_write keys dz cfg m p) o typ.
Proof. intro HC. unfold mw_write. cbv zeta.
  destruct (match wc_co cfg with Some _ => _ | None => _ end); [apply Cl_dz | apply Cl_frame]; (eapply Cl_ext; [| |exact HC]; reflexivity). Qed.

Lemma Cl_fold o typ : forall cs m, Cl m o typ -> Cl (fold_left (mw_write keys dz cfg) cs m) o typ.
Proof. induction cs as [|x cs IH]; intros m HC; cbn [fold_left]; [exact HC|]. apply IH, Cl_write, HC. Qed.

Lemma Cl_close m o typ : Cl m o typ -> w_close_sent (mw_close keys dz cfg m) = true /\ w_out (mw_close keys dz cfg m) = o.
Proof. intro HC. unfold mw_close. cbv zeta.
  assert (HC1 : Cl (if m_flate m then mw_dz keys dz cfg m DFlush else m) o typ) by (destruct (m_flate m); [apply Cl_dz|]; exact HC).
  set (m1 := if m_flate m then mw_dz keys dz cfg m DFlush else m) in *.
  rewrite (Cl_refuse m1 o typ _ _ _ HC1). cbn [w_close_sent w_out]. destruct HC1 as (A & B & _). auto. Qed.

Lemma msg_closed s typ cs : w_close_sent s = true -> (typ = 1 \/ typ = 2) ->
  let s' := mw_close keys dz cfg (fold_left (mw_write keys dz cfg) cs (mw_open s typ)) in
  w_close_sent s' = true /\ w_out s' = w_out s.
Proof. intros Hcs Ht. cbv zeta. apply (Cl_close _ (w_out s) typ). apply Cl_fold. unfold Cl, mw_open. cbn [m_s m_opc]. auto. Qed.

(* ---------------- whole programs ---------------- *)
Lemma St_closed s evs h h' : St s evs true h -> St s evs true h'.
Proof. intros (A & B & _). split; [exact A|]. split; [exact B|]. discriminate. Qed.

Lemma ctl_step s evs closed h opc p : St s evs closed h -> (opc = 9 \/ opc = 10) ->
  St (write_frame keys cfg s true false opc p) (evs ++ [EvCtl opc p]) closed h.
Proof. intros (Hcs & Hr & Hh) Ho. unfold write_frame.
  assert (Hn : negb ((opc =? 9) || (opc =? 10)) = false) by (destruct Ho as [-> | ->]; reflexivity).
  rewrite Hn, Bool.andb_false_r. unfold St. cbn [write_frame_raw w_close_sent w_out w_hist].
  assert (H8 : (opc =? 8) = false) by (destruct Ho as [-> | ->]; reflexivity).
  rewrite H8, Bool.orb_false_r. split; [exact Hcs|]. split; [|exact Hh].
  rewrite (re_snoc _ _ _ _ Hr), re_one_ctl by (destruct Ho as [-> | ->]; reflexivity). reflexivity. Qed.

Lemma run_events : forall prog s evs closed h, Forall ok_op prog -> St s evs closed h ->
  reassemble None (pf (fold_left (w_step keys dz cfg) prog s)) = (evs ++ events_from cfg dz closed h prog, None).
Proof.
  induction prog as [|op prog IH]; intros s evs closed h Hok HS.
  - cbn [fold_left events_from]. rewrite app_nil_r. destruct HS as (_ & Hr & _). exact Hr.
  - inversion Hok as [|? ? Hop Hok']; subst. cbn [fold_left events_from].
    destruct op as [t p|t cs|o p|code reason]; cbn [ok_op] in Hop.
    + (* Write *)
      destruct closed.
      * assert (E : w_close_sent (w_step keys dz cfg s (WWrite t p)) = true /\ w_out (w_step keys dz cfg s (WWrite t p)) = w_out s).
        { destruct HS as (Hcs & _). unfold w_step. destruct (wc_co cfg).
          - apply (msg_closed s t [p] Hcs Hop).
          - unfold write_frame. rewrite Hcs. destruct (typ_facts t Hop) as (_ & _ & _ & _ & Tn). rewrite Tn. auto. }
        destruct E as (E1 & E2). apply IH; [exact Hok'|]. destruct HS as (_ & Hr & _).
        split; [exact E1|]. split; [rewrite E2; exact Hr | discriminate].
      * assert (E : St (w_step keys dz cfg s (WWrite t p)) (evs ++ [fst (msg_event cfg dz h t [p])]) false (snd (msg_event cfg dz h t [p]))).
        { unfold w_step. destruct (wc_co cfg) eqn:Eco.
          - apply (msg_step s t [p] evs h HS Hop).
          - unfold msg_event, op_compressed. rewrite Eco. cbn [fst snd concat]. rewrite app_nil_r.
            destruct (typ_facts t Hop) as (T0 & T8 & Tc & Td & Tn). destruct HS as (Hcs & Hr & Hh).
            unfold write_frame. rewrite Hcs. cbn [andb]. unfold St. cbn [write_frame_raw w_close_sent w_out w_hist].
            rewrite Hcs, T8. split; [reflexivity|]. split; [|exact Hh].
            rewrite (re_snoc _ _ _ _ Hr), (re_one_data _ _ _ _ _ _ _ _ Tc). reflexivity. }
        destruct (msg_event cfg dz h t [p]) as [e h']. cbn [fst snd] in E.
        rewrite (IH _ _ _ _ Hok' E), <- app_assoc. reflexivity.
    + (* Writer *)
      destruct closed.
      * destruct HS as (Hcs & Hr & _). destruct (msg_closed s t cs Hcs Hop) as (E1 & E2).
        apply IH; [exact Hok'|]. split; [exact E1|]. split; [unfold w_step; rewrite E2; exact Hr | discriminate].
      * pose proof (msg_step s t cs evs h HS Hop) as E.
        destruct (msg_event cfg dz h t cs) as [e h']. cbn [fst snd] in E.
        unfold w_step at 2. rewrite (IH _ _ _ _ Hok' E), <- app_assoc. reflexivity.
    + (* Ping / Pong *)
      unfold w_step at 2. rewrite (IH _ _ _ _ Hok' (ctl_step s evs closed h o p HS Hop)), <- app_assoc. reflexivity.
    + (* Close *)
      unfold w_step at 2. destruct (close_payload code reason) as [p|]; [|apply IH; assumption].
      destruct closed.
      * apply IH; [exact Hok'|]. destruct HS as (Hcs & Hr & Hh). unfold write_frame. rewrite Hcs. cbn [andb negb orb N.eqb Pos.eqb].
        split; [exact Hcs|]. split; [exact Hr|exact Hh].
      * assert (E : St (write_frame keys cfg s true false 8 p) (evs ++ [EvCtl 8 p]) true h).
        { destruct HS as (Hcs & Hr & Hh). unfold write_frame. rewrite Hcs. cbn [andb]. unfold St. cbn [write_frame_raw w_close_sent w_out w_hist].
          rewrite Hcs. split; [reflexivity|]. split; [|discriminate].
          rewrite (re_snoc _ _ _ _ Hr), re_one_ctl by reflexivity. reflexivity. }
        rewrite (IH _ _ _ _ Hok' E), <- app_assoc. reflexivity.
Qed.
End Events.

(* GOAL A: for every program of Write / Writer / Ping / Pong / Close operations, every role, option set, threshold,
   key supply and every behaviour of the compressor, the specification decoder reassembles from the frames written
   exactly the events the program amounts to, and no message is left open *)
Theorem writer_events : forall keys dz cfg prog, Forall ok_op prog ->
  ref_events (map to_pf (w_out (w_run keys dz cfg prog))) = expected_events cfg dz prog /\
  snd (reassemble None (map to_pf (w_out (w_run keys dz cfg prog)))) = None.
Proof.
  intros keys dz cfg prog Hok. unfold ref_events, w_run, expected_events.
  rewrite (run_events keys dz cfg prog w_init [] false [] Hok); [split; reflexivity|].
  split; [reflexivity|]. split; [reflexivity|]. reflexivity. Qed.
Print Assumptions writer_events.
