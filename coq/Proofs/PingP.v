(* Proofs/PingP.v — matching of Pings and Pongs (Model/Ping.v). *)
From Coq Require Import List NArith Bool Arith Lia.
From WS Require Import Base.Words Model.Ping.
Import ListNotations.

Lemma bytes_eqb_eq : forall a b, bytes_eqb a b = true <-> a = b.
Proof.
  induction a as [|x a IH]; destruct b as [|y b]; simpl; split; intro H; try reflexivity; try discriminate H.
  - apply andb_true_iff in H. destruct H as [H1 H2]. apply N.eqb_eq in H1. apply IH in H2. subst. reflexivity.
  - injection H as -> ->. apply andb_true_iff. split; [apply N.eqb_refl | apply IH; reflexivity].
Qed.

Lemma pg_run_app : forall a b, pg_run (a ++ b) = fold_left pg_step b (pg_run a).
Proof. intros a b. unfold pg_run. apply fold_left_app. Qed.

Lemma pg_run_snoc : forall a e, pg_run (a ++ [e]) = pg_step (pg_run a) e.
Proof. intros a e. rewrite pg_run_app. reflexivity. Qed.

(* what a waiting call is: it was registered with that payload, and since then neither a Pong with that payload was
   handled, nor did its context end, nor did the connection close *)
Definition quiet_for (i : nat) (p : bytes) (evs : list pgev) : Prop :=
  forall e, In e evs -> e <> PgPong p /\ e <> PgEnd i /\ e <> PgClosed.

Lemma active_origin : forall evs i p, In (i, p) (pg_active (pg_run evs)) ->
  exists a b, evs = a ++ PgReg i p :: b /\ quiet_for i p b.
Proof.
  induction evs as [|e evs IH] using rev_ind; intros i p H.
  - destruct H.
  - rewrite pg_run_snoc in H. destruct e as [j q|q|j|]; simpl in H.
    + apply in_app_or in H. destruct H as [H|H].
      * destruct (IH _ _ H) as (a & b & -> & Q). exists a, (b ++ [PgReg j q]). split; [rewrite <- app_assoc; reflexivity|].
        intros e He. apply in_app_or in He. destruct He as [He|[<-|[]]]; [apply Q; exact He|]. repeat split; discriminate.
      * destruct H as [H|[]]. injection H as -> ->. exists evs, []. split; [reflexivity|]. intros e [].
    + apply filter_In in H. destruct H as [H Hn]. simpl in Hn. destruct (IH _ _ H) as (a & b & -> & Q).
      exists a, (b ++ [PgPong q]). split; [rewrite <- app_assoc; reflexivity|].
      intros e He. apply in_app_or in He. destruct He as [He|[<-|[]]]; [apply Q; exact He|]. repeat split; try discriminate.
      intro E. injection E as ->. rewrite (proj2 (bytes_eqb_eq p p) eq_refl) in Hn. discriminate Hn.
    + apply filter_In in H. destruct H as [H Hn]. simpl in Hn. destruct (IH _ _ H) as (a & b & -> & Q).
      exists a, (b ++ [PgEnd j]). split; [rewrite <- app_assoc; reflexivity|].
      intros e He. apply in_app_or in He. destruct He as [He|[<-|[]]]; [apply Q; exact He|]. repeat split; try discriminate.
      intro E. injection E as ->. rewrite Nat.eqb_refl in Hn. discriminate Hn.
    + destruct H.
Qed.

(* THE MATCHING THEOREM: a Ping call returns nil only because a Pong carrying exactly its own payload was handled while it
   was waiting: after its registration, before its context ended and before the connection closed. *)
Theorem ping_ok_own_pong : forall evs i, In (i, PgOk) (pg_done (pg_run evs)) ->
  exists a p b c, evs = a ++ PgReg i p :: b ++ PgPong p :: c /\ quiet_for i p b.
Proof.
  induction evs as [|e evs IH] using rev_ind; intros i H.
  - destruct H.
  - rewrite pg_run_snoc in H.
    assert (Old : In (i, PgOk) (pg_done (pg_run evs)) -> exists a p b c, (evs ++ [e]) = a ++ PgReg i p :: b ++ PgPong p :: c /\ quiet_for i p b).
    { intro H0. destruct (IH _ H0) as (a & p & b & c & -> & Q). exists a, p, b, (c ++ [e]). split; [|exact Q].
      rewrite <- app_assoc. simpl. rewrite <- app_assoc. reflexivity. }
    destruct e as [j q|q|j|]; simpl in H.
    + apply Old, H.
    + apply in_app_or in H. destruct H as [H|H]; [|apply Old, H].
      apply in_map_iff in H. destruct H as ([i' p'] & E & Hin). simpl in E. injection E as ->.
      apply filter_In in Hin. destruct Hin as [Hin Hq]. simpl in Hq. apply bytes_eqb_eq in Hq. subst p'.
      destruct (active_origin _ _ _ Hin) as (a & b & -> & Q). exists a, q, b, []. split; [|exact Q].
      rewrite <- app_assoc. reflexivity.
    + apply in_app_or in H. destruct H as [H|H]; [|apply Old, H].
      apply in_map_iff in H. destruct H as ([i' p'] & E & _). discriminate E.
    + apply in_app_or in H. destruct H as [H|H]; [|apply Old, H].
      apply in_map_iff in H. destruct H as ([i' p'] & E & _). discriminate E.
Qed.

(* a Pong whose payload is nobody's changes nothing (unsolicited / unmatched / duplicate Pongs are ignored) *)
Theorem pong_unmatched_ignored : forall s q, (forall i p, In (i, p) (pg_active s) -> p <> q) -> pg_step s (PgPong q) = s.
Proof.
  intros [act dn] q H. simpl in *. 
  assert (F1 : filter (fun ip : nat * bytes => bytes_eqb (snd ip) q) act = []).
  { induction act as [|[i p] act IH]; [reflexivity|]. simpl. destruct (bytes_eqb p q) eqn:E.
    - apply bytes_eqb_eq in E. exfalso. apply (H i p); [left; reflexivity | exact E].
    - apply IH. intros i' p' Hin. apply (H i' p'). right. exact Hin. }
  assert (F2 : filter (fun ip : nat * bytes => negb (bytes_eqb (snd ip) q)) act = act).
  { clear F1. induction act as [|[i p] act IH]; [reflexivity|]. simpl. destruct (bytes_eqb p q) eqn:E.
    - apply bytes_eqb_eq in E. exfalso. apply (H i p); [left; reflexivity | exact E].
    - simpl. f_equal. apply IH. intros i' p' Hin. apply (H i' p'). right. exact Hin. }
  rewrite F1, F2. reflexivity.
Qed.

(* concurrent pings are each matched to their own pong: a Pong completes exactly the waiting calls registered with that
   payload — every other waiting call keeps waiting, every finished call keeps its result *)
Theorem pong_touches_only_own : forall s q i p, In (i, p) (pg_active s) -> p <> q ->
  In (i, p) (pg_active (pg_step s (PgPong q))) /\ forall r, In (i, r) (pg_done (pg_step s (PgPong q))) -> In (i, r) (pg_done s) \/ exists p', In (i, p') (pg_active s) /\ p' = q.
Proof.
  intros s q i p Hin Hne. simpl. split.
  - apply filter_In. split; [exact Hin|]. simpl. destruct (bytes_eqb p q) eqn:E; [apply bytes_eqb_eq in E; contradiction | reflexivity].
  - intros r Hr. apply in_app_or in Hr. destruct Hr as [Hr|Hr]; [|left; exact Hr].
    apply in_map_iff in Hr. destruct Hr as ([i' p'] & E & Hf). simpl in E. injection E as -> <-.
    apply filter_In in Hf. destruct Hf as [Hf Hq]. simpl in Hq. apply bytes_eqb_eq in Hq. right. exists p'. split; assumption.
Qed.

(* liveness direction on the model: a waiting call whose own Pong is handled returns nil at that very step *)
Theorem own_pong_completes : forall s i p, In (i, p) (pg_active s) -> In (i, PgOk) (pg_done (pg_step s (PgPong p))) /\ ~ In (i, p) (pg_active (pg_step s (PgPong p))).
Proof.
  intros s i p Hin. simpl. split.
  - apply in_or_app. left. apply in_map_iff. exists (i, p). split; [reflexivity|]. apply filter_In. split; [exact Hin|]. simpl. apply bytes_eqb_eq. reflexivity.
  - intro H. apply filter_In in H. destruct H as [_ H]. simpl in H. rewrite (proj2 (bytes_eqb_eq p p) eq_refl) in H. discriminate H.
Qed.

(* ... and otherwise it returns an error once its context ends or the connection closes *)
Theorem end_or_close_fails : forall s i p, In (i, p) (pg_active s) ->
  In (i, PgErr) (pg_done (pg_step s (PgEnd i))) /\ In (i, PgErr) (pg_done (pg_step s PgClosed)).
Proof.
  intros s i p Hin. simpl. split; apply in_or_app; left; apply in_map_iff; exists (i, p); (split; [reflexivity|]).
  - apply filter_In. split; [exact Hin|]. simpl. apply Nat.eqb_refl.
  - exact Hin.
Qed.
