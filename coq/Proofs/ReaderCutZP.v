(* Proofs/ReaderCutZP.v — NO SILENT TRUNCATION with permessage-deflate, for EVERY inflater: a valid stream in which any
   of the messages are compressed, cut at ANY byte offset and ended by EOF or a transport failure.  The messages received
   completely are delivered exactly as in the uncut stream (ReaderZP); then exactly one call fails: the Reader call, or the
   read of the message during which the transport ended — which NEVER ends cleanly.  For an uncompressed message the
   caller has then received a prefix of its payload and the transport's error; for a compressed one exactly what the
   inflater makes of the raw bytes received (WITHOUT the 00 00 ff ff tail, with the right dictionary), and then the
   transport's error, or REOther when the inflater calls the truncated input corrupt. *)
From Coq Require Import List NArith Lia ZArith ZifyN ZifyNat ZifyBool Bool.
From WS Require Import Base.Words Gen.Consts Gen.CloseCode Model.Mask Model.Frame Model.Proto Model.CloseCodec Model.RefDecoder
  Model.Reader Model.Script Model.ScriptZ Proofs.MaskP Proofs.FrameP Proofs.ReaderRefP Proofs.ReaderZP Proofs.ReaderCutP.
Import ListNotations.
Open Scope N_scope.
Ltac Zify.zify_post_hook ::= Z.div_mod_to_equations.

(* ---------- nothing the read side does changes how the transport ends ---------- *)
Definition res_st {A} (r : res A) : rst := match r with Ok _ s => s | Err _ s => s end.

Lemma add_reply_end s r : r_end (add_reply s r) = r_end s.
Proof. destruct r; unfold add_reply; destruct (r_close_sent s); reflexivity. Qed.

Lemma write_error_end s c : r_end (write_error s c) = r_end s.
Proof. apply add_reply_end. Qed.

Lemma read_hdr_end s : r_end (res_st (read_hdr s)) = r_end s.
Proof. unfold read_hdr. destruct (r_closed s); [reflexivity|]. destruct (dec_hdr (r_inq s)); reflexivity. Qed.

Lemma read_payload_end s n : r_end (snd (read_payload s n)) = r_end s.
Proof. unfold read_payload. destruct (r_closed s); [reflexivity|]. destruct (take_n n (r_inq s)) as [[a b]|]; reflexivity. Qed.

Lemma handle_control_end s h : r_end (res_st (handle_control s h)) = r_end s.
Proof.
  unfold handle_control. destruct (125 <? h_plen h); [apply write_error_end|].
  destruct (negb (h_fin h)); [apply write_error_end|].
  pose proof (read_payload_end s (N.to_nat (h_plen h))) as HP.
  destruct (read_payload s (N.to_nat (h_plen h))) as [[raw er] s1]. cbn [snd] in HP.
  destruct er as [err|]; [exact HP|].
  destruct (h_opc h =? 9); [cbn [res_st]; rewrite add_reply_end; exact HP|].
  destruct (h_opc h =? 10); [exact HP|].
  match goal with |- context [parse_close ?p] => destruct (parse_close p) as [[code reason]|] end; cbn [res_st].
  - cbn [set_closed r_end]. rewrite add_reply_end. exact HP.
  - rewrite write_error_end. exact HP.
Qed.

Ltac dif := match goal with |- context [if ?c then _ else _] => destruct c end.

Section EndKeep.
Variable cfg : rcfg.
Variable inflate : bytes -> bytes -> bytes * istatus.

Lemma read_loop_end : forall fuel s, r_end (res_st (read_loop cfg fuel s)) = r_end s.
Proof.
  induction fuel as [|fuel IH]; intro s; [reflexivity|].
  cbn [read_loop]. pose proof (read_hdr_end s) as HH. destruct (read_hdr s) as [h s1|er s1]; cbn [res_st] in HH; [|exact HH].
  dif; [cbn [res_st]; rewrite write_error_end; exact HH|].
  dif; [exact HH|]. dif; [exact HH|].
  dif.
  - pose proof (handle_control_end s1 h) as HC. destruct (handle_control s1 h) as [u s2|er s2]; cbn [res_st] in HC.
    + rewrite IH. congruence.
    + cbn [res_st]. congruence.
  - dif; [exact HH|]. cbn [res_st]. rewrite write_error_end. exact HH.
Qed.

Lemma reader_end fuel s : r_end (res_st (reader cfg fuel s)) = r_end s.
Proof.
  unfold reader. destruct (r_closed s); [reflexivity|]. destruct (negb (r_fin s)); [reflexivity|].
  pose proof (read_loop_end fuel s) as HL. destruct (read_loop cfg fuel s) as [h s1|er s1]; cbn [res_st] in HL; [|exact HL].
  destruct (h_opc h =? 0); cbn [res_st]; [rewrite write_error_end; exact HL|]. cbn [reset_msg r_end]. exact HL.
Qed.

Lemma raw_read_end : forall fuel n s, r_end (snd (raw_read cfg fuel n s)) = r_end s.
Proof.
  induction fuel as [|fuel IH]; intros n s; [reflexivity|]. cbn [raw_read].
  destruct (r_plen s =? 0).
  - destruct (r_fin s); [reflexivity|].
    pose proof (read_loop_end (S fuel) s) as HL. destruct (read_loop cfg (S fuel) s) as [h s1|er s1]; cbn [res_st] in HL; [|exact HL].
    destruct (negb (h_opc h =? 0)); [cbn [snd]; rewrite write_error_end; exact HL|]. rewrite IH. cbn [set_frame r_end]. exact HL.
  - cbv zeta.
    match goal with |- context [read_payload s ?k] => pose proof (read_payload_end s k) as HP; destruct (read_payload s k) as [[raw er] s1] end.
    cbn [snd] in HP |- *. cbn [sub_plen r_end]. exact HP.
Qed.

Lemma pull_all_end : forall fuel s racc, r_end (snd (pull_all cfg fuel s racc)) = r_end s.
Proof.
  induction fuel as [|fuel IH]; intros s racc; [reflexivity|]. cbn [pull_all].
  pose proof (raw_read_end (S (S fuel)) bufio_size s) as HR. destruct (raw_read cfg (S (S fuel)) bufio_size s) as [[[d er] eof] s1]. cbn [snd] in HR.
  destruct er; [exact HR|]. destruct eof; [exact HR|]. rewrite IH. exact HR.
Qed.

Lemma msg_read_end fuel n s : r_end (snd (msg_read cfg inflate fuel n s)) = r_end s.
Proof.
  unfold msg_read. destruct (r_closed s); [reflexivity|]. destruct (r_lrn s =? 0)%Z; [cbn [snd]; apply write_error_end|]. cbv zeta.
  destruct (r_flate s).
  - match goal with |- context [match r_zout ?x with _ => _ end] => set (s1 := x) end.
    assert (H1 : r_end s1 = r_end s).
    { unfold s1. destruct (r_zpulled s); [reflexivity|]. pose proof (pull_all_end fuel s []) as HP.
      destruct (pull_all cfg fuel s []) as [[z er] s0]. cbn [snd] in HP.
      destruct er; match goal with |- context [inflate ?a ?b] => destruct (inflate a b) as [out st] end; destruct st; cbn [set_z r_end]; exact HP. }
    clearbody s1. destruct (r_zout s1); [destruct (r_zerr s1); cbn [snd end_z r_end]; exact H1|].
    dif; cbn [snd]; [rewrite write_error_end|]; cbn [take_z r_end]; exact H1.
  - match goal with |- context [raw_read cfg fuel ?k s] => pose proof (raw_read_end fuel k s) as HR; destruct (raw_read cfg fuel k s) as [[[d er] eof] s1] end.
    cbn [snd] in HR. dif; cbn [snd]; [rewrite write_error_end|]; cbn [sub_lrn r_end]; exact HR.
Qed.

Lemma read_all_end : forall fuel n s racc, r_end (snd (read_all cfg inflate fuel n s racc)) = r_end s.
Proof.
  induction fuel as [|fuel IH]; intros n s racc; [reflexivity|]. cbn [read_all].
  pose proof (msg_read_end (S (S fuel)) n s) as HR. destruct (msg_read cfg inflate (S (S fuel)) n s) as [[[d er] eof] s1]. cbn [snd] in HR.
  destruct er; [exact HR|]. destruct eof; [exact HR|]. rewrite IH. exact HR.
Qed.

Lemma read_all_z_end fuel n s racc : r_end (snd (read_all_z cfg inflate fuel n s racc)) = r_end s.
Proof.
  unfold read_all_z.
  pose proof (msg_read_end fuel n s) as HR. destruct (msg_read cfg inflate fuel n s) as [[[d er] eof] s1]. cbn [snd] in HR.
  destruct er; [exact HR|]. destruct eof; [exact HR|]. rewrite read_all_end. exact HR.
Qed.
End EndKeep.

(* ---------- what the statement needs ---------- *)
(* how the read of a compressed message ends when its input ended with the transport: the transport's error, unless the
   inflater calls what was received corrupt *)
Definition trunc_err (e : ending) (st : istatus) : rerr := match st with ICorrupt => REOther | _ => end_err_of e end.

Section Dict.
Variable inflate : bytes -> bytes -> bytes * istatus.
Variable takeover : bool.

(* the reader's dictionary after the (complete) messages ms *)
Fixpoint dict_after (dict : bytes) (ms : list zmsg) : bytes :=
  match ms with
  | [] => dict
  | zm :: r => if zm_z zm then dict_after (next_dict takeover dict (fst (inflate dict (sm_payload (zm_m zm) ++ c_deflateMessageTail)))) r
               else dict_after dict r
  end.

(* what the caller gets from the message [zm] during which the transport ended with [e]; dc = the dictionary then *)
Definition cut_outcome (e : ending) (dc : bytes) (zm : zmsg) (d : bytes) (err : rerr) : Prop :=
  if zm_z zm
  then exists raw, is_prefix raw (sm_payload (zm_m zm)) /\ d = fst (inflate dc raw) /\ err = trunc_err e (snd (inflate dc raw))
  else is_prefix d (sm_payload (zm_m zm)) /\ err = end_err_of e.

Lemma all_inflate_ok_app : forall a b dict, all_inflate_ok inflate takeover dict (a ++ b) = true -> all_inflate_ok inflate takeover dict a = true.
Proof.
  induction a as [|zm a IH]; intros b dict H; [reflexivity|].
  cbn [app all_inflate_ok] in H |- *. destruct (zm_z zm).
  - destruct (inflate dict (sm_payload (zm_m zm) ++ c_deflateMessageTail)) as [out st]. destruct st; try discriminate; eapply IH; exact H.
  - eapply IH; exact H.
Qed.
End Dict.

Lemma dict_after_notk inflate : forall ms dict, dict_after inflate false dict ms = dict.
Proof. induction ms as [|zm ms IH]; intro dict; [reflexivity|]. cbn [dict_after]. destruct (zm_z zm); unfold next_dict; apply IH. Qed.

Lemma enc_zscript_app m a b : enc_zscript m (a ++ b) = enc_zscript m a ++ enc_zscript m b.
Proof. unfold enc_zscript. rewrite map_app, concat_app. reflexivity. Qed.
Lemma enc_zscript_cons m x b : enc_zscript m (x :: b) = enc_zmsg m x ++ enc_zscript m b.
Proof. reflexivity. Qed.

Lemma cut_splitz mk : forall ms cut, (cut < length (enc_zscript mk ms))%nat ->
  exists pre x post c, ms = pre ++ x :: post /\ (c < length (enc_zmsg mk x))%nat /\
    firstn cut (enc_zscript mk ms) = enc_zscript mk pre ++ firstn c (enc_zmsg mk x).
Proof.
  induction ms as [|x ms IH]; intros cut Hlt.
  - cbn [enc_zscript map concat length] in Hlt. lia.
  - rewrite enc_zscript_cons in Hlt |- *. rewrite app_length in Hlt.
    destruct (Nat.lt_ge_cases cut (length (enc_zmsg mk x))) as [Hc|Hc].
    + exists [], x, ms, cut. split; [reflexivity|]. split; [exact Hc|]. rewrite firstn_app_lt by lia. reflexivity.
    + destruct (IH (cut - length (enc_zmsg mk x))%nat ltac:(lia)) as (pre & y & post & c & Hms & Hcy & Hfi).
      exists (x :: pre), y, post, c. split; [rewrite Hms; reflexivity|]. split; [exact Hcy|].
      rewrite firstn_app_ge by exact Hc. rewrite Hfi, enc_zscript_cons, app_assoc. reflexivity.
Qed.

Section CutZ.
Variable cfg : rcfg.
Variable inflate : bytes -> bytes -> bytes * istatus.
Variable e : ending.
Local Notation M := (is_server cfg).
Local Notation TK := (rd_takeover cfg).

Lemma end_err_e s : r_end s = e -> end_err s = end_err_of e.
Proof. intro H. unfold end_err, end_err_of. rewrite H. reflexivity. Qed.

(* ---------- the complete messages, followed by arbitrary further operations ---------- *)
Lemma run_script_zvalidG : forall ms sizes ops fuel s z tl,
  Forall (fun zm => wf_smsg (zm_m zm)) ms -> flate_on cfg = true ->
  length sizes = length ms -> Forall (fun n => 0 < n)%nat sizes ->
  quietz z s -> r_end s = e -> (TK = false -> z_dict z = []) -> r_fin s = true ->
  r_inq s = enc_zscript M ms ++ tl -> (length (r_inq s) < fuel)%nat ->
  all_inflate_ok inflate TK (z_dict z) ms = true ->
  exists s' z', r_inq s' = tl /\ r_fin s' = true /\ quietz z' s' /\ r_end s' = e /\ z_dict z' = dict_after inflate TK (z_dict z) ms /\
    run_script cfg inflate fuel (read_ops sizes ++ ops) s None =
      (let '(o, s2) := run_script cfg inflate fuel ops s' None in (expected_zobs inflate TK (z_dict z) ms ++ o, s2)).
Proof.
  induction ms as [|zm ms IH]; intros sizes ops fuel s z tl Hw Hfo Hl Hpos Hq He Hinv Hf Hi Hfu Hok.
  - destruct sizes as [|n sizes]; [|discriminate]. exists s, z. cbn [enc_zscript map concat app] in Hi.
    split; [exact Hi|]. split; [exact Hf|]. split; [exact Hq|]. split; [exact He|]. split; [reflexivity|].
    cbn [read_ops flat_map app expected_zobs]. destruct (run_script cfg inflate fuel ops s None) as [o s2]. reflexivity.
  - destruct sizes as [|n sizes]; [discriminate|]. cbn [length] in Hl. injection Hl as Hl.
    inversion Hw as [|m0 ms0 Hm Hw']. subst m0 ms0.
    inversion Hpos as [|n0 sz0 Hn Hpos']. subst n0 sz0.
    cbn [enc_zscript map concat] in Hi. rewrite <- app_assoc in Hi.
    change (concat (map (enc_zmsg M) ms)) with (enc_zscript M ms) in Hi.
    destruct (reader_msg_z cfg inflate fuel s z zm (enc_zscript M ms ++ tl) Hm (fun _ => Hfo) Hq Hf Hi Hfu) as (s1 & R & A & _ & _ & L1).
    assert (E1 : r_end s1 = e).
    { pose proof (reader_end cfg fuel s) as X. rewrite R in X. cbn [res_st] in X. congruence. }
    rewrite read_ops_cons, run_script_pair, R. cbv beta iota.
    destruct (zm_z zm) eqn:Ezz.
    + (* compressed *)
      assert (Hd1 : (if true && negb TK then [] else z_dict z) = z_dict z).
      { destruct TK eqn:Etk; cbn [andb negb]; [reflexivity|]. symmetry. apply Hinv. reflexivity. }
      rewrite Hd1 in A.
      destruct (inflate (z_dict z) (sm_payload (zm_m zm) ++ c_deflateMessageTail)) as [out st] eqn:Einf.
      destruct (read_all_z_flate cfg inflate fuel s1 _ _ _ n [] (z_dict z) out st Hn A ltac:(lia) Einf) as (s2 & RZ & Fi2).
      change (concat (frev (@nil bytes)) ++ out) with out in RZ.
      rewrite (all_inflate_ok_flate cfg inflate _ _ _ out st Ezz Einf) in Hok.
      destruct (st_ok st) eqn:Eok; [|discriminate].
      assert (E2 : r_end s2 = e).
      { pose proof (read_all_z_end cfg inflate fuel n s1 []) as X. rewrite RZ in X. cbn [snd] in X. congruence. }
      rewrite RZ. unfold st_err. rewrite Eok. cbv beta iota.
      destruct (Fi2 eq_refl) as (I2 & F2 & Q2 & _ & _).
      assert (L2 : (length (r_inq s2) < fuel)%nat).
      { rewrite I2. rewrite Hi in Hfu. rewrite app_length in Hfu. lia. }
      destruct (IH sizes ops fuel s2 _ tl Hw' Hfo Hl Hpos' Q2 E2) as (s3 & z3 & I3 & F3 & Q3 & E3 & D3 & RS); [| exact F2 | exact I2 | exact L2 | exact Hok |].
      { cbn [zh z_dict]. intro Etk. unfold next_dict. rewrite Etk. apply Hinv. exact Etk. }
      cbn [zh z_dict] in RS, D3. exists s3, z3.
      split; [exact I3|]. split; [exact F3|]. split; [exact Q3|]. split; [exact E3|].
      split; [cbn [dict_after]; rewrite Ezz, Einf; exact D3|].
      rewrite RS. rewrite (expected_zobs_flate cfg inflate _ _ _ out st Ezz Einf), Eok.
      destruct (run_script cfg inflate fuel ops s3 None) as [o s4]. reflexivity.
    + (* not compressed *)
      cbn [andb] in A.
      destruct (read_all_z_restz cfg inflate fuel (z0 false (z_dict z)) s1 (fr_body (sm_first (zm_m zm))) (sm_rest (zm_m zm)) (enc_zscript M ms ++ tl) n [] eq_refl Hn A ltac:(lia))
        as (s2 & RZ & I2 & F2 & Q2 & _ & _).
      assert (E2 : r_end s2 = e).
      { pose proof (read_all_z_end cfg inflate fuel n s1 []) as X. rewrite RZ in X. cbn [snd] in X. congruence. }
      assert (L2 : (length (r_inq s2) < fuel)%nat).
      { rewrite I2. rewrite Hi in Hfu. rewrite app_length in Hfu. lia. }
      cbn [all_inflate_ok] in Hok. rewrite Ezz in Hok.
      destruct (IH sizes ops fuel s2 _ tl Hw' Hfo Hl Hpos' Q2 E2) as (s3 & z3 & I3 & F3 & Q3 & E3 & D3 & RS); [exact Hinv | exact F2 | exact I2 | exact L2 | exact Hok |].
      cbn [z0 z_dict] in RS, D3. exists s3, z3.
      split; [exact I3|]. split; [exact F3|]. split; [exact Q3|]. split; [exact E3|].
      split; [cbn [dict_after]; rewrite Ezz; exact D3|].
      rewrite RZ. cbv beta iota. rewrite RS. rewrite (expected_zobs_plain cfg inflate _ _ _ Ezz).
      destruct (run_script cfg inflate fuel ops s3 None) as [o s4]. reflexivity.
Qed.

(* ---------- the transport ends inside a header or a control frame ---------- *)
Local Notation zerr_of := (trunc_err e).

Lemma quietz_set_inq z s q : quietz z s -> quietz z (set_inq s q).
Proof. intros (Hc & Hz & Hlr & Hlim). unfold quietz. zsimp. repeat split; auto. Qed.

Lemma read_hdr_short_z z s h c : wf_hdr h -> quietz z s -> r_end s = e -> r_inq s = firstn c (enc_hdr h) -> (c < length (enc_hdr h))%nat ->
  read_hdr s = Err (end_err_of e) (set_inq s []).
Proof. intros Hw (Hcl & _) He Hi Hc. unfold read_hdr. rewrite Hcl, Hi, dec_short by assumption. rewrite (end_err_e s He). reflexivity. Qed.

Lemma handle_control_okz z s c tl : wf_ctl c -> quietz z s -> r_inq s = wire M (c_key c) (c_payload c) ++ tl ->
  exists s2, handle_control s (ctl_hdr cfg c) = Ok tt s2 /\ r_inq s2 = tl /\ quietz z s2.
Proof.
  intros (Hopc & Hpw & Hpl & Hck) (Hc & Hz & Hlr & Hlim) Hi.
  unfold handle_control, ctl_hdr. cbn [h_plen h_fin h_masked h_key h_opc mk_hdr negb].
  destruct (N.ltb_spec 125 (N.of_nat (length (c_payload c)))) as [Hbad|_]; [lia|].
  rewrite Nat2N.id. rewrite <- (wire_length M (c_key c) (c_payload c)).
  rewrite (read_payload_app _ (wire M (c_key c) (c_payload c)) tl Hc Hi).
  destruct Hopc as [E9 | E10]; rewrite E9 || rewrite E10.
  - change (9 =? 9) with true. cbv iota. eexists. split; [reflexivity|]. rewrite add_pong_reply. unfold quietz. zsimp. repeat split; auto.
  - change (10 =? 9) with false. change (10 =? 10) with true. cbv iota. eexists. split; [reflexivity|]. unfold quietz. zsimp. repeat split; auto.
Qed.

Lemma handle_control_short z s c c1 l : wf_ctl c -> quietz z s -> r_end s = e -> r_inq s = firstn c1 l -> (c1 < length (c_payload c))%nat ->
  exists s', handle_control s (ctl_hdr cfg c) = Err (end_err_of e) s' /\ quietz z s'.
Proof.
  intros (Hopc & Hpw & Hpl & Hck) Hq He Hi Hlt. pose proof Hq as (Hc & _).
  unfold handle_control, ctl_hdr. cbn [h_plen h_fin h_masked h_key h_opc mk_hdr negb].
  destruct (N.ltb_spec 125 (N.of_nat (length (c_payload c)))) as [Hbad|_]; [lia|].
  rewrite Nat2N.id. unfold read_payload. rewrite Hc, Hi, take_n_firstn_short by exact Hlt.
  eexists. split; [rewrite (end_err_e s He); reflexivity|]. apply quietz_set_inq. exact Hq.
Qed.

Lemma read_loop_cut_z : forall cs fuel z s h c, Forall wf_ctl cs -> wf_hdr h -> quietz z s -> r_end s = e ->
  r_inq s = firstn c (concat (map (enc_ctl M) cs) ++ enc_hdr h) ->
  (c < length (concat (map (enc_ctl M) cs) ++ enc_hdr h))%nat -> (length (r_inq s) < fuel)%nat ->
  exists s', read_loop cfg fuel s = Err (end_err_of e) s' /\ quietz z s'.
Proof.
  induction cs as [|c0 cs IH]; intros fuel z s h c Hcs Hh Hq He Hi Hlt Hfu.
  - destruct fuel as [|fuel]; [lia|]. cbn [map concat app] in Hi, Hlt. cbn [read_loop].
    rewrite (read_hdr_short_z z s h c Hh Hq He Hi Hlt). eexists. split; [reflexivity|]. apply quietz_set_inq. exact Hq.
  - destruct fuel as [|fuel]; [lia|].
    inversion Hcs as [|c1 cs1 Hc0 Hcs']. subst c1 cs1.
    pose proof Hq as (Hcl & _).
    assert (Efull : concat (map (enc_ctl M) (c0 :: cs)) ++ enc_hdr h =
                    enc_hdr (ctl_hdr cfg c0) ++ wire M (c_key c0) (c_payload c0) ++ (concat (map (enc_ctl M) cs) ++ enc_hdr h)).
    { cbn [map concat]. unfold enc_ctl at 1. rewrite enc_frame_mk. rewrite <- !app_assoc. reflexivity. }
    rewrite Efull in Hi, Hlt. set (rest := concat (map (enc_ctl M) cs) ++ enc_hdr h) in *.
    rewrite !app_length, wire_length in Hlt.
    destruct (Nat.lt_ge_cases c (length (enc_hdr (ctl_hdr cfg c0)))) as [Hc1|Hc1].
    + rewrite firstn_app_lt in Hi by lia. cbn [read_loop].
      rewrite (read_hdr_short_z z s _ c (ctl_hdr_wf cfg c0 Hc0) Hq He Hi Hc1). eexists. split; [reflexivity|]. apply quietz_set_inq. exact Hq.
    + rewrite firstn_app_ge in Hi by exact Hc1.
      set (c1 := (c - length (enc_hdr (ctl_hdr cfg c0)))%nat) in *.
      rewrite (read_loop_ctl_unfold cfg fuel s c0 _ Hc0 Hcl Hi).
      destruct (Nat.lt_ge_cases c1 (length (c_payload c0))) as [Hc2|Hc2].
      * destruct (handle_control_short z (set_inq s (firstn c1 (wire M (c_key c0) (c_payload c0) ++ rest))) c0 c1 _ Hc0
                    (quietz_set_inq _ _ _ Hq) He eq_refl Hc2) as (s' & HC & Q').
        rewrite HC. exists s'. split; [reflexivity|exact Q'].
      * rewrite firstn_app_ge in Hi |- * by (rewrite wire_length; exact Hc2). rewrite wire_length in Hi |- *.
        set (c2 := (c1 - length (c_payload c0))%nat) in *.
        destruct (handle_control_okz z (set_inq s (wire M (c_key c0) (c_payload c0) ++ firstn c2 rest)) c0 (firstn c2 rest) Hc0
                    (quietz_set_inq _ _ _ Hq) eq_refl) as (s2 & HC & I2 & Q2).
        assert (E2 : r_end s2 = e).
        { pose proof (handle_control_end (set_inq s (wire M (c_key c0) (c_payload c0) ++ firstn c2 rest)) (ctl_hdr cfg c0)) as X.
          rewrite HC in X. cbn [res_st] in X. rewrite X. exact He. }
        rewrite HC.
        apply (IH fuel z s2 h c2 Hcs' Hh Q2 E2 I2).
        -- fold rest. unfold c2, c1. lia.
        -- rewrite I2. pose proof (firstn_le_length c2 rest). rewrite Hi in Hfu. rewrite !app_length in Hfu.
           pose proof (enc_hdr_len2 (ctl_hdr cfg c0)). lia.
Qed.

(* ---------- the input is a proper prefix of the rest of the current message ---------- *)
Definition cut_posz (z : zst) (s : rst) (b : bytes) (fs : list frag) (c : nat) : Prop :=
  r_inq s = firstn c (wire M (r_key s) b ++ enc_rest M fs) /\ (c < length b + length (enc_rest M fs))%nat /\
  r_plen s = N.of_nat (length b) /\ r_fin s = is_nil fs /\ Forall wf_frag fs /\ quietz z s /\ r_end s = e.

Definition cutz_data (z : zst) (res : bytes * option rerr * bool * rst) (s : rst) (b : bytes) (fs : list frag) : Prop :=
  exists d b' fs' c' s', res = (d, None, false, s') /\ d ++ b' ++ bodies fs' = b ++ bodies fs /\ cut_posz z s' b' fs' c' /\
    (length (r_inq s') < length (r_inq s))%nat.
Definition cutz_fail (z : zst) (res : bytes * option rerr * bool * rst) (b : bytes) (fs : list frag) : Prop :=
  exists d s', res = (d, Some (end_err_of e), false, s') /\ is_prefix d (b ++ bodies fs) /\ quietz z s'.

Lemma raw_read_cutz : forall fuel z s b fs c n, (0 < n)%nat -> cut_posz z s b fs c -> (length (r_inq s) < fuel)%nat ->
  cutz_data z (raw_read cfg fuel n s) s b fs \/ cutz_fail z (raw_read cfg fuel n s) b fs.
Proof.
  induction fuel as [|fuel IH]; intros z s b fs c n Hn (Hi & Hlt & Hp & Hf & Hw & Hq & He) Hfu; [lia|].
  pose proof Hq as (Hcl & Hz & Hlr & Hlim).
  destruct b as [|x b0].
  - cbn [length] in Hp. cbn [raw_read]. destruct (N.eqb_spec (r_plen s) 0) as [_|Hne]; [|lia].
    rewrite wire_nil in Hi. cbn [app] in Hi. cbn [length] in Hlt.
    destruct fs as [|f r]; [cbn [enc_rest length] in Hlt; lia|].
    cbn [is_nil] in Hf. rewrite Hf. cbn [negb].
    rewrite (enc_rest_cons_split cfg) in Hi, Hlt.
    inversion Hw as [|f0 r0 Hwf Hwr]. subst f0 r0.
    destruct Hwf as (Hcs & Hbw & Hbl & Hkw).
    change (mk_hdr M (is_nil r) 0 (fr_key f) (length (fr_body f))) with (mk_hdr_z false M (is_nil r) 0 (fr_key f) (length (fr_body f))) in Hi, Hlt.
    set (h := mk_hdr_z false M (is_nil r) 0 (fr_key f) (length (fr_body f))) in *.
    set (AH := concat (map (enc_ctl M) (fr_ctl f)) ++ enc_hdr h) in *.
    rewrite !app_length, wire_length in Hlt.
    destruct (Nat.lt_ge_cases c (length AH)) as [Hc1|Hc1].
    + right. rewrite firstn_app_lt in Hi by lia.
      destruct (read_loop_cut_z (fr_ctl f) (S fuel) z s h c Hcs) as (s1 & RL & Q1); auto.
      { apply mk_hdr_z_wf; auto; lia. }
      rewrite RL. exists [], s1. split; [reflexivity|]. split; [eexists; reflexivity|exact Q1].
    + rewrite firstn_app_ge in Hi by exact Hc1. unfold AH in Hi. rewrite <- app_assoc in Hi. fold AH in Hi.
      set (c1 := (c - length AH)%nat) in *.
      set (tl := firstn c1 (wire M (fr_key f) (fr_body f) ++ enc_rest M r)) in *.
      assert (Hnr : false = true -> flate_on cfg = true /\ (0 = 1 \/ 0 = 2)) by discriminate.
      destruct (read_loop_ctls_z cfg inflate (fr_ctl f) (S fuel) s z false (is_nil r) 0 (fr_key f) (length (fr_body f)) tl
                  Hcs (or_introl eq_refl) Hnr Hbl Hkw Hq Hi Hfu)
        as (s1 & RL & I1 & Q1 & F1 & P1 & K1 & _ & _).
      assert (E1 : r_end s1 = e).
      { pose proof (read_loop_end cfg (S fuel) s) as X. rewrite RL in X. cbn [res_st] in X. congruence. }
      rewrite RL. cbn [h_opc mk_hdr_z]. change (0 =? 0) with true. cbn [negb]. fold h.
      set (s2 := set_frame s1 h).
      assert (A2 : cut_posz z s2 (fr_body f) r c1).
      { unfold cut_posz, quietz, s2, h. zsimp. rewrite wire_key. destruct Q1 as (Q1a & Q1b & Q1c & Q1d).
        split; [exact I1|]. split; [unfold c1; lia|]. split; [reflexivity|]. split; [reflexivity|]. split; [exact Hwr|].
        split; [repeat split; auto|exact E1]. }
      assert (L0 : (length (r_inq s2) + 2 <= length (r_inq s))%nat).
      { unfold s2. zsimp. rewrite I1, Hi. rewrite !app_length. pose proof (enc_hdr_len2 h). lia. }
      assert (L2 : (length (r_inq s2) < fuel)%nat) by lia.
      destruct (IH z s2 (fr_body f) r c1 n Hn A2 L2) as [(d & b' & fs' & c' & s' & E & Hc & Ha & Hl)|(d & s' & E & Hpre & Q')].
      * left. exists d, b', fs', c', s'. split; [exact E|].
        split; [unfold bodies at 2; cbn [map concat app]; exact Hc|]. split; [exact Ha|]. lia.
      * right. exists d, s'. split; [exact E|]. split; [|exact Q']. unfold bodies. cbn [map concat app]. exact Hpre.
  - set (bb := x :: b0) in *.
    assert (Hbl : (1 <= length bb)%nat) by (unfold bb; cbn [length]; lia).
    set (k := Nat.min n (length bb)).
    assert (Hk : (if N.of_nat n <? r_plen s then n else N.to_nat (r_plen s)) = k).
    { rewrite Hp. unfold k. destruct (N.ltb_spec (N.of_nat n) (N.of_nat (length bb))); lia. }
    destruct (Nat.lt_ge_cases c k) as [Hck|Hck].
    + right.
      assert (Hraw : r_inq s = wire M (r_key s) (firstn c bb)).
      { rewrite Hi. rewrite firstn_app_lt by (rewrite wire_length; unfold k in Hck; lia). apply wire_firstn. }
      exists (firstn c bb). eexists. split; [|split].
      * cbn [raw_read]. destruct (N.eqb_spec (r_plen s) 0) as [E0|_]; [lia|].
        cbv zeta. rewrite Hk. unfold read_payload. rewrite Hcl.
        assert (TN : take_n k (r_inq s) = None).
        { rewrite Hi. apply take_n_firstn_short. exact Hck. }
        rewrite TN. cbv beta iota. rewrite (end_err_e s He).
        assert (Hd : (if M then mask_spec (r_key s) (r_inq s) else r_inq s) = firstn c bb) by (rewrite Hraw; apply unwire).
        rewrite Hd. reflexivity.
      * exists (skipn c bb ++ bodies fs). rewrite app_assoc, firstn_skipn. reflexivity.
      * unfold quietz. zsimp. repeat split; auto.
    + left.
      set (b1 := firstn k bb). set (b2 := skipn k bb).
      assert (Hb : bb = b1 ++ b2) by (symmetry; apply firstn_skipn).
      assert (Hl1 : length b1 = k) by (unfold b1; rewrite firstn_length; unfold k; lia).
      assert (Hl2 : (length bb = k + length b2)%nat) by (rewrite Hb at 1; rewrite app_length; lia).
      rewrite Hb, wire_app, <- app_assoc, Hl1 in Hi.
      rewrite firstn_app_ge in Hi by (rewrite wire_length; lia). rewrite wire_length, Hl1 in Hi.
      set (key' := if M then rotk (r_key s) k else r_key s) in *.
      set (rest := firstn (c - k) (wire M key' b2 ++ enc_rest M fs)) in *.
      assert (RR : raw_read cfg (S fuel) n s = (b1, None, false, sub_plen (set_inq s rest) k key')).
      { cbn [raw_read]. destruct (N.eqb_spec (r_plen s) 0) as [E0|_]; [lia|].
        cbv zeta. rewrite Hk.
        replace k with (length (wire M (r_key s) b1)) at 1 by (rewrite wire_length; exact Hl1).
        rewrite (read_payload_app s _ rest Hcl Hi). rewrite unwire, wire_length, Hl1. reflexivity. }
      exists b1, b2, fs, (c - k)%nat. eexists. split; [exact RR|].
      split; [rewrite app_assoc, <- Hb; reflexivity|].
      split.
      * unfold cut_posz, quietz. zsimp. split; [reflexivity|]. split; [lia|]. split; [lia|]. repeat split; auto.
      * zsimp. rewrite Hi. assert (Hk1 : (1 <= k)%nat) by (unfold k; lia). rewrite !app_length, !wire_length. lia.
Qed.

(* ---------- an UNCOMPRESSED message: a prefix of its payload, then the transport's error ---------- *)
Lemma cut_posz_sub_lrn z s b fs c k : cut_posz z s b fs c -> cut_posz z (sub_lrn s k) b fs c.
Proof.
  intros (Hi & Hlt & Hp & Hf & Hw & (Hc & Hz & Hlr & Hlim) & He). unfold cut_posz, quietz. rewrite sub_lrn_neg by exact Hlr.
  cbn [sub_lrn r_inq r_key r_plen r_fin r_closed r_limit r_end]. repeat split; auto.
Qed.

Lemma quietz_sub_lrn z s k : quietz z s -> quietz z (sub_lrn s k).
Proof.
  intros (Hc & Hz & Hlr & Hlim). unfold quietz. rewrite sub_lrn_neg by exact Hlr.
  cbn [sub_lrn r_closed r_limit]. repeat split; auto.
Qed.

Lemma msg_read_cutz : forall fuel z s b fs c n, z_flate z = false -> (0 < n)%nat -> cut_posz z s b fs c -> (length (r_inq s) < fuel)%nat ->
  cutz_data z (msg_read cfg inflate fuel n s) s b fs \/ cutz_fail z (msg_read cfg inflate fuel n s) b fs.
Proof.
  intros fuel z s b fs c n Hzf Hn Ha Hfu.
  pose proof Ha as (_ & _ & _ & _ & _ & (Hcl & Hz & Hneg & _) & _).
  assert (Hfl : r_flate s = false) by (rewrite <- Hzf, <- Hz; reflexivity).
  rewrite msg_read_raw by (auto; lia). rewrite capped_neg by exact Hneg.
  destruct (raw_read_cutz fuel z s b fs c n Hn Ha Hfu) as [(d & b' & fs' & c' & s' & E & Hc & Ha' & Hl)|(d & s' & E & Hpre & Q')].
  - left. rewrite E. cbv beta iota zeta. rewrite limit_hit_neg by exact Hneg.
    exists d, b', fs', c', (sub_lrn s' (length d)). split; [reflexivity|]. split; [exact Hc|].
    split; [apply cut_posz_sub_lrn; exact Ha'|]. cbn [sub_lrn r_inq]. exact Hl.
  - right. rewrite E. cbv beta iota zeta. rewrite limit_hit_neg by exact Hneg.
    exists d. eexists. split; [reflexivity|]. split; [exact Hpre|]. apply quietz_sub_lrn. exact Q'.
Qed.

Lemma read_all_cutz : forall fuel z s b fs c n racc, z_flate z = false -> (0 < n)%nat -> cut_posz z s b fs c -> (length (r_inq s) < fuel)%nat ->
  exists d s', read_all cfg inflate fuel n s racc = (concat (frev racc) ++ d, Some (end_err_of e), s') /\ is_prefix d (b ++ bodies fs).
Proof.
  induction fuel as [|fuel IH]; intros z s b fs c n racc Hzf Hn Ha Hfu; [lia|].
  cbn [read_all].
  destruct (msg_read_cutz (S (S fuel)) z s b fs c n Hzf Hn Ha ltac:(lia)) as [(d & b' & fs' & c' & s' & E & Hc & Ha' & Hl)|(d & s' & E & Hpre & _)].
  - rewrite E. destruct (IH z s' b' fs' c' n (d :: racc) Hzf Hn Ha' ltac:(lia)) as (d1 & s'' & E' & Hpre).
    exists (d ++ d1), s''. rewrite E'. split.
    + rewrite frev_cons, <- app_assoc. reflexivity.
    + rewrite <- Hc. apply is_prefix_app. exact Hpre.
  - rewrite E. exists d, s'. split; [|exact Hpre]. rewrite frev_cons. reflexivity.
Qed.

Lemma read_all_z_cutz : forall fuel z s b fs c n racc, z_flate z = false -> (0 < n)%nat -> cut_posz z s b fs c -> (length (r_inq s) < fuel)%nat ->
  exists d s', read_all_z cfg inflate fuel n s racc = (concat (frev racc) ++ d, Some (end_err_of e), s') /\ is_prefix d (b ++ bodies fs).
Proof.
  intros fuel z s b fs c n racc Hzf Hn Ha Hfu. unfold read_all_z.
  destruct (msg_read_cutz fuel z s b fs c n Hzf Hn Ha Hfu) as [(d & b' & fs' & c' & s' & E & Hc & Ha' & Hl)|(d & s' & E & Hpre & _)].
  - rewrite E. destruct (read_all_cutz (length (r_zout s') + fuel) z s' b' fs' c' n (d :: racc) Hzf Hn Ha' ltac:(lia)) as (d1 & s'' & E' & Hpre).
    exists (d ++ d1), s''. rewrite E'. split.
    + rewrite frev_cons, <- app_assoc. reflexivity.
    + rewrite <- Hc. apply is_prefix_app. exact Hpre.
  - rewrite E. exists d, s'. split; [|exact Hpre]. rewrite frev_cons. reflexivity.
Qed.

(* ---------- a COMPRESSED message: the eager pull gets a prefix of the raw payload and the transport's error ---------- *)
Lemma pull_all_cutz : forall fuel z s b fs c racc, cut_posz z s b fs c -> (length (r_inq s) < fuel)%nat ->
  exists raw s0, pull_all cfg fuel s racc = (concat (frev racc) ++ raw, Some (end_err_of e), s0) /\ is_prefix raw (b ++ bodies fs) /\ quietz z s0.
Proof.
  induction fuel as [|fuel IH]; intros z s b fs c racc Ha Hfu; [lia|].
  cbn [pull_all].
  destruct (raw_read_cutz (S (S fuel)) z s b fs c bufio_size bufio_pos Ha ltac:(lia)) as [(d & b' & fs' & c' & s' & E & Hc & Ha' & Hl)|(d & s' & E & Hpre & Q')].
  - rewrite E. destruct (IH z s' b' fs' c' (d :: racc) Ha' ltac:(lia)) as (raw & s0 & E' & Hp & Q0).
    exists (d ++ raw), s0. rewrite E'. split; [rewrite frev_cons, <- app_assoc; reflexivity|].
    split; [rewrite <- Hc; apply is_prefix_app; exact Hp | exact Q0].
  - rewrite E. exists d, s'. split; [rewrite frev_cons; reflexivity|]. split; [exact Hpre|exact Q'].
Qed.

(* msgReader.Read when the pull ended with the transport's error: inflate what was received (no tail) *)
Lemma msg_read_unpulled_err : forall fuel n s zz s0 out st, r_closed s = false -> (r_lrn s < 0)%Z -> r_flate s = true -> r_zpulled s = false ->
  pull_all cfg fuel s [] = (zz, Some (end_err_of e), s0) -> inflate (r_dict s) zz = (out, st) ->
  msg_read cfg inflate fuel n s =
  match out with
  | [] => ([], Some (zerr_of st), false, set_z s0 out (Some (zerr_of st)))
  | _ :: _ => (firstn n out, None, false, take_z (set_z s0 out (Some (zerr_of st))) (length (firstn n out)))
  end.
Proof. intros fuel n s zz s0 out st Hc Hlr Hfl Hzp Hpull Hinf. unfold msg_read. rewrite Hc.
  destruct (Z.eqb_spec (r_lrn s) 0) as [E0|_]; [lia|].
  destruct (Z.ltb_spec 0 (r_lrn s)) as [E0|_]; [lia|]. cbn [andb]. rewrite Hfl, Hzp, Hpull, Hinf.
  unfold limit_hit. destruct (Z.leb_spec 0 (r_lrn s)) as [E0|_]; [lia|]. cbn [andb].
  destruct st; destruct out; reflexivity. Qed.

Lemma quietz_set_z z s out ze : z_flate z = true -> quietz z s -> quietz (zh out ze out (z_dict z)) (set_z s out ze).
Proof. intros Hzf (Hc & Hz & Hlr & Hlim). subst z. unfold quietz. zsimp. repeat split; auto.
  unfold zof, zh. zsimp. cbn [zof z_flate] in Hzf. rewrite Hzf. reflexivity. Qed.

Lemma quietz_take_z zo ze za dc s k : quietz (zh zo ze za dc) s -> quietz (zh (skipn k zo) ze za dc) (take_z s k).
Proof. intros (Hc & Hz & Hlr & Hlim). unfold zof, zh in Hz. injection Hz as Hfl Hzp Hzo Hze Hza Hdc.
  unfold quietz. zsimp. destruct (Z.ltb_spec (r_lrn s) 0) as [_|E0]; [|lia]. repeat split; auto.
  unfold zof, zh. zsimp. rewrite Hfl, Hzp, Hzo, Hze, Hza, Hdc. reflexivity. Qed.

(* the hand-out loop after a pull, whatever the state of the frame reader: the inflater's output, then how the pull ended *)
Lemma handout_q : forall fuel zo s n racc ze za dc, (0 < n)%nat -> quietz (zh zo ze za dc) s -> (length zo < fuel)%nat ->
  exists s', read_all cfg inflate fuel n s racc = (concat (frev racc) ++ zo, ze, s').
Proof.
  induction fuel as [|fuel IH]; intros zo s n racc ze za dc Hn Q Hfu; [lia|].
  cbn [read_all].
  pose proof Q as (Hc & Hz & Hlr & Hlim). unfold zof, zh in Hz. injection Hz as Hfl Hzp Hzo Hze Hza Hdc.
  rewrite (msg_read_pulled cfg inflate _ n s Hc Hlr Hfl Hzp). rewrite Hzo.
  destruct zo as [|x zo'].
  - rewrite Hze. destruct ze as [err|]; eexists; rewrite frev_cons, !app_nil_r; reflexivity.
  - cbv beta iota. set (zo := x :: zo') in *.
    destruct (IH (skipn (length (firstn n zo)) zo) (take_z s (length (firstn n zo))) n (firstn n zo :: racc) ze za dc Hn
               (quietz_take_z _ _ _ _ _ _ Q)) as (s' & E).
    { rewrite skipn_firstn_len, skipn_length. assert (1 <= length zo)%nat by (unfold zo; cbn [length]; lia). lia. }
    exists s'. rewrite E, frev_cons, <- app_assoc, skipn_firstn_len, firstn_skipn. reflexivity.
Qed.

(* io.ReadAll on a compressed message whose input ends with the transport *)
Lemma read_all_z_flate_cut : forall fuel s b fs c n racc dc, (0 < n)%nat -> cut_posz (z0 true dc) s b fs c -> (length (r_inq s) < fuel)%nat ->
  exists raw s', is_prefix raw (b ++ bodies fs) /\
    read_all_z cfg inflate fuel n s racc = (concat (frev racc) ++ fst (inflate dc raw), Some (zerr_of (snd (inflate dc raw))), s').
Proof.
  intros fuel s b fs c n racc dc Hn Ha Hfu.
  pose proof Ha as (_ & _ & _ & _ & _ & (Hc & Hz & Hlr & Hlim) & He).
  pose proof Hz as Hz'. unfold zof, z0 in Hz'. injection Hz' as Hfl Hzp Hzo Hze Hza Hdc.
  destruct (pull_all_cutz fuel _ s b fs c [] Ha Hfu) as (raw & s0 & EP & Hpre & Q0).
  change (concat (frev (@nil bytes)) ++ raw) with raw in EP.
  exists raw. destruct (inflate dc raw) as [out st] eqn:Einf. cbn [fst snd].
  rewrite <- Hdc in Einf.
  unfold read_all_z. rewrite (msg_read_unpulled_err fuel n s raw s0 out st Hc Hlr Hfl Hzp EP Einf).
  pose proof (quietz_set_z (z0 true dc) s0 out (Some (zerr_of st)) eq_refl Q0) as Q1. cbn [z0 z_dict] in Q1.
  destruct out as [|x out'].
  - eexists. split; [exact Hpre|]. cbv beta iota. rewrite frev_cons. reflexivity.
  - set (out := x :: out') in *. set (s1 := set_z s0 out (Some (zerr_of st))) in *. cbv beta iota.
    destruct (handout_q (length (r_zout (take_z s1 (length (firstn n out)))) + fuel) (skipn (length (firstn n out)) out)
                (take_z s1 (length (firstn n out))) n (firstn n out :: racc) (Some (zerr_of st)) out dc Hn
                (quietz_take_z _ _ _ _ _ _ Q1)) as (s' & E).
    { unfold s1. zsimp. lia. }
    exists s'. split; [exact Hpre|]. rewrite E, frev_cons, <- app_assoc, skipn_firstn_len, firstn_skipn. reflexivity.
Qed.

(* ---------- Conn.reader on a message that was not received completely ---------- *)
Lemma enc_zmsg_split zm : enc_zmsg M zm =
  (concat (map (enc_ctl M) (fr_ctl (sm_first (zm_m zm)))) ++
   enc_hdr (mk_hdr_z (zm_z zm) M (is_nil (sm_rest (zm_m zm))) (sm_typ (zm_m zm)) (fr_key (sm_first (zm_m zm))) (length (fr_body (sm_first (zm_m zm)))))) ++
  wire M (fr_key (sm_first (zm_m zm))) (fr_body (sm_first (zm_m zm))) ++ enc_rest M (sm_rest (zm_m zm)).
Proof. unfold enc_zmsg, enc_frag_z. cbv zeta. rewrite enc_frame_mk_z. rewrite <- !app_assoc. reflexivity. Qed.

Lemma reader_cut_z : forall fuel s z zm c, wf_smsg (zm_m zm) -> flate_on cfg = true -> quietz z s -> r_end s = e -> r_fin s = true ->
  r_inq s = firstn c (enc_zmsg M zm) -> (c < length (enc_zmsg M zm))%nat -> (length (r_inq s) < fuel)%nat ->
  (exists s', reader cfg fuel s = Err (end_err_of e) s') \/
  (exists s1 c1, reader cfg fuel s = Ok (sm_typ (zm_m zm)) s1 /\
     cut_posz (z0 (zm_z zm) (if zm_z zm && negb TK then [] else z_dict z)) s1 (fr_body (sm_first (zm_m zm))) (sm_rest (zm_m zm)) c1 /\
     (length (r_inq s1) <= length (r_inq s))%nat).
Proof.
  intros fuel s z [zz m] c (Ht & (Hcs & Hbw & Hbl & Hkw) & Hwr) Hfo Hq He Hf Hi Hlt Hfu.
  rewrite enc_zmsg_split in Hi, Hlt. cbn [zm_z zm_m] in *.
  pose proof Hq as (Hcl & Hz & Hlr & Hlim).
  assert (Ho : sm_typ m = 0 \/ sm_typ m = 1 \/ sm_typ m = 2) by (destruct Ht; auto).
  assert (Hrsv : zz = true -> flate_on cfg = true /\ (sm_typ m = 1 \/ sm_typ m = 2)) by auto.
  set (h := mk_hdr_z zz M (is_nil (sm_rest m)) (sm_typ m) (fr_key (sm_first m)) (length (fr_body (sm_first m)))) in *.
  set (AH := concat (map (enc_ctl M) (fr_ctl (sm_first m))) ++ enc_hdr h) in *.
  rewrite !app_length, wire_length in Hlt.
  unfold reader. rewrite Hcl, Hf. cbn [negb].
  destruct (Nat.lt_ge_cases c (length AH)) as [Hc1|Hc1].
  - left. rewrite firstn_app_lt in Hi by lia.
    destruct (read_loop_cut_z (fr_ctl (sm_first m)) fuel z s h c Hcs) as (s1 & RL & _); auto.
    { apply mk_hdr_z_wf; auto. destruct Ht as [E|E]; rewrite E; lia. }
    rewrite RL. eexists. reflexivity.
  - right. rewrite firstn_app_ge in Hi by exact Hc1. unfold AH in Hi. rewrite <- app_assoc in Hi. fold AH in Hi.
    set (c1 := (c - length AH)%nat) in *.
    set (tl := firstn c1 (wire M (fr_key (sm_first m)) (fr_body (sm_first m)) ++ enc_rest M (sm_rest m))) in *.
    destruct (read_loop_ctls_z cfg inflate (fr_ctl (sm_first m)) fuel s z zz (is_nil (sm_rest m)) (sm_typ m) (fr_key (sm_first m)) (length (fr_body (sm_first m))) tl
                Hcs Ho Hrsv Hbl Hkw Hq Hi Hfu)
      as (s1 & RL & I1 & Q1 & F1 & P1 & K1 & _ & _).
    assert (E1 : r_end s1 = e).
    { pose proof (read_loop_end cfg fuel s) as X. rewrite RL in X. cbn [res_st] in X. congruence. }
    rewrite RL. cbn [h_opc mk_hdr_z].
    destruct (N.eqb_spec (sm_typ m) 0) as [E0|_]; [destruct Ht as [Ht|Ht]; rewrite Ht in E0; discriminate|].
    eexists. exists c1. split; [reflexivity|].
    destruct Q1 as (Q1a & Q1b & Q1c & Q1d).
    split.
    + unfold cut_posz, quietz. cbn [reset_msg]. zsimp. rewrite wire_key.
      split; [exact I1|]. split; [unfold c1; lia|]. split; [reflexivity|]. split; [reflexivity|]. split; [exact Hwr|].
      split; [|exact E1]. repeat split; auto. rewrite <- Q1b. reflexivity.
    + cbn [reset_msg r_inq]. rewrite I1, Hi. rewrite !app_length. lia.
Qed.

(* ---------- the message during which the transport ended ---------- *)
Lemma run_script_cut_z : forall fuel s z zm c n ops, wf_smsg (zm_m zm) -> flate_on cfg = true -> (0 < n)%nat ->
  quietz z s -> r_end s = e -> (TK = false -> z_dict z = []) -> r_fin s = true ->
  r_inq s = firstn c (enc_zmsg M zm) -> (c < length (enc_zmsg M zm))%nat -> (length (r_inq s) < fuel)%nat ->
  fst (run_script cfg inflate fuel (OReader :: OReadAllN n :: ops) s None) = [ObReader (inr (end_err_of e))] \/
  exists d err, fst (run_script cfg inflate fuel (OReader :: OReadAllN n :: ops) s None) = [ObReader (inl (sm_typ (zm_m zm))); ObMsg d (Some err)] /\
            cut_outcome inflate e (z_dict z) zm d err.
Proof.
  intros fuel s z zm c n ops Hm Hfo Hn Hq He Hinv Hf Hi Hlt Hfu.
  rewrite run_script_pair.
  destruct (reader_cut_z fuel s z zm c Hm Hfo Hq He Hf Hi Hlt Hfu) as [(s' & R)|(s1 & c1 & R & A & L1)].
  - left. rewrite R. reflexivity.
  - right. rewrite R. cbv beta iota. unfold cut_outcome.
    change (sm_payload (zm_m zm)) with (fr_body (sm_first (zm_m zm)) ++ bodies (sm_rest (zm_m zm))).
    destruct (zm_z zm) eqn:Ezz.
    + assert (Hd1 : (if true && negb TK then [] else z_dict z) = z_dict z).
      { destruct TK eqn:Etk; cbn [andb negb]; [reflexivity|]. symmetry. apply Hinv. reflexivity. }
      rewrite Hd1 in A.
      destruct (read_all_z_flate_cut fuel s1 _ _ c1 n [] (z_dict z) Hn A ltac:(lia)) as (raw & s2 & Hpre & RZ).
      rewrite RZ. cbv beta iota. eexists. eexists. split; [reflexivity|].
      exists raw. split; [exact Hpre|]. split; reflexivity.
    + cbn [andb] in A.
      destruct (read_all_z_cutz fuel (z0 false (z_dict z)) s1 _ _ c1 n [] eq_refl Hn A ltac:(lia)) as (d & s2 & RZ & Hpre).
      rewrite RZ. cbv beta iota. exists d, (end_err_of e). split; [reflexivity|]. split; [exact Hpre|reflexivity].
Qed.

End CutZ.

(* ---------- the stream-level theorem ---------- *)
Theorem reader_cut_zstream : forall cfg inflate co ms sizes cut e,
  rc_co cfg = Some co ->                                   (* permessage-deflate has been negotiated *)
  Forall (fun zm => wf_smsg (zm_m zm)) ms ->
  all_inflate_ok inflate (reader_takeover (rc_role cfg) co) [] ms = true ->   (* the complete messages inflate without error *)
  length sizes = length ms -> Forall (fun n => 0 < n)%nat sizes -> e <> EOpen ->
  let masked := role_eqb (rc_role cfg) Server in
  let tk := reader_takeover (rc_role cfg) co in
  let stream := enc_zscript masked ms in
  (cut < length stream)%nat ->
  let r := run cfg inflate (-1)%Z (firstn cut stream) e (read_ops sizes) in
  exists k zm rest, ms = firstn k ms ++ zm :: rest /\ length (firstn k ms) = k /\
    (fst r = expected_zobs inflate tk [] (firstn k ms) ++ [ObReader (inr (end_err_of e))]
     \/ exists d err,
          fst r = expected_zobs inflate tk [] (firstn k ms) ++ [ObReader (inl (sm_typ (zm_m zm))); ObMsg d (Some err)] /\
          cut_outcome inflate e (dict_after inflate tk [] (firstn k ms)) zm d err).
Proof.
  intros cfg inflate co ms sizes cut e Hco Hw Hok Hl Hpos _ masked tk stream Hcut r. subst r stream masked tk.
  change (role_eqb (rc_role cfg) Server) with (is_server cfg) in *. unfold run.
  assert (Htk : rd_takeover cfg = reader_takeover (rc_role cfg) co) by (unfold rd_takeover; rewrite Hco; reflexivity).
  assert (Hfo : flate_on cfg = true) by (unfold flate_on; rewrite Hco; reflexivity).
  rewrite <- Htk in *.
  destruct (cut_splitz (is_server cfg) ms cut Hcut) as (pre & zm & post & c & Hms & Hc & Hstream).
  exists (length pre), zm, post.
  assert (Hpre : firstn (length pre) ms = pre) by (rewrite Hms; apply firstn_app_exact; reflexivity).
  rewrite Hpre. split; [exact Hms|]. split; [reflexivity|].
  set (inq := firstn cut (enc_zscript (is_server cfg) ms)) in *.
  set (fuel := S (S (length inq))).
  destruct (split_sizes sizes pre zm post ltac:(rewrite Hl, Hms; reflexivity)) as (sz1 & n & sz2 & Hsz & Hl1 & Hl2).
  rewrite Hms in Hw. apply Forall_app in Hw. destruct Hw as (Hw1 & Hw2).
  inversion Hw2 as [|m0 ms0 Hm Hw3]. subst m0 ms0.
  rewrite Hsz in Hpos. apply Forall_app in Hpos. destruct Hpos as (Hp1 & Hp2).
  inversion Hp2 as [|n0 sz0 Hn Hp3]. subst n0 sz0.
  rewrite Hms in Hok. apply all_inflate_ok_app in Hok.
  set (tl := firstn c (enc_zmsg (is_server cfg) zm)) in *.
  destruct (run_script_zvalidG cfg inflate e pre sz1 (OReader :: OReadAllN n :: read_ops sz2) fuel
              (r_init (-1) inq e) (zof (r_init (-1) inq e)) tl Hw1 Hfo Hl1 Hp1)
    as (s' & z' & I' & F' & Q' & E' & D' & RS).
  - unfold quietz, r_init. zsimp. repeat split; lia.
  - reflexivity.
  - reflexivity.
  - reflexivity.
  - unfold r_init. zsimp. exact Hstream.
  - unfold r_init, fuel. zsimp. lia.
  - exact Hok.
  - cbn [zof r_init r_dict z_dict] in RS, D'.
    assert (Hfu : (length (r_inq s') < fuel)%nat).
    { rewrite I'. unfold fuel. rewrite Hstream, app_length. lia. }
    assert (Hinv : rd_takeover cfg = false -> z_dict z' = []).
    { intro Etk. rewrite D', Etk. apply dict_after_notk. }
    rewrite Hsz, read_ops_app. change (read_ops (n :: sz2)) with (OReader :: OReadAllN n :: read_ops sz2).
    rewrite RS. rewrite <- D'.
    destruct (run_script_cut_z cfg inflate e fuel s' z' zm c n (read_ops sz2) Hm Hfo Hn Q' E' Hinv F' I' Hc Hfu) as [E|(d & err & E & Hd)].
    + left. destruct (run_script cfg inflate fuel (OReader :: OReadAllN n :: read_ops sz2) s' None) as [o s2].
      cbn [fst] in E |- *. rewrite E. reflexivity.
    + right. exists d, err. split; [|exact Hd].
      destruct (run_script cfg inflate fuel (OReader :: OReadAllN n :: read_ops sz2) s' None) as [o s2].
      cbn [fst] in E |- *. rewrite E. reflexivity.
Qed.

(* ---------- non-vacuity: ex_ms of ReaderZP (compressed text message in three fragments with a Ping, compressed binary
   message, uncompressed message), a server with context takeover ---------- *)
(* a streaming toy inflater: everything it is given, then the first two bytes of the dictionary; never an error *)
Definition toy_need (d z : bytes) : bytes * istatus := (z ++ firstn 2 d, INeedMore).
(* a strict one: input that does not end in 00 00 ff ff is corrupt after its first byte *)
Fixpoint ends_tail (z : bytes) : bool :=
  match z with
  | [] => false
  | x :: r => match z with [0; 0; 255; 255] => true | _ => ends_tail r end
  end.
Definition toy_strict (d z : bytes) : bytes * istatus :=
  if ends_tail z then (firstn (length z - 4) z ++ firstn 2 d, INeedMore) else (firstn 1 z, ICorrupt).

Example reader_cut_zstream_examples :
  let cfg := {| rc_role := Server; rc_co := Some {| cnct := false; snct := true |} |} in
  let ccfg := {| rc_role := Client; rc_co := Some {| cnct := false; snct := false |} |} in
  let obs c i st en := fst (run c i (-1)%Z st en (read_ops [2; 1; 7]%nat)) in
  let stream := enc_zscript true ex_ms in        (* 46 bytes; the first message ends at 31, the second at 38 *)
  all_inflate_ok toy_need true [] ex_ms = true /\ all_inflate_ok toy_strict true [] ex_ms = true /\
  (* the last payload byte of the FINAL frame of the first (compressed) message is missing: no clean end *)
  obs cfg toy_need (firstn 30 stream) EFail = [ObReader (inl 1); ObMsg [10; 11; 12; 13] (Some RETransFail)] /\
  obs cfg toy_strict (firstn 30 stream) EEof = [ObReader (inl 1); ObMsg [10] (Some REOther)] /\
  (* inside the header of its final frame; inside the Ping between its fragments; between two fragments *)
  obs cfg toy_need (firstn 25 stream) EEof = [ObReader (inl 1); ObMsg [10; 11; 12] (Some RETransEof)] /\
  obs cfg toy_need (firstn 18 stream) EEof = [ObReader (inl 1); ObMsg [10; 11; 12] (Some RETransEof)] /\
  obs cfg toy_need (firstn 9 stream) EEof = [ObReader (inl 1); ObMsg [10; 11; 12] (Some RETransEof)] /\
  (* inside the first header: the Reader call fails *)
  obs cfg toy_need (firstn 5 stream) EFail = [ObReader (inr RETransFail)] /\
  (* the only payload byte of the second compressed message is missing: the first is delivered as in the uncut stream,
     the second gives what the inflater makes of no input with the dictionary left by the first *)
  obs cfg toy_need (firstn 37 stream) EEof =
    expected_zobs toy_need true [] (firstn 1 ex_ms) ++ [ObReader (inl 2); ObMsg [10; 11] (Some RETransEof)] /\
  fst (toy_need (dict_after toy_need true [] (firstn 1 ex_ms)) []) = [10; 11] /\
  (* the last (uncompressed) message cut: a prefix of its payload *)
  obs cfg toy_strict (firstn 45 stream) EEof =
    expected_zobs toy_strict true [] (firstn 2 ex_ms) ++ [ObReader (inl 2); ObMsg [30] (Some RETransEof)] /\
  (* a client (unmasked stream, 22 bytes): the final frame of the first message lacks its last byte *)
  obs ccfg toy_need (firstn 14 (enc_zscript false ex_ms)) EFail = [ObReader (inl 1); ObMsg [10; 11; 12; 13] (Some RETransFail)] /\
  obs ccfg toy_strict (firstn 14 (enc_zscript false ex_ms)) EFail = [ObReader (inl 1); ObMsg [10] (Some REOther)].
Proof. vm_compute. repeat split. Qed.

Print Assumptions reader_cut_zstream.
