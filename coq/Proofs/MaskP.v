(* Proofs/MaskP.v — maskGo equals mask_spec for every length and key; composition; involution. *)
From Coq Require Import List NArith Lia ZArith ZifyN ZifyNat ZifyBool.
From WS Require Import Base.Words Model.Mask.
Import ListNotations.
Open Scope N_scope.
Ltac Zify.zify_post_hook ::= Z.div_mod_to_equations.

Lemma xorc_app4 k0 k1 k2 k3 a b c d r : xorc k0 k1 k2 k3 (a::b::c::d::r) = [N.lxor a k0; N.lxor b k1; N.lxor c k2; N.lxor d k3] ++ xorc k0 k1 k2 k3 r.
Proof. reflexivity. Qed.

Lemma xorc_length : forall l a b c d, length (xorc a b c d l) = length l.
Proof. induction l; intros; cbn [xorc length]; auto. Qed.

Lemma xorc_app k0 k1 k2 k3 : forall (n : nat) a b, length a = (4 * n)%nat ->
  xorc k0 k1 k2 k3 (a ++ b) = xorc k0 k1 k2 k3 a ++ xorc k0 k1 k2 k3 b.
Proof. induction n as [|n IH]; intros a b H.
  - destruct a; [reflexivity | cbn in H; lia].
  - destruct a as [|a0 [|a1 [|a2 [|a3 a]]]]; cbn [length] in H; try lia.
    cbn [app]. rewrite !xorc_app4. rewrite IH by lia. reflexivity. Qed.

Lemma x64_spec k w : wf_key k -> wf_bytes w -> length w = 8%nat -> xor_word (key8 k) w = mask_spec k w.
Proof. destruct k as [[[k0 k1] k2] k3]. intros (H0&H1&H2&H3) Hw HL.
  rewrite xor_word_spec; auto.
  - destruct w as [|a [|b [|c [|d [|e [|f [|g [|h [|]]]]]]]]]; cbn in HL; try lia. reflexivity.
  - unfold key8, key4, wf_bytes. repeat constructor; auto. Qed.
Lemma x32_spec k w : wf_key k -> wf_bytes w -> length w = 4%nat -> xor_word (key4 k) w = mask_spec k w.
Proof. destruct k as [[[k0 k1] k2] k3]. intros (H0&H1&H2&H3) Hw HL.
  rewrite xor_word_spec; auto.
  - destruct w as [|a [|b [|c [|d [|]]]]]; cbn in HL; try lia. reflexivity.
  - unfold key4, wf_bytes. repeat constructor; auto. Qed.

Lemma words_spec k (w q : nat) f : w = (4 * q)%nat -> (0 < q)%nat ->
  (forall x, wf_bytes x -> length x = w -> f x = mask_spec k x) ->
  forall fuel (m : nat) b, wf_bytes b -> length b = (m * w)%nat -> (m <= fuel)%nat -> words fuel w f b = mask_spec k b.
Proof. intros Hw Hq Hf. induction fuel as [|fu IH]; intros m b Hb HL Hm.
  - assert (m = 0)%nat by lia. subst m. destruct b; [destruct k as [[[? ?] ?] ?]; reflexivity | cbn in HL; lia].
  - cbn [words]. destruct b as [|x b']; [destruct k as [[[? ?] ?] ?]; reflexivity|].
    remember (x :: b') as b eqn:E.
    assert (1 <= m)%nat by (destruct m; [subst b; cbn in HL; lia | lia]).
    rewrite <- (firstn_skipn w b) at 3.
    destruct k as [[[k0 k1] k2] k3]. unfold mask_spec in *.
    rewrite (xorc_app k0 k1 k2 k3 q).
    + rewrite Hf. * f_equal. apply (IH (m-1)%nat). -- apply wf_skipn; auto. -- rewrite skipn_length. nia. -- lia.
      * apply wf_firstn; auto. * rewrite firstn_length. nia.
    + rewrite firstn_length. nia. Qed.

Lemma block_loop_spec k (blk w q : nat) f : w = (4 * q)%nat -> (0 < q)%nat -> (exists m, blk = m * w /\ 0 < m)%nat ->
  (forall x, wf_bytes x -> length x = w -> f x = mask_spec k x) ->
  forall fuel b p r, wf_bytes b -> (length b <= fuel)%nat -> block_loop fuel blk w f b = (p, r) ->
    mask_spec k b = p ++ mask_spec k r /\ (length r < blk)%nat /\ wf_bytes r /\ (exists j, length p = 4 * j)%nat /\ length b = (length p + length r)%nat.
Proof. intros Hw Hq (m & Hblk & Hm) Hf. induction fuel as [|fu IH]; intros b p r Hb Hfu H.
  - cbn in H. inversion H; subst p r. destruct b; cbn in Hfu; try lia. repeat split; auto; try (cbn; nia). exists 0%nat; reflexivity.
  - cbn [block_loop] in H. destruct (Nat.leb_spec blk (length b)) as [Hle|Hlt].
    + destruct (block_loop fu blk w f (skipn blk b)) as [p' r'] eqn:E. inversion H; subst p r; clear H.
      apply IH in E; [| apply wf_skipn; auto | rewrite skipn_length; nia].
      destruct E as (E1 & E2 & E3 & (j & E4) & E5).
      assert (HF: length (firstn blk b) = blk) by (rewrite firstn_length; lia).
      assert (HW: words blk w f (firstn blk b) = mask_spec k (firstn blk b)).
      { apply (words_spec k w q f Hw Hq Hf blk m); auto. apply wf_firstn; auto. lia. nia. }
      rewrite HW. repeat split; auto.
      * rewrite <- (firstn_skipn blk b) at 1. destruct k as [[[k0 k1] k2] k3]. unfold mask_spec in *.
        rewrite (xorc_app k0 k1 k2 k3 (m*q)%nat) by nia. rewrite E1. rewrite app_assoc. reflexivity.
      * exists (m*q + j)%nat. rewrite app_length. destruct k as [[[k0 k1] k2] k3]. unfold mask_spec.
        rewrite xorc_length. nia.
      * rewrite app_length. rewrite skipn_length in E5.
        destruct k as [[[k0 k1] k2] k3]. unfold mask_spec.
        rewrite xorc_length. lia.
    + inversion H; subst p r. repeat split; auto. exists 0%nat; reflexivity. Qed.

Lemma tail_loop_spec : forall b k0 k1 k2 k3, tail_loop k0 k1 k2 k3 b = (xorc k0 k1 k2 k3 b, rotk (k0,k1,k2,k3) (length b)) \/ (4 <= length b)%nat.
Proof. intros b k0 k1 k2 k3.
  destruct b as [|a [|b0 [|c [|d r]]]]; [left; reflexivity | left; reflexivity | left; reflexivity | | right; cbn; lia].
  left; reflexivity. Qed.

Lemma rotk_add k (j t : nat) : rotk k (4 * j + t) = rotk k t.
Proof. destruct k as [[[k0 k1] k2] k3]. unfold rotk. replace (Nat.modulo (4*j+t) 4) with (Nat.modulo t 4); auto.
  rewrite Nat.add_comm, Nat.mul_comm, Nat.mod_add; auto. Qed.

Theorem maskGo_spec : forall k b, wf_key k -> wf_bytes b -> maskGo k b = (mask_spec k b, rotk k (length b)).
Proof.
  intros k b Hk Hb. unfold maskGo.
  assert (F64 : forall x, wf_bytes x -> length x = 8%nat -> xor_word (key8 k) x = mask_spec k x) by (intros; apply x64_spec; auto).
  assert (F32 : forall x, wf_bytes x -> length x = 4%nat -> xor_word (key4 k) x = mask_spec k x) by (intros; apply x32_spec; auto).
  set (n := length b).
  assert (P1 : exists o1 b1, (if Nat.leb 8 n then
       let '(p128, r) := block_loop n 128 8 (xor_word (key8 k)) b in
       let '(p64, r) := block_loop n 64 8 (xor_word (key8 k)) r in
       let '(p32, r) := block_loop n 32 8 (xor_word (key8 k)) r in
       let '(p16, r) := block_loop n 16 8 (xor_word (key8 k)) r in
       let '(p8, r) := block_loop n 8 8 (xor_word (key8 k)) r in
       (p128 ++ p64 ++ p32 ++ p16 ++ p8, r) else ([], b)) = (o1, b1)
     /\ mask_spec k b = o1 ++ mask_spec k b1 /\ wf_bytes b1 /\ (exists j, length o1 = 4 * j)%nat /\ length b = (length o1 + length b1)%nat).
  { destruct (Nat.leb 8 n).
    - destruct (block_loop n 128 8 (xor_word (key8 k)) b) as [p128 r1] eqn:E1.
      apply (block_loop_spec k 128 8 2 _ eq_refl) in E1; [ | lia | exists 16%nat; lia | exact F64 | assumption | unfold n; lia ].
      destruct E1 as (A1 & _ & W1 & (j1 & L1) & S1).
      destruct (block_loop n 64 8 (xor_word (key8 k)) r1) as [p64 r2] eqn:E2.
      apply (block_loop_spec k 64 8 2 _ eq_refl) in E2; [ | lia | exists 8%nat; lia | exact F64 | assumption | unfold n; lia ].
      destruct E2 as (A2 & _ & W2 & (j2 & L2) & S2).
      destruct (block_loop n 32 8 (xor_word (key8 k)) r2) as [p32 r3] eqn:E3.
      apply (block_loop_spec k 32 8 2 _ eq_refl) in E3; [ | lia | exists 4%nat; lia | exact F64 | assumption | unfold n; lia ].
      destruct E3 as (A3 & _ & W3 & (j3 & L3) & S3).
      destruct (block_loop n 16 8 (xor_word (key8 k)) r3) as [p16 r4] eqn:E4.
      apply (block_loop_spec k 16 8 2 _ eq_refl) in E4; [ | lia | exists 2%nat; lia | exact F64 | assumption | unfold n; lia ].
      destruct E4 as (A4 & _ & W4 & (j4 & L4) & S4).
      destruct (block_loop n 8 8 (xor_word (key8 k)) r4) as [p8 r5] eqn:E5.
      apply (block_loop_spec k 8 8 2 _ eq_refl) in E5; [ | lia | exists 1%nat; lia | exact F64 | assumption | unfold n; lia ].
      destruct E5 as (A5 & _ & W5 & (j5 & L5) & S5).
      exists (p128 ++ p64 ++ p32 ++ p16 ++ p8), r5. repeat split; auto.
      + rewrite A1, A2, A3, A4, A5. rewrite <- !app_assoc. reflexivity.
      + exists (j1+j2+j3+j4+j5)%nat. rewrite !app_length. lia.
      + rewrite !app_length. lia.
    - exists [], b. repeat split; auto. exists 0%nat; reflexivity. }
  destruct P1 as (o1 & b1 & -> & A & W1 & (j & L1) & S1).
  destruct (block_loop n 4 4 (xor_word (key4 k)) b1) as [p4 b2] eqn:E4.
  apply (block_loop_spec k 4 4 1 _ eq_refl) in E4; [ | lia | exists 1%nat; lia | exact F32 | assumption | unfold n; lia ].
  destruct E4 as (A4 & Lt & W2 & (j4 & L4) & S4).
  destruct k as [[[k0 k1] k2] k3].
  destruct (tail_loop_spec b2 k0 k1 k2 k3) as [T|T]; [| lia].
  rewrite T. f_equal.
  - rewrite A, A4. unfold mask_spec. reflexivity.
  - replace n with (4 * (j + j4) + length b2)%nat by (unfold n; lia). rewrite rotk_add. reflexivity.
Qed.

(* ---------- the specification itself: composition, involution ---------- *)
Lemma rotk_wf k n : wf_key k -> wf_key (rotk k n).
Proof. destruct k as [[[k0 k1] k2] k3]. unfold rotk, wf_key. intros (H0&H1&H2&H3).
  destruct (Nat.modulo n 4) as [|[|[|?]]]; auto. Qed.

Lemma xorc_rot : forall b1 k0 k1 k2 k3 b2,
  xorc k0 k1 k2 k3 (b1 ++ b2) = xorc k0 k1 k2 k3 b1 ++ mask_spec (rotk (k0,k1,k2,k3) (length b1)) b2.
Proof. induction b1 as [|x b1 IH]; intros k0 k1 k2 k3 b2.
  - reflexivity.
  - cbn [app xorc length]. rewrite IH. f_equal. f_equal.
    unfold rotk.
    assert (E : (S (length b1) mod 4 = (length b1 mod 4 + 1) mod 4)%nat).
    { replace (S (length b1)) with (length b1 + 1)%nat by lia. rewrite Nat.add_mod by lia.
      reflexivity. }
    rewrite E. pose proof (Nat.mod_upper_bound (length b1) 4 ltac:(lia)) as Hb.
    destruct (length b1 mod 4)%nat as [|[|[|[|?]]]]; try lia; reflexivity. Qed.

Theorem mask_compose : forall k b1 b2, mask_spec k (b1 ++ b2) = mask_spec k b1 ++ mask_spec (rotk k (length b1)) b2.
Proof. intros [[[k0 k1] k2] k3] b1 b2. unfold mask_spec at 1 2. apply xorc_rot. Qed.

Lemma rotk_rotk k a b : rotk (rotk k a) b = rotk k (a + b).
Proof. destruct k as [[[k0 k1] k2] k3]. unfold rotk.
  rewrite (Nat.add_mod a b 4) by lia.
  pose proof (Nat.mod_upper_bound a 4 ltac:(lia)). pose proof (Nat.mod_upper_bound b 4 ltac:(lia)).
  destruct (a mod 4)%nat as [|[|[|[|?]]]]; try lia; destruct (b mod 4)%nat as [|[|[|[|?]]]]; try lia; reflexivity. Qed.

Lemma mask_spec_length k b : length (mask_spec k b) = length b.
Proof. destruct k as [[[k0 k1] k2] k3]. apply xorc_length. Qed.

Lemma mask_spec_wf k b : wf_key k -> wf_bytes b -> wf_bytes (mask_spec k b).
Proof. destruct k as [[[k0 k1] k2] k3]. unfold mask_spec. revert k0 k1 k2 k3.
  induction b as [|x b IH]; intros k0 k1 k2 k3 (H0&H1&H2&H3) Hb; cbn [xorc]; constructor.
  - inversion Hb; subst. apply lxor_lt256; auto.
  - inversion Hb; subst. apply IH; auto. repeat split; auto. Qed.

Theorem mask_pieces : forall ps k acc, wf_key k -> Forall wf_bytes ps ->
  fold_left mask_piece ps (acc, k) = (acc ++ mask_spec k (concat ps), rotk k (length (concat ps))).
Proof. induction ps as [|p ps IH]; intros k acc Hk Hps.
  - destruct k as [[[k0 k1] k2] k3]. cbn. rewrite app_nil_r. reflexivity.
  - inversion Hps; subst. cbn [fold_left concat]. unfold mask_piece at 2. rewrite maskGo_spec by auto.
    rewrite IH by (auto using rotk_wf). rewrite mask_compose, app_length, rotk_rotk, app_assoc. reflexivity. Qed.

Lemma lxor_twice a b : N.lxor (N.lxor a b) b = a.
Proof. rewrite N.lxor_assoc, N.lxor_nilpotent, N.lxor_0_r. reflexivity. Qed.

Theorem mask_involution : forall k b, mask_spec k (mask_spec k b) = b.
Proof. intros [[[k0 k1] k2] k3] b. unfold mask_spec. revert k0 k1 k2 k3.
  induction b as [|x b IH]; intros; cbn [xorc]; auto. rewrite lxor_twice, IH. reflexivity. Qed.

(* pointwise form of the specification: byte i is xored with key byte (i mod 4) *)
Definition key_byte (k : key) (i : nat) : N :=
  let '(k0,k1,k2,k3) := k in match Nat.modulo i 4 with 0%nat => k0 | 1%nat => k1 | 2%nat => k2 | _ => k3 end.
Theorem mask_spec_nth : forall b k i, (i < length b)%nat ->
  nth i (mask_spec k b) 0 = N.lxor (nth i b 0) (key_byte k i).
Proof. induction b as [|x b IH]; intros [[[k0 k1] k2] k3] i Hi; cbn [length] in Hi; [lia|].
  destruct i as [|i].
  - reflexivity.
  - cbn [mask_spec xorc nth]. specialize (IH (k1,k2,k3,k0) i ltac:(lia)). cbn [mask_spec] in IH. rewrite IH. f_equal.
    unfold key_byte.
    assert (E : (S i mod 4 = (i mod 4 + 1) mod 4)%nat).
    { replace (S i) with (i + 1)%nat by lia. rewrite Nat.add_mod by lia. reflexivity. }
    rewrite E. pose proof (Nat.mod_upper_bound i 4 ltac:(lia)) as Hb.
    destruct (i mod 4)%nat as [|[|[|[|?]]]]; try lia; reflexivity. Qed.
