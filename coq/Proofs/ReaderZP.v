(* Proofs/ReaderZP.v — stream-level refinement WITH permessage-deflate: on the encoding of any well-formed script in
   which any of the messages are compressed (RSV1 on their first data frame), for EVERY inflater, the Reader model
   hands the inflater exactly the concatenated payload of the message's fragments plus 00 00 ff ff, with exactly the
   right dictionary, and delivers exactly the inflater's output (both roles, both takeover settings, arbitrary
   fragmentation, Ping/Pong anywhere, arbitrary positive buffer sizes, no limit). *)
From Coq Require Import List NArith Lia ZArith ZifyN ZifyNat ZifyBool Bool.
From WS Require Import Base.Words Gen.Consts Gen.CloseCode Model.Mask Model.Frame Model.Proto Model.CloseCodec Model.RefDecoder
  Model.Reader Model.Script Model.ScriptZ Proofs.MaskP Proofs.FrameP Proofs.ReaderRefP.
Import ListNotations.
Open Scope N_scope.
Ltac Zify.zify_post_hook ::= Z.div_mod_to_equations.

(* ---------- headers with RSV1 ---------- *)
Lemma enc_frame_mk_z r m fin opc k p :
  enc_frame (mk_hdr_z r m fin opc k (length p), p) = enc_hdr (mk_hdr_z r m fin opc k (length p)) ++ wire m k p.
Proof. unfold enc_frame, mk_hdr_z. cbn [h_masked h_key]. destruct m; reflexivity. Qed.

Lemma mk_hdr_z_wf r m fin opc k n : opc < 16 -> N.of_nat n < 9223372036854775808 -> wf_key k -> wf_hdr (mk_hdr_z r m fin opc k n).
Proof. intros Ho Hn Hk. unfold wf_hdr, mk_hdr_z. cbn [h_opc h_plen h_key h_masked].
  split; [exact Ho|]. split; [exact Hn|]. split.
  - destruct m; [exact Hk | exact zero_key_wf].
  - intro E. rewrite E. reflexivity. Qed.

Lemma bufio_pos : (0 < bufio_size)%nat.
Proof. unfold bufio_size. lia. Qed.

Lemma skipn_firstn_len {A} : forall n (l : list A), skipn (length (firstn n l)) l = skipn n l.
Proof. induction n as [|n IH]; intros [|x l]; cbn [firstn length skipn]; auto. Qed.

Lemma lastn_length {A} n (l : list A) : (length (lastn n l) <= n)%nat.
Proof. unfold lastn. rewrite skipn_length. lia. Qed.

(* ---------- the compression-related part of the state ---------- *)
Record zst := { z_flate : bool; z_pulled : bool; z_out : bytes; z_err : option rerr; z_all : bytes; z_dict : bytes }.
Definition zof (s : rst) : zst :=
  {| z_flate := r_flate s; z_pulled := r_zpulled s; z_out := r_zout s; z_err := r_zerr s; z_all := r_zall s; z_dict := r_dict s |}.

(* field-level invariant: open, no limit, compression state z *)
Definition quietz (z : zst) (s : rst) : Prop := r_closed s = false /\ zof s = z /\ (r_lrn s < 0)%Z /\ (r_limit s < 0)%Z.

Ltac zsimp := cbn [r_inq r_end r_closed r_close_sent r_limit r_fin r_plen r_key r_flate r_lrn r_zout r_zpulled r_zerr r_zall
                   r_dict r_replies r_pongs set_inq set_frame sub_plen add_pong_note sub_lrn set_z take_z reset_msg
                   h_fin h_rsv1 h_rsv2 h_rsv3 h_opc h_masked h_key h_plen mk_hdr mk_hdr_z
                   z_flate z_pulled z_out z_err z_all z_dict].

Section ZRef.
Variable cfg : rcfg.
Variable inflate : bytes -> bytes -> bytes * istatus.
Local Notation M := (is_server cfg).
Local Notation TK := (rd_takeover cfg).

(* ---------- L1: readLoop handles the control frames and returns the data header (RSV1 allowed on a first frame) ---------- *)
Lemma read_loop_ctls_z : forall cs fuel s z rsv fin opc k n tl,
  Forall wf_ctl cs -> (opc = 0 \/ opc = 1 \/ opc = 2) -> (rsv = true -> flate_on cfg = true /\ (opc = 1 \/ opc = 2)) ->
  N.of_nat n < 9223372036854775808 -> wf_key k ->
  quietz z s ->
  r_inq s = concat (map (enc_ctl M) cs) ++ enc_hdr (mk_hdr_z rsv M fin opc k n) ++ tl ->
  (length (r_inq s) < fuel)%nat ->
  exists s', read_loop cfg fuel s = Ok (mk_hdr_z rsv M fin opc k n) s' /\
    r_inq s' = tl /\ quietz z s' /\ r_fin s' = r_fin s /\ r_plen s' = r_plen s /\ r_key s' = r_key s /\
    r_replies s' = r_replies s ++ pw cs /\ r_pongs s' = r_pongs s ++ pn cs.
Proof.
  induction cs as [|c cs IH]; intros fuel s z rsv fin opc k n tl Hcs Ho Hrsv Hn Hk Hq Hi Hfu.
  - destruct fuel as [|fuel]; [lia|]. cbn [read_loop]. cbn [map concat app] in Hi.
    destruct Hq as (Hc & Hz & Hlr & Hlim). subst z.
    assert (Hrs : rsv && (negb (flate_on cfg) || negb (is_data_first opc)) = false).
    { destruct rsv; [|reflexivity]. destruct (Hrsv eq_refl) as (Hfo & [E|E]); rewrite Hfo, E; reflexivity. }
    unfold read_hdr. rewrite Hc, Hi.
    rewrite dec_enc by (apply mk_hdr_z_wf; auto; lia).
    cbn [h_rsv1 h_rsv2 h_rsv3 h_masked h_opc mk_hdr_z]. rewrite Hrs. cbn [orb].
    destruct M; cbn [negb andb orb].
    + exists (set_inq s tl). split.
      * destruct Ho as [-> | [-> | ->]]; reflexivity.
      * zsimp. unfold quietz. zsimp. cbn [pw pn flat_map]. rewrite !app_nil_r. repeat split; auto.
    + exists (set_inq s tl). split.
      * destruct Ho as [-> | [-> | ->]]; reflexivity.
      * zsimp. unfold quietz. zsimp. cbn [pw pn flat_map]. rewrite !app_nil_r. repeat split; auto.
  - destruct fuel as [|fuel]; [lia|]. cbn [read_loop].
    inversion Hcs as [|c0 cs0 Hc0 Hcs']. subst c0 cs0.
    destruct Hc0 as (Hopc & Hpw & Hpl & Hck).
    cbn [map concat] in Hi. unfold enc_ctl at 1 in Hi. rewrite enc_frame_mk in Hi. rewrite <- !app_assoc in Hi.
    destruct Hq as (Hc & Hz & Hlr & Hlim).
    unfold read_hdr. rewrite Hc, Hi.
    rewrite dec_enc by (apply mk_hdr_wf; [destruct Hopc as [E|E]; rewrite E; lia | lia | exact Hck]).
    set (rest := concat (map (enc_ctl M) cs) ++ enc_hdr (mk_hdr_z rsv M fin opc k n) ++ tl) in *.
    assert (HC : exists s2, handle_control (set_inq s (wire M (c_key c) (c_payload c) ++ rest))
                    (mk_hdr M true (c_opc c) (c_key c) (length (c_payload c))) = Ok tt s2 /\
                 r_inq s2 = rest /\ quietz z s2 /\ r_fin s2 = r_fin s /\ r_plen s2 = r_plen s /\ r_key s2 = r_key s /\
                 r_replies s2 = r_replies s ++ pw [c] /\ r_pongs s2 = r_pongs s ++ pn [c]).
    { unfold handle_control. cbn [h_plen h_fin h_masked h_key h_opc mk_hdr negb].
      destruct (N.ltb_spec 125 (N.of_nat (length (c_payload c)))) as [Hbad|_]; [lia|].
      rewrite Nat2N.id. rewrite <- (wire_length M (c_key c) (c_payload c)).
      rewrite (read_payload_app _ (wire M (c_key c) (c_payload c)) rest) by (zsimp; auto).
      assert (EP : (if M then mask_spec (if M then c_key c else zero_key) (wire M (c_key c) (c_payload c)) else wire M (c_key c) (c_payload c)) = c_payload c).
      { destruct M; cbn [wire]; [apply mask_involution | reflexivity]. }
      rewrite EP. cbn [pw pn flat_map]. rewrite !app_nil_r. subst z.
      destruct Hopc as [E9 | E10]; rewrite E9 || rewrite E10.
      - change (9 =? 9) with true. change (9 =? 10) with false. cbv iota.
        eexists. split; [reflexivity|]. rewrite add_pong_reply. unfold quietz. zsimp. rewrite app_nil_r. repeat split; auto.
      - change (10 =? 9) with false. change (10 =? 10) with true. cbv iota.
        eexists. split; [reflexivity|]. unfold quietz. zsimp. rewrite app_nil_r. repeat split; auto. }
    destruct HC as (s2 & HC & I2 & Q2 & F2 & P2 & K2 & R2 & G2).
    cbn [h_rsv1 h_rsv2 h_rsv3 h_masked h_opc mk_hdr andb orb].
    assert (Hctl : ((c_opc c =? 8) || (c_opc c =? 9) || (c_opc c =? 10)) = true).
    { destruct Hopc as [-> | ->]; reflexivity. }
    destruct (IH fuel s2 z rsv fin opc k n tl Hcs' Ho Hrsv Hn Hk Q2) as (s' & RL & I' & Q' & F' & P' & K' & R' & G').
    { rewrite I2. reflexivity. }
    { rewrite I2. rewrite Hi in Hfu. rewrite !app_length in Hfu. pose proof (enc_hdr_len2 (mk_hdr M true (c_opc c) (c_key c) (length (c_payload c)))). fold rest in Hfu. lia. }
    exists s'. split.
    + destruct M; cbn [negb andb orb]; rewrite Hctl; rewrite HC; exact RL.
    + split; [exact I'|]. split; [exact Q'|]. split; [congruence|]. split; [congruence|]. split; [congruence|].
      split.
      * rewrite R', R2. change (c :: cs) with ([c] ++ cs). rewrite pw_app, app_assoc. reflexivity.
      * rewrite G', G2. change (c :: cs) with ([c] ++ cs). rewrite pn_app, app_assoc. reflexivity.
Qed.

(* ---------- state descriptor: b = unread (unmasked) bytes of the current fragment, fs = fragments still to come ---------- *)
Definition at_posz (z : zst) (s : rst) (b : bytes) (fs : list frag) (tl : bytes) : Prop :=
  r_inq s = wire M (r_key s) b ++ enc_rest M fs ++ tl /\ r_plen s = N.of_nat (length b) /\ r_fin s = is_nil fs /\
  Forall wf_frag fs /\ quietz z s.

Definition finalz (z : zst) (s' : rst) (tl : bytes) (rp : list reply) (pg : list bytes) : Prop :=
  r_inq s' = tl /\ r_fin s' = true /\ quietz z s' /\ r_replies s' = rp /\ r_pongs s' = pg.

Lemma at_posz_sub_lrn z s b fs tl k : at_posz z s b fs tl -> at_posz z (sub_lrn s k) b fs tl.
Proof. intros (Hi & Hp & Hf & Hw & Hc & Hz & Hlr & Hlim). unfold at_posz, quietz. rewrite sub_lrn_neg by exact Hlr.
  cbn [sub_lrn r_inq r_key r_plen r_fin r_closed r_limit]. repeat split; auto. Qed.

Lemma finalz_sub_lrn z s tl rp pg k : finalz z s tl rp pg -> finalz z (sub_lrn s k) tl rp pg.
Proof. intros (Hi & Hf & (Hc & Hz & Hlr & Hlim) & Hr & Hg). unfold finalz, quietz. rewrite sub_lrn_neg by exact Hlr.
  cbn [sub_lrn r_inq r_key r_plen r_fin r_closed r_limit r_replies r_pongs]. repeat split; auto. Qed.

(* ---------- one msgReader.read call on the raw payload stream (compressed or not) ---------- *)
Definition stepz_data (z : zst) (res : bytes * option rerr * bool * rst) (s : rst) (b : bytes) (fs : list frag) (tl : bytes) : Prop :=
  exists d b' fs' s', res = (d, None, false, s') /\ d <> [] /\
       d ++ b' ++ bodies fs' = b ++ bodies fs /\ at_posz z s' b' fs' tl /\
       r_replies s' ++ pw (ctls fs') = r_replies s ++ pw (ctls fs) /\
       r_pongs s' ++ pn (ctls fs') = r_pongs s ++ pn (ctls fs) /\
       (length (r_inq s') < length (r_inq s))%nat.
Definition stepz_eof (z : zst) (res : bytes * option rerr * bool * rst) (s : rst) (b : bytes) (fs : list frag) (tl : bytes) : Prop :=
  exists s', res = ([], None, true, s') /\ b = [] /\ bodies fs = [] /\
       finalz z s' tl (r_replies s ++ pw (ctls fs)) (r_pongs s ++ pn (ctls fs)).

Lemma raw_read_stepz : forall fuel z s b fs tl n, (0 < n)%nat -> at_posz z s b fs tl -> (length (r_inq s) < fuel)%nat ->
  stepz_data z (raw_read cfg fuel n s) s b fs tl \/ stepz_eof z (raw_read cfg fuel n s) s b fs tl.
Proof.
  induction fuel as [|fuel IH]; intros z s b fs tl n Hn (Hi & Hp & Hf & Hw & Hq) Hfu; [lia|].
  destruct b as [|x b0].
  - cbn [length] in Hp. cbn [raw_read]. destruct (N.eqb_spec (r_plen s) 0) as [_|Hne]; [|lia].
    rewrite wire_nil in Hi. cbn [app] in Hi.
    destruct fs as [|f r].
    + right. cbn [is_nil] in Hf. rewrite Hf. exists s. cbn [enc_rest app] in Hi.
      split; [reflexivity|]. split; [reflexivity|]. split; [reflexivity|].
      unfold finalz, ctls. cbn [map concat pw pn flat_map]. rewrite !app_nil_r. auto 10.
    + cbn [is_nil] in Hf. rewrite Hf. cbn [negb].
      cbn [enc_rest] in Hi. unfold enc_frag in Hi. rewrite enc_frame_mk in Hi. rewrite <- !app_assoc in Hi.
      inversion Hw as [|f0 r0 Hwf Hwr]. subst f0 r0.
      destruct Hwf as (Hcs & Hbw & Hbl & Hkw).
      assert (Hnr : false = true -> flate_on cfg = true /\ (0 = 1 \/ 0 = 2)) by discriminate.
      change (mk_hdr M (is_nil r) 0 (fr_key f) (length (fr_body f))) with (mk_hdr_z false M (is_nil r) 0 (fr_key f) (length (fr_body f))) in Hi.
      destruct (read_loop_ctls_z (fr_ctl f) (S fuel) s z false (is_nil r) 0 (fr_key f) (length (fr_body f))
                  (wire M (fr_key f) (fr_body f) ++ enc_rest M r ++ tl) Hcs (or_introl eq_refl) Hnr Hbl Hkw Hq Hi Hfu)
        as (s1 & RL & I1 & Q1 & F1 & P1 & K1 & R1 & G1).
      rewrite RL. cbn [h_opc mk_hdr_z]. change (0 =? 0) with true. cbn [negb].
      set (h := mk_hdr_z false M (is_nil r) 0 (fr_key f) (length (fr_body f))) in *.
      set (s2 := set_frame s1 h).
      assert (A2 : at_posz z s2 (fr_body f) r tl).
      { unfold at_posz, quietz, s2, h. zsimp. rewrite wire_key. destruct Q1 as (Q1a & Q1b & Q1c & Q1d). repeat split; auto. }
      assert (L0 : (length (r_inq s2) + 2 <= length (r_inq s))%nat).
      { unfold s2. zsimp. rewrite I1, Hi. rewrite !app_length. pose proof (enc_hdr_len2 h). lia. }
      assert (L2 : (length (r_inq s2) < fuel)%nat) by lia.
      assert (R2 : r_replies s2 = r_replies s ++ pw (fr_ctl f)) by (unfold s2; zsimp; exact R1).
      assert (G2 : r_pongs s2 = r_pongs s ++ pn (fr_ctl f)) by (unfold s2; zsimp; exact G1).
      destruct (IH z s2 (fr_body f) r tl n Hn A2 L2) as [(d & b' & fs' & s' & E & Hd & Hc & Ha & Hr & Hg & Hl)|(s' & E & Eb & Er & Fi)].
      * left. exists d, b', fs', s'. split; [exact E|]. split; [exact Hd|].
        split; [unfold bodies at 2; cbn [map concat app]; exact Hc|]. split; [exact Ha|].
        split; [|split].
        -- rewrite Hr, R2. unfold ctls at 2. cbn [map concat]. rewrite pw_app, app_assoc. reflexivity.
        -- rewrite Hg, G2. unfold ctls at 2. cbn [map concat]. rewrite pn_app, app_assoc. reflexivity.
        -- lia.
      * right. exists s'. split; [exact E|]. split; [reflexivity|].
        split; [unfold bodies; cbn [map concat]; rewrite Eb; exact Er|].
        rewrite R2, G2 in Fi. unfold ctls at 1 2. cbn [map concat]. rewrite pw_app, pn_app, !app_assoc. exact Fi.
  - left. set (bb := x :: b0) in *.
    assert (Hbl : (1 <= length bb)%nat) by (unfold bb; cbn [length]; lia).
    set (k := Nat.min n (length bb)).
    assert (Hk : (if N.of_nat n <? r_plen s then n else N.to_nat (r_plen s)) = k).
    { rewrite Hp. unfold k. destruct (N.ltb_spec (N.of_nat n) (N.of_nat (length bb))); lia. }
    set (b1 := firstn k bb). set (b2 := skipn k bb).
    assert (Hb : bb = b1 ++ b2) by (symmetry; apply firstn_skipn).
    assert (Hl1 : length b1 = k) by (unfold b1; rewrite firstn_length; unfold k; lia).
    assert (Hl2 : (length bb = k + length b2)%nat) by (rewrite Hb at 1; rewrite app_length; lia).
    destruct Hq as (Hc & Hz & Hlr & Hlim).
    rewrite Hb, wire_app, <- app_assoc, Hl1 in Hi.
    set (key' := if M then rotk (r_key s) k else r_key s) in *.
    set (rest := wire M key' b2 ++ enc_rest M fs ++ tl) in *.
    assert (RR : raw_read cfg (S fuel) n s = (b1, None, false, sub_plen (set_inq s rest) k key')).
    { cbn [raw_read]. destruct (N.eqb_spec (r_plen s) 0) as [E0|_]; [lia|].
      cbv zeta. rewrite Hk.
      replace k with (length (wire M (r_key s) b1)) at 1 by (rewrite wire_length; exact Hl1).
      rewrite (read_payload_app s _ rest Hc Hi). rewrite unwire, wire_length, Hl1. reflexivity. }
    exists b1, b2, fs. eexists. split; [exact RR|].
    split; [intro E; rewrite E in Hl1; cbn [length] in Hl1; lia|].
    split; [rewrite app_assoc, <- Hb; reflexivity|].
    split; [|split; [reflexivity|split; [reflexivity|]]].
    + unfold at_posz, quietz. zsimp. split; [reflexivity|]. split; [lia|]. repeat split; auto.
    + zsimp. rewrite Hi. assert (Hk1 : (1 <= k)%nat) by (unfold k; lia). rewrite !app_length, !wire_length. lia.
Qed.

(* ---------- an UNCOMPRESSED message: as in ReaderRefP ---------- *)
Lemma msg_read_stepz : forall fuel z s b fs tl n, z_flate z = false -> (0 < n)%nat -> at_posz z s b fs tl -> (length (r_inq s) < fuel)%nat ->
  stepz_data z (msg_read cfg inflate fuel n s) s b fs tl \/ stepz_eof z (msg_read cfg inflate fuel n s) s b fs tl.
Proof.
  intros fuel z s b fs tl n Hzf Hn Ha Hfu.
  pose proof Ha as (_ & _ & _ & _ & Hc & Hz & Hlr & Hlim).
  assert (Hfl : r_flate s = false) by (rewrite <- Hzf, <- Hz; reflexivity).
  unfold msg_read. rewrite Hc. destruct (Z.eqb_spec (r_lrn s) 0) as [E0|_]; [lia|].
  destruct (Z.ltb_spec 0 (r_lrn s)) as [E0|_]; [lia|]. cbn [andb]. rewrite Hfl.
  unfold limit_hit. destruct (Z.leb_spec 0 (r_lrn s)) as [E0|_]; [lia|]. cbn [andb].
  destruct (raw_read_stepz fuel z s b fs tl n Hn Ha Hfu) as [(d & b' & fs' & s' & E & Hd & Hcc & Ha' & Hr & Hg & Hl)|(s' & E & Eb & Er & Fi)].
  - left. rewrite E. exists d, b', fs', (sub_lrn s' (length d)). split; [reflexivity|]. split; [exact Hd|]. split; [exact Hcc|].
    split; [apply at_posz_sub_lrn; exact Ha'|]. cbn [sub_lrn r_replies r_pongs r_inq]. auto.
  - right. rewrite E. exists (sub_lrn s' (length (@nil N))). split; [reflexivity|]. split; [exact Eb|]. split; [exact Er|].
    apply finalz_sub_lrn. exact Fi.
Qed.

Lemma read_all_restz : forall fuel z s b fs tl n racc, z_flate z = false -> (0 < n)%nat -> at_posz z s b fs tl -> (length (r_inq s) < fuel)%nat ->
  exists s', read_all cfg inflate fuel n s racc = (concat (frev racc) ++ b ++ bodies fs, None, s') /\
     finalz z s' tl (r_replies s ++ pw (ctls fs)) (r_pongs s ++ pn (ctls fs)).
Proof.
  induction fuel as [|fuel IH]; intros z s b fs tl n racc Hzf Hn Ha Hfu; [lia|].
  cbn [read_all].
  destruct (msg_read_stepz (S (S fuel)) z s b fs tl n Hzf Hn Ha ltac:(lia)) as [(d & b' & fs' & s' & E & Hd & Hc & Ha' & Hr & Hg & Hl)|(s' & E & Eb & Er & Fi)].
  - rewrite E. destruct (IH z s' b' fs' tl n (d :: racc) Hzf Hn Ha' ltac:(lia)) as (s'' & E' & Fi).
    exists s''. rewrite E'. split.
    + rewrite frev_cons, <- app_assoc, Hc. reflexivity.
    + rewrite <- Hr, <- Hg. exact Fi.
  - rewrite E. exists s'. split; [|exact Fi]. rewrite frev_cons, Eb, Er. reflexivity.
Qed.

Lemma read_all_z_restz : forall fuel z s b fs tl n racc, z_flate z = false -> (0 < n)%nat -> at_posz z s b fs tl -> (length (r_inq s) < fuel)%nat ->
  exists s', read_all_z cfg inflate fuel n s racc = (concat (frev racc) ++ b ++ bodies fs, None, s') /\
     finalz z s' tl (r_replies s ++ pw (ctls fs)) (r_pongs s ++ pn (ctls fs)).
Proof.
  intros fuel z s b fs tl n racc Hzf Hn Ha Hfu. unfold read_all_z.
  destruct (msg_read_stepz fuel z s b fs tl n Hzf Hn Ha Hfu) as [(d & b' & fs' & s' & E & Hd & Hc & Ha' & Hr & Hg & Hl)|(s' & E & Eb & Er & Fi)].
  - rewrite E. destruct (read_all_restz (length (r_zout s') + fuel) z s' b' fs' tl n (d :: racc) Hzf Hn Ha' ltac:(lia)) as (s'' & E' & Fi).
    exists s''. rewrite E'. split.
    + rewrite frev_cons, <- app_assoc, Hc. reflexivity.
    + rewrite <- Hr, <- Hg. exact Fi.
  - rewrite E. exists s'. split; [|exact Fi]. rewrite frev_cons, Eb, Er. reflexivity.
Qed.

(* ---------- a COMPRESSED message: the eager pull gets exactly the rest of the raw payload ---------- *)
Lemma pull_all_restz : forall fuel z s b fs tl racc, at_posz z s b fs tl -> (length (r_inq s) < fuel)%nat ->
  exists s', pull_all cfg fuel s racc = (concat (frev racc) ++ b ++ bodies fs, None, s') /\
     finalz z s' tl (r_replies s ++ pw (ctls fs)) (r_pongs s ++ pn (ctls fs)).
Proof.
  induction fuel as [|fuel IH]; intros z s b fs tl racc Ha Hfu; [lia|].
  cbn [pull_all].
  destruct (raw_read_stepz (S (S fuel)) z s b fs tl bufio_size bufio_pos Ha ltac:(lia)) as [(d & b' & fs' & s' & E & Hd & Hc & Ha' & Hr & Hg & Hl)|(s' & E & Eb & Er & Fi)].
  - rewrite E. destruct (IH z s' b' fs' tl (d :: racc) Ha' ltac:(lia)) as (s'' & E' & Fi).
    exists s''. rewrite E'. split.
    + rewrite frev_cons, <- app_assoc, Hc. reflexivity.
    + rewrite <- Hr, <- Hg. exact Fi.
  - rewrite E. exists s'. split; [|exact Fi]. rewrite Eb, Er. cbn [app]. rewrite app_nil_r. reflexivity.
Qed.

(* ---------- msgReader.Read on a compressed message: the two cases of the model, characterised ---------- *)
Definition st_ok (st : istatus) : bool := match st with ICorrupt => false | _ => true end.
Definition st_err (st : istatus) : option rerr := if st_ok st then None else Some REOther.

Lemma msg_read_pulled : forall fuel n s, r_closed s = false -> (r_lrn s < 0)%Z -> r_flate s = true -> r_zpulled s = true ->
  msg_read cfg inflate fuel n s =
  match r_zout s with
  | [] => match r_zerr s with None => ([], None, true, end_z cfg s (r_zall s)) | Some err => ([], Some err, false, s) end
  | _ :: _ => (firstn n (r_zout s), None, false, take_z s (length (firstn n (r_zout s))))
  end.
Proof. intros fuel n s Hc Hlr Hfl Hzp. unfold msg_read. rewrite Hc.
  destruct (Z.eqb_spec (r_lrn s) 0) as [E0|_]; [lia|].
  destruct (Z.ltb_spec 0 (r_lrn s)) as [E0|_]; [lia|]. cbn [andb]. rewrite Hfl, Hzp.
  unfold limit_hit. destruct (Z.leb_spec 0 (r_lrn s)) as [E0|_]; [lia|]. cbn [andb]. reflexivity. Qed.

Lemma msg_read_unpulled : forall fuel n s zz s0 out st, r_closed s = false -> (r_lrn s < 0)%Z -> r_flate s = true -> r_zpulled s = false ->
  pull_all cfg fuel s [] = (zz, None, s0) -> inflate (r_dict s) (zz ++ c_deflateMessageTail) = (out, st) ->
  msg_read cfg inflate fuel n s =
  match out with
  | [] => if st_ok st then ([], None, true, end_z cfg (set_z s0 out (st_err st)) out) else ([], Some REOther, false, set_z s0 out (st_err st))
  | _ :: _ => (firstn n out, None, false, take_z (set_z s0 out (st_err st)) (length (firstn n out)))
  end.
Proof. intros fuel n s zz s0 out st Hc Hlr Hfl Hzp Hpull Hinf. unfold msg_read. rewrite Hc.
  destruct (Z.eqb_spec (r_lrn s) 0) as [E0|_]; [lia|].
  destruct (Z.ltb_spec 0 (r_lrn s)) as [E0|_]; [lia|]. cbn [andb]. rewrite Hfl, Hzp, Hpull, Hinf.
  unfold limit_hit. destruct (Z.leb_spec 0 (r_lrn s)) as [E0|_]; [lia|]. cbn [andb].
  destruct st; destruct out; reflexivity. Qed.

(* the state while the inflated message is handed out *)
Definition zh (zo : bytes) (ze : option rerr) (za dc : bytes) : zst :=
  {| z_flate := true; z_pulled := true; z_out := zo; z_err := ze; z_all := za; z_dict := dc |}.

Lemma finalz_set_z z s tl rp pg out ze : z_flate z = true -> finalz z s tl rp pg ->
  finalz (zh out ze out (z_dict z)) (set_z s out ze) tl rp pg.
Proof. intros Hzf (Hi & Hf & (Hc & Hz & Hlr & Hlim) & Hr & Hg). subst z. unfold finalz, quietz. zsimp. repeat split; auto.
  unfold zof, zh. zsimp. cbn [zof z_flate] in Hzf. rewrite Hzf. reflexivity. Qed.

Lemma finalz_take_z zo ze za dc s tl rp pg k : finalz (zh zo ze za dc) s tl rp pg ->
  finalz (zh (skipn k zo) ze za dc) (take_z s k) tl rp pg.
Proof. intros (Hi & Hf & (Hc & Hz & Hlr & Hlim) & Hr & Hg). unfold zof, zh in Hz. injection Hz as Hfl Hzp Hzo Hze Hza Hdc.
  unfold finalz, quietz. zsimp. destruct (Z.ltb_spec (r_lrn s) 0) as [_|E0]; [|lia]. repeat split; auto.
  unfold zof, zh. zsimp. rewrite Hfl, Hzp, Hzo, Hze, Hza, Hdc. reflexivity. Qed.

Lemma finalz_end_z zo za dc s tl rp pg : finalz (zh zo None za dc) s tl rp pg ->
  finalz (zh zo None [] (next_dict TK dc za)) (end_z cfg s za) tl rp pg.
Proof. intros (Hi & Hf & (Hc & Hz & Hlr & Hlim) & Hr & Hg). unfold zof, zh in Hz. injection Hz as Hfl Hzp Hzo Hze Hza Hdc.
  unfold finalz, quietz, end_z. zsimp. repeat split; auto.
  unfold zof, zh, next_dict. zsimp. rewrite Hfl, Hzp, Hzo, Hze, Hdc. reflexivity. Qed.

(* ---------- the hand-out loop: exactly the inflater's output that is left, then how the pull ended ---------- *)
Lemma handout : forall fuel zo s n racc ze za dc tl rp pg, (0 < n)%nat -> finalz (zh zo ze za dc) s tl rp pg -> (length zo < fuel)%nat ->
  exists s', read_all cfg inflate fuel n s racc = (concat (frev racc) ++ zo, ze, s') /\
    (ze = None -> finalz (zh [] None [] (next_dict TK dc za)) s' tl rp pg).
Proof.
  induction fuel as [|fuel IH]; intros zo s n racc ze za dc tl rp pg Hn Fi Hfu; [lia|].
  cbn [read_all].
  pose proof Fi as (Hi & Hf & (Hc & Hz & Hlr & Hlim) & Hr & Hg). unfold zof, zh in Hz. injection Hz as Hfl Hzp Hzo Hze Hza Hdc.
  rewrite (msg_read_pulled _ n s Hc Hlr Hfl Hzp). rewrite Hzo.
  destruct zo as [|x zo'].
  - rewrite Hze, Hza. destruct ze as [err|].
    + exists s. split; [rewrite frev_cons, !app_nil_r; reflexivity | discriminate].
    + eexists. split; [rewrite frev_cons, !app_nil_r; reflexivity|]. intros _. apply finalz_end_z. exact Fi.
  - cbv beta iota. set (zo := x :: zo') in *.
    destruct (IH (skipn (length (firstn n zo)) zo) (take_z s (length (firstn n zo))) n (firstn n zo :: racc) ze za dc tl rp pg Hn
               (finalz_take_z _ _ _ _ _ _ _ _ _ Fi)) as (s' & E & Fi').
    { rewrite skipn_firstn_len, skipn_length. assert (1 <= length zo)%nat by (unfold zo; cbn [length]; lia). lia. }
    exists s'. split; [|exact Fi']. rewrite E, frev_cons, <- app_assoc, skipn_firstn_len, firstn_skipn. reflexivity.
Qed.

(* ---------- io.ReadAll on a compressed message: pull everything, inflate once with the current dictionary, hand out ---------- *)
Definition z0 (fl : bool) (dc : bytes) : zst :=
  {| z_flate := fl; z_pulled := false; z_out := []; z_err := None; z_all := []; z_dict := dc |}.

Lemma read_all_z_flate : forall fuel s b fs tl n racc dc out st, (0 < n)%nat -> at_posz (z0 true dc) s b fs tl -> (length (r_inq s) < fuel)%nat ->
  inflate dc ((b ++ bodies fs) ++ c_deflateMessageTail) = (out, st) ->
  exists s', read_all_z cfg inflate fuel n s racc = (concat (frev racc) ++ out, st_err st, s') /\
    (st_ok st = true -> finalz (zh [] None [] (next_dict TK dc out)) s' tl (r_replies s ++ pw (ctls fs)) (r_pongs s ++ pn (ctls fs))).
Proof.
  intros fuel s b fs tl n racc dc out st Hn Ha Hfu Hinf.
  pose proof Ha as (_ & _ & _ & _ & Hc & Hz & Hlr & Hlim). unfold zof, z0 in Hz. injection Hz as Hfl Hzp Hzo Hze Hza Hdc.
  destruct (pull_all_restz fuel _ s b fs tl [] Ha Hfu) as (s0 & EP & Fi0).
  change (concat (frev (@nil bytes))) with (@nil N) in EP. cbn [app] in EP.
  rewrite <- Hdc in Hinf.
  unfold read_all_z. rewrite (msg_read_unpulled fuel n s _ s0 out st Hc Hlr Hfl Hzp EP Hinf).
  pose proof (finalz_set_z (z0 true dc) _ _ _ _ out (st_err st) eq_refl Fi0) as Fi1. cbn [z0 z_dict] in Fi1.
  destruct out as [|x out'].
  - unfold st_err in *. destruct (st_ok st).
    + eexists. split; [rewrite frev_cons; reflexivity|]. intros _. apply finalz_end_z. exact Fi1.
    + eexists. split; [rewrite frev_cons; reflexivity|]. discriminate.
  - set (out := x :: out') in *. set (s1 := set_z s0 out (st_err st)) in *.
    destruct (handout (length (r_zout (take_z s1 (length (firstn n out)))) + fuel) (skipn (length (firstn n out)) out)
                (take_z s1 (length (firstn n out))) n (firstn n out :: racc) (st_err st) out dc tl _ _ Hn
                (finalz_take_z _ _ _ _ _ _ _ _ _ Fi1)) as (s' & E & Fi').
    { unfold s1. zsimp. lia. }
    exists s'. split.
    + rewrite E, frev_cons, <- app_assoc, skipn_firstn_len, firstn_skipn. reflexivity.
    + intro Hok. apply Fi'. unfold st_err. rewrite Hok. reflexivity.
Qed.

(* ---------- Conn.reader at a message boundary: RSV1 of the first data frame selects the inflater ---------- *)
Lemma reader_msg_z : forall fuel s z zm tl, wf_smsg (zm_m zm) -> (zm_z zm = true -> flate_on cfg = true) -> quietz z s -> r_fin s = true ->
  r_inq s = enc_zmsg M zm ++ tl -> (length (r_inq s) < fuel)%nat ->
  exists s1, reader cfg fuel s = Ok (sm_typ (zm_m zm)) s1 /\
    at_posz (z0 (zm_z zm) (if zm_z zm && negb TK then [] else z_dict z)) s1 (fr_body (sm_first (zm_m zm))) (sm_rest (zm_m zm)) tl /\
    r_replies s1 = r_replies s ++ pw (fr_ctl (sm_first (zm_m zm))) /\ r_pongs s1 = r_pongs s ++ pn (fr_ctl (sm_first (zm_m zm))) /\
    (length (r_inq s1) <= length (r_inq s))%nat.
Proof.
  intros fuel s z [zz m] tl (Ht & (Hcs & Hbw & Hbl & Hkw) & Hwr) Hfo Hq Hf Hi Hfu. cbn [zm_z zm_m] in *.
  unfold enc_zmsg, enc_frag_z in Hi. cbn [zm_z zm_m] in Hi. rewrite enc_frame_mk_z in Hi. rewrite <- !app_assoc in Hi.
  assert (Ho : sm_typ m = 0 \/ sm_typ m = 1 \/ sm_typ m = 2) by (destruct Ht; auto).
  assert (Hrsv : zz = true -> flate_on cfg = true /\ (sm_typ m = 1 \/ sm_typ m = 2)) by auto.
  destruct (read_loop_ctls_z (fr_ctl (sm_first m)) fuel s z zz (is_nil (sm_rest m)) (sm_typ m) (fr_key (sm_first m)) (length (fr_body (sm_first m)))
              (wire M (fr_key (sm_first m)) (fr_body (sm_first m)) ++ enc_rest M (sm_rest m) ++ tl) Hcs Ho Hrsv Hbl Hkw Hq Hi Hfu)
    as (s1 & RL & I1 & Q1 & F1 & P1 & K1 & R1 & G1).
  unfold reader. destruct Hq as (Hc & Hz & Hlr & Hlim). rewrite Hc, Hf. cbn [negb]. rewrite RL.
  cbn [h_opc mk_hdr_z].
  destruct (N.eqb_spec (sm_typ m) 0) as [E0|_]; [destruct Ht as [Ht|Ht]; rewrite Ht in E0; discriminate|].
  eexists. split; [reflexivity|].
  destruct Q1 as (Q1a & Q1b & Q1c & Q1d).
  split; [|split; [cbn [reset_msg r_replies]; exact R1|split; [cbn [reset_msg r_pongs]; exact G1|]]].
  - unfold at_posz, quietz. cbn [reset_msg]. zsimp. rewrite wire_key. repeat split; auto.
    rewrite <- Q1b. reflexivity.
  - cbn [reset_msg r_inq]. rewrite I1, Hi. rewrite !app_length. lia.
Qed.

(* ---------- the expected observations, one message at a time ---------- *)
Lemma expected_zobs_plain dict zm r : zm_z zm = false ->
  expected_zobs inflate TK dict (zm :: r) =
  ObReader (inl (sm_typ (zm_m zm))) :: ObMsg (sm_payload (zm_m zm)) None :: expected_zobs inflate TK dict r.
Proof. intro H. cbn [expected_zobs]. rewrite H. reflexivity. Qed.

Lemma expected_zobs_flate dict zm r out st : zm_z zm = true ->
  inflate dict (sm_payload (zm_m zm) ++ c_deflateMessageTail) = (out, st) ->
  expected_zobs inflate TK dict (zm :: r) =
  if st_ok st then ObReader (inl (sm_typ (zm_m zm))) :: ObMsg out None :: expected_zobs inflate TK (next_dict TK dict out) r
  else [ObReader (inl (sm_typ (zm_m zm))); ObMsg out (Some REOther)].
Proof. intros H E. cbn [expected_zobs]. rewrite H, E. destruct st; reflexivity. Qed.

Lemma all_inflate_ok_flate dict zm r out st : zm_z zm = true ->
  inflate dict (sm_payload (zm_m zm) ++ c_deflateMessageTail) = (out, st) ->
  all_inflate_ok inflate TK dict (zm :: r) = if st_ok st then all_inflate_ok inflate TK (next_dict TK dict out) r else false.
Proof. intros H E. cbn [all_inflate_ok]. rewrite H, E. destruct st; reflexivity. Qed.

(* ---------- the whole script ---------- *)
Lemma run_script_zvalid : forall ms sizes fuel s z tl,
  Forall (fun zm => wf_smsg (zm_m zm)) ms -> Forall (fun zm => zm_z zm = true -> flate_on cfg = true) ms ->
  length sizes = length ms -> Forall (fun n => 0 < n)%nat sizes ->
  quietz z s -> (TK = false -> z_dict z = []) -> r_fin s = true -> r_inq s = enc_zscript M ms ++ tl -> (length (r_inq s) < fuel)%nat ->
  exists s', run_script cfg inflate fuel (read_ops sizes) s None = (expected_zobs inflate TK (z_dict z) ms, s') /\
    (all_inflate_ok inflate TK (z_dict z) ms = true ->
     exists z', finalz z' s' tl (r_replies s ++ pw (flat_map sm_ctls (map zm_m ms))) (r_pongs s ++ pn (flat_map sm_ctls (map zm_m ms)))).
Proof.
  induction ms as [|zm ms IH]; intros sizes fuel s z tl Hw Hfo Hl Hpos Hq Hinv Hf Hi Hfu.
  - destruct sizes as [|n sizes]; [|discriminate]. exists s. split; [reflexivity|]. intros _. exists z.
    unfold finalz. cbn [map flat_map pw pn]. rewrite !app_nil_r. cbn [enc_zscript map concat app] in Hi. auto 10.
  - destruct sizes as [|n sizes]; [discriminate|]. cbn [length] in Hl. injection Hl as Hl.
    inversion Hw as [|m0 ms0 Hm Hw']. subst m0 ms0.
    inversion Hfo as [|m0 ms0 Hfm Hfo']. subst m0 ms0.
    inversion Hpos as [|n0 sz0 Hn Hpos']. subst n0 sz0.
    cbn [enc_zscript map concat] in Hi. rewrite <- app_assoc in Hi.
    change (concat (map (enc_zmsg M) ms)) with (enc_zscript M ms) in Hi.
    destruct (reader_msg_z fuel s z zm (enc_zscript M ms ++ tl) Hm Hfm Hq Hf Hi Hfu) as (s1 & R & A & R1 & G1 & L1).
    change (read_ops (n :: sizes)) with (OReader :: OReadAllN n :: read_ops sizes).
    rewrite run_script_pair, R. cbv beta iota.
    destruct (zm_z zm) eqn:Ezz.
    + (* compressed *)
      assert (Hd1 : (if true && negb TK then [] else z_dict z) = z_dict z).
      { destruct TK eqn:Etk; cbn [andb negb]; [reflexivity|]. symmetry. apply Hinv. reflexivity. }
      rewrite Hd1 in A.
      destruct (inflate (z_dict z) (sm_payload (zm_m zm) ++ c_deflateMessageTail)) as [out st] eqn:Einf.
      destruct (read_all_z_flate fuel s1 _ _ _ n [] (z_dict z) out st Hn A ltac:(lia) Einf) as (s2 & RZ & Fi2).
      rewrite RZ. change (concat (frev (@nil bytes)) ++ out) with out.
      rewrite (expected_zobs_flate _ _ _ out st Ezz Einf), (all_inflate_ok_flate _ _ _ out st Ezz Einf).
      unfold st_err. destruct (st_ok st) eqn:Eok.
      * cbv beta iota. destruct (Fi2 eq_refl) as (I2 & F2 & Q2 & R2 & G2).
        assert (L2 : (length (r_inq s2) < fuel)%nat).
        { rewrite I2. rewrite Hi in Hfu. rewrite app_length in Hfu. lia. }
        destruct (IH sizes fuel s2 _ tl Hw' Hfo' Hl Hpos' Q2) as (s3 & RS & Fi); [| exact F2 | exact I2 | exact L2 |].
        { cbn [zh z_dict]. intro Etk. unfold next_dict. rewrite Etk. apply Hinv. exact Etk. }
        cbn [zh z_dict] in RS, Fi. exists s3. split; [rewrite RS; reflexivity|].
        intro Hok. destruct (Fi Hok) as (z' & Fz). exists z'.
        rewrite R2, R1, G2, G1 in Fz. cbn [map flat_map]. unfold sm_ctls at 1 3.
        fold (ctls (sm_rest (zm_m zm))). rewrite !pw_app, !pn_app, !app_assoc. exact Fz.
      * exists s2. split; [reflexivity|discriminate].
    + (* not compressed *)
      cbn [andb] in A.
      destruct (read_all_z_restz fuel (z0 false (z_dict z)) s1 (fr_body (sm_first (zm_m zm))) (sm_rest (zm_m zm)) (enc_zscript M ms ++ tl) n [] eq_refl Hn A ltac:(lia))
        as (s2 & RZ & I2 & F2 & Q2 & R2 & G2).
      assert (L2 : (length (r_inq s2) < fuel)%nat).
      { rewrite I2. rewrite Hi in Hfu. rewrite app_length in Hfu. lia. }
      destruct (IH sizes fuel s2 _ tl Hw' Hfo' Hl Hpos' Q2) as (s3 & RS & Fi); [exact Hinv | exact F2 | exact I2 | exact L2 |].
      cbn [z0 z_dict] in RS, Fi. exists s3. split.
      * rewrite RZ. cbv beta iota. rewrite RS. rewrite (expected_zobs_plain _ _ _ Ezz). reflexivity.
      * cbn [all_inflate_ok]. rewrite Ezz. intro Hok. destruct (Fi Hok) as (z' & Fz). exists z'.
        rewrite R2, R1, G2, G1 in Fz. cbn [map flat_map]. unfold sm_ctls at 1 3.
        fold (ctls (sm_rest (zm_m zm))). rewrite !pw_app, !pn_app, !app_assoc. exact Fz.
Qed.

End ZRef.

(* ---------- the stream-level theorem ---------- *)
Theorem reader_valid_zstream : forall cfg inflate co ms sizes e,
  rc_co cfg = Some co ->                                   (* permessage-deflate has been negotiated *)
  Forall (fun zm => wf_smsg (zm_m zm)) ms ->
  all_inflate_ok inflate (reader_takeover (rc_role cfg) co) [] ms = true ->
  length sizes = length ms -> Forall (fun n => 0 < n)%nat sizes ->
  let masked := role_eqb (rc_role cfg) Server in          (* the peer of a server is a client: it masks *)
  let r := run cfg inflate (-1)%Z (enc_zscript masked ms) e (read_ops sizes) in
  fst r = expected_zobs inflate (reader_takeover (rc_role cfg) co) [] ms /\
  r_replies (snd r) = expected_pongs_written (map zm_m ms) /\
  r_pongs (snd r) = expected_pong_notes (map zm_m ms) /\
  r_inq (snd r) = [] /\ r_closed (snd r) = false.
Proof.
  intros cfg inflate co ms sizes e Hco Hw Hok Hl Hpos masked r. subst r masked.
  change (role_eqb (rc_role cfg) Server) with (is_server cfg). unfold run.
  assert (Htk : rd_takeover cfg = reader_takeover (rc_role cfg) co) by (unfold rd_takeover; rewrite Hco; reflexivity).
  assert (Hfo : flate_on cfg = true) by (unfold flate_on; rewrite Hco; reflexivity).
  destruct (run_script_zvalid cfg inflate ms sizes (S (S (length (enc_zscript (is_server cfg) ms))))
              (r_init (-1) (enc_zscript (is_server cfg) ms) e) (zof (r_init (-1) (enc_zscript (is_server cfg) ms) e)) [] Hw)
    as (s' & RS & Fi).
  - apply Forall_forall. intros zm _ _. exact Hfo.
  - exact Hl.
  - exact Hpos.
  - unfold quietz, r_init. zsimp. repeat split; lia.
  - reflexivity.
  - reflexivity.
  - unfold r_init. zsimp. rewrite app_nil_r. reflexivity.
  - unfold r_init. zsimp. lia.
  - rewrite Htk in RS, Fi. cbn [zof r_init r_dict z_dict] in RS, Fi.
    destruct (Fi Hok) as (z' & I & F & (Qc & _) & R & G).
    rewrite RS. cbn [fst snd]. split; [reflexivity|]. split; [exact R|]. split; [exact G|]. split; [exact I|exact Qc].
Qed.

(* the observations also when a compressed message is corrupt for the inflater: what the inflater got out of it is
   delivered, the read fails with REOther and the script stops (nothing is claimed about the state then) *)
Theorem reader_zstream_obs : forall cfg inflate co ms sizes e,
  rc_co cfg = Some co -> Forall (fun zm => wf_smsg (zm_m zm)) ms ->
  length sizes = length ms -> Forall (fun n => 0 < n)%nat sizes ->
  let masked := role_eqb (rc_role cfg) Server in
  fst (run cfg inflate (-1)%Z (enc_zscript masked ms) e (read_ops sizes)) =
  expected_zobs inflate (reader_takeover (rc_role cfg) co) [] ms.
Proof.
  intros cfg inflate co ms sizes e Hco Hw Hl Hpos masked. subst masked.
  change (role_eqb (rc_role cfg) Server) with (is_server cfg). unfold run.
  assert (Htk : rd_takeover cfg = reader_takeover (rc_role cfg) co) by (unfold rd_takeover; rewrite Hco; reflexivity).
  assert (Hfo : flate_on cfg = true) by (unfold flate_on; rewrite Hco; reflexivity).
  destruct (run_script_zvalid cfg inflate ms sizes (S (S (length (enc_zscript (is_server cfg) ms))))
              (r_init (-1) (enc_zscript (is_server cfg) ms) e) (zof (r_init (-1) (enc_zscript (is_server cfg) ms) e)) [] Hw)
    as (s' & RS & _).
  - apply Forall_forall. intros zm _ _. exact Hfo.
  - exact Hl.
  - exact Hpos.
  - unfold quietz, r_init. zsimp. repeat split; lia.
  - reflexivity.
  - reflexivity.
  - unfold r_init. zsimp. rewrite app_nil_r. reflexivity.
  - unfold r_init. zsimp. lia.
  - rewrite Htk in RS. cbn [zof r_init r_dict z_dict] in RS. rewrite RS. reflexivity.
Qed.

(* ---------- corollary under an explicit contract between the peer's deflater and the inflater ---------- *)
Section Contract.
Variable inflate : bytes -> bytes -> bytes * istatus.
Variable deflate_body : bytes -> bytes -> bytes.
(* for every dictionary that can occur (at most one window), inflating what the deflater made of [plain] with the same
   dictionary, followed by 00 00 ff ff, gives [plain] back and then runs out of input *)
Hypothesis contract : forall dict plain, (length dict <= Z.to_nat c_windowSize)%nat ->
  inflate dict (deflate_body dict plain ++ c_deflateMessageTail) = (plain, INeedMore).

Lemma carries_obs tk : forall ms plains dict, (length dict <= Z.to_nat c_windowSize)%nat -> carries deflate_body tk dict ms plains ->
  expected_zobs inflate tk dict ms = plain_obs ms plains /\ all_inflate_ok inflate tk dict ms = true.
Proof.
  induction ms as [|zm ms IH]; intros [|p ps] dict Hd Hc; cbn [carries] in Hc; try contradiction; [split; reflexivity|].
  destruct Hc as (Hp & Hc). cbn [expected_zobs all_inflate_ok]. rewrite Hp.
  change (plain_obs (zm :: ms) (p :: ps)) with (ObReader (inl (sm_typ (zm_m zm))) :: ObMsg p None :: plain_obs ms ps).
  destruct (zm_z zm).
  - rewrite (contract dict p Hd).
    assert (Hd' : (length (next_dict tk dict p) <= Z.to_nat c_windowSize)%nat).
    { unfold next_dict. destruct tk; [apply lastn_length | exact Hd]. }
    destruct (IH ps _ Hd' Hc) as (E1 & E2). rewrite E1, E2. split; reflexivity.
  - destruct (IH ps _ Hd Hc) as (E1 & E2). rewrite E1, E2. split; reflexivity.
Qed.

(* a stream whose compressed messages carry deflate_body dict_i plain_i is delivered as the plain_i *)
Theorem reader_valid_zstream_contract : forall cfg co ms plains sizes e,
  rc_co cfg = Some co -> Forall (fun zm => wf_smsg (zm_m zm)) ms ->
  carries deflate_body (reader_takeover (rc_role cfg) co) [] ms plains ->
  length sizes = length ms -> Forall (fun n => 0 < n)%nat sizes ->
  let masked := role_eqb (rc_role cfg) Server in
  let r := run cfg inflate (-1)%Z (enc_zscript masked ms) e (read_ops sizes) in
  fst r = plain_obs ms plains /\
  r_replies (snd r) = expected_pongs_written (map zm_m ms) /\
  r_pongs (snd r) = expected_pong_notes (map zm_m ms) /\
  r_inq (snd r) = [] /\ r_closed (snd r) = false.
Proof.
  intros cfg co ms plains sizes e Hco Hw Hc Hl Hpos.
  destruct (carries_obs _ ms plains [] ltac:(cbn [length]; lia) Hc) as (E1 & E2).
  rewrite <- E1. apply reader_valid_zstream; assumption.
Qed.
End Contract.

(* ---------- non-vacuity ---------- *)
(* a toy inflater whose output depends on the dictionary: the input without the tail, then the first two bytes of the dictionary *)
Definition toy_inflate (d z : bytes) : bytes * istatus := (firstn (length z - 4) z ++ firstn 2 d, INeedMore).

(* a server reads, with context takeover: a compressed text message in three fragments (the second one empty) with a Ping
   before the third fragment, then a compressed binary message whose output depends on the dictionary left by the first,
   then an uncompressed one; buffer sizes 2, 1, 7 *)
Definition ex_ms : list zmsg :=
  [ {| zm_z := true; zm_m := {| sm_typ := 1; sm_first := {| fr_ctl := []; fr_body := [10; 11; 12]; fr_key := (1, 2, 3, 4) |};
        sm_rest := [ {| fr_ctl := []; fr_body := []; fr_key := (5, 6, 7, 8) |};
                     {| fr_ctl := [ {| c_opc := 9; c_payload := [7; 7]; c_key := (9, 9, 9, 9) |} ]; fr_body := [13; 14]; fr_key := (4, 3, 2, 1) |} ] |} |};
    {| zm_z := true; zm_m := {| sm_typ := 2; sm_first := {| fr_ctl := []; fr_body := [20]; fr_key := (1, 1, 1, 1) |}; sm_rest := [] |} |};
    {| zm_z := false; zm_m := {| sm_typ := 2; sm_first := {| fr_ctl := []; fr_body := [30; 31]; fr_key := (2, 2, 2, 2) |}; sm_rest := [] |} |} ].

Example reader_valid_zstream_nonvacuous :
  let cfg := {| rc_role := Server; rc_co := Some {| cnct := false; snct := true |} |} in
  let r := run cfg toy_inflate (-1)%Z (enc_zscript true ex_ms) EOpen (read_ops [2; 1; 7]%nat) in
  fst r = [ObReader (inl 1); ObMsg [10; 11; 12; 13; 14] None;
           ObReader (inl 2); ObMsg [20; 10; 11] None;
           ObReader (inl 2); ObMsg [30; 31] None] /\
  fst r = expected_zobs toy_inflate true [] ex_ms /\
  all_inflate_ok toy_inflate true [] ex_ms = true /\
  r_replies (snd r) = [RpPong [7; 7]] /\ r_inq (snd r) = [] /\
  (* without context takeover the second message does not see the first *)
  expected_zobs toy_inflate false [] ex_ms = [ObReader (inl 1); ObMsg [10; 11; 12; 13; 14] None;
           ObReader (inl 2); ObMsg [20] None; ObReader (inl 2); ObMsg [30; 31] None].
Proof. vm_compute. repeat split. Qed.

(* the hypotheses of the theorem hold for the example *)
Example ex_ms_wf : Forall (fun zm => wf_smsg (zm_m zm)) ex_ms.
Proof.
  assert (K : forall a b c d, a < 256 -> b < 256 -> c < 256 -> d < 256 -> wf_key (a, b, c, d)) by (intros; unfold wf_key; auto).
  unfold ex_ms. repeat (apply Forall_cons || apply Forall_nil); cbn [zm_m]; unfold wf_smsg, wf_frag, wf_ctl, wf_bytes;
    cbn [sm_typ sm_first sm_rest fr_ctl fr_body fr_key c_opc c_payload c_key length];
    repeat (apply Forall_cons || apply Forall_nil || split); try (apply K);
    cbn [c_opc c_payload c_key length]; try lia; auto.
Qed.

Print Assumptions reader_zstream_obs.
Print Assumptions reader_valid_zstream_contract.
Print Assumptions reader_valid_zstream.
