(* Proofs/SchedAckP.v — the ACKNOWLEDGEMENT theorem for the interleaving semantics of Model/Sched.v:
   a Write / Ping that returned nil is on the wire, completely, in order and exactly once — for every set of
   programs and every schedule.

   The invariant (TI) is thread-local: for every thread t it relates the projection [evs t n (wire s)] of the wire
   onto the writes of call n of thread t
     (a) for a finished call with result true: to the complete, ordered list of its transport writes,
     (b) for the call in progress: to the prefix determined by the phase
         (frames 0..fi-1 complete, of frame fi the parts 0..p-1),
     (c) for a call not yet started: to [].
   A step of thread t only appends events of thread t, so no lock reasoning is needed. *)
From Coq Require Import List Arith Bool Lia.
Import ListNotations.
From WS Require Import Model.Sched Proofs.SchedP.

(* ---------------- the expected writes ---------------- *)
(* the event thread t writes in call n for part p of frame fi, when krem frames remain after this one *)
Definition mk (t n : nat) (fk : fkind) (krem fi parts p : nat) : wev :=
  {| e_tid := t; e_call := n; e_frame := fi; e_kind := fk; e_first := Nat.eqb fi 0; e_fin := Nat.eqb krem 0;
     e_part := p; e_last := negb (Nat.ltb p parts) |}.
(* the first cnt parts of one frame *)
Definition frame_evs (t n : nat) (fk : fkind) (krem fi parts cnt : nat) : list wev :=
  map (mk t n fk krem fi parts) (seq 0 cnt).
(* the first nf frames (all parts) of a data message of K+1 frames *)
Definition msg_evs (t n K parts nf : nat) : list wev :=
  flat_map (fun fi => frame_evs t n FData (K - fi) fi parts (S parts)) (seq 0 nf).

(* the projection of the wire onto call n of thread t *)
Definition mine (t n : nat) (e : wev) : bool := Nat.eqb (e_tid e) t && Nat.eqb (e_call e) n.
Definition evs (t n : nat) (w : list wev) : list wev := filter (mine t n) w.

Lemma frame_evs_S : forall t n fk krem fi parts c,
  frame_evs t n fk krem fi parts (S c) = frame_evs t n fk krem fi parts c ++ [mk t n fk krem fi parts c].
Proof. intros. unfold frame_evs. rewrite seq_S, map_app. reflexivity. Qed.

Lemma msg_evs_S : forall t n K parts nf,
  msg_evs t n K parts (S nf) = msg_evs t n K parts nf ++ frame_evs t n FData (K - nf) nf parts (S parts).
Proof. intros. unfold msg_evs. rewrite seq_S, flat_map_app. cbn [flat_map Nat.add]. rewrite app_nil_r. reflexivity. Qed.

Lemma msg_evs_length : forall t n K parts nf, length (msg_evs t n K parts nf) = nf * S parts.
Proof.
  intros t n K parts nf. induction nf as [|nf IH]; [reflexivity|].
  rewrite msg_evs_S, app_length, IH. unfold frame_evs. rewrite map_length, seq_length. lia.
Qed.

Lemma evs_snoc_mine : forall t n w e, e_tid e = t -> e_call e = n -> evs t n (w ++ [e]) = evs t n w ++ [e].
Proof.
  intros t n w e <- <-. unfold evs. rewrite filter_app. cbn [filter]. unfold mine at 2. rewrite !Nat.eqb_refl. reflexivity.
Qed.
Lemma evs_snoc_other : forall t n w e, e_tid e <> t \/ e_call e <> n -> evs t n (w ++ [e]) = evs t n w.
Proof.
  intros t n w e H. unfold evs. rewrite filter_app. cbn [filter]. unfold mine at 2.
  replace ((e_tid e =? t) && (e_call e =? n)) with false; [apply app_nil_r|].
  symmetry. apply andb_false_iff. destruct H as [H|H]; [left|right]; apply Nat.eqb_neq; exact H.
Qed.

(* ---------------- the thread-local invariant ---------------- *)
Definition closelike (c : option wcall) : Prop :=
  match c with Some (CClose _) | Some CCloseNow | Some (CEcho _) => True | _ => False end.

(* phase vs. the call being executed *)
Definition okc (fk : fkind) (krem parts fi : nat) (c : option wcall) : Prop :=
  match fk with
  | FData => c = Some (CMsg (krem + fi) parts)
  | FPing => c = Some (CPing parts) /\ krem = 0 /\ fi = 0
  | FClose => closelike c
  end.
(* what the call in progress has written before the current frame *)
Definition pre (t n : nat) (fk : fkind) (krem parts fi : nat) : list wev :=
  match fk with FData => msg_evs t n (krem + fi) parts fi | _ => [] end.

Definition cur (t n : nat) (p : phase) (c : option wcall) (l : list wev) : Prop :=
  match p with
  | Idle => l = []
  | WantMsg k parts => c = Some (CMsg k parts) /\ l = []
  | WantFrame fk krem parts fi | Check fk krem parts fi => okc fk krem parts fi c /\ l = pre t n fk krem parts fi
  | Emit fk krem parts fi p =>
      okc fk krem parts fi c /\ p <= parts /\ l = pre t n fk krem parts fi ++ frame_evs t n fk krem fi parts p
  | Unlock fk krem parts fi =>
      okc fk krem parts fi c /\ l = pre t n fk krem parts fi ++ frame_evs t n fk krem fi parts (S parts)
  | FailFrame fk _ => match fk with FClose => closelike c | _ => True end
  | EndMsg => exists K parts, c = Some (CMsg K parts) /\ l = msg_evs t n K parts (S K)
  | DoClose | ForceFrame => closelike c
  end.

(* what a call that returned nil has written *)
Definition done_ok (t n : nat) (c : option wcall) (l : list wev) : Prop :=
  match c with
  | Some (CMsg K parts) => l = msg_evs t n K parts (S K)
  | Some (CPing parts) => l = frame_evs t n FPing 0 0 parts (S parts)
  | _ => True
  end.

Record TI (progs : tid -> list wcall) (t : tid) (th : thr) (w : list wev) : Prop := {
  ti_calls : calls th = skipn (ncall th) (progs t);
  ti_done : forall n, n < ncall th -> nth (ncall th - 1 - n) (results th) false = true ->
            done_ok t n (nth_error (progs t) n) (evs t n w);
  ti_cur : cur t (ncall th) (ph th) (hd_error (calls th)) (evs t (ncall th) w);
  ti_fut : forall n, ncall th < n -> evs t n w = [] }.

Definition Inv6 (progs : tid -> list wcall) (s : st) : Prop := forall t, TI progs t (thrs s t) (wire s).

Lemma hd_skipn : forall (A : Type) n (l : list A), hd_error (skipn n l) = nth_error l n.
Proof. induction n; destruct l; cbn; auto. Qed.
Lemma tl_skipn : forall (A : Type) n (l : list A), tl (skipn n l) = skipn (S n) l.
Proof. induction n; intros [|a l]; try reflexivity. change (tl (skipn n l) = skipn (S n) l). apply IHn. Qed.

Lemma inv6_init : forall c progs, Inv6 progs (init c progs).
Proof.
  intros c progs t. split; cbn.
  - reflexivity.
  - intros n H; lia.
  - reflexivity.
  - reflexivity.
Qed.

(* the three ways a thread's record changes *)
Lemma TI_set_ph : forall progs t th w p',
  TI progs t th w -> cur t (ncall th) p' (hd_error (calls th)) (evs t (ncall th) w) -> TI progs t (set_ph th p') w.
Proof. intros progs t th w p' [A B C D] H. split; cbn [set_ph ph calls ncall results]; assumption. Qed.

Lemma TI_ret : forall progs t th w ok,
  TI progs t th w -> (ok = true -> done_ok t (ncall th) (hd_error (calls th)) (evs t (ncall th) w)) ->
  TI progs t (ret th ok) w.
Proof.
  intros progs t th w ok [A B C D] H. split; cbn [ret ph calls ncall results].
  - rewrite A. apply tl_skipn.
  - intros n Hn. destruct (Nat.eq_dec n (ncall th)) as [->|N].
    + replace (S (ncall th) - 1 - ncall th) with 0 by lia. cbn [nth]. intros E.
      specialize (H E). rewrite A, hd_skipn in H. exact H.
    + replace (S (ncall th) - 1 - n) with (S (ncall th - 1 - n)) by lia. cbn [nth]. apply B. lia.
  - apply D. lia.
  - intros n Hn. apply D. lia.
Qed.

Lemma TI_emit : forall progs t th w p' e,
  TI progs t th w -> e_tid e = t -> e_call e = ncall th ->
  cur t (ncall th) p' (hd_error (calls th)) (evs t (ncall th) w ++ [e]) ->
  TI progs t (set_ph th p') (w ++ [e]).
Proof.
  intros progs t th w p' e [A B C D] Et Ec H. split; cbn [set_ph ph calls ncall results].
  - exact A.
  - intros n Hn Hr. rewrite evs_snoc_other by (right; lia). apply B; assumption.
  - rewrite evs_snoc_mine by assumption. exact H.
  - intros n Hn. rewrite evs_snoc_other by (right; lia). apply D; assumption.
Qed.

(* another thread's step: its own record is untouched and the projection of the wire does not move *)
Lemma TI_other : forall progs t0 th w e, TI progs t0 th w -> e_tid e <> t0 -> TI progs t0 th (w ++ [e]).
Proof.
  intros progs t0 th w e [A B C D] N. split.
  - exact A.
  - intros n Hn Hr. rewrite evs_snoc_other by (left; exact N). apply B; assumption.
  - rewrite evs_snoc_other by (left; exact N). exact C.
  - intros n Hn. rewrite evs_snoc_other by (left; exact N). apply D; assumption.
Qed.

Lemma closelike_done : forall t n c l, closelike c -> done_ok t n c l.
Proof. intros t n [[]|] l H; simpl in *; auto; contradiction. Qed.

(* ---------------- preservation ---------------- *)
Ltac fin_set := apply TI_set_ph; [assumption|].
Ltac fin_ret := apply TI_ret; [assumption|].

Lemma inv6_step_self : forall progs s t alt s',
  TI progs t (thrs s t) (wire s) -> step s (EStep t alt) = Some s' -> TI progs t (thrs s' t) (wire s').
Proof.
  intros progs s t alt s' T H. pose proof (ti_cur _ _ _ _ T) as C.
  unfold step in H. cbv zeta in H.
  destruct (ph (thrs s t)) as [|k parts|fk k parts fi|fk k parts fi|fk k parts fi p|fk k parts fi|fk k| | | ] eqn:Hph;
    cbn [cur] in C.
  - (* Idle *)
    destruct (calls (thrs s t)) as [|[k parts|parts|parts| |parts] rest] eqn:Hc; try discriminate H.
    + injection H as <-. unfold with_thr. proj. rewrite upd_same. fin_set. rewrite Hc. cbn. auto.
    + injection H as <-. unfold with_thr. proj. rewrite upd_same. fin_set. rewrite Hc. cbn. auto.
    + destruct (closing s); injection H as <-; unfold with_thr; proj; rewrite upd_same.
      * fin_ret. discriminate.
      * fin_set. rewrite Hc. cbn. auto.
    + destruct (closing s); injection H as <-; unfold with_thr; proj; rewrite upd_same.
      * fin_ret. discriminate.
      * fin_set. rewrite Hc. cbn. auto.
    + injection H as <-. unfold with_thr. proj. rewrite upd_same. fin_set. rewrite Hc. cbn. auto.
  - (* WantMsg *)
    destruct C as [C1 C2].
    destruct alt.
    + destruct (closed s); [|discriminate H]. injection H as <-. unfold with_thr. proj. rewrite upd_same.
      fin_ret. discriminate.
    + destruct (msg_mu s); [discriminate H|].
      destruct (closed s); injection H as <-; unfold with_thr; proj; rewrite upd_same.
      * fin_ret. discriminate.
      * fin_set. cbn [cur okc pre]. rewrite Nat.add_0_r. split; [exact C1|]. rewrite C2. reflexivity.
  - (* WantFrame *)
    destruct C as [C1 C2].
    assert (TI progs t (match fk with FClose => set_ph (thrs s t) DoClose | _ => ret (thrs s t) false end) (wire s)) as Fail.
    { destruct fk; [fin_ret; discriminate|fin_ret; discriminate|fin_set; exact C1]. }
    destruct alt.
    + destruct (closed s).
      * injection H as <-. unfold with_thr. proj. rewrite upd_same. exact Fail.
      * destruct fk; try discriminate H. destruct (close_sent s); [|discriminate H].
        injection H as <-. proj. rewrite upd_same. fin_ret. discriminate.
    + destruct (frame_mu s); [discriminate H|].
      destruct (closed s); injection H as <-; unfold with_thr; proj; rewrite upd_same.
      * exact Fail.
      * fin_set. cbn [cur]. auto.
  - (* Check *)
    destruct C as [C1 C2].
    assert (TI progs t (set_ph (thrs s t) (FailFrame fk k)) (wire s)) as Fail.
    { fin_set. cbn [cur]. destruct fk; auto. }
    destruct (close_sent s && match fk with FPing => false | _ => true end).
    + injection H as <-. unfold with_thr. proj. rewrite upd_same. exact Fail.
    + destruct (closed s); injection H as <-; unfold with_thr; proj; rewrite upd_same.
      * exact Fail.
      * fin_set. cbn [cur]. split; [exact C1|]. split; [lia|]. rewrite C2. cbn. rewrite app_nil_r. reflexivity.
  - (* Emit *)
    destruct C as [C1 [C2 C3]].
    destruct (closed s); injection H as <-; unfold with_thr; proj; rewrite upd_same.
    + fin_set. cbn [cur]. destruct fk; auto.
    + apply TI_emit; [assumption|reflexivity|reflexivity|].
      fold (mk t (ncall (thrs s t)) fk k fi parts p).
      destruct (p <? parts) eqn:Hlt; cbn [cur].
      * apply Nat.ltb_lt in Hlt. split; [exact C1|]. split; [lia|].
        rewrite C3, frame_evs_S, app_assoc. reflexivity.
      * apply Nat.ltb_ge in Hlt. split; [exact C1|]. assert (p = parts) as -> by lia.
        rewrite C3, frame_evs_S, app_assoc. reflexivity.
  - (* Unlock *)
    destruct C as [C1 C2].
    injection H as <-. proj. rewrite upd_same.
    destruct fk; cbn [okc pre] in C1, C2.
    + destruct (k =? 0) eqn:Hk.
      * apply Nat.eqb_eq in Hk. subst k. cbn [Nat.add] in C1, C2. fin_set. cbn [cur]. exists fi, parts. split; [exact C1|].
        rewrite C2, msg_evs_S. replace (fi - fi) with 0 by lia. reflexivity.
      * apply Nat.eqb_neq in Hk. fin_set. cbn [cur okc pre].
        replace (k - 1 + S fi) with (k + fi) by lia. split; [exact C1|].
        rewrite C2, msg_evs_S. replace (k + fi - fi) with k by lia. reflexivity.
    + destruct C1 as [C1 [-> ->]]. fin_ret. intros _. rewrite C1. cbn [done_ok]. rewrite C2. reflexivity.
    + fin_set. exact C1.
  - (* FailFrame *)
    injection H as <-. proj. rewrite upd_same.
    destruct fk; [fin_ret; discriminate|fin_ret; discriminate|fin_set; exact C].
  - (* EndMsg *)
    injection H as <-. proj. rewrite upd_same. fin_ret. intros _.
    destruct C as [K [parts [C1 C2]]]. rewrite C1. exact C2.
  - (* DoClose *)
    destruct (closed s).
    + (* already closed: close() returns at once *)
      injection H as <-. unfold with_thr. proj. rewrite upd_same. fin_ret. intros _. apply closelike_done. exact C.
    + injection H as <-. proj. rewrite upd_same. destruct (client s).
      * fin_set. exact C.
      * fin_ret. intros _. apply closelike_done. exact C.
  - (* ForceFrame *)
    destruct (frame_mu s); [discriminate H|]. injection H as <-. proj. rewrite upd_same.
    fin_ret. intros _. apply closelike_done. exact C.
Qed.

(* a step of thread t leaves every other thread alone and appends at most one event, of thread t *)
Lemma step_frame : forall s t alt s', step s (EStep t alt) = Some s' ->
  (forall t0, t0 <> t -> thrs s' t0 = thrs s t0) /\
  (wire s' = wire s \/ exists e, wire s' = wire s ++ [e] /\ e_tid e = t).
Proof.
  intros s t alt s' H.
  step_cases H; proj; (split; [intros t0 N; apply upd_other; exact N|]);
    first [left; reflexivity | right; eexists; split; [reflexivity|reflexivity]].
Qed.

(* the context of t's call ends while t waits for a lock: the call returns an error (no obligation), nothing is written *)
Lemma inv6_giveup_self : forall progs s t s',
  TI progs t (thrs s t) (wire s) -> step s (EGiveUp t) = Some s' -> TI progs t (thrs s' t) (wire s').
Proof.
  intros progs s t s' T H.
  unfold step in H. cbv zeta in H.
  destruct (ph (thrs s t)) as [|k parts|fk k parts fi|fk k parts fi|fk k parts fi p|fk k parts fi|fk k| | | ] eqn:Hph;
    try discriminate H.
  - (* WantMsg *)
    injection H as <-. unfold with_thr. proj. rewrite upd_same. fin_ret. discriminate.
  - (* WantFrame *)
    destruct fk; try discriminate H.
    + destruct ((k =? 0) && (fi =? 0)); injection H as <-; unfold with_thr; proj; rewrite upd_same; fin_ret; discriminate.
    + injection H as <-. unfold with_thr. proj. rewrite upd_same. fin_ret. discriminate.
Qed.

Lemma giveup_frame : forall s t s', step s (EGiveUp t) = Some s' ->
  (forall t0, t0 <> t -> thrs s' t0 = thrs s t0) /\ wire s' = wire s.
Proof.
  intros s t s' H.
  step_cases H; proj; (split; [intros t0 N; apply upd_other; exact N|reflexivity]).
Qed.

Lemma inv6_step : forall progs s e s', Inv6 progs s -> step s e = Some s' -> Inv6 progs s'.
Proof.
  intros progs s e s' I H. destruct e as [t alt| |t].
  2:{ unfold step in H. destruct (closed s); [discriminate H|]. injection H as <-. exact I. }
  - intros t0. destruct (Nat.eq_dec t0 t) as [->|N].
    + eapply inv6_step_self; eauto.
    + destruct (step_frame _ _ _ _ H) as [A [B|[x [B Bt]]]]; rewrite (A t0 N), B.
      * apply I.
      * apply TI_other; [apply I|congruence].
  - intros t0. destruct (Nat.eq_dec t0 t) as [->|N].
    + eapply inv6_giveup_self; eauto.
    + destruct (giveup_frame _ _ _ H) as [A B]. rewrite (A t0 N), B. apply I.
Qed.

Lemma inv6_run : forall progs sched s, Inv6 progs s -> Inv6 progs (run s sched).
Proof.
  induction sched as [|e r IH]; intros s Hs; cbn [run]; [exact Hs|].
  destruct (step s e) as [s'|] eqn:Hst; apply IH; [eapply inv6_step; eauto|exact Hs].
Qed.

Lemma inv6_reach : forall is_client progs sched, Inv6 progs (run (init is_client progs) sched).
Proof. intros; apply inv6_run, inv6_init. Qed.

(* ---------------- the theorems ---------------- *)
(* the result of the n-th call (program order, from 0) of a thread: results are kept newest first *)
Definition result_of (th : thr) (n : nat) : bool := nth (ncall th - 1 - n) (results th) false.

(* strongest form: the writes of an acknowledged message, read off the wire in wire order, are EXACTLY
   frame 0 parts 0..parts, frame 1 parts 0..parts, ..., frame k parts 0..parts *)
Theorem sched_acked_exact : forall is_client progs sched t n k parts,
  let s := run (init is_client progs) sched in
  nth_error (progs t) n = Some (CMsg k parts) -> n < ncall (thrs s t) -> result_of (thrs s t) n = true ->
  evs t n (wire s) = msg_evs t n k parts (S k).
Proof.
  intros is_client progs sched t n k parts s Hc Hn Hr.
  pose proof (ti_done _ _ _ _ (inv6_reach is_client progs sched t) n Hn Hr) as D.
  fold s in D. rewrite Hc in D. exact D.
Qed.

Theorem sched_ping_acked_exact : forall is_client progs sched t n parts,
  let s := run (init is_client progs) sched in
  nth_error (progs t) n = Some (CPing parts) -> n < ncall (thrs s t) -> result_of (thrs s t) n = true ->
  evs t n (wire s) = frame_evs t n FPing 0 0 parts (S parts).
Proof.
  intros is_client progs sched t n parts s Hc Hn Hr.
  pose proof (ti_done _ _ _ _ (inv6_reach is_client progs sched t) n Hn Hr) as D.
  fold s in D. rewrite Hc in D. exact D.
Qed.

Lemma evs_In : forall t n w e, In e (evs t n w) -> In e w.
Proof. intros t n w e H. apply filter_In in H. tauto. Qed.

Lemma msg_evs_In : forall t n K parts fi p, fi <= K -> p <= parts ->
  In (mk t n FData (K - fi) fi parts p) (msg_evs t n K parts (S K)).
Proof.
  intros t n K parts fi p Hfi Hp. unfold msg_evs. apply in_flat_map. exists fi. split.
  - apply in_seq. lia.
  - unfold frame_evs. apply in_map. apply in_seq. lia.
Qed.

(* THE ACKNOWLEDGEMENT THEOREM: a message write that returned nil is on the wire — every part of every frame,
   with the right kind and flags — and nothing of it is duplicated *)
Theorem sched_acked_on_wire : forall is_client progs sched t n k parts,
  let s := run (init is_client progs) sched in
  nth_error (progs t) n = Some (CMsg k parts) ->            (* the n-th call of thread t is a k+1-frame message *)
  n < ncall (thrs s t) ->                                   (* it has finished *)
  nth (ncall (thrs s t) - 1 - n) (results (thrs s t)) false = true ->   (* and returned nil *)
  (forall fi p, fi <= k -> p <= parts ->
     exists e, In e (wire s) /\ e_tid e = t /\ e_call e = n /\ e_frame e = fi /\ e_part e = p /\ e_kind e = FData /\
               e_first e = (fi =? 0) /\ e_fin e = (fi =? k) /\ e_last e = (p =? parts)) /\
  length (filter (fun e => (e_tid e =? t) && (e_call e =? n)) (wire s)) = (k + 1) * (parts + 1).
Proof.
  intros is_client progs sched t n k parts s Hc Hn Hr.
  pose proof (sched_acked_exact is_client progs sched t n k parts Hc Hn Hr) as E. fold s in E.
  split.
  - intros fi p Hfi Hp. exists (mk t n FData (k - fi) fi parts p). split.
    + apply (evs_In t n). rewrite E. apply msg_evs_In; assumption.
    + cbn [mk e_tid e_call e_frame e_part e_kind e_first e_fin e_last]. repeat split.
      * destruct (Nat.eqb_spec (k - fi) 0); destruct (Nat.eqb_spec fi k); auto; lia.
      * destruct (Nat.ltb_spec p parts); destruct (Nat.eqb_spec p parts); auto; lia.
  - change (length (evs t n (wire s)) = (k + 1) * (parts + 1)). rewrite E, msg_evs_length. lia.
Qed.

(* the same for Ping *)
Theorem sched_ping_acked_on_wire : forall is_client progs sched t n parts,
  let s := run (init is_client progs) sched in
  nth_error (progs t) n = Some (CPing parts) ->
  n < ncall (thrs s t) ->
  nth (ncall (thrs s t) - 1 - n) (results (thrs s t)) false = true ->
  (forall p, p <= parts ->
     exists e, In e (wire s) /\ e_tid e = t /\ e_call e = n /\ e_frame e = 0 /\ e_part e = p /\ e_kind e = FPing /\
               e_first e = true /\ e_fin e = true /\ e_last e = (p =? parts)) /\
  length (filter (fun e => (e_tid e =? t) && (e_call e =? n)) (wire s)) = parts + 1.
Proof.
  intros is_client progs sched t n parts s Hc Hn Hr.
  pose proof (sched_ping_acked_exact is_client progs sched t n parts Hc Hn Hr) as E. fold s in E.
  split.
  - intros p Hp. exists (mk t n FPing 0 0 parts p). split.
    + apply (evs_In t n). rewrite E. unfold frame_evs. apply in_map. apply in_seq. lia.
    + cbn [mk e_tid e_call e_frame e_part e_kind e_first e_fin e_last]. repeat split.
      destruct (Nat.ltb_spec p parts); destruct (Nat.eqb_spec p parts); auto; lia.
  - change (length (evs t n (wire s)) = parts + 1). rewrite E. unfold frame_evs. rewrite map_length, seq_length. lia.
Qed.

(* converse safety: whatever is on the wire belongs to a call that was started *)
Theorem sched_wire_started : forall is_client progs sched e,
  let s := run (init is_client progs) sched in
  In e (wire s) -> e_call e <= ncall (thrs s (e_tid e)).
Proof.
  intros is_client progs sched e s Hin.
  destruct (le_lt_dec (e_call e) (ncall (thrs s (e_tid e)))) as [L|L]; [exact L|exfalso].
  pose proof (ti_fut _ _ _ _ (inv6_reach is_client progs sched (e_tid e)) (e_call e) L) as F. fold s in F.
  assert (In e (evs (e_tid e) (e_call e) (wire s))) as Hin'.
  { apply filter_In. split; [exact Hin|]. unfold mine. rewrite !Nat.eqb_refl. reflexivity. }
  rewrite F in Hin'. exact Hin'.
Qed.

(* the same, as a statement about the projections: nothing is on the wire for a call that has not been started *)
Theorem sched_wire_not_future : forall is_client progs sched t n,
  let s := run (init is_client progs) sched in
  ncall (thrs s t) < n -> evs t n (wire s) = [].
Proof. intros is_client progs sched t n s L. exact (ti_fut _ _ _ _ (inv6_reach is_client progs sched t) n L). Qed.

(* ---------------- the statement, evaluated on concrete schedules ---------------- *)
(* decidable form of "if the n-th call is a message/ping with result true then its projection is the full list" *)
Definition wev_eqb (a b : wev) : bool :=
  Nat.eqb (e_tid a) (e_tid b) && Nat.eqb (e_call a) (e_call b) && Nat.eqb (e_frame a) (e_frame b) &&
  (match e_kind a, e_kind b with FData, FData | FPing, FPing | FClose, FClose => true | _, _ => false end) &&
  Bool.eqb (e_first a) (e_first b) && Bool.eqb (e_fin a) (e_fin b) && Nat.eqb (e_part a) (e_part b) && Bool.eqb (e_last a) (e_last b).
Fixpoint wevs_eqb (a b : list wev) : bool :=
  match a, b with [] , [] => true | x :: a, y :: b => wev_eqb x y && wevs_eqb a b | _, _ => false end.
(* per call of thread t: (finished, result, projection = the complete expected list) *)
Definition report (progs : tid -> list wcall) (s : st) (t : tid) : list (bool * bool * bool) :=
  map (fun n => (Nat.ltb n (ncall (thrs s t)), result_of (thrs s t) n,
                 match nth_error (progs t) n with
                 | Some (CMsg k parts) => wevs_eqb (evs t n (wire s)) (msg_evs t n k parts (S k))
                 | Some (CPing parts) => wevs_eqb (evs t n (wire s)) (frame_evs t n FPing 0 0 parts (S parts))
                 | _ => true end))
      (seq 0 (length (progs t))).

(* one writer, one message of 2 frames in 2 parts each, then a Ping *)
Definition ex1 (t : tid) : list wcall := match t with 0 => [CMsg 1 1; CPing 0] | _ => [] end.
Definition ex1_s := run (init true ex1) (repeat (EStep 0 false) 30).
Example ex1_report : report ex1 ex1_s 0 = [(true, true, true); (true, true, true)].
Proof. vm_compute. reflexivity. Qed.
Example ex1_wire : map (fun e => (e_call e, e_frame e, e_part e, e_fin e)) (wire ex1_s)
                   = [(0, 0, 0, false); (0, 0, 1, false); (0, 1, 0, true); (0, 1, 1, true); (1, 0, 0, true)].
Proof. vm_compute. reflexivity. Qed.

(* two writers interleaved; the connection is closed from outside while thread 1 is inside the second frame of its
   3-frame message: that call returns an error (false) and only a prefix of it is on the wire, while the
   acknowledged calls are complete *)
Definition ex2 (t : tid) : list wcall :=
  match t with 0 => [CPing 1; CMsg 1 0] | 1 => [CMsg 0 1; CMsg 2 1] | _ => [] end.
Definition ex2_sched : list ev :=
  repeat (EStep 1 false) 12 ++ flat_map (fun _ => [EStep 0 false; EStep 1 false]) (seq 0 10) ++ [EClose] ++
  repeat (EStep 1 false) 5 ++ [EStep 0 true] ++ repeat (EStep 0 false) 5 ++ repeat (EStep 1 false) 5.
Definition ex2_s := run (init false ex2) ex2_sched.
Example ex2_report : (report ex2 ex2_s 0, report ex2 ex2_s 1)
                     = ([(true, true, true); (true, false, false)], [(true, true, true); (true, false, false)]).
Proof. vm_compute. reflexivity. Qed.
Example ex2_wire : map (fun e => (e_tid e, e_call e, e_frame e, e_part e)) (wire ex2_s)
                   = [(1, 0, 0, 0); (1, 0, 0, 1); (1, 1, 0, 0); (1, 1, 0, 1); (0, 0, 0, 0); (0, 0, 0, 1); (1, 1, 1, 0)].
Proof. vm_compute. reflexivity. Qed.

Print Assumptions sched_acked_exact.
Print Assumptions sched_ping_acked_on_wire.
Print Assumptions sched_wire_started.
Print Assumptions sched_acked_on_wire.
