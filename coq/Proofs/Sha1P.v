(* Proofs/Sha1P.v — SHA-1 test vectors (FIPS 180-4 / RFC 3174 / RFC 6455) and shape lemmas. *)
From Coq Require Import List NArith Lia.
From WS Require Import Base.Words Model.Sha1 Model.Base64.
Import ListNotations.
Open Scope N_scope.

(* sha1 "" = da39a3ee5e6b4b0d3255bfef95601890afd80709 *)
Example sha1_vec_empty :
  sha1 []
  = [218; 57; 163; 238; 94; 107; 75; 13; 50; 85; 191; 239; 149; 96; 24; 144; 175; 216; 7; 9].
Proof. vm_compute. reflexivity. Qed.

(* sha1 "abc" = a9993e364706816aba3e25717850c26c9cd0d89d *)
Example sha1_vec_abc :
  sha1 [97; 98; 99]
  = [169; 153; 62; 54; 71; 6; 129; 106; 186; 62; 37; 113; 120; 80; 194; 108; 156; 208; 216; 157].
Proof. vm_compute. reflexivity. Qed.

(* sha1 "abcdbcdecdefdefgefghfghighijhijkijkljklmklmnlmnomnopnopq" = 84983e441c3bd26ebaae4aa1f95129e5e54670f1 *)
Example sha1_vec_fips56 :
  sha1 [97; 98; 99; 100; 98; 99; 100; 101; 99; 100; 101; 102; 100; 101; 102; 103; 101; 102; 103; 104; 102; 103; 104; 105; 103; 104; 105; 106; 104; 105; 106; 107; 105; 106; 107; 108; 106; 107; 108; 109; 107; 108; 109; 110; 108; 109; 110; 111; 109; 110; 111; 112; 110; 111; 112; 113]
  = [132; 152; 62; 68; 28; 59; 210; 110; 186; 174; 74; 161; 249; 81; 41; 229; 229; 70; 112; 241].
Proof. vm_compute. reflexivity. Qed.

(* sha1 "abcdefghbcdefghicdefghijdefghijkefghijklfghijklmghijklmnhijklmnoijklmnopjklmnopqklmnopqrlmnopqrsmnopqrstnopqrstu" = a49b2446a02c645bf419f995b67091253a04a259 *)
Example sha1_vec_fips112 :
  sha1 [97; 98; 99; 100; 101; 102; 103; 104; 98; 99; 100; 101; 102; 103; 104; 105; 99; 100; 101; 102; 103; 104; 105; 106; 100; 101; 102; 103; 104; 105; 106; 107; 101; 102; 103; 104; 105; 106; 107; 108; 102; 103; 104; 105; 106; 107; 108; 109; 103; 104; 105; 106; 107; 108; 109; 110; 104; 105; 106; 107; 108; 109; 110; 111; 105; 106; 107; 108; 109; 110; 111; 112; 106; 107; 108; 109; 110; 111; 112; 113; 107; 108; 109; 110; 111; 112; 113; 114; 108; 109; 110; 111; 112; 113; 114; 115; 109; 110; 111; 112; 113; 114; 115; 116; 110; 111; 112; 113; 114; 115; 116; 117]
  = [164; 155; 36; 70; 160; 44; 100; 91; 244; 25; 249; 149; 182; 112; 145; 37; 58; 4; 162; 89].
Proof. vm_compute. reflexivity. Qed.

(* RFC 6455 section 1.3: Sec-WebSocket-Accept for the sample nonce *)
Definition sha1_rfc6455_key : bytes := (* "dGhlIHNhbXBsZSBub25jZQ==" *)
  [100; 71; 104; 108; 73; 72; 78; 104; 98; 88; 66; 115; 90; 83; 66; 117; 98; 50; 53; 106; 90; 81; 61; 61].
Definition sha1_rfc6455_guid : bytes := (* "258EAFA5-E914-47DA-95CA-C5AB0DC85B11" *)
  [50; 53; 56; 69; 65; 70; 65; 53; 45; 69; 57; 49; 52; 45; 52; 55; 68; 65; 45; 57; 53; 67; 65; 45; 67; 53; 65; 66; 48; 68; 67; 56; 53; 66; 49; 49].
Definition sha1_rfc6455_accept : bytes := (* "s3pPLMBiTxaQ9kYGzzhZRbK+xOo=" *)
  [115; 51; 112; 80; 76; 77; 66; 105; 84; 120; 97; 81; 57; 107; 89; 71; 122; 122; 104; 90; 82; 98; 75; 43; 120; 79; 111; 61].
Example sha1_rfc6455 :
  b64_encode (sha1 (sha1_rfc6455_key ++ sha1_rfc6455_guid)) = sha1_rfc6455_accept.
Proof. vm_compute. reflexivity. Qed.

Lemma sha1_length : forall m, length (sha1 m) = 20%nat.
Proof.
  intro m. unfold sha1.
  destruct (sha1_go sha1_init [] 15%nat (sha1_words (sha1_pad m))) as [[[[a b] c] d] e].
  unfold sha1_out. rewrite !app_length, !be_bytes_length. reflexivity.
Qed.

Lemma sha1_wf : forall m, wf_bytes (sha1 m).
Proof.
  intro m. unfold sha1.
  destruct (sha1_go sha1_init [] 15%nat (sha1_words (sha1_pad m))) as [[[[a b] c] d] e].
  unfold sha1_out.
  do 4 (apply wf_app; [apply be_bytes_wf|]). apply be_bytes_wf.
Qed.

Print Assumptions sha1_rfc6455.
Print Assumptions sha1_length.
Print Assumptions sha1_wf.
