(* Proofs/ReaderP.v — step-level facts about the Reader model (every state, every input):
   protocol violations are rejected by readLoop, Pings are answered with the identical payload,
   a clean end of message is reported only at a real message end, declared lengths are bounded. *)
From Coq Require Import List NArith Lia ZArith ZifyN ZifyNat ZifyBool Bool.
From WS Require Import Base.Words Gen.Consts Gen.CloseCode Model.Mask Model.Frame Model.Proto Model.CloseCodec Model.RefDecoder Model.Reader
  Proofs.MaskP Proofs.FrameP Proofs.CloseCodecP.
Import ListNotations.
Open Scope N_scope.
Ltac Zify.zify_post_hook ::= Z.div_mod_to_equations.

(* ---------------- header decoding: what can come out ---------------- *)
Theorem dec_hdr_bounds : forall inp h rest, dec_hdr inp = DecOk h rest ->
  h_plen h < 9223372036854775808 /\ h_opc h < 16.
Proof.
  intros inp h rest H. unfold dec_hdr, dec_ext in H.
  destruct inp as [|b0 [|b1 r]]; try discriminate. cbv zeta in H.
  destruct (take_n _ r) as [[eb r1]|]; [|discriminate].
  match type of H with context [9223372036854775808 <=? ?p] => destruct (N.leb_spec 9223372036854775808 p) as [|Hlt]; [discriminate|] end.
  destruct (128 <=? b1).
  - destruct (take_n 4 r1) as [[kb r2]|]; [|discriminate]. inversion H; subst; cbn [h_plen h_opc]. split; [exact Hlt|]. apply N.mod_lt; discriminate.
  - inversion H; subst; cbn [h_plen h_opc]. split; [exact Hlt|]. apply N.mod_lt; discriminate.
Qed.

(* a 64-bit length field with the top bit set is rejected (nothing is read or allocated for it) *)
Theorem dec_hdr_topbit : forall b0 b1 eb rest, b1 mod 128 = 127 -> length eb = 8%nat -> 9223372036854775808 <= be_val eb ->
  dec_hdr (b0 :: b1 :: eb ++ rest) = DecNeg.
Proof. intros b0 b1 eb rest H7 Hl Hv. unfold dec_hdr, dec_ext. cbv zeta. rewrite H7.
  change (127 =? 126) with false. change (127 =? 127) with true. cbv iota.
  rewrite <- Hl, take_n_app. rewrite Hl. change (Nat.eqb 8 0) with false. cbv iota.
  destruct (N.leb_spec 9223372036854775808 (be_val eb)); [reflexivity|lia]. Qed.

(* a received Ping whose payload has arrived is answered by a Pong with the identical payload, and nothing else changes on the wire *)
Theorem ping_echo : forall s h raw rest, r_closed s = false -> h_opc h = 9 -> h_fin h = true -> h_plen h <= 125 ->
  take_n (N.to_nat (h_plen h)) (r_inq s) = Some (raw, rest) ->
  exists s', handle_control s h = Ok tt s' /\
    r_replies s' = r_replies s ++ [RpPong (if h_masked h then mask_spec (h_key h) raw else raw)] /\ r_inq s' = rest /\ r_pongs s' = r_pongs s.
Proof. intros s h raw rest Hc Ho Hf Hl Ht. unfold handle_control.
  destruct (N.ltb_spec 125 (h_plen h)); [lia|]. rewrite Hf. cbn [negb]. unfold read_payload. rewrite Hc, Ht.
  rewrite Ho. change (9 =? 9) with true. cbv iota.
  eexists. split; [reflexivity|]. unfold add_reply. cbn [andb]. cbn [r_replies r_inq r_pongs set_inq]. auto. Qed.

(* an unsolicited / any Pong changes nothing but the notification list *)
Theorem pong_ignored : forall s h raw rest, r_closed s = false -> h_opc h = 10 -> h_fin h = true -> h_plen h <= 125 ->
  take_n (N.to_nat (h_plen h)) (r_inq s) = Some (raw, rest) ->
  exists s', handle_control s h = Ok tt s' /\ r_replies s' = r_replies s /\ r_inq s' = rest /\ r_closed s' = false /\ r_close_sent s' = r_close_sent s.
Proof. intros s h raw rest Hc Ho Hf Hl Ht. unfold handle_control.
  destruct (N.ltb_spec 125 (h_plen h)); [lia|]. rewrite Hf. cbn [negb]. unfold read_payload. rewrite Hc, Ht.
  rewrite Ho. change (10 =? 9) with false. change (10 =? 10) with true. cbv iota.
  eexists. split; [reflexivity|]. cbn. auto. Qed.

(* a received Close frame with a well-formed payload is echoed with the same code and reason, the
   connection is closed, and the read fails with exactly that CloseError *)
Theorem close_echo : forall s h raw rest code reason, r_closed s = false -> r_close_sent s = false ->
  h_opc h = 8 -> h_fin h = true -> h_plen h <= 125 ->
  take_n (N.to_nat (h_plen h)) (r_inq s) = Some (raw, rest) ->
  parse_close (if h_masked h then mask_spec (h_key h) raw else raw) = Some (code, reason) ->
  exists s', handle_control s h = Err (RECloseErr code reason) s' /\
    r_replies s' = r_replies s ++ [RpClose code (Some reason)] /\ r_closed s' = true.
Proof. intros s h raw rest code reason Hc Hcs Ho Hf Hl Ht Hp. unfold handle_control.
  destruct (N.ltb_spec 125 (h_plen h)); [lia|]. rewrite Hf. cbn [negb]. unfold read_payload. rewrite Hc, Ht.
  rewrite Ho. change (8 =? 9) with false. change (8 =? 10) with false. cbv iota. rewrite Hp.
  eexists. split; [reflexivity|]. unfold add_reply. cbn [r_close_sent set_inq]. rewrite Hcs. cbn. auto. Qed.

(* a malformed Close payload (one byte, or a code that may not appear on the wire) fails the read *)
Theorem close_malformed : forall s h raw rest, r_closed s = false ->
  h_opc h = 8 -> h_fin h = true -> h_plen h <= 125 ->
  take_n (N.to_nat (h_plen h)) (r_inq s) = Some (raw, rest) ->
  parse_close (if h_masked h then mask_spec (h_key h) raw else raw) = None ->
  exists s', handle_control s h = Err REOther s'.
Proof. intros s h raw rest Hc Ho Hf Hl Ht Hp. unfold handle_control.
  destruct (N.ltb_spec 125 (h_plen h)); [lia|]. rewrite Hf. cbn [negb]. unfold read_payload. rewrite Hc, Ht.
  rewrite Ho. change (8 =? 9) with false. change (8 =? 10) with false. cbv iota. rewrite Hp. eauto. Qed.

Section ReaderCfg.
Variable cfg : rcfg.

(* the header-level clauses of the property's violation list, as the RECEIVER with role rc_role sees them *)
Definition hdr_violation (h : hdr) : bool :=
  h_rsv2 h || h_rsv3 h
  || (h_rsv1 h && (negb (flate_on cfg) || negb (is_data_first (h_opc h))))        (* reserved bit *)
  || negb (Bool.eqb (h_masked h) (is_server cfg))                                   (* wrong masking for the role *)
  || negb ((h_opc h <=? 2) || ((8 <=? h_opc h) && (h_opc h <=? 10)))               (* reserved opcode *)
  || (is_control (h_opc h) && ((125 <? h_plen h) || negb (h_fin h))).              (* oversized / fragmented control frame *)

Lemma opc_cases o : (o <=? 2) || ((8 <=? o) && (o <=? 10)) = ((o =? 8) || (o =? 9) || (o =? 10)) || ((o =? 0) || (o =? 1) || (o =? 2)).
Proof. destruct (N.leb_spec o 2); destruct (N.leb_spec 8 o); destruct (N.leb_spec o 10);
  destruct (N.eqb_spec o 8); destruct (N.eqb_spec o 9); destruct (N.eqb_spec o 10);
  destruct (N.eqb_spec o 0); destruct (N.eqb_spec o 1); destruct (N.eqb_spec o 2); cbn; try reflexivity; lia. Qed.

(* readLoop never hands a violating frame to the message layer: the read fails (class "other"),
   whatever follows on the wire and whatever the state is *)
Theorem read_loop_rejects : forall fuel s h rest, r_closed s = false -> dec_hdr (r_inq s) = DecOk h rest ->
  hdr_violation h = true -> exists s', read_loop cfg (S fuel) s = Err REOther s'.
Proof.
  intros fuel s h rest Hc Hd Hv. cbn [read_loop]. unfold read_hdr. rewrite Hc, Hd.
  unfold hdr_violation in Hv.
  destruct ((h_rsv1 h && (negb (flate_on cfg) || negb (is_data_first (h_opc h)))) || h_rsv2 h || h_rsv3 h) eqn:Ersv; [eauto|].
  apply Bool.orb_false_iff in Ersv. destruct Ersv as (Ersv & E3). apply Bool.orb_false_iff in Ersv. destruct Ersv as (E1 & E2).
  rewrite E1, E2, E3 in Hv. cbn [orb] in Hv.
  destruct (is_server cfg) eqn:Esrv; destruct (h_masked h) eqn:Em; cbn [negb andb Bool.eqb orb] in *; eauto.
  - (* server, masked: look at opcode / control clauses *)
    rewrite opc_cases in Hv.
    destruct ((h_opc h =? 8) || (h_opc h =? 9) || (h_opc h =? 10)) eqn:Ectl.
    + cbn [orb negb] in Hv. unfold handle_control.
      assert (Hic : is_control (h_opc h) = true).
      { unfold is_control. apply Bool.orb_true_iff in Ectl. destruct Ectl as [Ectl|Ectl]; [apply Bool.orb_true_iff in Ectl; destruct Ectl as [Ectl|Ectl]|];
        apply N.eqb_eq in Ectl; rewrite Ectl; reflexivity. }
      rewrite Hic in Hv. cbn [andb] in Hv.
      destruct (125 <? h_plen h); [eauto|]. cbn [orb] in Hv. rewrite Hv. eauto.
    + cbn [orb] in Hv. destruct ((h_opc h =? 0) || (h_opc h =? 1) || (h_opc h =? 2)) eqn:Edat; [|eauto].
      cbn [negb orb] in Hv. unfold is_control in Hv.
      apply Bool.orb_true_iff in Edat. destruct Edat as [Edat|Edat]; [apply Bool.orb_true_iff in Edat; destruct Edat as [Edat|Edat]|];
        apply N.eqb_eq in Edat; rewrite Edat in Hv; cbn in Hv; discriminate.
  - rewrite opc_cases in Hv.
    destruct ((h_opc h =? 8) || (h_opc h =? 9) || (h_opc h =? 10)) eqn:Ectl.
    + cbn [orb negb] in Hv. unfold handle_control.
      assert (Hic : is_control (h_opc h) = true).
      { unfold is_control. apply Bool.orb_true_iff in Ectl. destruct Ectl as [Ectl|Ectl]; [apply Bool.orb_true_iff in Ectl; destruct Ectl as [Ectl|Ectl]|];
        apply N.eqb_eq in Ectl; rewrite Ectl; reflexivity. }
      rewrite Hic in Hv. cbn [andb] in Hv.
      destruct (125 <? h_plen h); [eauto|]. cbn [orb] in Hv. rewrite Hv. eauto.
    + cbn [orb] in Hv. destruct ((h_opc h =? 0) || (h_opc h =? 1) || (h_opc h =? 2)) eqn:Edat; [|eauto].
      cbn [negb orb] in Hv. unfold is_control in Hv.
      apply Bool.orb_true_iff in Edat. destruct Edat as [Edat|Edat]; [apply Bool.orb_true_iff in Edat; destruct Edat as [Edat|Edat]|];
        apply N.eqb_eq in Edat; rewrite Edat in Hv; cbn in Hv; discriminate.
Qed.

(* ---------------- no silent truncation, step level ---------------- *)
(* the raw payload stream of a message reports its end only when the final frame has been consumed *)
Theorem raw_read_eof_complete : forall fuel n s d e s', raw_read cfg fuel n s = (d, e, true, s') ->
  r_fin s' = true /\ r_plen s' = 0 /\ d = [] /\ e = None.
Proof. induction fuel as [|fuel IH]; intros n s d e s' H; cbn [raw_read] in H; [inversion H|].
  destruct (N.eqb_spec (r_plen s) 0) as [Hz|Hnz].
  - destruct (r_fin s) eqn:Ef.
    + inversion H; subst. auto.
    + destruct (read_loop cfg (S fuel) s) as [h s1|er s1]; [|inversion H].
      destruct (negb (h_opc h =? 0)); [inversion H|]. apply IH in H. exact H.
  - destruct (read_payload s _) as [[raw er] s1]. inversion H. Qed.

(* when the transport has ended and fewer bytes than the current frame still needs are left, reading fails *)
Theorem raw_read_truncated : forall fuel n s, r_closed s = false -> r_plen s <> 0 -> (0 < n)%nat ->
  N.of_nat (length (r_inq s)) < r_plen s -> (length (r_inq s) < n)%nat -> r_end s <> EOpen ->
  exists d s', raw_read cfg (S fuel) n s = (d, Some (end_err s), false, s') /\ (end_err s = RETransEof \/ end_err s = RETransFail).
Proof. intros fuel n s Hc Hp Hn Hl Hl2 He. cbn [raw_read].
  destruct (N.eqb_spec (r_plen s) 0); [contradiction|].
  unfold read_payload. rewrite Hc.
  match goal with |- context [take_n ?k (r_inq s)] => destruct (take_n k (r_inq s)) as [[a b]|] eqn:ET end.
  - apply take_n_some in ET. destruct ET as (E1 & E2). exfalso.
    destruct (N.ltb_spec (N.of_nat n) (r_plen s)); rewrite E1, app_length in *; lia.
  - eexists. eexists. split; [reflexivity|]. unfold end_err. destruct (r_end s); [contradiction|auto|auto]. Qed.

End ReaderCfg.

Section ReaderFull.
Variable cfg : rcfg.
Variable inflate : bytes -> bytes -> bytes * istatus.
(* an uncompressed message: Read reports a clean end only if the final frame was consumed completely *)
Theorem msg_read_eof_complete : forall fuel n s d s', r_flate s = false ->
  msg_read cfg inflate fuel n s = (d, None, true, s') -> r_fin s' = true /\ r_plen s' = 0.
Proof. intros fuel n s d s' Hf H. unfold msg_read in H. rewrite Hf in H.
  destruct (r_closed s); [inversion H|]. destruct ((r_lrn s =? 0)%Z); [inversion H|].
  match type of H with context [raw_read cfg fuel ?k s] => destruct (raw_read cfg fuel k s) as [[[d0 e0] eof0] s1] eqn:ER end.
  destruct (limit_hit s (length d0)); [inversion H|]. inversion H; subst.
  apply raw_read_eof_complete in ER. destruct ER as (A & B & _). unfold sub_lrn; cbn [r_fin r_plen]. auto. Qed.

(* ---------------- limits, step level ---------------- *)
(* once limit+1 bytes of a message have been handed out the read fails and a Close frame with status 1009 is written *)
Theorem limit_enforced : forall fuel n s d e eof s', r_closed s = false -> r_close_sent s = false -> (r_lrn s = 0)%Z ->
  msg_read cfg inflate fuel n s = (d, e, eof, s') -> d = [] /\ e = Some RELimit /\ eof = false /\
  r_replies s' = r_replies s ++ [RpClose c_StatusMessageTooBig None].
Proof. intros fuel n s d e eof s' Hc Hcs Hl H. unfold msg_read in H. rewrite Hc in H. rewrite Hl in H. cbn [Z.eqb] in H.
  inversion H; subst. unfold write_error, add_reply. cbn [andb]. rewrite Hcs. cbn. auto. Qed.
End ReaderFull.
