(* Proofs/ReaderViolP.v — stream-level FIRST-VIOLATION theorem for the Reader model:
   any number of valid messages (any fragmentation, Ping / Pong anywhere, both roles, any positive buffer sizes), then —
   possibly after further valid Ping / Pong frames — a frame whose HEADER violates the protocol (reserved bit, reserved
   opcode, wrong masking for the receiver's role, control frame longer than 125 bytes or fragmented), then ANYTHING:
   the application sees exactly the valid messages and then exactly one failing Reader call (class "other"); nothing
   after the violating header is read from the transport, let alone delivered; the frames written are exactly the Pongs
   for the Pings received and then
     - exactly one Close frame with status 1002, if a reserved bit is set or the masking is right for the role,
     - NO Close frame at all, if the only violation is the masking (readLoop returns the error without writeError).
   The script runner stops at the first failing call, so whatever operations follow yield nothing. *)
From Coq Require Import List NArith Lia ZArith ZifyN ZifyNat ZifyBool Bool.
From WS Require Import Base.Words Gen.Consts Gen.CloseCode Model.Mask Model.Frame Model.Proto Model.CloseCodec Model.RefDecoder
  Model.Reader Model.Script Proofs.MaskP Proofs.FrameP Proofs.ReaderP Proofs.ReaderRefP Proofs.ReaderCutP.
Import ListNotations.
Open Scope N_scope.

(* ---------- which violations are answered with a Close frame ---------- *)
(* readLoop checks the reserved bits first (writeError 1002), then the masking (plain error return), then the opcode and
   the control-frame rules (writeError 1002) *)
Definition rsv_bad (cfg : rcfg) (h : hdr) : bool :=
  (h_rsv1 h && (negb (flate_on cfg) || negb (is_data_first (h_opc h)))) || h_rsv2 h || h_rsv3 h.
Definition mask_ok (cfg : rcfg) (h : hdr) : bool := Bool.eqb (h_masked h) (is_server cfg).
Definition closes_1002 (cfg : rcfg) (h : hdr) : bool := rsv_bad cfg h || mask_ok cfg h.
Definition viol_replies (cfg : rcfg) (h : hdr) : list reply :=
  if closes_1002 cfg h then [RpClose c_StatusProtocolError None] else [].

Section Viol.
Variable cfg : rcfg.
Variable inflate : bytes -> bytes -> bytes * istatus.
Variable lim : Z.
Variable e : ending.
Notation M := (is_server cfg).
Notation Inv := (inv lim e).

Definition viol_state (s : rst) (h : hdr) (tl : bytes) : rst :=
  if closes_1002 cfg h then write_error (set_inq s tl) c_StatusProtocolError else set_inq s tl.

Lemma ctl_opc_is_control o : ((o =? 8) || (o =? 9) || (o =? 10)) = true -> is_control o = true.
Proof.
  intro H. unfold is_control.
  apply Bool.orb_true_iff in H. destruct H as [H|H]; [apply Bool.orb_true_iff in H; destruct H as [H|H]|];
    apply N.eqb_eq in H; rewrite H; reflexivity.
Qed.

Lemma dat_opc_not_viol o : ((o =? 0) || (o =? 1) || (o =? 2)) = true -> is_control o = false.
Proof.
  intro H. unfold is_control.
  apply Bool.orb_true_iff in H. destruct H as [H|H]; [apply Bool.orb_true_iff in H; destruct H as [H|H]|];
    apply N.eqb_eq in H; rewrite H; reflexivity.
Qed.

(* ---------- readLoop on the violating header itself: the exact state it leaves ---------- *)
Lemma read_loop_viol_hd : forall fuel s h tl, wf_hdr h -> hdr_violation cfg h = true ->
  r_closed s = false -> r_inq s = enc_hdr h ++ tl ->
  read_loop cfg (S fuel) s = Err REOther (viol_state s h tl).
Proof.
  intros fuel s h tl Hw Hv Hc Hi. cbn [read_loop]. unfold read_hdr. rewrite Hc, Hi, dec_enc by exact Hw.
  unfold viol_state, closes_1002, mask_ok. fold (rsv_bad cfg h).
  unfold hdr_violation in Hv.
  destruct (rsv_bad cfg h) eqn:Ersv; [reflexivity|].
  unfold rsv_bad in Ersv.
  apply Bool.orb_false_iff in Ersv. destruct Ersv as (Ersv & E3). apply Bool.orb_false_iff in Ersv. destruct Ersv as (E1 & E2).
  rewrite E1, E2, E3 in Hv. cbn [orb] in Hv.
  destruct (is_server cfg) eqn:Esrv; destruct (h_masked h) eqn:Em; cbn [negb andb Bool.eqb orb] in *; try reflexivity.
  - rewrite opc_cases in Hv.
    destruct ((h_opc h =? 8) || (h_opc h =? 9) || (h_opc h =? 10)) eqn:Ectl.
    + cbn [orb negb] in Hv. unfold handle_control.
      rewrite (ctl_opc_is_control _ Ectl) in Hv. cbn [andb] in Hv.
      destruct (125 <? h_plen h); [reflexivity|]. cbn [orb] in Hv. rewrite Hv. reflexivity.
    + cbn [orb] in Hv. destruct ((h_opc h =? 0) || (h_opc h =? 1) || (h_opc h =? 2)) eqn:Edat; [|reflexivity].
      cbn [negb orb] in Hv. rewrite (dat_opc_not_viol _ Edat) in Hv. discriminate.
  - rewrite opc_cases in Hv.
    destruct ((h_opc h =? 8) || (h_opc h =? 9) || (h_opc h =? 10)) eqn:Ectl.
    + cbn [orb negb] in Hv. unfold handle_control.
      rewrite (ctl_opc_is_control _ Ectl) in Hv. cbn [andb] in Hv.
      destruct (125 <? h_plen h); [reflexivity|]. cbn [orb] in Hv. rewrite Hv. reflexivity.
    + cbn [orb] in Hv. destruct ((h_opc h =? 0) || (h_opc h =? 1) || (h_opc h =? 2)) eqn:Edat; [|reflexivity].
      cbn [negb orb] in Hv. rewrite (dat_opc_not_viol _ Edat) in Hv. discriminate.
Qed.

(* what the failing state looks like *)
Definition failed (s' : rst) (tl : bytes) (rp : list reply) (pg : list bytes) (h : hdr) : Prop :=
  r_inq s' = tl /\ r_closed s' = false /\ r_close_sent s' = closes_1002 cfg h /\ r_replies s' = rp /\ r_pongs s' = pg.

Lemma viol_state_failed s h tl : r_closed s = false -> r_close_sent s = false ->
  failed (viol_state s h tl) tl (r_replies s ++ viol_replies cfg h) (r_pongs s) h.
Proof.
  intros Hc Hs. unfold failed, viol_state, viol_replies. destruct (closes_1002 cfg h).
  - unfold write_error, add_reply. rsimp. rewrite Hs. cbn [andb orb]. rsimp. auto 10.
  - rsimp. rewrite app_nil_r. auto 10.
Qed.

(* ---------- readLoop: valid Ping / Pong frames first, then the violating header ---------- *)
Lemma read_loop_viol : forall cs fuel s h tl, Forall wf_ctl cs -> wf_hdr h -> hdr_violation cfg h = true -> Inv s ->
  r_inq s = concat (map (enc_ctl M) cs) ++ enc_hdr h ++ tl -> (length (r_inq s) < fuel)%nat ->
  exists s', read_loop cfg fuel s = Err REOther s' /\
    failed s' tl (r_replies s ++ pw cs ++ viol_replies cfg h) (r_pongs s ++ pn cs) h.
Proof.
  induction cs as [|c cs IH]; intros fuel s h tl Hcs Hw Hv Hq Hi Hfu.
  - destruct fuel as [|fuel]; [lia|]. cbn [map concat app] in Hi.
    pose proof Hq as (Hc & Hfl & Hlim & Hsent & He).
    rewrite (read_loop_viol_hd fuel s h tl Hw Hv Hc Hi).
    eexists. split; [reflexivity|]. cbn [pw pn flat_map app]. rewrite app_nil_r.
    apply viol_state_failed; assumption.
  - destruct fuel as [|fuel]; [lia|].
    inversion Hcs as [|c0 cs0 Hc0 Hcs']. subst c0 cs0.
    cbn [map concat] in Hi. unfold enc_ctl at 1 in Hi. rewrite enc_frame_mk in Hi. rewrite <- !app_assoc in Hi.
    fold (ctl_hdr cfg c) in Hi.
    pose proof Hq as (Hc & Hfl & Hlim & Hsent & He).
    set (rest := concat (map (enc_ctl M) cs) ++ enc_hdr h ++ tl) in *.
    rewrite (read_loop_ctl_unfold cfg fuel s c _ Hc0 Hc Hi).
    destruct (handle_control_ok cfg inflate lim e (set_inq s (wire M (c_key c) (c_payload c) ++ rest)) c rest Hc0)
      as (s2 & HC & I2 & Q2 & _ & R2 & G2).
    { unfold inv. rsimp. auto 10. }
    { reflexivity. }
    rewrite HC. rsimp_in R2. rsimp_in G2.
    destruct (IH fuel s2 h tl Hcs' Hw Hv Q2) as (s' & RL & I' & C' & S' & R' & G').
    { rewrite I2. reflexivity. }
    { rewrite I2. rewrite Hi in Hfu. rewrite !app_length in Hfu. pose proof (enc_hdr_len2 (ctl_hdr cfg c)). lia. }
    exists s'. split; [exact RL|]. unfold failed. split; [exact I'|]. split; [exact C'|]. split; [exact S'|]. split.
    + rewrite R', R2. change (c :: cs) with ([c] ++ cs). rewrite pw_app, <- !app_assoc. reflexivity.
    + rewrite G', G2. change (c :: cs) with ([c] ++ cs). rewrite pn_app, <- !app_assoc. reflexivity.
Qed.

(* ---------- Conn.reader at a message boundary ---------- *)
Lemma reader_viol : forall cs fuel s h tl, Forall wf_ctl cs -> wf_hdr h -> hdr_violation cfg h = true -> Inv s -> r_fin s = true ->
  r_inq s = concat (map (enc_ctl M) cs) ++ enc_hdr h ++ tl -> (length (r_inq s) < fuel)%nat ->
  exists s', reader cfg fuel s = Err REOther s' /\
    failed s' tl (r_replies s ++ pw cs ++ viol_replies cfg h) (r_pongs s ++ pn cs) h.
Proof.
  intros cs fuel s h tl Hcs Hw Hv Hq Hf Hi Hfu.
  destruct (read_loop_viol cs fuel s h tl Hcs Hw Hv Hq Hi Hfu) as (s' & RL & F).
  exists s'. split; [|exact F].
  unfold reader. destruct Hq as (Hc & _). rewrite Hc, Hf. cbn [negb]. rewrite RL. reflexivity.
Qed.

(* ---------- the whole script: valid messages, then the violation, then any operations ---------- *)
Lemma run_script_viol : forall ms sizes cs more fuel s h tl,
  Forall wf_smsg ms -> Forall (fun m => lim_ok lim (length (sm_payload m))) ms ->
  length sizes = length ms -> Forall (fun n => 0 < n)%nat sizes ->
  Forall wf_ctl cs -> wf_hdr h -> hdr_violation cfg h = true ->
  Inv s -> r_fin s = true ->
  r_inq s = enc_script M ms ++ concat (map (enc_ctl M) cs) ++ enc_hdr h ++ tl -> (length (r_inq s) < fuel)%nat ->
  exists s', run_script cfg inflate fuel (read_ops sizes ++ OReader :: more) s None = (expected_obs ms ++ [ObReader (inr REOther)], s') /\
    failed s' tl (r_replies s ++ pw (flat_map sm_ctls ms) ++ pw cs ++ viol_replies cfg h)
                 (r_pongs s ++ pn (flat_map sm_ctls ms) ++ pn cs) h.
Proof.
  intros ms sizes cs more fuel s h tl Hms Hlk Hl Hpos Hcs Hw Hv Hq Hf Hi Hfu.
  destruct (run_script_validG cfg inflate lim e ms sizes (OReader :: more) fuel s
              (concat (map (enc_ctl M) cs) ++ enc_hdr h ++ tl) Hms Hlk Hl Hpos Hq Hf Hi Hfu)
    as (s1 & (I1 & F1 & Q1 & R1 & G1) & RS).
  assert (Hfu1 : (length (r_inq s1) < fuel)%nat).
  { rewrite I1. rewrite Hi in Hfu. rewrite app_length in Hfu. lia. }
  destruct (reader_viol cs fuel s1 h tl Hcs Hw Hv Q1 F1 I1 Hfu1) as (s' & RD & F).
  exists s'. split.
  - rewrite RS. cbn [run_script]. rewrite RD. reflexivity.
  - rewrite R1, G1, <- !app_assoc in F. exact F.
Qed.

End Viol.

Lemma lim_ok_neg ms : Forall (fun m => lim_ok (-1)%Z (length (sm_payload m))) ms.
Proof. apply Forall_forall. intros m _. unfold lim_ok. lia. Qed.

(* ---------- the stream-level theorem, general form (further valid Ping / Pong frames before the violating header) ---------- *)
Theorem reader_first_violation_gen : forall cfg inflate ms sizes cs h tail e more,
  Forall wf_smsg ms -> length sizes = length ms -> Forall (fun n => 0 < n)%nat sizes ->
  Forall wf_ctl cs -> wf_hdr h -> hdr_violation cfg h = true ->
  let masked := role_eqb (rc_role cfg) Server in          (* the peer of a server is a client: it masks *)
  let stream := enc_script masked ms ++ concat (map (enc_ctl masked) cs) ++ enc_hdr h ++ tail in
  let r := run cfg inflate (-1)%Z stream e (read_ops sizes ++ OReader :: more) in
  fst r = expected_obs ms ++ [ObReader (inr REOther)] /\
  r_replies (snd r) = expected_pongs_written ms ++ pw cs ++ viol_replies cfg h /\
  r_pongs (snd r) = expected_pong_notes ms ++ pn cs /\
  r_inq (snd r) = tail /\ r_closed (snd r) = false /\ r_close_sent (snd r) = closes_1002 cfg h.
Proof.
  intros cfg inflate ms sizes cs h tail e more Hms Hl Hpos Hcs Hw Hv masked stream r. subst r stream masked.
  change (role_eqb (rc_role cfg) Server) with (is_server cfg). unfold run.
  set (stream := enc_script (is_server cfg) ms ++ concat (map (enc_ctl (is_server cfg)) cs) ++ enc_hdr h ++ tail).
  destruct (run_script_viol cfg inflate (-1)%Z e ms sizes cs more (S (S (length stream))) (r_init (-1) stream e) h tail
              Hms (lim_ok_neg ms) Hl Hpos Hcs Hw Hv) as (s' & RS & I & C & S & R & G).
  - apply inv_init.
  - reflexivity.
  - reflexivity.
  - unfold r_init. rsimp. lia.
  - rewrite RS. cbn [fst snd]. unfold r_init in R, G. rsimp_in R. rsimp_in G. cbn [app] in R, G.
    split; [reflexivity|]. split; [exact R|]. split; [exact G|]. split; [exact I|]. split; [exact C|exact S].
Qed.

(* ---------- the theorem as asked: no compression, the violating header directly after the valid messages ---------- *)
(* without compression every reserved bit is a violation, so the Close 1002 is written iff a reserved bit is set or the
   masking is right for the role *)
Lemma closes_1002_nocomp cfg h : rc_co cfg = None ->
  closes_1002 cfg h = h_rsv1 h || h_rsv2 h || h_rsv3 h || Bool.eqb (h_masked h) (role_eqb (rc_role cfg) Server).
Proof.
  intro Hco. unfold closes_1002, rsv_bad, mask_ok, flate_on, is_server. rewrite Hco. cbn [negb orb].
  rewrite Bool.andb_true_r. reflexivity.
Qed.

Theorem reader_first_violation : forall cfg inflate ms sizes h tail e more,
  rc_co cfg = None ->
  Forall wf_smsg ms -> length sizes = length ms -> Forall (fun n => 0 < n)%nat sizes ->
  wf_hdr h ->                                   (* the header can be put on the wire: opcode < 16, length < 2^63, key bytes *)
  hdr_violation cfg h = true ->
  let masked := role_eqb (rc_role cfg) Server in
  let stream := enc_script masked ms ++ enc_hdr h ++ tail in       (* valid messages, a violating header, then ANYTHING *)
  let r := run cfg inflate (-1)%Z stream e (read_ops sizes ++ OReader :: more) in   (* ... and ANY further operations *)
  fst r = expected_obs ms ++ [ObReader (inr REOther)] /\
  r_replies (snd r) = expected_pongs_written ms ++
     (if h_rsv1 h || h_rsv2 h || h_rsv3 h || Bool.eqb (h_masked h) masked then [RpClose c_StatusProtocolError None] else []) /\
  r_pongs (snd r) = expected_pong_notes ms /\
  r_inq (snd r) = tail /\                        (* nothing after the violating header was even read *)
  r_closed (snd r) = false.
Proof.
  intros cfg inflate ms sizes h tail e more Hco Hms Hl Hpos Hw Hv masked stream r.
  destruct (reader_first_violation_gen cfg inflate ms sizes [] h tail e more Hms Hl Hpos (Forall_nil _) Hw Hv)
    as (O & R & G & I & C & _).
  cbn [map concat app pw pn flat_map] in O, R, G, I, C. rewrite app_nil_r in G.
  subst r stream masked. split; [exact O|]. split; [|auto].
  rewrite R. unfold viol_replies. rewrite (closes_1002_nocomp cfg h Hco). reflexivity.
Qed.

(* reserved bit, or right masking with a reserved opcode / an oversized or fragmented control frame:
   exactly one Close frame with status 1002, after the Pongs *)
Corollary reader_first_violation_close : forall cfg inflate ms sizes h tail e more,
  rc_co cfg = None ->
  Forall wf_smsg ms -> length sizes = length ms -> Forall (fun n => 0 < n)%nat sizes ->
  wf_hdr h -> hdr_violation cfg h = true ->
  let masked := role_eqb (rc_role cfg) Server in
  h_rsv1 h || h_rsv2 h || h_rsv3 h = true \/ h_masked h = masked ->
  let r := run cfg inflate (-1)%Z (enc_script masked ms ++ enc_hdr h ++ tail) e (read_ops sizes ++ OReader :: more) in
  fst r = expected_obs ms ++ [ObReader (inr REOther)] /\
  r_replies (snd r) = expected_pongs_written ms ++ [RpClose c_StatusProtocolError None] /\
  r_inq (snd r) = tail.
Proof.
  intros cfg inflate ms sizes h tail e more Hco Hms Hl Hpos Hw Hv masked Hcl r.
  destruct (reader_first_violation cfg inflate ms sizes h tail e more Hco Hms Hl Hpos Hw Hv) as (O & R & _ & I & _).
  subst r. fold masked in R. split; [exact O|]. split; [|exact I]. rewrite R.
  destruct Hcl as [E|E].
  - rewrite E. reflexivity.
  - rewrite E, Bool.eqb_reflx, Bool.orb_true_r. reflexivity.
Qed.

(* the masking is the only thing wrong (either direction): the read fails but NO Close frame is written *)
Corollary reader_first_violation_mask : forall cfg inflate ms sizes h tail e more,
  rc_co cfg = None ->
  Forall wf_smsg ms -> length sizes = length ms -> Forall (fun n => 0 < n)%nat sizes ->
  wf_hdr h ->
  let masked := role_eqb (rc_role cfg) Server in
  h_rsv1 h = false -> h_rsv2 h = false -> h_rsv3 h = false -> h_masked h = negb masked ->
  let r := run cfg inflate (-1)%Z (enc_script masked ms ++ enc_hdr h ++ tail) e (read_ops sizes ++ OReader :: more) in
  fst r = expected_obs ms ++ [ObReader (inr REOther)] /\
  r_replies (snd r) = expected_pongs_written ms /\
  r_inq (snd r) = tail.
Proof.
  intros cfg inflate ms sizes h tail e more Hco Hms Hl Hpos Hw masked E1 E2 E3 Em r.
  assert (Hv : hdr_violation cfg h = true).
  { unfold hdr_violation. change (is_server cfg) with masked. rewrite E1, E2, E3, Em. cbn [orb andb].
    destruct masked; reflexivity. }
  destruct (reader_first_violation cfg inflate ms sizes h tail e more Hco Hms Hl Hpos Hw Hv) as (O & R & _ & I & _).
  subst r. fold masked in R. split; [exact O|]. split; [|exact I]. rewrite R, E1, E2, E3, Em.
  destruct masked; cbn [orb negb Bool.eqb]; apply app_nil_r.
Qed.

(* ====================================================================================================================
   The violating header INSIDE a fragmented message (where a continuation frame is expected): the application gets the
   type of the message, then all the bytes of the fragments received so far, then the error; same replies. *)
Section Mid.
Variable cfg : rcfg.
Variable inflate : bytes -> bytes -> bytes * istatus.
Variable lim : Z.
Variable e : ending.
Notation M := (is_server cfg).
Notation Inv := (inv lim e).
Variable cs : list ctl.
Variable h : hdr.
Variable tl : bytes.
Hypothesis Hcs : Forall wf_ctl cs.
Hypothesis Hw : wf_hdr h.
Hypothesis Hv : hdr_violation cfg h = true.

(* valid Ping / Pong frames, the violating header, anything *)
Definition vtail : bytes := concat (map (enc_ctl M) cs) ++ enc_hdr h ++ tl.
(* continuation fragments none of which is final *)
Definition enc_open (masked : bool) (fs : list frag) : bytes := concat (map (fun f => enc_frag masked 0 f false) fs).

Definition open_pos (s : rst) (b : bytes) (fs : list frag) : Prop :=
  r_inq s = wire M (r_key s) b ++ enc_open M fs ++ vtail /\ r_plen s = N.of_nat (length b) /\ r_fin s = false /\
  Forall wf_frag fs /\ Inv s /\ (r_lrn s < 0)%Z.

Definition vrp (fs : list frag) : list reply := pw (ctls fs) ++ pw cs ++ viol_replies cfg h.
Definition vpg (fs : list frag) : list bytes := pn (ctls fs) ++ pn cs.

Definition open_data (res : bytes * option rerr * bool * rst) (s : rst) (b : bytes) (fs : list frag) : Prop :=
  exists d b' fs' s', res = (d, None, false, s') /\ d ++ b' ++ bodies fs' = b ++ bodies fs /\ open_pos s' b' fs' /\
    r_replies s' ++ pw (ctls fs') = r_replies s ++ pw (ctls fs) /\
    r_pongs s' ++ pn (ctls fs') = r_pongs s ++ pn (ctls fs) /\
    (length (r_inq s') < length (r_inq s))%nat.
Definition open_fail (res : bytes * option rerr * bool * rst) (s : rst) (b : bytes) (fs : list frag) : Prop :=
  exists s', res = ([], Some REOther, false, s') /\ b = [] /\ bodies fs = [] /\
    failed cfg s' tl (r_replies s ++ vrp fs) (r_pongs s ++ vpg fs) h.

Lemma raw_read_open : forall fuel s b fs n, (0 < n)%nat -> open_pos s b fs -> (length (r_inq s) < fuel)%nat ->
  open_data (raw_read cfg fuel n s) s b fs \/ open_fail (raw_read cfg fuel n s) s b fs.
Proof.
  induction fuel as [|fuel IH]; intros s b fs n Hn (Hi & Hp & Hf & Hwf & Hq & Hneg) Hfu; [lia|].
  pose proof Hq as (Hcl & Hfl & Hlim & Hsent & He).
  destruct b as [|x b0].
  - cbn [length] in Hp. cbn [raw_read]. destruct (N.eqb_spec (r_plen s) 0) as [_|Hne]; [|lia].
    rewrite wire_nil in Hi. cbn [app] in Hi. rewrite Hf.
    destruct fs as [|f r].
    + right. unfold enc_open in Hi. cbn [map concat app] in Hi. unfold vtail in Hi.
      destruct (read_loop_viol cfg inflate lim e cs (S fuel) s h tl Hcs Hw Hv Hq Hi Hfu) as (s' & RL & F).
      rewrite RL. exists s'. split; [reflexivity|]. split; [reflexivity|]. split; [reflexivity|].
      unfold vrp, vpg, ctls. cbn [map concat pw pn flat_map app]. exact F.
    + unfold enc_open in Hi. cbn [map concat] in Hi. fold (enc_open M r) in Hi.
      unfold enc_frag in Hi. rewrite enc_frame_mk in Hi. rewrite <- !app_assoc in Hi.
      inversion Hwf as [|f0 r0 Hwf1 Hwr]. subst f0 r0.
      destruct Hwf1 as (Hfc & Hbw & Hbl & Hkw).
      destruct (read_loop_ctlsG cfg inflate lim e (fr_ctl f) (S fuel) s false 0 (fr_key f) (length (fr_body f))
                  (wire M (fr_key f) (fr_body f) ++ enc_open M r ++ vtail) Hfc (or_introl eq_refl) Hbl Hkw Hq Hi Hfu)
        as (s1 & RL & I1 & Q1 & (F1 & P1 & K1 & L1) & R1 & G1).
      rewrite RL. cbn [h_opc mk_hdr]. change (0 =? 0) with true. cbn [negb].
      set (h0 := mk_hdr M false 0 (fr_key f) (length (fr_body f))) in *.
      set (s2 := set_frame s1 h0).
      assert (A2 : open_pos s2 (fr_body f) r).
      { unfold open_pos, inv, s2, h0. rsimp. rewrite wire_key. destruct Q1 as (Q1a & Q1b & Q1c & Q1d & Q1e).
        split; [exact I1|]. split; [reflexivity|]. split; [reflexivity|]. split; [exact Hwr|].
        split; [auto 10|]. rewrite L1. exact Hneg. }
      assert (L0 : (length (r_inq s2) + 2 <= length (r_inq s))%nat).
      { unfold s2. rsimp. rewrite I1, Hi. rewrite !app_length. pose proof (enc_hdr_len2 h0). lia. }
      assert (L2 : (length (r_inq s2) < fuel)%nat) by lia.
      assert (R2 : r_replies s2 = r_replies s ++ pw (fr_ctl f)) by (unfold s2; rsimp; exact R1).
      assert (G2 : r_pongs s2 = r_pongs s ++ pn (fr_ctl f)) by (unfold s2; rsimp; exact G1).
      destruct (IH s2 (fr_body f) r n Hn A2 L2) as [(d & b' & fs' & s' & E & Hc & Ha & Hr & Hg & Hl)|(s' & E & Eb & Er & Fi)].
      * left. exists d, b', fs', s'. split; [exact E|].
        split; [unfold bodies at 2; cbn [map concat app]; exact Hc|]. split; [exact Ha|].
        split; [|split].
        -- rewrite Hr, R2. unfold ctls at 2. cbn [map concat]. rewrite pw_app, app_assoc. reflexivity.
        -- rewrite Hg, G2. unfold ctls at 2. cbn [map concat]. rewrite pn_app, app_assoc. reflexivity.
        -- lia.
      * right. exists s'. split; [exact E|]. split; [reflexivity|].
        split; [unfold bodies; cbn [map concat]; rewrite Eb; exact Er|].
        rewrite R2, G2 in Fi. unfold vrp, vpg in *. unfold ctls at 1 2. cbn [map concat].
        rewrite pw_app, pn_app, <- !app_assoc. rewrite <- !app_assoc in Fi. exact Fi.
  - left. set (bb := x :: b0) in *.
    assert (Hbl : (1 <= length bb)%nat) by (unfold bb; cbn [length]; lia).
    set (k := Nat.min n (length bb)).
    assert (Hk : (if N.of_nat n <? r_plen s then n else N.to_nat (r_plen s)) = k).
    { rewrite Hp. unfold k. destruct (N.ltb_spec (N.of_nat n) (N.of_nat (length bb))); lia. }
    set (b1 := firstn k bb). set (b2 := skipn k bb).
    assert (Hb : bb = b1 ++ b2) by (symmetry; apply firstn_skipn).
    assert (Hl1 : length b1 = k) by (unfold b1; rewrite firstn_length; unfold k; lia).
    assert (Hl2 : (length bb = k + length b2)%nat) by (rewrite Hb at 1; rewrite app_length; lia).
    rewrite Hb, wire_app, <- app_assoc, Hl1 in Hi.
    set (key' := if M then rotk (r_key s) k else r_key s) in *.
    set (rest := wire M key' b2 ++ enc_open M fs ++ vtail) in *.
    assert (RR : raw_read cfg (S fuel) n s = (b1, None, false, sub_plen (set_inq s rest) k key')).
    { cbn [raw_read]. destruct (N.eqb_spec (r_plen s) 0) as [E0|_]; [lia|].
      cbv zeta. rewrite Hk.
      replace k with (length (wire M (r_key s) b1)) at 1 by (rewrite wire_length; exact Hl1).
      rewrite (read_payload_app s _ rest Hcl Hi). rewrite unwire, wire_length, Hl1. reflexivity. }
    exists b1, b2, fs. eexists. split; [exact RR|].
    split; [rewrite app_assoc, <- Hb; reflexivity|].
    split; [|split; [reflexivity|split; [reflexivity|]]].
    + unfold open_pos, inv. rsimp. split; [reflexivity|]. split; [lia|]. auto 10.
    + rsimp. rewrite Hi. assert (Hk1 : (1 <= k)%nat) by (unfold k; lia). rewrite !app_length, !wire_length. lia.
Qed.

Lemma open_pos_sub_lrn s b fs k : open_pos s b fs -> open_pos (sub_lrn s k) b fs.
Proof.
  intros (Hi & Hp & Hf & Hwf & Hq & Hneg). unfold open_pos. rewrite sub_lrn_lrn.
  destruct (Z.ltb_spec (r_lrn s) 0); [|lia]. cbn [sub_lrn r_inq r_key r_plen r_fin]. auto 10.
Qed.

Lemma failed_sub_lrn s t rp pg k : failed cfg s t rp pg h -> failed cfg (sub_lrn s k) t rp pg h.
Proof. intro H. exact H. Qed.

Lemma msg_read_open : forall fuel s b fs n, (0 < n)%nat -> open_pos s b fs -> (length (r_inq s) < fuel)%nat ->
  open_data (msg_read cfg inflate fuel n s) s b fs \/ open_fail (msg_read cfg inflate fuel n s) s b fs.
Proof.
  intros fuel s b fs n Hn Ha Hfu.
  pose proof Ha as (_ & _ & _ & _ & (Hcl & Hfl & _) & Hneg).
  rewrite msg_read_raw by (auto; lia). rewrite capped_neg by exact Hneg.
  destruct (raw_read_open fuel s b fs n Hn Ha Hfu) as [(d & b' & fs' & s' & E & Hc & Ha' & Hr & Hg & Hl)|(s' & E & Eb & Er & Fi)].
  - left. rewrite E. cbv beta iota zeta. rewrite limit_hit_neg by exact Hneg.
    exists d, b', fs', (sub_lrn s' (length d)). split; [reflexivity|]. split; [exact Hc|].
    split; [apply open_pos_sub_lrn; exact Ha'|]. cbn [sub_lrn r_inq r_replies r_pongs]. auto.
  - right. rewrite E. cbv beta iota zeta. rewrite limit_hit_neg by exact Hneg.
    exists (sub_lrn s' (length (@nil N))). split; [reflexivity|]. split; [exact Eb|]. split; [exact Er|].
    apply failed_sub_lrn. exact Fi.
Qed.

Lemma read_all_open : forall fuel s b fs n racc, (0 < n)%nat -> open_pos s b fs -> (length (r_inq s) < fuel)%nat ->
  exists s', read_all cfg inflate fuel n s racc = (concat (frev racc) ++ b ++ bodies fs, Some REOther, s') /\
    failed cfg s' tl (r_replies s ++ vrp fs) (r_pongs s ++ vpg fs) h.
Proof.
  induction fuel as [|fuel IH]; intros s b fs n racc Hn Ha Hfu; [lia|].
  cbn [read_all].
  destruct (msg_read_open (S (S fuel)) s b fs n Hn Ha ltac:(lia)) as [(d & b' & fs' & s' & E & Hc & Ha' & Hr & Hg & Hl)|(s' & E & Eb & Er & Fi)].
  - rewrite E. destruct (IH s' b' fs' n (d :: racc) Hn Ha' ltac:(lia)) as (s'' & E' & Fi).
    exists s''. rewrite E'. split.
    + rewrite frev_cons, <- app_assoc, Hc. reflexivity.
    + unfold vrp, vpg in *. rewrite !app_assoc in Fi. rewrite Hr, Hg in Fi. rewrite !app_assoc. exact Fi.
  - rewrite E. exists s'. split; [|exact Fi]. rewrite frev_cons, Eb, Er. reflexivity.
Qed.

Lemma read_all_z_open : forall fuel s b fs n racc, (0 < n)%nat -> open_pos s b fs -> (length (r_inq s) < fuel)%nat ->
  exists s', read_all_z cfg inflate fuel n s racc = (concat (frev racc) ++ b ++ bodies fs, Some REOther, s') /\
    failed cfg s' tl (r_replies s ++ vrp fs) (r_pongs s ++ vpg fs) h.
Proof.
  intros fuel s b fs n racc Hn Ha Hfu. unfold read_all_z.
  destruct (msg_read_open fuel s b fs n Hn Ha Hfu) as [(d & b' & fs' & s' & E & Hc & Ha' & Hr & Hg & Hl)|(s' & E & Eb & Er & Fi)].
  - rewrite E. destruct (read_all_open (length (r_zout s') + fuel) s' b' fs' n (d :: racc) Hn Ha' ltac:(lia)) as (s'' & E' & Fi).
    exists s''. rewrite E'. split.
    + rewrite frev_cons, <- app_assoc, Hc. reflexivity.
    + unfold vrp, vpg in *. rewrite !app_assoc in Fi. rewrite Hr, Hg in Fi. rewrite !app_assoc. exact Fi.
  - rewrite E. exists s'. split; [|exact Fi]. rewrite frev_cons, Eb, Er. reflexivity.
Qed.

(* the frames of a message that is never finished: first fragment (text / binary) and continuation fragments, no FIN *)
Definition enc_open_msg (masked : bool) (t : N) (f0 : frag) (fs : list frag) : bytes :=
  enc_frag masked t f0 false ++ enc_open masked fs.

Lemma reader_open : forall fuel s t f0 fs, (t = 1 \/ t = 2) -> wf_frag f0 -> Forall wf_frag fs -> (lim < 0)%Z -> Inv s -> r_fin s = true ->
  r_inq s = enc_open_msg M t f0 fs ++ vtail -> (length (r_inq s) < fuel)%nat ->
  exists s1, reader cfg fuel s = Ok t s1 /\ open_pos s1 (fr_body f0) fs /\
    r_replies s1 = r_replies s ++ pw (fr_ctl f0) /\ r_pongs s1 = r_pongs s ++ pn (fr_ctl f0) /\
    (length (r_inq s1) <= length (r_inq s))%nat.
Proof.
  intros fuel s t f0 fs Ht (Hfc & Hbw & Hbl & Hkw) Hwr Hlim0 Hq Hf Hi Hfu.
  unfold enc_open_msg, enc_frag in Hi. rewrite enc_frame_mk in Hi. rewrite <- !app_assoc in Hi.
  assert (Ho : t = 0 \/ t = 1 \/ t = 2) by (destruct Ht; auto).
  destruct (read_loop_ctlsG cfg inflate lim e (fr_ctl f0) fuel s false t (fr_key f0) (length (fr_body f0))
              (wire M (fr_key f0) (fr_body f0) ++ enc_open M fs ++ vtail) Hfc Ho Hbl Hkw Hq Hi Hfu)
    as (s1 & RL & I1 & Q1 & (F1 & P1 & K1 & L1) & R1 & G1).
  unfold reader. destruct Hq as (Hc & Hfl & Hlim & Hsent & He). rewrite Hc, Hf. cbn [negb]. rewrite RL.
  cbn [h_opc mk_hdr].
  destruct (N.eqb_spec t 0) as [E0|_]; [destruct Ht as [Ht|Ht]; rewrite Ht in E0; discriminate|].
  eexists. split; [reflexivity|].
  destruct Q1 as (Q1a & Q1b & Q1c & Q1d & Q1e).
  split; [|split; [rsimp; exact R1|split; [rsimp; exact G1|]]].
  - unfold open_pos, inv. rsimp. rewrite wire_key.
    split; [exact I1|]. split; [reflexivity|]. split; [reflexivity|]. split; [exact Hwr|].
    split; [auto 10|]. rewrite Q1c. exact Hlim0.
  - rsimp. rewrite I1, Hi. rewrite !app_length. lia.
Qed.

Lemma run_script_open : forall fuel s t f0 fs n more, (t = 1 \/ t = 2) -> wf_frag f0 -> Forall wf_frag fs -> (lim < 0)%Z -> (0 < n)%nat ->
  Inv s -> r_fin s = true -> r_inq s = enc_open_msg M t f0 fs ++ vtail -> (length (r_inq s) < fuel)%nat ->
  exists s', run_script cfg inflate fuel (OReader :: OReadAllN n :: more) s None =
               ([ObReader (inl t); ObMsg (bodies (f0 :: fs)) (Some REOther)], s') /\
    failed cfg s' tl (r_replies s ++ vrp (f0 :: fs)) (r_pongs s ++ vpg (f0 :: fs)) h.
Proof.
  intros fuel s t f0 fs n more Ht Hf0 Hfs Hlim0 Hn Hq Hf Hi Hfu.
  destruct (reader_open fuel s t f0 fs Ht Hf0 Hfs Hlim0 Hq Hf Hi Hfu) as (s1 & R & A & R1 & G1 & L1).
  destruct (read_all_z_open fuel s1 (fr_body f0) fs n [] Hn A ltac:(lia)) as (s2 & RZ & Fi).
  exists s2. split.
  - rewrite run_script_pair, R. cbv beta iota. rewrite RZ. cbv beta iota. reflexivity.
  - rewrite R1, G1 in Fi. unfold vrp, vpg in *. unfold ctls at 1 2. cbn [map concat].
    rewrite pw_app, pn_app, <- !app_assoc. rewrite <- !app_assoc in Fi. exact Fi.
Qed.

End Mid.

Theorem reader_first_violation_mid : forall cfg inflate ms sizes t f0 fs n cs h tail e more,
  Forall wf_smsg ms -> length sizes = length ms -> Forall (fun n => 0 < n)%nat sizes ->
  (t = 1 \/ t = 2) -> wf_frag f0 -> Forall wf_frag fs -> (0 < n)%nat ->
  Forall wf_ctl cs -> wf_hdr h -> hdr_violation cfg h = true ->
  let masked := role_eqb (rc_role cfg) Server in
  let stream := enc_script masked ms ++ enc_open_msg masked t f0 fs ++ concat (map (enc_ctl masked) cs) ++ enc_hdr h ++ tail in
  let r := run cfg inflate (-1)%Z stream e (read_ops sizes ++ OReader :: OReadAllN n :: more) in
  fst r = expected_obs ms ++ [ObReader (inl t); ObMsg (bodies (f0 :: fs)) (Some REOther)] /\
  r_replies (snd r) = expected_pongs_written ms ++ pw (ctls (f0 :: fs)) ++ pw cs ++ viol_replies cfg h /\
  r_pongs (snd r) = expected_pong_notes ms ++ pn (ctls (f0 :: fs)) ++ pn cs /\
  r_inq (snd r) = tail /\ r_closed (snd r) = false /\ r_close_sent (snd r) = closes_1002 cfg h.
Proof.
  intros cfg inflate ms sizes t f0 fs n cs h tail e more Hms Hl Hpos Ht Hf0 Hfs Hn Hcs Hw Hv masked stream r. subst r stream masked.
  change (role_eqb (rc_role cfg) Server) with (is_server cfg). unfold run.
  set (vt := concat (map (enc_ctl (is_server cfg)) cs) ++ enc_hdr h ++ tail).
  set (stream := enc_script (is_server cfg) ms ++ enc_open_msg (is_server cfg) t f0 fs ++ vt).
  set (fuel := S (S (length stream))).
  destruct (run_script_validG cfg inflate (-1)%Z e ms sizes (OReader :: OReadAllN n :: more) fuel (r_init (-1) stream e)
              (enc_open_msg (is_server cfg) t f0 fs ++ vt) Hms (lim_ok_neg ms) Hl Hpos)
    as (s1 & (I1 & F1 & Q1 & R1 & G1) & RS).
  - apply inv_init.
  - reflexivity.
  - reflexivity.
  - unfold r_init, fuel. rsimp. lia.
  - assert (Hfu1 : (length (r_inq s1) < fuel)%nat).
    { rewrite I1. unfold fuel, stream. rewrite (app_length (enc_script _ _)). lia. }
    destruct (run_script_open cfg inflate (-1)%Z e cs h tail Hcs Hw Hv fuel s1 t f0 fs n more Ht Hf0 Hfs ltac:(lia) Hn Q1 F1 I1 Hfu1)
      as (s' & RO & I & C & S & R & G).
    rewrite RS, RO. cbn [fst snd].
    unfold r_init in R1, G1. rsimp_in R1. rsimp_in G1. cbn [app] in R1, G1. rewrite R1 in R. rewrite G1 in G.
    split; [reflexivity|]. split; [exact R|]. split; [exact G|]. split; [exact I|]. split; [exact C|exact S].
Qed.

(* ---------- non-vacuity ---------- *)
Definition no_inflate : bytes -> bytes -> bytes * istatus := fun _ _ => ([], INeedMore).

(* CLIENT: unmasked text "AB" in two fragments with a Ping between them, then a frame with the reserved opcode 3, then junk;
   the script goes on after the failing Reader call *)
Example viol_client :
  let cfg := {| rc_role := Client; rc_co := None |} in
  let r := run cfg no_inflate (-1)%Z [1; 1; 65;  137; 1; 7;  128; 1; 66;  131; 1; 9; 9; 9] EEof [OReader; OReadAllN 1; OReader; OReadAll; OReader] in
  fst r = [ObReader (inl 1); ObMsg [65; 66] None; ObReader (inr REOther)] /\
  r_replies (snd r) = [RpPong [7]; RpClose 1002 None] /\ r_inq (snd r) = [9; 9; 9].
Proof. vm_compute. repeat split. Qed.

(* the same through the theorem *)
Example viol_client_thm :
  let cfg := {| rc_role := Client; rc_co := None |} in
  let m := {| sm_typ := 1; sm_first := {| fr_ctl := []; fr_body := [65]; fr_key := zero_key |};
              sm_rest := [ {| fr_ctl := [ {| c_opc := 9; c_payload := [7]; c_key := zero_key |} ]; fr_body := [66]; fr_key := zero_key |} ] |} in
  let h := {| h_fin := true; h_rsv1 := false; h_rsv2 := false; h_rsv3 := false; h_opc := 3; h_masked := false; h_key := zero_key; h_plen := 1 |} in
  enc_script false [m] ++ enc_hdr h ++ [9; 9; 9] = [1; 1; 65;  137; 1; 7;  128; 1; 66;  131; 1; 9; 9; 9] /\
  Forall wf_smsg [m] /\ wf_hdr h /\ hdr_violation cfg h = true.
Proof.
  cbv zeta. split; [vm_compute; reflexivity|]. split; [|split; [|vm_compute; reflexivity]].
  - constructor; [|constructor]. unfold wf_smsg, wf_frag, wf_ctl, wf_bytes, wf_key, zero_key.
    cbn [sm_typ sm_first sm_rest fr_ctl fr_body fr_key c_opc c_payload c_key length].
    repeat (split || constructor || (right; reflexivity) || (left; reflexivity) || lia).
  - unfold wf_hdr, wf_key, zero_key. cbn [h_opc h_plen h_key h_masked]. repeat split; lia.
Qed.

(* SERVER, through the theorem: masked text "AB" (key 1 2 3 4), then a masked Ping declaring 126 bytes *)
Example viol_server_thm :
  let cfg := {| rc_role := Server; rc_co := None |} in
  let m := {| sm_typ := 1; sm_first := {| fr_ctl := []; fr_body := [65; 66]; fr_key := (1, 2, 3, 4) |}; sm_rest := [] |} in
  let h := {| h_fin := true; h_rsv1 := false; h_rsv2 := false; h_rsv3 := false; h_opc := 9; h_masked := true; h_key := zero_key; h_plen := 126 |} in
  enc_script true [m] ++ enc_hdr h ++ [9; 9] = [129; 130; 1; 2; 3; 4; 64; 64;  137; 254; 0; 126; 0; 0; 0; 0; 9; 9] /\
  Forall wf_smsg [m] /\ wf_hdr h /\ hdr_violation cfg h = true.
Proof.
  cbv zeta. split; [vm_compute; reflexivity|]. split; [|split; [|vm_compute; reflexivity]].
  - constructor; [|constructor]. unfold wf_smsg, wf_frag, wf_ctl, wf_bytes, wf_key.
    cbn [sm_typ sm_first sm_rest fr_ctl fr_body fr_key length].
    repeat (split || constructor || (right; reflexivity) || (left; reflexivity) || lia).
  - unfold wf_hdr, wf_key, zero_key. cbn [h_opc h_plen h_key h_masked]. repeat split; try lia; try discriminate.
Qed.

(* SERVER: masked text "AB" (key 1 2 3 4), then a masked Ping declaring 126 bytes, then junk *)
Example viol_server :
  let cfg := {| rc_role := Server; rc_co := None |} in
  let r := run cfg no_inflate (-1)%Z [129; 130; 1; 2; 3; 4; 64; 64;  137; 254; 0; 126; 0; 0; 0; 0; 9; 9] EFail [OReader; OReadAllN 5; OReader; OReader] in
  fst r = [ObReader (inl 1); ObMsg [65; 66] None; ObReader (inr REOther)] /\
  r_replies (snd r) = [RpClose 1002 None] /\ r_inq (snd r) = [9; 9].
Proof. vm_compute. repeat split. Qed.

(* SERVER, masking violation only: an UNMASKED text frame after a valid message: the read fails, no Close frame is written *)
Example viol_server_unmasked :
  let cfg := {| rc_role := Server; rc_co := None |} in
  let r := run cfg no_inflate (-1)%Z [129; 130; 1; 2; 3; 4; 64; 64;  129; 1; 67] EEof [OReader; OReadAllN 5; OReader; OReadAll] in
  fst r = [ObReader (inl 1); ObMsg [65; 66] None; ObReader (inr REOther)] /\
  r_replies (snd r) = [] /\ r_inq (snd r) = [67].
Proof. vm_compute. repeat split. Qed.

(* CLIENT, masking violation only: a MASKED text frame *)
Example viol_client_masked :
  let cfg := {| rc_role := Client; rc_co := None |} in
  let r := run cfg no_inflate (-1)%Z [129; 2; 65; 66;  129; 129; 1; 2; 3; 4; 66] EEof [OReader; OReadAllN 5; OReader; OReadAll] in
  fst r = [ObReader (inl 1); ObMsg [65; 66] None; ObReader (inr REOther)] /\
  r_replies (snd r) = [] /\ r_inq (snd r) = [66].
Proof. vm_compute. repeat split. Qed.

(* CLIENT, inside a message: text fragment "A", a Ping, continuation "B" (not final), then RSV2 on a continuation frame *)
Example viol_client_mid :
  let cfg := {| rc_role := Client; rc_co := None |} in
  let r := run cfg no_inflate (-1)%Z [1; 1; 65;  137; 1; 7;  0; 1; 66;  160; 0;  9] EEof [OReader; OReadAllN 1; OReader] in
  fst r = [ObReader (inl 1); ObMsg [65; 66] (Some REOther)] /\
  r_replies (snd r) = [RpPong [7]; RpClose 1002 None] /\ r_inq (snd r) = [9].
Proof. vm_compute. repeat split. Qed.

(* SERVER, inside a message: masked binary fragment "AB" (not final), then an UNMASKED continuation: no Close frame *)
Example viol_server_mid :
  let cfg := {| rc_role := Server; rc_co := None |} in
  let r := run cfg no_inflate (-1)%Z [2; 130; 1; 2; 3; 4; 64; 64;  128; 1; 67] EEof [OReader; OReadAllN 7; OReader] in
  fst r = [ObReader (inl 2); ObMsg [65; 66] (Some REOther)] /\
  r_replies (snd r) = [] /\ r_inq (snd r) = [67].
Proof. vm_compute. repeat split. Qed.

Print Assumptions reader_first_violation_gen.
Print Assumptions reader_first_violation_mid.
Print Assumptions reader_first_violation_close.
Print Assumptions reader_first_violation_mask.
Print Assumptions reader_first_violation.
