(* Proofs/RoundTripZP.v — Writer |> wire |> Reader WITH permessage-deflate (RFC 7692): what the Writer model writes
   when compression has been negotiated is delivered unchanged by the Reader model of the peer, under an explicit
   contract between the compressor oracle [dz] of the Writer model and the inflater oracle [inflate] of the Reader
   model (Section hypotheses, no axioms). *)
From Coq Require Import List NArith Lia ZArith ZifyN ZifyNat ZifyBool Bool.
From WS Require Import Base.Words Gen.Consts Gen.CloseCode Model.Mask Model.Frame Model.Proto Model.CloseCodec Model.Writer Model.RefDecoder
  Model.Reader Model.Script Model.ScriptZ Proofs.MaskP Proofs.FrameP Proofs.CloseCodecP Proofs.WriterP Proofs.TrimWindowP
  Proofs.ReaderRefP Proofs.ReaderZP Proofs.RoundTripP.
Import ListNotations.
Open Scope N_scope.
Ltac Zify.zify_post_hook ::= Z.div_mod_to_equations.

(* ====================================================================================================== *)
(* Definitions                                                                                              *)
(* ====================================================================================================== *)

(* the operations one message performs on the flate.Writer, and the history a sequence of COMPRESSED messages
   (each given by the chunks of its plain text) leaves behind on a retained flate.Writer *)
Definition msg_ops (cs : list bytes) : list dzop := map DWrite cs ++ [DFlush].
Definition hist_of (css : list (list bytes)) : list dzop := flat_map msg_ops css.
Definition zwindow : nat := Z.to_nat c_windowSize.
(* the dictionary such a history amounts to: the last window of the plain texts *)
Definition dict_of (css : list (list bytes)) : bytes := lastn zwindow (concat (map (@concat N) css)).

(* the CHUNKS the compressor hands downstream for the operations [ops], performed after the operations [hist]
   (dz_run of RoundTripP.v is their concatenation) *)
Fixpoint dz_chunks (dz : list dzop -> list bytes) (hist ops : list dzop) : list bytes :=
  match ops with [] => [] | o :: r => dz (hist ++ [o]) ++ dz_chunks dz (hist ++ [o]) r end.

Definition wf_chunks (cs : list bytes) : Prop := Forall wf_payload cs.

Section ZScriptOf.
Variable keys : nat -> key.
Variable c : bool.                       (* the writer is a client *)
Variable dz : list dzop -> list bytes.
Variable cfg : wcfg.

(* the payloads of the NON-final frames of one message written as the chunks [cs] with the retained history [h]:
   compressed, what the trim writer lets through; otherwise the chunks themselves.  The final frame is empty. *)
Definition msg_bodies (h : list dzop) (cs : list bytes) : list bytes :=
  if op_compressed cfg cs then fst (trim_run [] (dz_chunks dz h (msg_ops cs))) else cs.
Definition hist_next (h : list dzop) (cs : list bytes) : list dzop :=
  if op_compressed cfg cs then (if wc_takeover cfg then h ++ msg_ops cs else []) else h.

Definition smsg_of (t : N) (pend : list ctl) (n : nat) (bs : list bytes) : smsg :=
  match bs with
  | [] => {| sm_typ := t; sm_first := mkfrag keys pend n []; sm_rest := [] |}
  | b :: r => {| sm_typ := t; sm_first := mkfrag keys pend n b; sm_rest := frags_from keys c (nx c n) (r ++ [[]]) |}
  end.
Definition zmsg_of (n : nat) (pend : list ctl) (h : list dzop) (t : N) (cs : list bytes) : zmsg :=
  {| zm_z := op_compressed cfg cs; zm_m := smsg_of t pend n (msg_bodies h cs) |}.
Definition key_next (n : nat) (h : list dzop) (cs : list bytes) : nat := nxk c n (S (length (msg_bodies h cs))).

(* the script a program amounts to when permessage-deflate is on: n = next key index, pend = control frames written
   since the last data message, h = the history of the retained flate.Writer *)
Fixpoint zscript_from (n : nat) (pend : list ctl) (h : list dzop) (prog : list wop) : list zmsg :=
  match prog with
  | [] => []
  | WWrite t p :: r => zmsg_of n pend h t [p] :: zscript_from (key_next n h [p]) [] (hist_next h [p]) r
  | WStream t cs :: r => zmsg_of n pend h t cs :: zscript_from (key_next n h cs) [] (hist_next h cs) r
  | WControl o p :: r => zscript_from (nx c n) (pend ++ [mkctl keys n o p]) h r
  | WClose _ _ :: r => zscript_from n pend h r
  end.

Fixpoint ztrailing (n : nat) (pend : list ctl) (h : list dzop) (prog : list wop) : list ctl :=
  match prog with
  | [] => pend
  | WWrite t p :: r => ztrailing (key_next n h [p]) [] (hist_next h [p]) r
  | WStream t cs :: r => ztrailing (key_next n h cs) [] (hist_next h cs) r
  | WControl o p :: r => ztrailing (nx c n) (pend ++ [mkctl keys n o p]) h r
  | WClose _ _ :: r => ztrailing n pend h r
  end.
End ZScriptOf.

Definition zscript_of (keys : nat -> key) (dz : list dzop -> list bytes) (cfg : wcfg) (prog : list wop) : list zmsg :=
  zscript_from keys (role_eqb (wc_role cfg) Client) dz cfg 0 [] [] prog.

(* the application messages of a program *)
Definition plains_of (prog : list wop) : list bytes :=
  flat_map (fun op => match op with WWrite _ p => [p] | WStream _ cs => [concat cs] | _ => [] end) prog.

(* ====================================================================================================== *)
(* A toy compressor / inflater pair, to validate the statement before proving it                           *)
(* ====================================================================================================== *)
Definition hist_plain (h : list dzop) : bytes := concat (map (fun o => match o with DWrite p => p | DFlush => [] end) h).
Definition toy_mark (dict : bytes) : N := (fold_right N.add 0 dict + N.of_nat (length dict)) mod 256.
(* "DEFLATE body": a byte that depends on the dictionary, then the plain text *)
Definition toy_body (dict plain : bytes) : bytes := toy_mark dict :: plain.
(* the oracle interface of Writer.v: the chunks of the LAST operation of the history.  The first Write after a Flush
   (or after creation / Reset) emits the mark; every Write forwards its bytes in two chunks; Flush emits the tail
   in two chunks *)
Definition toy_dz (h : list dzop) : list bytes :=
  match rev h with
  | [] => []
  | DFlush :: _ => [[0; 0; 255]; [255]]
  | DWrite p :: pre =>
      (match pre with DWrite _ :: _ => [] | _ => [[toy_mark (lastn zwindow (hist_plain (rev pre)))]] end)
      ++ [firstn 2 p; skipn 2 p]
  end.
Definition toy_inflate2 (dict z : bytes) : bytes * istatus :=
  match firstn (length z - 4) z, skipn (length z - 4) z with
  | m :: plain, [0; 0; 255; 255] => if m =? toy_mark dict then (plain, INeedMore) else ([], ICorrupt)
  | _, _ => ([], ICorrupt)
  end.

Definition toy_keys (i : nat) : key := (N.of_nat i mod 256, 17, 34, 51).
Definition toy_prog : list wop :=
  [ WWrite 1 [1; 2; 3; 4; 5];                               (* compressed (threshold 3) *)
    WControl 9 [7];
    WStream 2 [[1]; [2; 3; 4]];                             (* first chunk below the threshold: not compressed *)
    WStream 1 [[9; 8; 7]; [6]; []; [5; 4; 3; 2; 1; 0]];     (* compressed, four Writes *)
    WControl 10 [8; 8];
    WWrite 2 [1];                                           (* not compressed *)
    WStream 2 [];                                           (* no Write at all *)
    WWrite 1 [5; 5; 5] ].                                   (* compressed; the mark depends on the dictionary *)

Definition toy_run (r : role) (co : copts) :=
  let wcfg := {| wc_role := r; wc_co := Some co; wc_thr0 := 3 |} in
  let rcfg := {| rc_role := peer r; rc_co := Some co |} in
  run rcfg toy_inflate2 (-1)%Z (w_wire (w_run toy_keys toy_dz wcfg toy_prog)) EOpen (read_ops [1; 2; 3; 4; 5; 6]%nat).

Definition toy_ok (r : role) (co : copts) : bool :=
  let res := toy_run r co in
  match list_eq_dec (list_eq_dec N.eq_dec) (flat_map (fun o => match o with ObMsg d None => [d] | _ => [[99]] end)
                                              (filter (fun o => match o with ObReader _ => false | _ => true end) (fst res)))
                                            (plains_of toy_prog) with left _ => true | right _ => false end.

Definition toy_cfgs : list (role * copts) :=
   [(Client, {| cnct := false; snct := false |}); (Client, {| cnct := true; snct := false |});
    (Client, {| cnct := false; snct := true |}); (Client, {| cnct := true; snct := true |});
    (Server, {| cnct := false; snct := false |}); (Server, {| cnct := true; snct := false |});
    (Server, {| cnct := false; snct := true |}); (Server, {| cnct := true; snct := true |})].
Definition toy_wire_ok (r : role) (co : copts) : bool :=
  let wcfg := {| wc_role := r; wc_co := Some co; wc_thr0 := 3 |} in
  if list_eq_dec N.eq_dec (w_wire (w_run toy_keys toy_dz wcfg toy_prog))
       (enc_zscript (role_eqb r Client) (zscript_of toy_keys toy_dz wcfg toy_prog)) then true else false.
(* validation of the statement before any proof: in all eight configurations the reader delivers the plain texts, and
   the wire is the encoding of the z-script computed from the program *)
Example toy_validation :
  forallb (fun rc => toy_ok (fst rc) (snd rc)) toy_cfgs = true /\ forallb (fun rc => toy_wire_ok (fst rc) (snd rc)) toy_cfgs = true.
Proof. vm_compute. split; reflexivity. Qed.

(* ====================================================================================================== *)
(* Step (a) — the wire of the writer with permessage-deflate on is the encoding of its z-script             *)
(* ====================================================================================================== *)
Lemma nxk_S c : forall k n, nxk c n (S k) = nx c (nxk c n k).
Proof. induction k as [|k IH]; intro n; [reflexivity|]. change (nxk c n (S (S k))) with (nxk c (nx c n) (S k)). rewrite IH. reflexivity. Qed.

Lemma app_eq_tail {A} (a b t t' : list A) : a ++ t = b ++ t' -> length t = length t' -> a = b.
Proof. intros E L.
  assert (La : length a = length b) by (apply (f_equal (@length A)) in E; rewrite !app_length in E; lia).
  apply (f_equal (firstn (length a))) in E. rewrite firstn_app, Nat.sub_diag, firstn_all in E. cbn [firstn] in E. rewrite app_nil_r in E.
  rewrite La, firstn_app, Nat.sub_diag, firstn_all in E. cbn [firstn] in E. rewrite app_nil_r in E. exact E. Qed.

Lemma trim_run_app : forall a b t, trim_run t (a ++ b) =
  let '(o1, t1) := trim_run t a in let '(o2, t2) := trim_run t1 b in (o1 ++ o2, t2).
Proof. induction a as [|p a IH]; intros b t; cbn [app trim_run].
  - destruct (trim_run t b). reflexivity.
  - destruct (trim_step t p) as [o t1]. rewrite IH. destruct (trim_run t1 a) as [o1 t2]. destruct (trim_run t2 b) as [o2 t3].
    rewrite app_assoc. reflexivity. Qed.

Lemma concat_dz_chunks dz : forall ops h, concat (dz_chunks dz h ops) = dz_run dz h ops.
Proof. induction ops as [|o ops IH]; intro h; cbn [dz_chunks dz_run concat]; [reflexivity|]. rewrite concat_app, IH. reflexivity. Qed.

Lemma dz_chunks_app dz : forall a b h, dz_chunks dz h (a ++ b) = dz_chunks dz h a ++ dz_chunks dz (h ++ a) b.
Proof. induction a as [|o a IH]; intros b h; cbn [app dz_chunks].
  - rewrite app_nil_r. reflexivity.
  - rewrite IH, <- !app_assoc. reflexivity. Qed.

Section ZWriter.
Variable keys : nat -> key.
Variable dz : list dzop -> list bytes.
Variable cfg : wcfg.
Variable co : copts.
Hypothesis Hco : wc_co cfg = Some co.
Local Notation c := (role_eqb (wc_role cfg) Client).

(* the NON-final frames of a message: the first one with the message's opcode and RSV1, then continuations *)
Fixpoint enc_nf (rsv : bool) (opc : N) (n : nat) (bs : list bytes) : bytes :=
  match bs with
  | [] => []
  | b :: r => enc_frame (mk_hdr_z rsv c false opc (keys n) (length b), b) ++ enc_nf false 0 (nx c n) r
  end.
(* … and the empty final frame *)
Definition enc_all (z : bool) (typ : N) (n : nat) (bs : list bytes) : bytes :=
  enc_nf z typ n bs ++
  enc_frame (mk_hdr_z (if is_nil bs then z else false) c true (if is_nil bs then typ else 0) (keys (nxk c n (length bs))) 0, []).

Lemma enc_nf_snoc : forall bs rsv opc n p, enc_nf rsv opc n (bs ++ [p]) =
  enc_nf rsv opc n bs ++
  enc_frame (mk_hdr_z (if is_nil bs then rsv else false) c false (if is_nil bs then opc else 0) (keys (nxk c n (length bs))) (length p), p).
Proof. induction bs as [|b bs IH]; intros rsv opc n p; cbn [app enc_nf is_nil length nxk].
  - rewrite app_nil_r. reflexivity.
  - rewrite IH, <- app_assoc. destruct bs; reflexivity. Qed.

Lemma is_nil_frags' n r x : is_nil (frags_from keys c n (r ++ [x])) = false.
Proof. destruct r; reflexivity. Qed.

Lemma enc_rest_nf : forall r n, enc_rest c (frags_from keys c n (r ++ [[]])) =
  enc_nf false 0 n r ++ enc_frame (mk_hdr_z false c true 0 (keys (nxk c n (length r))) 0, []).
Proof. induction r as [|b r IH]; intro n; cbn [app frags_from enc_rest enc_nf length nxk is_nil].
  - unfold enc_frag, mkfrag. cbn [fr_ctl fr_body fr_key map concat app length]. rewrite app_nil_r. reflexivity.
  - rewrite is_nil_frags', IH. unfold enc_frag at 1, mkfrag at 1. cbn [fr_ctl fr_body fr_key map concat app].
    rewrite <- app_assoc. reflexivity. Qed.

Lemma enc_all_zmsg z typ pend n bs :
  concat (map (enc_ctl c) pend) ++ enc_all z typ n bs = enc_zmsg c {| zm_z := z; zm_m := smsg_of keys c typ pend n bs |}.
Proof. unfold enc_all, enc_zmsg, smsg_of. destruct bs as [|b r]; cbn [zm_z zm_m sm_typ sm_first sm_rest is_nil enc_nf length nxk app].
  - unfold enc_frag_z, mkfrag. cbn [fr_ctl fr_body fr_key enc_rest length]. rewrite app_nil_r. reflexivity.
  - rewrite is_nil_frags', enc_rest_nf. unfold enc_frag_z, mkfrag. cbn [fr_ctl fr_body fr_key]. rewrite <- !app_assoc. reflexivity. Qed.

(* one frame on an open connection *)
Lemma wf_z s fin fl opc p : w_close_sent s = false -> opc <> 8 ->
  let s' := write_frame keys cfg s fin fl opc p in
  w_wire s' = w_wire s ++ enc_frame (mk_hdr_z (fl && is_data_first opc) c fin opc (keys (w_nkey s)) (length p), p)
  /\ w_nkey s' = nx c (w_nkey s) /\ w_close_sent s' = false /\ w_hist s' = w_hist s.
Proof. intros Hcs Ho. cbv zeta. unfold write_frame. rewrite Hcs. cbn [andb].
  split; [|split; [|split]].
  - unfold w_wire. cbn [write_frame_raw w_out]. rewrite map_app, concat_app. cbn [map concat]. rewrite app_nil_r. reflexivity.
  - reflexivity.
  - cbn [write_frame_raw w_close_sent]. rewrite Hcs. cbn [orb]. apply N.eqb_neq. exact Ho.
  - reflexivity. Qed.

(* inside a message on an open connection: bs = the payloads of the frames written so far *)
Definition MI (m : mw) (w0 : bytes) (typ : N) (z : bool) (n0 : nat) (h : list dzop) (bs : list bytes) : Prop :=
  w_close_sent (m_s m) = false /\ w_hist (m_s m) = h /\ (typ = 1 \/ typ = 2) /\ m_flate m = z /\
  m_opc m = (if is_nil bs then typ else 0) /\
  w_wire (m_s m) = w0 ++ enc_nf z typ n0 bs /\ w_nkey (m_s m) = nxk c n0 (length bs).

Lemma MI_ext m m' w0 typ z n0 h bs : m_s m' = m_s m -> m_opc m' = m_opc m -> m_flate m' = m_flate m ->
  MI m w0 typ z n0 h bs -> MI m' w0 typ z n0 h bs.
Proof. unfold MI. intros -> -> ->. auto. Qed.

Lemma rsv_nth z typ (bs : list bytes) : typ = 1 \/ typ = 2 ->
  z && is_data_first (if is_nil bs then typ else 0) = (if is_nil bs then z else false) /\ (if is_nil bs then typ else 0) <> 8.
Proof. intros [-> | ->]; destruct bs; destruct z; split; (reflexivity || discriminate). Qed.

Lemma MI_frame m w0 typ z n0 h bs p : MI m w0 typ z n0 h bs -> MI (mw_frame keys cfg m p) w0 typ z n0 h (bs ++ [p]).
Proof. intros (Hcs & Hh & Ht & Hf & Ho & Hw & Hn). destruct (rsv_nth z typ bs Ht) as (Hr & H8).
  unfold MI, mw_frame. cbn [m_s m_opc m_flate]. rewrite Ho, Hf.
  destruct (wf_z (m_s m) false z (if is_nil bs then typ else 0) p Hcs H8) as (E1 & E2 & E3 & E4).
  split; [exact E3|]. split; [rewrite E4; exact Hh|]. split; [exact Ht|]. split; [reflexivity|].
  split; [destruct bs; reflexivity|]. split.
  - rewrite E1, Hw, Hr, Hn, enc_nf_snoc, <- app_assoc. reflexivity.
  - rewrite E2, Hn, app_length. cbn [length]. rewrite Nat.add_1_r, nxk_S. reflexivity. Qed.

Lemma MI_frames w0 typ z n0 h : forall outs m bs, MI m w0 typ z n0 h bs -> MI (fold_left (mw_frame keys cfg) outs m) w0 typ z n0 h (bs ++ outs).
Proof. induction outs as [|o outs IH]; intros m bs HM; cbn [fold_left].
  - rewrite app_nil_r. exact HM.
  - change (o :: outs) with ([o] ++ outs). rewrite app_assoc. apply IH, MI_frame, HM. Qed.

(* the final frame of a message *)
Lemma MI_final m w0 typ z n0 h bs : MI m w0 typ z n0 h bs ->
  let s' := write_frame keys cfg (m_s m) true (m_flate m) (m_opc m) [] in
  w_wire s' = w0 ++ enc_all z typ n0 bs /\ w_nkey s' = nxk c n0 (S (length bs)) /\ w_close_sent s' = false /\ w_hist s' = h.
Proof. intros (Hcs & Hh & Ht & Hf & Ho & Hw & Hn). destruct (rsv_nth z typ bs Ht) as (Hr & H8). cbv zeta. rewrite Ho, Hf.
  destruct (wf_z (m_s m) true z (if is_nil bs then typ else 0) [] Hcs H8) as (E1 & E2 & E3 & E4).
  split; [|split; [|split]].
  - rewrite E1, Hw, Hr, Hn. unfold enc_all. rewrite <- app_assoc. reflexivity.
  - rewrite E2, Hn, nxk_S. reflexivity.
  - exact E3.
  - rewrite E4. exact Hh. Qed.

(* an UNCOMPRESSED message *)
Lemma mw_close_off m w0 typ n0 h bs : MI m w0 typ false n0 h bs ->
  let s' := mw_close keys dz cfg m in
  w_wire s' = w0 ++ enc_all false typ n0 bs /\ w_nkey s' = nxk c n0 (S (length bs)) /\ w_close_sent s' = false /\ w_hist s' = h.
Proof. intro HM. pose proof HM as (_ & _ & _ & Hf & _). destruct (MI_final m w0 typ false n0 h bs HM) as (E1 & E2 & E3 & E4).
  cbv zeta. unfold mw_close. rewrite Hf. cbv iota zeta. rewrite Hf. cbv iota.
  unfold w_wire in *. cbn [w_out w_nkey w_close_sent w_hist]. rewrite Hf in *. auto. Qed.

Lemma mw_write_off m p : m_flate m = false -> m_opc m = 0 -> mw_write keys dz cfg m p = mw_frame keys cfg m p.
Proof. intros Hf Ho. unfold mw_write. rewrite Hco, Hf, Ho. cbn [N.eqb negb andb orb]. unfold mw_frame. cbn [m_s m_opc m_flate m_tail m_hist].
  rewrite Hf, Ho. reflexivity. Qed.

Lemma MI_fold_off w0 typ n0 h : forall cs m bs, MI m w0 typ false n0 h bs -> bs <> [] ->
  MI (fold_left (mw_write keys dz cfg) cs m) w0 typ false n0 h (bs ++ cs).
Proof. induction cs as [|a cs IH]; intros m bs HM Hne; cbn [fold_left].
  - rewrite app_nil_r. exact HM.
  - pose proof HM as (_ & _ & _ & Hf & Ho & _). destruct bs as [|b0 bs0]; [contradiction|]. cbn [is_nil] in Ho.
    rewrite (mw_write_off m a Hf Ho). change (a :: cs) with ([a] ++ cs). rewrite app_assoc.
    apply IH; [apply MI_frame; exact HM | destruct bs0; discriminate]. Qed.

(* a COMPRESSED message: chunks = what the compressor has emitted for it so far, hz = the compressor's history *)
Definition ZI (m : mw) (w0 : bytes) (typ : N) (n0 : nat) (h : list dzop) (chunks : list bytes) (hz : list dzop) : Prop :=
  exists bs, trim_run [] chunks = (bs, m_tail m) /\ MI m w0 typ true n0 h bs /\ m_hist m = hz.

Lemma ZI_trim m w0 typ n0 h chunks hz p : ZI m w0 typ n0 h chunks hz -> ZI (trim_write keys cfg m p) w0 typ n0 h (chunks ++ [p]) hz.
Proof. intros (bs & Etr & HM & Hh). rewrite trim_write_as_step.
  assert (E2 : trim_run [] (chunks ++ [p]) = let '(o, t1) := trim_step (m_tail m) p in (bs ++ o, t1)).
  { rewrite trim_run_app, Etr. cbn [trim_run]. destruct (trim_step (m_tail m) p) as [o t1]. rewrite app_nil_r. reflexivity. }
  destruct (trim_step (m_tail m) p) as [outs t']. cbv zeta.
  destruct (fold_frame_proj keys cfg outs m) as (F1 & F2 & F3).
  exists (bs ++ outs). cbn [m_tail m_hist]. split; [exact E2|]. split; [|congruence].
  eapply MI_ext; [| | |apply (MI_frames w0 typ true n0 h outs m bs HM)]; reflexivity. Qed.

Lemma ZI_trims w0 typ n0 h hz : forall ps m chunks, ZI m w0 typ n0 h chunks hz ->
  ZI (fold_left (trim_write keys cfg) ps m) w0 typ n0 h (chunks ++ ps) hz.
Proof. induction ps as [|p ps IH]; intros m chunks HZ; cbn [fold_left].
  - rewrite app_nil_r. exact HZ.
  - change (p :: ps) with ([p] ++ ps). rewrite app_assoc. apply IH, ZI_trim, HZ. Qed.

Lemma ZI_dz m w0 typ n0 h chunks hz op : ZI m w0 typ n0 h chunks hz ->
  ZI (mw_dz keys dz cfg m op) w0 typ n0 h (chunks ++ dz (hz ++ [op])) (hz ++ [op]).
Proof. intros (bs & Etr & HM & Hh). unfold mw_dz. cbv zeta. rewrite Hh. apply ZI_trims.
  exists bs. cbn [m_tail m_hist]. split; [exact Etr|]. split; [|reflexivity].
  eapply MI_ext; [| | |exact HM]; reflexivity. Qed.

Lemma ZI_fold w0 typ n0 h : forall cs m chunks hz, ZI m w0 typ n0 h chunks hz ->
  ZI (fold_left (mw_write keys dz cfg) cs m) w0 typ n0 h (chunks ++ dz_chunks dz hz (map DWrite cs)) (hz ++ map DWrite cs).
Proof. induction cs as [|a cs IH]; intros m chunks hz HZ; cbn [fold_left map dz_chunks].
  - rewrite !app_nil_r. exact HZ.
  - assert (Hf : m_flate m = true) by (destruct HZ as (? & _ & (_ & _ & _ & Hf & _) & _); exact Hf).
    rewrite (mw_write_on keys dz cfg m a Hf).
    assert (HZ1 : ZI {| m_s := m_s m; m_opc := m_opc m; m_flate := true; m_tail := m_tail m; m_hist := m_hist m |} w0 typ n0 h chunks hz).
    { destruct HZ as (bs & Etr & HM & Hh). exists bs. cbn [m_tail m_hist]. split; [exact Etr|]. split; [|exact Hh].
      eapply MI_ext; [| | |exact HM]; [reflexivity|reflexivity|cbn [m_flate]; congruence]. }
    pose proof (IH _ _ _ (ZI_dz _ w0 typ n0 h chunks hz (DWrite a) HZ1)) as R.
    rewrite <- !app_assoc in R. exact R. Qed.

Lemma ZI_close m w0 typ n0 h chunks hz : ZI m w0 typ n0 h chunks hz ->
  let s' := mw_close keys dz cfg m in
  let bs := fst (trim_run [] (chunks ++ dz (hz ++ [DFlush]))) in
  w_wire s' = w0 ++ enc_all true typ n0 bs /\ w_nkey s' = nxk c n0 (S (length bs)) /\ w_close_sent s' = false /\
  w_hist s' = (if wc_takeover cfg then hz ++ [DFlush] else []).
Proof. intro HZ. assert (Hf : m_flate m = true) by (destruct HZ as (? & _ & (_ & _ & _ & Hf & _) & _); exact Hf).
  destruct (ZI_dz m w0 typ n0 h chunks hz DFlush HZ) as (bs & Etr & HM & Hh).
  pose proof HM as (_ & _ & _ & Hf1 & _).
  destruct (MI_final _ w0 typ true n0 h bs HM) as (E1 & E2 & E3 & E4).
  cbv zeta. rewrite Etr. cbn [fst]. unfold mw_close. cbv zeta. rewrite Hf. cbv iota.
  set (m1 := mw_dz keys dz cfg m DFlush) in *. rewrite Hf1 in *. cbv iota.
  unfold w_wire in *. cbn [w_out w_nkey w_close_sent w_hist]. rewrite Hh. auto. Qed.

(* one whole message on an open connection *)
Lemma msg_wire s typ cs pend base : w_close_sent s = false -> (typ = 1 \/ typ = 2) ->
  w_wire s = base ++ concat (map (enc_ctl c) pend) ->
  let s' := mw_close keys dz cfg (fold_left (mw_write keys dz cfg) cs (mw_open s typ)) in
  w_wire s' = base ++ enc_zmsg c (zmsg_of keys c dz cfg (w_nkey s) pend (w_hist s) typ cs) /\
  w_nkey s' = key_next c dz cfg (w_nkey s) (w_hist s) cs /\ w_close_sent s' = false /\ w_hist s' = hist_next cfg (w_hist s) cs.
Proof.
  intros Hcs Ht Hw. cbv zeta. destruct (typ_facts typ Ht) as (T0 & _).
  set (w0 := base ++ concat (map (enc_ctl c) pend)).
  assert (M0 : MI (mw_open s typ) w0 typ false (w_nkey s) (w_hist s) []).
  { unfold MI, mw_open. cbn [m_s m_opc m_flate is_nil enc_nf length nxk]. rewrite app_nil_r. auto 10. }
  unfold zmsg_of, key_next, hist_next, msg_bodies. rewrite <- enc_all_zmsg, app_assoc. fold w0.
  unfold op_compressed. rewrite Hco.
  destruct cs as [|a cs].
  - cbn [fold_left]. apply (mw_close_off _ w0 typ _ _ [] M0).
  - cbn [first_chunk_len]. destruct (wc_thr cfg <=? N.of_nat (length a)) eqn:Ethr.
    + (* compression starts at the first Write *)
      set (m1 := {| m_s := s; m_opc := typ; m_flate := true; m_tail := []; m_hist := w_hist s |}).
      assert (E1 : fold_left (mw_write keys dz cfg) (a :: cs) (mw_open s typ) = fold_left (mw_write keys dz cfg) (a :: cs) m1).
      { cbn [fold_left]. f_equal. unfold mw_write. cbn [mw_open m1 m_s m_opc m_flate m_tail m_hist]. rewrite Hco, T0, Ethr. reflexivity. }
      rewrite E1.
      assert (Z1 : ZI m1 w0 typ (w_nkey s) (w_hist s) [] (w_hist s)).
      { exists []. split; [reflexivity|]. split; [|reflexivity].
        unfold MI. cbn [m1 m_s m_opc m_flate is_nil enc_nf length nxk]. rewrite app_nil_r. auto 10. }
      pose proof (ZI_close _ w0 typ _ _ _ _ (ZI_fold w0 typ _ _ (a :: cs) m1 [] (w_hist s) Z1)) as R.
      cbv zeta in R. cbn [app] in R. unfold msg_ops. rewrite dz_chunks_app. cbn [dz_chunks]. rewrite app_nil_r.
      destruct R as (R1 & R2 & R3 & R4). rewrite <- app_assoc in R4. auto.
    + (* below the threshold: a plain first frame, and the rest of the message stays uncompressed *)
      assert (U0 : mw_write keys dz cfg (mw_open s typ) a = mw_frame keys cfg (mw_open s typ) a).
      { unfold mw_write. cbn [mw_open m_s m_opc m_flate m_tail m_hist]. rewrite Hco, T0, Ethr. reflexivity. }
      cbn [fold_left]. rewrite U0.
      pose proof (MI_frame _ w0 typ false _ _ [] a M0) as M1. cbn [app] in M1.
      pose proof (MI_fold_off w0 typ _ _ cs _ [a] M1 ltac:(discriminate)) as M2. cbn [app] in M2.
      apply (mw_close_off _ w0 typ _ _ _ M2).
Qed.

Lemma enc_zscript_cons m ms : enc_zscript c (m :: ms) = enc_zmsg c m ++ enc_zscript c ms.
Proof. reflexivity. Qed.

Lemma run_zwire : forall prog s pend base, Forall ok_typ prog -> w_close_sent s = false ->
  w_wire s = base ++ concat (map (enc_ctl c) pend) ->
  w_wire (fold_left (w_step keys dz cfg) prog s) =
    base ++ enc_zscript c (zscript_from keys c dz cfg (w_nkey s) pend (w_hist s) prog)
         ++ concat (map (enc_ctl c) (ztrailing keys c dz cfg (w_nkey s) pend (w_hist s) prog)).
Proof.
  induction prog as [|op prog IH]; intros s pend base Hok Hcs Hw.
  - cbn [fold_left zscript_from ztrailing enc_zscript map concat app]. exact Hw.
  - inversion Hok as [|? ? Hop Hok']; subst. cbn [fold_left].
    destruct op as [t p|t cs|o p|code reason]; cbn [ok_typ] in Hop; [| | |contradiction].
    + (* Write *)
      unfold w_step at 2. rewrite Hco.
      destruct (msg_wire s t [p] pend base Hcs Hop Hw) as (E1 & E2 & E3 & E4). cbn [fold_left] in E1, E2, E3, E4.
      cbn [zscript_from ztrailing]. rewrite enc_zscript_cons.
      rewrite (IH _ [] (base ++ enc_zmsg c (zmsg_of keys c dz cfg (w_nkey s) pend (w_hist s) t [p])) Hok' E3).
      * rewrite E2, E4, <- !app_assoc. reflexivity.
      * rewrite E1. cbn [map concat]. rewrite app_nil_r. reflexivity.
    + (* Writer; Write…; Close *)
      unfold w_step at 2.
      destruct (msg_wire s t cs pend base Hcs Hop Hw) as (E1 & E2 & E3 & E4).
      cbn [zscript_from ztrailing]. rewrite enc_zscript_cons.
      rewrite (IH _ [] (base ++ enc_zmsg c (zmsg_of keys c dz cfg (w_nkey s) pend (w_hist s) t cs)) Hok' E3).
      * rewrite E2, E4, <- !app_assoc. reflexivity.
      * rewrite E1. cbn [map concat]. rewrite app_nil_r. reflexivity.
    + (* Ping / Pong *)
      assert (Ht : o <> 8) by (destruct Hop as [-> | ->]; discriminate).
      unfold w_step at 2.
      destruct (wf_z s true false o p Hcs Ht) as (E1 & E2 & E3 & E4).
      cbn [zscript_from ztrailing].
      rewrite (IH _ (pend ++ [mkctl keys (w_nkey s) o p]) base Hok' E3).
      * rewrite E2, E4. reflexivity.
      * rewrite E1, Hw, map_app, concat_app. cbn [map concat]. rewrite app_nil_r, <- app_assoc. reflexivity.
Qed.
End ZWriter.

(* ---------------- the wire of a writer with permessage-deflate is the encoding of its z-script ---------------- *)
Definition wf_hist (h : list dzop) : Prop := Forall (fun o => match o with DWrite p => wf_payload p | DFlush => True end) h.

Lemma msg_ops_wf cs : wf_chunks cs -> wf_hist (msg_ops cs).
Proof. intro H. unfold wf_hist, msg_ops. apply Forall_app. split; [|constructor; [exact I|constructor]].
  apply Forall_forall. intros o Ho. apply in_map_iff in Ho. destruct Ho as (p & <- & Hp).
  unfold wf_chunks in H. rewrite Forall_forall in H. apply H, Hp. Qed.

Lemma hist_of_wf css : Forall wf_chunks css -> wf_hist (hist_of css).
Proof. induction 1 as [|cs css Hc _ IH]; [constructor|]. unfold hist_of. cbn [flat_map]. apply Forall_app. split; [apply msg_ops_wf, Hc | exact IH]. Qed.

Lemma hist_of_snoc css cs : hist_of (css ++ [cs]) = hist_of css ++ msg_ops cs.
Proof. unfold hist_of. rewrite flat_map_app. cbn [flat_map]. rewrite app_nil_r. reflexivity. Qed.

Lemma wf_pl_firstn n p : wf_payload p -> wf_payload (firstn n p).
Proof. intros (Hw & Hs). split; [apply wf_firstn; auto|]. unfold small in *. rewrite firstn_length. lia. Qed.
Lemma wf_pl_short p : wf_bytes p -> (length p <= 4)%nat -> wf_payload p.
Proof. intros Hw Hl. split; auto. unfold small. lia. Qed.
Lemma wf_pl_nil : wf_payload []. Proof. split; [constructor| unfold small; cbn; lia]. Qed.

Lemma trim_step_wf tail p : wf_bytes tail -> (length tail <= 4)%nat -> wf_payload p ->
  Forall wf_payload (fst (trim_step tail p)) /\ wf_bytes (snd (trim_step tail p)) /\ (length (snd (trim_step tail p)) <= 4)%nat.
Proof. intros Ht Hl Hp. pose proof (trim_step_spec tail p Hl) as Sp. destruct Hp as (Hpw & Hps).
  assert (Hf : forall k, wf_payload (firstn k tail)).
  { intro k. apply wf_pl_short; [apply wf_firstn; exact Ht|]. rewrite firstn_length. lia. }
  unfold trim_step in *. cbv zeta in *.
  destruct (Nat.leb (length tail + length p) 4).
  - cbn [fst snd]. destruct Sp as (_ & L & _). split; [constructor|]. split; [apply wf_app; assumption | lia].
  - set (extra := Nat.min (length tail + length p - 4) (length tail)) in *.
    assert (Ho1 : Forall wf_payload (if Nat.ltb 0 extra then [firstn extra tail] else [])).
    { destruct (Nat.ltb 0 extra); [constructor; [apply Hf | constructor] | constructor]. }
    destruct (Nat.leb (length p) 4); cbn [fst snd]; destruct Sp as (_ & L & _).
    + split; [exact Ho1|]. split; [apply wf_app; [apply wf_skipn; exact Ht | exact Hpw] | lia].
    + split; [|split; [apply wf_app; apply wf_skipn; assumption | lia]].
      apply Forall_app. split; [exact Ho1|]. constructor; [|constructor]. apply wf_pl_firstn. split; assumption. Qed.

Lemma trim_run_wf : forall ps tail, wf_bytes tail -> (length tail <= 4)%nat -> Forall wf_payload ps ->
  Forall wf_payload (fst (trim_run tail ps)).
Proof. induction ps as [|p ps IH]; intros tail Ht Hl Hps; cbn [trim_run]; [constructor|].
  inversion Hps as [|? ? Hp Hps']; subst.
  destruct (trim_step_wf tail p Ht Hl Hp) as (A & B & C). destruct (trim_step tail p) as [o t1]. cbn [fst snd] in A, B, C.
  specialize (IH t1 B C Hps'). destruct (trim_run t1 ps) as [os t2]. cbn [fst] in *. apply Forall_app. split; assumption. Qed.

Section ZScriptFacts.
Variable keys : nat -> key.
Variable c : bool.
Variable dz : list dzop -> list bytes.
Variable cfg : wcfg.
Hypothesis keys_wf : forall i, wf_key (keys i).
(* the compressor emits bytes, in chunks of a length Go can represent, when it is given such chunks *)
Hypothesis dz_wf : forall h, wf_hist h -> Forall wf_payload (dz h).

Lemma dz_chunks_wf : forall ops h, wf_hist h -> wf_hist ops -> Forall wf_payload (dz_chunks dz h ops).
Proof. induction ops as [|o ops IH]; intros h Hh Ho; cbn [dz_chunks]; [constructor|].
  inversion Ho as [|? ? Ho1 Ho']; subst.
  assert (H1 : wf_hist (h ++ [o])) by (apply Forall_app; split; [exact Hh | constructor; [exact Ho1 | constructor]]).
  apply Forall_app. split; [apply dz_wf, H1 | apply IH; assumption]. Qed.

Lemma msg_bodies_wf h cs : wf_hist h -> wf_chunks cs -> Forall wf_payload (msg_bodies dz cfg h cs).
Proof. intros Hh Hc. unfold msg_bodies. destruct (op_compressed cfg cs); [|exact Hc].
  apply trim_run_wf; [constructor | cbn [length]; lia |]. apply dz_chunks_wf; [exact Hh | apply msg_ops_wf, Hc]. Qed.

Lemma hist_next_wf h cs : wf_hist h -> wf_chunks cs -> wf_hist (hist_next cfg h cs).
Proof. intros Hh Hc. unfold hist_next. destruct (op_compressed cfg cs); [|exact Hh].
  destruct (wc_takeover cfg); [|constructor]. apply Forall_app. split; [exact Hh | apply msg_ops_wf, Hc]. Qed.

Lemma smsg_of_wf t pend n bs : (t = 1 \/ t = 2) -> Forall wf_ctl pend -> Forall wf_payload bs -> wf_smsg (smsg_of keys c t pend n bs).
Proof. intros Ht Hp Hb. unfold smsg_of. destruct bs as [|b r]; unfold wf_smsg; cbn [sm_typ sm_first sm_rest]; (split; [exact Ht|]).
  - split; [apply mkfrag_wf; auto; apply wf_pl_nil | constructor].
  - inversion Hb as [|? ? Hb1 Hbr]; subst. split; [apply mkfrag_wf; auto|].
    apply frags_wf; [exact keys_wf|]. apply Forall_app. split; [exact Hbr|]. constructor; [apply wf_pl_nil | constructor]. Qed.

Lemma smsg_of_payload t pend n bs : sm_payload (smsg_of keys c t pend n bs) = concat bs.
Proof. unfold smsg_of, sm_payload. destruct bs as [|b r]; cbn [sm_first sm_rest mkfrag fr_body map concat app]; [reflexivity|].
  rewrite frags_body, concat_app. cbn [concat app]. rewrite app_nil_r. reflexivity. Qed.

Lemma smsg_of_ctls t pend n bs : sm_ctls (smsg_of keys c t pend n bs) = pend.
Proof. unfold smsg_of, sm_ctls. destruct bs as [|b r]; cbn [sm_first sm_rest mkfrag fr_ctl map concat app]; [apply app_nil_r|].
  rewrite frags_ctl. apply app_nil_r. Qed.

Lemma smsg_of_typ t pend n bs : sm_typ (smsg_of keys c t pend n bs) = t.
Proof. unfold smsg_of. destruct bs; reflexivity. Qed.

Lemma single_chunk p : wf_payload p -> wf_chunks [p].
Proof. intro H. constructor; [exact H | constructor]. Qed.

Lemma zscript_wf : forall prog n pend h, Forall wf_dc_op prog -> Forall wf_ctl pend -> wf_hist h ->
  Forall (fun zm => wf_smsg (zm_m zm)) (zscript_from keys c dz cfg n pend h prog).
Proof.
  induction prog as [|op prog IH]; intros n pend h Hp Hpend Hh; cbn [zscript_from]; [constructor|].
  inversion Hp as [|? ? Hop Hp']; subst.
  destruct op as [t p|t cs|o p|code reason]; cbn [wf_dc_op wf_op] in Hop; [| | |contradiction].
  - destruct Hop as (Ht & Hpl). pose proof (single_chunk p Hpl) as Hc.
    constructor; [|apply IH; auto; apply hist_next_wf; assumption].
    unfold zmsg_of. cbn [zm_m]. apply smsg_of_wf; auto. apply msg_bodies_wf; assumption.
  - destruct Hop as (Ht & Hc).
    constructor; [|apply IH; auto; apply hist_next_wf; assumption].
    unfold zmsg_of. cbn [zm_m]. apply smsg_of_wf; auto. apply msg_bodies_wf; assumption.
  - destruct Hop as (Ho & Hw & Hl). apply IH; [exact Hp'| |exact Hh]. apply Forall_app. split; [exact Hpend|].
    constructor; [|constructor]. unfold wf_ctl, mkctl. cbn [c_opc c_payload c_key]. auto.
Qed.

Lemma zscript_len : forall prog n pend h, Forall wf_dc_op prog -> length (zscript_from keys c dz cfg n pend h prog) = count_data prog.
Proof. unfold count_data.
  induction prog as [|op prog IH]; intros n pend h Hp; cbn [zscript_from]; [reflexivity|].
  inversion Hp as [|? ? Hop Hp']; subst.
  destruct op as [t p|t cs|o p|code reason]; cbn [filter is_data length]; rewrite IH by exact Hp'; reflexivity. Qed.

Lemma zscript_obs : forall prog n pend h, Forall wf_dc_op prog ->
  plain_obs (zscript_from keys c dz cfg n pend h prog) (plains_of prog) = delivered prog.
Proof. unfold plain_obs, plains_of, delivered.
  induction prog as [|op prog IH]; intros n pend h Hp; cbn [zscript_from]; [reflexivity|].
  inversion Hp as [|? ? Hop Hp']; subst.
  destruct op as [t p|t cs|o p|code reason]; cbn [flat_map app combine fst snd].
  - rewrite IH by exact Hp'. unfold zmsg_of. cbn [zm_m]. rewrite smsg_of_typ. reflexivity.
  - rewrite IH by exact Hp'. unfold zmsg_of. cbn [zm_m]. rewrite smsg_of_typ. reflexivity.
  - apply IH. exact Hp'.
  - cbn [wf_dc_op] in Hop. contradiction. Qed.

Lemma zscript_pw : forall prog n pend h, Forall wf_dc_op prog ->
  pw (flat_map sm_ctls (map zm_m (zscript_from keys c dz cfg n pend h prog))) ++ pw (ztrailing keys c dz cfg n pend h prog) = pw pend ++ pongs_due prog.
Proof. unfold pongs_due.
  induction prog as [|op prog IH]; intros n pend h Hp; cbn [zscript_from ztrailing]; [cbn [map flat_map pw app]; rewrite app_nil_r; reflexivity|].
  inversion Hp as [|? ? Hop Hp']; subst.
  destruct op as [t p|t cs|o p|code reason]; cbn [map flat_map].
  - rewrite pw_app, <- app_assoc, IH by exact Hp'. unfold zmsg_of. cbn [zm_m]. rewrite smsg_of_ctls. reflexivity.
  - rewrite pw_app, <- app_assoc, IH by exact Hp'. unfold zmsg_of. cbn [zm_m]. rewrite smsg_of_ctls. reflexivity.
  - rewrite IH by exact Hp'. rewrite pw_app, <- app_assoc. cbn [pw flat_map mkctl c_opc c_payload app]. rewrite app_nil_r. reflexivity.
  - cbn [wf_dc_op] in Hop. contradiction. Qed.

Lemma zscript_pn : forall prog n pend h, Forall wf_dc_op prog ->
  pn (flat_map sm_ctls (map zm_m (zscript_from keys c dz cfg n pend h prog))) ++ pn (ztrailing keys c dz cfg n pend h prog) = pn pend ++ pong_notes prog.
Proof. unfold pong_notes.
  induction prog as [|op prog IH]; intros n pend h Hp; cbn [zscript_from ztrailing]; [cbn [map flat_map pn app]; rewrite app_nil_r; reflexivity|].
  inversion Hp as [|? ? Hop Hp']; subst.
  destruct op as [t p|t cs|o p|code reason]; cbn [map flat_map].
  - rewrite pn_app, <- app_assoc, IH by exact Hp'. unfold zmsg_of. cbn [zm_m]. rewrite smsg_of_ctls. reflexivity.
  - rewrite pn_app, <- app_assoc, IH by exact Hp'. unfold zmsg_of. cbn [zm_m]. rewrite smsg_of_ctls. reflexivity.
  - rewrite IH by exact Hp'. rewrite pn_app, <- app_assoc. cbn [pn flat_map mkctl c_opc c_payload app]. rewrite app_nil_r. reflexivity.
  - cbn [wf_dc_op] in Hop. contradiction. Qed.

Lemma ztrailing_spec : forall prog n pend h, Forall wf_dc_op prog ->
  ztrailing keys c dz cfg n pend h prog = [] \/ prog = [] \/ exists pre o p, prog = pre ++ [WControl o p].
Proof.
  induction prog as [|op prog IH]; intros n pend h Hp; [right; left; reflexivity|].
  inversion Hp as [|? ? Hop Hp']; subst.
  destruct op as [t p|t cs|o p|code reason]; cbn [ztrailing].
  - destruct (IH (key_next c dz cfg n h [p]) [] (hist_next cfg h [p]) Hp') as [E|[E|(pre & o & q & E)]]; [left; exact E | subst; left; reflexivity |].
    right; right. exists (WWrite t p :: pre), o, q. rewrite E. reflexivity.
  - destruct (IH (key_next c dz cfg n h cs) [] (hist_next cfg h cs) Hp') as [E|[E|(pre & o & q & E)]]; [left; exact E | subst; left; reflexivity |].
    right; right. exists (WStream t cs :: pre), o, q. rewrite E. reflexivity.
  - destruct (IH (nx c n) (pend ++ [mkctl keys n o p]) h Hp') as [E|[E|(pre & o' & q & E)]]; [left; exact E | |].
    + subst. right; right. exists [], o, p. reflexivity.
    + right; right. exists (WControl o p :: pre), o', q. rewrite E. reflexivity.
  - cbn [wf_dc_op] in Hop. contradiction. Qed.

Lemma ztrailing_nil prog : Forall wf_dc_op prog -> ends_with_data prog -> ztrailing keys c dz cfg 0 [] [] prog = [].
Proof. intros Hp He. destruct (ztrailing_spec prog 0%nat [] [] Hp) as [E|[E|(pre & o & p & E)]]; [exact E | subst; reflexivity |].
  exfalso. exact (He pre o p E). Qed.
End ZScriptFacts.

(* step (a): for EVERY compressor oracle *)
Theorem writer_wire_is_zscript keys dz (r : role) co thr0 prog :
  Forall wf_dc_op prog -> ends_with_data prog ->
  let cfg := {| wc_role := r; wc_co := Some co; wc_thr0 := thr0 |} in
  w_wire (w_run keys dz cfg prog) = enc_zscript (role_eqb (peer r) Server) (zscript_of keys dz cfg prog).
Proof. intros Hp He cfg. unfold w_run, zscript_of.
  assert (Hok : Forall (ok_typ) prog) by (eapply Forall_impl; [|exact Hp]; intros; apply ok_typ_of; assumption).
  rewrite (run_zwire keys dz cfg co eq_refl prog w_init [] [] Hok eq_refl eq_refl).
  cbn [w_init w_nkey w_hist app]. rewrite ztrailing_nil by assumption. cbn [map concat]. rewrite app_nil_r.
  destruct r; reflexivity. Qed.

(* step (b) *)
Lemma takeover_peer r co : writer_takeover r co = reader_takeover (peer r) co.
Proof. destruct r; reflexivity. Qed.

(* ====================================================================================================== *)
(* Step (c) — the round trip under an explicit contract between the compressor and the inflater             *)
(* ====================================================================================================== *)
Section Contract.
Variable dz : list dzop -> list bytes.                      (* the compressor oracle of Writer.v *)
Variable inflate : bytes -> bytes -> bytes * istatus.       (* the inflater oracle of Reader.v *)
Variable deflate_body : bytes -> bytes -> bytes.            (* dictionary -> plain text -> DEFLATE body without 00 00 ff ff *)

(* (F0) given chunks of bytes (of a length Go can represent) the compressor emits such chunks *)
Hypothesis dz_wf : forall h, wf_hist h -> Forall wf_payload (dz h).
(* (F1) on a flate.Writer that has compressed the messages css (each written in any number of chunks and flushed), the
   chunks emitted for Write(c1) … Write(ck) Flush() — however the compressor cuts its output, whatever it emits at
   which operation — concatenate to the DEFLATE body of c1 ++ … ++ ck for the dictionary "last window of the plain
   texts compressed before", followed by 00 00 ff ff.  (css = [] is the fresh / Reset writer: empty dictionary.) *)
Hypothesis dz_flush : forall css cs, Forall wf_chunks css -> wf_chunks cs -> cs <> [] ->
  dz_run dz (hist_of css) (msg_ops cs) = deflate_body (dict_of css) (concat cs) ++ c_deflateMessageTail.
(* (F2) the inflater undoes it: with the same dictionary (at most one window) it returns the plain text and then
   runs out of input *)
Hypothesis inflate_deflate : forall dict plain, (length dict <= zwindow)%nat ->
  inflate dict (deflate_body dict plain ++ c_deflateMessageTail) = (plain, INeedMore).

Section Carry.
Variable keys : nat -> key.
Variable c : bool.
Variable cfg : wcfg.
Local Notation tk := (wc_takeover cfg).

Lemma compressed_nonempty cs : op_compressed cfg cs = true -> cs <> [].
Proof. unfold op_compressed. destruct (wc_co cfg); destruct cs; discriminate. Qed.

(* what the trim writer lets through of a compressed message is exactly its DEFLATE body *)
Lemma bodies_deflate css cs : Forall wf_chunks css -> wf_chunks cs -> op_compressed cfg cs = true ->
  concat (msg_bodies dz cfg (hist_of css) cs) = deflate_body (dict_of css) (concat cs).
Proof. intros Hcss Hcs Hz. unfold msg_bodies. rewrite Hz.
  pose proof (trim_run_spec (dz_chunks dz (hist_of css) (msg_ops cs)) [] ltac:(cbn [length]; lia)) as Sp.
  destruct (trim_run [] (dz_chunks dz (hist_of css) (msg_ops cs))) as [outs t']. destruct Sp as (E & L). cbn [fst].
  rewrite concat_dz_chunks, (dz_flush css cs Hcss Hcs (compressed_nonempty cs Hz)) in E, L. cbn [app length] in E, L.
  apply (app_eq_tail _ _ t' c_deflateMessageTail E). rewrite L, app_length. cbn [c_deflateMessageTail length]. lia. Qed.

Lemma dict_of_snoc css cs : lastn zwindow (dict_of css ++ concat cs) = dict_of (css ++ [cs]).
Proof. unfold dict_of. rewrite lastn_app_lastn, map_app, concat_app. cbn [map concat]. rewrite app_nil_r. reflexivity. Qed.

Lemma zmsg_payload n pend css t cs : Forall wf_chunks css -> wf_chunks cs ->
  sm_payload (zm_m (zmsg_of keys c dz cfg n pend (hist_of css) t cs)) =
  if op_compressed cfg cs then deflate_body (dict_of css) (concat cs) else concat cs.
Proof. intros Hcss Hcs. unfold zmsg_of. cbn [zm_m]. rewrite smsg_of_payload.
  destruct (op_compressed cfg cs) eqn:Ez; [apply bodies_deflate; assumption|]. unfold msg_bodies. rewrite Ez. reflexivity. Qed.

(* the retained history stays a sequence of flushed messages, and its dictionary is the one [carries] threads *)
Lemma hist_dict_next css cs : Forall wf_chunks css -> wf_chunks cs -> (tk = false -> css = []) ->
  exists css', hist_next cfg (hist_of css) cs = hist_of css' /\
    (if op_compressed cfg cs then next_dict tk (dict_of css) (concat cs) else dict_of css) = dict_of css' /\
    Forall wf_chunks css' /\ (tk = false -> css' = []).
Proof. intros Hcss Hcs Hinv. unfold hist_next, next_dict.
  destruct (op_compressed cfg cs); [|exists css; auto].
  destruct tk eqn:Etk.
  - exists (css ++ [cs]). split; [symmetry; apply hist_of_snoc|]. split; [apply dict_of_snoc|].
    split; [apply Forall_app; split; [exact Hcss | constructor; [exact Hcs | constructor]] | discriminate].
  - exists []. rewrite (Hinv eq_refl). repeat split; constructor. Qed.

Lemma zscript_carries : forall prog n pend css, Forall wf_dc_op prog -> Forall wf_chunks css -> (tk = false -> css = []) ->
  carries deflate_body tk (dict_of css) (zscript_from keys c dz cfg n pend (hist_of css) prog) (plains_of prog).
Proof. unfold plains_of.
  induction prog as [|op prog IH]; intros n pend css Hp Hcss Hinv; cbn [zscript_from flat_map]; [exact I|].
  inversion Hp as [|? ? Hop Hp']; subst.
  destruct op as [t p|t cs|o p|code reason]; cbn [wf_dc_op wf_op] in Hop; [| | |contradiction]; cbn [app].
  - destruct Hop as (Ht & Hpl). pose proof (single_chunk p Hpl) as Hc.
    cbn [carries]. split.
    + rewrite (zmsg_payload n pend css t [p] Hcss Hc). cbn [zmsg_of zm_z concat]. rewrite app_nil_r. reflexivity.
    + destruct (hist_dict_next css [p] Hcss Hc Hinv) as (css' & E1 & E2 & W' & I'). cbn [concat] in E2. rewrite app_nil_r in E2.
      cbn [zmsg_of zm_z]. rewrite E1, E2. apply IH; assumption.
  - destruct Hop as (Ht & Hc).
    cbn [carries]. split.
    + rewrite (zmsg_payload n pend css t cs Hcss Hc). reflexivity.
    + destruct (hist_dict_next css cs Hcss Hc Hinv) as (css' & E1 & E2 & W' & I').
      cbn [zmsg_of zm_z]. rewrite E1, E2. apply IH; assumption.
  - apply IH; assumption.
Qed.
End Carry.

(* Reader ∘ Writer = identity with permessage-deflate negotiated: every role, both takeover settings on either side,
   every threshold (messages whose first Write is below it go uncompressed), any key supply, any program of Write /
   Writer…Write*…Close / Ping / Pong operations, any chunking by the application and by the compressor, any positive
   read buffer sizes, any transport ending *)
Theorem roundtrip_compressed : forall keys (r : role) co thr0 prog sizes e,
  (forall i, wf_key (keys i)) -> Forall wf_dc_op prog -> ends_with_data prog ->
  length sizes = count_data prog -> Forall (fun n => 0 < n)%nat sizes ->
  let wcfg := {| wc_role := r; wc_co := Some co; wc_thr0 := thr0 |} in
  let rcfg := {| rc_role := peer r; rc_co := Some co |} in
  let res := run rcfg inflate (-1)%Z (w_wire (w_run keys dz wcfg prog)) e (read_ops sizes) in
  fst res = delivered prog /\                      (* every message, in order, with its type, as written *)
  r_replies (snd res) = pongs_due prog /\          (* one Pong per Ping, same payload, in order *)
  r_pongs (snd res) = pong_notes prog /\           (* every Pong noted *)
  r_inq (snd res) = [] /\ r_closed (snd res) = false.
Proof.
  intros keys r co thr0 prog sizes e Hk Hp He Hl Hpos wcfg rcfg res. subst res.
  pose proof (writer_wire_is_zscript keys dz r co thr0 prog Hp He) as Ewire. cbv zeta in Ewire. fold wcfg in Ewire. rewrite Ewire. clear Ewire.
  unfold zscript_of. cbn [wc_role wcfg]. set (c := role_eqb r Client).
  pose proof (zscript_wf keys c dz wcfg Hk dz_wf prog 0%nat [] [] Hp (Forall_nil _) (Forall_nil _)) as Hw.
  pose proof (zscript_len keys c dz wcfg prog 0%nat [] [] Hp) as Hlen.
  pose proof (zscript_carries keys c wcfg prog 0%nat [] [] Hp (Forall_nil _) (fun _ => eq_refl)) as Hc.
  change (hist_of []) with (@nil dzop) in Hc. change (dict_of []) with (@nil N) in Hc.
  assert (Etk : wc_takeover wcfg = reader_takeover (rc_role rcfg) co) by (unfold wc_takeover; cbn [wcfg wc_co wc_role rcfg rc_role]; apply takeover_peer).
  rewrite Etk in Hc.
  destruct (reader_valid_zstream_contract inflate deflate_body inflate_deflate rcfg co
              (zscript_from keys c dz wcfg 0 [] [] prog) (plains_of prog) sizes e eq_refl Hw Hc ltac:(congruence) Hpos)
    as (R1 & R2 & R3 & R4 & R5).
  cbn [rc_role rcfg] in R1, R2, R3, R4, R5.
  split; [rewrite R1; apply zscript_obs; exact Hp|].
  split; [|split; [|split; [exact R4 | exact R5]]].
  - rewrite R2. pose proof (zscript_pw keys c dz wcfg prog 0%nat [] [] Hp) as E. rewrite ztrailing_nil in E by assumption.
    cbn [pw flat_map app] in E. rewrite app_nil_r in E. exact E.
  - rewrite R3. pose proof (zscript_pn keys c dz wcfg prog 0%nat [] [] Hp) as E. rewrite ztrailing_nil in E by assumption.
    cbn [pn flat_map app] in E. rewrite app_nil_r in E. exact E.
Qed.
End Contract.

(* ====================================================================================================== *)
(* Non-vacuity: the toy compressor / inflater pair satisfies the contract                                   *)
(* ====================================================================================================== *)
Lemma toy_mark_lt d : toy_mark d < 256.
Proof. unfold toy_mark. apply N.mod_lt. discriminate. Qed.

Lemma hist_plain_app a b : hist_plain (a ++ b) = hist_plain a ++ hist_plain b.
Proof. unfold hist_plain. rewrite map_app, concat_app. reflexivity. Qed.

Lemma hist_plain_ops cs : hist_plain (msg_ops cs) = concat cs.
Proof. unfold msg_ops. rewrite hist_plain_app. unfold hist_plain at 2. cbn [map concat]. rewrite app_nil_r.
  unfold hist_plain. rewrite map_map, map_id. reflexivity. Qed.

Lemma toy_hist_plain css : hist_plain (hist_of css) = concat (map (@concat N) css).
Proof. induction css as [|cs css IH]; [reflexivity|]. unfold hist_of. cbn [flat_map map concat].
  rewrite hist_plain_app, hist_plain_ops. fold (hist_of css). rewrite IH. reflexivity. Qed.

Lemma rev_hist_of css : match rev (hist_of css) with DWrite _ :: _ => False | _ => True end.
Proof. induction css as [|cs css _] using rev_ind; [exact I|].
  rewrite hist_of_snoc. unfold msg_ops. rewrite app_assoc, rev_unit. exact I. Qed.

Lemma toy_dz_first css a : toy_dz (hist_of css ++ [DWrite a]) = [[toy_mark (dict_of css)]; firstn 2 a; skipn 2 a].
Proof. unfold toy_dz. rewrite rev_unit.
  assert (Hm : lastn zwindow (hist_plain (rev (rev (hist_of css)))) = dict_of css) by (rewrite rev_involutive, toy_hist_plain; reflexivity).
  pose proof (rev_hist_of css) as Hr. destruct (rev (hist_of css)) as [|[q|] pre]; [|contradiction|]; rewrite Hm; reflexivity. Qed.

Lemma toy_dz_next h x b : toy_dz ((h ++ [DWrite x]) ++ [DWrite b]) = [firstn 2 b; skipn 2 b].
Proof. unfold toy_dz. rewrite !rev_unit. reflexivity. Qed.

Lemma toy_dz_flush h : toy_dz (h ++ [DFlush]) = [[0; 0; 255]; [255]].
Proof. unfold toy_dz. rewrite rev_unit. reflexivity. Qed.

Lemma toy_rest : forall cs h x, dz_run toy_dz (h ++ [DWrite x]) (map DWrite cs ++ [DFlush]) = concat cs ++ c_deflateMessageTail.
Proof. induction cs as [|b cs IH]; intros h x; cbn [map app dz_run concat].
  - rewrite toy_dz_flush. reflexivity.
  - rewrite toy_dz_next, IH. cbn [concat]. rewrite app_nil_r, firstn_skipn, <- app_assoc. reflexivity. Qed.

(* (F1) *)
Lemma toy_flush : forall css cs, Forall wf_chunks css -> wf_chunks cs -> cs <> [] ->
  dz_run toy_dz (hist_of css) (msg_ops cs) = toy_body (dict_of css) (concat cs) ++ c_deflateMessageTail.
Proof. intros css cs _ _ Hne. destruct cs as [|a cs]; [contradiction|]. unfold msg_ops, toy_body. cbn [map app dz_run concat].
  rewrite toy_dz_first, toy_rest. cbn [concat app]. rewrite app_nil_r, firstn_skipn, <- app_assoc. reflexivity. Qed.

(* (F0) *)
Lemma toy_dz_wf : forall h, wf_hist h -> Forall wf_payload (toy_dz h).
Proof. intros h Hh. unfold toy_dz. destruct (rev h) as [|[p|] pre] eqn:E; [constructor| |].
  - assert (Hp : wf_payload p).
    { unfold wf_hist in Hh. rewrite Forall_forall in Hh. apply (Hh (DWrite p)). apply in_rev. rewrite E. left. reflexivity. }
    apply Forall_app. split.
    + destruct pre as [|[q|] pre']; [| constructor |]; (constructor; [|constructor]); (apply wf_pl_short; [constructor; [apply toy_mark_lt | constructor] | cbn [length]; lia]).
    + constructor; [apply wf_pl_firstn, Hp|]. constructor; [|constructor].
      destruct Hp as (Hw & Hs). split; [apply wf_skipn, Hw|]. unfold small in *. rewrite skipn_length. lia.
  - repeat constructor; unfold small; cbn [length]; lia. Qed.

(* (F2) *)
Lemma toy_inflate_deflate : forall dict plain, (length dict <= zwindow)%nat ->
  toy_inflate2 dict (toy_body dict plain ++ c_deflateMessageTail) = (plain, INeedMore).
Proof. intros dict plain _. unfold toy_inflate2.
  replace (length (toy_body dict plain ++ c_deflateMessageTail) - 4)%nat with (length (toy_body dict plain))
    by (rewrite app_length; cbn [c_deflateMessageTail length]; lia).
  rewrite firstn_app, Nat.sub_diag, firstn_all, skipn_app, Nat.sub_diag, skipn_all. cbn [firstn skipn app].
  rewrite app_nil_r. unfold toy_body, c_deflateMessageTail. rewrite N.eqb_refl. reflexivity. Qed.

(* the theorem instantiated: the toy pair round-trips every program *)
Definition toy_roundtrip := roundtrip_compressed toy_dz toy_inflate2 toy_body toy_dz_wf toy_flush toy_inflate_deflate.

(* its hypotheses hold for the concrete program and key supply … *)
Example toy_prog_ok : (forall i, wf_key (toy_keys i)) /\ Forall wf_dc_op toy_prog /\ ends_with_data toy_prog /\
  length [1; 2; 3; 4; 5; 6]%nat = count_data toy_prog.
Proof. split; [|split; [|split; [|reflexivity]]].
  - intro i. unfold toy_keys, wf_key. repeat split; try lia; try (apply N.mod_lt; discriminate).
  - unfold toy_prog. repeat (apply Forall_cons || apply Forall_nil); cbn [wf_dc_op wf_op];
      unfold wf_payload, wf_bytes, small; repeat (apply Forall_cons || apply Forall_nil || split); cbn [length]; try lia; auto.
  - intros pre o p E. apply (f_equal (@rev wop)) in E. rewrite rev_unit in E. unfold toy_prog in E. cbn [rev app] in E. discriminate.
Qed.

(* … and its conclusion, computed: both roles, all four (client_no_context_takeover, server_no_context_takeover) settings *)
Example roundtrip_compressed_nonvacuous :
  forall rc, In rc toy_cfgs ->
  let res := toy_run (fst rc) (snd rc) in
  fst res = delivered toy_prog /\ r_replies (snd res) = [RpPong [7]] /\ r_pongs (snd res) = [[8; 8]] /\ r_inq (snd res) = [] /\ r_closed (snd res) = false.
Proof. intros rc H. unfold toy_cfgs in H. cbn [In] in H.
  repeat (destruct H as [<- | H]; [vm_compute; repeat split|]). contradiction. Qed.

(* the contract instances the concrete program needs, computed (writer keeps its context): the three compressed messages *)
Example toy_contract_instances :
  dz_run toy_dz (hist_of []) (msg_ops [[1; 2; 3; 4; 5]]) = toy_body [] [1; 2; 3; 4; 5] ++ c_deflateMessageTail /\
  dz_run toy_dz (hist_of [[[1; 2; 3; 4; 5]]]) (msg_ops [[9; 8; 7]; [6]; []; [5; 4; 3; 2; 1; 0]])
    = toy_body [1; 2; 3; 4; 5] [9; 8; 7; 6; 5; 4; 3; 2; 1; 0] ++ c_deflateMessageTail /\
  toy_body [1; 2; 3; 4; 5] [9; 8; 7] = [20; 9; 8; 7] /\
  toy_inflate2 [1; 2; 3; 4; 5] ([20; 9; 8; 7] ++ c_deflateMessageTail) = ([9; 8; 7], INeedMore) /\
  toy_inflate2 [] ([20; 9; 8; 7] ++ c_deflateMessageTail) = ([], ICorrupt).      (* the wrong dictionary is noticed *)
Proof. vm_compute. repeat split. Qed.

Print Assumptions roundtrip_compressed.
