(* Proofs/WinPoolP.v — the pooled sliding windows: a connection's dictionary is made of its own bytes only. *)
From Coq Require Import List Arith Bool Lia NArith.
From WS Require Import Base.Words Model.Proto Model.Window Model.WinPool Proofs.TrimWindowP.
Import ListNotations.
Close Scope N_scope.
Open Scope nat_scope.


(* ---------------- auxiliary ---------------- *)
Lemma upd_same {A} (f : wcid -> A) c x : upd f c x c = x.
Proof. unfold upd. rewrite Nat.eqb_refl. reflexivity. Qed.

Lemma upd_other {A} (f : wcid -> A) c x c' : c' <> c -> upd f c x c' = f c'.
Proof. intro H. unfold upd. apply Nat.eqb_neq in H. rewrite H. reflexivity. Qed.

Ltac updc c' c := destruct (Nat.eq_dec c' c) as [->|?N]; [rewrite ?upd_same in * | rewrite ?upd_other in * by assumption].

Lemma lastn_nil {A} n : lastn n (@nil A) = [].
Proof. apply lastn_short. cbn [length]. lia. Qed.

Lemma win_write_vis' cap w p : w_vis (win_write cap w p) = sw_write cap (w_vis w) p.
Proof. unfold win_write, sw_write. cbv zeta.
  destruct (Nat.leb cap (length p)); [reflexivity|].
  destruct (Nat.ltb (cap - length (w_vis w)) (length p)); reflexivity. Qed.

Lemma win_write_len cap w p : length (w_vis w) + length (w_junk w) = cap ->
  length (w_vis (win_write cap w p)) + length (w_junk (win_write cap w p)) = cap.
Proof. intro H. unfold win_write. cbv zeta.
  destruct (Nat.leb_spec cap (length p)) as [Hc|Hc].
  - cbn [w_vis w_junk length]. rewrite skipn_length. lia.
  - destruct (Nat.ltb_spec (cap - length (w_vis w)) (length p)) as [Hl|Hl]; cbn [w_vis w_junk fst snd];
      rewrite ?app_length, ?skipn_length, ?app_length, ?skipn_length; lia. Qed.

Lemma pool_take_in a : forall l w rest, pool_take a l = Some (w, rest) -> In (a, w) l /\ forall x, In x rest -> In x l.
Proof. induction l as [|[a' w'] r IH]; intros w rest H; cbn [pool_take] in H; [discriminate|].
  destruct (Nat.eqb_spec a' a) as [E|E].
  - inversion H; subst. split; [left; reflexivity | intros x Hx; right; exact Hx].
  - destruct (pool_take a r) as [[w2 r2]|] eqn:Ep; [|discriminate]. inversion H; subst.
    destruct (IH _ _ eq_refl) as [I1 I2]. split; [right; exact I1|].
    intros x [Hx|Hx]; [left; exact Hx | right; apply I2; exact Hx]. Qed.

Record inv (cap : nat) (s : wst) : Prop := {
  inv_cl : forall c a w, ws_conn s c = Some (a, w) -> length (w_vis w) + length (w_junk w) = cap;
  inv_pl : forall a w, In (a, w) (ws_pool s) -> length (w_vis w) + length (w_junk w) = cap;
  inv_pv : forall a w, In (a, w) (ws_pool s) -> w_vis w = [];
  inv_ow : forall c a w, ws_conn s c = Some (a, w) -> w_vis w = lastn cap (ws_own s c);
  inv_no : forall c, ws_conn s c = None -> ws_own s c = [] }.

Lemma inv_init cap : inv cap winit.
Proof. constructor; cbn [winit ws_conn ws_pool ws_own]; try discriminate; try reflexivity; intros a w [] . Qed.

Lemma win_fresh_len cap : length (w_vis (win_fresh cap)) + length (w_junk (win_fresh cap)) = cap.
Proof. unfold win_fresh. cbn [w_vis w_junk length]. rewrite repeat_length. reflexivity. Qed.

Lemma inv_step cap s op s1 : inv cap s -> wstep cap s op = Some s1 -> inv cap s1.
Proof. intros [Hcl Hpl Hpv How Hno] H. unfold wstep in H. destruct op as [c a|c p|c].
  - destruct (ws_conn s c) as [[a0 w0]|] eqn:Ec.
    + inversion H; subst. constructor; assumption.
    + destruct (pool_take a (ws_pool s)) as [[w rest]|] eqn:Ep; inversion H; subst; clear H.
      * destruct (pool_take_in _ _ _ _ Ep) as [I1 I2].
        constructor; cbn [ws_conn ws_pool ws_own].
        -- intros c' a' w' Hc'. updc c' c.
           ++ inversion Hc'; subst. eapply Hpl; eauto.
           ++ eapply Hcl; eauto.
        -- intros a' w' Hi. eapply Hpl. apply I2. exact Hi.
        -- intros a' w' Hi. eapply Hpv. apply I2. exact Hi.
        -- intros c' a' w' Hc'. updc c' c.
           ++ inversion Hc'; subst. rewrite (Hpv _ _ I1). symmetry. apply lastn_nil.
           ++ eapply How; eauto.
        -- intros c' Hc'. updc c' c; [reflexivity | apply Hno; exact Hc'].
      * constructor; cbn [ws_conn ws_pool ws_own].
        -- intros c' a' w' Hc'. updc c' c.
           ++ inversion Hc'; subst. apply win_fresh_len.
           ++ eapply Hcl; eauto.
        -- exact Hpl.
        -- exact Hpv.
        -- intros c' a' w' Hc'. updc c' c.
           ++ inversion Hc'; subst. cbn [win_fresh w_vis]. symmetry. apply lastn_nil.
           ++ eapply How; eauto.
        -- intros c' Hc'. updc c' c; [reflexivity | apply Hno; exact Hc'].
  - destruct (ws_conn s c) as [[a0 w0]|] eqn:Ec; [|discriminate]. inversion H; subst; clear H.
    pose proof (Hcl _ _ _ Ec) as L0. pose proof (How _ _ _ Ec) as O0.
    constructor; cbn [ws_conn ws_pool ws_own].
    + intros c' a' w' Hc'. updc c' c.
      * injection Hc' as <- <-. apply win_write_len. exact L0.
      * eapply Hcl; eauto.
    + exact Hpl.
    + exact Hpv.
    + intros c' a' w' Hc'. updc c' c.
      * injection Hc' as <- <-. rewrite win_write_vis'. rewrite sw_write_spec by lia.
        rewrite O0. apply lastn_app_lastn.
      * eapply How; eauto.
    + intros c' Hc'. updc c' c; [discriminate | apply Hno; exact Hc'].
  - destruct (ws_conn s c) as [[a0 w0]|] eqn:Ec; [|discriminate]. inversion H; subst; clear H.
    pose proof (Hcl _ _ _ Ec) as L0.
    constructor; cbn [ws_conn ws_pool ws_own].
    + intros c' a' w' Hc'. updc c' c; [discriminate | eapply Hcl; eauto].
    + intros a' w' [Hi|Hi]; [injection Hi as <- <-; unfold win_reset; cbn [w_vis w_junk length]; rewrite app_length; exact L0 | eapply Hpl; eauto].
    + intros a' w' [Hi|Hi]; [injection Hi as <- <-; reflexivity | eapply Hpv; eauto].
    + intros c' a' w' Hc'. updc c' c; [discriminate | eapply How; eauto].
    + intros c' Hc'. updc c' c; [reflexivity | apply Hno; exact Hc'].
Qed.

Lemma inv_run cap : forall ops s s', inv cap s -> wrun cap s ops = Some s' -> inv cap s'.
Proof. induction ops as [|op r IH]; intros s s' Hi H; cbn [wrun] in H.
  - inversion H; subst. exact Hi.
  - destruct (wstep cap s op) as [s1|] eqn:Es; [|discriminate]. eapply IH; [eapply inv_step; eauto | exact H]. Qed.

Definition held (s : wst) (c : wcid) : bool := match ws_conn s c with Some _ => true | None => false end.

Lemma step_other cap s op s1 c : wstep cap s op = Some s1 -> wop_conn op <> c ->
  ws_conn s1 c = ws_conn s c /\ ws_own s1 c = ws_own s c.
Proof. intros H N. unfold wstep in H. destruct op as [c0 a|c0 p|c0]; cbn [wop_conn] in N.
  - destruct (ws_conn s c0) as [[a0 w0]|] eqn:Ec.
    + inversion H; subst. split; reflexivity.
    + destruct (pool_take a (ws_pool s)) as [[w rest]|]; inversion H; subst; cbn [ws_conn ws_own];
        rewrite !upd_other by (intro X; apply N; symmetry; exact X); split; reflexivity.
  - destruct (ws_conn s c0) as [[a0 w0]|] eqn:Ec; [|discriminate]. inversion H; subst; cbn [ws_conn ws_own].
    rewrite !upd_other by (intro X; apply N; symmetry; exact X); split; reflexivity.
  - destruct (ws_conn s c0) as [[a0 w0]|] eqn:Ec; [|discriminate]. inversion H; subst; cbn [ws_conn ws_own].
    rewrite !upd_other by (intro X; apply N; symmetry; exact X); split; reflexivity.
Qed.

Lemma wproj_cons_eq c op r : wop_conn op = c -> wproj c (op :: r) = op :: wproj c r.
Proof. intro E. unfold wproj. cbn [filter]. rewrite E, Nat.eqb_refl. reflexivity. Qed.

Lemma wproj_cons_ne c op r : wop_conn op <> c -> wproj c (op :: r) = wproj c r.
Proof. intro E. unfold wproj. cbn [filter]. apply Nat.eqb_neq in E. rewrite E. reflexivity. Qed.

Lemma wproj_idem c : forall ops, wproj c (wproj c ops) = wproj c ops.
Proof. induction ops as [|op r IH]; [reflexivity|].
  destruct (Nat.eq_dec (wop_conn op) c) as [E|E].
  - rewrite (wproj_cons_eq c op r E). rewrite (wproj_cons_eq c op _ E). rewrite IH. reflexivity.
  - rewrite (wproj_cons_ne c op r E). exact IH. Qed.

Lemma own_run cap c : forall ops s s', wrun cap s ops = Some s' ->
  ws_own s' c = own_of (held s c) (ws_own s c) (wproj c ops).
Proof. induction ops as [|op r IH]; intros s s' H; cbn [wrun] in H.
  - inversion H; subst. reflexivity.
  - destruct (wstep cap s op) as [s1|] eqn:Es; [|discriminate].
    specialize (IH _ _ H).
    destruct (Nat.eq_dec (wop_conn op) c) as [E|E].
    + rewrite (wproj_cons_eq c op r E). rewrite IH. clear IH H.
      unfold wstep in Es. unfold held. destruct op as [c0 a|c0 p|c0]; cbn [wop_conn] in E; subst c0; cbn [own_of].
      * destruct (ws_conn s c) as [[a0 w0]|] eqn:Ec.
        -- inversion Es; subst. rewrite Ec. reflexivity.
        -- destruct (pool_take a (ws_pool s)) as [[w rest]|]; inversion Es; subst; cbn [ws_conn ws_own];
             rewrite !upd_same; reflexivity.
      * destruct (ws_conn s c) as [[a0 w0]|] eqn:Ec; [|discriminate]. inversion Es; subst; cbn [ws_conn ws_own].
        rewrite !upd_same. reflexivity.
      * destruct (ws_conn s c) as [[a0 w0]|] eqn:Ec; [|discriminate]. inversion Es; subst; cbn [ws_conn ws_own].
        rewrite !upd_same. reflexivity.
    + rewrite (wproj_cons_ne c op r E). rewrite IH.
      destruct (step_other _ _ _ _ c Es E) as [E1 E2]. unfold held. rewrite E1, E2. reflexivity.
Qed.

Lemma dict_own cap s c : inv cap s -> wdict s c = lastn cap (ws_own s c).
Proof. intros [Hcl Hpl Hpv How Hno]. unfold wdict. destruct (ws_conn s c) as [[a w]|] eqn:Ec.
  - eapply How; eauto.
  - rewrite (Hno _ Ec). symmetry. apply lastn_nil. Qed.

Lemma step_alone cap s t op s1 c : wstep cap s op = Some s1 -> wop_conn op = c -> held t c = held s c ->
  exists t1, wstep cap t op = Some t1 /\ held t1 c = held s1 c.
Proof. intros H E Hh. unfold held in *. unfold wstep in *. destruct op as [c0 a|c0 p|c0]; cbn [wop_conn] in E; subst c0.
  - destruct (ws_conn s c) as [[a0 w0]|] eqn:Ec; destruct (ws_conn t c) as [[a1 w1]|] eqn:Et; try discriminate.
    + inversion H; subst. eexists; split; [reflexivity|]. rewrite Ec, Et. reflexivity.
    + assert (G : forall x, match ws_conn x c with Some _ => true | None => false end = true ->
                 match ws_conn x c with Some _ => true | None => false end = match ws_conn s1 c with Some _ => true | None => false end).
      { intros x Hx. rewrite Hx. symmetry.
        destruct (pool_take a (ws_pool s)) as [[w rest]|]; inversion H; subst; cbn [ws_conn]; rewrite upd_same; reflexivity. }
      destruct (pool_take a (ws_pool t)) as [[w rest]|]; (eexists; split; [reflexivity|]); apply G; cbn [ws_conn]; rewrite upd_same; reflexivity.
  - destruct (ws_conn s c) as [[a0 w0]|] eqn:Ec; [|discriminate]. destruct (ws_conn t c) as [[a1 w1]|] eqn:Et; [|discriminate].
    inversion H; subst. eexists; split; [reflexivity|]. cbn [ws_conn]. rewrite !upd_same. reflexivity.
  - destruct (ws_conn s c) as [[a0 w0]|] eqn:Ec; [|discriminate]. destruct (ws_conn t c) as [[a1 w1]|] eqn:Et; [|discriminate].
    inversion H; subst. eexists; split; [reflexivity|]. cbn [ws_conn]. rewrite !upd_same. reflexivity.
Qed.

Lemma run_alone cap c : forall ops s t s', wrun cap s ops = Some s' -> held t c = held s c ->
  exists t', wrun cap t (wproj c ops) = Some t'.
Proof. induction ops as [|op r IH]; intros s t s' H Hh; cbn [wrun] in H.
  - exists t. reflexivity.
  - destruct (wstep cap s op) as [s1|] eqn:Es; [|discriminate].
    destruct (Nat.eq_dec (wop_conn op) c) as [E|E].
    + rewrite (wproj_cons_eq c op r E). destruct (step_alone _ _ _ _ _ _ Es E Hh) as (t1 & T1 & T2).
      cbn [wrun]. rewrite T1. eapply IH; eauto.
    + rewrite (wproj_cons_ne c op r E). eapply IH; [exact H|].
      destruct (step_other _ _ _ _ c Es E) as [E1 _]. unfold held in *. rewrite E1. exact Hh.
Qed.

(* TO PROVE (statements are fixed; add whatever lemmas you need above them) *)

(* the visible part of the array follows sw_write (Model/Window.v) *)
Lemma win_write_vis cap w p : w_vis (win_write cap w p) = sw_write cap (w_vis w) p.
Proof. apply win_write_vis'. Qed.

(* every array, held or pooled, has exactly cap cells: the in-place append of win_write never runs past the array *)
Theorem win_arrays_have_cap : forall cap ops s, wrun cap winit ops = Some s ->
  (forall c a w, ws_conn s c = Some (a, w) -> length (w_vis w) + length (w_junk w) = cap) /\
  (forall a w, In (a, w) (ws_pool s) -> length (w_vis w) + length (w_junk w) = cap).
Proof. intros cap ops s H. pose proof (inv_run cap ops winit s (inv_init cap) H) as [Hcl Hpl Hpv How Hno]. split; assumption. Qed.

(* a pooled window shows nothing *)
Theorem win_pooled_show_nothing : forall cap ops s, wrun cap winit ops = Some s ->
  forall a w, In (a, w) (ws_pool s) -> w_vis w = [].
Proof. intros cap ops s H. pose proof (inv_run cap ops winit s (inv_init cap) H) as [Hcl Hpl Hpv How Hno]. exact Hpv. Qed.

(* MAIN: whatever all the connections of the process do, in any order, with the pool handing out any array it has (or none),
   the dictionary of connection c is the last cap bytes of what c ITSELF wrote since it took its window — a function of c's
   own operations alone *)
Theorem win_dict_own_bytes : forall cap ops s, wrun cap winit ops = Some s ->
  forall c, wdict s c = lastn cap (own_of false [] (wproj c ops)).
Proof. intros cap ops s H c. rewrite (dict_own cap s c (inv_run cap ops winit s (inv_init cap) H)).
  rewrite (own_run cap c ops winit s H). reflexivity. Qed.

(* non-interference: c alone in the process (every array fresh) ends with the same dictionary *)
Theorem win_noninterference : forall cap ops s c, wrun cap winit ops = Some s ->
  exists s', wrun cap winit (wproj c ops) = Some s' /\ wdict s' c = wdict s c.
Proof. intros cap ops s c H. destruct (run_alone cap c ops winit winit s H eq_refl) as [s' Hs']. exists s'. split; [exact Hs'|].
  rewrite (win_dict_own_bytes _ _ _ Hs' c), (win_dict_own_bytes _ _ _ H c), wproj_idem. reflexivity. Qed.

Print Assumptions win_dict_own_bytes.
Print Assumptions win_noninterference.
