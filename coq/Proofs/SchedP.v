From Coq Require Import List Arith Bool Lia.
Import ListNotations.
From WS Require Import Model.Sched.

Lemma upd_same : forall f t x, upd f t x t = x.
Proof. intros; unfold upd; rewrite Nat.eqb_refl; reflexivity. Qed.
Lemma upd_other : forall f t x t0, t0 <> t -> upd f t x t0 = f t0.
Proof. intros f t x t0 H; unfold upd. destruct (Nat.eqb_spec t0 t); [contradiction|reflexivity]. Qed.

Ltac step_cases H :=
  unfold step in H; cbv zeta in H;
  repeat match type of H with
  | context[match ?x with _ => _ end] => destruct x eqn:?
  end; try discriminate H; injection H as H; subst; unfold with_thr in *;
  repeat match goal with Hx : context[match ?x with _ => _ end] |- _ => is_var x; destruct x end;
  rewrite ?andb_true_r, ?andb_false_r, ?orb_false_r, ?orb_true_r in *.

Ltac proj := cbn [msg_mu frame_mu closed closing close_sent client thrs wire].
Ltac projs := cbn [msg_mu frame_mu closed closing close_sent client thrs wire] in *.
Ltac split_thr t0 t :=
  destruct (Nat.eq_dec t0 t) as [->|?];
  [rewrite ?upd_same | rewrite ?upd_other by assumption]; cbn [ph ncall calls results set_ph ret].

(* ---------------- monotonicity ---------------- *)
Theorem sched_closed_monotone : forall s e s', step s e = Some s' -> closed s = true -> closed s' = true.
Proof. intros s e s' H Hc. step_cases H; proj; congruence. Qed.

Theorem sched_close_sent_monotone : forall s e s', step s e = Some s' -> close_sent s = true -> close_sent s' = true.
Proof. intros s e s' H Hc. step_cases H; proj; try rewrite Hc; try reflexivity; try congruence. Qed.

Lemma step_wire_closed : forall s e s', step s e = Some s' -> closed s = true -> wire s' = wire s.
Proof. intros s e s' H Hc. step_cases H; proj; congruence. Qed.

(* ---------------- invariant 1: locks ---------------- *)
Definition holds (p : phase) : Prop :=
  match p with Check _ _ _ _ | Emit _ _ _ _ _ | Unlock _ _ _ _ | FailFrame _ _ => True | _ => False end.
Definition dataph (p : phase) : Prop :=
  match p with
  | WantFrame FData _ _ _ | Check FData _ _ _ | Emit FData _ _ _ _ | Unlock FData _ _ _ | FailFrame FData _ | EndMsg => True
  | _ => False end.
Definition failph (p : phase) : Prop := match p with FailFrame _ _ => True | _ => False end.

Record Inv1 (s : st) : Prop := {
  i_mutex : forall t, holds (ph (thrs s t)) -> frame_mu s = Some t;
  i_data : forall t, dataph (ph (thrs s t)) -> msg_mu s = Some t;
  i_fail : forall t, failph (ph (thrs s t)) -> closed s = true \/ close_sent s = true }.

Lemma inv1_init : forall c progs, Inv1 (init c progs).
Proof. intros; split; cbn; intros t []. Qed.

Lemma inv1_step : forall s e s', Inv1 s -> step s e = Some s' -> Inv1 s'.
Proof.
  intros s e s' [Hm Hd Hf] H. destruct e as [t alt| |t].
  2:{ step_cases H. split; proj; auto. }
  all: pose proof (Hm t) as Hmt; pose proof (Hd t) as Hdt; pose proof (Hf t) as Hft.
  all: step_cases H; (split; proj; intros t0; [specialize (Hm t0)|specialize (Hd t0)|specialize (Hf t0)]; split_thr t0 t;
    simpl in *; rewrite ?andb_true_r, ?andb_false_r, ?orb_false_r, ?orb_true_r in *; try tauto; try (intuition congruence)).
Qed.

Theorem sched_mutex_inv : forall s t, Inv1 s -> holds (ph (thrs s t)) -> frame_mu s = Some t.
Proof. intros s t H; apply (i_mutex _ H). Qed.

(* ---------------- scans as folds with snoc lemmas ---------------- *)
Definition last_from (prev : option wev) (w : list wev) : option wev := fold_left (fun _ x => Some x) w prev.
Definition fa_check (prev : option wev) (e : wev) : bool :=
  match prev with
  | None => Nat.eqb (e_part e) 0
  | Some p => if e_last p then Nat.eqb (e_part e) 0 else same_frame p e && Nat.eqb (e_part e) (S (e_part p))
  end.
Lemma last_from_snoc : forall w prev e, last_from prev (w ++ [e]) = Some e.
Proof. intros; unfold last_from; rewrite fold_left_app; reflexivity. Qed.
Lemma fa_snoc : forall w prev e, frames_atomic prev (w ++ [e]) = frames_atomic prev w && fa_check (last_from prev w) e.
Proof.
  induction w as [|a w IH]; intros prev e.
  - cbn. rewrite andb_true_r. reflexivity.
  - cbn [app frames_atomic]. rewrite IH. cbn [last_from fold_left]. rewrite andb_assoc. reflexivity.
Qed.

Definition mu_next (o : option wev) (e : wev) : option wev :=
  if is_data e then (if e_fin e && e_last e then None else Some e) else o.
Definition mu_state (o : option wev) (w : list wev) : option wev := fold_left mu_next w o.
Definition mu_check (o : option wev) (e : wev) : bool :=
  if is_data e then match o with Some o => same_msg o e | None => e_first e && Nat.eqb (e_part e) 0 end else true.
Lemma mu_state_snoc : forall w o e, mu_state o (w ++ [e]) = mu_next (mu_state o w) e.
Proof. intros; unfold mu_state; rewrite fold_left_app; reflexivity. Qed.
Lemma mu_snoc : forall w o e, msgs_unmixed o (w ++ [e]) = msgs_unmixed o w && mu_check (mu_state o w) e.
Proof.
  induction w as [|a w IH]; intros o e.
  - cbn. unfold mu_check. destruct (is_data e); rewrite ?andb_true_r; reflexivity.
  - cbn [app msgs_unmixed]. rewrite !IH. cbn [mu_state fold_left]. 
    unfold mu_next, mu_state. destruct (is_data a); [rewrite andb_assoc|]; reflexivity.
Qed.

Definition ac_next (c : option wev) (e : wev) : option wev :=
  match c with Some _ => c | None => if is_close e then Some e else None end.
Definition ac_state (c : option wev) (w : list wev) : option wev := fold_left ac_next w c.
Definition ac_check (c : option wev) (e : wev) : bool :=
  match c with
  | Some c0 => match e_kind e with FPing => true | FClose => same_frame c0 e | FData => false end
  | None => true end.
Lemma ac_state_snoc : forall w c e, ac_state c (w ++ [e]) = ac_next (ac_state c w) e.
Proof. intros; unfold ac_state; rewrite fold_left_app; reflexivity. Qed.
Lemma ac_snoc : forall w c e, after_close c (w ++ [e]) = after_close c w && ac_check (ac_state c w) e.
Proof.
  induction w as [|a w IH]; intros c e.
  - cbn. destruct c; [rewrite andb_true_r|]; cbn; reflexivity.
  - cbn [app after_close]. destruct c as [c0|].
    + rewrite IH. cbn [ac_state fold_left ac_next]. rewrite andb_assoc. reflexivity.
    + rewrite IH. cbn [ac_state fold_left ac_next]. reflexivity.
Qed.
(* ---------------- invariant 2: frames ---------------- *)
Definition midrel (p : phase) (n : nat) (t : tid) (l : option wev) : Prop :=
  match p with
  | Emit _ _ _ fi (S q) => exists x, l = Some x /\ e_tid x = t /\ e_call x = n /\ e_frame x = fi /\ e_part x = q /\ e_last x = false
  | _ => True end.
Definition midrel2 (p : phase) (n : nat) (x : wev) : Prop :=
  match p with Emit _ _ _ fi (S q) => e_call x = n /\ e_frame x = fi /\ e_part x = q | _ => False end.
Record Inv2 (s : st) : Prop := {
  i_fa : frames_atomic None (wire s) = true;
  i_fa1 : forall t, midrel (ph (thrs s t)) (ncall (thrs s t)) t (last_from None (wire s));
  i_fa2 : closed s = false -> forall x, last_from None (wire s) = Some x -> e_last x = false ->
          midrel2 (ph (thrs s (e_tid x))) (ncall (thrs s (e_tid x))) x }.

Lemma inv2_init : forall c progs, Inv2 (init c progs).
Proof. intros; split; cbn; auto. discriminate. Qed.

Ltac rw_ph t := match goal with Hp : ph (thrs _ t) = _ |- _ => rewrite Hp in * end.

Lemma fa_check_emit : forall s t fk k parts fi p e, Inv1 s -> Inv2 s -> closed s = false ->
  ph (thrs s t) = Emit fk k parts fi p -> e_tid e = t -> e_call e = ncall (thrs s t) -> e_frame e = fi -> e_part e = p ->
  fa_check (last_from None (wire s)) e = true.
Proof.
  intros s t fk k parts fi p e [Hm _ _] [Hfa H1 H2] Hc Hph Et Ec Ef Ep.
  destruct p as [|q].
  - destruct (last_from None (wire s)) as [x|] eqn:Hl; unfold fa_check; [|rewrite Ep; reflexivity].
    destruct (e_last x) eqn:Hx; [rewrite Ep; reflexivity|].
    specialize (H2 Hc x eq_refl Hx). exfalso.
    destruct (ph (thrs s (e_tid x))) eqn:Hpx; simpl in H2; try contradiction.
    assert (frame_mu s = Some (e_tid x)) as F1 by (apply Hm; rewrite Hpx; exact I).
    assert (frame_mu s = Some t) as F2 by (apply Hm; rewrite Hph; exact I).
    assert (e_tid x = t) as E by congruence. rewrite E in Hpx. rewrite Hph in Hpx. injection Hpx as <- <- <- <- <-. contradiction.
  - specialize (H1 t). rewrite Hph in H1. simpl in H1. destruct H1 as [x [Hl [X1 [X2 [X3 [X4 X5]]]]]].
    rewrite Hl. unfold fa_check, same_frame. rewrite X5, X1, X2, X3, X4, Et, Ec, Ef, Ep, !Nat.eqb_refl. reflexivity.
Qed.

Lemma midrel_other : forall s t t0 fk k parts fi p l, Inv1 s -> ph (thrs s t) = Emit fk k parts fi p -> t0 <> t ->
  midrel (ph (thrs s t0)) (ncall (thrs s t0)) t0 l.
Proof.
  intros s t t0 fk k parts fi p l [Hm _ _] Hph N.
  destruct (ph (thrs s t0)) eqn:Hp0; simpl; auto. destruct p0; auto. exfalso.
  assert (frame_mu s = Some t0) as F1 by (apply Hm; rewrite Hp0; exact I).
  assert (frame_mu s = Some t) as F2 by (apply Hm; rewrite Hph; exact I). congruence.
Qed.

Lemma inv2_step : forall s e s', Inv1 s -> Inv2 s -> step s e = Some s' -> Inv2 s'.
Proof.
  intros s e s' I1 I2 H. pose proof I1 as [Hm _ _]. pose proof I2 as [Hfa H1 H2]. destruct e as [t alt| |t].
  2:{ step_cases H. split; proj; auto; discriminate. }
  all: pose proof (Hm t) as Hmt; pose proof (H1 t) as H1t.
  all: step_cases H;
  match goal with
  | |- context[wire _ ++ _] => idtac
  | _ => split; proj;
     [ exact Hfa
     | intros t0; specialize (H1 t0); split_thr t0 t; simpl; auto
     | first [discriminate | intros Hc x Hl Hx; specialize (H2 ltac:(congruence) x Hl Hx);
       destruct (Nat.eq_dec (e_tid x) t) as [E|N];
       [ rewrite E in *; rw_ph t; simpl in H2; try contradiction; try congruence
       | rewrite upd_other by assumption; exact H2 ] ] ]
  end.
  - split; proj.
    + rewrite fa_snoc, Hfa. simpl. eapply fa_check_emit; eauto.
    + intros t0. rewrite last_from_snoc. split_thr t0 t.
      * simpl. eexists; split; [reflexivity|]. simpl. auto.
      * eapply midrel_other; eauto.
    + intros _ x Hl Hx. rewrite last_from_snoc in Hl. injection Hl as <-. simpl. rewrite upd_same. simpl. auto.
  - split; proj.
    + rewrite fa_snoc, Hfa. simpl. eapply fa_check_emit; eauto.
    + intros t0. rewrite last_from_snoc. split_thr t0 t.
      * simpl. auto.
      * eapply midrel_other; eauto.
    + intros _ x Hl Hx. rewrite last_from_snoc in Hl. injection Hl as <-. simpl in Hx. discriminate.
Qed.

(* ---------------- invariant 3: after close ---------------- *)
Definition acrel (p : phase) (n : nat) (t : tid) (cs : bool) (c : option wev) : Prop :=
  match p with
  | Emit FData _ _ _ _ => cs = false
  | Emit FClose _ _ fi _ => cs = true /\ forall c0, c = Some c0 -> e_tid c0 = t /\ e_call c0 = n /\ e_frame c0 = fi
  | _ => True end.
Record Inv3 (s : st) : Prop := {
  i_ac : after_close None (wire s) = true;
  i_ac1 : forall c0, ac_state None (wire s) = Some c0 -> close_sent s = true;
  i_ac2 : forall t, acrel (ph (thrs s t)) (ncall (thrs s t)) t (close_sent s) (ac_state None (wire s)) }.

Lemma inv3_init : forall c progs, Inv3 (init c progs).
Proof. intros; split; cbn; auto. discriminate. Qed.

Lemma emit_unique : forall s t t0, Inv1 s -> holds (ph (thrs s t)) -> holds (ph (thrs s t0)) -> t0 = t.
Proof. intros s t t0 [Hm _ _] A B. apply Hm in A. apply Hm in B. congruence. Qed.

Lemma acrel_other : forall s t t0 cs c, Inv1 s -> holds (ph (thrs s t)) -> t0 <> t ->
  acrel (ph (thrs s t0)) (ncall (thrs s t0)) t0 cs c.
Proof.
  intros s t t0 cs c I1 Hph N.
  destruct (ph (thrs s t0)) eqn:Hp0; simpl; auto. exfalso. apply N. eapply emit_unique; eauto. rewrite Hp0; exact I.
Qed.

Lemma inv3_emit : forall s t fk k parts fi p l ph' cl, Inv1 s -> Inv3 s -> ph (thrs s t) = Emit fk k parts fi p ->
  (ph' = Emit fk k parts fi (S p) \/ ph' = Unlock fk k parts fi) ->
  Inv3 {| msg_mu := msg_mu s; frame_mu := frame_mu s; closed := cl; closing := closing s; close_sent := close_sent s; client := client s;
          thrs := upd (thrs s) t (set_ph (thrs s t) ph');
          wire := wire s ++ [{| e_tid := t; e_call := ncall (thrs s t); e_frame := fi; e_kind := fk; e_first := Nat.eqb fi 0;
                                e_fin := Nat.eqb k 0; e_part := p; e_last := l |}] |}.
Proof.
  intros s t fk k parts fi p l ph' cl I1 [Hac H1 H3] Hph Hph'.
  pose proof (H3 t) as H3t. rewrite Hph in H3t.
  split; proj.
  - rewrite ac_snoc, Hac. simpl. unfold ac_check.
    destruct (ac_state None (wire s)) as [c0|] eqn:Hc0; [|reflexivity].
    cbn [e_kind]. specialize (H1 c0 eq_refl). destruct fk; simpl in H3t.
    + congruence.
    + reflexivity.
    + destruct H3t as [_ H3t]. destruct (H3t c0 eq_refl) as [A [B C]].
      unfold same_frame. cbn [e_tid e_call e_frame]. rewrite A, B, C, !Nat.eqb_refl. reflexivity.
  - intros c0. rewrite ac_state_snoc. unfold ac_next.
    destruct (ac_state None (wire s)) as [c1|] eqn:Hc1.
    + intros _. eapply H1; eauto.
    + unfold is_close. cbn [e_kind]. destruct fk; try discriminate. intros _. simpl in H3t. tauto.
  - intros t0. split_thr t0 t.
    + rewrite ac_state_snoc. unfold ac_next.
      destruct Hph' as [-> | ->]; simpl; auto.
      destruct fk; simpl in *; auto. destruct H3t as [A B]. split; [exact A|].
      intros c0. destruct (ac_state None (wire s)) as [c1|] eqn:Hc1.
      * intros E; injection E as <-. apply B; reflexivity.
      * cbn. intros E; injection E as <-. cbn. auto.
    + eapply acrel_other; eauto. rewrite Hph; exact I.
Qed.

Lemma inv3_step : forall s e s', Inv1 s -> Inv3 s -> step s e = Some s' -> Inv3 s'.
Proof.
  intros s e s' I1 I3 H. pose proof I3 as [Hac H1 H3]. destruct e as [t alt| |t].
  2:{ step_cases H. split; proj; auto. }
  all: pose proof (H3 t) as H3t.
  all: step_cases H;
  match goal with
  | |- context[wire _ ++ _] => idtac
  | _ => split; proj;
     [ exact Hac
     | intros c0 Hc0; first [reflexivity | eapply H1; eauto]
     | intros t0; split_thr t0 t;
       [ simpl; auto
       | first [ exact (H3 t0) | eapply acrel_other; eauto; rw_ph t; exact I ] ] ]
  end.
  - split; [reflexivity|]. intros c0 Hc0. apply H1 in Hc0. congruence.
  - eapply inv3_emit; eauto.
  - eapply inv3_emit; eauto.
Qed.

(* ---------------- invariant 4: messages ---------------- *)
Definition owned (t n : nat) (o : option wev) : Prop := exists x, o = Some x /\ e_tid x = t /\ e_call x = n.
Definition mrel (p : phase) (n t : nat) (o : option wev) : Prop :=
  match p with
  | WantFrame FData _ _ fi | Check FData _ _ fi | Emit FData _ _ fi 0 => if Nat.eqb fi 0 then o = None else owned t n o
  | Emit FData _ _ _ (S _) => owned t n o
  | Unlock FData k _ _ => if Nat.eqb k 0 then o = None else owned t n o
  | EndMsg => o = None
  | _ => False
  end.
Record Inv4 (s : st) : Prop := {
  i_mu : msgs_unmixed None (wire s) = true;
  (* the holder of msgWriter.mu may be a thread that gave up a streamed message (EGiveUp): it is then outside the data phases, no
     thread is inside them (Inv1), and no data frame can be written any more; mrel is only claimed for a holder inside them *)
  i_mu1 : closed s = false -> close_sent s = false -> forall t, msg_mu s = Some t -> dataph (ph (thrs s t)) ->
          mrel (ph (thrs s t)) (ncall (thrs s t)) t (mu_state None (wire s));
  i_mu2 : closed s = false -> close_sent s = false -> msg_mu s = None -> mu_state None (wire s) = None }.

Lemma inv4_init : forall c progs, Inv4 (init c progs).
Proof. intros; split; cbn; auto; discriminate. Qed.

Lemma owned_check : forall t n o e, owned t n o -> e_tid e = t -> e_call e = n -> mu_check o e = true.
Proof.
  intros t n o e [x [-> [A B]]] Et Ec. unfold mu_check. destruct (is_data e); [|reflexivity].
  unfold same_msg. rewrite A, B, Et, Ec, !Nat.eqb_refl. reflexivity.
Qed.

Lemma inv4_emit : forall s t fk k parts fi p l ph', Inv1 s -> Inv3 s -> Inv4 s -> closed s = false ->
  ph (thrs s t) = Emit fk k parts fi p ->
  ((ph' = Emit fk k parts fi (S p) /\ l = false) \/ (ph' = Unlock fk k parts fi /\ l = true)) ->
  Inv4 {| msg_mu := msg_mu s; frame_mu := frame_mu s; closed := false; closing := closing s; close_sent := close_sent s; client := client s;
          thrs := upd (thrs s) t (set_ph (thrs s t) ph');
          wire := wire s ++ [{| e_tid := t; e_call := ncall (thrs s t); e_frame := fi; e_kind := fk; e_first := Nat.eqb fi 0;
                                e_fin := Nat.eqb k 0; e_part := p; e_last := l |}] |}.
Proof.
  intros s t fk k parts fi p l ph' [Hm Hd Hf] [Hac A1 A3] [Hmu H1 H2] Hc Hph Hph'.
  pose proof (A3 t) as A3t. rewrite Hph in A3t. pose proof (Hd t) as Hdt. rewrite Hph in Hdt.
  destruct fk.
  - simpl in A3t, Hdt. specialize (Hdt I). pose proof (H1 Hc A3t t Hdt) as H1t. rewrite Hph in H1t. specialize (H1t I).
    split; proj.
    + rewrite mu_snoc, Hmu. simpl. destruct p as [|q]; simpl in H1t.
      * destruct (fi =? 0) eqn:Hfi.
        -- rewrite H1t. unfold mu_check. simpl. reflexivity.
        -- eapply owned_check; eauto.
      * eapply owned_check; eauto.
    + intros _ _ t0 Hmu0 _. assert (t0 = t) as -> by congruence. rewrite upd_same. cbn [ph ncall set_ph].
      rewrite mu_state_snoc. unfold mu_next. cbn [is_data e_kind e_fin e_last].
      destruct Hph' as [[-> ->] | [-> ->]].
      * rewrite andb_false_r. simpl. eexists; split; [reflexivity|]. simpl; auto.
      * rewrite andb_true_r. simpl. destruct (k =? 0); [reflexivity|]. eexists; split; [reflexivity|]. simpl; auto.
    + intros _ _ Hmu0. congruence.
  - assert (forall o e, e_kind e = FPing -> mu_check o e = true /\ mu_next o e = o) as K.
    { intros o e E. unfold mu_check, mu_next, is_data. rewrite E. auto. }
    split; proj.
    + rewrite mu_snoc, Hmu. simpl. apply K. reflexivity.
    + intros _ Hcs t0 Hmu0. rewrite mu_state_snoc. match goal with |- context[mu_next ?o ?e] => rewrite (proj2 (K o e eq_refl)) end.
      specialize (H1 Hc Hcs t0 Hmu0). split_thr t0 t.
      * destruct Hph' as [[-> _] | [-> _]]; intros [].
      * exact H1.
    + intros _ Hcs Hmu0. rewrite mu_state_snoc. match goal with |- context[mu_next ?o ?e] => rewrite (proj2 (K o e eq_refl)) end. auto.
  - assert (forall o e, e_kind e = FClose -> mu_check o e = true /\ mu_next o e = o) as K.
    { intros o e E. unfold mu_check, mu_next, is_data. rewrite E. auto. }
    split; proj.
    + rewrite mu_snoc, Hmu. simpl. apply K. reflexivity.
    + intros _ Hcs t0 Hmu0. rewrite mu_state_snoc. match goal with |- context[mu_next ?o ?e] => rewrite (proj2 (K o e eq_refl)) end.
      specialize (H1 Hc Hcs t0 Hmu0). split_thr t0 t.
      * destruct Hph' as [[-> _] | [-> _]]; intros [].
      * exact H1.
    + intros _ Hcs Hmu0. rewrite mu_state_snoc. match goal with |- context[mu_next ?o ?e] => rewrite (proj2 (K o e eq_refl)) end. auto.
Qed.

Lemma inv4_step : forall s e s', Inv1 s -> Inv3 s -> Inv4 s -> step s e = Some s' -> Inv4 s'.
Proof.
  intros s e s' I1 I3 I4 H. pose proof I1 as [Hm Hd Hf]. pose proof I4 as [Hmu H1 H2]. destruct e as [t alt| |t].
  2:{ step_cases H. split; proj; auto; discriminate. }
  all: pose proof (Hd t) as Hdt; pose proof (Hf t) as Hft.
  all: step_cases H;
  match goal with
  | |- context[wire _ ++ _] => idtac
  | _ => split; proj;
     [ exact Hmu
     | intros Hc Hcs t0 Hmu0; try congruence;
       assert (close_sent s = false) as Hcs0 by congruence;
       pose proof (H1 ltac:(congruence) Hcs0 t) as H1t; pose proof (H2 ltac:(congruence) Hcs0) as H2'; specialize (H1 ltac:(congruence) Hcs0 t0);
       split_thr t0 t; try rw_ph t; simpl in *;
       repeat match goal with E : (_ =? _) = _ |- _ => rewrite E in H1t end;
       try (intuition congruence)
     | intros Hc Hcs Hmu0; try congruence;
       assert (close_sent s = false) as Hcs0 by congruence;
       pose proof (H1 ltac:(congruence) Hcs0 t) as H1t; pose proof (H2 ltac:(congruence) Hcs0) as H2';
       try rw_ph t; simpl in *; try (intuition congruence) ]
  end.
  - eapply inv4_emit; eauto.
  - eapply inv4_emit; eauto.
  - (* EGiveUp, Conn.Write's single frame: msgWriter.mu is released by its holder before anything of the message was written *)
    apply andb_prop in Heqb as [_ E]. rewrite E in H1t. tauto.
Qed.

(* ---------------- invariant 5: program order ---------------- *)
Definition bound (p : phase) (n : nat) (a : wev) : Prop :=
  match p with
  | Idle | WantMsg _ _ => e_call a < n
  | WantFrame _ _ _ fi | Check _ _ _ fi => e_call a < n \/ (e_call a = n /\ e_frame a < fi)
  | Emit _ _ _ fi p => e_call a < n \/ (e_call a = n /\ (e_frame a < fi \/ (e_frame a = fi /\ e_part a < p)))
  | Unlock _ _ _ fi => e_call a < n \/ (e_call a = n /\ e_frame a <= fi)
  | _ => e_call a <= n
  end.
Record Inv5 (s : st) : Prop := {
  i_to : thread_order (wire s);
  i_to1 : forall a, In a (wire s) -> bound (ph (thrs s (e_tid a))) (ncall (thrs s (e_tid a))) a }.

Lemma inv5_init : forall c progs, Inv5 (init c progs).
Proof.
  intros; split; cbn.
  - intros i j a b _ Hi. destruct i; discriminate.
  - intros a [].
Qed.

Lemma to_snoc : forall w e, thread_order w -> (forall a, In a w -> e_tid a = e_tid e -> lex_lt a e) -> thread_order (w ++ [e]).
Proof.
  intros w e Hw He i j a b Hij Hi Hj Ht.
  destruct (lt_dec j (length w)) as [L|L].
  - rewrite nth_error_app1 in Hi by lia. rewrite nth_error_app1 in Hj by lia. exact (Hw i j a b Hij Hi Hj Ht).
  - rewrite nth_error_app2 in Hj by lia.
    destruct (j - length w) as [|d] eqn:Hd.
    + cbn in Hj. injection Hj as <-. rewrite nth_error_app1 in Hi by lia.
      apply He; [eapply nth_error_In; eauto|assumption].
    + cbn in Hj. destruct d; discriminate.
Qed.

Lemma inv5_step : forall s e s', Inv5 s -> step s e = Some s' -> Inv5 s'.
Proof.
  intros s e s' [Hto H1] H. destruct e as [t alt| |t].
  2:{ step_cases H. split; proj; auto. }
  all: step_cases H;
  match goal with
  | |- context[wire _ ++ _] => idtac
  | _ => split; proj;
     [ exact Hto
     | intros a Hin; specialize (H1 a Hin); destruct (Nat.eq_dec (e_tid a) t) as [E|N];
       [ rewrite E in *; rewrite upd_same; rw_ph t; simpl in *; lia
       | rewrite upd_other by assumption; exact H1 ] ]
  end.
  all: split; proj.
  all: try (apply to_snoc; [exact Hto|]; cbn [e_tid]; intros a Hin Ha; specialize (H1 a Hin); rewrite Ha in H1; rw_ph t;
            unfold lex_lt; simpl in *; lia).
  all: intros a Hin; apply in_app_or in Hin; destruct Hin as [Hin|[<-|[]]];
       [ specialize (H1 a Hin); destruct (Nat.eq_dec (e_tid a) t) as [E|N];
         [ rewrite E in *; rewrite upd_same; rw_ph t; simpl in *; lia
         | rewrite upd_other by assumption; exact H1 ]
       | cbn [e_tid]; rewrite upd_same; simpl; lia ].
Qed.

(* ---------------- the invariant, lifted to all schedules ---------------- *)
Record Inv (s : st) : Prop := { inv_1 : Inv1 s; inv_2 : Inv2 s; inv_3 : Inv3 s; inv_4 : Inv4 s; inv_5 : Inv5 s }.

Lemma inv_init : forall c progs, Inv (init c progs).
Proof. intros; split; [apply inv1_init|apply inv2_init|apply inv3_init|apply inv4_init|apply inv5_init]. Qed.

Lemma inv_step : forall s e s', Inv s -> step s e = Some s' -> Inv s'.
Proof.
  intros s e s' [A B C D E] H; split.
  - eapply inv1_step; eauto.
  - eapply inv2_step; eauto.
  - eapply inv3_step; eauto.
  - eapply inv4_step; eauto.
  - eapply inv5_step; eauto.
Qed.

Lemma inv_run : forall sched s, Inv s -> Inv (run s sched).
Proof.
  induction sched as [|e r IH]; intros s Hs; cbn [run]; [exact Hs|].
  destruct (step s e) as [s'|] eqn:Hst; apply IH; [eapply inv_step; eauto|exact Hs].
Qed.

Lemma inv_reach : forall is_client progs sched, Inv (run (init is_client progs) sched).
Proof. intros; apply inv_run, inv_init. Qed.

Theorem sched_frames_atomic : forall is_client progs sched, frames_atomic None (wire (run (init is_client progs) sched)) = true.
Proof. intros; apply i_fa, inv_2, inv_reach. Qed.
Print Assumptions sched_frames_atomic.

Theorem sched_msgs_unmixed : forall is_client progs sched, msgs_unmixed None (wire (run (init is_client progs) sched)) = true.
Proof. intros; apply i_mu, inv_4, inv_reach. Qed.
Print Assumptions sched_msgs_unmixed.

Theorem sched_after_close : forall is_client progs sched, after_close None (wire (run (init is_client progs) sched)) = true.
Proof. intros; apply i_ac, inv_3, inv_reach. Qed.
Print Assumptions sched_after_close.

Theorem sched_thread_order : forall is_client progs sched, thread_order (wire (run (init is_client progs) sched)).
Proof. intros; apply i_to, inv_5, inv_reach. Qed.
Print Assumptions sched_thread_order.

Theorem sched_mutex : forall is_client progs sched t, let s := run (init is_client progs) sched in
  (match ph (thrs s t) with Check _ _ _ _ | Emit _ _ _ _ _ | Unlock _ _ _ _ | FailFrame _ _ => True | _ => False end) -> frame_mu s = Some t.
Proof. intros is_client progs sched t s H. apply (i_mutex s (inv_1 s (inv_reach is_client progs sched)) t). exact H. Qed.
Print Assumptions sched_mutex.
Print Assumptions sched_closed_monotone.
Print Assumptions sched_close_sent_monotone.
