(* Proofs/OriginP.v — security lemmas about the Origin decision model. *)
From Coq Require Import List NArith Lia ZArith ZifyN ZifyNat ZifyBool Bool.
From WS Require Import Base.Words Model.Fold Model.Glob Model.Url Model.Origin.
Import ListNotations.
Open Scope N_scope.
Ltac Zify.zify_post_hook ::= Z.div_mod_to_equations.

(* ------------------------------------------------------------------ *)
(* origin_absent                                                        *)

Theorem origin_absent : forall host pats,
  origin_authenticate host None pats = OAllow /\ origin_authenticate host (Some []) pats = OAllow.
Proof. intros; split; reflexivity. Qed.
Print Assumptions origin_absent.

(* ------------------------------------------------------------------ *)
(* origin_decision                                                      *)

Lemma origin_patterns_spec h pats :
  origin_patterns h pats = OAllow <->
  exists pre p post, pats = pre ++ p :: post /\
    Forall (fun q => glob_match (fold_lower q) (fold_lower h) = GlobOk false) pre /\
    glob_match (fold_lower p) (fold_lower h) = GlobOk true.
Proof.
  induction pats as [|q pats IH]; cbn [origin_patterns].
  - split; [discriminate|]. intros (pre & p & post & E & _). destruct pre; discriminate.
  - destruct (glob_match (fold_lower q) (fold_lower h)) as [[|]|] eqn:G.
    + split; [intros _|reflexivity]. exists [], q, pats. repeat split; auto.
    + rewrite IH. split.
      * intros (pre & p & post & E & F & M). exists (q :: pre), p, post. subst pats.
        split; [reflexivity|]. split; [constructor; assumption|assumption].
      * intros (pre & p & post & E & F & M). destruct pre as [|q' pre]; cbn [app] in E.
        -- injection E as -> ->. congruence.
        -- injection E as -> ->. exists pre, p, post. inversion F; subst. auto.
    + split; [discriminate|]. intros (pre & p & post & E & F & M).
      destruct pre as [|q' pre]; cbn [app] in E; injection E as -> ->.
      * congruence.
      * inversion F; subst. congruence.
Qed.

Theorem origin_decision : forall host o pats, o <> [] ->
  (origin_authenticate host (Some o) pats = OAllow <->
   exists h, url_host_of o = Some h /\
     (fold_eq host h = true \/
      exists pre p post, pats = pre ++ p :: post /\
        Forall (fun q => glob_match (fold_lower q) (fold_lower h) = GlobOk false) pre /\
        glob_match (fold_lower p) (fold_lower h) = GlobOk true)).
Proof.
  intros host o pats Ho. destruct o as [|c o]; [congruence|].
  unfold origin_authenticate. destruct (url_host_of (c :: o)) as [h|].
  - destruct (fold_eq host h) eqn:E.
    + split; [intros _; exists h; auto|reflexivity].
    + rewrite origin_patterns_spec. split.
      * intro H. exists h. auto.
      * intros (h' & Eh & [F|H]); injection Eh as <-; [congruence|assumption].
  - split; [discriminate|]. intros (h & Eh & _). discriminate.
Qed.
Print Assumptions origin_decision.

(* ------------------------------------------------------------------ *)
(* glob_literal                                                         *)

Definition lit (p : bytes) := forall c, In c p -> c <> 42 /\ c <> 63 /\ c <> 91 /\ c <> 92.

Lemma lit_cons c p : lit (c :: p) -> (c <> 42 /\ c <> 63 /\ c <> 91 /\ c <> 92) /\ lit p.
Proof. intro H. split; [apply H; left; reflexivity|]. intros d Hd. apply H. right. assumption. Qed.

Lemma neqb (a b : N) : a <> b -> (a =? b) = false.
Proof. intro H. apply N.eqb_neq. assumption. Qed.

Lemma glob_scan_lit p : forall inr, lit p -> glob_scan inr p = (p, []).
Proof.
  induction p as [|c p IH]; intros inr L; cbn [glob_scan]; [reflexivity|].
  apply lit_cons in L. destruct L as [(H42 & H63 & H91 & H92) L].
  rewrite (neqb _ _ H92), (neqb _ _ H91), (neqb _ _ H42). cbn [andb].
  destruct (c =? 93); rewrite IH by assumption; reflexivity.
Qed.

Lemma glob_strip_lit c p : c <> 42 -> glob_strip_stars (c :: p) = (false, c :: p).
Proof. intro H. cbn [glob_strip_stars]. rewrite (neqb _ _ H). reflexivity. Qed.

(* literal prefix stripping *)
Fixpoint lit_prefix (p s : bytes) : option bytes :=
  match p with
  | [] => Some s
  | c :: p' => match s with
               | [] => None
               | d :: s' => if c =? d then lit_prefix p' s' else None
               end
  end.

Lemma glob_chunk_lit_failed p : forall fuel s, lit p -> (length p <= fuel)%nat ->
  glob_chunk fuel p s true = GlobCFail.
Proof.
  induction p as [|c p IH]; intros fuel s L F; [destruct fuel; reflexivity|].
  apply lit_cons in L. destruct L as [(H42 & H63 & H91 & H92) L].
  destruct fuel as [|f]; [cbn [length] in F; lia|]. cbn [length] in F.
  cbn [glob_chunk orb]. rewrite (neqb _ _ H91), (neqb _ _ H63), (neqb _ _ H92).
  apply IH; [assumption|lia].
Qed.

Lemma glob_chunk_lit p : forall fuel s, lit p -> (length p <= fuel)%nat ->
  glob_chunk fuel p s false =
  match lit_prefix p s with Some t => GlobCOk t | None => GlobCFail end.
Proof.
  induction p as [|c p IH]; intros fuel s L F; [destruct fuel; reflexivity|].
  apply lit_cons in L. destruct L as [(H42 & H63 & H91 & H92) L].
  destruct fuel as [|f]; [cbn [length] in F; lia|]. cbn [length] in F.
  cbn [glob_chunk orb lit_prefix]. rewrite (neqb _ _ H91), (neqb _ _ H63), (neqb _ _ H92).
  destruct s as [|d s]; cbn [glob_is_nil].
  - apply glob_chunk_lit_failed; [assumption|lia].
  - destruct (c =? d); cbn [negb].
    + apply IH; [assumption|lia].
    + apply glob_chunk_lit_failed; [assumption|lia].
Qed.

Lemma lit_prefix_nil_iff p : forall s, lit_prefix p s = Some [] <-> p = s.
Proof.
  induction p as [|c p IH]; intros [|d s]; cbn [lit_prefix].
  - split; reflexivity.
  - split; discriminate.
  - split; discriminate.
  - destruct (N.eqb_spec c d).
    + subst. rewrite IH. split; [intros ->; reflexivity|intro E; injection E; auto].
    + split; [discriminate|]. intro E. injection E. congruence.
Qed.

Lemma glob_go_nil f n : glob_go f [] n = GlobOk (glob_is_nil n).
Proof. destruct f; reflexivity. Qed.

Theorem glob_literal : forall p h,
  (forall c, In c p -> c <> 42 /\ c <> 63 /\ c <> 91 /\ c <> 92) ->
  glob_match p h = GlobOk (if list_eq_dec N.eq_dec p h then true else false).
Proof.
  intros p h L. fold (lit p) in L. unfold glob_match.
  destruct p as [|c p].
  - cbn [length glob_go]. destruct h; cbn [glob_is_nil];
      destruct (list_eq_dec N.eq_dec); congruence.
  - pose proof (lit_cons _ _ L) as [(H42 & _) _].
    cbn [length glob_go]. rewrite (glob_strip_lit _ _ H42), (glob_scan_lit _ false L).
    cbn [andb glob_is_nil negb orb].
    rewrite (glob_chunk_lit _ _ _ L (le_n _)).
    destruct (lit_prefix (c :: p) h) as [t|] eqn:E.
    + destruct t as [|x t]; cbn [glob_is_nil].
      * apply lit_prefix_nil_iff in E. cbn [orb]. rewrite glob_go_nil. cbn [glob_is_nil].
        destruct (list_eq_dec N.eq_dec); congruence.
      * destruct (list_eq_dec N.eq_dec (c :: p) h) as [Eq|]; [|reflexivity].
        apply lit_prefix_nil_iff in Eq. congruence.
    + destruct (list_eq_dec N.eq_dec (c :: p) h) as [Eq|]; [|reflexivity].
      apply lit_prefix_nil_iff in Eq. congruence.
Qed.
Print Assumptions glob_literal.

(* ------------------------------------------------------------------ *)
(* url_host_no_delims                                                   *)

(* '/', '?', '#', '@' *)
Definition delim (c : N) : bool := (c =? 47) || (c =? 63) || (c =? 35) || (c =? 64).
Definition clean (h : bytes) := Forall (fun c => delim c = false) h.

Lemma host_ok_no_delim c : url_should_escape_host c = false -> delim c = false.
Proof.
  intro H. unfold delim.
  destruct (N.eqb_spec c 47); [subst; vm_compute in H; discriminate|].
  destruct (N.eqb_spec c 63); [subst; vm_compute in H; discriminate|].
  destruct (N.eqb_spec c 35); [subst; vm_compute in H; discriminate|].
  destruct (N.eqb_spec c 64); [subst; vm_compute in H; discriminate|].
  reflexivity.
Qed.

Lemma big_no_delim c : 128 <= c -> delim c = false.
Proof. intro H. unfold delim. lia. Qed.

Lemma plain_ok_no_delim m c : m <> UrlOther -> url_plain_ok m c = true -> delim c = false.
Proof.
  intros Hm H.
  assert (H' : negb ((c <? 128) && url_should_escape_host c) = true) by (destruct m; [exact H|exact H|congruence]).
  apply negb_true_iff, andb_false_iff in H'. destruct H' as [H'|H'].
  - apply big_no_delim. lia.
  - apply host_ok_no_delim. assumption.
Qed.

Lemma pct_ok_no_delim m h1 h2 : m <> UrlOther -> url_pct_ok m h1 h2 = true ->
  delim (16 * url_unhex h1 + url_unhex h2) = false.
Proof.
  intros Hm H. destruct m; [| |congruence]; cbn [url_pct_ok] in H.
  - apply negb_true_iff, andb_false_iff in H. destruct H as [H|H].
    + apply big_no_delim. lia.
    + apply negb_false_iff, andb_true_iff in H. destruct H as [E1 E2].
      apply N.eqb_eq in E1, E2. subst. reflexivity.
  - apply negb_true_iff in H. apply andb_false_iff in H. destruct H as [H|H].
    + apply andb_false_iff in H. destruct H as [H|H].
      * apply negb_false_iff, andb_true_iff in H. destruct H as [E1 E2].
        apply N.eqb_eq in E1, E2. subst. reflexivity.
      * apply negb_false_iff, N.eqb_eq in H. rewrite H. reflexivity.
    + apply host_ok_no_delim. assumption.
Qed.

Lemma url_unescape_clean m : m <> UrlOther -> forall n s t, (length s <= n)%nat ->
  url_unescape m s = Some t -> clean t.
Proof.
  intros Hm. induction n as [|n IH]; intros s t Hl H.
  - destruct s; [|cbn [length] in Hl; lia]. cbn [url_unescape] in H. injection H as <-. constructor.
  - destruct s as [|c r]; [cbn [url_unescape] in H; injection H as <-; constructor|].
    cbn [url_unescape] in H. cbn [length] in Hl.
    destruct (c =? 37).
    + destruct r as [|h1 [|h2 r']]; try discriminate.
      destruct (url_ishex h1 && url_ishex h2 && url_pct_ok m h1 h2) eqn:E; [|discriminate].
      destruct (url_unescape m r') as [t'|] eqn:E'; [|discriminate].
      injection H as <-. apply andb_true_iff in E. destruct E as [_ E].
      constructor; [apply (pct_ok_no_delim m); assumption|].
      apply (IH r'); [cbn [length] in Hl; lia|assumption].
    + destruct (url_plain_ok m c) eqn:E; [|discriminate].
      destruct (url_unescape m r) as [t'|] eqn:E'; [|discriminate].
      injection H as <-. constructor; [apply (plain_ok_no_delim m); assumption|].
      apply (IH r); [lia|assumption].
Qed.

Lemma url_unescape_host_clean s t : url_unescape UrlHost s = Some t -> clean t.
Proof. apply (url_unescape_clean UrlHost ltac:(discriminate) (length s)); apply le_n. Qed.
Lemma url_unescape_zone_clean s t : url_unescape UrlZone s = Some t -> clean t.
Proof. apply (url_unescape_clean UrlZone ltac:(discriminate) (length s)); apply le_n. Qed.

Lemma url_parse_host_clean s h : url_parse_host s = Some h -> clean h.
Proof.
  unfold url_parse_host. destruct (url_starts 91 s).
  - destruct (url_rcut 93 s) as [[pre post]|]; [|discriminate].
    destruct (negb (url_valid_port post)); [discriminate|].
    destruct (url_zone_split pre) as [[h1 z]|].
    + destruct (url_unescape UrlHost h1) as [a|] eqn:Ea; [|discriminate].
      destruct (url_unescape UrlZone z) as [b|] eqn:Eb; [|discriminate].
      destruct (url_unescape UrlHost (93 :: post)) as [c|] eqn:Ec; [|discriminate].
      intro H. injection H as <-.
      apply url_unescape_host_clean in Ea, Ec. apply url_unescape_zone_clean in Eb.
      unfold clean in *. rewrite !Forall_app. auto.
    + apply url_unescape_host_clean.
  - destruct (url_rcut 58 s) as [[pre post]|].
    + destruct (forallb url_is_digit post); [apply url_unescape_host_clean|discriminate].
    + apply url_unescape_host_clean.
Qed.

Lemma url_parse_authority_clean s h : url_parse_authority s = Some h -> clean h.
Proof.
  unfold url_parse_authority. destruct (url_rcut 64 s) as [[ui hs]|].
  - destruct (url_parse_host hs) as [host|] eqn:E; [|discriminate].
    apply url_parse_host_clean in E.
    destruct (negb (url_valid_userinfo ui)); [discriminate|].
    destruct (url_cut 58 ui) as [un [pw|]].
    + destruct (url_unescape_ok un && url_unescape_ok pw); [|discriminate].
      intro H; injection H as <-; assumption.
    + destruct (url_unescape_ok ui); [|discriminate].
      intro H; injection H as <-; assumption.
  - apply url_parse_host_clean.
Qed.

Lemma clean_nil : clean []. Proof. constructor. Qed.

Lemma url_parse_clean s h : url_parse s = Some h -> clean h.
Proof.
  unfold url_parse. destruct (url_has_ctl s); [discriminate|].
  destruct (url_is_star s); [intro H; injection H as <-; apply clean_nil|].
  destruct (url_get_scheme true s) as [sch|]; [|discriminate].
  set (rest := fst (url_cut 63 _)).
  set (has_scheme := match sch with Some _ => true | None => false end).
  assert (A : forall h,
    (if (has_scheme || negb (url_has_prefix3 rest)) && url_has_prefix2 rest
     then let '(authority, path) := url_split_slash (skipn 2 rest) in
          match url_parse_authority authority with
          | Some h0 => if url_unescape_ok path then Some h0 else None
          | None => None
          end
     else if url_unescape_ok rest then Some [] else None) = Some h -> clean h).
  { intros h0. destruct ((has_scheme || negb (url_has_prefix3 rest)) && url_has_prefix2 rest).
    - destruct (url_split_slash (skipn 2 rest)) as [authority path].
      destruct (url_parse_authority authority) as [h1|] eqn:E; [|discriminate].
      apply url_parse_authority_clean in E.
      destruct (url_unescape_ok path); [|discriminate]. intro H; injection H as <-; assumption.
    - destruct (url_unescape_ok rest); [|discriminate]. intro H; injection H as <-; apply clean_nil. }
  destruct (url_has_prefix1 rest); [apply A|].
  destruct has_scheme; [intro H; injection H as <-; apply clean_nil|].
  destruct (url_mem 58 (fst (url_split_slash rest))); [discriminate|apply A].
Qed.

Lemma clean_not_in h : clean h -> ~ In 47 h /\ ~ In 63 h /\ ~ In 35 h /\ ~ In 64 h.
Proof.
  intro C. unfold clean in C. rewrite Forall_forall in C.
  repeat split; intro I; apply C in I; vm_compute in I; discriminate.
Qed.

(* The host Go hands to the Origin check never contains '/', '?', '#', '@':
   path, query, fragment and userinfo can never supply (part of) the host. *)
Theorem url_host_no_delims : forall s h, url_host_of s = Some h ->
  ~ In 47 h /\ ~ In 63 h /\ ~ In 35 h /\ ~ In 64 h.
Proof.
  intros s h H. apply clean_not_in. unfold url_host_of in H.
  destruct (url_cut 35 s) as [u frag].
  destruct (url_parse u) as [h0|] eqn:E; [|discriminate].
  apply url_parse_clean in E.
  destruct frag as [f|].
  - destruct (url_is_nil f || url_unescape_ok f); [|discriminate]. injection H as <-; assumption.
  - injection H as <-; assumption.
Qed.
Print Assumptions url_host_no_delims.
