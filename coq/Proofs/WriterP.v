(* Proofs/WriterP.v — everything the Writer model emits parses back to the frames it wrote and is
   a conformant RFC 6455 / RFC 7692 sender stream, for every program, role, option set, threshold,
   mask-key supply and EVERY behaviour of the compressor oracle (any chunking whatsoever). *)
From Coq Require Import List NArith Lia ZArith ZifyN ZifyNat ZifyBool Bool.
From WS Require Import Base.Words Gen.Consts Gen.CloseCode Model.Mask Model.Frame Model.Proto Model.CloseCodec Model.Writer Model.RefDecoder
  Proofs.MaskP Proofs.FrameP Proofs.CloseCodecP.
Import ListNotations.
Open Scope N_scope.
Ltac Zify.zify_post_hook ::= Z.div_mod_to_equations.

Definition small (p : bytes) : Prop := N.of_nat (length p) < 9223372036854775808.   (* Go: len fits int64 *)
Definition wf_payload (p : bytes) : Prop := wf_bytes p /\ small p.

Definition to_pf (f : frame) : pframe :=
  {| pf_hdr := fst f; pf_payload := snd f; pf_hlen := length (enc_hdr (fst f)) |}.
Definition wf_frame (f : frame) : Prop :=
  wf_hdr (fst f) /\ wf_bytes (snd f) /\ h_plen (fst f) = N.of_nat (length (snd f)).

(* ------------------------------------------------------------------ parse ∘ encode *)
Lemma enc_hdr_nonempty h : exists a b r, enc_hdr h = a :: b :: r.
Proof. unfold enc_hdr. cbn [app]. eauto. Qed.

Lemma hdr_len_enc h x : h_plen h < 9223372036854775808 -> hdr_len (enc_hdr h ++ x) h = length (enc_hdr h).
Proof. intro Hp. rewrite enc_hdr_length. unfold enc_hdr. cbn [app hdr_len]. rewrite enc_b1_mod128. unfold ext_len.
  destruct (N.ltb_spec 65535 (h_plen h)); destruct (N.ltb_spec 125 (h_plen h)); destruct (N.leb_spec (h_plen h) 125); destruct (N.leb_spec (h_plen h) 65535); try lia.
  - reflexivity.
  - reflexivity.
  - destruct (N.eqb_spec (h_plen h) 126); [lia|]. destruct (N.eqb_spec (h_plen h) 127); [lia|]. reflexivity. Qed.

Lemma take_N_app (a b : bytes) : take_N (a ++ b) (N.of_nat (length a)) = Some (a, b).
Proof. rewrite take_N_spec. rewrite app_length. destruct (N.leb_spec (N.of_nat (length a)) (N.of_nat (length a + length b))); [|lia].
  rewrite Nat2N.id. rewrite firstn_app_exact by reflexivity. rewrite skipn_app_exact by reflexivity. reflexivity. Qed.

Lemma parse_enc_frames : forall fs fuel, Forall wf_frame fs ->
  (length (concat (map enc_frame fs)) < fuel)%nat ->
  parse_frames fuel (concat (map enc_frame fs)) = (map to_pf fs, PClean).
Proof.
  induction fs as [|[h p] fs IH]; intros fuel Hw Hf.
  - destruct fuel; [cbn in Hf; lia|]. reflexivity.
  - inversion Hw as [|? ? (Hh & Hp & Hl) Hw']; subst. cbn [fst snd] in *.
    destruct fuel; [lia|].
    cbn [map concat]. set (rest := concat (map enc_frame fs)) in *.
    unfold enc_frame at 1. rewrite <- app_assoc.
    cbn [parse_frames].
    destruct (enc_hdr_nonempty h) as (a & b & r & E).
    set (body := if h_masked h then mask_spec (h_key h) p else p).
    assert (Lb : length body = length p) by (unfold body; destruct (h_masked h); [apply mask_spec_length|reflexivity]).
    destruct (enc_hdr h ++ body ++ rest) as [|x0 l0] eqn:EI; [rewrite E in EI; discriminate|].
    rewrite <- EI.
    rewrite dec_enc by assumption.
    rewrite Hl, <- Lb, take_N_app.
    rewrite IH; [| assumption |].
    + f_equal. f_equal. unfold to_pf. cbn [fst snd]. f_equal.
      * unfold body. destruct (h_masked h); [apply mask_involution|reflexivity].
      * apply hdr_len_enc. destruct Hh as (_ & Hh & _). exact Hh.
    + cbn [map concat] in Hf. fold rest in Hf. unfold enc_frame in Hf. rewrite !app_length in Hf. rewrite E in Hf. cbn [length] in Hf. lia.
Qed.

Theorem parse_enc : forall fs, Forall wf_frame fs -> parse (concat (map enc_frame fs)) = (map to_pf fs, PClean).
Proof. intros. unfold parse. apply parse_enc_frames; auto. Qed.

(* ------------------------------------------------------------------ conformance as a fold *)
Fixpoint conf (sender : role) (co : option copts) (opened : bool) (fs : list pframe) : option bool :=
  match fs with
  | [] => Some opened
  | f :: r => match frame_ok sender co opened f with Some o => conf sender co o r | None => None end
  end.

Lemma conf_app sender co : forall a b o, conf sender co o (a ++ b) = match conf sender co o a with Some o' => conf sender co o' b | None => None end.
Proof. induction a as [|f a IH]; intros b o; cbn [app conf]; auto. destruct (frame_ok sender co o f); auto. Qed.

Lemma wf_frames_conf sender co : forall fs o, wf_frames sender co o fs = match conf sender co o fs with Some _ => true | None => false end.
Proof. induction fs as [|f fs IH]; intro o; cbn [wf_frames conf]; auto. destruct (frame_ok sender co o f); auto. Qed.

Section WriterInv.
Variable keys : nat -> key.
Variable dz : list dzop -> list bytes.
Variable cfg : wcfg.
Hypothesis keys_wf : forall i, wf_key (keys i).
Hypothesis dz_wf : forall h, Forall wf_payload (dz h).

Local Notation role := (wc_role cfg).
Local Notation co := (wc_co cfg).

Definition frames_pf (s : wst) := map to_pf (w_out s).

(* the header writeFrame builds is well-formed and its frame passes every per-frame clause *)
Lemma write_frame_out s fin fl opc p :
  w_out (write_frame_raw keys cfg s fin fl opc p) = w_out s ++
   [({| h_fin := fin; h_rsv1 := fl && is_data_first opc; h_rsv2 := false; h_rsv3 := false; h_opc := opc;
        h_masked := role_eqb role Client; h_key := if role_eqb role Client then keys (w_nkey s) else zero_key;
        h_plen := N.of_nat (length p) |}, p)].
Proof. reflexivity. Qed.

Lemma zero_key_wf : wf_key zero_key. Proof. unfold zero_key, wf_key. lia. Qed.

Lemma mk_frame_wf s fin fl opc p : opc < 16 -> wf_payload p ->
  wf_frame ({| h_fin := fin; h_rsv1 := fl && is_data_first opc; h_rsv2 := false; h_rsv3 := false; h_opc := opc;
        h_masked := role_eqb role Client; h_key := if role_eqb role Client then keys (w_nkey s) else zero_key;
        h_plen := N.of_nat (length p) |}, p).
Proof. intros Ho (Hw & Hs). unfold wf_frame, wf_hdr. cbn [fst snd h_opc h_plen h_key h_masked].
  repeat split; auto.
  - destruct (role_eqb role Client); [apply keys_wf | apply zero_key_wf].
  - intro E. rewrite E. reflexivity. Qed.

(* per-frame conformance of a frame built by writeFrame *)
Lemma frame_ok_built s fin fl opc p opened :
  frame_ok role co opened (to_pf ({| h_fin := fin; h_rsv1 := fl && is_data_first opc; h_rsv2 := false; h_rsv3 := false; h_opc := opc;
        h_masked := role_eqb role Client; h_key := if role_eqb role Client then keys (w_nkey s) else zero_key;
        h_plen := N.of_nat (length p) |}, p)) =
  if is_control opc then
    if negb ((opc =? 8) || (opc =? 9) || (opc =? 10)) then None else
    if negb fin || (125 <? N.of_nat (length p)) || (fl && is_data_first opc) then None else
    if (opc =? 8) && negb (close_payload_ok p) then None else Some opened
  else if is_data_first opc then
    if opened then None else if (fl && true) && (match co with None => true | Some _ => false end) then None else Some (negb fin)
  else if opc =? 0 then
    if negb opened then None else Some (negb fin)
  else None.
Proof.
  unfold frame_ok, to_pf. cbn [fst snd pf_hdr pf_payload pf_hlen h_masked h_rsv2 h_rsv3 h_plen h_opc h_fin h_rsv1].
  rewrite Bool.eqb_reflx. cbn [negb orb].
  rewrite enc_hdr_length. cbn [h_plen h_masked]. rewrite Nat.eqb_refl. cbn [negb].
  rewrite N.eqb_refl. cbn [negb].
  destruct (is_control opc) eqn:Ec; [reflexivity|].
  destruct (is_data_first opc) eqn:Ed.
  - rewrite Bool.andb_true_r. reflexivity.
  - rewrite Bool.andb_false_r. destruct (opc =? 0); reflexivity.
Qed.

(* ---------------- invariants ---------------- *)
Definition InvS (s : wst) : Prop :=
  Forall wf_frame (w_out s) /\ conf role co false (frames_pf s) = Some false.

(* inside a message: if the Close frame has already been sent every frame of the message is refused and the wire
   is as it was between messages; otherwise the message is open on the wire exactly when its first frame went out *)
Definition InvM (m : mw) : Prop :=
  Forall wf_frame (w_out (m_s m)) /\
  (m_opc m = 0 \/ m_opc m = 1 \/ m_opc m = 2) /\
  conf role co false (frames_pf (m_s m)) = Some (if w_close_sent (m_s m) then false else (m_opc m =? 0)) /\
  (m_flate m = true -> co <> None) /\
  wf_bytes (m_tail m) /\ (length (m_tail m) <= 4)%nat.

Lemma frames_pf_write s fin fl opc p :
  frames_pf (write_frame_raw keys cfg s fin fl opc p) = frames_pf s ++
   [to_pf ({| h_fin := fin; h_rsv1 := fl && is_data_first opc; h_rsv2 := false; h_rsv3 := false; h_opc := opc;
        h_masked := role_eqb role Client; h_key := if role_eqb role Client then keys (w_nkey s) else zero_key;
        h_plen := N.of_nat (length p) |}, p)].
Proof. unfold frames_pf. rewrite write_frame_out, map_app. reflexivity. Qed.

Lemma close_sent_raw s fin fl opc p : w_close_sent (write_frame_raw keys cfg s fin fl opc p) = w_close_sent s || (opc =? 8).
Proof. reflexivity. Qed.

Lemma mw_frame_inv m p : InvM m -> wf_payload p -> InvM (mw_frame keys cfg m p).
Proof.
  intros (Hf & Ho & Hc & Hfl & Ht & Htl) Hp. unfold InvM, mw_frame. cbn [m_s m_opc m_flate m_tail].
  unfold write_frame.
  assert (Hn : negb ((m_opc m =? 9) || (m_opc m =? 10)) = true) by (destruct Ho as [->|[->| ->]]; reflexivity).
  rewrite Hn, Bool.andb_true_r.
  destruct (w_close_sent (m_s m)) eqn:Ecs.
  - (* refused *) rewrite Ecs. repeat split; auto.
  - rewrite close_sent_raw, Ecs.
    assert (H8 : (m_opc m =? 8) = false) by (destruct Ho as [->|[->| ->]]; reflexivity). rewrite H8. cbn [orb].
    split; [| split; [left; reflexivity | split; [| split; [exact Hfl | split; assumption]]]].
    + rewrite write_frame_out. apply Forall_app. split; [assumption|]. constructor; [|constructor].
      apply mk_frame_wf; [destruct Ho as [->|[->| ->]]; lia | assumption].
    + rewrite frames_pf_write, conf_app, Hc. cbn [conf]. rewrite frame_ok_built.
      destruct Ho as [E|[E|E]]; rewrite E in *; cbn [is_control is_data_first N.leb N.eqb N.compare Pos.compare Pos.compare_cont orb negb Pos.eqb andb]; try reflexivity.
      * rewrite Bool.andb_true_r.
        destruct (m_flate m) eqn:Efl; [|reflexivity]. destruct co; [reflexivity| exfalso; apply Hfl; reflexivity].
      * rewrite Bool.andb_true_r.
        destruct (m_flate m) eqn:Efl; [|reflexivity]. destruct co; [reflexivity| exfalso; apply Hfl; reflexivity].
Qed.

Lemma wf_payload_firstn n p : wf_payload p -> wf_payload (firstn n p).
Proof. intros (Hw & Hs). split; [apply wf_firstn; auto|]. unfold small in *. rewrite firstn_length. lia. Qed.
Lemma wf_payload_skipn n p : wf_payload p -> wf_payload (skipn n p).
Proof. intros (Hw & Hs). split; [apply wf_skipn; auto|]. unfold small in *. rewrite skipn_length. lia. Qed.
Lemma wf_payload_short p : wf_bytes p -> (length p <= 4)%nat -> wf_payload p.
Proof. intros Hw Hl. split; auto. unfold small. lia. Qed.

Lemma InvM_set_tail m t : InvM m -> wf_bytes t -> (length t <= 4)%nat ->
  InvM {| m_s := m_s m; m_opc := m_opc m; m_flate := m_flate m; m_tail := t; m_hist := m_hist m |}.
Proof. intros (Hf & Ho & Hc & Hfl & _ & _) Ht Hl. unfold InvM. cbn [m_s m_opc m_flate m_tail]. repeat split; auto. Qed.

Lemma mw_frame_tail m p : m_tail (mw_frame keys cfg m p) = m_tail m. Proof. reflexivity. Qed.

Lemma trim_write_inv m p : InvM m -> wf_payload p -> InvM (trim_write keys cfg m p).
Proof.
  intros Hm Hp. pose proof Hm as (Hf & Ho & Hc & Hfl & Ht & Htl). destruct Hp as (Hpw & Hps).
  unfold trim_write. cbv zeta.
  destruct (Nat.leb_spec (length (m_tail m) + length p) 4) as [Hle|Hgt].
  - apply InvM_set_tail; auto. + apply wf_app; auto. + rewrite app_length. lia.
  - set (extra := Nat.min (length (m_tail m) + length p - 4) (length (m_tail m))).
    assert (Hm1 : InvM (if Nat.ltb 0 extra then mw_frame keys cfg m (firstn extra (m_tail m)) else m)).
    { destruct (Nat.ltb 0 extra); [|assumption]. apply mw_frame_inv; auto. apply wf_payload_short; [apply wf_firstn; auto| rewrite firstn_length; lia]. }
    set (m1 := if Nat.ltb 0 extra then mw_frame keys cfg m (firstn extra (m_tail m)) else m) in *.
    destruct (Nat.leb_spec (length p) 4) as [Hp4|Hp4].
    + apply (InvM_set_tail m1); auto.
      * apply wf_app; auto. apply wf_skipn; auto.
      * rewrite app_length, skipn_length. unfold extra. lia.
    + apply mw_frame_inv.
      * apply (InvM_set_tail m1); auto.
        -- apply wf_app; [apply wf_skipn; auto | apply wf_skipn; auto].
        -- rewrite app_length, !skipn_length. unfold extra. lia.
      * apply wf_payload_firstn. split; auto.
Qed.

Lemma fold_trim_inv : forall cs m, InvM m -> Forall wf_payload cs -> InvM (fold_left (trim_write keys cfg) cs m).
Proof. induction cs as [|c cs IH]; intros m Hm Hc; cbn [fold_left]; auto.
  inversion Hc; subst. apply IH; auto. apply trim_write_inv; auto. Qed.

Lemma InvM_set_hist m h : InvM m -> InvM {| m_s := m_s m; m_opc := m_opc m; m_flate := m_flate m; m_tail := m_tail m; m_hist := h |}.
Proof. intros (Hf & Ho & Hc & Hfl & Ht & Htl). unfold InvM. cbn [m_s m_opc m_flate m_tail]. repeat split; auto. Qed.

Lemma mw_dz_inv m op : InvM m -> InvM (mw_dz keys dz cfg m op).
Proof. intro Hm. unfold mw_dz. cbv zeta. apply fold_trim_inv; [apply InvM_set_hist; auto | apply dz_wf]. Qed.

Lemma mw_write_inv m p : InvM m -> wf_payload p -> InvM (mw_write keys dz cfg m p).
Proof.
  intros Hm Hp. pose proof Hm as (Hf & Ho & Hc & Hfl & Ht & Htl).
  unfold mw_write. cbv zeta.
  set (on := match wc_co cfg with Some _ => _ | None => _ end).
  assert (Hon : on = true -> co <> None).
  { unfold on. destruct (wc_co cfg); [discriminate|]. exact Hfl. }
  assert (Hm1 : InvM {| m_s := m_s m; m_opc := m_opc m; m_flate := on; m_tail := m_tail m; m_hist := m_hist m |}).
  { unfold InvM. cbn [m_s m_opc m_flate m_tail]. repeat split; auto. }
  destruct on; [apply mw_dz_inv; auto | apply mw_frame_inv; auto].
Qed.

Lemma fold_mw_write_inv : forall cs m, InvM m -> Forall wf_payload cs -> InvM (fold_left (mw_write keys dz cfg) cs m).
Proof. induction cs as [|c cs IH]; intros m Hm Hc; cbn [fold_left]; auto.
  inversion Hc; subst. apply IH; auto. apply mw_write_inv; auto. Qed.

Lemma nil_payload : wf_payload []. Proof. split; [constructor| unfold small; cbn; lia]. Qed.

Lemma mw_close_inv m : InvM m -> InvS (mw_close keys dz cfg m).
Proof.
  intro Hm. unfold mw_close. cbv zeta.
  assert (Hm1 : InvM (if m_flate m then mw_dz keys dz cfg m DFlush else m)) by (destruct (m_flate m); [apply mw_dz_inv|]; auto).
  set (m1 := if m_flate m then mw_dz keys dz cfg m DFlush else m) in *.
  destruct Hm1 as (Hf & Ho & Hc & Hfl & Ht & Htl).
  unfold InvS. cbn [w_out]. unfold frames_pf at 1. cbn [w_out].
  unfold write_frame.
  assert (Hn : negb ((m_opc m1 =? 9) || (m_opc m1 =? 10)) = true) by (destruct Ho as [->|[->| ->]]; reflexivity).
  rewrite Hn, Bool.andb_true_r.
  destruct (w_close_sent (m_s m1)) eqn:Ecs.
  - split; [assumption|]. exact Hc.
  - split.
    + rewrite write_frame_out. apply Forall_app. split; [assumption|]. constructor; [|constructor].
      apply mk_frame_wf; [destruct Ho as [->|[->| ->]]; lia | apply nil_payload].
    + fold (frames_pf (write_frame_raw keys cfg (m_s m1) true (m_flate m1) (m_opc m1) [])).
      rewrite frames_pf_write, conf_app, Hc. cbn [conf]. rewrite frame_ok_built.
      destruct Ho as [E|[E|E]]; rewrite E in *; cbn [is_control is_data_first N.leb N.eqb N.compare Pos.compare Pos.compare_cont orb negb Pos.eqb andb]; try reflexivity.
      * rewrite Bool.andb_true_r.
        destruct (m_flate m1) eqn:Efl; [|reflexivity]. destruct co; [reflexivity| exfalso; apply Hfl; reflexivity].
      * rewrite Bool.andb_true_r.
        destruct (m_flate m1) eqn:Efl; [|reflexivity]. destruct co; [reflexivity| exfalso; apply Hfl; reflexivity].
Qed.

Lemma mw_open_inv s typ : InvS s -> (typ = 1 \/ typ = 2) -> InvM (mw_open s typ).
Proof. intros (Hf & Hc) Ht. unfold InvM, mw_open. cbn [m_s m_opc m_flate m_tail].
  repeat split; auto; try discriminate; try (constructor; fail); try (cbn; lia).
  rewrite Hc. destruct (w_close_sent s); [reflexivity|]. destruct Ht as [-> | ->]; reflexivity. Qed.

(* well-formed programs: what the API can be asked (payload bytes are bytes; Go lengths fit int64;
   message types are text/binary; control payloads are what Ping / the Pong echo produce) *)
Definition wf_op (op : wop) : Prop :=
  match op with
  | WWrite typ p => (typ = 1 \/ typ = 2) /\ wf_payload p
  | WStream typ cs => (typ = 1 \/ typ = 2) /\ Forall wf_payload cs
  | WControl opc p => (opc = 9 \/ opc = 10) /\ wf_bytes p /\ (length p <= 125)%nat
  | WClose code reason => wf_bytes reason
  end.

Lemma close_payload_ok_of code reason p : wf_bytes reason -> close_payload code reason = Some p ->
  close_payload_ok p = true /\ wf_bytes p /\ (length p <= 125)%nat.
Proof. intros Hw H. apply close_payload_shape in H. destruct H as [(_ & ->)|(Hv & Hl & ->)].
  - split; [reflexivity | split; [constructor | cbn; lia]].
  - destruct (close_codec_roundtrip code reason Hv Hl Hw) as (p' & _ & E & Hparse). rewrite <- E.
    assert (L : length p' = (2 + length reason)%nat) by (rewrite E, app_length, be_bytes_length; reflexivity).
    repeat split.
    + unfold close_payload_ok. destruct p' as [|x p'']; [reflexivity|]. rewrite Hparse. apply Nat.leb_le. lia.
    + rewrite E. apply wf_app; auto. apply be_bytes_wf.
    + lia. Qed.

Lemma write_frame_top_inv s fin fl opc p :
  InvS s -> opc < 16 -> wf_payload p ->
  (w_close_sent s = false \/ opc = 9 \/ opc = 10 ->
     frame_ok role co false (to_pf ({| h_fin := fin; h_rsv1 := fl && is_data_first opc; h_rsv2 := false; h_rsv3 := false; h_opc := opc;
        h_masked := role_eqb role Client; h_key := if role_eqb role Client then keys (w_nkey s) else zero_key;
        h_plen := N.of_nat (length p) |}, p)) = Some false) ->
  InvS (write_frame keys cfg s fin fl opc p).
Proof. intros (Hf & Hc) Ho Hp Hok. unfold write_frame.
  destruct (w_close_sent s && negb ((opc =? 9) || (opc =? 10))) eqn:E.
  - split; assumption.
  - split.
    + rewrite write_frame_out. apply Forall_app. split; [assumption|]. constructor; [|constructor]. apply mk_frame_wf; auto.
    + rewrite frames_pf_write, conf_app, Hc. cbn [conf]. rewrite Hok; [reflexivity|].
      destruct (w_close_sent s); [|left; reflexivity]. cbn [andb] in E. apply Bool.negb_false_iff in E.
      apply Bool.orb_true_iff in E. destruct E as [E|E]; apply N.eqb_eq in E; auto. Qed.

Lemma w_step_inv s op : InvS s -> wf_op op -> InvS (w_step keys dz cfg s op).
Proof.
  intros Hs Hop. destruct op as [typ p|typ cs|opc p|code reason]; cbn [wf_op] in Hop; unfold w_step.
  - destruct Hop as (Ht & Hp). destruct (wc_co cfg) eqn:Eco.
    + apply mw_close_inv, mw_write_inv; auto. apply mw_open_inv; auto.
    + apply write_frame_top_inv; auto; [destruct Ht as [-> | ->]; lia|].
      intros _. rewrite frame_ok_built. rewrite Eco. destruct Ht as [-> | ->]; reflexivity.
  - destruct Hop as (Ht & Hp). apply mw_close_inv, fold_mw_write_inv; auto. apply mw_open_inv; auto.
  - destruct Hop as (Ho & Hw & Hl). apply write_frame_top_inv; auto; [destruct Ho as [-> | ->]; lia | split; auto; unfold small; lia |].
    intros _. rewrite frame_ok_built. destruct (N.ltb_spec 125 (N.of_nat (length p))); [lia|].
    destruct Ho as [-> | ->]; reflexivity.
  - destruct (close_payload code reason) as [p|] eqn:Ecp; [|assumption].
    destruct (close_payload_ok_of _ _ _ Hop Ecp) as (Hok & Hw & Hl).
    apply write_frame_top_inv; auto; [lia | split; auto; unfold small; lia |].
    intros _. rewrite frame_ok_built. destruct (N.ltb_spec 125 (N.of_nat (length p))); [lia|].
    change (is_control 8) with true. cbn [N.eqb Pos.eqb orb negb andb is_data_first]. rewrite Hok. reflexivity.
Qed.

Lemma w_run_inv_from : forall prog s, InvS s -> Forall wf_op prog -> InvS (fold_left (w_step keys dz cfg) prog s).
Proof. induction prog as [|op prog IH]; intros s Hs Hp; cbn [fold_left]; auto.
  inversion Hp; subst. apply IH; auto. apply w_step_inv; auto. Qed.

Lemma InvS_init : InvS w_init.
Proof. split; [constructor | reflexivity]. Qed.

Theorem writer_conformant : forall prog, Forall wf_op prog ->
  let s := w_run keys dz cfg prog in
  parse (w_wire s) = (map to_pf (w_out s), PClean) /\
  wf_stream (wc_role cfg) (wc_co cfg) (map to_pf (w_out s)) = true.
Proof. intros prog Hp s. destruct (w_run_inv_from prog w_init InvS_init Hp) as (Hf & Hc).
  split.
  - unfold w_wire. apply parse_enc. exact Hf.
  - unfold wf_stream. rewrite wf_frames_conf. unfold frames_pf in Hc. unfold s, w_run. rewrite Hc. reflexivity. Qed.
End WriterInv.
