(* Proofs/GenTieP.v — the decision logic the translator reads off the source on every run (Gen/FrameCode.v: the two
   switches of writeFrameHeader, the switch and the length check of readFrameHeader, readRSV1Illegal,
   CompressionMode.opts) is what the hand-written model computes.  A change of a boundary, a comparison or a constant in
   one of those places of the source changes Gen/FrameCode.v and breaks a proof here. *)
From Coq Require Import List NArith ZArith Bool Lia.
From WS Require Import Base.Words Gen.Consts Gen.FrameCode Gen.ReadCode Gen.AcceptCode Gen.WriteCode Model.Base64 Model.Writer Model.Mask Model.Frame Model.Proto Model.Handshake Model.Reader Model.NetConn Proofs.ReaderP.
Import ListNotations.

Local Open Scope N_scope.

(* writeFrameHeader, first switch: the 7-bit length field *)
Theorem enc_b1_is_source : forall h,
  enc_b1 h = bit (h_masked h) 128 + Z.to_N (gen_len_code (Z.of_N (h_plen h))).
Proof.
  intro h. unfold enc_b1, gen_len_code. f_equal.
  destruct (N.ltb_spec 65535 (h_plen h)) as [H1|H1]; destruct (Z.ltb_spec 65535 (Z.of_N (h_plen h))) as [G1|G1]; try lia.
  destruct (N.ltb_spec 125 (h_plen h)) as [H2|H2]; destruct (Z.ltb_spec 125 (Z.of_N (h_plen h))) as [G2|G2]; try lia.
  destruct (Z.leb_spec 0 (Z.of_N (h_plen h))) as [G3|G3]; lia.
Qed.

(* writeFrameHeader, second switch: the bytes of extended length *)
Theorem enc_ext_is_source : forall h,
  length (enc_ext h) = Z.to_nat (gen_len_ext (Z.of_N (h_plen h))).
Proof.
  intro h. unfold enc_ext, gen_len_ext.
  destruct (N.ltb_spec 65535 (h_plen h)) as [H1|H1]; destruct (Z.ltb_spec 65535 (Z.of_N (h_plen h))) as [G1|G1]; try lia.
  - rewrite be_bytes_length. reflexivity.
  - destruct (N.ltb_spec 125 (h_plen h)) as [H2|H2]; destruct (Z.ltb_spec 125 (Z.of_N (h_plen h))) as [G2|G2]; try lia.
    + rewrite be_bytes_length. reflexivity.
    + reflexivity.
Qed.

(* readFrameHeader: how many bytes follow the 7-bit field *)
Theorem dec_ext_is_source : forall l7, l7 < 128 ->
  dec_ext l7 = Z.to_nat (gen_read_ext (Z.of_N l7)).
Proof.
  intros l7 H. unfold dec_ext, gen_read_ext.
  destruct (N.eqb_spec l7 126) as [E1|E1].
  - subst. reflexivity.
  - destruct (N.eqb_spec l7 127) as [E2|E2].
    + subst. reflexivity.
    + destruct (Z.ltb_spec (Z.of_N l7) 126) as [G|G]; [reflexivity|].
      destruct (Z.eqb_spec (Z.of_N l7) 126) as [G1|G1]; [lia|].
      destruct (Z.eqb_spec (Z.of_N l7) 127) as [G2|G2]; [lia|]. reflexivity.
Qed.

(* readFrameHeader keeps the 64-bit length in an int64: the value it tests is the two's-complement reading *)
Definition as_int64 (p : N) : Z := if p <? 9223372036854775808 then Z.of_N p else (Z.of_N p - 18446744073709551616)%Z.

Theorem dec_neg_is_source : forall p, p < 18446744073709551616 ->
  (9223372036854775808 <=? p) = gen_len_refused (as_int64 p).
Proof.
  intros p H. unfold gen_len_refused, as_int64.
  destruct (N.leb_spec 9223372036854775808 p) as [A|A]; destruct (N.ltb_spec p 9223372036854775808) as [B|B]; lia.
Qed.

(* readRSV1Illegal: the reserved-bit clause of the reader *)
Theorem rsv1_clause_is_source : forall fl opc,
  negb fl || negb (is_data_first opc) = gen_rsv1_illegal fl (Z.of_N opc).
Proof.
  intros fl opc. unfold gen_rsv1_illegal, is_data_first. destruct fl; cbn [negb orb]; [|reflexivity].
  destruct (N.eqb_spec opc 1) as [A|A]; destruct (Z.eqb_spec (Z.of_N opc) 1) as [A'|A']; try lia;
  destruct (N.eqb_spec opc 2) as [B|B]; destruct (Z.eqb_spec (Z.of_N opc) 2) as [B'|B']; try lia; reflexivity.
Qed.

(* so a frame whose RSV1 bit the SOURCE's readRSV1Illegal refuses is a violation for the model's reader (which
   read_loop_rejects shows is refused whatever follows) *)
Theorem rsv1_source_refused_is_violation : forall cfg h,
  h_rsv1 h = true -> gen_rsv1_illegal (flate_on cfg) (Z.of_N (h_opc h)) = true -> hdr_violation cfg h = true.
Proof.
  intros cfg h H1 H2. unfold hdr_violation. rewrite H1, rsv1_clause_is_source, H2. cbn [andb].
  rewrite Bool.orb_true_r. reflexivity.
Qed.

Local Close Scope N_scope.

(* CompressionMode.opts *)
Definition mode_code (m : cmode) : Z :=
  match m with MDisabled => c_CompressionDisabled | MTakeover => c_CompressionContextTakeover | MNoTakeover => c_CompressionNoContextTakeover end.

Theorem mode_opts_is_source : forall m,
  mode_opts m = {| cnct := fst (gen_mode_opts (mode_code m)); snct := snd (gen_mode_opts (mode_code m)) |}.
Proof. intro m. destruct m; reflexivity. Qed.

Theorem mode_codes_distinct : c_CompressionDisabled <> c_CompressionContextTakeover /\ c_CompressionDisabled <> c_CompressionNoContextTakeover /\
  c_CompressionContextTakeover <> c_CompressionNoContextTakeover.
Proof. repeat split; discriminate. Qed.

(* the numeric literals the hand-written models use for opcodes and the two payload limits are the source's constants
   (Gen/Consts.v is regenerated from the source on every run): 125 in handle_control / hdr_violation, 123 in the close
   codec, opcodes 0 / 1 / 2 / 8 / 9 / 10 throughout *)
Theorem model_literals_are_source :
  c_maxControlPayload = 125%Z /\ c_maxCloseReason = 123%Z /\
  c_opContinuation = 0%Z /\ c_opText = 1%Z /\ c_opBinary = 2%Z /\ c_opClose = 8%Z /\ c_opPing = 9%Z /\ c_opPong = 10%Z /\
  c_MessageText = c_opText /\ c_MessageBinary = c_opBinary /\ (c_maxCloseReason + 2 = c_maxControlPayload)%Z.
Proof. repeat split; reflexivity. Qed.


(* ---------------- Gen/ReadCode.v: the checks of readLoop and handleControl, the end-of-stream codes of netConn.read ---------------- *)

Local Open Scope N_scope.

(* handleControl's two checks *)
Theorem control_checks_are_source : forall h, h_plen h < 9223372036854775808 ->
  (125 <? h_plen h) || negb (h_fin h) = gen_control_refused (Z.of_N (h_plen h)) (h_fin h).
Proof.
  intros h Hp. unfold gen_control_refused.
  destruct (N.ltb_spec 125 (h_plen h)) as [A|A]; destruct (Z.ltb_spec 125 (Z.of_N (h_plen h))) as [B|B]; try lia;
  destruct (Z.ltb_spec (Z.of_N (h_plen h)) 0) as [C|C]; try lia; destruct (h_fin h); reflexivity.
Qed.

(* both of them send Close 1002 first, as the model's handle_control does *)
Theorem control_checks_all_close : forall n fin, gen_control_closing n fin = gen_control_refused n fin.
Proof. reflexivity. Qed.

(* the violation list of the model's reader (which read_loop_rejects shows refused, whatever follows) is: the checks
   readLoop makes on a decoded header, as translated from the source; a reserved opcode; the checks of handleControl
   on a control frame, as translated from the source *)
Theorem hdr_violation_is_source : forall cfg h, h_plen h < 9223372036854775808 ->
  hdr_violation cfg h =
    gen_readloop_refused (negb (is_server cfg)) (h_masked h) (h_rsv1 h) (h_rsv2 h) (h_rsv3 h) (gen_rsv1_illegal (flate_on cfg) (Z.of_N (h_opc h)))
    || negb ((h_opc h <=? 2) || ((8 <=? h_opc h) && (h_opc h <=? 10)))
    || (is_control (h_opc h) && gen_control_refused (Z.of_N (h_plen h)) (h_fin h)).
Proof.
  intros cfg h Hp. unfold hdr_violation. rewrite <- control_checks_are_source by exact Hp. rewrite rsv1_clause_is_source.
  unfold gen_readloop_refused.
  destruct (h_rsv1 h), (h_rsv2 h), (h_rsv3 h), (h_masked h), (is_server cfg), (gen_rsv1_illegal (flate_on cfg) (Z.of_N (h_opc h))); reflexivity.
Qed.

(* of readLoop's refusals exactly the reserved-bit one sends a Close frame first — and the model's read_loop does *)
Theorem readloop_closing_is_source : forall cfg fuel s h rest, r_closed s = false -> dec_hdr (r_inq s) = DecOk h rest ->
  gen_readloop_closing (negb (is_server cfg)) (h_masked h) (h_rsv1 h) (h_rsv2 h) (h_rsv3 h) (gen_rsv1_illegal (flate_on cfg) (Z.of_N (h_opc h))) = true ->
  read_loop cfg (S fuel) s = Err REOther (write_error (set_inq s rest) c_StatusProtocolError).
Proof.
  intros cfg fuel s h rest Hc Hd Hg. cbn [read_loop]. unfold read_hdr. rewrite Hc, Hd.
  unfold gen_readloop_closing in Hg. rewrite <- rsv1_clause_is_source in Hg. cbn [orb] in Hg. rewrite Hg. reflexivity.
Qed.

Theorem readloop_silent_refusal_is_source : forall cfg fuel s h rest, r_closed s = false -> dec_hdr (r_inq s) = DecOk h rest ->
  gen_readloop_closing (negb (is_server cfg)) (h_masked h) (h_rsv1 h) (h_rsv2 h) (h_rsv3 h) (gen_rsv1_illegal (flate_on cfg) (Z.of_N (h_opc h))) = false ->
  gen_readloop_refused (negb (is_server cfg)) (h_masked h) (h_rsv1 h) (h_rsv2 h) (h_rsv3 h) (gen_rsv1_illegal (flate_on cfg) (Z.of_N (h_opc h))) = true ->
  read_loop cfg (S fuel) s = Err REOther (set_inq s rest).
Proof.
  intros cfg fuel s h rest Hc Hd Hg Hr. cbn [read_loop]. unfold read_hdr. rewrite Hc, Hd.
  unfold gen_readloop_closing in Hg. unfold gen_readloop_refused in Hr. rewrite <- rsv1_clause_is_source in Hg, Hr. cbn [orb] in Hg, Hr.
  rewrite Hg in *. cbn [orb] in Hr.
  destruct (is_server cfg), (h_masked h); cbn [negb andb orb] in *; try discriminate; reflexivity.
Qed.

Local Close Scope N_scope.

(* netConn.read: the peer's close codes that read as io.EOF are those of the model's nc_read *)
Theorem netconn_eof_is_source : forall code,
  ((code =? c_StatusNormalClosure) || (code =? c_StatusGoingAway))%Z = gen_netconn_eof code.
Proof. reflexivity. Qed.

Theorem netconn_eof_read_is_source : forall f typ r n code closed,
  fst (nc_read (S f) {| nc_typ := typ; nc_cur := None; nc_eofed := false; nc_in := NClose code :: r; nc_closed1003 := closed |} n)
  = (if gen_netconn_eof code then NEOF else NErrClose code).
Proof.
  intros f typ r n code closed. cbn [nc_read nc_eofed nc_cur nc_in]. rewrite netconn_eof_is_source.
  destruct (gen_netconn_eof code); reflexivity.
Qed.


(* ---------------- Gen/AcceptCode.v: the order of the checks of verifyClientRequest and the status of each ---------------- *)

Definition req_key_decodes (r : hreq) : bool :=
  match hs_values (q_hdrs r) s_SecKey with k :: _ => match b64_decode (hs_trim k) with Some _ => true | None => false end | [] => false end.
Definition req_key_len (r : hreq) : Z :=
  match hs_values (q_hdrs r) s_SecKey with k :: _ => match b64_decode (hs_trim k) with Some d => Z.of_nat (length d) | None => 0%Z end | [] => 0%Z end.

(* the model's verify_client_request answers what the source's chain of checks answers, check by check, status by status *)
Theorem verify_client_request_is_source : forall r,
  Z.of_nat (verify_client_request r) =
  gen_verify_request (Nat.ltb 1 (q_major r) || (Nat.eqb (q_major r) 1 && Nat.leb 1 (q_minor r)))
    (hs_has_token (q_hdrs r) s_Connection s_Upgrade) (hs_has_token (q_hdrs r) s_Upgrade s_websocket)
    (hs_beq (q_method r) s_GET) (hs_beq (hs_get (q_hdrs r) s_SecVersion) s_13)
    (Z.of_nat (length (hs_values (q_hdrs r) s_SecKey))) (req_key_decodes r) (req_key_len r).
Proof.
  intro r. unfold verify_client_request, gen_verify_request, req_key_decodes, req_key_len.
  destruct (Nat.ltb 1 (q_major r) || (Nat.eqb (q_major r) 1 && Nat.leb 1 (q_minor r))); cbn [negb]; [|reflexivity].
  destruct (hs_has_token (q_hdrs r) s_Connection s_Upgrade); cbn [negb]; [|reflexivity].
  destruct (hs_has_token (q_hdrs r) s_Upgrade s_websocket); cbn [negb]; [|reflexivity].
  destruct (hs_beq (q_method r) s_GET); cbn [negb]; [|reflexivity].
  destruct (hs_beq (hs_get (q_hdrs r) s_SecVersion) s_13); cbn [negb]; [|reflexivity].
  destruct (hs_values (q_hdrs r) s_SecKey) as [|k [|k2 l]]; cbn [length].
  - reflexivity.
  - change (Z.eqb (Z.of_nat 1) 0) with false. change (Z.ltb 1 (Z.of_nat 1)) with false. cbv iota.
    destruct (b64_decode (hs_trim k)) as [d|]; cbn [negb orb]; [|reflexivity].
    destruct (Nat.eqb_spec (length d) 16) as [E|E].
    + rewrite E. reflexivity.
    + destruct (Z.eqb_spec (Z.of_nat (length d)) 16) as [E'|E']; [lia|]. reflexivity.
  - destruct (Z.eqb_spec (Z.of_nat (S (S (length l)))) 0) as [E|E]; [lia|].
    destruct (Z.ltb_spec 1 (Z.of_nat (S (S (length l))))) as [E'|E']; [reflexivity|lia].
Qed.


(* ---------------- Gen/WriteCode.v: the decisions of writeFrame ---------------- *)

(* a frame is refused after the Close frame exactly when the source's errCloseSent check says so; otherwise it is written *)
Theorem write_frame_is_source : forall keys cfg s fin fl opc p,
  write_frame keys cfg s fin fl opc p =
  if gen_refused_after_close (w_close_sent s) (Z.of_N opc) then s else write_frame_raw keys cfg s fin fl opc p.
Proof.
  intros keys cfg s fin fl opc p. unfold write_frame, gen_refused_after_close.
  assert (E9 : (opc =? 9)%N = (Z.of_N opc =? 9)%Z).
  { destruct (N.eqb_spec opc 9); destruct (Z.eqb_spec (Z.of_N opc) 9); try reflexivity; lia. }
  assert (E10 : (opc =? 10)%N = (Z.of_N opc =? 10)%Z).
  { destruct (N.eqb_spec opc 10); destruct (Z.eqb_spec (Z.of_N opc) 10); try reflexivity; lia. }
  rewrite E9, E10. destruct (w_close_sent s), (Z.of_N opc =? 9)%Z, (Z.of_N opc =? 10)%Z; reflexivity.
Qed.

(* a written frame sets the flag when the source does, carries RSV1 and the MASK bit when the source sets them *)
Theorem write_frame_raw_is_source : forall keys cfg s fin fl opc p,
  let s' := write_frame_raw keys cfg s fin fl opc p in
  w_close_sent s' = w_close_sent s || gen_sets_close_sent (Z.of_N opc) /\
  exists h, w_out s' = w_out s ++ [(h, p)] /\
            h_rsv1 h = gen_rsv1 fl (Z.of_N opc) /\ h_masked h = gen_masked (role_eqb (wc_role cfg) Client) /\
            h_rsv2 h = false /\ h_rsv3 h = false /\ h_fin h = fin /\ h_opc h = opc /\ h_plen h = N.of_nat (length p).
Proof.
  intros keys cfg s fin fl opc p. cbv zeta. unfold write_frame_raw. cbn [w_close_sent w_out]. split.
  - unfold gen_sets_close_sent. f_equal.
    destruct (N.eqb_spec opc 8); destruct (Z.eqb_spec (Z.of_N opc) 8); try reflexivity; lia.
  - eexists. split; [reflexivity|]. cbn [h_rsv1 h_masked h_rsv2 h_rsv3 h_fin h_opc h_plen]. repeat split.
    unfold gen_rsv1, is_data_first. f_equal.
    destruct (N.eqb_spec opc 1); destruct (Z.eqb_spec (Z.of_N opc) 1); try lia;
    destruct (N.eqb_spec opc 2); destruct (Z.eqb_spec (Z.of_N opc) 2); try lia; reflexivity.
Qed.

(* ---- msgWriter.Write: when a message becomes compressed; newConn: the default threshold ---- *)

Lemma mw_frame_flate keys cfg m p : m_flate (mw_frame keys cfg m p) = m_flate m.
Proof. reflexivity. Qed.

Lemma trim_write_flate keys cfg m p : m_flate (trim_write keys cfg m p) = m_flate m.
Proof.
  unfold trim_write. cbv zeta.
  destruct (Nat.leb (length (m_tail m) + length p) 4); [reflexivity|].
  destruct (Nat.ltb 0 (Nat.min (length (m_tail m) + length p - 4) (length (m_tail m))));
  destruct (Nat.leb (length p) 4); reflexivity.
Qed.

Lemma fold_trim_flate keys cfg : forall chunks m, m_flate (fold_left (trim_write keys cfg) chunks m) = m_flate m.
Proof. induction chunks as [|c r IH]; intro m; [reflexivity|]. cbn [fold_left]. rewrite IH. apply trim_write_flate. Qed.

Lemma mw_dz_flate keys dz cfg m op : m_flate (mw_dz keys dz cfg m op) = m_flate m.
Proof. unfold mw_dz. cbv zeta. rewrite fold_trim_flate. reflexivity. Qed.

(* after a Write the message is compressed iff it was already, or the source's condition for calling ensureFlate holds *)
Theorem mw_write_flag_is_source : forall keys dz cfg m p,
  m_flate (mw_write keys dz cfg m p) =
  m_flate m || gen_enable_flate (match wc_co cfg with Some _ => true | None => false end)
                 (Z.of_N (m_opc m)) (Z.of_nat (length p)) (Z.of_N (wc_thr cfg)).
Proof.
  intros keys dz cfg m p. unfold mw_write. cbv zeta.
  match goal with |- m_flate (if ?on then _ else _) = _ => set (b := on) end.
  assert (Hb : m_flate (if b then mw_dz keys dz cfg {| m_s := m_s m; m_opc := m_opc m; m_flate := b; m_tail := m_tail m; m_hist := m_hist m |} (DWrite p)
                        else mw_frame keys cfg {| m_s := m_s m; m_opc := m_opc m; m_flate := b; m_tail := m_tail m; m_hist := m_hist m |} p) = b).
  { destruct b; [rewrite mw_dz_flate | rewrite mw_frame_flate]; reflexivity. }
  rewrite Hb. unfold b, gen_enable_flate. destruct (wc_co cfg) as [o|]; cbn [andb]; [|rewrite Bool.orb_false_r; reflexivity].
  f_equal. f_equal.
  - destruct (N.eqb_spec (m_opc m) 0) as [A|A]; destruct (Z.eqb_spec (Z.of_N (m_opc m)) 0) as [B|B]; try reflexivity; lia.
  - destruct (N.leb_spec (wc_thr cfg) (N.of_nat (length p))) as [A|A]; destruct (Z.leb_spec (Z.of_N (wc_thr cfg)) (Z.of_nat (length p))) as [B|B]; try reflexivity; lia.
Qed.

(* the effective threshold of the model is the one newConn computes *)
Theorem wc_thr_is_source : forall c,
  wc_thr c = Z.to_N (gen_flate_threshold (match wc_co c with Some _ => true | None => false end) (Z.of_N (wc_thr0 c)) (wc_takeover c)).
Proof.
  intro c. unfold wc_thr, gen_flate_threshold. destruct (wc_co c) as [o|] eqn:E; cbn [andb].
  - destruct (N.eqb_spec (wc_thr0 c) 0) as [A|A]; destruct (Z.eqb_spec (Z.of_N (wc_thr0 c)) 0) as [B|B]; try lia;
      try (destruct (wc_takeover c); reflexivity); try (rewrite N2Z.id; reflexivity).
  - rewrite N2Z.id. reflexivity.
Qed.

(* ---- limitReader.Read and Conn.SetReadLimit (Gen/ReadCode.v) ---- *)

(* the model's "limit hit" is: there is a limit, and this read uses the allowance up — the source's two conditions *)
Theorem limit_hit_is_source : forall s got,
  limit_hit s got = negb (gen_limit_unlimited (r_lrn s)) && gen_limit_hit_after (r_lrn s - Z.of_nat got).
Proof.
  intros s got. unfold limit_hit, gen_limit_unlimited, gen_limit_hit_after. f_equal.
  destruct (Z.leb_spec 0 (r_lrn s)); destruct (Z.ltb_spec (r_lrn s) 0); try reflexivity; lia.
Qed.

(* a Read that finds the allowance exhausted fails with the limit error, puts Close 1009 on the wire and hands over nothing *)
Theorem limit_exhausted_is_source : forall cfg inflate fuel n s, r_closed s = false -> gen_limit_exhausted (r_lrn s) = true ->
  msg_read cfg inflate fuel n s = ([], Some RELimit, false, write_error s c_StatusMessageTooBig).
Proof.
  intros cfg inflate fuel n s Hc Hg. unfold msg_read. rewrite Hc. unfold gen_limit_exhausted in Hg. rewrite Hg. reflexivity.
Qed.

(* the buffer is cut down to the allowance exactly when the source does it (a limit, not exhausted, smaller than the buffer) *)
Theorem limit_clamp_is_source : forall lrn n,
  ((0 <? lrn) && (lrn <? Z.of_nat n))%Z =
  negb (gen_limit_unlimited lrn) && negb (gen_limit_exhausted lrn) && gen_limit_clamp (Z.of_nat n) lrn.
Proof.
  intros lrn n. unfold gen_limit_unlimited, gen_limit_exhausted, gen_limit_clamp.
  destruct (Z.ltb_spec 0 lrn); destruct (Z.ltb_spec lrn 0); destruct (Z.eqb_spec lrn 0); try lia; destruct (lrn <? Z.of_nat n)%Z; reflexivity.
Qed.

(* the allowance a connection starts with is what SetReadLimit stores for the default limit *)
Theorem initial_limit_is_source : c_initialLimitStored = gen_limit_stored c_defaultReadLimit.
Proof. reflexivity. Qed.
