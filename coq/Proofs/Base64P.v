(* Proofs/Base64P.v — base64 round trip, length and alphabet of the encoder. *)
From Coq Require Import List NArith Lia ZArith ZifyN ZifyNat ZifyBool Bool.
From WS Require Import Base.Words Model.Base64.
Import ListNotations.
Open Scope N_scope.
Ltac Zify.zify_post_hook ::= Z.div_mod_to_equations.

(* induction by groups of three *)
Lemma list_ind3 (A : Type) (P : list A -> Prop) :
  P [] -> (forall a, P [a]) -> (forall a b, P [a; b]) ->
  (forall a b c r, P r -> P (a :: b :: c :: r)) -> forall l, P l.
Proof.
  intros H0 H1 H2 H3.
  refine (fix F (l : list A) : P l :=
            match l with
            | [] => H0
            | [a] => H1 a
            | [a; b] => H2 a b
            | a :: b :: c :: r => H3 a b c r (F r)
            end).
Qed.

(* ---- the alphabet ---- *)

Lemma b64_enc_char_alpha i : b64_is_alpha (b64_enc_char i) = true.
Proof.
  unfold b64_enc_char, b64_is_alpha.
  destruct (N.ltb_spec i 26) as [H1|H1]; [lia|].
  destruct (N.ltb_spec i 52) as [H2|H2]; [lia|].
  destruct (N.ltb_spec i 62) as [H3|H3]; [lia|].
  destruct (N.eqb_spec i 62) as [H4|H4]; reflexivity.
Qed.

Lemma b64_alpha_not_nl c : b64_is_alpha c = true -> b64_is_nl c = false.
Proof. unfold b64_is_alpha, b64_is_nl. lia. Qed.

Lemma b64_alpha_not_pad c : b64_is_alpha c = true -> c <> b64_pad.
Proof. unfold b64_is_alpha, b64_pad. lia. Qed.

Lemma b64_dec_enc_char i : i < 64 -> b64_dec_char (b64_enc_char i) = Some i.
Proof.
  intro Hi. unfold b64_enc_char.
  destruct (N.ltb_spec i 26) as [H1|H1].
  { unfold b64_dec_char.
    replace ((65 <=? i + 65) && (i + 65 <=? 90)) with true by lia. f_equal; lia. }
  destruct (N.ltb_spec i 52) as [H2|H2].
  { unfold b64_dec_char.
    replace ((65 <=? i + 71) && (i + 71 <=? 90)) with false by lia.
    replace ((97 <=? i + 71) && (i + 71 <=? 122)) with true by lia. f_equal; lia. }
  destruct (N.ltb_spec i 62) as [H3|H3].
  { unfold b64_dec_char.
    replace ((65 <=? i - 4) && (i - 4 <=? 90)) with false by lia.
    replace ((97 <=? i - 4) && (i - 4 <=? 122)) with false by lia.
    replace ((48 <=? i - 4) && (i - 4 <=? 57)) with true by lia. f_equal; lia. }
  destruct (N.eqb_spec i 62) as [H4|H4].
  { subst i. reflexivity. }
  assert (i = 63) as -> by lia. reflexivity.
Qed.

Lemma b64_dec_pad : b64_dec_char b64_pad = None.
Proof. reflexivity. Qed.

(* ---- encoder output: alphabet, no newlines ---- *)

Definition b64_okc (c : N) : Prop := b64_is_alpha c = true \/ c = 61.

Lemma b64_okc_enc i : b64_okc (b64_enc_char i).
Proof. left. apply b64_enc_char_alpha. Qed.
Lemma b64_okc_pad : b64_okc b64_pad.
Proof. right. reflexivity. Qed.

Lemma b64_encode_okc : forall d, Forall b64_okc (b64_encode d).
Proof.
  induction d as [ | a | a b | a b c r IH ] using list_ind3; cbn [b64_encode];
    repeat (constructor; try apply b64_okc_enc; try apply b64_okc_pad).
  exact IH.
Qed.

Theorem b64_encode_alphabet : forall d, wf_bytes d ->
  Forall (fun c => b64_is_alpha c = true \/ c = 61) (b64_encode d).
Proof. intros d _. exact (b64_encode_okc d). Qed.

Lemma b64_strip_nl_id s : Forall b64_okc s -> b64_strip_nl s = s.
Proof.
  unfold b64_strip_nl. induction 1 as [ | c s Hc Hs IH ]; cbn [filter]; [reflexivity|].
  assert (b64_is_nl c = false) as ->.
  { destruct Hc as [Hc|Hc]; [apply b64_alpha_not_nl; exact Hc | subst c; reflexivity]. }
  cbn [negb]. rewrite IH. reflexivity.
Qed.

(* ---- length ---- *)

Theorem b64_encode_length : forall d, length (b64_encode d) = (4 * ((length d + 2) / 3))%nat.
Proof.
  induction d as [ | a | a b | a b c r IH ] using list_ind3; cbn [b64_encode length].
  - reflexivity.
  - reflexivity.
  - reflexivity.
  - rewrite IH. lia.
Qed.

(* ---- one quantum: pure arithmetic on bytes ---- *)

Lemma b64_quantum3 a b c : a < 256 -> b < 256 -> c < 256 ->
  let v := b64_val (a / 4 mod 64) (a mod 4 * 16 + b / 16 mod 16)
                   (b mod 16 * 4 + c / 64 mod 4) (c mod 64) in
  b64_byte0 v = a /\ b64_byte1 v = b /\ b64_byte2 v = c.
Proof.
  intros Ha Hb Hc v. subst v. unfold b64_val, b64_byte0, b64_byte1, b64_byte2.
  repeat split; lia.
Qed.

Lemma b64_quantum2 a b : a < 256 -> b < 256 ->
  let v := b64_val (a / 4 mod 64) (a mod 4 * 16 + b / 16 mod 16) (b mod 16 * 4) 0 in
  b64_byte0 v = a /\ b64_byte1 v = b.
Proof.
  intros Ha Hb v. subst v. unfold b64_val, b64_byte0, b64_byte1.
  split; lia.
Qed.

Lemma b64_quantum1 a : a < 256 ->
  b64_byte0 (b64_val (a / 4 mod 64) (a mod 4 * 16) 0 0) = a.
Proof. intros Ha. unfold b64_val, b64_byte0. lia. Qed.

(* ---- round trip ---- *)

Lemma b64_dec_quanta_encode : forall d, wf_bytes d -> b64_dec_quanta (b64_encode d) = Some d.
Proof.
  induction d as [ | a | a b | a b c r IH ] using list_ind3; intro Hwf.
  - reflexivity.
  - inversion Hwf as [ | a' r' Ha Hr ]; subst a' r'.
    cbn [b64_encode b64_dec_quanta].
    rewrite !b64_dec_enc_char by lia.
    rewrite b64_dec_pad.
    replace ((b64_pad =? b64_pad) && (b64_pad =? b64_pad) && b64_is_nil []) with true by reflexivity.
    rewrite b64_quantum1 by exact Ha. reflexivity.
  - inversion Hwf as [ | a' r' Ha Hr ]; subst a' r'.
    inversion Hr as [ | b' r' Hb Hr' ]; subst b' r'.
    cbn [b64_encode b64_dec_quanta].
    rewrite !b64_dec_enc_char by lia.
    rewrite b64_dec_pad.
    replace ((b64_pad =? b64_pad) && b64_is_nil []) with true by reflexivity.
    destruct (b64_quantum2 a b Ha Hb) as [E0 E1].
    rewrite E0, E1. reflexivity.
  - inversion Hwf as [ | a' r1 Ha Hr1 ]; subst a' r1.
    inversion Hr1 as [ | b' r2 Hb Hr2 ]; subst b' r2.
    inversion Hr2 as [ | c' r3 Hc Hr3 ]; subst c' r3.
    cbn [b64_encode b64_dec_quanta].
    rewrite !b64_dec_enc_char by lia.
    rewrite (IH Hr3).
    destruct (b64_quantum3 a b c Ha Hb Hc) as [E0 [E1 E2]].
    rewrite E0, E1, E2. reflexivity.
Qed.

Theorem b64_decode_encode : forall d, wf_bytes d -> b64_decode (b64_encode d) = Some d.
Proof.
  intros d Hwf. unfold b64_decode.
  rewrite b64_strip_nl_id by apply b64_encode_okc.
  apply b64_dec_quanta_encode. exact Hwf.
Qed.

Print Assumptions b64_decode_encode.
Print Assumptions b64_encode_length.
Print Assumptions b64_encode_alphabet.
